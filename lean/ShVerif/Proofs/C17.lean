import ShVerif.Proofs.L3Glob
import ShVerif.Proofs.C18
/-
  C17 — lemmas relating the translator (`next`/`topLoop`, the model of pattern.go) to the
  reference parser (`parseSeq`) and the two semantics (`Matches`, `GDen`).
-/
namespace ShVerif.L3

/-! ### unfolding lemmas -/

theorem next_cons (m : Mode) (total fuel : Nat) (prev c : Rune) (rest : Str) :
    next m total (fuel + 1) prev (c :: rest) =
      if m.ext && isExtOp c && rest.head? == some cLP then
        let start := total - (rest.length + 1)
        match group m total fuel cLP rest.tail with
        | .closed alts rest' =>
          if c = cBang then .neg start (total - rest'.length) cRP rest'
          else .tok (wrapOp c (.grp (altsRegex alts))) cRP rest'
        | .unterminated alts =>
          if c = cBang then .neg start total 0 []
          else .tok (wrapOp c (.ugrp (altsRegex alts))) 0 []
        | .err e => .err e
        | .neg s e p r => .neg s e p r
      else if c = cStar then
        if !m.filenames then .tok (.star .any) c rest
        else
          let singleBefore := prev == 0 || prev == cSlash
          match rest with
          | c2 :: rest2 =>
            if c2 = cStar then
              let singleAfter := rest2.isEmpty || rest2.head? == some cSlash
              if !m.noglobstar && singleBefore && singleAfter then
                let body := if !m.dotglob then globStarRe else .star .any
                match rest2 with
                | _ :: rest3 => .tok (.opt (.grp (.cat body (.chr cSlash)))) cSlash rest3
                | [] => .tok body c []
              else .tok (singleStar m singleBefore) c rest2
            else .tok (singleStar m singleBefore) c rest
          | [] => .tok (singleStar m singleBefore) c rest
      else if c = cQuest then
        .tok (if m.filenames then notSlash else .any) c rest
      else if c = cBS then
        match rest with
        | [] => .err .trailingBackslash
        | d :: rest' => .tok (.chr d) d rest'
      else if c = cLB then
        match bracket m.filenames rest with
        | .literal => .tok (.chr cLB) cLB rest
        | .err e => .err e
        | .closed neg st rest' =>
          if st.hasSlash then
            .tok (seqRegex ((cLB :: rest.take (rest.length - rest'.length)).map .chr)) cRB rest'
          else match st.deferred with
            | some e => .err e
            | none => .tok (.set neg st.items) cRB rest'
      else .tok (.chr c) c rest := by
  conv => lhs; rw [next.eq_def]
  all_goals rfl

theorem next_nil (m : Mode) (total fuel : Nat) (prev : Rune) : next m total (fuel + 1) prev [] = .eof := by
  conv => lhs; rw [next.eq_def]

theorem topLoop_succ (m : Mode) (total fuel : Nat) (prev : Rune) (rest : Str) :
    topLoop m total (fuel + 1) prev rest =
      match next m total (2 * total + 4) prev rest with
      | .eof => .ok (.eps, [])
      | .err e => .error e
      | .tok r p' rest' =>
        match topLoop m total fuel p' rest' with
        | .ok (b, negs) => .ok (.cat r b, negs)
        | .error e => .error e
      | .neg s e p' rest' =>
        match topLoop m total fuel p' rest' with
        | .ok (b, negs) => .ok (b, (s, e) :: negs)
        | .error e => .error e := by
  conv => lhs; rw [topLoop.eq_def]
  all_goals rfl

theorem supp_cons (m : Mode) (inGroup : Bool) (fuel : Nat) (pos : Pos) (prev c : Rune) (rest : Str) :
    supp m inGroup (fuel + 1) pos prev (c :: rest) =
      (let dotSens := m.filenames && !m.dotglob
      if c = cBS then
        match rest with
        | [] => true
        | d :: rest' =>
          !(dotSens && pos == .unknown && d == cDot) && supp m inGroup fuel (posAfter d) d rest'
      else if m.ext && isExtOp c && rest.head? == some cLP then
        if c = cBang then false
        else
          match scanGroup m.filenames (rest.length + 1) 0 [] [] rest.tail with
          | .error _ => false
          | .ok none => false
          | .ok (some (alts, rest')) =>
            (!dotSens || pos == .mid) &&
            alts.all (fun a => !(m.filenames && a.contains cSlash) && supp m true fuel .mid cLP a) &&
            supp m inGroup fuel (if dotSens then .unknown else .mid) cRP rest'
      else if c = cQuest then (!dotSens || pos == .mid) && supp m inGroup fuel .mid c rest
      else if c = cStar then
        if !m.filenames then supp m inGroup fuel .mid c rest
        else if !m.noglobstar && (prev == 0 || prev == cSlash) && rest.head? == some cStar
            && (rest.tail.isEmpty || rest.tail.head? == some cSlash) then
          match rest.tail with
          | _ :: rest3 => supp m inGroup fuel .start cSlash rest3
          | [] => true
        else
          let after := if pos == .mid then Pos.mid else Pos.unknown
          (!dotSens || pos != .unknown) &&
          !(m.ext && rest.head? == some cStar && rest.tail.head? == some cLP) &&
          (match rest with
           | c2 :: rest2 => if c2 = cStar then supp m inGroup fuel after c rest2
                            else supp m inGroup fuel after c rest
           | [] => true)
      else if c = cLB then
        bracketSupported m.filenames rest &&
        (match scanBracket m.filenames rest with
         | .ok neg items rest' =>
           !(m.filenames && (neg || items.any (·.mem cSlash))) &&
           !(m.nocase && items.any (·.isCls)) &&
           (!dotSens || pos == .mid) && supp m inGroup fuel .mid cRB rest'
         | .notBracket => supp m inGroup fuel .mid cLB rest
         | .malformed _ => true)
      else if inGroup && c == cLP then false
      else !(dotSens && pos == .unknown && c == cDot) && supp m inGroup fuel (posAfter c) c rest) := by
  conv => lhs; rw [supp.eq_def]
  all_goals rfl

/-! ### brackets: the loop of `regexpNext` against the reference scanner (outside filename mode) -/

theorem brLoop_cons (fn neg : Bool) (fuel : Nat) (st : BrSt) (prev c : Rune) (rest : Str) :
    brLoop fn neg (fuel + 1) st prev (c :: rest) =
    if c = cBS then
      match rest with
      | [] => brLoop fn neg fuel st c []
      | d :: rest' => brLoop fn neg fuel (pushItem st (.esc d) (fn && d == cSlash)) d rest'
    else if c = cDash then
      let e := rest.headD 0
      let st1 := pushItem st (.raw cDash) false
      let st2 := if e ≠ cRB ∧ prev > e ∧ st.deferred.isNone
                 then { st1 with deferred := some (.badRange prev e) } else st1
      brLoop fn neg fuel st2 c rest
    else if c = cRB then .closed neg st rest
    else if c = cLB then
      let (n, ce) := charClass rest
      let classErr := match ce, st.classErr with
        | some e, none => some (Err.cls e)
        | _, old => old
      let deferred := match ce, st.deferred with
        | some _, none => classErr
        | _, old => old
      let txt := rest.take n
      let st1 : BrSt :=
        { items := st.items ++ (if n > 0 then classItems txt else [.raw cLB]),
          hasSlash := st.hasSlash || (fn && n > 0 && txt.contains cSlash),
          deferred := deferred, classErr := classErr }
      brLoop fn neg fuel st1 (if n > 0 then txt.getLastD cLB else cLB) (rest.drop n)
    else
      brLoop fn neg fuel (pushItem st (.raw c) (fn && c == cSlash)) c rest := by
  conv => lhs; rw [brLoop.eq_def]
  all_goals rfl

theorem brLoop_nil (fn neg : Bool) (fuel : Nat) (st : BrSt) (prev : Rune) :
    brLoop fn neg (fuel + 1) st prev [] =
      match st.classErr with
      | some e => .err e
      | none => .literal := by
  conv => lhs; rw [brLoop.eq_def]
  all_goals rfl

theorem ofName_name (k : ClassName) : ClassName.ofName k.name = some k := by
  cases k <;> decide

/-- `charClass` (pattern.go) and `scanClass` (reference) classify an element the same way. -/
theorem charClass_scanClass (s : Str) :
    match scanClass s with
    | none => charClass s = (0, none)
    | some (n, .ok k) => charClass s = (n, none) ∧ 0 < n ∧ classItems (s.take n) = [.named k]
    | some (n, .error e) => charClass s = (n, some e) := by
  cases s with
  | nil => simp [scanClass, charClass]
  | cons c s1 =>
    unfold scanClass charClass
    by_cases hc : c = cColon
    · subst hc
      have h1 : ¬ (cColon = cDot ∨ cColon = cEq) := by decide
      simp only [h1, if_false, if_true]
      cases hcut : cut2 cColon cRB s1 with
      | none => simp
      | some p =>
        obtain ⟨name, after⟩ := p
        simp only []
        cases hn : ClassName.ofName name with
        | none => simp
        | some k =>
          simp only []
          refine ⟨trivial, by omega, ?_⟩
          have hs := cut2_spec _ _ _ _ _ hcut
          subst hs
          have : (cColon :: (name ++ cColon :: cRB :: after)).take (name.length + 3)
              = cColon :: (name ++ [cColon, cRB]) := by
            have e : name.length + 3 = (name.length + 2) + 1 := by omega
            rw [e, List.take_succ_cons]
            congr 1
            rw [List.take_append]
            have e1 : List.take (name.length + 2) name = name := List.take_of_length_le (by omega)
            have e2 : name.length + 2 - name.length = 2 := by omega
            rw [e1, e2]
            rfl
          rw [this]
          simp only [classItems, if_true]
          have h2 : (name ++ [cColon, cRB]).take ((name ++ [cColon, cRB]).length - 2) = name := by
            simp
          rw [h2, hn]
    · simp only [hc, if_false]
      by_cases hd : c = cDot ∨ c = cEq
      · simp only [hd, if_true]
        cases hcut : cut2 c cRB s1 with
        | none => simp
        | some p => obtain ⟨name, after⟩ := p; simp
      · simp [hd]

/-! #### how Go's regexp reads the items pattern.go writes, block by block -/

/-- One reference element and the items pattern.go writes for it. -/
inductive Blk : List CItem → BItem → Prop
  | cls (k : ClassName) : Blk [.named k] (.cls k)
  | single (x : CItem) : x.isNamed = false → x ≠ .raw cDash → Blk [x] (.ch x.char)
  | range (x : CItem) (hi : Rune) : x.isNamed = false → x ≠ .raw cDash →
      Blk [x, .raw cDash, .raw hi] (.range x.char hi)

inductive Blks : List CItem → List BItem → Prop
  | nil : Blks [] []
  | snoc {A B blk it} : Blks A B → Blk blk it → Blks (A ++ blk) (B ++ [it])

/-- The items do not start with a dash that Go's regexp could read as a range operator. -/
def DashSafe (T : List CItem) : Prop := ∀ b rest, T ≠ .raw cDash :: b :: rest

def convItem : BItem → CRange
  | .ch c => .range c c
  | .range lo hi => .range lo hi
  | .cls k => .named k

theorem convItem_mem (i : BItem) (y : Rune) : (convItem i).mem y = i.mem y := by
  cases i with
  | ch c =>
    simp only [convItem, CRange.mem, BItem.mem]
    by_cases h : y = c
    · subst h; simp
    · have : (y == c) = false := by simpa using h
      rw [this]
      have : ¬ (c ≤ y ∧ y ≤ c) := fun ⟨h1, h2⟩ => h (Nat.le_antisymm h2 h1)
      simpa using this
  | range lo hi => rfl
  | cls k => rfl

theorem parseItems_named (k : ClassName) (T : List CItem) :
    parseItems (.named k :: T) = (parseItems T).map (CRange.named k :: ·) := by
  conv => lhs; rw [parseItems.eq_def]

theorem parseItems_single (x : CItem) (T : List CItem) (hx : x.isNamed = false) (hT : DashSafe T) :
    parseItems (x :: T) = (parseItems T).map (CRange.range x.char x.char :: ·) := by
  cases x with
  | named k => simp [CItem.isNamed] at hx
  | raw c =>
    cases T with
    | nil => conv => lhs; rw [parseItems.eq_def]
    | cons d T' =>
      cases T' with
      | nil => conv => lhs; rw [parseItems.eq_def]
      | cons b T'' =>
        have hd : d ≠ .raw cDash := fun h => hT b T'' (by rw [h])
        conv => lhs; rw [parseItems.eq_def]
        simp [hd]
  | esc c =>
    cases T with
    | nil => conv => lhs; rw [parseItems.eq_def]
    | cons d T' =>
      cases T' with
      | nil => conv => lhs; rw [parseItems.eq_def]
      | cons b T'' =>
        have hd : d ≠ .raw cDash := fun h => hT b T'' (by rw [h])
        conv => lhs; rw [parseItems.eq_def]
        simp [hd]

theorem parseItems_range (x : CItem) (hi : Rune) (T : List CItem) (hx : x.isNamed = false)
    (hv : x.char ≤ hi) :
    parseItems (x :: .raw cDash :: .raw hi :: T) = (parseItems T).map (CRange.range x.char hi :: ·) := by
  cases x with
  | named k => simp [CItem.isNamed] at hx
  | raw c =>
    conv => lhs; rw [parseItems.eq_def]
    simp only [CItem.char] at hv
    simp [CItem.isNamed, CItem.char, hv]
  | esc c =>
    conv => lhs; rw [parseItems.eq_def]
    simp only [CItem.char] at hv
    simp [CItem.isNamed, CItem.char, hv]

theorem parseItems_blk {blk : List CItem} {it : BItem} {T : List CItem} (hb : Blk blk it)
    (hT : DashSafe T) (hv : ∀ lo hi, it = .range lo hi → lo ≤ hi) :
    parseItems (blk ++ T) = (parseItems T).map (convItem it :: ·) := by
  cases hb with
  | cls k => exact parseItems_named k T
  | single x hx _ => exact parseItems_single x T hx hT
  | range x hi hx _ => exact parseItems_range x hi T hx (hv _ _ rfl)

theorem Blk_dashSafe {blk : List CItem} {it : BItem} (hb : Blk blk it) (T : List CItem) :
    DashSafe (blk ++ T) := by
  intro b rest h
  cases hb with
  | cls k => simp at h
  | single x _ hd => simp at h; exact hd h.1
  | range x hi _ hd => simp at h; exact hd h.1

theorem parseItems_blks {A : List CItem} {B : List BItem} (h : Blks A B)
    (hv : ∀ lo hi, BItem.range lo hi ∈ B → lo ≤ hi) :
    ∀ T, DashSafe T → parseItems (A ++ T) = (parseItems T).map (B.map convItem ++ ·) := by
  induction h with
  | nil => intro T _; simp
  | @snoc A B blk it hAB hb ih =>
    intro T hT
    have hvB : ∀ lo hi, BItem.range lo hi ∈ B → lo ≤ hi :=
      fun lo hi hm => hv lo hi (List.mem_append_left _ hm)
    have hvi : ∀ lo hi, it = .range lo hi → lo ≤ hi :=
      fun lo hi he => hv lo hi (by simp [he])
    rw [List.append_assoc, ih hvB _ (Blk_dashSafe hb T), parseItems_blk hb hT hvi]
    cases parseItems T with
    | none => rfl
    | some rs => simp

/-! #### the simulation -/

theorem brSupported_cons (fn : Bool) (fuel : Nat) (first : Bool) (c : Rune) (rest : Str) :
    brSupported fn (fuel + 1) first (c :: rest) =
    if c = cRB ∧ !first then true
    else
      match (if c = cLB then scanClass rest else none) with
      | some (n, _) => !(fn && (rest.take n).contains cSlash) && brSupported fn fuel false (rest.drop n)
      | none =>
        match elemChar (c :: rest) with
        | none => true
        | some (lo, esc, r1) =>
          if fn && lo == cSlash then false
          else if c = cDash ∧ !esc then
            r1.head? == some cRB && brSupported fn fuel false r1
          else
            match r1 with
            | d :: r2 =>
              if d = cDash ∧ r2.head? ≠ some cRB then
                match r2 with
                | hi :: r3 =>
                  hi != cBS && hi != cLB && hi != cDash && !(fn && hi == cSlash) && brSupported fn fuel false r3
                | [] => true
              else brSupported fn fuel false r1
            | [] => true := by
  conv => lhs; rw [brSupported.eq_def]
  all_goals rfl

/-- Relation between the variables of pattern.go's bracket loop and the reference scan state, at
    an element boundary (outside filename mode). -/
structure Sim (stG : BrSt) (stS : BSt) : Prop where
  noSlashG : stG.hasSlash = false
  noSlashS : stS.slash = false
  deferred : stG.deferred = stS.rangeErr
  classErr : stG.classErr = stS.classErr
  clsImp : stS.rangeErr = none → stS.classErr = none
  items : stS.rangeErr = none →
    Blks stG.items stS.items ∧ ∀ lo hi, BItem.range lo hi ∈ stS.items → lo ≤ hi

/-- The same at the closing bracket, where the last element may be a literal dash. -/
structure SimFinal (stG : BrSt) (stS : BSt) : Prop where
  noSlashG : stG.hasSlash = false
  noSlashS : stS.slash = false
  deferred : stG.deferred = stS.rangeErr
  items : stS.rangeErr = none →
    ∃ A B T Tb, stG.items = A ++ T ∧ stS.items = B ++ Tb ∧ Blks A B ∧
      (∀ lo hi, BItem.range lo hi ∈ B → lo ≤ hi) ∧
      ((T = [] ∧ Tb = []) ∨ (T = [.raw cDash] ∧ Tb = [.ch cDash]))

/-- What the two scanners must say at the end. -/
def Out (neg : Bool) (res : BSt × Option Str) (g : BrRes) (r : Str) : Prop :=
  match res.2 with
  | some rest' => ∃ stG', g = .closed neg stG' rest' ∧ SimFinal stG' res.1 ∧ rest'.length < r.length
  | none => g = (match res.1.classErr with
                 | some e => .err e
                 | none => .literal)

/-- The statement of the simulation for reference fuel `fS`. -/
def SimLoop (fS : Nat) : Prop :=
  ∀ (fG fB : Nat) (first : Bool) (stG : BrSt) (stS : BSt) (prev : Rune) (r : Str) (neg : Bool),
    r.length < fG → r.length < fS → (first = true → r.head? ≠ some cRB) →
    brSupported false fB first r = true → Sim stG stS →
    Out neg (scanItems false fS first stS r) (brLoop false neg fG stG prev r) r

theorem Out_mono {neg : Bool} {res : BSt × Option Str} {g : BrRes} {r r' : Str}
    (h : Out neg res g r) (hl : r.length ≤ r'.length) : Out neg res g r' := by
  unfold Out at h ⊢
  cases h2 : res.2 with
  | none => simpa [h2] using h
  | some rest' =>
    simp only [h2] at h ⊢
    obtain ⟨stG', h1, h3, h4⟩ := h
    exact ⟨stG', h1, h3, Nat.lt_of_lt_of_le h4 hl⟩

theorem Sim.push_single {stG : BrSt} {stS : BSt} (h : Sim stG stS) (x : CItem)
    (hx : x.isNamed = false) (hd : x ≠ .raw cDash) :
    Sim (pushItem stG x false) { stS with items := stS.items ++ [.ch x.char] } := by
  refine ⟨by simp [pushItem, h.noSlashG], h.noSlashS, h.deferred, h.classErr, h.clsImp, ?_⟩
  intro hr
  obtain ⟨hb, hv⟩ := h.items hr
  refine ⟨?_, ?_⟩
  · simpa [pushItem] using Blks.snoc hb (Blk.single x hx hd)
  · intro lo hi hm
    simp at hm
    exact hv lo hi hm

/-- The reference scan after the first character `lo` of an element (the tail of `scanItems`,
    filename mode off). -/
def afterLoS (fS : Nat) (st : BSt) (lo : Rune) (r1 : Str) : BSt × Option Str :=
  match r1 with
  | d :: r2 =>
    if d = cDash ∧ r2.head? ≠ some cRB then
      match elemChar r2 with
      | none => (st, none)
      | some (hi, _, r3) =>
        scanItems false fS false
          (if hi < lo then
            ({ st with items := st.items ++ [.range lo hi] } : BSt).addErr (.badRange lo hi) false
           else { st with items := st.items ++ [.range lo hi] }) r3
    else scanItems false fS false { st with items := st.items ++ [.ch lo] } r1
  | [] => (st, none)

def suppAfterLo (fB : Nat) (r1 : Str) : Bool :=
  match r1 with
  | d :: r2 =>
    if d = cDash ∧ r2.head? ≠ some cRB then
      match r2 with
      | hi :: r3 =>
        hi != cBS && hi != cLB && hi != cDash && !(false && hi == cSlash) && brSupported false fB false r3
      | [] => true
    else brSupported false fB false r1
  | [] => true

theorem ite_classErr (c : Prop) [Decidable c] (a b : BrSt) (h : a.classErr = b.classErr) :
    (if c then a else b).classErr = b.classErr := by
  split
  · exact h
  · rfl

theorem sim_afterLo (fS : Nat) (ih : SimLoop fS) (fG fB : Nat) (stG : BrSt) (stS : BSt) (x : CItem)
    (lo : Rune) (r1 : Str) (neg : Bool) (hx : x.isNamed = false) (hd : x ≠ .raw cDash)
    (hlo : x.char = lo) (hG : r1.length < fG) (hS : r1.length < fS)
    (hsup : suppAfterLo fB r1 = true) (hsim : Sim stG stS) :
    Out neg (afterLoS fS stS lo r1) (brLoop false neg fG (pushItem stG x false) lo r1) (lo :: r1) := by
  cases r1 with
  | nil =>
    cases fG with
    | zero => simp at hG
    | succ f =>
      simp only [afterLoS, Out, brLoop_nil, pushItem, hsim.classErr]
  | cons d r2 =>
    simp only [afterLoS, suppAfterLo] at hsup ⊢
    by_cases hr : d = cDash ∧ r2.head? ≠ some cRB
    · simp only [if_pos hr] at hsup ⊢
      obtain ⟨rfl, hr2⟩ := hr
      cases fG with
      | zero => simp at hG
      | succ f =>
      rw [brLoop_cons]
      have e1 : cDash ≠ cBS := by decide
      simp only [e1, if_false, if_true]
      cases r2 with
      | nil =>
        -- "[a-" at the very end: never closes
        cases f with
        | zero => simp at hG
        | succ f' =>
          simp only [elemChar, Out, brLoop_nil]
          by_cases hq : (([] : Str).headD 0 ≠ cRB ∧ lo > ([] : Str).headD 0 ∧
              (pushItem stG x false).deferred.isNone = true)
          · rw [if_pos hq]; simp [pushItem, hsim.classErr]
          · rw [if_neg hq]; simp [pushItem, hsim.classErr]
      | cons hi r3 =>
        simp only [Bool.and_eq_true, bne_iff_ne, ne_eq, Bool.false_and, Bool.not_false,
          Bool.and_true] at hsup
        obtain ⟨⟨⟨h1, h2⟩, h3⟩, hb⟩ := hsup
        have h4 : hi ≠ cRB := by
          intro h; subst h; simp at hr2
        have hel : elemChar (hi :: r3) = some (hi, false, r3) := by simp [elemChar, h1]
        simp only [hel, List.headD_cons]
        cases f with
        | zero => simp at hG
        | succ f' =>
          rw [brLoop_cons]
          simp only [h1, h3, h4, h2, if_false]
          have hG' : r3.length < f' := by simp at hG; omega
          have hS' : r3.length < fS := by simp at hS; omega
          -- the new states are related
          have hnew : Sim
              (pushItem
                (if hi ≠ cRB ∧ lo > hi ∧ (pushItem stG x false).deferred.isNone = true then
                  { pushItem (pushItem stG x false) (.raw cDash) false with deferred := some (.badRange lo hi) }
                 else pushItem (pushItem stG x false) (.raw cDash) false)
                (.raw hi) (false && hi == cSlash))
              (if hi < lo then
                ({ stS with items := stS.items ++ [.range lo hi] } : BSt).addErr (.badRange lo hi) false
               else { stS with items := stS.items ++ [.range lo hi] }) := by
            by_cases hlt : hi < lo
            · simp only [hlt, if_true, h4, ne_eq, not_false_eq_true, gt_iff_lt, true_and]
              cases hdef : stS.rangeErr with
              | none =>
                have hdg : stG.deferred = none := by rw [hsim.deferred, hdef]
                refine ⟨?_, ?_, ?_, ?_, ?_, ?_⟩
                · simp [pushItem, hdg, hsim.noSlashG]
                · simp [BSt.addErr, hsim.noSlashS]
                · simp [pushItem, hdg, BSt.addErr, hdef]
                · simp [pushItem, hdg, BSt.addErr, hsim.classErr]
                · intro h; simp [BSt.addErr, hdef] at h
                · intro h; simp [BSt.addErr, hdef] at h
              | some e0 =>
                have hdg : stG.deferred = some e0 := by rw [hsim.deferred, hdef]
                refine ⟨?_, ?_, ?_, ?_, ?_, ?_⟩
                · simp [pushItem, hdg, hsim.noSlashG]
                · simp [BSt.addErr, hsim.noSlashS]
                · simp [pushItem, hdg, BSt.addErr, hdef]
                · simp [pushItem, hdg, BSt.addErr, hsim.classErr]
                · intro h; simp [BSt.addErr, hdef] at h
                · intro h; simp [BSt.addErr, hdef] at h
            · have hnl : ¬ lo > hi := hlt
              simp only [hlt, if_false, hnl, false_and, and_false]
              refine ⟨?_, ?_, ?_, ?_, ?_, ?_⟩
              · simp [pushItem, hsim.noSlashG]
              · simp [hsim.noSlashS]
              · simp [pushItem, hsim.deferred]
              · simp [pushItem, hsim.classErr]
              · exact hsim.clsImp
              · intro h
                obtain ⟨hbk, hv⟩ := hsim.items h
                refine ⟨?_, ?_⟩
                · have := Blks.snoc hbk (Blk.range x hi hx hd)
                  simpa [pushItem, hlo] using this
                · intro lo' hi' hm
                  simp at hm
                  rcases hm with hm | ⟨rfl, rfl⟩
                  · exact hv _ _ hm
                  · exact Nat.le_of_not_lt hlt
          have := ih f' fB false _ _ hi r3 neg hG' hS' (by simp) hb hnew
          exact Out_mono this (by simp; omega)
    · simp only [hr, if_false] at hsup ⊢
      have hS' : (d :: r2).length < fS := hS
      have := ih fG fB false _ _ lo (d :: r2) neg hG hS' (by simp) hsup
        (hsim.push_single x hx hd)
      rw [hlo] at this
      exact Out_mono this (by simp)

theorem Sim.final {stG : BrSt} {stS : BSt} (h : Sim stG stS) : SimFinal stG stS := by
  refine ⟨h.noSlashG, h.noSlashS, h.deferred, ?_⟩
  intro hr
  obtain ⟨hb, hv⟩ := h.items hr
  exact ⟨stG.items, stS.items, [], [], by simp, by simp, hb, hv, .inl ⟨rfl, rfl⟩⟩

theorem sim_loop : ∀ fS, SimLoop fS := by
  intro fS
  induction fS with
  | zero => intro fG fB first stG stS prev r neg _ hS; simp at hS
  | succ fS ih =>
    intro fG fB first stG stS prev r neg hG hS hfirst hsup hsim
    cases fG with
    | zero => simp at hG
    | succ f =>
    cases r with
    | nil =>
      rw [brLoop_nil]
      have : scanItems false (fS + 1) first stS [] = (stS, none) := by rw [scanItems.eq_def]
      rw [this]
      simp only [Out, hsim.classErr]
    | cons c rest =>
      have hG' : rest.length < f := by simp at hG; omega
      have hS' : rest.length < fS := by simp at hS; omega
      cases fB with
      | zero => rw [brSupported.eq_def] at hsup; simp at hsup
      | succ fB =>
      rw [scanItems_cons]
      rw [brSupported_cons] at hsup
      by_cases hclose : c = cRB ∧ (!first) = true
      · -- the closing bracket
        simp only [hclose, and_self, if_true]
        obtain ⟨rfl, _⟩ := hclose
        rw [brLoop_cons]
        have e1 : cRB ≠ cBS := by decide
        have e2 : cRB ≠ cDash := by decide
        simp only [e1, e2, if_false, if_true, Out]
        exact ⟨stG, rfl, hsim.final, by simp⟩
      · simp only [hclose, if_false] at hsup ⊢
        have hnrb : c ≠ cRB := by
          intro h
          subst h
          cases first with
          | true => exact hfirst rfl rfl
          | false => exact hclose ⟨rfl, rfl⟩
        cases hsc : (if c = cLB then scanClass rest else none) with
        | some p =>
          obtain ⟨n, res⟩ := p
          have hlb : c = cLB := by
            by_cases h : c = cLB
            · exact h
            · simp [h] at hsc
          subst hlb
          simp only [if_true] at hsc
          simp only [hsc, Bool.false_and, Bool.not_false, Bool.true_and] at hsup ⊢
          have hcc := charClass_scanClass rest
          rw [hsc] at hcc
          rw [brLoop_cons]
          have e1 : cLB ≠ cBS := by decide
          have e2 : cLB ≠ cDash := by decide
          have e3 : cLB ≠ cRB := by decide
          simp only [e1, e2, e3, if_false, if_true]
          have hlen : (rest.drop n).length < f := by
            have := List.length_drop (i := n) (l := rest); omega
          have hlen' : (rest.drop n).length < fS := by
            have := List.length_drop (i := n) (l := rest); omega
          cases res with
          | ok k =>
            simp only at hcc
            obtain ⟨hc1, hc2, hc3⟩ := hcc
            rw [hc1]
            simp only [hc2, if_true, hc3, Bool.false_and, Bool.or_false, decide_true]
            have hnew : Sim
                { items := stG.items ++ [.named k], hasSlash := stG.hasSlash,
                  deferred := stG.deferred, classErr := stG.classErr }
                { stS with items := stS.items ++ [.cls k] } := by
              refine ⟨hsim.noSlashG, hsim.noSlashS, hsim.deferred, hsim.classErr, hsim.clsImp, ?_⟩
              intro hr
              obtain ⟨hb, hv⟩ := hsim.items hr
              refine ⟨Blks.snoc hb (Blk.cls k), ?_⟩
              intro lo hi hm
              simp at hm
              exact hv _ _ hm
            have := ih f fB false _ _ ((rest.take n).getLastD cLB) (rest.drop n) neg hlen hlen'
              (by simp) hsup hnew
            exact Out_mono this (by simp; have := List.length_drop (i := n) (l := rest); omega)
          | error e =>
            simp only at hcc
            rw [hcc]
            simp only [Bool.false_and, Bool.or_false]
            have hnew : Sim
                { items := stG.items ++ (if n > 0 then classItems (rest.take n) else [.raw cLB]),
                  hasSlash := stG.hasSlash,
                  deferred := (match (some e : Option ClsErr), stG.deferred with
                    | some _, none => (match (some e : Option ClsErr), stG.classErr with
                        | some e, none => some (Err.cls e)
                        | _, old => old)
                    | _, old => old),
                  classErr := (match (some e : Option ClsErr), stG.classErr with
                    | some e, none => some (Err.cls e)
                    | _, old => old) }
                (stS.addErr (.cls e) true) := by
              cases hdef : stS.rangeErr with
              | none =>
                have hce := hsim.clsImp hdef
                have hdg : stG.deferred = none := by rw [hsim.deferred, hdef]
                have hcg : stG.classErr = none := by rw [hsim.classErr, hce]
                refine ⟨hsim.noSlashG, by simp [BSt.addErr, hsim.noSlashS], ?_, ?_, ?_, ?_⟩
                · simp [hdg, hcg, BSt.addErr, hdef]
                · simp [hcg, BSt.addErr, hce]
                · intro h; simp [BSt.addErr, hdef] at h
                · intro h; simp [BSt.addErr, hdef] at h
              | some e0 =>
                have hdg : stG.deferred = some e0 := by rw [hsim.deferred, hdef]
                refine ⟨hsim.noSlashG, by simp [BSt.addErr, hsim.noSlashS], ?_, ?_, ?_, ?_⟩
                · simp [hdg, BSt.addErr, hdef]
                · cases hce : stS.classErr with
                  | none =>
                    have hcg : stG.classErr = none := by rw [hsim.classErr, hce]
                    simp [hcg, BSt.addErr, hce]
                  | some e1 =>
                    have hcg : stG.classErr = some e1 := by rw [hsim.classErr, hce]
                    simp [hcg, BSt.addErr, hce]
                · intro h; simp [BSt.addErr, hdef] at h
                · intro h; simp [BSt.addErr, hdef] at h
            have := ih f fB false _ _ (if n > 0 then (rest.take n).getLastD cLB else cLB) (rest.drop n) neg
              hlen hlen' (by simp) hsup hnew
            exact Out_mono this (by simp; have := List.length_drop (i := n) (l := rest); omega)
        | none =>
          simp only [hsc] at hsup ⊢
          by_cases hbs : c = cBS
          · -- an escaped character
            subst hbs
            cases rest with
            | nil =>
              simp only [elemChar, if_true, Out]
              rw [brLoop_cons]
              simp only [if_true]
              cases f with
              | zero => simp at hG
              | succ f' => rw [brLoop_nil]; simp [hsim.classErr]
            | cons d rest' =>
              have hel : elemChar (cBS :: d :: rest') = some (d, true, rest') := by simp [elemChar]
              simp only [hel, Bool.false_and, Bool.false_eq_true, if_false, Bool.or_false] at hsup ⊢
              have hnd : ¬ (cBS = cDash ∧ (!true) = true) := by simp
              simp only [hnd, if_false] at hsup
              rw [brLoop_cons]
              simp only [if_true, Bool.false_and]
              have hx : (CItem.esc d).isNamed = false := rfl
              have hdd : CItem.esc d ≠ .raw cDash := by simp
              have := sim_afterLo fS ih f fB stG stS (.esc d) d rest' neg hx hdd rfl
                (by simp at hG'; omega) (by simp at hS'; omega) hsup hsim
              exact Out_mono this (by simp)
          · have hel : elemChar (c :: rest) = some (c, false, rest) := by simp [elemChar, hbs]
            simp only [hel, Bool.false_and, Bool.false_eq_true, if_false, Bool.or_false] at hsup ⊢
            by_cases hdash : c = cDash
            · -- a literal dash: only just before the closing bracket
              subst hdash
              simp only [Bool.not_false, and_self, if_true, Bool.and_eq_true, beq_iff_eq] at hsup
              obtain ⟨hh, _⟩ := hsup
              cases rest with
              | nil => simp at hh
              | cons d rest' =>
                simp only [List.head?_cons, Option.some.injEq] at hh
                subst hh
                have e0 : ¬ (cRB = cDash ∧ rest'.head? ≠ some cRB) := by
                  intro h; exact absurd h.1 (by decide)
                simp only [e0, if_false]
                cases fS with
                | zero => simp at hS'
                | succ fS' =>
                rw [scanItems_cons]
                simp only [Bool.not_false, and_self, if_true, Out]
                rw [brLoop_cons]
                have e1 : cDash ≠ cBS := by decide
                simp only [e1, if_false, if_true, List.headD_cons]
                cases f with
                | zero => simp at hG'
                | succ f' =>
                rw [brLoop_cons]
                have e2 : cRB ≠ cBS := by decide
                have e3 : cRB ≠ cDash := by decide
                simp only [e2, e3, if_false, if_true, ne_eq, not_true_eq_false, false_and]
                refine ⟨_, rfl, ?_, by simp; omega⟩
                refine ⟨by simp [pushItem, hsim.noSlashG], by simp [hsim.noSlashS],
                  by simp [pushItem, hsim.deferred], ?_⟩
                intro hr
                obtain ⟨hb, hv⟩ := hsim.items hr
                exact ⟨stG.items, stS.items, [.raw cDash], [.ch cDash], by simp [pushItem], by simp,
                  hb, hv, .inr ⟨rfl, rfl⟩⟩
            · have hnd : ¬ (c = cDash ∧ (!false) = true) := by simp [hdash]
              simp only [hnd, if_false] at hsup
              have hx : (CItem.raw c).isNamed = false := rfl
              have hdd : CItem.raw c ≠ .raw cDash := by simp [hdash]
              have key := sim_afterLo fS ih f fB stG stS (.raw c) c rest neg hx hdd rfl hG' hS' hsup hsim
              rw [brLoop_cons]
              simp only [hbs, hdash, hnrb, if_false]
              by_cases hlb : c = cLB
              · subst hlb
                simp only [if_true] at hsc ⊢
                have hcc := charClass_scanClass rest
                rw [hsc] at hcc
                simp only at hcc
                rw [hcc]
                simp only [Nat.lt_irrefl, if_false, List.drop_zero, decide_false, Bool.and_false,
                  Bool.false_and, Bool.or_false]
                have e : ({ items := stG.items ++ [CItem.raw cLB], hasSlash := stG.hasSlash,
                            deferred := stG.deferred, classErr := stG.classErr } : BrSt)
                    = pushItem stG (.raw cLB) false := by simp [pushItem]
                rw [e]
                exact Out_mono key (by simp)
              · simp only [hlb, if_false, Bool.false_and]
                exact Out_mono key (by simp)

/-! #### the bracket case as a whole -/

theorem any_conv (B : List BItem) (y : Rune) :
    (B.map convItem).any (·.mem y) = B.any (·.mem y) := by
  induction B with
  | nil => rfl
  | cons i B ih => simp only [List.map_cons, List.any_cons, convItem_mem, ih]

theorem any_or_split {α : Type} (l : List α) (f g : α → Bool) :
    l.any (fun y => f y || g y) = (l.any f || l.any g) := by
  induction l with
  | nil => rfl
  | cons a l ih =>
    simp only [List.any_cons, ih]
    cases f a <;> cases g a <;> cases l.any f <;> cases l.any g <;> rfl

theorem any_false {α : Type} (l : List α) : l.any (fun _ => false) = false := by
  induction l with
  | nil => rfl
  | cons a l ih => simp [List.any_cons, ih]

/-- Folding the subject character against the whole item list is the reference's item-wise
    folding, as long as no POSIX class is folded. -/
theorem fold_any_eq (nc : Bool) (items : List BItem) (x : Rune)
    (h : nc = false ∨ ∀ i ∈ items, i.isCls = false) :
    (variants nc x).any (fun y => items.any (·.mem y)) = items.any (·.memFold nc x) := by
  induction items with
  | nil => simp [any_false]
  | cons i rest ih =>
    have h' : nc = false ∨ ∀ j ∈ rest, j.isCls = false := by
      rcases h with h | h
      · exact .inl h
      · exact .inr (fun j hj => h j (List.mem_cons_of_mem _ hj))
    have hi : (variants nc x).any (fun y => i.mem y) = i.memFold nc x := by
      rcases h with h | h
      · subst h
        cases i <;> simp [variants, BItem.memFold, BItem.mem]
      · have := h i (List.mem_cons_self ..)
        cases i with
        | cls k => simp [BItem.isCls] at this
        | ch c => rfl
        | range lo hi => rfl
    simp only [List.any_cons]
    rw [any_or_split, ih h', hi]

theorem SimFinal.setMem_eq {stG : BrSt} {stS : BSt} (h : SimFinal stG stS) (hr : stS.rangeErr = none)
    (nc neg : Bool) (x : Rune) (hc : nc = false ∨ ∀ i ∈ stS.items, i.isCls = false) :
    setMem nc neg stG.items x = bracketMem nc neg stS.items x := by
  obtain ⟨A, B, T, Tb, hA, hB, hbk, hv, hT⟩ := h.items hr
  have hds : DashSafe T := by
    intro b rest hh
    rcases hT with ⟨rfl, _⟩ | ⟨rfl, _⟩ <;> simp at hh
  have hp := parseItems_blks hbk hv T hds
  unfold setMem bracketMem
  rw [← fold_any_eq nc stS.items x hc, hA, hp, hB]
  rcases hT with ⟨rfl, rfl⟩ | ⟨rfl, rfl⟩
  · have : parseItems [] = some [] := by rw [parseItems.eq_def]
    simp only [this, Option.map_some, List.append_nil]
    congr 2
    funext y
    exact any_conv B y
  · have : parseItems [CItem.raw cDash] = some [CRange.range cDash cDash] := by
      rw [parseItems.eq_def]
      simp [CItem.char]
      rw [parseItems.eq_def]
    simp only [this, Option.map_some]
    congr 2
    funext y
    rw [List.any_append, List.any_append, any_conv]
    congr 1
    simp only [List.any_cons, List.any_nil, Bool.or_false, CRange.mem, BItem.mem]
    exact convItem_mem (.ch cDash) y

theorem SimFinal.parse_some {stG : BrSt} {stS : BSt} (h : SimFinal stG stS) (hr : stS.rangeErr = none) :
    (parseItems stG.items).isSome = true := by
  obtain ⟨A, B, T, Tb, hA, hB, hbk, hv, hT⟩ := h.items hr
  have hds : DashSafe T := by
    intro b rest hh
    rcases hT with ⟨rfl, _⟩ | ⟨rfl, _⟩ <;> simp at hh
  have hp := parseItems_blks hbk hv T hds
  rw [hA, hp]
  rcases hT with ⟨rfl, rfl⟩ | ⟨rfl, rfl⟩
  · have : parseItems [] = some [] := by rw [parseItems.eq_def]
    simp [this]
  · have : parseItems [CItem.raw cDash] = some [CRange.range cDash cDash] := by
      rw [parseItems.eq_def]
      simp [CItem.char]
      rw [parseItems.eq_def]
    simp [this]

/-- A class Go's regexp can read (in the sense of `parseItems`) compiles. -/
theorem classCompiles_of_parse : ∀ (n : Nat) (items : List CItem), items.length ≤ n →
    (parseItems items).isSome = true → classCompiles items = true := by
  intro n
  induction n with
  | zero =>
    intro items hl _
    have : items = [] := List.length_eq_zero_iff.mp (Nat.le_zero.mp hl)
    subst this
    rw [classCompiles.eq_def]
  | succ n ih =>
    intro items hl hp
    cases items with
    | nil => rw [classCompiles.eq_def]
    | cons a rest =>
      have hl' : rest.length ≤ n := by simp at hl; omega
      cases a with
      | named k =>
        rw [parseItems_named] at hp
        rw [classCompiles.eq_def]
        simp only
        apply ih rest hl'
        cases h : parseItems rest <;> simp [h] at hp ⊢
      | raw c =>
        cases rest with
        | nil => rw [classCompiles.eq_def]; simp only; rw [classCompiles.eq_def]
        | cons d rest2 =>
          cases rest2 with
          | nil =>
            rw [classCompiles.eq_def]
            simp only
            apply ih [d] hl'
            rw [parseItems.eq_def] at hp
            simp only at hp
            cases h : parseItems [d] <;> simp [h] at hp ⊢
          | cons b rest3 =>
            rw [parseItems.eq_def] at hp
            rw [classCompiles.eq_def]
            simp only at hp ⊢
            by_cases hd : d = CItem.raw cDash
            · simp only [hd, if_true] at hp ⊢
              by_cases hb : b.isNamed = true
              · simp [hb] at hp
              · simp only [hb, Bool.false_eq_true, if_false] at hp ⊢
                by_cases hv : (CItem.raw c).char ≤ b.char
                · simp only [hv, if_true] at hp
                  have : classCompiles rest3 = true := by
                    apply ih rest3 (by simp at hl'; omega)
                    cases h : parseItems rest3 <;> simp [h] at hp ⊢
                  simp [hv, this]
                · simp [hv] at hp
            · simp only [hd, if_false] at hp ⊢
              apply ih (d :: b :: rest3) hl'
              cases h : parseItems (d :: b :: rest3) <;> simp [h] at hp ⊢
      | esc c =>
        cases rest with
        | nil => rw [classCompiles.eq_def]; simp only; rw [classCompiles.eq_def]
        | cons d rest2 =>
          cases rest2 with
          | nil =>
            rw [classCompiles.eq_def]
            simp only
            apply ih [d] hl'
            rw [parseItems.eq_def] at hp
            simp only at hp
            cases h : parseItems [d] <;> simp [h] at hp ⊢
          | cons b rest3 =>
            rw [parseItems.eq_def] at hp
            rw [classCompiles.eq_def]
            simp only at hp ⊢
            by_cases hd : d = CItem.raw cDash
            · simp only [hd, if_true] at hp ⊢
              by_cases hb : b.isNamed = true
              · simp [hb] at hp
              · simp only [hb, Bool.false_eq_true, if_false] at hp ⊢
                by_cases hv : (CItem.esc c).char ≤ b.char
                · simp only [hv, if_true] at hp
                  have : classCompiles rest3 = true := by
                    apply ih rest3 (by simp at hl'; omega)
                    cases h : parseItems rest3 <;> simp [h] at hp ⊢
                  simp [hv, this]
                · simp [hv] at hp
            · simp only [hd, if_false] at hp ⊢
              apply ih (d :: b :: rest3) hl'
              cases h : parseItems (d :: b :: rest3) <;> simp [h] at hp ⊢

/-- What the reference verdict `sc` and pattern.go's verdict `g` on a bracket must have in
    common (`s` is the text after the `[`). -/
def AgreeP (sc : BScan) (g : BrRes) (s : Str) : Prop :=
  match sc with
  | .ok neg items rest' =>
    ∃ st, g = .closed neg st rest' ∧ st.hasSlash = false ∧ st.deferred = none ∧
      rest'.length < s.length ∧ classCompiles st.items = true ∧
      ∀ nc x, (nc = false ∨ ∀ i ∈ items, i.isCls = false) →
        setMem nc neg st.items x = bracketMem nc neg items x
  | .malformed e =>
    g = .err e ∨ ∃ neg st rest', g = .closed neg st rest' ∧ st.hasSlash = false ∧ st.deferred = some e
  | .notBracket => g = .literal

def BracketAgree (s : Str) : Prop := AgreeP (scanBracket false s) (bracket false s) s

/-- `scanBracket` after the optional `!`/`^`. -/
def sbBody (neg : Bool) (body : Str) : BScan :=
  match scanItems false (body.length + 1) true
      { items := [], slash := false, rangeErr := none, classErr := none } body with
  | (st, some rest) =>
    if st.slash then .notBracket
    else match st.rangeErr with
      | some e => .malformed e
      | none => .ok neg st.items rest
  | (st, none) =>
    match st.classErr with
    | some e => .malformed e
    | none => .notBracket

/-- The verdict from a final scan result. -/
def sbOfRes (neg : Bool) (res : BSt × Option Str) : BScan :=
  match res with
  | (st, some rest) =>
    if st.slash then .notBracket
    else match st.rangeErr with
      | some e => .malformed e
      | none => .ok neg st.items rest
  | (st, none) =>
    match st.classErr with
    | some e => .malformed e
    | none => .notBracket

theorem sbBody_eq (neg : Bool) (body : Str) :
    sbBody neg body = sbOfRes neg (scanItems false (body.length + 1) true
      { items := [], slash := false, rangeErr := none, classErr := none } body) := rfl

/-- `bracket` after the optional `!`/`^`. -/
def brBody (neg : Bool) (prev1 : Rune) (body : Str) : BrRes :=
  match body with
  | [] => .literal
  | c1 :: r2 =>
    if c1 = cRB then
      match r2 with
      | [] => .literal
      | _ => brLoop false neg (r2.length + 1)
          { items := [.raw cRB], hasSlash := false, deferred := none, classErr := none } cRB r2
    else brLoop false neg (body.length + 1)
      { items := [], hasSlash := false, deferred := none, classErr := none } prev1 body

theorem sim0 : Sim { items := [], hasSlash := false, deferred := none, classErr := none }
    { items := [], slash := false, rangeErr := none, classErr := none } :=
  ⟨rfl, rfl, rfl, rfl, fun _ => rfl, fun _ => ⟨Blks.nil, by simp⟩⟩

/-- From the joint outcome of the two scans to the verdicts of `bracket` and `scanBracket`. -/
theorem agree_of_out (neg : Bool) (res : BSt × Option Str) (g : BrRes) (r s : Str)
    (hlen : r.length ≤ s.length) (h : Out neg res g r) : AgreeP (sbOfRes neg res) g s := by
  obtain ⟨stS, o⟩ := res
  cases o with
  | none =>
    simp only [Out] at h
    cases hc : stS.classErr with
    | none => simp [hc] at h; simp [sbOfRes, hc, AgreeP, h]
    | some e => simp [hc] at h; simp [sbOfRes, hc, AgreeP, h]
  | some rest' =>
    simp only [Out] at h
    obtain ⟨stG', hg, hf, hl⟩ := h
    cases hr : stS.rangeErr with
    | some e =>
      simp only [sbOfRes, hf.noSlashS, Bool.false_eq_true, if_false, hr, AgreeP]
      right
      exact ⟨neg, stG', rest', hg, hf.noSlashG, by rw [hf.deferred, hr]⟩
    | none =>
      simp only [sbOfRes, hf.noSlashS, Bool.false_eq_true, if_false, hr, AgreeP]
      exact ⟨stG', hg, hf.noSlashG, by rw [hf.deferred, hr], by omega,
        classCompiles_of_parse _ _ (Nat.le_refl _) (hf.parse_some hr), fun nc x hc => hf.setMem_eq hr nc neg x hc⟩

theorem scanItems_nil (fn : Bool) (fuel : Nat) (first : Bool) (st : BSt) :
    scanItems fn fuel first st [] = (st, none) := by
  rw [scanItems.eq_def]
  cases fuel <;> rfl

theorem bracket_body_agree (neg : Bool) (prev1 : Rune) (body s : Str) (hlen : body.length ≤ s.length)
    (hsup : brSupported false (body.length + 1) true body = true) :
    AgreeP (sbBody neg body) (brBody neg prev1 body) s := by
  rw [sbBody_eq]
  cases body with
  | nil =>
    rw [scanItems_nil]
    simp [sbOfRes, AgreeP, brBody]
  | cons c1 r2 =>
    by_cases hc : c1 = cRB
    · subst hc
      cases r2 with
      | nil =>
        have : scanItems false (([cRB] : Str).length + 1) true
            { items := [], slash := false, rangeErr := none, classErr := none } [cRB] =
            ({ items := [], slash := false, rangeErr := none, classErr := none }, none) := by
          simp only [List.length_cons, List.length_nil]
          rw [scanItems_cons]
          have e2 : cRB ≠ cLB := by decide
          have e3 : cRB ≠ cBS := by decide
          simp only [e2, if_false, elemChar, e3]
          simp
        rw [this]
        simp [sbOfRes, AgreeP, brBody]
      | cons d r3 =>
        -- `]` first is an ordinary character: Go has pushed it before entering the loop
        have hS : scanItems false ((cRB :: d :: r3).length + 1) true
            { items := [], slash := false, rangeErr := none, classErr := none } (cRB :: d :: r3) =
            afterLoS (r3.length + 2) { items := [], slash := false, rangeErr := none, classErr := none }
              cRB (d :: r3) := by
          simp only [List.length_cons]
          rw [scanItems_cons]
          have e2 : cRB ≠ cLB := by decide
          have e3 : cRB ≠ cBS := by decide
          simp only [e2, if_false, elemChar, e3, Bool.false_and, Bool.or_false]
          rfl
        rw [hS]
        have hsup' : suppAfterLo (r3.length + 2) (d :: r3) = true := by
          simp only [List.length_cons] at hsup
          rw [brSupported_cons] at hsup
          have e2 : cRB ≠ cLB := by decide
          have e3 : cRB ≠ cBS := by decide
          have e4 : ¬ (cRB = cDash ∧ (!false) = true) := by
            intro h; exact absurd h.1 (by decide)
          simp only [e2, if_false, elemChar, e3, Bool.false_and, Bool.false_eq_true, e4] at hsup
          simpa [suppAfterLo] using hsup
        have key := sim_afterLo (r3.length + 2) (sim_loop _) ((d :: r3).length + 1) (r3.length + 2)
          { items := [], hasSlash := false, deferred := none, classErr := none }
          { items := [], slash := false, rangeErr := none, classErr := none }
          (.raw cRB) cRB (d :: r3) neg rfl (by decide) rfl (Nat.lt_succ_self _) (by simp)
          hsup' sim0
        have e : pushItem { items := [], hasSlash := false, deferred := none, classErr := none }
            (.raw cRB) false = { items := [.raw cRB], hasSlash := false, deferred := none, classErr := none } := by
          simp [pushItem]
        rw [e] at key
        have hbr : brBody neg prev1 (cRB :: d :: r3) = brLoop false neg ((d :: r3).length + 1)
            { items := [.raw cRB], hasSlash := false, deferred := none, classErr := none } cRB (d :: r3) := by
          simp [brBody]
        rw [hbr]
        exact agree_of_out neg _ _ _ s (by simpa using hlen) key
    · have hbr : brBody neg prev1 (c1 :: r2) = brLoop false neg ((c1 :: r2).length + 1)
          { items := [], hasSlash := false, deferred := none, classErr := none } prev1 (c1 :: r2) := by
        simp [brBody, hc]
      rw [hbr]
      have key := sim_loop ((c1 :: r2).length + 1) ((c1 :: r2).length + 1) ((c1 :: r2).length + 1) true
        { items := [], hasSlash := false, deferred := none, classErr := none }
        { items := [], slash := false, rangeErr := none, classErr := none } prev1 (c1 :: r2) neg
        (Nat.lt_succ_self _) (Nat.lt_succ_self _) (by simp [hc]) hsup sim0
      exact agree_of_out neg _ _ _ s hlen key

theorem scanBracket_eq (c : Rune) (r1 : Str) :
    scanBracket false (c :: r1) =
      if c = cBang ∨ c = cCaret then sbBody true r1 else sbBody false (c :: r1) := by
  unfold scanBracket sbBody
  by_cases h : c = cBang ∨ c = cCaret
  · have : ((c :: r1).head? = some cBang ∨ (c :: r1).head? = some cCaret) := by simpa using h
    simp only [this, h, if_true, decide_true, List.tail_cons]
    rfl
  · have : ¬ ((c :: r1).head? = some cBang ∨ (c :: r1).head? = some cCaret) := by simpa using h
    simp only [this, h, if_false, decide_false]
    rfl

theorem bracket_eq (c : Rune) (r1 : Str) :
    bracket false (c :: r1) =
      if c = cBang ∨ c = cCaret then brBody true c r1 else brBody false cLB (c :: r1) := by
  unfold bracket brBody
  by_cases h : c = cBang ∨ c = cCaret
  · simp only [h, if_true, decide_true]
    cases r1 <;> rfl
  · simp only [h, if_false, decide_false]
    rfl

theorem bracket_agree (s : Str) (hs : bracketSupported false s = true) : BracketAgree s := by
  unfold BracketAgree
  cases s with
  | nil =>
    have := bracket_body_agree false cLB [] [] (Nat.le_refl _) (by simpa [bracketSupported] using hs)
    have e1 : scanBracket false [] = sbBody false [] := by
      unfold scanBracket sbBody
      simp
      rfl
    have e2 : bracket false [] = brBody false cLB [] := by simp [bracket, brBody]
    rw [e1, e2]; exact this
  | cons c r1 =>
    rw [scanBracket_eq, bracket_eq]
    unfold bracketSupported at hs
    by_cases hneg : c = cBang ∨ c = cCaret
    · have : ((c :: r1).head? = some cBang ∨ (c :: r1).head? = some cCaret) := by simpa using hneg
      simp only [this, if_true, decide_true, List.tail_cons] at hs
      simp only [hneg, if_true]
      exact bracket_body_agree true c r1 (c :: r1) (by simp) hs
    · have : ¬ ((c :: r1).head? = some cBang ∨ (c :: r1).head? = some cCaret) := by simpa using hneg
      simp only [this, if_false, decide_false] at hs
      simp only [hneg, if_false]
      exact bracket_body_agree false cLB (c :: r1) (c :: r1) (Nat.le_refl _) hs

/-! ### the whole pattern, outside filename mode and without extended operators -/

theorem matches_cat_iff (nc : Bool) (a b : Regex) (s : Str) :
    Matches nc (.cat a b) s ↔ ∃ s1 s2, s = s1 ++ s2 ∧ Matches nc a s1 ∧ Matches nc b s2 := by
  constructor
  · intro h; cases h with
    | cat h1 h2 => exact ⟨_, _, rfl, h1, h2⟩
  · rintro ⟨s1, s2, rfl, h1, h2⟩; exact .cat h1 h2

theorem matches_eps_iff (nc : Bool) (s : Str) : Matches nc .eps s ↔ s = [] := by
  constructor
  · intro h; cases h; rfl
  · rintro rfl; exact .eps

theorem matches_chr_iff (nc : Bool) (c : Rune) (s : Str) :
    Matches nc (.chr c) s ↔ ∃ x, s = [x] ∧ chEq nc c x = true := by
  constructor
  · intro h; cases h with
    | chr hc => exact ⟨_, rfl, hc⟩
  · rintro ⟨x, rfl, hc⟩; exact .chr hc

theorem matches_any_iff (nc : Bool) (s : Str) : Matches nc .any s ↔ ∃ x, s = [x] := by
  constructor
  · intro h; cases h; exact ⟨_, rfl⟩
  · rintro ⟨x, rfl⟩; exact .any

theorem matches_set_iff (nc neg : Bool) (items : List CItem) (s : Str) :
    Matches nc (.set neg items) s ↔ ∃ x, s = [x] ∧ setMem nc neg items x = true := by
  constructor
  · intro h; cases h with
    | set hc => exact ⟨_, rfl, hc⟩
  · rintro ⟨x, rfl, hc⟩; exact .set hc

theorem matches_star_any (nc : Bool) (s : Str) : Matches nc (.star .any) s := by
  induction s with
  | nil => exact .starNil
  | cons x s ih => exact .starCons (s := [x]) .any ih

theorem wildOk_nofn {m : Mode} (h : m.filenames = false) (b : Bool) (x : Rune) : wildOk m b x = true := by
  simp [wildOk, h]

theorem starDen_nofn {m : Mode} (h : m.filenames = false) (b : Bool) (s : Str) : StarDen m b s := by
  induction s generalizing b with
  | nil => trivial
  | cons x s ih => exact ⟨wildOk_nofn h b x, ih false⟩

/-- Agreement of the reference parse and the translation of the same (rest of a) pattern. -/
def TopAgree (m : Mode) (r : Except Err Glob) (t : Except Err (Regex × List (Nat × Nat))) : Prop :=
  match r with
  | .ok g => ∃ body, t = .ok (body, []) ∧ goCompiles body = true ∧
      ∀ b s, Matches m.nocase body s ↔ GDen m g b s
  | .error e => t = .error e

/-- The continuation of `topLoop` after a token. -/
def contTok (r : Regex) (t : Except Err (Regex × List (Nat × Nat))) : Except Err (Regex × List (Nat × Nat)) :=
  match t with
  | .ok (b, negs) => .ok (.cat r b, negs)
  | .error e => .error e

theorem TopAgree.cons {m : Mode} {gtok : Glob} {r : Regex}
    {pr : Except Err Glob} {t : Except Err (Regex × List (Nat × Nat))} (hc : goCompiles r = true)
    (htok : ∀ b s, Matches m.nocase r s ↔ GDen m gtok b s) (h : TopAgree m pr t) :
    TopAgree m (andThenG gtok pr) (contTok r t) := by
  cases pr with
  | error e =>
    simp only [TopAgree] at h
    subst h
    simp [andThenG, contTok, TopAgree]
  | ok g' =>
    simp only [TopAgree] at h
    obtain ⟨body, rfl, hcb, hb⟩ := h
    simp only [andThenG, contTok, TopAgree]
    refine ⟨_, rfl, by simp [goCompiles, hc, hcb], ?_⟩
    intro b s
    rw [matches_cat_iff]
    simp only [GDen]
    constructor
    · rintro ⟨s1, s2, rfl, h1, h2⟩
      exact ⟨s1, s2, rfl, (htok b s1).mp h1, (hb _ s2).mp h2⟩
    · rintro ⟨s1, s2, rfl, h1, h2⟩
      exact ⟨s1, s2, rfl, (htok b s1).mpr h1, (hb _ s2).mpr h2⟩

theorem topLoop_tok {m : Mode} {total fuel : Nat} {prev : Rune} {rest : Str} {r : Regex} {p' : Rune}
    {rest' : Str} (h : next m total (2 * total + 4) prev rest = .tok r p' rest') :
    topLoop m total (fuel + 1) prev rest = contTok r (topLoop m total fuel p' rest') := by
  rw [topLoop_succ, h]
  rfl

theorem topLoop_err {m : Mode} {total fuel : Nat} {prev : Rune} {rest : Str} {e : Err}
    (h : next m total (2 * total + 4) prev rest = .err e) :
    topLoop m total (fuel + 1) prev rest = .error e := by
  rw [topLoop_succ, h]

theorem top_agree (m : Mode) (hne : m.ext = false) (hnf : m.filenames = false) (total : Nat) :
    ∀ (fuelS : Nat) (pos : Pos) (prev : Rune) (rest : Str) (fuelP fuelT : Nat),
      rest.length < fuelP → rest.length < fuelT →
      supp m false fuelS pos prev rest = true →
      TopAgree m (parseSeq m fuelP prev rest) (topLoop m total fuelT prev rest) := by
  intro fuelS
  induction fuelS with
  | zero => intro pos prev rest fuelP fuelT _ _ h; rw [supp.eq_def] at h; simp at h
  | succ fS ih =>
    intro pos prev rest fuelP fuelT hP hT hs
    cases fuelP with
    | zero => simp at hP
    | succ fP =>
    cases fuelT with
    | zero => simp at hT
    | succ fT =>
    have hfuel : 2 * total + 4 = (2 * total + 3) + 1 := by omega
    cases rest with
    | nil =>
      rw [parseSeq_nil, topLoop_succ, hfuel, next_nil]
      simp only [TopAgree]
      exact ⟨_, rfl, rfl, fun b s => by rw [matches_eps_iff]; simp [GDen]⟩
    | cons c rest =>
      have hP' : rest.length < fP := by simp at hP; omega
      have hT' : rest.length < fT := by simp at hT; omega
      rw [supp_cons] at hs
      rw [parseSeq_cons]
      simp only [litTok_nofn hnf]
      have hgrp : (m.ext && isExtOp c && rest.head? == some cLP) = false := by simp [hne]
      have hgrp2 : (!(m.ext && rest.head? == some cLP)) = true := by simp [hne]
      by_cases hbs : c = cBS
      · subst hbs
        simp only [if_true] at hs ⊢
        cases rest with
        | nil =>
          simp only [TopAgree]
          apply topLoop_err
          rw [hfuel, next_cons]
          have e1 : cBS ≠ cStar := by decide
          have e2 : cBS ≠ cQuest := by decide
          simp [hne, e1, e2]
        | cons d rest' =>
          simp only at hs ⊢
          have hn : next m total (2 * total + 4) prev (cBS :: d :: rest') = .tok (.chr d) d rest' := by
            rw [hfuel, next_cons]
            have e1 : cBS ≠ cStar := by decide
            have e2 : cBS ≠ cQuest := by decide
            simp [hne, e1, e2]
          rw [topLoop_tok hn]
          refine TopAgree.cons rfl ?_ (ih _ d rest' fP fT (by simp at hP'; omega) (by simp at hT'; omega)
            (by simpa [hnf] using hs))
          intro b s
          rw [matches_chr_iff]; simp [GDen]
      · simp only [hbs, if_false, hgrp, Bool.false_eq_true, hgrp2, and_true] at hs ⊢
        by_cases hq : c = cQuest
        · subst hq
          simp only [if_true, Bool.and_eq_true] at hs ⊢
          have hn : next m total (2 * total + 4) prev (cQuest :: rest) = .tok .any cQuest rest := by
            rw [hfuel, next_cons]
            have e1 : cQuest ≠ cStar := by decide
            simp [hne, hnf, e1]
          rw [topLoop_tok hn]
          refine TopAgree.cons rfl ?_ (ih _ cQuest rest fP fT hP' hT' hs.2)
          intro b s
          rw [matches_any_iff]
          simp [GDen, wildOk_nofn hnf]
        · simp only [hq, if_false] at hs ⊢
          by_cases hst : c = cStar
          · subst hst
            simp only [if_true, hnf, Bool.false_and, Bool.false_eq_true, if_false, Bool.not_false] at hs ⊢
            have hn : next m total (2 * total + 4) prev (cStar :: rest) = .tok (.star .any) cStar rest := by
              rw [hfuel, next_cons]
              simp [hne, hnf]
            rw [topLoop_tok hn]
            refine TopAgree.cons rfl ?_ (ih _ cStar rest fP fT hP' hT' hs)
            intro b s
            simp only [GDen]
            exact ⟨fun _ => starDen_nofn hnf b s, fun _ => matches_star_any _ s⟩
          · simp only [hst, if_false] at hs ⊢
            by_cases hlb : c = cLB
            · subst hlb
              simp only [if_true, hnf, Bool.and_eq_true] at hs ⊢
              obtain ⟨hbsup, hs2⟩ := hs
              have hag := bracket_agree rest hbsup
              unfold BracketAgree at hag
              have hnx : next m total (2 * total + 4) prev (cLB :: rest) =
                  (match bracket false rest with
                   | .literal => Step.tok (.chr cLB) cLB rest
                   | .err e => .err e
                   | .closed neg st rest' =>
                     if st.hasSlash then
                       .tok (seqRegex ((cLB :: rest.take (rest.length - rest'.length)).map .chr)) cRB rest'
                     else match st.deferred with
                       | some e => .err e
                       | none => .tok (.set neg st.items) cRB rest') := by
                rw [hfuel, next_cons]
                have e1 : cLB ≠ cStar := by decide
                have e2 : cLB ≠ cQuest := by decide
                have e3 : cLB ≠ cBS := by decide
                simp only [hne, Bool.false_and, Bool.false_eq_true, if_false, e1, e2, e3, if_true, hnf]
              cases hsb : scanBracket false rest with
              | notBracket =>
                rw [hsb] at hag hs2
                simp only [AgreeP] at hag
                simp only at hs2 ⊢
                have hn : next m total (2 * total + 4) prev (cLB :: rest) = .tok (.chr cLB) cLB rest := by
                  rw [hnx, hag]
                rw [topLoop_tok hn]
                refine TopAgree.cons rfl ?_ (ih _ cLB rest fP fT hP' hT' hs2)
                intro b s
                rw [matches_chr_iff]; simp [GDen]
              | malformed e =>
                rw [hsb] at hag
                simp only [AgreeP] at hag
                simp only [TopAgree]
                apply topLoop_err
                rw [hnx]
                rcases hag with hag | ⟨neg, st, rest', hag, h1, h2⟩
                · rw [hag]
                · rw [hag]; simp [h1, h2]
              | ok neg items rest' =>
                rw [hsb] at hag hs2
                simp only [AgreeP] at hag
                obtain ⟨st, hbr, h1, h2, hlen, hcc, hmem⟩ := hag
                simp only [hnf, Bool.false_and, Bool.not_false, Bool.true_and, Bool.and_eq_true] at hs2
                simp only
                have hn : next m total (2 * total + 4) prev (cLB :: rest) = .tok (.set neg st.items) cRB rest' := by
                  rw [hnx, hbr]; simp [h1, h2]
                rw [topLoop_tok hn]
                refine TopAgree.cons (by simp [goCompiles, hcc]) ?_ (ih _ cRB rest' fP fT (by omega) (by omega) hs2.2)
                have hcls : m.nocase = false ∨ ∀ i ∈ items, i.isCls = false := by
                  have h0 := hs2.1
                  cases hnc : m.nocase with
                  | false => exact .inl rfl
                  | true =>
                    right
                    intro i hi
                    simp only [hnc, Bool.true_and, Bool.not_eq_true', List.any_eq_false] at h0
                    simpa using h0.1 i hi
                intro b s
                rw [matches_set_iff]
                simp [GDen, wildOk_nofn hnf, hmem m.nocase _ hcls]
            · simp only [hlb, if_false, Bool.false_and, Bool.false_eq_true] at hs ⊢
              have hn : next m total (2 * total + 4) prev (c :: rest) = .tok (.chr c) c rest := by
                rw [hfuel, next_cons]
                simp [hne, hbs, hq, hst, hlb]
              rw [topLoop_tok hn]
              refine TopAgree.cons rfl ?_ (ih _ c rest fP fT hP' hT' (by simpa [hnf] using hs))
              intro b s
              rw [matches_chr_iff]; simp [GDen]

/-! ### glue for the property file -/

theorem regexpOf_entire {m : Mode} (he : m.entire = true) (p : Str) :
    regexpOf m p =
      match topLoop m p.length (p.length + 1) 0 p with
      | .error e => .error e
      | .ok (body, negs) =>
        if negs.isEmpty then
          .ok { plain := false, nocase := m.nocase, shortest := m.shortest, entire := m.entire, body := body }
        else .error (.negExt negs) := by
  unfold regexpOf
  simp [he]
  rfl

def okTop : Except Err Top → Option Top
  | .ok t => some t
  | .error _ => none

def errOf : Except Err Top → Option Err
  | .ok _ => none
  | .error e => some e

def isPanic : MRes → Bool
  | .panic => true
  | _ => false

theorem eq_ok_of_okTop {r : Except Err Top} {t : Top} (h : okTop r = some t) : r = .ok t := by
  cases r with
  | ok t' => simp [okTop] at h; rw [h]
  | error e => simp [okTop] at h

theorem eq_error_of_errOf {r : Except Err Top} {e : Err} (h : errOf r = some e) : r = .error e := by
  cases r with
  | ok t' => simp [errOf] at h
  | error e' => simp [errOf] at h; rw [h]


end ShVerif.L3
