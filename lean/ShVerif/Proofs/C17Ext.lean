import ShVerif.Proofs.C17
/-
  C17 — extended operators with flat pattern-lists (outside filename mode).
-/
namespace ShVerif.L3

theorem group_cons (m : Mode) (total fuel : Nat) (prev c : Rune) (rest : Str) :
    group m total (fuel + 1) prev (c :: rest) =
      if c = cRP then .closed [[]] rest
      else if c = cBar then
        match group m total fuel cBar rest with
        | .closed alts r => .closed ([] :: alts) r
        | .unterminated alts => .unterminated ([] :: alts)
        | o => o
      else
        match next m total fuel prev (c :: rest) with
        | .eof => .unterminated [[]]
        | .err e => .err e
        | .neg s e p r => .neg s e p r
        | .tok r p' rest' =>
          match group m total fuel p' rest' with
          | .closed alts r' => .closed (consAlt r alts) r'
          | .unterminated alts => .unterminated (consAlt r alts)
          | o => o := by
  conv => lhs; rw [group.eq_def]
  all_goals rfl

theorem scanGroup_cons (fn : Bool) (fuel depth : Nat) (cur : Str) (alts : List Str) (c : Rune) (rest : Str) :
    scanGroup fn (fuel + 1) depth cur alts (c :: rest) =
      if c = cBS then
        match rest with
        | [] => .ok none
        | d :: rest' => scanGroup fn fuel depth (cur ++ [c, d]) alts rest'
      else if c = cLB then
        match scanBracket fn rest with
        | .ok _ _ rest' =>
          scanGroup fn fuel depth (cur ++ c :: rest.take (rest.length - rest'.length)) alts rest'
        | .malformed e => .error e
        | .notBracket => scanGroup fn fuel depth (cur ++ [c]) alts rest
      else if c = cLP then scanGroup fn fuel (depth + 1) (cur ++ [c]) alts rest
      else if c = cRP then
        if depth = 0 then .ok (some (alts ++ [cur], rest))
        else scanGroup fn fuel (depth - 1) (cur ++ [c]) alts rest
      else if c = cBar ∧ depth = 0 then scanGroup fn fuel 0 [] (alts ++ [cur]) rest
      else scanGroup fn fuel depth (cur ++ [c]) alts rest := by
  conv => lhs; rw [scanGroup.eq_def]
  all_goals rfl

theorem flatRest_cons (c : Rune) (rest : Str) :
    flatRest (c :: rest) =
      if c = cBS then
        match rest with
        | [] => none
        | d :: rest' => (flatRest rest').map (fun (as, r) => (consHead [c, d] as, r))
      else if c = cLB ∨ c = cLP then none
      else if c = cRP then some ([[]], rest)
      else if c = cBar then (flatRest rest).map (fun (as, r) => ([] :: as, r))
      else (flatRest rest).map (fun (as, r) => (consHead [c] as, r)) := by
  conv => lhs; rw [flatRest.eq_def]
  all_goals rfl

/-- The tokens pattern.go emits for flat text (outside filename mode). -/
def flatToks : Str → List Regex
  | [] => []
  | c :: rest =>
    if c = cBS then
      match rest with
      | [] => []
      | d :: r => .chr d :: flatToks r
    else if c = cQuest then .any :: flatToks rest
    else if c = cStar then .star .any :: flatToks rest
    else .chr c :: flatToks rest

/-- The reference parse of flat text. -/
def flatGlob : Str → Glob
  | [] => .eps
  | c :: rest =>
    if c = cBS then
      match rest with
      | [] => .eps
      | d :: r => .seq (.lit d) (flatGlob r)
    else if c = cQuest then .seq .any (flatGlob rest)
    else if c = cStar then .seq .star (flatGlob rest)
    else .seq (.lit c) (flatGlob rest)

/-- Flat text: no unescaped `[ ( ) |`, no lone backslash at the end. -/
def isFlat : Str → Bool
  | [] => true
  | c :: rest =>
    if c = cBS then
      match rest with
      | [] => false
      | _ :: r => isFlat r
    else c != cLB && c != cLP && c != cRP && c != cBar && isFlat rest

theorem isFlat_cons_ne {c : Rune} (rest : Str) (h : c ≠ cBS) :
    isFlat (c :: rest) = (c != cLB && c != cLP && c != cRP && c != cBar && isFlat rest) := by
  conv => lhs; rw [isFlat.eq_def]
  simp [h]

theorem isFlat_bs (d : Rune) (rest : Str) : isFlat (cBS :: d :: rest) = isFlat rest := by
  conv => lhs; rw [isFlat.eq_def]
  simp

theorem flatGlob_bs (d : Rune) (r : Str) : flatGlob (cBS :: d :: r) = .seq (.lit d) (flatGlob r) := by
  conv => lhs; rw [flatGlob.eq_def]
  simp

theorem flatGlob_cons_ne {c : Rune} (rest : Str) (h : c ≠ cBS) :
    flatGlob (c :: rest) =
      if c = cQuest then .seq .any (flatGlob rest)
      else if c = cStar then .seq .star (flatGlob rest)
      else .seq (.lit c) (flatGlob rest) := by
  conv => lhs; rw [flatGlob.eq_def]
  simp [h]

theorem flatToks_bs (d : Rune) (r : Str) : flatToks (cBS :: d :: r) = .chr d :: flatToks r := by
  conv => lhs; rw [flatToks.eq_def]
  simp

theorem flatToks_cons_ne {c : Rune} (rest : Str) (h : c ≠ cBS) :
    flatToks (c :: rest) =
      if c = cQuest then .any :: flatToks rest
      else if c = cStar then .star .any :: flatToks rest
      else .chr c :: flatToks rest := by
  conv => lhs; rw [flatToks.eq_def]
  simp [h]

/-- Every alternative `flatRest` returns is flat, and the list is not empty. -/
theorem flatRest_flat : ∀ (n : Nat) (r : Str), r.length ≤ n → ∀ as rest', flatRest r = some (as, rest') →
    as ≠ [] ∧ (∀ a ∈ as, isFlat a = true ∧ a.length < r.length) ∧ rest'.length < r.length := by
  intro n
  induction n with
  | zero =>
    intro r hr as rest' h
    have : r = [] := List.length_eq_zero_iff.mp (Nat.le_zero.mp hr)
    subst this
    simp [flatRest] at h
  | succ n ih =>
    intro r hr as rest' h
    cases r with
    | nil => simp [flatRest] at h
    | cons c rest =>
      rw [flatRest_cons] at h
      have hlen : rest.length ≤ n := by simp at hr; omega
      by_cases hbs : c = cBS
      · subst hbs
        simp only [if_true] at h
        cases rest with
        | nil => simp at h
        | cons d rest2 =>
          simp only at h
          cases hf : flatRest rest2 with
          | none => simp [hf] at h
          | some p =>
            obtain ⟨as0, r0⟩ := p
            simp [hf] at h
            obtain ⟨rfl, rfl⟩ := h
            obtain ⟨h1, h2, h3⟩ := ih rest2 (by simp at hlen; omega) as0 r0 hf
            refine ⟨?_, ?_, by simp; omega⟩
            · cases as0 <;> simp [consHead]
            · intro a ha
              cases as0 with
              | nil => exact absurd rfl h1
              | cons a0 as1 =>
                simp only [consHead, List.mem_cons] at ha
                rcases ha with rfl | ha
                · simp only [List.cons_append, List.nil_append]
                  rw [isFlat_bs]
                  have := h2 a0 (List.mem_cons_self ..)
                  exact ⟨this.1, by simp; omega⟩
                · have := h2 a (List.mem_cons_of_mem _ ha)
                  exact ⟨this.1, by simp; omega⟩
      · simp only [hbs, if_false] at h
        by_cases hb : c = cLB ∨ c = cLP
        · simp [hb] at h
        · simp only [hb, if_false] at h
          have hb' := not_or.mp hb
          by_cases hrp : c = cRP
          · simp only [hrp, if_true] at h
            simp at h
            obtain ⟨rfl, rfl⟩ := h
            exact ⟨by simp, by intro a ha; simp at ha; subst ha; exact ⟨rfl, by simp⟩, by simp⟩
          · simp only [hrp, if_false] at h
            by_cases hbar : c = cBar
            · simp only [hbar, if_true] at h
              cases hf : flatRest rest with
              | none => simp [hf] at h
              | some p =>
                obtain ⟨as0, r0⟩ := p
                simp [hf] at h
                obtain ⟨rfl, rfl⟩ := h
                obtain ⟨h1, h2, h3⟩ := ih rest hlen as0 r0 hf
                refine ⟨by simp, ?_, by simp; omega⟩
                intro a ha
                simp only [List.mem_cons] at ha
                rcases ha with rfl | ha
                · exact ⟨rfl, by simp⟩
                · have := h2 a ha
                  exact ⟨this.1, by simp; omega⟩
            · simp only [hbar, if_false] at h
              cases hf : flatRest rest with
              | none => simp [hf] at h
              | some p =>
                obtain ⟨as0, r0⟩ := p
                simp [hf] at h
                obtain ⟨rfl, rfl⟩ := h
                obtain ⟨h1, h2, h3⟩ := ih rest hlen as0 r0 hf
                refine ⟨?_, ?_, by simp; omega⟩
                · cases as0 <;> simp [consHead]
                · intro a ha
                  cases as0 with
                  | nil => exact absurd rfl h1
                  | cons a0 as1 =>
                    simp only [consHead, List.mem_cons] at ha
                    rcases ha with rfl | ha
                    · simp only [List.cons_append, List.nil_append]
                      rw [isFlat_cons_ne _ hbs]
                      have := h2 a0 (List.mem_cons_self ..)
                      exact ⟨by simp [hb'.1, hb'.2, hrp, hbar, this.1], by simp; omega⟩
                    · have := h2 a (List.mem_cons_of_mem _ ha)
                      exact ⟨this.1, by simp; omega⟩

theorem consHead_nil_ne {as : List Str} (h : as ≠ []) : consHead [] as = as := by
  cases as with
  | nil => exact absurd rfl h
  | cons a as => simp [consHead]

theorem consHead_assoc (cur c : Str) (as : List Str) :
    consHead cur (consHead c as) = consHead (cur ++ c) as := by
  cases as <;> simp [consHead]

/-- The reference's extent scan agrees with `flatRest` on flat pattern-lists. -/
theorem scanGroup_flat : ∀ (n : Nat) (r : Str), r.length ≤ n → ∀ as rest', flatRest r = some (as, rest') →
    ∀ fuel cur alts, r.length < fuel →
      scanGroup false fuel 0 cur alts r = .ok (some (alts ++ consHead cur as, rest')) := by
  intro n
  induction n with
  | zero =>
    intro r hr as rest' h
    have : r = [] := List.length_eq_zero_iff.mp (Nat.le_zero.mp hr)
    subst this
    simp [flatRest] at h
  | succ n ih =>
    intro r hr as rest' h fuel cur alts hf
    cases r with
    | nil => simp [flatRest] at h
    | cons c rest =>
      cases fuel with
      | zero => simp at hf
      | succ f =>
      rw [flatRest_cons] at h
      rw [scanGroup_cons]
      have hlen : rest.length ≤ n := by simp at hr; omega
      have hf' : rest.length < f := by simp at hf; omega
      by_cases hbs : c = cBS
      · subst hbs
        simp only [if_true] at h ⊢
        cases rest with
        | nil => simp at h
        | cons d rest2 =>
          simp only at h ⊢
          cases hfr : flatRest rest2 with
          | none => simp [hfr] at h
          | some p =>
            obtain ⟨as0, r0⟩ := p
            simp [hfr] at h
            obtain ⟨rfl, rfl⟩ := h
            rw [ih rest2 (by simp at hlen; omega) as0 r0 hfr f _ alts (by simp at hf'; omega)]
            rw [consHead_assoc]
      · simp only [hbs, if_false] at h ⊢
        by_cases hb : c = cLB ∨ c = cLP
        · simp [hb] at h
        · simp only [hb, if_false] at h
          have hb' := not_or.mp hb
          simp only [hb'.1, hb'.2, if_false]
          by_cases hrp : c = cRP
          · simp only [hrp, if_true] at h ⊢
            simp at h
            obtain ⟨rfl, rfl⟩ := h
            simp [consHead]
          · simp only [hrp, if_false] at h ⊢
            by_cases hbar : c = cBar
            · simp only [hbar, if_true, and_self] at h ⊢
              cases hfr : flatRest rest with
              | none => simp [hfr] at h
              | some p =>
                obtain ⟨as0, r0⟩ := p
                simp [hfr] at h
                obtain ⟨rfl, rfl⟩ := h
                rw [ih rest hlen as0 r0 hfr f [] _ hf']
                have hne := (flatRest_flat rest.length rest (Nat.le_refl _) as0 r0 hfr).1
                rw [consHead_nil_ne hne]
                simp [consHead]
            · simp only [hbar, if_false, false_and] at h ⊢
              cases hfr : flatRest rest with
              | none => simp [hfr] at h
              | some p =>
                obtain ⟨as0, r0⟩ := p
                simp [hfr] at h
                obtain ⟨rfl, rfl⟩ := h
                rw [ih rest hlen as0 r0 hfr f _ alts hf']
                rw [consHead_assoc]

theorem isFlat_head {rest : Str} (h : isFlat rest = true) : (rest.head? == some cLP) = false := by
  cases rest with
  | nil => rfl
  | cons d r =>
    by_cases hd : d = cBS
    · subst hd
      show ((some cBS : Option Nat) == some cLP) = false
      decide
    · rw [isFlat_cons_ne _ hd] at h
      simp only [Bool.and_eq_true, bne_iff_ne, ne_eq] at h
      simp [h.1.1.1.2]

/-- The reference parse of flat text, whatever follows the operator characters. -/
theorem parseSeq_flat (m : Mode) (hnf : m.filenames = false) : ∀ (n : Nat) (a : Str), a.length ≤ n →
    isFlat a = true → ∀ fuel prev, a.length < fuel → parseSeq m fuel prev a = .ok (flatGlob a) := by
  intro n
  induction n with
  | zero =>
    intro a ha _ fuel prev hf
    have : a = [] := List.length_eq_zero_iff.mp (Nat.le_zero.mp ha)
    subst this
    cases fuel with
    | zero => simp at hf
    | succ f => rw [parseSeq_nil]; rfl
  | succ n ih =>
    intro a ha hfl fuel prev hf
    cases a with
    | nil =>
      cases fuel with
      | zero => simp at hf
      | succ f => rw [parseSeq_nil]; rfl
    | cons c rest =>
      cases fuel with
      | zero => simp at hf
      | succ f =>
      have hlen : rest.length ≤ n := by simp at ha; omega
      have hf' : rest.length < f := by simp at hf; omega
      rw [parseSeq_cons]
      simp only [litTok_nofn hnf]
      by_cases hbs : c = cBS
      · subst hbs
        cases rest with
        | nil => rw [isFlat.eq_def] at hfl; simp at hfl
        | cons d r =>
          rw [isFlat_bs] at hfl
          simp only [if_true]
          rw [ih r (by simp at hlen; omega) hfl f d (by simp at hf'; omega), flatGlob_bs]
          rfl
      · rw [isFlat_cons_ne _ hbs] at hfl
        simp only [Bool.and_eq_true, bne_iff_ne, ne_eq] at hfl
        obtain ⟨⟨⟨⟨h1, h2⟩, h3⟩, h4⟩, h5⟩ := hfl
        have hh := isFlat_head h5
        have ih' := ih rest hlen h5 f c hf'
        simp only [hbs, if_false, hh, Bool.and_false, Bool.not_false, and_true, h1, hnf, Bool.false_and,
          Bool.false_eq_true]
        rw [flatGlob_cons_ne rest hbs]
        by_cases hq : c = cQuest
        · subst hq
          simp only [if_true, ih']
          rfl
        · simp only [hq, if_false]
          by_cases hst : c = cStar
          · subst hst
            simp only [if_true, ih']
            rfl
          · simp only [hst, if_false, ih']
            rfl

/-- Flat text: the emitted tokens and the reference parse have the same language. -/
theorem flat_sem (m : Mode) (hnf : m.filenames = false) : ∀ (n : Nat) (a : Str), a.length ≤ n →
    ∀ b s, Matches m.nocase (seqRegex (flatToks a)) s ↔ GDen m (flatGlob a) b s := by
  intro n
  induction n with
  | zero =>
    intro a ha b s
    have : a = [] := List.length_eq_zero_iff.mp (Nat.le_zero.mp ha)
    subst this
    simp [flatToks, seqRegex, flatGlob, GDen, matches_eps_iff]
  | succ n ih =>
    intro a ha b s
    cases a with
    | nil => simp [flatToks, seqRegex, flatGlob, GDen, matches_eps_iff]
    | cons c rest =>
      have hlen : rest.length ≤ n := by simp at ha; omega
      have step : ∀ (r : Regex) (g : Glob) (tl : Str), tl.length ≤ n →
          (∀ b s, Matches m.nocase r s ↔ GDen m g b s) →
          (Matches m.nocase (seqRegex (r :: flatToks tl)) s ↔ GDen m (.seq g (flatGlob tl)) b s) := by
        intro r g tl htl htok
        simp only [seqRegex, GDen]
        rw [matches_cat_iff]
        constructor
        · rintro ⟨s1, s2, rfl, h1, h2⟩
          exact ⟨s1, s2, rfl, (htok b s1).mp h1, (ih tl htl _ s2).mp h2⟩
        · rintro ⟨s1, s2, rfl, h1, h2⟩
          exact ⟨s1, s2, rfl, (htok b s1).mpr h1, (ih tl htl _ s2).mpr h2⟩
      by_cases hbs : c = cBS
      · subst hbs
        cases rest with
        | nil => simp [flatToks, seqRegex, flatGlob, GDen, matches_eps_iff]
        | cons d r =>
          rw [flatToks_bs, flatGlob_bs]
          exact step _ _ r (by simp at hlen; omega) (fun b s => by rw [matches_chr_iff]; simp [GDen])
      · by_cases hq : c = cQuest
        · subst hq
          rw [flatToks_cons_ne rest hbs, flatGlob_cons_ne rest hbs]
          simp only [if_true]
          exact step _ _ rest hlen (fun b s => by rw [matches_any_iff]; simp [GDen, wildOk_nofn hnf])
        · by_cases hst : c = cStar
          · subst hst
            rw [flatToks_cons_ne rest hbs, flatGlob_cons_ne rest hbs]
            simp only [hq, if_false, if_true]
            exact step _ _ rest hlen (fun b s => by
              simp only [GDen]
              exact ⟨fun _ => starDen_nofn hnf b s, fun _ => matches_star_any _ s⟩)
          · rw [flatToks_cons_ne rest hbs, flatGlob_cons_ne rest hbs]
            simp only [hq, hst, if_false]
            exact step _ _ rest hlen (fun b s => by rw [matches_chr_iff]; simp [GDen])

theorem flatRest_head {rest : Str} {as : List Str} {r' : Str} (h : flatRest rest = some (as, r')) :
    (rest.head? == some cLP) = false := by
  cases rest with
  | nil => rfl
  | cons d r =>
    by_cases hd : d = cLP
    · subst hd
      rw [flatRest_cons] at h
      have e1 : cLP ≠ cBS := by decide
      simp [e1] at h
    · simp [hd]

/-- pattern.go's `nestedLoop` on a flat pattern-list. -/
theorem group_flat (m : Mode) (hnf : m.filenames = false) (total : Nat) :
    ∀ (n : Nat) (r : Str), r.length ≤ n → ∀ as rest', flatRest r = some (as, rest') →
    ∀ fuel prev, r.length + 1 < fuel →
      group m total fuel prev r = .closed (as.map flatToks) rest' := by
  intro n
  induction n with
  | zero =>
    intro r hr as rest' h
    have : r = [] := List.length_eq_zero_iff.mp (Nat.le_zero.mp hr)
    subst this
    simp [flatRest] at h
  | succ n ih =>
    intro r hr as rest' h fuel prev hf
    cases r with
    | nil => simp [flatRest] at h
    | cons c rest =>
      cases fuel with
      | zero => simp at hf
      | succ f =>
      cases f with
      | zero => simp at hf
      | succ f' =>
      rw [flatRest_cons] at h
      rw [group_cons]
      have hlen : rest.length ≤ n := by simp at hr; omega
      have hf' : rest.length + 1 < f' + 1 := by simp at hf; omega
      by_cases hbs : c = cBS
      · subst hbs
        simp only [if_true] at h
        cases rest with
        | nil => simp at h
        | cons d rest2 =>
          simp only at h
          cases hfr : flatRest rest2 with
          | none => simp [hfr] at h
          | some p =>
            obtain ⟨as0, r0⟩ := p
            simp [hfr] at h
            obtain ⟨rfl, rfl⟩ := h
            have e1 : cBS ≠ cRP := by decide
            have e2 : cBS ≠ cBar := by decide
            have e3 : cBS ≠ cStar := by decide
            have e4 : cBS ≠ cQuest := by decide
            simp only [e1, e2, if_false]
            rw [next_cons]
            have e5 : isExtOp cBS = false := by decide
            simp only [e5, Bool.and_false, Bool.false_and, Bool.false_eq_true, if_false, e3, e4, if_true]
            rw [ih rest2 (by simp at hlen; omega) as0 r0 hfr (f' + 1) d (by simp at hf'; omega)]
            cases as0 with
            | nil => simp [consAlt, consHead, flatToks_bs, flatToks]
            | cons a0 as1 => simp [consAlt, consHead, flatToks_bs]
      · simp only [hbs, if_false] at h
        by_cases hb : c = cLB ∨ c = cLP
        · simp [hb] at h
        · simp only [hb, if_false] at h
          have hb' := not_or.mp hb
          by_cases hrp : c = cRP
          · simp only [hrp, if_true] at h ⊢
            simp at h
            obtain ⟨rfl, rfl⟩ := h
            simp [flatToks]
          · simp only [hrp, if_false] at h ⊢
            by_cases hbar : c = cBar
            · simp only [hbar, if_true] at h ⊢
              cases hfr : flatRest rest with
              | none => simp [hfr] at h
              | some p =>
                obtain ⟨as0, r0⟩ := p
                simp [hfr] at h
                obtain ⟨rfl, rfl⟩ := h
                rw [ih rest hlen as0 r0 hfr (f' + 1) cBar hf']
                simp [flatToks]
            · simp only [hbar, if_false] at h ⊢
              cases hfr : flatRest rest with
              | none => simp [hfr] at h
              | some p =>
                obtain ⟨as0, r0⟩ := p
                simp [hfr] at h
                obtain ⟨rfl, rfl⟩ := h
                have hh := flatRest_head hfr
                rw [next_cons]
                simp only [hh, Bool.and_false, Bool.false_eq_true, if_false, hnf, Bool.not_false, if_true,
                  hbs, hb'.1]
                have hcont : ∀ (tok : Regex), tok :: flatToks ([] : Str) = [tok] →
                    flatToks (c :: ([] : Str)) = [tok] → True := fun _ _ _ => trivial
                have hrec := ih rest hlen as0 r0 hfr (f' + 1) c hf'
                by_cases hst : c = cStar
                · subst hst
                  simp only [if_true, hrec]
                  have e1 : cStar ≠ cQuest := by decide
                  cases as0 with
                  | nil => simp [consAlt, consHead, flatToks_cons_ne _ hbs, flatToks, e1, hbs]
                  | cons a0 as1 => simp [consAlt, consHead, flatToks_cons_ne _ hbs, e1]
                · simp only [hst, if_false]
                  by_cases hq : c = cQuest
                  · subst hq
                    simp only [if_true, hrec]
                    cases as0 with
                    | nil => simp [consAlt, consHead, flatToks_cons_ne _ hbs, flatToks, hbs]
                    | cons a0 as1 => simp [consAlt, consHead, flatToks_cons_ne _ hbs]
                  · simp only [hq, if_false, hrec]
                    cases as0 with
                    | nil => simp [consAlt, consHead, flatToks_cons_ne _ hbs, flatToks, hq, hst, hbs]
                    | cons a0 as1 => simp [consAlt, consHead, flatToks_cons_ne _ hbs, hq, hst]

/-! ### the language of a flat pattern-list -/

theorem star_iter (m : Mode) (nc : Bool) (a : Regex) (R : Bool → Str → Prop)
    (h : ∀ b s, Matches nc a s ↔ R b s) : ∀ b s, Matches nc (.star a) s ↔ IterDen m R b s := by
  intro b s
  constructor
  · intro hm
    generalize hr : Regex.star a = r at hm
    induction hm generalizing b with
    | starNil => exact .nil
    | @starCons a' s1 s2 h1 h2 _ ih2 =>
      cases hr
      by_cases he : s1 = []
      · subst he; simpa using ih2 b rfl
      · exact .cons he ((h b s1).mp h1) (ih2 _ rfl)
    | _ => cases hr
  · intro hi
    induction hi with
    | nil => exact .starNil
    | cons _ hR _ ih => exact .starCons ((h _ _).mpr hR) ih

theorem alts_sem (m : Mode) (hnf : m.filenames = false) : ∀ (as : List Str), as ≠ [] →
    ∀ b s, Matches m.nocase (altsRegex (as.map flatToks)) s ↔ GDen m (altGlob (as.map flatGlob)) b s := by
  intro as
  induction as with
  | nil => intro h; exact absurd rfl h
  | cons a as ih =>
    intro _ b s
    cases as with
    | nil =>
      simp only [List.map_cons, List.map_nil, altsRegex, altGlob]
      exact flat_sem m hnf a.length a (Nat.le_refl _) b s
    | cons a2 as2 =>
      simp only [List.map_cons, altsRegex, altGlob, GDen]
      have ih' := ih (by simp) b s
      simp only [List.map_cons] at ih'
      constructor
      · intro h; cases h with
        | altL h => exact .inl ((flat_sem m hnf a.length a (Nat.le_refl _) b s).mp h)
        | altR h => exact .inr (ih'.mp h)
      · rintro (h | h)
        · exact .altL ((flat_sem m hnf a.length a (Nat.le_refl _) b s).mpr h)
        · exact .altR (ih'.mpr h)

theorem isExtOp_cases {op : Rune} (h : isExtOp op = true) (hb : op ≠ cBang) :
    op = cQuest ∨ op = cStar ∨ op = cPlus ∨ op = cAt := by
  simp only [isExtOp, Bool.or_eq_true, beq_iff_eq] at h
  rcases h with (((h | h) | h) | h) | h
  · exact absurd h hb
  · exact .inl h
  · exact .inr (.inl h)
  · exact .inr (.inr (.inl h))
  · exact .inr (.inr (.inr h))

/-- An extended operator over a flat pattern-list: emitted expression = reference semantics. -/
theorem group_sem (m : Mode) (hnf : m.filenames = false) (op : Rune) (hop : isExtOp op = true)
    (hb : op ≠ cBang) (as : List Str) (has : as ≠ []) : ∀ b s,
    Matches m.nocase (wrapOp op (.grp (altsRegex (as.map flatToks)))) s ↔
      GDen m (.ext op (altGlob (as.map flatGlob))) b s := by
  have hG : ∀ b s, Matches m.nocase (.grp (altsRegex (as.map flatToks))) s ↔
      GDen m (altGlob (as.map flatGlob)) b s := by
    intro b s
    rw [← alts_sem m hnf as has b s]
    constructor
    · intro h; cases h with | grp h => exact h
    · intro h; exact .grp h
  intro b s
  rcases isExtOp_cases hop hb with rfl | rfl | rfl | rfl
  · -- ?( )
    have e1 : cQuest ≠ cAt := by decide
    simp only [wrapOp, if_true, GDen, e1, if_false]
    constructor
    · intro h; cases h with
      | optNil => exact .inl rfl
      | optSome h => exact .inr ((hG b s).mp h)
    · rintro (rfl | h)
      · exact .optNil
      · exact .optSome ((hG b s).mpr h)
  · -- *( )
    have e1 : cStar ≠ cAt := by decide
    have e2 : cStar ≠ cQuest := by decide
    simp only [wrapOp, e2, if_false, if_true, GDen, e1]
    exact star_iter m m.nocase _ _ hG b s
  · -- +( )
    have e1 : cPlus ≠ cAt := by decide
    have e2 : cPlus ≠ cQuest := by decide
    have e3 : cPlus ≠ cStar := by decide
    simp only [wrapOp, e2, e3, if_false, if_true, GDen, e1]
    constructor
    · intro h; cases h with
      | plus h1 h2 => exact ⟨_, _, rfl, (hG b _).mp h1, (star_iter m m.nocase _ _ hG _ _).mp h2⟩
    · rintro ⟨s1, s2, rfl, h1, h2⟩
      exact .plus ((hG b s1).mpr h1) ((star_iter m m.nocase _ _ hG _ _).mpr h2)
  · -- @( )
    have e2 : cAt ≠ cQuest := by decide
    have e3 : cAt ≠ cStar := by decide
    have e4 : cAt ≠ cPlus := by decide
    simp only [wrapOp, e2, e3, e4, if_false, if_true, GDen]
    exact hG b s

theorem flatToks_compiles : ∀ (n : Nat) (a : Str), a.length ≤ n → goCompiles (seqRegex (flatToks a)) = true := by
  intro n
  induction n with
  | zero =>
    intro a ha
    have : a = [] := List.length_eq_zero_iff.mp (Nat.le_zero.mp ha)
    subst this; rfl
  | succ n ih =>
    intro a ha
    cases a with
    | nil => rfl
    | cons c rest =>
      have hlen : rest.length ≤ n := by simp at ha; omega
      by_cases hbs : c = cBS
      · subst hbs
        cases rest with
        | nil => rfl
        | cons d r =>
          rw [flatToks_bs]
          simp [seqRegex, goCompiles, ih r (by simp at hlen; omega)]
      · rw [flatToks_cons_ne rest hbs]
        split
        · simp [seqRegex, goCompiles, ih rest hlen]
        · split
          · simp [seqRegex, goCompiles, ih rest hlen]
          · simp [seqRegex, goCompiles, ih rest hlen]

theorem alts_compiles : ∀ (as : List Str), goCompiles (altsRegex (as.map flatToks)) = true := by
  intro as
  induction as with
  | nil => rfl
  | cons a as ih =>
    cases as with
    | nil => simpa [altsRegex] using flatToks_compiles a.length a (Nat.le_refl _)
    | cons a2 as2 =>
      simp only [List.map_cons, altsRegex, goCompiles, Bool.and_eq_true]
      exact ⟨flatToks_compiles a.length a (Nat.le_refl _), by simpa using ih⟩

theorem group_compiles (op : Rune) (as : List Str) :
    goCompiles (wrapOp op (.grp (altsRegex (as.map flatToks)))) = true := by
  have h := alts_compiles as
  unfold wrapOp
  split
  · simpa [goCompiles] using h
  · split
    · simpa [goCompiles] using h
    · split
      · simpa [goCompiles] using h
      · simpa [goCompiles] using h

theorem mapM_flat (m : Mode) (hnf : m.filenames = false) (f : Nat) : ∀ (as : List Str),
    (∀ a ∈ as, isFlat a = true ∧ a.length < f) →
    as.mapM (parseSeq m f cLP) = .ok (as.map flatGlob) := by
  intro as
  induction as with
  | nil => intro _; rfl
  | cons a as ih =>
    intro h
    have ha := h a (List.mem_cons_self ..)
    have ht := ih (fun x hx => h x (List.mem_cons_of_mem _ hx))
    rw [List.mapM_cons, parseSeq_flat m hnf a.length a (Nat.le_refl _) ha.1 f cLP ha.2, ht]
    rfl

theorem flatGroups_cons (m : Mode) (fuel : Nat) (c : Rune) (rest : Str) :
    flatGroups m (fuel + 1) (c :: rest) =
      if c = cBS then
        match rest with
        | [] => true
        | _ :: r => flatGroups m fuel r
      else if m.ext && isExtOp c && rest.head? == some cLP then
        match flatRest rest.tail with
        | some (_, rest') => flatGroups m fuel rest'
        | none => false
      else if c = cLB then
        match scanBracket m.filenames rest with
        | .ok _ _ rest' => flatGroups m fuel rest'
        | _ => flatGroups m fuel rest
      else flatGroups m fuel rest := by
  conv => lhs; rw [flatGroups.eq_def]
  all_goals rfl

/-- Translator and reference agree on the rest of a pattern: extended operators with flat
    pattern-lists, outside filename mode. -/
theorem top_agree_ext (m : Mode) (hx : m.ext = true) (hnf : m.filenames = false) (total : Nat) :
    ∀ (fuelS : Nat) (pos : Pos) (prev : Rune) (rest : Str) (fuelP fuelT fuelF : Nat),
      rest.length < fuelP → rest.length < fuelT → rest.length ≤ total →
      supp m false fuelS pos prev rest = true → flatGroups m fuelF rest = true →
      TopAgree m (parseSeq m fuelP prev rest) (topLoop m total fuelT prev rest) := by
  intro fuelS
  induction fuelS with
  | zero => intro pos prev rest fuelP fuelT fuelF _ _ _ h; rw [supp.eq_def] at h; simp at h
  | succ fS ih =>
    intro pos prev rest fuelP fuelT fuelF hP hT htot hs hfl
    cases fuelP with
    | zero => simp at hP
    | succ fP =>
    cases fuelT with
    | zero => simp at hT
    | succ fT =>
    cases fuelF with
    | zero => rw [flatGroups.eq_def] at hfl; simp at hfl
    | succ fF =>
    have hfuel : 2 * total + 4 = (2 * total + 3) + 1 := by omega
    cases rest with
    | nil =>
      rw [parseSeq_nil, topLoop_succ, hfuel, next_nil]
      simp only [TopAgree]
      exact ⟨_, rfl, rfl, fun b s => by rw [matches_eps_iff]; simp [GDen]⟩
    | cons c rest =>
      have hP' : rest.length < fP := by simp at hP; omega
      have hT' : rest.length < fT := by simp at hT; omega
      have htot' : rest.length ≤ total := by simp at htot; omega
      rw [supp_cons] at hs
      rw [flatGroups_cons] at hfl
      rw [parseSeq_cons]
      simp only [litTok_nofn hnf]
      by_cases hbs : c = cBS
      · subst hbs
        simp only [if_true] at hs hfl ⊢
        cases rest with
        | nil =>
          simp only [TopAgree]
          apply topLoop_err
          rw [hfuel, next_cons]
          have e1 : cBS ≠ cStar := by decide
          have e2 : cBS ≠ cQuest := by decide
          have e5 : isExtOp cBS = false := by decide
          simp [e5, e1, e2]
        | cons d rest' =>
          simp only at hs hfl ⊢
          have hn : next m total (2 * total + 4) prev (cBS :: d :: rest') = .tok (.chr d) d rest' := by
            rw [hfuel, next_cons]
            have e1 : cBS ≠ cStar := by decide
            have e2 : cBS ≠ cQuest := by decide
            have e5 : isExtOp cBS = false := by decide
            simp [e5, e1, e2]
          rw [topLoop_tok hn]
          refine TopAgree.cons rfl ?_ (ih _ d rest' fP fT fF (by simp at hP'; omega) (by simp at hT'; omega)
            (by simp at htot'; omega) (by simpa [hnf] using hs) hfl)
          intro b s
          rw [matches_chr_iff]; simp [GDen]
      · simp only [hbs, if_false, hx, Bool.true_and] at hs hfl ⊢
        by_cases hg : (isExtOp c && rest.head? == some cLP) = true
        · -- an extended operator and its pattern-list
          simp only [hg, if_true] at hs hfl
          obtain ⟨hop, hhead⟩ := Bool.and_eq_true_iff.mp hg
          have hhead' : (rest.head? == some cLP) = true := hhead
          by_cases hbang : c = cBang
          · simp [hbang] at hs
          · simp only [hbang, if_false] at hs
            cases hfr : flatRest rest.tail with
            | none => simp [hfr] at hfl
            | some p =>
              obtain ⟨as, rest'⟩ := p
              simp only [hfr] at hfl
              obtain ⟨hne, hflat, hlen'⟩ := flatRest_flat rest.tail.length rest.tail (Nat.le_refl _) as rest' hfr
              have hsg : scanGroup m.filenames (rest.length + 1) 0 [] [] rest.tail
                  = .ok (some (as, rest')) := by
                rw [hnf]
                have := scanGroup_flat rest.tail.length rest.tail (Nat.le_refl _) as rest' hfr
                  (rest.length + 1) [] [] (by simp; omega)
                rw [this, consHead_nil_ne hne]; rfl
              rw [hsg] at hs
              simp only [Bool.and_eq_true] at hs
              have hs2 := hs.2
              -- the reference parse
              have hq : ¬ (c = cQuest ∧ (!(rest.head? == some cLP)) = true) := by
                intro h; simp [hhead'] at h
              have hst : ¬ (c = cStar ∧ (!(rest.head? == some cLP)) = true) := by
                intro h; simp [hhead'] at h
              have hlb : c ≠ cLB := by
                intro h; subst h; revert hop; decide
              simp only [hq, hst, if_false, hlb, hg, if_true, hsg]
              have hrl : rest.tail.length ≤ rest.length := by simp
              have hmap : as.mapM (parseSeq m fP cLP) = .ok (as.map flatGlob) :=
                mapM_flat m hnf fP as (fun a ha => ⟨(hflat a ha).1, by
                  have := (hflat a ha).2; omega⟩)
              simp only [hmap]
              -- pattern.go
              have hn : next m total (2 * total + 4) prev (c :: rest) =
                  .tok (wrapOp c (.grp (altsRegex (as.map flatToks)))) cRP rest' := by
                rw [hfuel, next_cons]
                simp only [hx, Bool.true_and, hg, if_true]
                rw [group_flat m hnf total rest.tail.length rest.tail (Nat.le_refl _) as rest' hfr
                  (2 * total + 3) cLP (by omega)]
                simp [hbang]
              rw [topLoop_tok hn]
              refine TopAgree.cons (group_compiles c as) (group_sem m hnf c hop hbang as hne)
                (ih _ cRP rest' fP fT fF (by omega) (by omega) (by omega) hs2 hfl)
        · have hg' : (isExtOp c && rest.head? == some cLP) = false := by simpa using hg
          have hcond : (m.ext && isExtOp c && rest.head? == some cLP) = false := by
            rw [Bool.and_assoc, hg']; simp
          simp only [hg', Bool.false_eq_true, if_false] at hs hfl ⊢
          by_cases hq : c = cQuest
          · subst hq
            have hh : (rest.head? == some cLP) = false := by
              have : isExtOp cQuest = true := by decide
              simpa [this] using hg'
            simp only [hh, Bool.not_false, and_self, if_true, Bool.and_eq_true] at hs ⊢
            have e0 : cQuest ≠ cLB := by decide
            simp only [e0, if_false] at hfl
            have hn : next m total (2 * total + 4) prev (cQuest :: rest) = .tok .any cQuest rest := by
              rw [hfuel, next_cons]
              have e1 : cQuest ≠ cStar := by decide
              simp [hcond, hnf, e1]
            rw [topLoop_tok hn]
            refine TopAgree.cons rfl ?_ (ih _ cQuest rest fP fT fF hP' hT' htot' hs.2 hfl)
            intro b s
            rw [matches_any_iff]
            simp [GDen, wildOk_nofn hnf]
          · simp only [hq, false_and, if_false] at hs ⊢
            by_cases hst : c = cStar
            · subst hst
              have hh : (rest.head? == some cLP) = false := by
                have : isExtOp cStar = true := by decide
                simpa [this] using hg'
              simp only [hh, Bool.not_false, and_self, if_true, hnf, Bool.false_and, Bool.false_eq_true,
                if_false] at hs ⊢
              have e0 : cStar ≠ cLB := by decide
              simp only [e0, if_false] at hfl
              have hn : next m total (2 * total + 4) prev (cStar :: rest) = .tok (.star .any) cStar rest := by
                rw [hfuel, next_cons]
                simp [hcond, hnf]
              rw [topLoop_tok hn]
              refine TopAgree.cons rfl ?_ (ih _ cStar rest fP fT fF hP' hT' htot' hs hfl)
              intro b s
              simp only [GDen]
              exact ⟨fun _ => starDen_nofn hnf b s, fun _ => matches_star_any _ s⟩
            · simp only [hst, false_and, if_false] at hs ⊢
              by_cases hlb : c = cLB
              · subst hlb
                simp only [if_true, hnf, Bool.and_eq_true] at hs hfl ⊢
                obtain ⟨hbsup, hs2⟩ := hs
                have hag := bracket_agree rest hbsup
                unfold BracketAgree at hag
                have hnx : next m total (2 * total + 4) prev (cLB :: rest) =
                    (match bracket false rest with
                     | .literal => Step.tok (.chr cLB) cLB rest
                     | .err e => .err e
                     | .closed neg st rest' =>
                       if st.hasSlash then
                         .tok (seqRegex ((cLB :: rest.take (rest.length - rest'.length)).map .chr)) cRB rest'
                       else match st.deferred with
                         | some e => .err e
                         | none => .tok (.set neg st.items) cRB rest') := by
                  rw [hfuel, next_cons]
                  have e1 : cLB ≠ cStar := by decide
                  have e2 : cLB ≠ cQuest := by decide
                  have e3 : cLB ≠ cBS := by decide
                  simp only [hcond, Bool.false_eq_true, if_false, e1, e2, e3, if_true, hnf]
                  rfl
                cases hsb : scanBracket false rest with
                | notBracket =>
                  rw [hsb] at hag hs2 hfl
                  simp only [AgreeP] at hag
                  simp only at hs2 hfl ⊢
                  have hn : next m total (2 * total + 4) prev (cLB :: rest) = .tok (.chr cLB) cLB rest := by
                    rw [hnx, hag]
                  rw [topLoop_tok hn]
                  refine TopAgree.cons rfl ?_ (ih _ cLB rest fP fT fF hP' hT' htot' hs2 hfl)
                  intro b s
                  rw [matches_chr_iff]; simp [GDen]
                | malformed e =>
                  rw [hsb] at hag
                  simp only [AgreeP] at hag
                  simp only [TopAgree]
                  apply topLoop_err
                  rw [hnx]
                  rcases hag with hag | ⟨neg, st, rest', hag, h1, h2⟩
                  · rw [hag]
                  · rw [hag]; simp [h1, h2]
                | ok neg items rest' =>
                  rw [hsb] at hag hs2 hfl
                  simp only [AgreeP] at hag
                  obtain ⟨st, hbr, h1, h2, hlen, hcc, hmem⟩ := hag
                  simp only [Bool.false_and, Bool.not_false, Bool.true_and, Bool.and_eq_true] at hs2
                  simp only at hfl ⊢
                  have hn : next m total (2 * total + 4) prev (cLB :: rest) =
                      .tok (.set neg st.items) cRB rest' := by
                    rw [hnx, hbr]; simp [h1, h2]
                  rw [topLoop_tok hn]
                  refine TopAgree.cons (by simp [goCompiles, hcc]) ?_ (ih _ cRB rest' fP fT fF (by omega) (by omega) (by omega) hs2.2 hfl)
                  have hcls : m.nocase = false ∨ ∀ i ∈ items, i.isCls = false := by
                    have h0 := hs2.1
                    cases hnc : m.nocase with
                    | false => exact .inl rfl
                    | true =>
                      right
                      intro i hi
                      simp only [hnc, Bool.true_and, Bool.not_eq_true', List.any_eq_false] at h0
                      simpa using h0.1 i hi
                  intro b s
                  rw [matches_set_iff]
                  simp [GDen, wildOk_nofn hnf, hmem m.nocase _ hcls]
              · simp only [hlb, if_false, Bool.false_and, Bool.false_eq_true] at hs hfl ⊢
                have hn : next m total (2 * total + 4) prev (c :: rest) = .tok (.chr c) c rest := by
                  rw [hfuel, next_cons]
                  simp [hcond, hbs, hq, hst, hlb]
                rw [topLoop_tok hn]
                refine TopAgree.cons rfl ?_ (ih _ c rest fP fT fF hP' hT' htot' (by simpa [hnf] using hs) hfl)
                intro b s
                rw [matches_chr_iff]; simp [GDen]

end ShVerif.L3
