import ShVerif.Proofs.C05
/-
  C05, the main induction: with Minify off, on a tree satisfying `wf… true`, every printing
  function hands exactly the comments of its argument (`ac…`, canonical field order) to the
  printer, in that order — unless it took one of the state-dependent lossy branches (`lossD`).
-/
namespace ShVerif.C05

theorem Step.andThen {a b c : St} {cs1 cs2 : List Com} (h1 : Step a b cs1) (h2 : Step b c cs2) :
    Step a c (cs1 ++ cs2) := Step.seq h1 h2 rfl

local infixl:65 " ⟫ " => Step.andThen

/-- once the lossy counter has gone up, any claim about the comments holds vacuously -/
theorem Step.ofLt {a b c : St} {cs2 : List Com} (cs : List Com) (h : a.lossD < b.lossD)
    (h2 : Step b c cs2) : Step a c cs :=
  ⟨Nat.le_trans (Nat.le_of_lt h) h2.1, fun e => absurd e (by have := h2.1; omega)⟩

theorem Step.iteId {σ a : St} (c : Prop) [Decidable c] (h : Step σ a []) :
    Step σ (if c then a else σ) [] := by
  split
  · exact h
  · exact Step.refl σ

theorem Step.idIte {σ a : St} (c : Prop) [Decidable c] (h : Step σ a []) :
    Step σ (if c then σ else a) [] := by
  split
  · exact Step.refl σ
  · exact h

/-- `nestedStmts` around a statement loop that satisfies its `Step`. -/
theorem nested_step (o : Opts) (hm : o.minify = false) (req : Bool) (stmts : List Stmt) (last : List Com)
    (endLine : Nat) (closing : Pos) (σ : St)
    (h : ∀ τ, Step τ (prStmtLoop o req stmts τ) (acStmts stmts)) :
    Step σ
      (nestedPost o closing
        (listPost o stmts.length (sepOf stmts (nestedPre stmts.length endLine closing σ)) last
          (prStmtLoop o req stmts (nestedPre stmts.length endLine closing σ))))
      (acStmts stmts ++ last) :=
  ((nestedPre_step _ _ _ σ ⟫ h _ ⟫ listPost_step o hm _ _ last _) ⟫ nestedPost_step o _ _).congr (by simp)

theorem onlyLast_split (p : Com → Bool) :
    ∀ cs : List Com, onlyLast p cs = true → cs.filter (fun c => !p c) ++ cs.filter p = cs
  | [], _ => rfl
  | [c], _ => by cases h : p c <;> simp [h]
  | c :: d :: rest, hw => by
    simp only [onlyLast, Bool.and_eq_true, Bool.not_eq_true'] at hw
    have ih := onlyLast_split p (d :: rest) hw.2
    simp only [List.filter_cons, hw.1, Bool.not_false, ↓reduceIte, Bool.false_eq_true] at ih ⊢
    simpa using ih


theorem emitInline_step (c : Com) (σ : St) : Step σ (emitInline c σ) [c] := by
  unfold emitInline
  by_cases hp : σ.pending.isEmpty = true
  · have : σ.pending = [] := by simpa using hp
    exact ⟨by simp [hp], fun _ => by simp [St.acc, this]⟩
  · exact ⟨by simp [hp], fun h => absurd h (by simp [hp])⟩

theorem inlineCand_some {o : Opts} {noStmts : Bool} {last : List Com} {right : Pos} {σ : St} {c : Com}
    (h : inlineCand o noStmts last right σ = some c) : noStmts = true ∧ last = [c] := by
  unfold inlineCand at h
  split at h
  · split at h
    · rename_i h1
      simp only [Bool.and_eq_true] at h1
      simp only [Option.some.injEq] at h
      exact ⟨h1.1.1, by rw [h]⟩
    · cases h
  · cases h

variable (o : Opts) (hm : o.minify = false)
include hm

mutual
  theorem step_item : ∀ (i : Item) (σ : St), wfItem i = true → Step σ (prItem o i σ) (acItem i)
    | .li x, σ, _ => by simp only [prItem, acItem]; exact runL_step o x σ
    | .bslw p, σ, _ => by simp only [prItem, acItem]; exact Step.iteId _ (bslashNewl_step σ)
    | .tnl p, σ, _ => by simp only [prItem, acItem]; exact Step.iteId _ (newlines_step o p σ)
    | .sub kind swl endLine left right stmts last, σ, hw => by
      simp only [wfItem] at hw
      cases kind with
      | tempFile =>
        simp only [prItem, acItem]
        exact (nested_step o hm true stmts last endLine right σ (fun τ => step_loop true stmts τ hw)
          ⟫ semiRsrv_step o right _).congr (by simp)
      | replyVar =>
        simp only [prItem, acItem]
        exact (nested_step o hm false stmts last endLine right σ (fun τ => step_loop false stmts τ hw)
          ⟫ semiRsrv_step o right _).congr (by simp)
      | proc =>
        simp only [prItem, acItem]
        exact (nested_step o hm false stmts last endLine right σ (fun τ => step_loop false stmts τ hw)
          ⟫ rightParen_step o right _).congr (by simp)
      | dollar =>
        simp only [prItem, acItem]
        exact (nested_step o hm swl stmts last endLine right σ (fun τ => step_loop swl stmts τ hw)
          ⟫ rightParen_step o right _).congr (by simp)
      | backquote =>
        simp only [prItem, acItem]
        split
        · rename_i c hc
          obtain ⟨h1, h2⟩ := inlineCand_some hc
          have : stmts = [] := by simpa using h1
          subst this; subst h2
          simpa [acStmts] using emitInline_step c σ
        · exact (nested_step o hm swl stmts last endLine right σ (fun τ => step_loop swl stmts τ hw)
            ⟫ rightParen_step o right _).congr (by simp)
    | .arr rparen elems last, σ, hw => by
      simp only [wfItem] at hw
      simp only [prItem, acItem]
      have h2 : ∀ τ : St, Step τ (if last.isEmpty = true then τ else flushComments o (comments o last τ)) last := by
        intro τ
        split
        · rename_i h
          have : last = [] := by simpa using h
          subst this; exact Step.refl τ
        · exact (comments_step o hm last τ ⟫ flushComments_step o _).congr (by simp)
      exact (step_elems elems σ hw ⟫ h2 _ ⟫ rightParen_step o rparen _).congr (by simp)

  theorem step_items : ∀ (is : List Item) (σ : St), wfItems is = true → Step σ (prItems o is σ) (acItems is)
    | [], σ, _ => by simp only [prItems, acItems]; exact Step.refl σ
    | i :: is, σ, hw => by
      simp only [wfItems, Bool.and_eq_true] at hw
      simp only [prItems, acItems]
      exact step_item i σ hw.1 ⟫ step_items is _ hw.2

  theorem step_elems : ∀ (es : List Elem) (σ : St), wfElems es = true → Step σ (prElems o es σ) (acElems es)
    | [], σ, _ => by simp only [prElems, acElems]; exact Step.refl σ
    | .mk pos coms items :: es, σ, hw => by
      simp only [wfElems, Bool.and_eq_true] at hw
      simp only [prElems, acElems, splitLeft_of_onlyLast pos coms hw.1.1]
      exact (comments_step o hm _ σ ⟫ Step.iteId _ (newlines_step o pos _) ⟫ step_items items _ hw.1.2
        ⟫ comments_step o hm _ _ ⟫ step_elems es _ hw.2).congr (by simp)

  theorem step_stmt : ∀ (s : Stmt) (σ : St), wfStmt s = true → Step σ (prStmt o s σ) (acStmt s)
    | .mk pos cmdPos cmdEnd semi coms cmd redirs, σ, hw => by
      simp only [wfStmt, Bool.and_eq_true] at hw
      simp only [prStmt, acStmt]
      have h1 : Step σ (if cmd.isNone = true then σ else prCmd o cmd (advLine cmdPos.line σ)) (acCmd cmd) := by
        split
        · rename_i h
          cases cmd <;> simp [Cmd.isNone] at h
          simp only [acCmd]; exact Step.refl σ
        · exact (advLine_step _ σ ⟫ step_cmd cmd _ hw.1).congr (by simp)
      exact (h1 ⟫ step_redirs redirs _ hw.2 ⟫ Step.iteId _ (bslashNewl_step _)).congr (by simp)

  theorem step_redirs : ∀ (rs : List Redir) (σ : St), wfRedirs rs = true → Step σ (prRedirs o rs σ) (acRedirs rs)
    | [], σ, _ => by simp only [prRedirs, acRedirs]; exact Step.refl σ
    | .mk opPos hd word :: rs, σ, hw => by
      simp only [wfRedirs, Bool.and_eq_true] at hw
      simp only [prRedirs, acRedirs]
      have h3 : ∀ τ : St, Step τ (match hd with
          | some h => { τ with hdocs := τ.hdocs ++ [h] }
          | none => τ) [] := by
        intro τ
        cases hd with
        | none => exact Step.refl τ
        | some h => exact Keeps.step ⟨rfl, rfl, rfl⟩
      exact (Step.iteId _ (bslashNewl_step σ) ⟫ step_items word _ hw.1 ⟫ h3 _ ⟫ step_redirs rs _ hw.2).congr (by simp)

  theorem step_loop : ∀ (req : Bool) (ss : List Stmt) (σ : St), wfStmts ss = true →
      Step σ (prStmtLoop o req ss σ) (acStmts ss)
    | _, [], σ, _ => by simp only [prStmtLoop, acStmts]; exact Step.refl σ
    | req, s :: ss, σ, hw => by
      simp only [wfStmts, Bool.and_eq_true] at hw
      simp only [prStmtLoop, acStmts, classify_of_onlyLast s.pos s.cmdEnd s.hasCmd s.coms hw.1.1]
      have hk : ∀ τ : St, Step τ ({ τ with wantNewline := true } : St) [] := fun τ => Keeps.step ⟨rfl, rfl, rfl⟩
      exact (comments_step o hm _ σ ⟫ Step.iteId _ (newlines_step o s.pos _) ⟫ advLine_step _ _
        ⟫ comments_step o hm _ _ ⟫ step_stmt s _ hw.1.2 ⟫ comments_step o hm _ _ ⟫ hk _
        ⟫ step_loop true ss _ hw.2).congr (by simp)

  theorem step_cmd : ∀ (c : Cmd) (σ : St), wfCmd c = true → Step σ (prCmd o c σ) (acCmd c)
    | .none, σ, _ => by simp only [prCmd, acCmd]; exact Step.refl σ
    | .flat items, σ, hw => by
      simp only [wfCmd] at hw
      simp only [prCmd, acCmd]; exact step_items items σ hw
    | .block rbrace endLine stmts last, σ, hw => by
      simp only [wfCmd] at hw
      simp only [prCmd, acCmd]
      have h0 : Step σ ({ σ with wantNewline := σ.wantNewline || o.funcNextLine } : St) [] :=
        Keeps.step ⟨rfl, rfl, rfl⟩
      exact (h0 ⟫ nested_step o hm true stmts last endLine rbrace _ (fun τ => step_loop true stmts τ hw)
        ⟫ semiRsrv_step o rbrace _).congr (by simp)
    | .subshell swl firstLine lparen rparen endLine stmts last, σ, hw => by
      simp only [wfCmd] at hw
      simp only [prCmd, acCmd]
      have h0 : Step σ (if (swl && (lparen.line != firstLine || decide (1 < stmts.length)) && !o.singleLine && o.minify) = true
          then ({ σ with mustNewline := true } : St) else σ) [] :=
        Step.iteId _ (Keeps.step ⟨rfl, rfl, rfl⟩)
      exact (h0 ⟫ nested_step o hm false stmts last endLine rparen _ (fun τ => step_loop false stmts τ hw)
        ⟫ rightParen_step o rparen _).congr (by simp)
    | .ifc fi ic, σ, hw => by
      simp only [wfCmd] at hw
      simp only [prCmd, acCmd]; exact step_if fi ic σ hw
    | .whilec doPos donePos condEnd cond condLast doEnd body doLast, σ, hw => by
      simp only [wfCmd, Bool.and_eq_true] at hw
      simp only [prCmd, acCmd]
      have h1 := nested_step o hm true cond condLast condEnd Pos.none σ (fun τ => step_loop true cond τ hw.1)
      simp only [nestedPost, Pos.none, Bool.false_eq_true, ↓reduceIte] at h1
      exact (h1 ⟫ semiOrNewl_step o doPos _
        ⟫ nested_step o hm true body doLast doEnd donePos _ (fun τ => step_loop true body τ hw.2)
        ⟫ semiRsrv_step o donePos _).congr (by simp)
    | .forc doPos donePos loop doEnd body doLast, σ, hw => by
      simp only [wfCmd, Bool.and_eq_true] at hw
      simp only [prCmd, acCmd]
      exact (step_items loop σ hw.1 ⟫ semiOrNewl_step o doPos _
        ⟫ nested_step o hm true body doLast doEnd donePos _ (fun τ => step_loop true body τ hw.2)
        ⟫ semiRsrv_step o donePos _).congr (by simp)
    | .binary opPos x y, σ, hw => by
      simp only [wfCmd, Bool.and_eq_true] at hw
      have hx : x.coms = [] := by simpa using hw.1.1
      simp only [prCmd, acCmd, hx, List.nil_append]
      have sx := step_stmt x σ hw.1.2
      split
      · by_cases hy : (y.coms.isEmpty || (acStmt y).isEmpty) = true
        · simp only [hy, ↓reduceIte]
          refine (sx ⟫ advLine_step _ _ ⟫ step_stmt y _ hw.2 ⟫ comments_step o hm y.coms _).congr ?_
          simp only [Bool.or_eq_true, List.isEmpty_iff] at hy
          rcases hy with h | h <;> simp [h]
        · simp only [hy, Bool.false_eq_true, ↓reduceIte]
          have rest := advLine_step y.pos.line ({ prStmt o x σ with lossD := (prStmt o x σ).lossD + 1 } : St)
            ⟫ step_stmt y _ hw.2 ⟫ comments_step o hm y.coms _
          exact (sx ⟫ Step.ofLt (y.coms ++ acStmt y) (Nat.lt_succ_self _) rest).congr (by simp)
      · have hmid : ∀ τ : St, Step τ
            (if o.binNextLine = true then
              (if y.coms.isEmpty = true then (if τ.hdocs.isEmpty = true then bslashNewl τ else τ)
               else newline o Pos.none (comments o y.coms (newline o y.pos (if τ.hdocs.isEmpty = true then bslashNewl τ else τ))))
             else newline o Pos.none (comments o y.coms (advLine opPos.line τ))) y.coms := by
          intro τ
          split
          · split
            · rename_i hy
              have hy' : y.coms = [] := by simpa using hy
              rw [hy']
              exact Step.iteId _ (bslashNewl_step τ)
            · exact (Step.iteId _ (bslashNewl_step τ) ⟫ newline_step o _ _ ⟫ comments_step o hm _ _
                ⟫ newline_step o _ _).congr (by simp)
          · exact (advLine_step _ τ ⟫ comments_step o hm _ _ ⟫ newline_step o _ _).congr (by simp)
        exact (sx ⟫ hmid _ ⟫ advLine_step _ _ ⟫ step_stmt y _ hw.2).congr (by simp)
    | .func body, σ, hw => by
      simp only [wfCmd] at hw
      simp only [prCmd, acCmd]
      exact (Step.iteId _ (newline_step o Pos.none σ) ⟫ advLine_step _ _ ⟫ comments_step o hm _ _
        ⟫ step_stmt body _ hw).congr (by simp)
    | .casec inLine esac word items last, σ, hw => by
      simp only [wfCmd, Bool.and_eq_true] at hw
      simp only [prCmd, acCmd]
      have hk : ∀ τ : St, Step τ (if items.isEmpty = true then ({ τ with mustNewline := true } : St) else τ) [] :=
        fun τ => Step.iteId _ (Keeps.step ⟨rfl, rfl, rfl⟩)
      exact (step_items word σ hw.1 ⟫ advLine_step _ _ ⟫ hk _ ⟫ step_caseItems items _ hw.2
        ⟫ comments_step o hm last _ ⟫ Step.iteId _ (flushComments_step o _) ⟫ semiRsrv_step o esac _).congr (by simp)
    | .wrap pre none, σ, hw => by
      simp only [wfCmd, Bool.and_eq_true] at hw
      simp only [prCmd, acCmd]
      exact (step_items pre σ hw.1).congr (by simp)
    | .wrap pre (some s), σ, hw => by
      simp only [wfCmd, Bool.and_eq_true] at hw
      simp only [prCmd, acCmd]
      exact (step_items pre σ hw.1 ⟫ step_stmt s _ hw.2 ⟫ comments_step o hm s.coms _).congr (by simp)

  theorem step_if : ∀ (fi : Pos) (ic : IfC) (σ : St), wfIf ic = true → Step σ (prIf o fi ic σ) (acIf ic)
    | fi, .mk position hasThen thenPos condEnd cond condLast thenEnd thn thenLast last none, σ, hw => by
      simp only [wfIf, Bool.and_eq_true] at hw
      simp only [prIf, acIf]
      have h1 := nested_step o hm true cond condLast condEnd Pos.none σ (fun τ => step_loop true cond τ hw.1.1)
      simp only [nestedPost, Pos.none, Bool.false_eq_true, ↓reduceIte] at h1
      exact (h1 ⟫ semiOrNewl_step o thenPos _
        ⟫ nested_step o hm true thn thenLast thenEnd fi _ (fun τ => step_loop true thn τ hw.1.2)
        ⟫ comments_step o hm last _ ⟫ semiRsrv_step o fi _).congr (by simp)
    | fi, .mk position hasThen thenPos condEnd cond condLast thenEnd thn thenLast last (some e), σ, hw => by
      simp only [wfIf, Bool.and_eq_true, Bool.or_eq_true] at hw
      simp only [prIf, acIf]
      have h1 := nested_step o hm true cond condLast condEnd Pos.none σ (fun τ => step_loop true cond τ hw.1.1)
      simp only [nestedPost, Pos.none, Bool.false_eq_true, ↓reduceIte] at h1
      have h2 := fun τ => nested_step o hm true thn thenLast thenEnd e.position τ (fun τ => step_loop true thn τ hw.1.2)
      split
      · exact (h1 ⟫ semiOrNewl_step o thenPos _ ⟫ h2 _ ⟫ comments_step o hm last _
          ⟫ semiRsrv_step o e.position _ ⟫ step_if fi e _ hw.2.2).congr (by simp)
      · rename_i hne
        have hol : onlyLast (fun c => c.pos.after e.position) last = true ∧ e.elseShape = true := by
          rcases hw.2.1 with h | h
          · exact absurd h hne
          · exact h
        simp only [splitLeft_of_onlyLast e.position last hol.1]
        have hsplit := onlyLast_split (fun c => c.pos.after e.position) last hol.1
        refine (h1 ⟫ semiOrNewl_step o thenPos _ ⟫ h2 _ ⟫ comments_step o hm _ _
          ⟫ semiRsrv_step o e.position _ ⟫ comments_step o hm _ _ ⟫ step_else fi e _ hw.2.2 hol.2
          ⟫ semiRsrv_step o fi _).congr ?_
        simp only [List.append_nil, List.append_assoc]
        conv => lhs; rw [← hsplit]
        simp only [List.append_assoc]

  theorem step_else : ∀ (fi : Pos) (e : IfC) (σ : St), wfIf e = true → e.elseShape = true →
      Step σ (prElse o fi e σ) (acIf e)
    | fi, .mk position hasThen thenPos condEnd cond condLast thenEnd thn thenLast last none, σ, hw, hs => by
      simp only [wfIf, Bool.and_eq_true] at hw
      simp only [IfC.elseShape, Bool.and_eq_true, List.isEmpty_iff] at hs
      obtain ⟨⟨hc, hcl⟩, _⟩ := hs
      subst hc; subst hcl
      simp only [prElse, acIf, acStmts]
      exact (nested_step o hm true thn thenLast thenEnd fi σ (fun τ => step_loop true thn τ hw.1.2)
        ⟫ comments_step o hm last _).congr (by simp)
    | fi, .mk position hasThen thenPos condEnd cond condLast thenEnd thn thenLast last (some e), σ, hw, hs => by
      simp [IfC.elseShape] at hs

  theorem step_caseItems : ∀ (cis : List CaseItem) (σ : St), wfCaseItems cis = true →
      Step σ (prCaseItems o cis σ) (acCaseItems cis)
    | [], σ, _ => by simp only [prCaseItems, acCaseItems]; exact Step.refl σ
    | .mk pos opPos opBreak endLine coms pats stmts last :: rest, σ, hw => by
      simp only [wfCaseItems, Bool.and_eq_true] at hw
      simp only [prCaseItems, acCaseItems, splitCase_of_monotone pos coms hw.1.1.1]
      have hop : ∀ τ : St, Step τ
          (if (!o.minify || !rest.isEmpty || !opBreak) = true then
            advLine opPos.line (if wantsNewline o τ opPos false = true then { newlines o opPos τ with wantNewline := true } else τ)
           else τ) [] := by
        intro τ
        refine Step.iteId _ ?_
        have : Step τ (if wantsNewline o τ opPos false = true then ({ newlines o opPos τ with wantNewline := true } : St) else τ) [] := by
          refine Step.iteId _ ?_
          have hk := newlines_keeps o opPos τ
          exact Keeps.step ⟨hk.acc, hk.lossD, hk.inlineN⟩
        exact (this ⟫ advLine_step _ _).congr (by simp)
      exact (comments_step o hm _ σ ⟫ newlines_step o pos _ ⟫ step_items pats _ hw.1.1.2
        ⟫ nested_step o hm false stmts last endLine opPos _ (fun τ => step_loop false stmts τ hw.1.2)
        ⟫ hop _ ⟫ comments_step o hm _ _ ⟫ flushComments_step o _ ⟫ step_caseItems rest _ hw.2).congr (by simp)
end

end ShVerif.C05
