/-
  C07 — `rune` refinement, continued: the decode branch, EOF, the retry loop, `rune` itself.
-/
import ShVerif.Proofs.C07Rune2
namespace ShVerif.C07
open ShVerif ShVerif.L2
set_option linter.unusedSimpArgs false

theorem advanceN_refines (bs : List Byte) : ∀ {s a f}, R s a → a.behind = none → s.front = bs ++ f →
    a.err = none → s.bsp = s.back.length →
    R (St.advanceN bs.length s) (LSt.consumeN bs.length a) ∧
      (St.advanceN bs.length s).bsp = (St.advanceN bs.length s).back.length ∧
      (LSt.consumeN bs.length a).err = none ∧
      (St.advanceN bs.length s).back = bs.reverse ++ s.back ∧
      (LSt.consumeN bs.length a).behind = none := by
  induction bs with
  | nil =>
    intro s a f h hb hf hal hcur
    exact ⟨h, hcur, hal, by simp [St.advanceN], hb⟩
  | cons b bs ih =>
    intro s a f h hb hf hal hcur
    have hf' : s.front = b :: (bs ++ f) := hf
    obtain ⟨hRa, hcura, hala⟩ := advance_refines h hb hf'
    have := ih hRa (by simpa using hb) (advance_front hf') hala hcura
    obtain ⟨h1, h2, h3, h4, h5⟩ := this
    refine ⟨h1, h2, h3, ?_, h5⟩
    simp only [List.length_cons, St.advanceN]
    rw [h4]
    simp [St.advance, hf']

theorem R.litPush {s a} (h : R s a) (bs : List Byte) : R (s.litPush bs) (a.litPush bs) := by
  unfold St.litPush LSt.litPush
  have hlit := h.f_lit
  cases hl : s.lit with
  | none => rw [hl] at hlit; simp only [hlit]; exact h
  | some l =>
    rw [hl] at hlit
    simp only [hlit]
    destruct_R h
    constructor <;> simp_all <;> assumption

theorem R.setBehind {s a} (h : R s a) (hc0 : s.bsp = s.back.length) (l : List Byte)
    (hl : l <+: s.back) : R s { a with behind := some l } := by
  destruct_R h
  constructor <;> (try assumption)
  intro l' hl'
  have : l = l' := by simpa using hl'
  subst this
  exact ⟨hc0, hl⟩

theorem R.setW {s a} (h : R s a) (w : Nat) : R { s with w := w } { a with w := w } := by
  destruct_R h
  constructor <;> simp_all <;> assumption

theorem errPass_refines {s a} (h : R s a) (e : Err) : R (s.errPass e) (a.errPass e) := by
  unfold St.errPass LSt.errPass
  have herr := h.f_err
  cases he : s.err with
  | some e' => rw [he] at herr; simp only [herr]; exact h
  | none =>
    rw [he] at herr
    simp only [herr]
    have ha := h.alive herr
    destruct_R h
    constructor <;> simp_all <;> (try assumption) <;> (try omega)
    intro bl bp x y hxy h1 h2
    have := hbufV x y hxy
    omega

end ShVerif.C07
