/-
  C07 — `rune` refinement, continued: the decode branch, EOF, the retry loop, `rune` itself.
-/
import ShVerif.Proofs.C07Rune2
namespace ShVerif.C07
open ShVerif ShVerif.L2
set_option linter.unusedSimpArgs false

theorem advanceN_refines (bs : List Byte) : ∀ {s a f}, R s a → a.behind = none → s.front = bs ++ f →
    a.err = none → s.bsp = s.back.length →
    R (St.advanceN bs.length s) (LSt.consumeN bs.length a) ∧
      (St.advanceN bs.length s).bsp = (St.advanceN bs.length s).back.length ∧
      (LSt.consumeN bs.length a).err = none ∧
      (St.advanceN bs.length s).back = bs.reverse ++ s.back ∧
      (LSt.consumeN bs.length a).behind = none := by
  induction bs with
  | nil =>
    intro s a f h hb hf hal hcur
    exact ⟨h, hcur, hal, by simp [St.advanceN], hb⟩
  | cons b bs ih =>
    intro s a f h hb hf hal hcur
    have hf' : s.front = b :: (bs ++ f) := hf
    obtain ⟨hRa, hcura, hala⟩ := advance_refines h hb hf'
    have := ih hRa (by simpa using hb) (advance_front hf') hala hcura
    obtain ⟨h1, h2, h3, h4, h5⟩ := this
    refine ⟨h1, h2, h3, ?_, h5⟩
    simp only [List.length_cons, St.advanceN]
    rw [h4]
    simp [St.advance, hf']

theorem R.litPush {s a} (h : R s a) (bs : List Byte) : R (s.litPush bs) (a.litPush bs) := by
  unfold St.litPush LSt.litPush
  have hlit := h.f_lit
  cases hl : s.lit with
  | none => rw [hl] at hlit; simp only [hlit]; exact h
  | some l =>
    rw [hl] at hlit
    simp only [hlit]
    destruct_R h
    constructor <;> simp_all <;> assumption

theorem R.setBehind {s a} (h : R s a) (hc0 : s.bsp = s.back.length) (l : List Byte)
    (hl : l <+: s.back) : R s { a with behind := some l } := by
  destruct_R h
  constructor <;> (try assumption)
  intro l' hl'
  have : l = l' := by simpa using hl'
  subst this
  exact ⟨hc0, hl⟩

theorem R.setW {s a} (h : R s a) (w : Nat) : R { s with w := w } { a with w := w } := by
  destruct_R h
  constructor <;> simp_all <;> assumption

theorem errPass_refines {s a} (h : R s a) (e : Err) : R (s.errPass e) (a.errPass e) := by
  unfold St.errPass LSt.errPass
  have herr := h.f_err
  cases he : s.err with
  | some e' => rw [he] at herr; simp only [herr]; exact h
  | none =>
    rw [he] at herr
    simp only [herr]
    have ha := h.alive herr
    destruct_R h
    constructor <;> simp_all <;> (try assumption) <;> (try omega)

/-- everything in the decode branch after the `decodeRune:` loop -/
def decodeTail (w : Nat) (a : LSt) : LSt :=
  let bytes := a.rest.take w
  let a := a.litPush bytes
  let a := a.consumeN w
  let a := { a with behind := some bytes.reverse, w := w }
  if a.r == runeError && w == 1 then
    let (o, l, c) := a.nextPos
    a.errPass (.utf8 o l c)
  else a

theorem runeDecode_eq (a : LSt) :
    LSt.runeDecode a = decodeTail (decodeRune a.rest).2 (decodeSpec a) := by
  unfold LSt.runeDecode decodeTail decodeSpec
  rcases hd : decodeRune a.rest with ⟨r, w⟩
  simp only

@[simp] theorem st_litPush_front (s : St) (bs : List Byte) : (s.litPush bs).front = s.front := by
  unfold St.litPush; split <;> rfl
@[simp] theorem st_litPush_back (s : St) (bs : List Byte) : (s.litPush bs).back = s.back := by
  unfold St.litPush; split <;> rfl
@[simp] theorem st_litPush_bsp (s : St) (bs : List Byte) : (s.litPush bs).bsp = s.bsp := by
  unfold St.litPush; split <;> rfl
@[simp] theorem litPush_err (a : LSt) (bs : List Byte) : (a.litPush bs).err = a.err := by
  unfold LSt.litPush; split <;> rfl
@[simp] theorem litPush_behind (a : LSt) (bs : List Byte) : (a.litPush bs).behind = a.behind := by
  unfold LSt.litPush; split <;> rfl
@[simp] theorem litPush_rest (a : LSt) (bs : List Byte) : (a.litPush bs).rest = a.rest := by
  unfold LSt.litPush; split <;> rfl

@[simp] theorem decodeSpec_err (a : LSt) : (decodeSpec a).err = a.err := rfl
@[simp] theorem decodeSpec_behind (a : LSt) : (decodeSpec a).behind = a.behind := rfl
@[simp] theorem decodeSpec_rest (a : LSt) : (decodeSpec a).rest = a.rest := rfl

theorem nextPos_eq {s a} (h : R s a) (hal : a.err = none) : s.nextPos = a.nextPos := by
  unfold St.nextPos LSt.nextPos
  rw [(h.alive hal).2, h.f_w, h.f_line, h.f_col]

def decodeFin (w : Nat) (a : LSt) : LSt :=
  let a := { a with w := w }
  if a.r == runeError && w == 1 then
    let (o, l, c) := a.nextPos
    a.errPass (.utf8 o l c)
  else a

def stFin (w : Nat) (s : St) : St :=
  let s := { s with w := w }
  if s.r == runeError && w == 1 then
    let (o, l, c) := s.nextPos
    s.errPass (.utf8 o l c)
  else s

theorem fin_refines {s a} (w : Nat) (h : R s a) (hal : a.err = none) : R (stFin w s) (decodeFin w a) := by
  unfold stFin decodeFin
  have h' := h.setW w
  have hal' : ({ a with w := w } : LSt).err = none := hal
  have hc : (a.r == runeError && w == 1) = (s.r == runeError && w == 1) := by rw [h.f_r]
  have hp := nextPos_eq h' hal'
  simp only
  generalize ({ s with w := w } : St) = s1 at h' hp ⊢
  generalize ({ a with w := w } : LSt) = a1 at h' hp ⊢
  rw [hc, hp]
  split
  · exact errPass_refines h' _
  · exact h'

theorem runeDecode_refines {s a b f} (h : R s a) (hb : a.behind = none) (hf : s.front = b :: f)
    (hh : a.halted = false) :
    ∃ s', St.runeDecode s = .ok s' ∧ R s' (LSt.runeDecode a) := by
  obtain ⟨hal, hrest⟩ := h.head hf
  have hr := h.r_ne_of_front hf hh
  obtain ⟨s1, h1, hR1, hw⟩ := decodeLoop_refines 4 h hal hb hh (by simp [hf]) hr (by simp [hf]) (by omega)
  have hw1 : 1 ≤ (decodeRune a.rest).2 := (decode_width a.rest (by simp [hrest])).1
  rw [runeDecode_eq]
  unfold St.runeDecode
  simp only [h1, bind_ok]
  generalize (decodeRune a.rest).2 = w at hw hw1 ⊢
  have hal1 : (decodeSpec a).err = none := by simpa using hal
  have hb1 : (decodeSpec a).behind = none := by simpa using hb
  generalize decodeSpec a = a1 at hR1 hal1 hb1 ⊢
  have hrest1 := (hR1.alive hal1).1
  have hcur1 : s1.bsp = s1.back.length := by
    rcases hR1.cursor with hc | ⟨hc, _⟩
    · exact hc
    · rw [hc] at hw; simp at hw; omega
  have htake : a1.rest.take w = s1.front.take w := by
    rw [hrest1, List.take_append_of_le_length hw]
  have hlen : (s1.front.take w).length = w := by simp [List.length_take]; omega
  have hRp := hR1.litPush (s1.front.take w)
  have hsplit : (s1.litPush (s1.front.take w)).front = s1.front.take w ++ s1.front.drop w := by simp
  obtain ⟨hRa, hcura, hala, hback, hbeh⟩ :=
    advanceN_refines (s1.front.take w) hRp (by simpa using hb1) hsplit (by simpa using hal1) (by simpa using hcur1)
  rw [hlen] at hRa hcura hala hback hbeh
  have hRb := hRa.setBehind hcura (s1.front.take w).reverse (by rw [hback]; exact List.prefix_append _ _)
  refine ⟨stFin w (St.advanceN w (s1.litPush (s1.front.take w))), rfl, ?_⟩
  have := fin_refines w hRb (by simpa using hala)
  have e : decodeTail w a1 = decodeFin w
      { LSt.consumeN w (a1.litPush (s1.front.take w)) with behind := some (s1.front.take w).reverse } := by
    unfold decodeTail decodeFin
    simp only [htake]
  rw [e]
  exact this

end ShVerif.C07
