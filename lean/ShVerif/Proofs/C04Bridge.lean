import ShVerif.Model.C04
/-
  C04 — the typed fragments are what the whole-tree model does: `simp` on an embedded arithmetic /
  test expression is the embedding of `Arith.walk` / `Test.walk`.
-/
namespace ShVerif.C04

/-! ### leaves are inert -/

theorem simp_nil (f : Nat) : simp f nilNode = (nilNode, false) := by
  cases f <;> simp [simp, visit, nilNode, Node.kids, Node.ty, Node.attrs, Node.val]

theorem simp_lit (f : Nat) (a : List Nat) (v : Bytes) : simp f (.mk .lit a v []) = (.mk .lit a v [], false) := by
  cases f <;> simp [simp, visit, Node.kids, Node.ty, Node.attrs, Node.val]

theorem simp_emptyList (f : Nat) : simp f (.mk .list [] [] []) = (.mk .list [] [] [], false) := by
  cases f <;> simp [simp, visit, Node.kids, Node.ty, Node.attrs, Node.val]

theorem removeParensArithm_nil (f : Nat) : removeParensArithm f nilNode = (nilNode, false) := by
  cases f <;> simp [removeParensArithm, nilNode]

theorem simp_simplePE (f : Nat) (b : Bool) (n : Bytes) : simp f (simplePE b n) = (simplePE b n, false) := by
  cases f with
  | zero => rfl
  | succ f =>
    simp only [simp, simplePE, visit, removeParensArithm_nil]
    simp [Node.kids, Node.ty, Node.attrs, Node.val, simp_nil, simp_lit, simp_emptyList]

theorem simp_litWord (f : Nat) (v : Bytes) : simp f (litWord v) = (litWord v, false) := by
  cases f with
  | zero => rfl
  | succ f =>
    simp [simp, litWord, visit, simplifyWord, Node.kids, Node.ty, Node.attrs, Node.val, simp_lit]

theorem simp_peWord (f : Nat) (b : Bool) (n : Bytes) :
    simp f (.mk .word [] [] [simplePE b n]) = (.mk .word [] [] [simplePE b n], false) := by
  cases f with
  | zero => rfl
  | succ f =>
    have : simplifyWord [simplePE b n] = ([simplePE b n], false) := by
      simp [simplifyWord, simplePE]
    simp [simp, visit, this, Node.kids, Node.ty, Node.attrs, Node.val, simp_simplePE]

theorem simp_dqWord (f : Nat) (n : Bytes) :
    simp f (.mk .word [] [] [.mk .dbl [0] [] [simplePE false n]]) =
      (.mk .word [] [] [.mk .dbl [0] [] [simplePE false n]], false) := by
  cases f with
  | zero => rfl
  | succ f =>
    have : simplifyWord [.mk .dbl [0] [] [simplePE false n]] = ([.mk .dbl [0] [] [simplePE false n]], false) := by
      simp [simplifyWord, simplePE]
    have hd : simp f (.mk .dbl [0] [] [simplePE false n]) = (.mk .dbl [0] [] [simplePE false n], false) := by
      cases f with
      | zero => rfl
      | succ f => simp [simp, visit, Node.kids, Node.ty, Node.attrs, Node.val, simp_simplePE]
    simp [simp, visit, this, Node.kids, Node.ty, Node.attrs, Node.val, hd]


theorem simp_wordPE (f : Nat) (n : Bytes) : simp f (wordPE n) = (wordPE n, false) := by
  cases f with
  | zero => rfl
  | succ f =>
    simp only [simp, wordPE, visit, removeParensArithm_nil]
    simp [Node.kids, Node.ty, Node.attrs, Node.val, simp_nil, simp_lit, simp_emptyList, simp_litWord]

theorem simp_wpeWord (f : Nat) (n : Bytes) :
    simp f (.mk .word [] [] [wordPE n]) = (.mk .word [] [] [wordPE n], false) := by
  cases f with
  | zero => rfl
  | succ f =>
    have : simplifyWord [wordPE n] = ([wordPE n], false) := by
      simp [simplifyWord, wordPE]
    simp [simp, visit, this, Node.kids, Node.ty, Node.attrs, Node.val, simp_wordPE]

theorem simp_dqwWord (f : Nat) (n : Bytes) :
    simp f (.mk .word [] [] [.mk .dbl [0] [] [wordPE n]]) =
      (.mk .word [] [] [.mk .dbl [0] [] [wordPE n]], false) := by
  cases f with
  | zero => rfl
  | succ f =>
    have : simplifyWord [.mk .dbl [0] [] [wordPE n]] = ([.mk .dbl [0] [] [wordPE n]], false) := by
      simp [simplifyWord, wordPE]
    have hd : simp f (.mk .dbl [0] [] [wordPE n]) = (.mk .dbl [0] [] [wordPE n], false) := by
      cases f with
      | zero => rfl
      | succ f => simp [simp, visit, Node.kids, Node.ty, Node.attrs, Node.val, simp_wordPE]
    simp [simp, visit, this, Node.kids, Node.ty, Node.attrs, Node.val, hd]

/-! ### arithmetic -/

section ArithBridge
open Arith
variable (q c : Nat)

theorem walk_inline_strip : ∀ e : Arith, (Arith.inline (strip e)).walk = e.top := by
  intro e
  induction e with
  | paren x ih => simpa [strip, Arith.top] using ih
  | lit v => rfl
  | dollar b n =>
    simp only [strip, Arith.top, Arith.inline]
    split <;> rfl
  | unary op p x _ => rfl
  | binary op x y _ _ => rfl
  | tern x a b _ _ _ => rfl

theorem walk_inline : ∀ e : Arith, (Arith.inline e).walk = e.walkInl := by
  intro e
  cases e with
  | dollar b n =>
    simp only [Arith.walkInl, Arith.inline]
    split <;> rfl
  | _ => rfl

theorem depth_pos (e : Arith) : 0 < e.depth := by cases e <;> simp [Arith.depth]

theorem depth_strip : ∀ e : Arith, (strip e).depth ≤ e.depth := by
  intro e
  induction e with
  | paren x ih => simp only [strip, Arith.depth]; omega
  | _ => exact Nat.le_refl _

theorem depth_inline (e : Arith) : (Arith.inline e).depth = e.depth := by
  cases e with
  | dollar b n => simp only [Arith.inline]; split <;> rfl
  | _ => rfl

theorem removeParensArithm_toNode : ∀ (e : Arith) (k : Nat), e.depth ≤ k →
    (removeParensArithm k (e.toNode q c)).1 = (strip e).toNode q c := by
  intro e
  induction e with
  | paren x ih =>
    intro k hk
    cases k with
    | zero => simp [Arith.depth] at hk
    | succ k =>
      simp only [Arith.depth] at hk
      simp only [Arith.toNode, removeParensArithm, strip]
      exact ih k (by omega)
  | lit v => intro k hk; cases k <;> simp [removeParensArithm, Arith.toNode, litWord, strip]
  | dollar b n => intro k hk; cases k <;> simp [removeParensArithm, Arith.toNode, strip]
  | unary op p x _ => intro k hk; cases k <;> simp [removeParensArithm, Arith.toNode, strip]
  | binary op x y _ _ => intro k hk; cases k <;> simp [removeParensArithm, Arith.toNode, strip]
  | tern x a b _ _ _ => intro k hk; cases k <;> simp [removeParensArithm, Arith.toNode, strip]

theorem peSimple_simplePE (b : Bool) (n : Bytes) : peSimple (simplePE b n) = true := by
  simp [peSimple, simplePE, nilNode, Node.ty, Node.kids]

theorem inlineSimpleParams_toNode (e : Arith) :
    (inlineSimpleParams (e.toNode q c)).1 = (Arith.inline e).toNode q c := by
  cases e with
  | dollar b n =>
    have hp : peParam (simplePE b n) = .mk .lit [] n [] := by simp [peParam, simplePE, Node.kids]
    have ht : (simplePE b n).ty = .paramExp := rfl
    simp only [Arith.toNode, inlineSimpleParams, hp, ht, peSimple_simplePE, Arith.inline]
    by_cases hv : validName n = true
    · simp [hv, Arith.toNode, litWord, Node.ty, Node.val]
    · simp [hv, Arith.toNode, Node.ty, Node.val]
  | lit v => simp [Arith.toNode, litWord, inlineSimpleParams, Arith.inline, Node.ty]
  | paren x => simp [Arith.toNode, inlineSimpleParams, Arith.inline]
  | unary op p x => simp [Arith.toNode, inlineSimpleParams, Arith.inline]
  | binary op x y => simp [Arith.toNode, inlineSimpleParams, Arith.inline]
  | tern x a b => simp [Arith.toNode, inlineSimpleParams, Arith.inline]

theorem arithTop_toNode (e : Arith) (k : Nat) (hk : e.depth ≤ k) :
    (arithTop k (e.toNode q c)).1 = (Arith.inline (strip e)).toNode q c := by
  simp only [arithTop, removeParensArithm_toNode q c e k hk, inlineSimpleParams_toNode]

/-- `simp` on an embedded arithmetic expression is `Arith.walk`. -/
theorem simp_toNode : ∀ (n : Nat) (e : Arith) (f : Nat), e.depth ≤ n → n ≤ f →
    (simp f (e.toNode q c)).1 = e.walk.toNode q c := by
  intro n
  induction n with
  | zero => intro e f h; have := depth_pos e; omega
  | succ n ih =>
    intro e f hd hf
    cases f with
    | zero => omega
    | succ f =>
      cases e with
      | lit v => simp [Arith.toNode, Arith.walk, simp_litWord]
      | dollar b m => simp [Arith.toNode, Arith.walk, simp_peWord]
      | paren x =>
        simp only [Arith.depth] at hd
        have h1 := arithTop_toNode q c x (f+1) (by omega)
        have h2 := ih (Arith.inline (strip x)) f
          (by rw [depth_inline]; have := depth_strip x; omega) (by omega)
        simp only [Arith.toNode, simp, visit, Node.kids, Node.ty, Node.attrs, Node.val, List.map_cons,
          List.map_nil, h1, h2, Arith.walk, walk_inline_strip]
      | unary op p x =>
        simp only [Arith.depth] at hd
        have h2 := ih x f (by omega) (by omega)
        simp only [Arith.toNode, simp, visit, Node.kids, Node.ty, Node.attrs, Node.val, List.map_cons,
          List.map_nil, h2, Arith.walk]
      | binary op x y =>
        simp only [Arith.depth] at hd
        have hx := ih (Arith.inline x) f (by rw [depth_inline]; omega) (by omega)
        have hy := ih (Arith.inline y) f (by rw [depth_inline]; omega) (by omega)
        simp only [Arith.toNode, simp, visit, Node.kids, Node.ty, Node.attrs, Node.val, List.map_cons,
          List.map_nil, inlineSimpleParams_toNode, hx, hy, Arith.walk, walk_inline]
      | tern x a b =>
        simp only [Arith.depth] at hd
        have hx := ih (Arith.inline x) f (by rw [depth_inline]; omega) (by omega)
        have hi := ih (.binary c a b) f (by simp only [Arith.depth]; omega) (by omega)
        have hin : (inlineSimpleParams (.mk .binaryArithm [c] [] [a.toNode q c, b.toNode q c])).1 =
            .mk .binaryArithm [c] [] [a.toNode q c, b.toNode q c] := by simp [inlineSimpleParams]
        simp only [Arith.toNode, Arith.walk] at hi
        simp only [Arith.toNode, simp, visit, Node.kids, Node.ty, Node.attrs, Node.val, List.map_cons,
          List.map_nil, inlineSimpleParams_toNode, hin, hx, hi, Arith.walk, walk_inline]

/-- What `Simplify` does to `$(( e ))`, `(( e ))`, `( e )` inside arithmetic: the typed `Arith.top`. -/
theorem simp_arith_holder (ty : Ty) (hty : ty = .arithmExp ∨ ty = .arithmCmd ∨ ty = .parenArithm)
    (a : List Nat) (v : Bytes) (e : Arith) (f : Nat) (hf : e.depth + 1 ≤ f) :
    (simp f (.mk ty a v [e.toNode q c])).1 = .mk ty a v [e.top.toNode q c] := by
  cases f with
  | zero => omega
  | succ f =>
    have h1 := arithTop_toNode q c e (f+1) (by omega)
    have h2 := simp_toNode q c f (Arith.inline (strip e)) f
      (by rw [depth_inline]; have := depth_strip e; omega) (Nat.le_refl _)
    rcases hty with h | h | h <;> subst h <;>
    simp only [simp, visit, Node.kids, Node.ty, Node.attrs, Node.val, List.map_cons,
      List.map_nil, h1, h2, walk_inline_strip]

end ArithBridge

section ArithBridge2
open Arith

theorem adepth_le_size (q c : Nat) : ∀ e : Arith, e.depth ≤ size (e.toNode q c) := by
  intro e
  induction e with
  | lit v => simp [Arith.depth, Arith.toNode, litWord, size, sizeList]
  | dollar b n => simp [Arith.depth, Arith.toNode, size, sizeList]
  | paren x ih => simp only [Arith.depth, Arith.toNode, size, sizeList]; omega
  | unary op p x ih => simp only [Arith.depth, Arith.toNode, size, sizeList]; omega
  | binary op x y ihx ihy => simp only [Arith.depth, Arith.toNode, size, sizeList]; omega
  | tern x a b ihx iha ihb => simp only [Arith.depth, Arith.toNode, size, sizeList]; omega

/-- What `Simplify` does to `$(( e ))`, `(( e ))` and a parenthesised sub-expression: `Arith.top`. -/
theorem simplify_arith_holder (q c : Nat) (ty : Ty)
    (hty : ty = .arithmExp ∨ ty = .arithmCmd ∨ ty = .parenArithm)
    (a : List Nat) (v : Bytes) (e : Arith) :
    (simplify (.mk ty a v [e.toNode q c])).1 = .mk ty a v [e.top.toNode q c] := by
  have := adepth_le_size q c e
  exact simp_arith_holder q c ty hty a v e _ (by simp only [size, sizeList]; omega)

end ArithBridge2

/-! ### `[[ ]]` -/

section TestBridge
open Test

theorem simp_twordNode (f : Nat) (w : TWord) : simp f w.toNode = (w.toNode, false) := by
  cases w with
  | bare p => exact simp_peWord f false _
  | quoted p => exact simp_dqWord f _
  | bareW p => exact simp_wpeWord f _
  | quotedW p => exact simp_dqwWord f _
  | other w => exact simp_litWord f _

theorem tdepth_pos (x : Test) : 0 < x.depth := by cases x <;> simp [Test.depth]

theorem tdepth_strip : ∀ x : Test, (strip x).depth ≤ x.depth := by
  intro x
  induction x with
  | paren x ih => simp only [strip, Test.depth]; omega
  | _ => exact Nat.le_refl _

theorem wf_strip : ∀ x : Test, x.WF → (strip x).WF := by
  intro x
  induction x with
  | paren x ih => intro h; exact ih h
  | _ => intro h; exact h

theorem tdepth_unquote (x : Test) : (unquote x).depth = x.depth := by
  cases x <;> rfl

theorem wf_unquote (x : Test) (h : x.WF) : (unquote x).WF := by
  cases x <;> first | exact h | trivial

theorem tdepth_removeNegate (x : Test) : (removeNegate x).depth ≤ x.depth := by
  cases x with
  | not y =>
    cases y with
    | un yop w => simp only [removeNegate]; repeat' split
                  all_goals simp [Test.depth]
    | not z => simp only [removeNegate, Test.depth]; omega
    | bin yop a b => simp only [removeNegate]; repeat' split
                     all_goals simp [Test.depth]
    | _ => exact Nat.le_refl _
  | _ => exact Nat.le_refl _

theorem wf_removeNegate (x : Test) (h : x.WF) : (removeNegate x).WF := by
  cases x with
  | not y =>
    cases y with
    | un yop w =>
      simp only [removeNegate]
      repeat' split
      all_goals first | exact h | simp [Test.WF, tsNot, tsNempStr, tsEmpStr]
    | not z => exact h
    | bin yop a b => simp only [removeNegate]; repeat' split
                     all_goals trivial
    | _ => exact h
  | _ => exact h

theorem removeParensTest_toNode : ∀ (x : Test) (k : Nat), x.depth ≤ k →
    (removeParensTest k x.toNode).1 = (strip x).toNode := by
  intro x
  induction x with
  | paren x ih =>
    intro k hk
    cases k with
    | zero => simp [Test.depth] at hk
    | succ k =>
      simp only [Test.depth] at hk
      simp only [Test.toNode, removeParensTest, strip]
      exact ih k (by omega)
  | word w => intro k hk; cases k <;> cases w <;> simp [removeParensTest, Test.toNode, TWord.toNode, litWord, strip]
  | not x _ => intro k hk; cases k <;> simp [removeParensTest, Test.toNode, strip]
  | un op w => intro k hk; cases k <;> simp [removeParensTest, Test.toNode, strip]
  | logic c x y _ _ => intro k hk; cases k <;> simp [removeParensTest, Test.toNode, strip]
  | bin op a b => intro k hk; cases k <;> simp [removeParensTest, Test.toNode, strip]

theorem unquoteParams_twordNode (w : TWord) : (unquoteParams w.toNode).1 = (unqW w).toNode := by
  cases w with
  | bare p => simp [unquoteParams, TWord.toNode, unqW, simplePE]
  | quoted p => simp [unquoteParams, TWord.toNode, unqW, simplePE, Node.ty, Node.attrs]
  | bareW p => simp [unquoteParams, TWord.toNode, unqW, wordPE]
  | quotedW p => simp [unquoteParams, TWord.toNode, unqW, wordPE, Node.ty, Node.attrs]
  | other w => simp [unquoteParams, TWord.toNode, unqW, litWord]

theorem unquoteParams_toNode (x : Test) : (unquoteParams x.toNode).1 = (unquote x).toNode := by
  cases x with
  | word w => exact unquoteParams_twordNode w
  | paren x => simp [unquoteParams, Test.toNode, unquote]
  | not x => simp [unquoteParams, Test.toNode, unquote]
  | un op w => simp [unquoteParams, Test.toNode, unquote]
  | logic c x y => simp [unquoteParams, Test.toNode, unquote]
  | bin op a b => simp [unquoteParams, Test.toNode, unquote]

theorem removeNegateTest_twordNode (w : TWord) : removeNegateTest w.toNode = (w.toNode, false) := by
  cases w <;> simp [removeNegateTest, TWord.toNode, litWord]

theorem removeNegateTest_toNode (x : Test) (h : x.WF) :
    (removeNegateTest x.toNode).1 = (removeNegate x).toNode := by
  cases x with
  | word w => simp [Test.toNode, removeNegateTest_twordNode, removeNegate]
  | paren x => simp [removeNegateTest, Test.toNode, removeNegate]
  | un op w =>
    have hop : op ≠ tsNot := h
    cases w <;> simp [removeNegateTest, Test.toNode, removeNegate, hop, TWord.toNode, litWord]
  | logic c x y => simp [removeNegateTest, Test.toNode, removeNegate]
  | bin op a b => simp [removeNegateTest, Test.toNode, removeNegate]
  | not y =>
    cases y with
    | word w => cases w <;> simp [removeNegateTest, Test.toNode, removeNegate, TWord.toNode, litWord]
    | paren z => simp [removeNegateTest, Test.toNode, removeNegate]
    | not z => simp [removeNegateTest, Test.toNode, removeNegate, tsNot, tsEmpStr, tsNempStr]
    | un yop w =>
      have hop : yop ≠ tsNot := h
      simp only [removeNegateTest, Test.toNode, removeNegate, if_true]
      by_cases h1 : yop = tsEmpStr
      · simp [h1, Test.toNode]
      · by_cases h2 : yop = tsNempStr
        · simp [h2, Test.toNode, tsNempStr, tsEmpStr]
        · simp [h1, h2, hop, Test.toNode]
    | logic cc z w =>
      cases cc <;> simp [removeNegateTest, Test.toNode, removeNegate, tsAnd, tsOr, tsMatch, tsNoMatch]
    | bin yop a b =>
      simp only [removeNegateTest, Test.toNode, removeNegate, if_true]
      by_cases h1 : yop = tsMatch
      · simp [h1, Test.toNode]
      · by_cases h2 : yop = tsNoMatch
        · simp [h2, Test.toNode, tsMatch, tsNoMatch]
        · simp [h1, h2, Test.toNode]

theorem testTop_toNode (x : Test) (h : x.WF) (k : Nat) (hk : x.depth ≤ k) :
    (testTop k x.toNode).1 = (removeNegate (strip x)).toNode := by
  simp only [testTop, removeParensTest_toNode x k hk, removeNegateTest_toNode _ (wf_strip x h)]

/-- `simp` on an embedded test expression is `Test.walk`. -/
theorem simp_test_toNode : ∀ (f : Nat) (x : Test), x.WF → x.depth ≤ f →
    (simp f x.toNode).1 = (walk f x).toNode := by
  intro f
  induction f with
  | zero => intro x _ h; have := tdepth_pos x; omega
  | succ f ih =>
    intro x hw hd
    cases x with
    | word w => simp [Test.toNode, walk, simp_twordNode]
    | paren x =>
      simp only [Test.depth] at hd
      have h1 := testTop_toNode x hw (f+1) (by omega)
      have hy := ih (removeNegate (strip x)) (wf_removeNegate _ (wf_strip x hw))
        (by have := tdepth_removeNegate (strip x); have := tdepth_strip x; omega)
      simp only [Test.toNode, simp, visit, Node.kids, Node.ty, Node.attrs, Node.val, List.map_cons,
        List.map_nil, h1, hy, walk]
    | not x =>
      simp only [Test.depth] at hd
      have hy := ih (unquote x) (wf_unquote x hw) (by rw [tdepth_unquote]; omega)
      simp only [Test.toNode, simp, visit, Node.kids, Node.ty, Node.attrs, Node.val, List.map_cons,
        List.map_nil, unquoteParams_toNode, hy, walk]
    | un op w =>
      simp only [Test.toNode, simp, visit, Node.kids, Node.ty, Node.attrs, Node.val, List.map_cons,
        List.map_nil, unquoteParams_twordNode, simp_twordNode, walk]
    | logic c x y =>
      simp only [Test.depth] at hd
      obtain ⟨hwx, hwy⟩ := hw
      have hx := ih (removeNegate (unquote x)) (wf_removeNegate _ (wf_unquote x hwx))
        (by have := tdepth_removeNegate (unquote x); rw [tdepth_unquote] at this; omega)
      have hy := ih (removeNegate (unquote y)) (wf_removeNegate _ (wf_unquote y hwy))
        (by have := tdepth_removeNegate (unquote y); rw [tdepth_unquote] at this; omega)
      have e1 := removeNegateTest_toNode (unquote x) (wf_unquote x hwx)
      have e2 := removeNegateTest_toNode (unquote y) (wf_unquote y hwy)
      cases c <;>
      simp [Test.toNode, simp, visit, Node.kids, Node.ty, Node.attrs, Node.val,
        unquoteParams_toNode, e1, e2, hx, hy, walk, tsAnd, tsOr, tsMatchShort, tsMatch, tsNoMatch, tsReMatch]
    | bin op a b =>
      by_cases hs : op = tsMatchShort
      · subst hs
        simp [Test.toNode, simp, visit, Node.kids, Node.ty, Node.attrs, Node.val,
          unquoteParams_twordNode, removeNegateTest_twordNode, simp_twordNode, walk, noUnquoteRhs,
          tsMatchShort, tsMatch, tsNoMatch, tsReMatch]
      · by_cases hn : (op = tsMatch ∨ op = tsNoMatch) ∨ op = tsReMatch
        · simp [Test.toNode, simp, visit, Node.kids, Node.ty, Node.attrs, Node.val,
            unquoteParams_twordNode, removeNegateTest_twordNode, simp_twordNode, walk, noUnquoteRhs, hs, hn]
        · simp [Test.toNode, simp, visit, Node.kids, Node.ty, Node.attrs, Node.val,
            unquoteParams_twordNode, removeNegateTest_twordNode, simp_twordNode, walk, noUnquoteRhs, hs, hn]

theorem walk_fuel : ∀ (f g : Nat) (x : Test), x.depth ≤ f → x.depth ≤ g → walk f x = walk g x := by
  intro f
  induction f with
  | zero => intro g x h; have := tdepth_pos x; omega
  | succ f ih =>
    intro g x hf hg
    cases g with
    | zero => have := tdepth_pos x; omega
    | succ g =>
      cases x with
      | word w => rfl
      | un op w => rfl
      | bin op a b => rfl
      | paren x =>
        simp only [Test.depth] at hf hg
        have := tdepth_removeNegate (strip x); have := tdepth_strip x
        simp only [walk, ih g (removeNegate (strip x)) (by omega) (by omega)]
      | not x =>
        simp only [Test.depth] at hf hg
        simp only [walk, ih g (unquote x) (by rw [tdepth_unquote]; omega) (by rw [tdepth_unquote]; omega)]
      | logic c x y =>
        simp only [Test.depth] at hf hg
        have h1 := tdepth_removeNegate (unquote x); rw [tdepth_unquote] at h1
        have h2 := tdepth_removeNegate (unquote y); rw [tdepth_unquote] at h2
        simp only [walk, ih g (removeNegate (unquote x)) (by omega) (by omega),
          ih g (removeNegate (unquote y)) (by omega) (by omega)]

theorem simp_testClause_aux (a : List Nat) (v : Bytes) (x : Test) (h : x.WF) (f : Nat) (hf : x.depth ≤ f) :
    (simp (f+1) (.mk .testClause a v [x.toNode])).1 =
      .mk .testClause a v [(walk f (removeNegate (strip x))).toNode] := by
  have h1 := testTop_toNode x h (f+1) (by omega)
  have hy := simp_test_toNode f (removeNegate (strip x)) (wf_removeNegate _ (wf_strip x h))
    (by have := tdepth_removeNegate (strip x); have := tdepth_strip x; omega)
  simp only [simp, visit, Node.kids, Node.ty, Node.attrs, Node.val, List.map_cons,
    List.map_nil, h1, hy]

theorem tdepth_le_size : ∀ x : Test, x.depth ≤ size x.toNode := by
  intro x
  induction x with
  | word w => cases w <;> simp [Test.depth, Test.toNode, TWord.toNode, litWord, size, sizeList]
  | paren x ih => simp only [Test.depth, Test.toNode, size, sizeList]; omega
  | not x ih => simp only [Test.depth, Test.toNode, size, sizeList]; omega
  | un op w => simp only [Test.depth, Test.toNode, size, sizeList]; omega
  | logic c x y ihx ihy => simp only [Test.depth, Test.toNode, size, sizeList]; omega
  | bin op a b => simp only [Test.depth, Test.toNode, size, sizeList]; omega

/-- What `Simplify` does to `[[ x ]]`: the typed `Test.top`. -/
theorem simplify_testClause (a : List Nat) (v : Bytes) (x : Test) (h : x.WF) :
    (simplify (.mk .testClause a v [x.toNode])).1 = .mk .testClause a v [(Test.top x).toNode] := by
  have hs := tdepth_le_size x
  have e : 2 * size (.mk .testClause a v [x.toNode]) + 1 = (2 * size (.mk .testClause a v [x.toNode])) + 1 := rfl
  unfold simplify
  rw [simp_testClause_aux a v x h _ (by simp only [size, sizeList]; omega)]
  have := tdepth_removeNegate (strip x); have := tdepth_strip x
  rw [Test.top, walk_fuel _ (x.depth + 1) (removeNegate (strip x)) (by simp only [size, sizeList]; omega) (by omega)]

end TestBridge


/-! ### double-quoted literal -/

def dqWord (a : List Nat) (v : Bytes) (d : Nat) (lit : Bytes) : Node :=
  .mk .word a v [.mk .dbl [d] [] [.mk .lit [] lit []]]

theorem simplifyWord_dq (d : Nat) (lit : Bytes) :
    (simplifyWord [.mk .dbl [d] [] [.mk .lit [] lit []]]).1 =
      [match rewriteDq (d != 0) lit with
       | some nv => .mk .sgl [d] nv []
       | none => .mk .dbl [d] [] [.mk .lit [] lit []]] := by
  simp only [simplifyWord, rewriteDq, List.getD_cons_zero]
  by_cases hd : d = 0
  · subst hd
    simp only [bne_self_eq_false, Bool.false_eq_true, if_false]
    cases h : dqToSq lit with
    | none => simp
    | some nv =>
      by_cases e : nv = lit
      · simp [e]
      · simp [e]
  · simp [hd]

/-- What `Simplify` does to a word that is one `"lit"` (`d = 0`) or `$"lit"` (`d = 1`, left alone). -/
theorem simplify_dqWord (a : List Nat) (v : Bytes) (d : Nat) (lit : Bytes) :
    (simplify (dqWord a v d lit)).1 =
      .mk .word a v [match rewriteDq (d != 0) lit with
       | some nv => .mk .sgl [d] nv []
       | none => .mk .dbl [d] [] [.mk .lit [] lit []]] := by
  have hs : 2 * size (dqWord a v d lit) + 1 = 6 + 1 := by
    simp [dqWord, size, sizeList]
  unfold simplify
  rw [hs]
  have h := simplifyWord_dq d lit
  cases hr : rewriteDq (d != 0) lit with
  | some nv =>
    rw [hr] at h
    simp [simp, dqWord, visit, h, Node.kids, Node.ty, Node.attrs, Node.val]
  | none =>
    rw [hr] at h
    simp [simp, dqWord, visit, h, Node.kids, Node.ty, Node.attrs, Node.val]

end ShVerif.C04
