import ShVerif.Model.C19
/-
  C19 — helper lemmas: ordering and sorting, the component loop of `glob` against the relation `Sel`,
  tokenisation of escaped fields.
-/
namespace ShVerif.C19
open ShVerif ShVerif.L3

/-! ## ordering and sorting -/

def Sorted (l : List Str) : Prop := l.Pairwise (fun a b => strLe a b = true)

theorem strLe_nil (b : Str) : strLe [] b = true := by cases b <;> rfl

theorem strLe_refl (a : Str) : strLe a a = true := by
  induction a with
  | nil => rfl
  | cons x xs ih => simp [strLe, ih]

theorem strLe_total (a b : Str) : strLe a b = true ∨ strLe b a = true := by
  induction a generalizing b with
  | nil => left; exact strLe_nil b
  | cons x xs ih =>
    cases b with
    | nil => right; rfl
    | cons y ys =>
      simp only [strLe]
      by_cases h1 : x < y
      · left; simp [h1]
      · by_cases h2 : y < x
        · right; simp [h2]
        · have : x = y := by omega
          subst this
          simp only [Nat.lt_irrefl, if_false]
          exact ih ys

theorem strLe_trans {a b c : Str} (h1 : strLe a b = true) (h2 : strLe b c = true) : strLe a c = true := by
  induction a generalizing b c with
  | nil => exact strLe_nil c
  | cons x xs ih =>
    cases b with
    | nil => simp [strLe] at h1
    | cons y ys =>
      cases c with
      | nil => simp [strLe] at h2
      | cons z zs =>
        simp only [strLe] at h1 h2 ⊢
        by_cases hxy : x < y
        · by_cases hyz : y < z
          · have : x < z := by omega
            simp [this]
          · by_cases hzy : z < y
            · simp [hyz, hzy] at h2
            · have : y = z := by omega
              subst this; simp [hxy]
        · by_cases hyx : y < x
          · simp [hxy, hyx] at h1
          · have : x = y := by omega
            subst this
            simp only [Nat.lt_irrefl, if_false] at h1
            by_cases hxz : x < z
            · simp [hxz]
            · by_cases hzx : z < x
              · simp [hxz, hzx] at h2
              · simp only [hxz, hzx, if_false] at h2 ⊢
                exact ih h1 h2

theorem mem_insertStr {x y : Str} {l : List Str} : y ∈ insertStr x l ↔ y = x ∨ y ∈ l := by
  induction l with
  | nil => simp [insertStr]
  | cons z zs ih =>
    simp only [insertStr]
    split
    · simp
    · simp only [List.mem_cons, ih]
      constructor
      · rintro (h | h | h)
        · right; left; exact h
        · left; exact h
        · right; right; exact h
      · rintro (h | h | h)
        · right; left; exact h
        · left; exact h
        · right; right; exact h

theorem insertStr_sorted {x : Str} {l : List Str} (h : Sorted l) : Sorted (insertStr x l) := by
  induction l with
  | nil => simp [insertStr, Sorted]
  | cons z zs ih =>
    simp only [insertStr]
    have hz := List.pairwise_cons.mp h
    split
    · rename_i hle
      apply List.pairwise_cons.mpr
      refine ⟨?_, h⟩
      intro y hy
      rcases List.mem_cons.mp hy with rfl | hy
      · exact hle
      · exact strLe_trans hle (hz.1 y hy)
    · rename_i hle
      have hzx : strLe z x = true := by
        rcases strLe_total x z with h' | h'
        · exact absurd h' hle
        · exact h'
      apply List.pairwise_cons.mpr
      refine ⟨?_, ih hz.2⟩
      intro y hy
      rcases mem_insertStr.mp hy with rfl | hy
      · exact hzx
      · exact hz.1 y hy

theorem sortStrs_sorted (l : List Str) : Sorted (sortStrs l) := by
  induction l with
  | nil => simp [sortStrs, Sorted]
  | cons x xs ih => exact insertStr_sorted ih

theorem mem_sortStrs {y : Str} {l : List Str} : y ∈ sortStrs l ↔ y ∈ l := by
  induction l with
  | nil => simp [sortStrs]
  | cons x xs ih => simp [sortStrs, mem_insertStr, ih]

theorem insertStr_perm (x : Str) (l : List Str) : (insertStr x l).Perm (x :: l) := by
  induction l with
  | nil => simp [insertStr]
  | cons z zs ih =>
    simp only [insertStr]
    split
    · exact List.Perm.refl _
    · exact (List.Perm.cons z ih).trans (List.Perm.swap x z zs)

theorem sortStrs_perm (l : List Str) : (sortStrs l).Perm l := by
  induction l with
  | nil => exact List.Perm.refl _
  | cons x xs ih => exact (insertStr_perm x _).trans (List.Perm.cons x ih)

theorem dropEmptyHead_sorted {l : List Str} (h : Sorted l) : Sorted (dropEmptyHead l) := by
  unfold dropEmptyHead
  split
  · exact (List.pairwise_cons.mp h).2
  · exact h

theorem mem_dropEmptyHead {l : List Str} {r : Str} (hr : r ≠ []) : r ∈ dropEmptyHead l ↔ r ∈ l := by
  unfold dropEmptyHead
  split
  · simp only [List.mem_cons]
    constructor
    · intro h; right; exact h
    · rintro (h | h)
      · exact absurd h hr
      · exact h
  · rfl

theorem dropEmptyHead_sublist (l : List Str) : (dropEmptyHead l).Sublist l := by
  unfold dropEmptyHead
  split
  · exact List.sublist_cons_self _ _
  · exact List.Sublist.refl _

end ShVerif.C19

namespace ShVerif.C19
open ShVerif ShVerif.L3

/-! ## the component loop against `Sel` -/

theorem mapExcept_ok {α β ε} (f : α → Except ε (List β)) :
    ∀ (l : List α) (out : List β), mapExcept f l = .ok out →
      ∀ x, x ∈ out ↔ ∃ a ∈ l, ∃ la, f a = .ok la ∧ x ∈ la := by
  intro l
  induction l with
  | nil =>
    intro out h x
    simp only [mapExcept] at h
    cases h
    simp
  | cons a rest ih =>
    intro out h x
    simp only [mapExcept] at h
    cases hfa : f a with
    | error e => simp [hfa] at h
    | ok la =>
      simp only [hfa] at h
      cases hr : mapExcept f rest with
      | error e => simp [hr] at h
      | ok lr =>
        simp only [hr] at h
        cases h
        simp only [List.mem_append, List.mem_cons]
        constructor
        · rintro (hx | hx)
          · exact ⟨a, Or.inl rfl, la, hfa, hx⟩
          · obtain ⟨b, hb, lb, hfb, hxb⟩ := (ih lr hr x).mp hx
            exact ⟨b, Or.inr hb, lb, hfb, hxb⟩
        · rintro ⟨b, hb | hb, lb, hfb, hxb⟩
          · subst hb
            rw [hfa] at hfb
            cases hfb
            exact Or.inl hxb
          · exact Or.inr ((ih lr hr x).mpr ⟨b, hb, lb, hfb, hxb⟩)

theorem globDir_mem {rd : Reader} {base d : Str} {f : Str → Bool} {wantDir : Bool} {l : List Str}
    (h : globDir rd base d f wantDir = .ok l) (x : Str) :
    x ∈ l ↔ ∃ ents e, rd (fullOf base d) = .ok ents ∧ e ∈ ents ∧
      keepEntry rd (fullOf base d) wantDir e = true ∧ f e.1 = true ∧ x = pathJoin2 d e.1 := by
  unfold globDir at h
  simp only at h
  cases hrd : rd (fullOf base d) with
  | error e => simp [hrd] at h
  | ok ents =>
    simp only [hrd] at h
    cases h
    simp only [List.mem_map, List.mem_filter, Bool.and_eq_true]
    constructor
    · rintro ⟨e, ⟨he, hk, hf⟩, rfl⟩
      exact ⟨ents, e, rfl, he, hk, hf, rfl⟩
    · rintro ⟨ents', e, hents, he, hk, hf, rfl⟩
      cases hents
      exact ⟨e, ⟨he, hk, hf⟩, rfl⟩

theorem globPart_mem {rd : Reader} {mk : Matcher} {cfg : Cfg} {base : Str} {wantDir : Bool}
    {ms out : List Str} {p : Str} (hns : isGlobStar cfg p = false)
    (h : globPart rd mk cfg base wantDir ms p = .ok out) (x : Str) :
    x ∈ out ↔ ∃ d ∈ ms, Step rd mk cfg base wantDir p d x := by
  unfold globPart at h
  by_cases hsp : isSpecialPart p = true
  · simp only [hsp, if_true] at h
    cases h
    simp only [List.mem_map]
    unfold Step
    constructor
    · rintro ⟨d, hd, rfl⟩
      exact ⟨d, hd, Or.inl ⟨hsp, rfl⟩⟩
    · rintro ⟨d, hd, h⟩
      rcases h with ⟨_, rfl⟩ | ⟨h, _⟩ | ⟨h, _⟩
      · exact ⟨d, hd, rfl⟩
      · rw [hsp] at h; cases h
      · rw [hsp] at h; cases h
  · have hsp' : isSpecialPart p = false := by simpa using hsp
    simp only [hsp', Bool.false_eq_true, if_false] at h
    by_cases hm : hasMeta p = true
    · simp only [hm, Bool.not_true, Bool.false_eq_true, if_false] at h
      have hgs : ¬ (p = [cStar, cStar] ∧ cfg.globstar = true) := by
        intro ⟨h1, h2⟩
        simp [isGlobStar, h1, h2] at hns
      simp only [hgs, if_false] at h
      cases hmk : mk cfg.mode p with
      | panic => simp [hmk] at h
      | unsupported => simp [hmk] at h
      | err e => simp [hmk] at h
      | ok f =>
        simp only [hmk] at h
        cases hme : mapExcept (fun d => globDir rd base d f wantDir) ms with
        | error e => simp [hme] at h
        | ok l =>
          simp only [hme] at h
          cases h
          rw [mapExcept_ok _ ms out hme x]
          unfold Step
          constructor
          · rintro ⟨d, hd, la, hla, hx⟩
            obtain ⟨ents, e, h1, h2, h3, h4, h5⟩ := (globDir_mem hla x).mp hx
            exact ⟨d, hd, Or.inr (Or.inr ⟨hsp', hm, f, ents, e, hmk, h1, h2, h3, h4, h5⟩)⟩
          · rintro ⟨d, hd, h⟩
            rcases h with ⟨h, _⟩ | ⟨_, h, _⟩ | ⟨_, _, f', ents, e, hf', h1, h2, h3, h4, h5⟩
            · rw [hsp'] at h; cases h
            · rw [hm] at h; cases h
            · rw [hmk] at hf'
              cases hf'
              -- globDir succeeded on every d ∈ ms
              have : ∃ la, globDir rd base d f wantDir = .ok la := by
                unfold globDir
                simp [h1]
              obtain ⟨la, hla⟩ := this
              exact ⟨d, hd, la, hla, (globDir_mem hla x).mpr ⟨ents, e, h1, h2, h3, h4, h5⟩⟩
    · have hm' : hasMeta p = false := by simpa using hm
      simp only [hm', Bool.not_false, if_true] at h
      cases h
      simp only [List.mem_map, List.mem_filter]
      unfold Step
      constructor
      · rintro ⟨d, ⟨hd, hk⟩, rfl⟩
        exact ⟨d, hd, Or.inr (Or.inl ⟨hsp', hm', hk, rfl⟩)⟩
      · rintro ⟨d, hd, h⟩
        rcases h with ⟨h, _⟩ | ⟨_, _, hk, rfl⟩ | ⟨_, h, _⟩
        · rw [hsp'] at h; cases h
        · exact ⟨d, ⟨hd, hk⟩, rfl⟩
        · rw [hm'] at h; cases h

theorem globLoop_sel {rd : Reader} {mk : Matcher} {cfg : Cfg} {base : Str} :
    ∀ (parts : List Str) (ms out : List Str), (∀ p ∈ parts, isGlobStar cfg p = false) →
      globLoop rd mk cfg base ms parts = .ok out →
      ∀ r, r ∈ out ↔ ∃ d ∈ ms, Sel rd mk cfg base parts d r := by
  intro parts
  induction parts with
  | nil =>
    intro ms out _ h r
    simp only [globLoop] at h
    cases h
    constructor
    · intro hr; exact ⟨r, hr, Sel.done r⟩
    · rintro ⟨d, hd, hs⟩
      cases hs
      exact hd
  | cons p rest ih =>
    intro ms out hns h r
    simp only [globLoop] at h
    cases hp : globPart rd mk cfg base (!rest.isEmpty) ms p with
    | error e => simp [hp] at h
    | ok m' =>
      simp only [hp] at h
      have hp1 := globPart_mem (hns p (List.mem_cons_self ..)) hp
      have ih' := ih m' out (fun q hq => hns q (List.mem_cons_of_mem _ hq)) h r
      rw [ih']
      constructor
      · rintro ⟨x, hx, hs⟩
        obtain ⟨d, hd, hst⟩ := (hp1 x).mp hx
        exact ⟨d, hd, Sel.step hst hs⟩
      · rintro ⟨d, hd, hs⟩
        cases hs with
        | step hst hs' =>
          exact ⟨_, (hp1 _).mpr ⟨d, hd, hst⟩, hs'⟩

end ShVerif.C19

namespace ShVerif.C19
open ShVerif ShVerif.L3

/-! ## escaped fields as tokens -/

theorem toks_cons_ne {c : Rune} (rest : Str) (hc : c ≠ cBS) : toks (c :: rest) = (c, false) :: toks rest := by
  rw [toks.eq_def]; simp [hc]

theorem toks_bs_cons (d : Rune) (rest : Str) : toks (cBS :: d :: rest) = (d, true) :: toks rest := by
  rw [toks.eq_def]; simp

theorem danglingBS_cons_ne {c : Rune} (rest : Str) (hc : c ≠ cBS) : danglingBS (c :: rest) = danglingBS rest := by
  rw [danglingBS.eq_def]; simp [hc]

theorem danglingBS_bs_cons (d : Rune) (rest : Str) : danglingBS (cBS :: d :: rest) = danglingBS rest := by
  rw [danglingBS.eq_def]; simp

theorem toks_append_aux : ∀ (n : Nat) (a b : Str), a.length ≤ n → danglingBS a = false →
    toks (a ++ b) = toks a ++ toks b := by
  intro n
  induction n with
  | zero =>
    intro a b hl _
    have : a = [] := List.length_eq_zero_iff.mp (Nat.le_zero.mp hl)
    subst this; rfl
  | succ n ih =>
    intro a b hl h
    match a, hl, h with
    | [], _, _ => rfl
    | c :: rest, hl, h =>
      by_cases hc : c = cBS
      · subst hc
        match rest, hl, h with
        | [], _, h => simp [danglingBS] at h
        | d :: rest', hl, h =>
          rw [danglingBS_bs_cons] at h
          have hl' : rest'.length ≤ n := by simp at hl; omega
          simp only [List.cons_append]
          rw [toks_bs_cons, toks_bs_cons, ih rest' b hl' h]
          rfl
      · rw [danglingBS_cons_ne _ hc] at h
        have hl' : rest.length ≤ n := by simp at hl; omega
        simp only [List.cons_append]
        rw [toks_cons_ne _ hc, toks_cons_ne _ hc, ih rest b hl' h]
        rfl

theorem toks_append {a : Str} (b : Str) (h : danglingBS a = false) : toks (a ++ b) = toks a ++ toks b :=
  toks_append_aux a.length a b (Nat.le_refl _) h

theorem toks_quoteMeta (s b : Str) :
    toks (quoteMeta s ++ b) = s.map (fun c => (c, isQuoteMetaSpecial c)) ++ toks b := by
  induction s with
  | nil => rfl
  | cons c rest ih =>
    simp only [quoteMeta]
    by_cases hc : isQuoteMetaSpecial c = true
    · simp only [hc, if_true, List.cons_append, List.map_cons]
      rw [toks_bs_cons, ih]
    · have hc' : isQuoteMetaSpecial c = false := by simpa using hc
      have hbs : c ≠ cBS := by
        intro h; subst h; simp [isQuoteMetaSpecial] at hc'
      simp only [hc', Bool.false_eq_true, if_false, List.cons_append, List.map_cons]
      rw [toks_cons_ne _ hbs, ih]

theorem toks_escapeParts (f : Field) (h : ∀ p ∈ f, p.quoted = false → danglingBS p.val = false) :
    toks (escapeParts f) = f.flatMap (partToks isQuoteMetaSpecial) := by
  induction f with
  | nil => rfl
  | cons p rest ih =>
    have ih' := ih (fun q hq => h q (List.mem_cons_of_mem _ hq))
    simp only [escapeParts, List.flatMap_cons, partToks]
    by_cases hq : p.quoted = true
    · simp only [hq, if_true]
      rw [toks_quoteMeta, ih']
    · have hq' : p.quoted = false := by simpa using hq
      simp only [hq', Bool.false_eq_true, if_false]
      rw [toks_append _ (h p (List.mem_cons_self ..) hq'), ih']

end ShVerif.C19

namespace ShVerif.C19
open ShVerif ShVerif.L3

/-! ## no duplicates (patterns without an active `**`) -/

/-- What a directory reader must satisfy: distinct, non-empty, slash-free names. -/
def ReaderWF (rd : Reader) : Prop :=
  ∀ p ents, rd p = .ok ents → (ents.map (·.1)).Nodup ∧ ∀ e ∈ ents, e.1 ≠ [] ∧ cSlash ∉ e.1

theorem splitOn_slashfree (sep : Rune) (s : Str) : ∀ c ∈ splitOn sep s, sep ∉ c := by
  induction s with
  | nil => intro c hc; simp [splitOn] at hc; subst hc; simp
  | cons x rest ih =>
    intro c hc
    simp only [splitOn] at hc
    by_cases hx : x = sep
    · simp only [hx, if_true, List.mem_cons] at hc
      rcases hc with rfl | hc
      · simp
      · exact ih c hc
    · simp only [hx, if_false] at hc
      cases hsp : splitOn sep rest with
      | nil => simp only [hsp, List.mem_singleton] at hc; subst hc; simp; exact fun h => hx h.symm
      | cons h t =>
        simp only [hsp, List.mem_cons] at hc
        rcases hc with rfl | hc
        · have := ih h (by rw [hsp]; exact List.mem_cons_self ..)
          simp only [List.mem_cons, not_or]
          exact ⟨fun h' => hx h'.symm, this⟩
        · exact ih c (by rw [hsp]; exact List.mem_cons_of_mem _ hc)

theorem split_unique : ∀ (a a' n n' : Str), cSlash ∉ n → cSlash ∉ n' →
    a ++ cSlash :: n = a' ++ cSlash :: n' → a = a' ∧ n = n' := by
  intro a
  induction a with
  | nil =>
    intro a' n n' hn hn' h
    cases a' with
    | nil => simp at h; exact ⟨rfl, h⟩
    | cons y ys =>
      simp only [List.nil_append, List.cons_append, List.cons.injEq] at h
      exfalso; apply hn; rw [h.2]; simp
  | cons x xs ih =>
    intro a' n n' hn hn' h
    cases a' with
    | nil =>
      simp only [List.nil_append, List.cons_append, List.cons.injEq] at h
      exfalso; apply hn'; rw [← h.2]; simp
    | cons y ys =>
      simp only [List.cons_append, List.cons.injEq] at h
      obtain ⟨h1, h2⟩ := ih ys n n' hn hn' h.2
      exact ⟨by rw [h.1, h1], h2⟩

theorem endsSlash_true_iff {d : Str} : endsSlash d = true ↔ ∃ d0, d = d0 ++ [cSlash] := by
  unfold endsSlash
  constructor
  · intro h
    have : d.getLast? = some cSlash := by simpa using h
    exact List.getLast?_eq_some_iff.mp this
  · rintro ⟨d0, rfl⟩
    simp

theorem endsSlash_append {a b : Str} (hb : b ≠ []) : endsSlash (a ++ b) = endsSlash b := by
  unfold endsSlash
  rw [List.getLast?_append]
  cases hbl : b.getLast? with
  | none => exact absurd (List.getLast?_eq_none_iff.mp hbl) hb
  | some x => simp

theorem endsSlash_slashfree {b : Str} (hb : cSlash ∉ b) : endsSlash b = false := by
  unfold endsSlash
  cases hbl : b.getLast? with
  | none => rfl
  | some x =>
    have hx : x ∈ b := List.mem_of_getLast? hbl
    have : x ≠ cSlash := fun h => hb (h ▸ hx)
    simp [this]

theorem pathJoin2_S {a : Str} (b : Str) (h : endsSlash a = true) : pathJoin2 a b = a ++ b := by
  have hne : a ≠ [] := by
    obtain ⟨d0, rfl⟩ := endsSlash_true_iff.mp h
    simp
  simp [pathJoin2, hne, h]

theorem pathJoin2_N {a : Str} (b : Str) (h1 : a ≠ []) (h2 : endsSlash a = false) :
    pathJoin2 a b = a ++ cSlash :: b := by
  simp [pathJoin2, h1, h2]

/-- The three shapes a level of matches can have. -/
inductive Shape | E | S | N
  deriving DecidableEq

def HasShape : Shape → Str → Prop
  | .E, d => d = []
  | .S, d => endsSlash d = true
  | .N, d => d ≠ [] ∧ endsSlash d = false

/-- Joining a non-empty slash-free name is injective in both arguments on one shape. -/
theorem pathJoin2_inj {sh : Shape} {d d' n n' : Str} (hd : HasShape sh d) (hd' : HasShape sh d')
    (hn : cSlash ∉ n) (hn' : cSlash ∉ n') (h : pathJoin2 d n = pathJoin2 d' n') : d = d' ∧ n = n' := by
  cases sh with
  | E =>
    simp only [HasShape] at hd hd'
    subst hd; subst hd'
    simp [pathJoin2] at h
    exact ⟨rfl, h⟩
  | S =>
    simp only [HasShape] at hd hd'
    rw [pathJoin2_S _ hd, pathJoin2_S _ hd'] at h
    obtain ⟨d0, rfl⟩ := endsSlash_true_iff.mp hd
    obtain ⟨d0', rfl⟩ := endsSlash_true_iff.mp hd'
    simp only [List.append_assoc, List.singleton_append] at h
    obtain ⟨h1, h2⟩ := split_unique d0 d0' n n' hn hn' h
    exact ⟨by rw [h1], h2⟩
  | N =>
    simp only [HasShape] at hd hd'
    rw [pathJoin2_N _ hd.1 hd.2, pathJoin2_N _ hd'.1 hd'.2] at h
    exact split_unique d d' n n' hn hn' h

/-- The shape after joining a non-empty slash-free name is N. -/
theorem pathJoin2_shapeN {sh : Shape} {d n : Str} (hd : HasShape sh d) (hne : n ≠ []) (hn : cSlash ∉ n) :
    HasShape .N (pathJoin2 d n) := by
  have hnn : endsSlash n = false := endsSlash_slashfree hn
  cases sh with
  | E =>
    simp only [HasShape] at hd; subst hd
    simp [pathJoin2, HasShape, hne, hnn]
  | S =>
    simp only [HasShape] at hd
    rw [pathJoin2_S _ hd]
    refine ⟨by simp [hne], ?_⟩
    rw [endsSlash_append hne]; exact hnn
  | N =>
    simp only [HasShape] at hd
    rw [pathJoin2_N _ hd.1 hd.2]
    refine ⟨by simp, ?_⟩
    rw [endsSlash_append (by simp)]
    have : cSlash :: n = [cSlash] ++ n := rfl
    rw [this, endsSlash_append hne]; exact hnn

/-- The shape after joining the empty component. -/
def shapeAfterEmpty : Shape → Shape
  | .E => .E
  | .S => .S
  | .N => .S

theorem pathJoin2_empty_shape {sh : Shape} {d : Str} (hd : HasShape sh d) :
    HasShape (shapeAfterEmpty sh) (pathJoin2 d []) := by
  cases sh with
  | E => simp only [HasShape] at hd; subst hd; simp [pathJoin2, HasShape, shapeAfterEmpty]
  | S =>
    simp only [HasShape] at hd
    rw [pathJoin2_S _ hd]; simpa [HasShape, shapeAfterEmpty] using hd
  | N =>
    simp only [HasShape] at hd
    rw [pathJoin2_N _ hd.1 hd.2]
    simp [HasShape, shapeAfterEmpty, endsSlash]

theorem pathJoin2_empty_inj {sh : Shape} {d d' : Str} (hd : HasShape sh d) (hd' : HasShape sh d')
    (h : pathJoin2 d [] = pathJoin2 d' []) : d = d' := by
  cases sh with
  | E => simp only [HasShape] at hd hd'; rw [hd, hd']
  | S =>
    simp only [HasShape] at hd hd'
    rw [pathJoin2_S _ hd, pathJoin2_S _ hd'] at h
    simpa using h
  | N =>
    simp only [HasShape] at hd hd'
    rw [pathJoin2_N _ hd.1 hd.2, pathJoin2_N _ hd'.1 hd'.2] at h
    exact List.append_cancel_right h

theorem nodup_map_on {α β} {f : α → β} : ∀ {l : List α}, (∀ x ∈ l, ∀ y ∈ l, f x = f y → x = y) → l.Nodup →
    (l.map f).Nodup := by
  intro l
  induction l with
  | nil => intro _ _; exact List.nodup_nil
  | cons a rest ih =>
    intro hinj h
    have hc := List.nodup_cons.mp h
    simp only [List.map_cons]
    apply List.nodup_cons.mpr
    refine ⟨?_, ih (fun x hx y hy => hinj x (List.mem_cons_of_mem _ hx) y (List.mem_cons_of_mem _ hy)) hc.2⟩
    intro hmem
    obtain ⟨b, hb, hfb⟩ := List.mem_map.mp hmem
    have := hinj b (List.mem_cons_of_mem _ hb) a (List.mem_cons_self ..) hfb
    exact hc.1 (this ▸ hb)

theorem nodup_of_nodup_map {α β} {f : α → β} : ∀ {l : List α}, (l.map f).Nodup → l.Nodup := by
  intro l
  induction l with
  | nil => intro _; exact List.nodup_nil
  | cons a rest ih =>
    intro h
    simp only [List.map_cons] at h
    have hc := List.nodup_cons.mp h
    apply List.nodup_cons.mpr
    exact ⟨fun hm => hc.1 (List.mem_map.mpr ⟨a, hm, rfl⟩), ih hc.2⟩

theorem inj_of_nodup_map {α β} {f : α → β} : ∀ {l : List α}, (l.map f).Nodup →
    ∀ x ∈ l, ∀ y ∈ l, f x = f y → x = y := by
  intro l
  induction l with
  | nil => intro _ x hx; cases hx
  | cons a rest ih =>
    intro h x hx y hy hxy
    simp only [List.map_cons] at h
    have hc := List.nodup_cons.mp h
    rcases List.mem_cons.mp hx with rfl | hx' <;> rcases List.mem_cons.mp hy with rfl | hy'
    · rfl
    · exact absurd (List.mem_map.mpr ⟨y, hy', hxy.symm⟩) hc.1
    · exact absurd (List.mem_map.mpr ⟨x, hx', hxy⟩) hc.1
    · exact ih hc.2 x hx' y hy' hxy

/-- A level of matches: no duplicates, one shape. -/
def Level (sh : Shape) (l : List Str) : Prop := l.Nodup ∧ ∀ d ∈ l, HasShape sh d

theorem level_map_name {sh : Shape} {ms : List Str} {n : Str} (h : Level sh ms) (hne : n ≠ []) (hn : cSlash ∉ n) :
    Level .N (ms.map fun d => pathJoin2 d n) := by
  refine ⟨?_, ?_⟩
  · apply nodup_map_on _ h.1
    intro x hx y hy hxy
    exact (pathJoin2_inj (h.2 x hx) (h.2 y hy) hn hn hxy).1
  · intro x hx
    obtain ⟨d, hd, rfl⟩ := List.mem_map.mp hx
    exact pathJoin2_shapeN (h.2 d hd) hne hn

theorem level_filter {sh : Shape} {ms : List Str} (f : Str → Bool) (h : Level sh ms) : Level sh (ms.filter f) :=
  ⟨h.1.filter _, fun d hd => h.2 d (List.mem_filter.mp hd).1⟩

theorem globDir_level {rd : Reader} (hwf : ReaderWF rd) {base d : Str} {f : Str → Bool} {wantDir : Bool}
    {sh : Shape} (hd : HasShape sh d) {l : List Str} (h : globDir rd base d f wantDir = .ok l) :
    Level .N l := by
  unfold globDir at h
  simp only at h
  cases hrd : rd (fullOf base d) with
  | error e => simp [hrd] at h
  | ok ents =>
    simp only [hrd] at h
    cases h
    obtain ⟨hnd, hnames⟩ := hwf _ _ hrd
    refine ⟨?_, ?_⟩
    · apply nodup_map_on
      · intro x hx y hy hxy
        have hx' := (List.mem_filter.mp hx).1
        have hy' := (List.mem_filter.mp hy).1
        have hn := (pathJoin2_inj hd hd (hnames x hx').2 (hnames y hy').2 hxy).2
        -- names are distinct
        exact inj_of_nodup_map hnd x hx' y hy' hn
      · exact (nodup_of_nodup_map hnd).filter _
    · intro x hx
      obtain ⟨e, he, rfl⟩ := List.mem_map.mp hx
      have he' := (List.mem_filter.mp he).1
      exact pathJoin2_shapeN hd (hnames e he').1 (hnames e he').2

theorem mapExcept_level {rd : Reader} (hwf : ReaderWF rd) {base : Str} {f : Str → Bool} {wantDir : Bool} {sh : Shape} :
    ∀ (ms out : List Str), Level sh ms → mapExcept (fun d => globDir rd base d f wantDir) ms = .ok out →
      Level .N out := by
  intro ms
  induction ms with
  | nil => intro out _ h; simp only [mapExcept] at h; cases h; exact ⟨List.nodup_nil, by simp⟩
  | cons d rest ih =>
    intro out hl h
    simp only [mapExcept] at h
    cases hfa : globDir rd base d f wantDir with
    | error e => simp [hfa] at h
    | ok la =>
      simp only [hfa] at h
      cases hr : mapExcept (fun d => globDir rd base d f wantDir) rest with
      | error e => simp [hr] at h
      | ok lr =>
        simp only [hr] at h
        cases h
        have hnd := List.nodup_cons.mp hl.1
        have hdsh := hl.2 d (List.mem_cons_self ..)
        have hla := globDir_level hwf hdsh hfa
        have hlr := ih lr ⟨hnd.2, fun x hx => hl.2 x (List.mem_cons_of_mem _ hx)⟩ hr
        refine ⟨?_, ?_⟩
        · apply List.nodup_append.mpr
          refine ⟨hla.1, hlr.1, ?_⟩
          intro x hxa y hyr hxy
          subst hxy
          obtain ⟨ents, e, h1, h2, _, _, hx⟩ := (globDir_mem hfa x).mp hxa
          obtain ⟨d', hd', la', hla', hxr'⟩ := (mapExcept_ok _ rest lr hr x).mp hyr
          obtain ⟨ents', e', h1', h2', _, _, hx'⟩ := (globDir_mem hla' x).mp hxr'
          have hn := (hwf _ _ h1).2 e h2
          have hn' := (hwf _ _ h1').2 e' h2'
          have := (pathJoin2_inj hdsh (hl.2 d' (List.mem_cons_of_mem _ hd')) hn.2 hn'.2 (hx ▸ hx')).1
          exact hnd.1 (this ▸ hd')
        · intro x hx
          rcases List.mem_append.mp hx with hx | hx
          · exact hla.2 x hx
          · exact hlr.2 x hx

end ShVerif.C19

namespace ShVerif.C19
open ShVerif ShVerif.L3

theorem globPart_level {rd : Reader} (hwf : ReaderWF rd) {mk : Matcher} {cfg : Cfg} {base : Str} {wantDir : Bool}
    {ms out : List Str} {p : Str} {sh : Shape} (hp : cSlash ∉ p) (hns : isGlobStar cfg p = false)
    (hl : Level sh ms) (h : globPart rd mk cfg base wantDir ms p = .ok out) : ∃ sh', Level sh' out := by
  unfold globPart at h
  by_cases hsp : isSpecialPart p = true
  · simp only [hsp, if_true] at h
    cases h
    by_cases hpe : p = []
    · subst hpe
      refine ⟨shapeAfterEmpty sh, ?_, ?_⟩
      · apply nodup_map_on _ hl.1
        intro x hx y hy hxy
        exact pathJoin2_empty_inj (hl.2 x hx) (hl.2 y hy) hxy
      · intro x hx
        obtain ⟨d, hd, rfl⟩ := List.mem_map.mp hx
        exact pathJoin2_empty_shape (hl.2 d hd)
    · exact ⟨.N, level_map_name hl hpe hp⟩
  · have hsp' : isSpecialPart p = false := by simpa using hsp
    have hpe : p ≠ [] := by
      intro h0; subst h0; simp [isSpecialPart] at hsp'
    simp only [hsp', Bool.false_eq_true, if_false] at h
    by_cases hm : hasMeta p = true
    · simp only [hm, Bool.not_true, Bool.false_eq_true, if_false] at h
      have hgs : ¬ (p = [cStar, cStar] ∧ cfg.globstar = true) := by
        intro ⟨h1, h2⟩
        simp [isGlobStar, h1, h2] at hns
      simp only [hgs, if_false] at h
      cases hmk : mk cfg.mode p with
      | panic => simp [hmk] at h
      | unsupported => simp [hmk] at h
      | err e => simp [hmk] at h
      | ok f =>
        simp only [hmk] at h
        cases hme : mapExcept (fun d => globDir rd base d f wantDir) ms with
        | error e => simp [hme] at h
        | ok l =>
          simp only [hme] at h
          cases h
          exact ⟨.N, mapExcept_level hwf ms out hl hme⟩
    · have hm' : hasMeta p = false := by simpa using hm
      simp only [hm', Bool.not_false, if_true] at h
      cases h
      exact ⟨.N, level_map_name (level_filter _ hl) hpe hp⟩

theorem globLoop_level {rd : Reader} (hwf : ReaderWF rd) {mk : Matcher} {cfg : Cfg} {base : Str} :
    ∀ (parts : List Str) (ms out : List Str) (sh : Shape), (∀ p ∈ parts, cSlash ∉ p) →
      (∀ p ∈ parts, isGlobStar cfg p = false) → Level sh ms →
      globLoop rd mk cfg base ms parts = .ok out → out.Nodup := by
  intro parts
  induction parts with
  | nil =>
    intro ms out sh _ _ hl h
    simp only [globLoop] at h
    cases h
    exact hl.1
  | cons p rest ih =>
    intro ms out sh hsf hns hl h
    simp only [globLoop] at h
    cases hp : globPart rd mk cfg base (!rest.isEmpty) ms p with
    | error e => simp [hp] at h
    | ok m' =>
      simp only [hp] at h
      obtain ⟨sh', hl'⟩ := globPart_level hwf (hsf p (List.mem_cons_self ..)) (hns p (List.mem_cons_self ..)) hl hp
      exact ih m' out sh' (fun q hq => hsf q (List.mem_cons_of_mem _ hq))
        (fun q hq => hns q (List.mem_cons_of_mem _ hq)) hl' h

end ShVerif.C19

namespace ShVerif.C19
open ShVerif ShVerif.L3

/-! ## the tree reader is well formed on well-formed trees -/

mutual
  /-- Distinct, non-empty, slash-free names in every directory. -/
  def NodeWF : Node → Bool
    | .file => true
    | .link _ => true
    | .dir es => entriesWF es
  def entriesWF : List (Str × Node) → Bool
    | [] => true
    | (n, k) :: rest =>
      !n.isEmpty && !n.contains cSlash && !(rest.map (·.1)).contains n && NodeWF k && entriesWF rest
end

theorem entriesWF_lookup : ∀ (es : List (Str × Node)) (x : Str) (k : Node),
    entriesWF es = true → lookupNode es x = some k → NodeWF k = true := by
  intro es
  induction es with
  | nil => intro x k _ h; simp [lookupNode] at h
  | cons e rest ih =>
    intro x k hwf h
    obtain ⟨n, kn⟩ := e
    simp only [entriesWF, Bool.and_eq_true] at hwf
    simp only [lookupNode] at h
    by_cases hn : n = x
    · simp only [hn, if_true, Option.some.injEq] at h
      subst h; exact hwf.1.2
    · simp only [hn, if_false] at h
      exact ih x k hwf.2 h

theorem find_wf : ∀ (path : List Str) (t n : Node), NodeWF t = true → t.find path = some n → NodeWF n = true := by
  intro path
  induction path with
  | nil => intro t n hwf h; simp only [Node.find, Option.some.injEq] at h; subst h; exact hwf
  | cons x rest ih =>
    intro t n hwf h
    simp only [Node.find] at h
    cases hc : t.child x with
    | none => simp [hc] at h
    | some c =>
      simp only [hc] at h
      have hcw : NodeWF c = true := by
        cases t with
        | file => simp [Node.child] at hc
        | link _ => simp [Node.child] at hc
        | dir es =>
          simp only [Node.child] at hc
          simp only [NodeWF] at hwf
          exact entriesWF_lookup es x c hwf hc
      exact ih c n hcw h

theorem entriesWF_names : ∀ (es : List (Str × Node)), entriesWF es = true →
    (es.map (·.1)).Nodup ∧ ∀ e ∈ es, e.1 ≠ [] ∧ cSlash ∉ e.1 := by
  intro es
  induction es with
  | nil => intro _; exact ⟨List.nodup_nil, by simp⟩
  | cons e rest ih =>
    intro hwf
    obtain ⟨n, kn⟩ := e
    simp only [entriesWF, Bool.and_eq_true, Bool.not_eq_true', List.contains_eq_mem, decide_eq_false_iff_not,
      List.isEmpty_eq_false_iff] at hwf
    obtain ⟨⟨⟨⟨h1, h2⟩, h3⟩, _⟩, h5⟩ := hwf
    obtain ⟨ihn, ihe⟩ := ih h5
    refine ⟨?_, ?_⟩
    · simp only [List.map_cons]
      exact List.nodup_cons.mpr ⟨h3, ihn⟩
    · intro e he
      rcases List.mem_cons.mp he with rfl | he
      · exact ⟨h1, h2⟩
      · exact ihe e he

theorem readDir_wf (root : Node) (hwf : NodeWF root = true) : ReaderWF (readDir root) := by
  intro p ents h
  unfold readDir at h
  split at h
  · cases h
  · split at h
    · cases h
    · rename_i rcur _
      split at h
      · rename_i es hfind
        cases h
        have hd : NodeWF (.dir es) = true := find_wf _ root _ hwf hfind
        simp only [NodeWF] at hd
        obtain ⟨hn, he⟩ := entriesWF_names es hd
        refine ⟨?_, ?_⟩
        · simpa [List.map_map, Function.comp_def] using hn
        · intro e hmem
          obtain ⟨e0, he0, rfl⟩ := List.mem_map.mp hmem
          exact he e0 he0
      · cases h
      · cases h

end ShVerif.C19
