import ShVerif.Model.C19
/-
  C19 — helper lemmas: ordering and sorting, the component loop of `glob` against the relation `Sel`,
  tokenisation of escaped fields.
-/
namespace ShVerif.C19
open ShVerif ShVerif.L3

/-! ## ordering and sorting -/

def Sorted (l : List Str) : Prop := l.Pairwise (fun a b => strLe a b = true)

theorem strLe_nil (b : Str) : strLe [] b = true := by cases b <;> rfl

theorem strLe_refl (a : Str) : strLe a a = true := by
  induction a with
  | nil => rfl
  | cons x xs ih => simp [strLe, ih]

theorem strLe_total (a b : Str) : strLe a b = true ∨ strLe b a = true := by
  induction a generalizing b with
  | nil => left; exact strLe_nil b
  | cons x xs ih =>
    cases b with
    | nil => right; rfl
    | cons y ys =>
      simp only [strLe]
      by_cases h1 : x < y
      · left; simp [h1]
      · by_cases h2 : y < x
        · right; simp [h2]
        · have : x = y := by omega
          subst this
          simp only [Nat.lt_irrefl, if_false]
          exact ih ys

theorem strLe_trans {a b c : Str} (h1 : strLe a b = true) (h2 : strLe b c = true) : strLe a c = true := by
  induction a generalizing b c with
  | nil => exact strLe_nil c
  | cons x xs ih =>
    cases b with
    | nil => simp [strLe] at h1
    | cons y ys =>
      cases c with
      | nil => simp [strLe] at h2
      | cons z zs =>
        simp only [strLe] at h1 h2 ⊢
        by_cases hxy : x < y
        · by_cases hyz : y < z
          · have : x < z := by omega
            simp [this]
          · by_cases hzy : z < y
            · simp [hyz, hzy] at h2
            · have : y = z := by omega
              subst this; simp [hxy]
        · by_cases hyx : y < x
          · simp [hxy, hyx] at h1
          · have : x = y := by omega
            subst this
            simp only [Nat.lt_irrefl, if_false] at h1
            by_cases hxz : x < z
            · simp [hxz]
            · by_cases hzx : z < x
              · simp [hxz, hzx] at h2
              · simp only [hxz, hzx, if_false] at h2 ⊢
                exact ih h1 h2

theorem mem_insertStr {x y : Str} {l : List Str} : y ∈ insertStr x l ↔ y = x ∨ y ∈ l := by
  induction l with
  | nil => simp [insertStr]
  | cons z zs ih =>
    simp only [insertStr]
    split
    · simp
    · simp only [List.mem_cons, ih]
      constructor
      · rintro (h | h | h)
        · right; left; exact h
        · left; exact h
        · right; right; exact h
      · rintro (h | h | h)
        · right; left; exact h
        · left; exact h
        · right; right; exact h

theorem insertStr_sorted {x : Str} {l : List Str} (h : Sorted l) : Sorted (insertStr x l) := by
  induction l with
  | nil => simp [insertStr, Sorted]
  | cons z zs ih =>
    simp only [insertStr]
    have hz := List.pairwise_cons.mp h
    split
    · rename_i hle
      apply List.pairwise_cons.mpr
      refine ⟨?_, h⟩
      intro y hy
      rcases List.mem_cons.mp hy with rfl | hy
      · exact hle
      · exact strLe_trans hle (hz.1 y hy)
    · rename_i hle
      have hzx : strLe z x = true := by
        rcases strLe_total x z with h' | h'
        · exact absurd h' hle
        · exact h'
      apply List.pairwise_cons.mpr
      refine ⟨?_, ih hz.2⟩
      intro y hy
      rcases mem_insertStr.mp hy with rfl | hy
      · exact hzx
      · exact hz.1 y hy

theorem sortStrs_sorted (l : List Str) : Sorted (sortStrs l) := by
  induction l with
  | nil => simp [sortStrs, Sorted]
  | cons x xs ih => exact insertStr_sorted ih

theorem mem_sortStrs {y : Str} {l : List Str} : y ∈ sortStrs l ↔ y ∈ l := by
  induction l with
  | nil => simp [sortStrs]
  | cons x xs ih => simp [sortStrs, mem_insertStr, ih]

theorem insertStr_perm (x : Str) (l : List Str) : (insertStr x l).Perm (x :: l) := by
  induction l with
  | nil => simp [insertStr]
  | cons z zs ih =>
    simp only [insertStr]
    split
    · exact List.Perm.refl _
    · exact (List.Perm.cons z ih).trans (List.Perm.swap x z zs)

theorem sortStrs_perm (l : List Str) : (sortStrs l).Perm l := by
  induction l with
  | nil => exact List.Perm.refl _
  | cons x xs ih => exact (insertStr_perm x _).trans (List.Perm.cons x ih)

theorem dropEmptyHead_sorted {l : List Str} (h : Sorted l) : Sorted (dropEmptyHead l) := by
  unfold dropEmptyHead
  split
  · exact (List.pairwise_cons.mp h).2
  · exact h

theorem mem_dropEmptyHead {l : List Str} {r : Str} (hr : r ≠ []) : r ∈ dropEmptyHead l ↔ r ∈ l := by
  unfold dropEmptyHead
  split
  · simp only [List.mem_cons]
    constructor
    · intro h; right; exact h
    · rintro (h | h)
      · exact absurd h hr
      · exact h
  · rfl

theorem dropEmptyHead_sublist (l : List Str) : (dropEmptyHead l).Sublist l := by
  unfold dropEmptyHead
  split
  · exact List.sublist_cons_self _ _
  · exact List.Sublist.refl _

end ShVerif.C19

namespace ShVerif.C19
open ShVerif ShVerif.L3

/-! ## the component loop against `Sel` -/

theorem mapExcept_ok {α β ε} (f : α → Except ε (List β)) :
    ∀ (l : List α) (out : List β), mapExcept f l = .ok out →
      ∀ x, x ∈ out ↔ ∃ a ∈ l, ∃ la, f a = .ok la ∧ x ∈ la := by
  intro l
  induction l with
  | nil =>
    intro out h x
    simp only [mapExcept] at h
    cases h
    simp
  | cons a rest ih =>
    intro out h x
    simp only [mapExcept] at h
    cases hfa : f a with
    | error e => simp [hfa] at h
    | ok la =>
      simp only [hfa] at h
      cases hr : mapExcept f rest with
      | error e => simp [hr] at h
      | ok lr =>
        simp only [hr] at h
        cases h
        simp only [List.mem_append, List.mem_cons]
        constructor
        · rintro (hx | hx)
          · exact ⟨a, Or.inl rfl, la, hfa, hx⟩
          · obtain ⟨b, hb, lb, hfb, hxb⟩ := (ih lr hr x).mp hx
            exact ⟨b, Or.inr hb, lb, hfb, hxb⟩
        · rintro ⟨b, hb | hb, lb, hfb, hxb⟩
          · subst hb
            rw [hfa] at hfb
            cases hfb
            exact Or.inl hxb
          · exact Or.inr ((ih lr hr x).mpr ⟨b, hb, lb, hfb, hxb⟩)

theorem globDir_mem {rd : Reader} {base d : Str} {f : Str → Bool} {wantDir : Bool} {l : List Str}
    (h : globDir rd base d f wantDir = .ok l) (x : Str) :
    x ∈ l ↔ ∃ ents e, rd (fullOf base d) = .ok ents ∧ e ∈ ents ∧
      keepEntry rd (fullOf base d) wantDir e = true ∧ f e.1 = true ∧ x = pathJoin2 d e.1 := by
  unfold globDir at h
  simp only at h
  cases hrd : rd (fullOf base d) with
  | error e => simp [hrd] at h
  | ok ents =>
    simp only [hrd] at h
    cases h
    simp only [List.mem_map, List.mem_filter, Bool.and_eq_true]
    constructor
    · rintro ⟨e, ⟨he, hk, hf⟩, rfl⟩
      exact ⟨ents, e, rfl, he, hk, hf, rfl⟩
    · rintro ⟨ents', e, hents, he, hk, hf, rfl⟩
      cases hents
      exact ⟨e, ⟨he, hk, hf⟩, rfl⟩

theorem globPart_mem {rd : Reader} {mk : Matcher} {cfg : Cfg} {base : Str} {wantDir : Bool}
    {ms out : List Str} {p : Str} (hns : isGlobStar cfg p = false)
    (h : globPart rd mk cfg base wantDir ms p = .ok out) (x : Str) :
    x ∈ out ↔ ∃ d ∈ ms, Step rd mk cfg base wantDir p d x := by
  unfold globPart at h
  by_cases hsp : isSpecialPart p = true
  · simp only [hsp, if_true] at h
    cases h
    simp only [List.mem_map]
    unfold Step
    constructor
    · rintro ⟨d, hd, rfl⟩
      exact ⟨d, hd, Or.inl ⟨hsp, rfl⟩⟩
    · rintro ⟨d, hd, h⟩
      rcases h with ⟨_, rfl⟩ | ⟨h, _⟩ | ⟨h, _⟩
      · exact ⟨d, hd, rfl⟩
      · rw [hsp] at h; cases h
      · rw [hsp] at h; cases h
  · have hsp' : isSpecialPart p = false := by simpa using hsp
    simp only [hsp', Bool.false_eq_true, if_false] at h
    by_cases hm : hasMeta p = true
    · simp only [hm, Bool.not_true, Bool.false_eq_true, if_false] at h
      have hgs : ¬ (p = [cStar, cStar] ∧ cfg.globstar = true) := by
        intro ⟨h1, h2⟩
        simp [isGlobStar, h1, h2] at hns
      simp only [hgs, if_false] at h
      cases hmk : mk cfg.mode p with
      | panic => simp [hmk] at h
      | unsupported => simp [hmk] at h
      | err e => simp [hmk] at h
      | ok f =>
        simp only [hmk] at h
        cases hme : mapExcept (fun d => globDir rd base d f wantDir) ms with
        | error e => simp [hme] at h
        | ok l =>
          simp only [hme] at h
          cases h
          rw [mapExcept_ok _ ms out hme x]
          unfold Step
          constructor
          · rintro ⟨d, hd, la, hla, hx⟩
            obtain ⟨ents, e, h1, h2, h3, h4, h5⟩ := (globDir_mem hla x).mp hx
            exact ⟨d, hd, Or.inr (Or.inr ⟨hsp', hm, f, ents, e, hmk, h1, h2, h3, h4, h5⟩)⟩
          · rintro ⟨d, hd, h⟩
            rcases h with ⟨h, _⟩ | ⟨_, h, _⟩ | ⟨_, _, f', ents, e, hf', h1, h2, h3, h4, h5⟩
            · rw [hsp'] at h; cases h
            · rw [hm] at h; cases h
            · rw [hmk] at hf'
              cases hf'
              -- globDir succeeded on every d ∈ ms
              have : ∃ la, globDir rd base d f wantDir = .ok la := by
                unfold globDir
                simp [h1]
              obtain ⟨la, hla⟩ := this
              exact ⟨d, hd, la, hla, (globDir_mem hla x).mpr ⟨ents, e, h1, h2, h3, h4, h5⟩⟩
    · have hm' : hasMeta p = false := by simpa using hm
      simp only [hm', Bool.not_false, if_true] at h
      cases h
      simp only [List.mem_map, List.mem_filter]
      unfold Step
      constructor
      · rintro ⟨d, ⟨hd, hk⟩, rfl⟩
        exact ⟨d, hd, Or.inr (Or.inl ⟨hsp', hm', hk, rfl⟩)⟩
      · rintro ⟨d, hd, h⟩
        rcases h with ⟨h, _⟩ | ⟨_, _, hk, rfl⟩ | ⟨_, h, _⟩
        · rw [hsp'] at h; cases h
        · exact ⟨d, ⟨hd, hk⟩, rfl⟩
        · rw [hm'] at h; cases h

theorem globLoop_sel {rd : Reader} {mk : Matcher} {cfg : Cfg} {base : Str} :
    ∀ (parts : List Str) (ms out : List Str), (∀ p ∈ parts, isGlobStar cfg p = false) →
      globLoop rd mk cfg base ms parts = .ok out →
      ∀ r, r ∈ out ↔ ∃ d ∈ ms, Sel rd mk cfg base parts d r := by
  intro parts
  induction parts with
  | nil =>
    intro ms out _ h r
    simp only [globLoop] at h
    cases h
    constructor
    · intro hr; exact ⟨r, hr, Sel.done r⟩
    · rintro ⟨d, hd, hs⟩
      cases hs
      exact hd
  | cons p rest ih =>
    intro ms out hns h r
    simp only [globLoop] at h
    cases hp : globPart rd mk cfg base (!rest.isEmpty) ms p with
    | error e => simp [hp] at h
    | ok m' =>
      simp only [hp] at h
      have hp1 := globPart_mem (hns p (List.mem_cons_self ..)) hp
      have ih' := ih m' out (fun q hq => hns q (List.mem_cons_of_mem _ hq)) h r
      rw [ih']
      constructor
      · rintro ⟨x, hx, hs⟩
        obtain ⟨d, hd, hst⟩ := (hp1 x).mp hx
        exact ⟨d, hd, Sel.step hst hs⟩
      · rintro ⟨d, hd, hs⟩
        cases hs with
        | step hst hs' =>
          exact ⟨_, (hp1 _).mpr ⟨d, hd, hst⟩, hs'⟩

end ShVerif.C19

namespace ShVerif.C19
open ShVerif ShVerif.L3

/-! ## escaped fields as tokens -/

theorem toks_cons_ne {c : Rune} (rest : Str) (hc : c ≠ cBS) : toks (c :: rest) = (c, false) :: toks rest := by
  rw [toks.eq_def]; simp [hc]

theorem toks_bs_cons (d : Rune) (rest : Str) : toks (cBS :: d :: rest) = (d, true) :: toks rest := by
  rw [toks.eq_def]; simp

theorem danglingBS_cons_ne {c : Rune} (rest : Str) (hc : c ≠ cBS) : danglingBS (c :: rest) = danglingBS rest := by
  rw [danglingBS.eq_def]; simp [hc]

theorem danglingBS_bs_cons (d : Rune) (rest : Str) : danglingBS (cBS :: d :: rest) = danglingBS rest := by
  rw [danglingBS.eq_def]; simp

theorem toks_append_aux : ∀ (n : Nat) (a b : Str), a.length ≤ n → danglingBS a = false →
    toks (a ++ b) = toks a ++ toks b := by
  intro n
  induction n with
  | zero =>
    intro a b hl _
    have : a = [] := List.length_eq_zero_iff.mp (Nat.le_zero.mp hl)
    subst this; rfl
  | succ n ih =>
    intro a b hl h
    match a, hl, h with
    | [], _, _ => rfl
    | c :: rest, hl, h =>
      by_cases hc : c = cBS
      · subst hc
        match rest, hl, h with
        | [], _, h => simp [danglingBS] at h
        | d :: rest', hl, h =>
          rw [danglingBS_bs_cons] at h
          have hl' : rest'.length ≤ n := by simp at hl; omega
          simp only [List.cons_append]
          rw [toks_bs_cons, toks_bs_cons, ih rest' b hl' h]
          rfl
      · rw [danglingBS_cons_ne _ hc] at h
        have hl' : rest.length ≤ n := by simp at hl; omega
        simp only [List.cons_append]
        rw [toks_cons_ne _ hc, toks_cons_ne _ hc, ih rest b hl' h]
        rfl

theorem toks_append {a : Str} (b : Str) (h : danglingBS a = false) : toks (a ++ b) = toks a ++ toks b :=
  toks_append_aux a.length a b (Nat.le_refl _) h

theorem toks_quoteMeta (s b : Str) :
    toks (quoteMeta s ++ b) = s.map (fun c => (c, isQuoteMetaSpecial c)) ++ toks b := by
  induction s with
  | nil => rfl
  | cons c rest ih =>
    simp only [quoteMeta]
    by_cases hc : isQuoteMetaSpecial c = true
    · simp only [hc, if_true, List.cons_append, List.map_cons]
      rw [toks_bs_cons, ih]
    · have hc' : isQuoteMetaSpecial c = false := by simpa using hc
      have hbs : c ≠ cBS := by
        intro h; subst h; simp [isQuoteMetaSpecial] at hc'
      simp only [hc', Bool.false_eq_true, if_false, List.cons_append, List.map_cons]
      rw [toks_cons_ne _ hbs, ih]

theorem toks_escapeParts (f : Field) (h : ∀ p ∈ f, p.quoted = false → danglingBS p.val = false) :
    toks (escapeParts f) = f.flatMap (partToks isQuoteMetaSpecial) := by
  induction f with
  | nil => rfl
  | cons p rest ih =>
    have ih' := ih (fun q hq => h q (List.mem_cons_of_mem _ hq))
    simp only [escapeParts, List.flatMap_cons, partToks]
    by_cases hq : p.quoted = true
    · simp only [hq, if_true]
      rw [toks_quoteMeta, ih']
    · have hq' : p.quoted = false := by simpa using hq
      simp only [hq', Bool.false_eq_true, if_false]
      rw [toks_append _ (h p (List.mem_cons_self ..) hq'), ih']

end ShVerif.C19
