import ShVerif.Model.C32
import ShVerif.Proofs.L1Heap
/-
  C32 — helper lemmas.

  Part A: the invariant of the job system (`closed → the status has been written`; the statuses of
  `r.bgProcs` are the statuses of the spawns executed so far, in order).
  Part B: ownership tags for the storage shared after `subshell(true)`.
-/
namespace ShVerif.C32
open ShVerif ShVerif.L1

/-! ## Part A -/

/-- a job's cells are consistent with its goroutine's program counter -/
def JobOK (j : Job) : Prop := (1 ≤ j.pc → j.exitCell = j.status) ∧ (j.closed = true → j.pc = 2)

def spawnVals : List POp → List Nat
  | [] => []
  | .spawn v :: rest => v :: spawnVals rest
  | _ :: rest => spawnVals rest

theorem spawnVals_append (a b : List POp) : spawnVals (a ++ b) = spawnVals a ++ spawnVals b := by
  induction a with
  | nil => rfl
  | cons x xs ih =>
    cases x <;> simp [spawnVals, ih]

theorem spawnStatus_eq : ∀ (l : List POp) (pid : Nat), 1 ≤ pid → spawnStatus l pid = (spawnVals l)[pid - 1]? := by
  intro l
  induction l with
  | nil => intro pid _; simp [spawnStatus, spawnVals]
  | cons x xs ih =>
    intro pid hp
    cases x with
    | spawn v =>
      simp only [spawnStatus, spawnVals]
      by_cases h1 : pid = 1
      · subst h1; simp
      · simp only [h1, if_false]
        rw [ih (pid - 1) (by omega)]
        have : pid - 1 = (pid - 1 - 1) + 1 := by omega
        rw [this, List.getElem?_cons_succ]
        simp
    | waitJob k => simp only [spawnStatus, spawnVals]; exact ih pid hp
    | waitAll => simp only [spawnStatus, spawnVals]; exact ih pid hp
    | peek k => simp only [spawnStatus, spawnVals]; exact ih pid hp

/-- the invariant of a run of the program `prog0` -/
structure WInv (prog0 : List POp) (st : PState) : Prop where
  jobs : ∀ (i : Nat) (j : Job), st.jobs[i]? = some j → JobOK j
  pre : ∃ pre, prog0 = pre ++ st.prog ∧ st.jobs.map (·.status) = spawnVals pre
  results : ∀ r ∈ st.results, ∀ pid x pc, r = .status pid x pc → pc = 2 ∧ spawnStatus prog0 pid = some x

theorem usesPeek_append (a b : List POp) : usesPeek (a ++ b) = (usesPeek a || usesPeek b) := by
  induction a with
  | nil => simp [usesPeek]
  | cons x xs ih => cases x <;> simp [usesPeek, ih]

theorem winv_init (prog : List POp) : WInv prog { prog := prog } :=
  ⟨by intro i j h; simp at h, ⟨[], rfl, rfl⟩, by intro r hr; cases hr⟩

theorem map_status_set {jobs : List Job} {i : Nat} {j j' : Job} (hj : jobs[i]? = some j) (hs : j'.status = j.status) :
    (jobs.set i j').map (·.status) = jobs.map (·.status) := by
  have hil : i < jobs.length := (List.getElem?_eq_some_iff.mp hj).1
  apply List.ext_getElem?
  intro k
  simp only [List.getElem?_map, List.getElem?_set]
  split
  · next hk =>
    subst hk
    have e : jobs[i] = j := (List.getElem?_eq_some_iff.mp hj).2
    simp [hil, hs, e]
  · rfl

theorem winv_child {prog0 : List POp} {st : PState} (w : WInv prog0 st) (i : Nat) : WInv prog0 (childStep st i) := by
  unfold childStep
  split
  · exact w
  · next j hj =>
    have hil : i < st.jobs.length := (List.getElem?_eq_some_iff.mp hj).1
    have ok := w.jobs i j hj
    split
    · next hpc =>
      refine ⟨?_, ?_, w.results⟩
      · intro i' j' h'
        simp only [List.getElem?_set] at h'
        split at h'
        · simp only [hil, if_true, Option.some.injEq] at h'
          subst h'
          refine ⟨fun _ => rfl, ?_⟩
          intro hc
          have := ok.2 hc
          omega
        · exact w.jobs i' j' h'
      · obtain ⟨pre, e1, e2⟩ := w.pre
        exact ⟨pre, e1, by rw [← e2]; exact map_status_set hj rfl⟩
    · split
      · next hpc0 hpc1 =>
        refine ⟨?_, ?_, w.results⟩
        · intro i' j' h'
          simp only [List.getElem?_set] at h'
          split at h'
          · simp only [hil, if_true, Option.some.injEq] at h'
            subst h'
            exact ⟨fun _ => ok.1 (by omega), fun _ => rfl⟩
          · exact w.jobs i' j' h'
        · obtain ⟨pre, e1, e2⟩ := w.pre
          exact ⟨pre, e1, by rw [← e2]; exact map_status_set hj rfl⟩
      · exact w

theorem winv_parent {prog0 : List POp} {st : PState} (w : WInv prog0 st) (np : usesPeek prog0 = false) :
    WInv prog0 (parentStep st) := by
  obtain ⟨pre, e1, e2⟩ := w.pre
  unfold parentStep
  split
  · exact w
  · next v rest hp =>
    refine ⟨?_, ⟨pre ++ [.spawn v], by rw [e1, hp]; simp, ?_⟩, w.results⟩
    · intro i j h
      by_cases hl : i < st.jobs.length
      · rw [List.getElem?_append_left hl] at h
        exact w.jobs i j h
      · rw [List.getElem?_append_right (by omega)] at h
        cases hk : i - st.jobs.length with
        | zero =>
          rw [hk] at h
          simp only [List.getElem?_cons_zero, Option.some.injEq] at h
          subst h
          exact ⟨by intro hh; simp at hh, by intro hh; simp at hh⟩
        | succ k => rw [hk] at h; simp at h
    · simp only [List.map_append, e2, spawnVals_append]
      simp [spawnVals]
  · next pid rest hp =>
    split
    · refine ⟨w.jobs, ⟨pre ++ [.waitJob pid], by rw [e1, hp]; simp, by simp only [spawnVals_append, e2]; simp [spawnVals]⟩, ?_⟩
      intro r hr pid' x pc er
      simp only [List.mem_append, List.mem_singleton] at hr
      rcases hr with hr | hr
      · exact w.results r hr pid' x pc er
      · rw [hr] at er; cases er
    · next hpid =>
      split
      · exact w
      · next j hj =>
        split
        · next hc =>
          refine ⟨w.jobs, ⟨pre ++ [.waitJob pid], by rw [e1, hp]; simp, by simp only [spawnVals_append, e2]; simp [spawnVals]⟩, ?_⟩
          intro r hr pid' x pc er
          simp only [List.mem_append, List.mem_singleton] at hr
          rcases hr with hr | hr
          · exact w.results r hr pid' x pc er
          · rw [hr] at er
            simp only [WaitRes.status.injEq] at er
            obtain ⟨ep, ex, epc⟩ := er
            subst ep ex epc
            have ok := w.jobs _ j hj
            have h2 := ok.2 hc
            refine ⟨h2, ?_⟩
            have hp1 : 1 ≤ pid := by omega
            rw [spawnStatus_eq prog0 pid hp1, e1, spawnVals_append, ← e2]
            have hst : (st.jobs.map (·.status))[pid - 1]? = some j.status := by
              simp only [List.getElem?_map, hj, Option.map_some]
            rw [List.getElem?_append_left (by
              have := (List.getElem?_eq_some_iff.mp hst).1
              exact this)]
            rw [hst, ok.1 (by omega)]
        · exact w
  · next rest hp =>
    split
    · exact ⟨w.jobs, ⟨pre ++ [.waitAll], by rw [e1, hp]; simp, by simp only [spawnVals_append, e2]; simp [spawnVals]⟩, w.results⟩
    · split
      · exact w
      · split
        · exact ⟨w.jobs, ⟨pre, e1, e2⟩, w.results⟩
        · exact w
  · next pid rest hp =>
    -- excluded by the hypothesis
    rw [e1, hp, usesPeek_append] at np
    simp [usesPeek] at np

theorem winv_exec {prog0 : List POp} (np : usesPeek prog0 = false) : ∀ (sched : List Nat) (st : PState),
    WInv prog0 st → WInv prog0 (exec st sched) := by
  intro sched
  induction sched with
  | nil => intro st w; exact w
  | cons k rest ih =>
    intro st w
    cases k with
    | zero => exact ih _ (winv_parent w np)
    | succ i => exact ih _ (winv_child w i)

/-- a step never removes a job or changes the status a job was started with -/
def JobsExtend (a b : PState) : Prop :=
  a.jobs.length ≤ b.jobs.length ∧ ∀ i, i < a.jobs.length → (b.jobs[i]?).map (·.status) = (a.jobs[i]?).map (·.status)

theorem jobsExtend_refl (a : PState) : JobsExtend a a := ⟨Nat.le_refl _, fun _ _ => rfl⟩

theorem jobsExtend_trans {a b c : PState} (x : JobsExtend a b) (y : JobsExtend b c) : JobsExtend a c :=
  ⟨Nat.le_trans x.1 y.1, fun i hi => (y.2 i (by have := x.1; omega)).trans (x.2 i hi)⟩

theorem jobsExtend_child (st : PState) (i : Nat) : JobsExtend st (childStep st i) := by
  unfold childStep
  split
  · exact jobsExtend_refl st
  · next j hj =>
    have key : ∀ j' : Job, j'.status = j.status → JobsExtend st { st with jobs := st.jobs.set i j' } := by
      intro j' hs
      refine ⟨by simp, ?_⟩
      intro k _
      have := congrArg (fun l => l[k]?) (map_status_set hj hs)
      simpa only [List.getElem?_map] using this
    split
    · exact key _ rfl
    · split
      · exact key _ rfl
      · exact jobsExtend_refl st

theorem jobsExtend_parent (st : PState) : JobsExtend st (parentStep st) := by
  unfold parentStep
  split
  · exact jobsExtend_refl st
  · refine ⟨by simp, ?_⟩
    intro i hi
    simp only [List.getElem?_append_left hi]
  · split
    · exact ⟨Nat.le_refl _, fun _ _ => rfl⟩
    · split
      · exact jobsExtend_refl st
      · split
        · exact ⟨Nat.le_refl _, fun _ _ => rfl⟩
        · exact jobsExtend_refl st
  · split
    · exact ⟨Nat.le_refl _, fun _ _ => rfl⟩
    · split
      · exact jobsExtend_refl st
      · split
        · exact ⟨Nat.le_refl _, fun _ _ => rfl⟩
        · exact jobsExtend_refl st
  · split
    · exact ⟨Nat.le_refl _, fun _ _ => rfl⟩
    · exact ⟨Nat.le_refl _, fun _ _ => rfl⟩

theorem jobsExtend_exec : ∀ (sched : List Nat) (st : PState), JobsExtend st (exec st sched) := by
  intro sched
  induction sched with
  | nil => intro st; exact jobsExtend_refl st
  | cons k rest ih =>
    intro st
    cases k with
    | zero => exact jobsExtend_trans (jobsExtend_parent st) (ih _)
    | succ i => exact jobsExtend_trans (jobsExtend_child st i) (ih _)

end ShVerif.C32
