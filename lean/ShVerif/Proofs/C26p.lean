import ShVerif.Proofs.C26o
/-
  C26 — simulation: the EXIT trap (simple actions) and whole files (`Runner.Run`).
-/
namespace ShVerif.C26
open ShVerif.L5 ShVerif.L5.Bash

/-- Relation between the runner and `BashSem` while a simple trap action runs. -/
def TrapRel : Option St → Res → Prop
  | none, none => True
  | some s', some (fl, e') =>
    fl = .norm ∧ s'.out = e'.out ∧ s'.handlingTrap = true ∧ s'.lastExit.code = e'.status ∧
      s'.vars = e'.vars
  | _, _ => False

theorem simple_trap_stmt (n : Nat) (k : Ctx) (st : Stmt) (hst : simpleTrapStmt st = true) (s : St)
    (e : Env) (hh : s.handlingTrap = true) (ho : s.out = e.out) (hs : s.lastExit.code = e.status)
    (hv : s.vars = e.vars) :
    TrapRel (run n (.stmt st) s) (sem n k (.stmt st) e) := by
  have hns : stop s = false := by simp [stop, hh]
  obtain ⟨neg, c⟩ := st
  cases neg with
  | true => simp [simpleTrapStmt] at hst
  | false =>
  cases n with
  | zero => simp [run, sem, TrapRel]
  | succ n =>
    rw [run_stmt_nonneg n c s hns, sem_stmt_nonneg]
    cases n with
    | zero => simp [run, sem, TrapRel]
    | succ m =>
      cases c <;> simp [simpleTrapStmt] at hst
      case tru =>
        simp [run, sem, stop, hh, mwrap, swrap, Cmd.isAndOr, Exit.ok, TrapRel, ho, hv]
      case echo w =>
        simp [run, sem, stop, hh, mwrap, swrap, Cmd.isAndOr, Exit.ok, TrapRel, ho, hs, hv]

theorem simple_trap_list (n : Nat) (k : Ctx) :
    ∀ (body : Prog), simpleTrap body = true → ∀ (s : St) (e : Env), s.handlingTrap = true →
      s.out = e.out → s.lastExit.code = e.status → s.vars = e.vars →
      TrapRel (foldStmts (fun st => run n (.stmt st)) body s)
        (seqList (fun st => sem n k (.stmt st)) body e)
  | .nil, _, s, e, hh, ho, hs, hv => by
    simp only [foldStmts, seqList, TrapRel]
    exact ⟨trivial, ho, hh, hs, hv⟩
  | .cons st rest, hsim, s, e, hh, ho, hs, hv => by
    simp only [simpleTrap, Bool.and_eq_true] at hsim
    have h0 := simple_trap_stmt n k st hsim.1 s e hh ho hs hv
    rw [foldStmts, seqList]
    cases hr : run n (.stmt st) s with
    | none =>
      rw [hr] at h0
      cases hq : sem n k (.stmt st) e with
      | none => trivial
      | some r => rw [hq] at h0; exact absurd h0 (by simp [TrapRel])
    | some s1 =>
      rw [hr] at h0
      cases hq : sem n k (.stmt st) e with
      | none => rw [hq] at h0; exact absurd h0 (by simp [TrapRel])
      | some r =>
        rw [hq] at h0
        obtain ⟨fl, e1⟩ := r
        obtain ⟨h1, h2, h3, h4, h5⟩ := h0
        subst h1
        exact simple_trap_list n k rest hsim.2 s1 e1 h3 h2 h4 h5

/-- The EXIT trap at the end of a run: same output on both sides, status untouched. -/
theorem sim_exit_trap (n : Nat) (body : Prog) (hsim : simpleTrap body = true) (s : St) (e : Env)
    (hh : s.handlingTrap = false) (ho : s.out = e.out) (hs : s.exit.code = e.status)
    (hv : s.vars = e.vars) :
    match run n (.trap body) s, sem n { exitTrap := true } (.trap body) e with
    | none, none => True
    | some s2, some (_, e2) => s2.out = e2.out ∧ s2.exit.code = e2.status
    | _, _ => False := by
  cases n with
  | zero => simp [run, sem]
  | succ m =>
    cases hb : body.isNil with
    | true =>
      simp only [run, sem, hb, ↓reduceIte, Bool.true_or]
      exact ⟨ho, hs⟩
    | false =>
      have hrun : run (m+1) (.trap body) s =
          match foldStmts (fun st => run m (.stmt st)) body
              { s with handlingTrap := true, lastExit := s.exit } with
          | none => none
          | some s1 => some { s1 with exit := s.exit, lastExit := s.lastExit, handlingTrap := false } := by
        rw [run]; simp only [hb, hh, Bool.false_eq_true, ↓reduceIte]; rfl
      have hsem : sem (m+1) { exitTrap := true } (.trap body) e =
          match seqList (fun st => sem m (actionCtx { exitTrap := true } e.status)
              (.stmt st)) body e with
          | none => none
          | some (.exit, e1) => some (.exit, e1)
          | some (_, e1) => some (.norm, { e1 with status := e.status }) := by
        rw [sem]; simp only [hb, Bool.false_or, Bool.false_eq_true, ↓reduceIte]; rfl
      rw [hrun, hsem]
      have h0 := simple_trap_list m (actionCtx { exitTrap := true } e.status)
        body hsim { s with handlingTrap := true, lastExit := s.exit } e rfl ho hs hv
      cases hr : foldStmts (fun st => run m (.stmt st)) body
          { s with handlingTrap := true, lastExit := s.exit } with
      | none =>
        rw [hr] at h0
        cases hq : seqList (fun st => sem m (actionCtx { exitTrap := true } e.status)
            (.stmt st)) body e with
        | none => trivial
        | some r => rw [hq] at h0; exact absurd h0 (by simp [TrapRel])
      | some s1 =>
        rw [hr] at h0
        cases hq : seqList (fun st => sem m (actionCtx { exitTrap := true } e.status)
            (.stmt st)) body e with
        | none => rw [hq] at h0; exact absurd h0 (by simp [TrapRel])
        | some r =>
          rw [hq] at h0
          obtain ⟨fl, e1⟩ := r
          obtain ⟨h1, h2, _, _, _⟩ := h0
          subst h1
          exact ⟨h2, hs⟩

/-- What the EXIT trap step needs from the end of the statement list. -/
structure EndRel (s : St) (e1 : Env) : Prop where
  out : s.out = e1.out
  st : s.exit.code = e1.status
  tr : e1.trapExit = s.callbackExit
  simple : simpleTrap s.callbackExit = true
  ht : s.handlingTrap = false
  vars : s.vars = e1.vars

theorem file_tail (fuel : Nat) (s : St) (e1 : Env) (h : EndRel s e1) :
    (match run fuel (.trap ({ s with lastExit := s.exit } : St).callbackExit) { s with lastExit := s.exit } with
     | none => none
     | some s2 => some (s2.out, s2.exit.code)) =
    (match (match sem fuel { exitTrap := true } (.trap e1.trapExit) e1 with
            | none => none
            | some (_, e2) => some (Flow.norm, e2)) with
     | none => none
     | some (_, e) => some (e.out, e.status)) := by
  have h0 := sim_exit_trap fuel s.callbackExit h.simple { s with lastExit := s.exit } e1 h.ht h.out h.st h.vars
  rw [h.tr]
  show (match run fuel (.trap s.callbackExit) { s with lastExit := s.exit } with
     | none => none
     | some s2 => some (s2.out, s2.exit.code)) = _
  cases hr : run fuel (.trap s.callbackExit) { s with lastExit := s.exit } with
  | none =>
    rw [hr] at h0
    cases hq : sem fuel { exitTrap := true } (.trap s.callbackExit) e1 with
    | none => rfl
    | some r => rw [hq] at h0; exact absurd h0 (by simp)
  | some s2 =>
    rw [hr] at h0
    cases hq : sem fuel { exitTrap := true } (.trap s.callbackExit) e1 with
    | none => rw [hq] at h0; exact absurd h0 (by simp)
    | some r =>
      rw [hq] at h0
      obtain ⟨fl, e2⟩ := r
      simp only at h0 ⊢
      rw [h0.1, h0.2]

theorem absEnv_init : absEnv ({} : St) = ({} : Env) := rfl

/-- Whole files: the model of `Runner.Run` and `BashSem` agree on supported programs, for every
    fuel. -/
theorem run_eq_sem_file (e : Bool) (fuel : Nat) (p : Prog) (hsup : supportedProg e p = true) :
    runFile fuel p = semFile fuel p := by
  unfold runFile semFile subRun
  have hst : Stat { e := e } ({} : Ctx) false :=
    ⟨⟨rfl, rfl⟩, (fun h => by cases h), fun _ _ _ => rfl, (fun h => by cases h), Nat.le_refl _, fun _ => rfl⟩
  have hd : Dyn { e := e } ({} : Ctx) false ({} : St) :=
    ⟨rfl, ⟨(fun h => by cases h), rfl⟩, (fun f b h => by simp [lookupFn] at h), rfl, fun _ => rfl,
      fun _ => rfl, (fun h => by cases h), fun h => absurd rfl h⟩
  cases hp : p.isNil with
  | true =>
    have hpn : p = .nil := by
      cases p with
      | nil => rfl
      | cons _ _ => simp [Prog.isNil] at hp
    subst hpn
    simp only [foldStmts, seqList]
    exact file_tail fuel {} {} ⟨rfl, rfl, rfl, rfl, rfl, rfl⟩
  | false =>
    have h0 := sim_list fuel (sim_all fuel).1 p { e := e } false {} false {} hp hst hsup hd
      ⟨rfl, rfl⟩ ⟨rfl, rfl⟩ ⟨rfl, rfl⟩
    rw [absEnv_init] at h0
    cases hr : foldStmts (fun st => run fuel (.stmt st)) p {} with
    | none => rw [hr] at h0; rw [Rel_none h0]
    | some s =>
      rw [hr] at h0
      obtain ⟨fl, e1, he, hpo⟩ := Rel_some h0
      rw [he]
      simp only
      have hend : EndRel s e1 := by
        cases fl with
        | norm =>
          obtain ⟨h1, h2, _⟩ := hpo
          subst h1
          exact ⟨rfl, rfl, rfl, h2.csub.2, h2.ht, rfl⟩
        | brk m =>
          obtain ⟨_, _, _, _, _, _, hlv, _⟩ := hpo
          exact absurd hlv (not_levels_nil _ m rfl)
        | cont m =>
          obtain ⟨_, _, _, _, _, _, hlv, _⟩ := hpo
          exact absurd hlv (not_levels_nil _ m rfl)
        | ret =>
          obtain ⟨_, _, _, _, _, hfn, _⟩ := hpo
          cases hfn
        | exit =>
          obtain ⟨_, _, h3, h4, h5, h6, h7, _, _, h10⟩ := hpo
          exact ⟨h4.symm, h3.symm, h5, h6.2, h7, h10.symm⟩
      exact file_tail fuel s e1 hend

end ShVerif.C26
