/-
  L4 lexer lemmas: lexing the bytes the printer writes for a well-formed word gives the word
  back (modulo positions and the merging of adjacent literals); blanks, escaped newlines and
  newlines between tokens are skipped the way the printer's layout needs.
-/
import ShVerif.Proofs.L4
namespace ShVerif.L4

/-! ## Byte classes (checked exhaustively over the 256 bytes) -/

theorem u8_forall {P : UInt8 → Prop} (h : ∀ n : Fin 256, P (UInt8.ofNat n.val)) : ∀ b, P b := by
  intro b
  have := h ⟨b.toNat, b.toNat_lt⟩
  simpa using this

theorem safe_facts : ∀ b : UInt8, isSafe b = true →
    isDelim b = false ∧ (b == 39) = false ∧ (b == 92) = false ∧ (b == 10) = false ∧ (b == 32) = false ∧
    (b == 9) = false ∧ (b == 59) = false ∧ (b == 38) = false ∧ (b == 124) = false ∧ (b == 40) = false ∧
    (b == 41) = false ∧ (b == 123) = false ∧ (b == 125) = false ∧ (b == 33) = false := by
  apply u8_forall; decide +kernel

theorem sglSafe_facts : ∀ b : UInt8, isSglSafe b = true → (b == 39) = false := by
  apply u8_forall; decide +kernel

theorem delim_facts : ∀ b : UInt8, isDelim b = true → isSafe b = false ∧ (b == 39) = false := by
  apply u8_forall; decide +kernel

/-! ## `norm` of a word through erasure and merging -/

def WordPart.erase : WordPart → NPart
  | .lit _ _ v => .lit v
  | .sgl _ _ v => .sgl v

def mergeN : List NPart → List NPart
  | [] => []
  | .sgl v :: rest => .sgl v :: mergeN rest
  | .lit v :: rest =>
    match mergeN rest with
    | .lit v' :: r => .lit (v ++ v') :: r
    | r => .lit v :: r

theorem normParts_eq (ps : List WordPart) : normParts ps = mergeN (ps.map WordPart.erase) := by
  induction ps with
  | nil => rfl
  | cons p rest ih =>
    cases p with
    | lit a b v =>
      simp only [normParts, List.map, WordPart.erase, mergeN]
      rw [ih]
      cases mergeN (List.map WordPart.erase rest) with
      | nil => rfl
      | cons h t => cases h <;> rfl
    | sgl a b v => simp only [normParts, List.map, WordPart.erase, mergeN, ih]

theorem mergeN_lit_lit (xs : List NPart) (a b : Bytes) (ys : List NPart) :
    mergeN (xs ++ .lit a :: .lit b :: ys) = mergeN (xs ++ .lit (a ++ b) :: ys) := by
  induction xs with
  | nil =>
    simp only [List.nil_append, mergeN]
    cases mergeN ys with
    | nil => rfl
    | cons h t => cases h <;> simp [List.append_assoc]
  | cons x rest ih =>
    cases x with
    | lit v => simp only [List.cons_append, mergeN, ih]
    | sgl v => simp only [List.cons_append, mergeN, ih]

/-! ## Lexing a word -/

def Pos.advs (p : Pos) (bs : Bytes) : Pos := bs.foldl Pos.adv p

/-- the literal being accumulated, as a part -/
def pend : LexMode → List NPart
  | .lit _ a => [.lit a.reverse]
  | _ => []

def LexMode.notSgl : LexMode → Prop
  | .sgl _ _ => False
  | _ => True

/-- one step on a safe byte -/
theorem lexWord_lit_safe (b : UInt8) (rest : Bytes) (pos st : Pos) (a : Bytes) (acc : List WordPart)
    (hb : isSafe b = true) :
    lexWord (b :: rest) pos (.lit st a) acc = lexWord rest (pos.adv b) (.lit st (b :: a)) acc := by
  rw [lexWord]; simp only [hb, if_true]

theorem lexWord_idle_safe (b : UInt8) (rest : Bytes) (pos : Pos) (acc : List WordPart) (hb : isSafe b = true) :
    lexWord (b :: rest) pos .idle acc = lexWord rest (pos.adv b) (.lit pos [b]) acc := by
  rw [lexWord]; simp only [hb, if_true]

theorem lexWord_sgl_safe (b : UInt8) (rest : Bytes) (pos left : Pos) (a : Bytes) (acc : List WordPart)
    (hb : isSglSafe b = true) :
    lexWord (b :: rest) pos (.sgl left a) acc = lexWord rest (pos.adv b) (.sgl left (b :: a)) acc := by
  rw [lexWord]; simp only [sglSafe_facts b hb, hb, if_true, Bool.false_eq_true, if_false]

theorem lexWord_sgl_close (rest : Bytes) (pos left : Pos) (a : Bytes) (acc : List WordPart) :
    lexWord (39 :: rest) pos (.sgl left a) acc = lexWord rest (pos.adv 39) .idle (.sgl left pos a.reverse :: acc) := by
  rw [lexWord]; simp

theorem lexWord_idle_quote (rest : Bytes) (pos : Pos) (acc : List WordPart) :
    lexWord (39 :: rest) pos .idle acc = lexWord rest (pos.adv 39) (.sgl pos []) acc := by
  rw [lexWord]; simp [isSafe]

theorem lexWord_lit_quote (rest : Bytes) (pos st : Pos) (a : Bytes) (acc : List WordPart) :
    lexWord (39 :: rest) pos (.lit st a) acc =
      lexWord rest (pos.adv 39) (.sgl pos []) (.lit st pos a.reverse :: acc) := by
  rw [lexWord]; simp [isSafe]

theorem lexWord_idle_delim (d : UInt8) (rest : Bytes) (pos : Pos) (acc : List WordPart) (hd : isDelim d = true) :
    lexWord (d :: rest) pos .idle acc = .done acc.reverse pos (d :: rest) := by
  rw [lexWord]; simp only [(delim_facts d hd).1, (delim_facts d hd).2, hd, if_true, Bool.false_eq_true, if_false]

theorem lexWord_lit_delim (d : UInt8) (rest : Bytes) (pos st : Pos) (a : Bytes) (acc : List WordPart)
    (hd : isDelim d = true) :
    lexWord (d :: rest) pos (.lit st a) acc = .done (WordPart.lit st pos a.reverse :: acc).reverse pos (d :: rest) := by
  rw [lexWord]; simp only [(delim_facts d hd).1, (delim_facts d hd).2, hd, if_true, Bool.false_eq_true, if_false]

/-- safe bytes extend the literal being read -/
theorem lexWord_safe (v : Bytes) (hv : ∀ b ∈ v, isSafe b = true) (k : Bytes) :
    ∀ (pos st : Pos) (a : Bytes) (acc : List WordPart),
      lexWord (v ++ k) pos (.lit st a) acc = lexWord k (pos.advs v) (.lit st (v.reverse ++ a)) acc := by
  induction v with
  | nil => intro pos st a acc; rfl
  | cons b rest ih =>
    intro pos st a acc
    have hb := hv b (by simp)
    have hr : ∀ x ∈ rest, isSafe x = true := fun x hx => hv x (by simp [hx])
    rw [List.cons_append, lexWord_lit_safe _ _ _ _ _ _ hb, ih hr]
    simp [Pos.advs, List.foldl]

/-- the content of a single-quoted string up to the closing quote -/
theorem lexWord_sgl_body (v : Bytes) (hv : ∀ b ∈ v, isSglSafe b = true) (k : Bytes) :
    ∀ (pos left : Pos) (a : Bytes) (acc : List WordPart),
      lexWord (v ++ 39 :: k) pos (.sgl left a) acc =
        lexWord k ((pos.advs v).adv 39) .idle (.sgl left (pos.advs v) (v.reverse ++ a).reverse :: acc) := by
  induction v with
  | nil =>
    intro pos left a acc
    rw [List.nil_append, lexWord_sgl_close]
    simp [Pos.advs]
  | cons b rest ih =>
    intro pos left a acc
    have hb := hv b (by simp)
    have hr : ∀ x ∈ rest, isSglSafe x = true := fun x hx => hv x (by simp [hx])
    rw [List.cons_append, lexWord_sgl_safe _ _ _ _ _ _ hb, ih hr]
    simp [Pos.advs, List.foldl]

theorem WordPart.wf_lit_bytes {a e : Pos} {v : Bytes} (h : (WordPart.lit a e v).wf = true) :
    (WordPart.lit a e v).bytes = v ∧ v ≠ [] ∧ ∀ b ∈ v, isSafe b = true := by
  unfold WordPart.wf at h
  simp only [Bool.and_eq_true, Bool.not_eq_true', List.isEmpty_eq_false_iff, List.all_eq_true] at h
  refine ⟨?_, h.1, h.2⟩
  have hno : ∀ b ∈ v, (b == 92) = false := fun b hb => (safe_facts b (h.2 b hb)).2.2.1
  have : trailingBackslashes v = 0 := by
    unfold trailingBackslashes
    cases hrev : v.reverse with
    | nil => simp
    | cons x xs =>
      have hx : x ∈ v := by
        have : x ∈ v.reverse := by rw [hrev]; simp
        simpa using this
      simp [List.takeWhile, hno x hx]
  simp [WordPart.bytes, this]

/-- Lexing the bytes of well-formed parts continues the word: the result, once the word ends,
    has the same norm as what was read before followed by the parts. -/
theorem lexWord_parts (parts : List WordPart) (hw : ∀ p ∈ parts, p.wf = true) (k : Bytes) (hk : eofOrDelim k = true) :
    ∀ (pos : Pos) (mode : LexMode) (acc : List WordPart), mode.notSgl →
      ∃ res stop, lexWord (wordBytes parts ++ k) pos mode acc = .done res stop k ∧
        mergeN (res.map WordPart.erase) =
          mergeN (acc.reverse.map WordPart.erase ++ pend mode ++ parts.map WordPart.erase) := by
  induction parts with
  | nil =>
    intro pos mode acc hm
    simp only [wordBytes, List.flatMap_nil, List.nil_append, List.map_nil, List.append_nil]
    cases mode with
    | sgl l a => exact absurd hm (by simp [LexMode.notSgl])
    | idle =>
      cases k with
      | nil => exact ⟨acc.reverse, pos, by rw [lexWord], by simp [pend]⟩
      | cons d rest =>
        have hd : isDelim d = true := by simpa [eofOrDelim] using hk
        exact ⟨acc.reverse, pos, lexWord_idle_delim d rest pos acc hd, by simp [pend]⟩
    | lit st a =>
      cases k with
      | nil => exact ⟨_, pos, by rw [lexWord], by simp [pend, WordPart.erase]⟩
      | cons d rest =>
        have hd : isDelim d = true := by simpa [eofOrDelim] using hk
        exact ⟨_, pos, lexWord_lit_delim d rest pos st a acc hd, by simp [pend, WordPart.erase]⟩
  | cons p rest ih =>
    intro pos mode acc hm
    have hp := hw p (by simp)
    have hrest : ∀ q ∈ rest, q.wf = true := fun q hq => hw q (by simp [hq])
    cases p with
    | lit a e v =>
      obtain ⟨hbytes, hne, hsafe⟩ := WordPart.wf_lit_bytes hp
      have hwb : wordBytes (WordPart.lit a e v :: rest) ++ k = v ++ (wordBytes rest ++ k) := by
        simp [wordBytes, hbytes]
      rw [hwb]
      cases mode with
      | sgl l x => exact absurd hm (by simp [LexMode.notSgl])
      | lit st x =>
        rw [lexWord_safe v hsafe]
        obtain ⟨res, stop, h1, h2⟩ := ih hrest (pos.advs v) (.lit st (v.reverse ++ x)) acc (by simp [LexMode.notSgl])
        refine ⟨res, stop, h1, ?_⟩
        rw [h2]
        simp only [pend, List.reverse_append, List.reverse_reverse, List.map_cons, WordPart.erase,
          List.append_assoc, List.cons_append, List.nil_append]
        exact (mergeN_lit_lit _ _ _ _).symm
      | idle =>
        cases v with
        | nil => exact absurd rfl hne
        | cons b v' =>
          have hb := hsafe b (by simp)
          have hv' : ∀ x ∈ v', isSafe x = true := fun x hx => hsafe x (by simp [hx])
          rw [List.cons_append, lexWord_idle_safe _ _ _ _ hb, lexWord_safe v' hv']
          obtain ⟨res, stop, h1, h2⟩ := ih hrest ((pos.adv b).advs v') (.lit pos (v'.reverse ++ [b])) acc (by simp [LexMode.notSgl])
          refine ⟨res, stop, h1, ?_⟩
          rw [h2]
          simp [pend, WordPart.erase]
    | sgl l r v =>
      have hsafe : ∀ b ∈ v, isSglSafe b = true := by
        unfold WordPart.wf at hp
        simpa using hp
      have hwb : wordBytes (WordPart.sgl l r v :: rest) ++ k = 39 :: (v ++ 39 :: (wordBytes rest ++ k)) := by
        simp [wordBytes, WordPart.bytes]
      rw [hwb]
      cases mode with
      | sgl l' x => exact absurd hm (by simp [LexMode.notSgl])
      | idle =>
        rw [lexWord_idle_quote, lexWord_sgl_body v hsafe]
        obtain ⟨res, stop, h1, h2⟩ := ih hrest (((pos.adv 39).advs v).adv 39) .idle
          (.sgl pos ((pos.adv 39).advs v) (v.reverse ++ []).reverse :: acc) (by simp [LexMode.notSgl])
        refine ⟨res, stop, h1, ?_⟩
        rw [h2]
        simp [pend, WordPart.erase]
      | lit st x =>
        rw [lexWord_lit_quote, lexWord_sgl_body v hsafe]
        obtain ⟨res, stop, h1, h2⟩ := ih hrest (((pos.adv 39).advs v).adv 39) .idle
          (.sgl pos ((pos.adv 39).advs v) (v.reverse ++ []).reverse :: .lit st pos x.reverse :: acc) (by simp [LexMode.notSgl])
        refine ⟨res, stop, h1, ?_⟩
        rw [h2]
        simp [pend, WordPart.erase]


/-! ## Blanks between tokens -/

theorem skipSpace_space (sk : Bool) (r : Bytes) (p : Pos) : skipSpace sk (32 :: r) p = skipSpace sk r (p.adv 32) := by
  rw [skipSpace.eq_def]; simp

theorem skipSpace_tab (sk : Bool) (r : Bytes) (p : Pos) : skipSpace sk (9 :: r) p = skipSpace sk r (p.adv 9) := by
  rw [skipSpace.eq_def]; simp

theorem skipSpace_bsnl (sk : Bool) (r : Bytes) (p : Pos) :
    skipSpace sk (92 :: 10 :: r) p = skipSpace sk r ⟨p.offs + 2, p.line + 1, 1⟩ := by
  rw [skipSpace.eq_def]; simp

theorem skipSpace_nl_skip (r : Bytes) (p : Pos) : skipSpace true (10 :: r) p = skipSpace true r (p.adv 10) := by
  rw [skipSpace.eq_def]; simp

theorem skipSpace_nl_stop (r : Bytes) (p : Pos) : skipSpace false (10 :: r) p = (10 :: r, p) := by
  rw [skipSpace.eq_def]; simp

theorem skipSpace_nil (sk : Bool) (p : Pos) : skipSpace sk [] p = ([], p) := by
  rw [skipSpace]

/-- a byte that starts a token stops the skipping -/
def tokStart (b : UInt8) : Bool :=
  isSafe b || b == 39 || b == 59 || b == 38 || b == 124 || b == 40 || b == 41 || b == 123 || b == 125 || b == 33

theorem tokStart_facts : ∀ b : UInt8, tokStart b = true →
    (b == 32) = false ∧ (b == 9) = false ∧ (b == 10) = false ∧ (b == 92) = false := by
  apply u8_forall; decide +kernel

theorem skipSpace_tok (sk : Bool) (b : UInt8) (r : Bytes) (p : Pos) (hb : tokStart b = true) :
    skipSpace sk (b :: r) p = (b :: r, p) := by
  obtain ⟨h1, h2, h3, h4⟩ := tokStart_facts b hb
  rw [skipSpace.eq_def]; simp [h1, h2, h3, h4]

theorem skipSpace_tabs (sk : Bool) (n : Nat) (r : Bytes) : ∀ p : Pos, ∃ p', skipSpace sk (List.replicate n 9 ++ r) p = skipSpace sk r p' := by
  induction n with
  | zero => intro p; exact ⟨p, rfl⟩
  | succ n ih =>
    intro p
    obtain ⟨p', h⟩ := ih (p.adv 9)
    exact ⟨p', by rw [List.replicate_succ, List.cons_append, skipSpace_tab, h]⟩

theorem skipSpace_spaces (sk : Bool) (n : Nat) (r : Bytes) : ∀ p : Pos, ∃ p', skipSpace sk (List.replicate n 32 ++ r) p = skipSpace sk r p' := by
  induction n with
  | zero => intro p; exact ⟨p, rfl⟩
  | succ n ih =>
    intro p
    obtain ⟨p', h⟩ := ih (p.adv 32)
    exact ⟨p', by rw [List.replicate_succ, List.cons_append, skipSpace_space, h]⟩

/-! ## One token -/

theorem nextTok_of_skip {sk : Bool} {src : Bytes} {spos : Pos} {src' : Bytes} {p' : Pos}
    (h : skipSpace sk src spos = skipSpace sk src' p') : nextTok sk src spos = nextTok sk src' p' := by
  unfold nextTok; rw [h]

theorem nextTok_eof (sk : Bool) (p : Pos) : nextTok sk [] p = ⟨.eof, p, [], p⟩ := by
  unfold nextTok; rw [skipSpace_nil]

theorem nextTok_newl (r : Bytes) (p : Pos) : nextTok false (10 :: r) p = ⟨.newl, p, r, p.adv 10⟩ := by
  unfold nextTok; rw [skipSpace_nl_stop]; simp

/-- the first byte of what follows a `;` -/
def semiFollowOK : Bytes → Bool
  | 59 :: _ | 38 :: _ | 124 :: _ => false
  | _ => true

theorem nextTok_semi (sk : Bool) (r : Bytes) (p : Pos) (h : semiFollowOK r = true) :
    nextTok sk (59 :: r) p = ⟨.semi, p, r, p.adv 59⟩ := by
  unfold nextTok; rw [skipSpace_tok sk 59 r p (by decide)]
  cases r with
  | nil => simp
  | cons c t =>
    simp only [semiFollowOK] at h
    split at h <;> simp_all

def ampFollowOK : Bytes → Bool
  | 38 :: _ | 62 :: _ | 124 :: _ | 33 :: _ => false
  | _ => true

theorem nextTok_amp (sk : Bool) (r : Bytes) (p : Pos) (h : ampFollowOK r = true) :
    nextTok sk (38 :: r) p = ⟨.amp, p, r, p.adv 38⟩ := by
  unfold nextTok; rw [skipSpace_tok sk 38 r p (by decide)]
  cases r with
  | nil => simp
  | cons c t =>
    simp only [ampFollowOK] at h
    split at h <;> simp_all

theorem nextTok_andAnd (sk : Bool) (r : Bytes) (p : Pos) :
    nextTok sk (38 :: 38 :: r) p = ⟨.andAnd, p, r, (p.adv 38).adv 38⟩ := by
  unfold nextTok; rw [skipSpace_tok sk 38 _ p (by decide)]; simp

theorem nextTok_orOr (sk : Bool) (r : Bytes) (p : Pos) :
    nextTok sk (124 :: 124 :: r) p = ⟨.orOr, p, r, (p.adv 124).adv 124⟩ := by
  unfold nextTok; rw [skipSpace_tok sk 124 _ p (by decide)]; simp

def pipeFollowOK : Bytes → Bool
  | 124 :: _ | 38 :: _ => false
  | _ => true

theorem nextTok_pipe (sk : Bool) (r : Bytes) (p : Pos) (h : pipeFollowOK r = true) :
    nextTok sk (124 :: r) p = ⟨.pipe, p, r, p.adv 124⟩ := by
  unfold nextTok; rw [skipSpace_tok sk 124 r p (by decide)]
  cases r with
  | nil => simp
  | cons c t =>
    simp only [pipeFollowOK] at h
    split at h <;> simp_all

def lparenFollowOK : Bytes → Bool
  | 40 :: _ | 41 :: _ => false
  | _ => true

theorem nextTok_lparen (sk : Bool) (r : Bytes) (p : Pos) (h : lparenFollowOK r = true) :
    nextTok sk (40 :: r) p = ⟨.lparen, p, r, p.adv 40⟩ := by
  unfold nextTok; rw [skipSpace_tok sk 40 r p (by decide)]
  cases r with
  | nil => simp
  | cons c t =>
    simp only [lparenFollowOK] at h
    split at h <;> simp_all

theorem nextTok_rparen (sk : Bool) (r : Bytes) (p : Pos) :
    nextTok sk (41 :: r) p = ⟨.rparen, p, r, p.adv 41⟩ := by
  unfold nextTok; rw [skipSpace_tok sk 41 r p (by decide)]; simp

/-- `{`, `}`, `!` as whole words -/
theorem nextTok_rsrv (sk : Bool) (b : UInt8) (hb : b = 123 ∨ b = 125 ∨ b = 33) (r : Bytes) (p : Pos)
    (h : eofOrDelim r = true) :
    nextTok sk (b :: r) p = ⟨.word ⟨[.lit p (p.adv b) [b]]⟩ (some [b]), p, r, p.adv b⟩ := by
  unfold nextTok
  rcases hb with rfl | rfl | rfl
  · rw [skipSpace_tok sk 123 r p (by decide)]; simp [h]
  · rw [skipSpace_tok sk 125 r p (by decide)]; simp [h]
  · rw [skipSpace_tok sk 33 r p (by decide)]; simp [h]


/-! ## A word token -/

theorem Word.wf_parts {w : Word} (h : w.wf = true) : ∀ p ∈ w.parts, p.wf = true := by
  unfold Word.wf at h
  simp only [Bool.and_eq_true, List.all_eq_true] at h
  exact h.2

/-- the first byte of a well-formed word is a safe byte or a quote -/
theorem wordBytes_head (parts : List WordPart) (hne : parts ≠ []) (hw : ∀ p ∈ parts, p.wf = true) :
    ∃ b t, wordBytes parts = b :: t ∧ (isSafe b = true ∨ b = 39) := by
  cases parts with
  | nil => exact absurd rfl hne
  | cons p rest =>
    have hp := hw p (by simp)
    cases p with
    | lit a e v =>
      obtain ⟨hb, hne', hs⟩ := WordPart.wf_lit_bytes hp
      cases v with
      | nil => exact absurd rfl hne'
      | cons b v' => exact ⟨b, v' ++ wordBytes rest, by simp [wordBytes, hb], Or.inl (hs b (by simp))⟩
    | sgl l r v => exact ⟨39, v ++ [39] ++ wordBytes rest, by simp [wordBytes, WordPart.bytes], Or.inr rfl⟩

theorem wordStart_facts : ∀ b : UInt8, (isSafe b = true ∨ b = 39) →
    tokStart b = true ∧ (b == 10) = false ∧ (b == 59) = false ∧ (b == 38) = false ∧ (b == 124) = false ∧
    (b == 40) = false ∧ (b == 41) = false ∧ (b == 123) = false ∧ (b == 125) = false ∧ (b == 33) = false ∧
    (isSafe b || b == 39) = true := by
  apply u8_forall; decide +kernel

/-- `nextTok` on the bytes of a well-formed word followed by a delimiter or the end of input -/
theorem nextTok_word (sk : Bool) (parts : List WordPart) (hne : parts ≠ []) (hw : ∀ p ∈ parts, p.wf = true)
    (k : Bytes) (hk : eofOrDelim k = true) (p : Pos) :
    ∃ res stop, nextTok sk (wordBytes parts ++ k) p = ⟨.word ⟨res⟩ (litWord? res), p, k, stop⟩ ∧
      mergeN (res.map WordPart.erase) = mergeN (parts.map WordPart.erase) := by
  obtain ⟨b, t, hbt, hb⟩ := wordBytes_head parts hne hw
  obtain ⟨res, stop, h1, h2⟩ := lexWord_parts parts hw k hk p .idle [] (by simp [LexMode.notSgl])
  refine ⟨res, stop, ?_, by simpa [pend] using h2⟩
  obtain ⟨f0, f1, f2, f3, f4, f5, f6, f7, f8, f9, f10⟩ := wordStart_facts b hb
  unfold nextTok
  rw [hbt] at h1 ⊢
  rw [List.cons_append, skipSpace_tok sk b _ p f0]
  rw [List.cons_append] at h1
  simp only [f1, f2, f3, f4, f5, f6, f7, f8, f9, f10, Bool.false_eq_true, ↓reduceIte, Bool.or_self, h1]

/-! ## Lexing what the printer writes: pieces

  `lexChain ps` is the local condition under which lexing `render ps` gives one token per word
  and operator piece and one newline token per run of newline gaps: every piece has one of the
  shapes the printer writes, and no piece glues with the first byte of the next one. -/

/-- abstract tokens -/
inductive ATok
  | word (n : List NPart)
  | newl | semi | amp | andAnd | orOr | pipe | lparen | rparen | lbrace | rbrace | bang | eof
deriving DecidableEq, Repr, Inhabited

def opTok (b : Bytes) : Option ATok :=
  if b = [59] then some .semi else if b = [38] then some .amp else if b = [38, 38] then some .andAnd
  else if b = [124, 124] then some .orOr else if b = [124] then some .pipe else if b = [40] then some .lparen
  else if b = [41] then some .rparen else if b = [123] then some .lbrace else if b = [125] then some .rbrace
  else if b = [33] then some .bang else none

/-- layout the printer writes: a blank, a newline, an escaped newline, a run of tabs or blanks -/
inductive GapKind
  | blanks | newline | bsnl

def gapKind (b : Bytes) : Option GapKind :=
  if b = [10] then some .newline
  else if b = [92, 10] then some .bsnl
  else if b ≠ [] ∧ (b.all (· == 32) ∨ b.all (· == 9)) then some .blanks
  else none

def Piece.shapeOK : Piece → Bool
  | .word parts => !parts.isEmpty && parts.all WordPart.wf
  | .op b => (opTok b).isSome
  | .gap b => (gapKind b).isSome

def optAll (f : UInt8 → Bool) : Option UInt8 → Bool
  | none => true
  | some b => f b

/-- what may directly follow a piece (`next` is the next byte of the output, if any) -/
def followOK (p : Piece) (next : Option UInt8) : Bool :=
  match p with
  | .word _ => optAll isDelim next
  | .gap _ => true
  | .op b =>
    if b = [59] then optAll (fun c => c != 59 && c != 38 && c != 124) next
    else if b = [38] then optAll (fun c => c != 38 && c != 62 && c != 124 && c != 33) next
    else if b = [124] then optAll (fun c => c != 124 && c != 38) next
    else if b = [40] then optAll (fun c => c != 40 && c != 41) next
    else if b = [123] ∨ b = [125] ∨ b = [33] then optAll isDelim next
    else true

def lexChain : List Piece → Bool
  | [] => true
  | p :: rest => p.shapeOK && followOK p (render rest).head? && lexChain rest

/-- the tokens the lexer gives for the pieces; `sk` says whether the previous token was a newline -/
def expect (sk : Bool) : List Piece → List ATok
  | [] => [.eof]
  | .word parts :: rest => .word (mergeN (parts.map WordPart.erase)) :: expect false rest
  | .op b :: rest => (match opTok b with | some t => [t] | none => []) ++ expect false rest
  | .gap b :: rest =>
    match gapKind b with
    | some .newline => if sk then expect true rest else .newl :: expect true rest
    | _ => expect sk rest

def tokMatch : ATok → Tok → Prop
  | .word n, t => ∃ w lit, t = .word w lit ∧ mergeN (w.parts.map WordPart.erase) = n ∧ ∀ v, lit = some v → n = [.lit v]
  | .newl, t => t = .newl
  | .semi, t => t = .semi
  | .amp, t => t = .amp
  | .andAnd, t => t = .andAnd
  | .orOr, t => t = .orOr
  | .pipe, t => t = .pipe
  | .lparen, t => t = .lparen
  | .rparen, t => t = .rparen
  | .lbrace, t => ∃ w, t = .word w (some [123])
  | .rbrace, t => ∃ w, t = .word w (some [125])
  | .bang, t => ∃ w, t = .word w (some [33])
  | .eof, t => t = .eof

/-- token lists matching abstract tokens, positions arbitrary -/
def toksMatch : List ATok → List TokPos → Prop
  | [], [] => True
  | a :: as, (t, _) :: ts => tokMatch a t ∧ toksMatch as ts
  | _, _ => False

theorem lexAllF_of_skip {sk : Bool} {src src' : Bytes} {p p' : Pos} (fuel : Nat)
    (h : skipSpace sk src p = skipSpace sk src' p') : lexAllF fuel sk src p = lexAllF fuel sk src' p' := by
  cases fuel with
  | zero => rfl
  | succ n => rw [lexAllF, lexAllF, nextTok_of_skip h]

theorem litWord?_some {res : List WordPart} {v : Bytes} (h : litWord? res = some v) :
    mergeN (res.map WordPart.erase) = [.lit v] := by
  unfold litWord? at h
  split at h
  · rename_i a e v'
    simp only [Option.some.injEq] at h
    subst h
    simp [WordPart.erase, mergeN]
  · cases h


theorem all_eq_replicate (b : Bytes) (c : UInt8) (h : b.all (· == c) = true) : b = List.replicate b.length c := by
  induction b with
  | nil => rfl
  | cons x t ih =>
    simp only [List.all_cons, Bool.and_eq_true, beq_iff_eq] at h
    rw [List.length_cons, List.replicate_succ, ← ih h.2, h.1]

theorem eofOrDelim_of_head {k : Bytes} (h : optAll isDelim k.head? = true) : eofOrDelim k = true := by
  cases k with
  | nil => rfl
  | cons d t => simpa [optAll, eofOrDelim] using h

theorem lexAllF_step_tok (fuel : Nat) (sk : Bool) (src : Bytes) (pos : Pos) (t : Tok) (tp : Pos) (r : Bytes) (rp : Pos)
    (h : nextTok sk src pos = ⟨t, tp, r, rp⟩) (h1 : t ≠ .eof) (h2 : t ≠ .outside) (h3 : t ≠ .unclosedQuote) :
    lexAllF (fuel + 1) sk src pos = (t, tp) :: lexAllF fuel (t == .newl) r rp := by
  rw [lexAllF, h]
  cases t <;> simp_all

theorem gapKind_newline {b : Bytes} (h : gapKind b = some .newline) : b = [10] := by
  unfold gapKind at h
  split at h
  · assumption
  · split at h
    · cases h
    · split at h <;> cases h

theorem gapKind_bsnl {b : Bytes} (h : gapKind b = some .bsnl) : b = [92, 10] := by
  unfold gapKind at h
  split at h
  · cases h
  · split at h
    · assumption
    · split at h <;> cases h

theorem gapKind_blanks {b : Bytes} (h : gapKind b = some .blanks) :
    b ≠ [] ∧ (b.all (· == 32) = true ∨ b.all (· == 9) = true) := by
  unfold gapKind at h
  split at h
  · cases h
  · split at h
    · cases h
    · split at h
      · assumption
      · cases h

/-- Lexing the rendering of a piece list that satisfies `lexChain` gives exactly the expected
    tokens (positions aside), ending in `eof`. -/
theorem lexAllF_pieces (ps : List Piece) : lexChain ps = true → ∀ (sk : Bool) (pos : Pos) (fuel : Nat),
    fuel ≥ (render ps).length + 1 → toksMatch (expect sk ps) (lexAllF fuel sk (render ps) pos) := by
  induction ps with
  | nil =>
    intro _ sk pos fuel hf
    cases fuel with
    | zero => simp [render] at hf
    | succ n =>
      rw [lexAllF]
      simp [render, nextTok_eof, expect, toksMatch, tokMatch]
  | cons pc rest ih =>
    intro hc sk pos fuel hf
    simp only [lexChain, Bool.and_eq_true] at hc
    obtain ⟨⟨hshape, hfollow⟩, hrest⟩ := hc
    have hren : render (pc :: rest) = pc.bytes ++ render rest := by simp [render]
    rw [hren] at hf ⊢
    cases pc with
    | word parts =>
      simp only [Piece.shapeOK, Bool.and_eq_true, Bool.not_eq_true', List.isEmpty_eq_false_iff, List.all_eq_true] at hshape
      obtain ⟨hne, hwf⟩ := hshape
      have hk := eofOrDelim_of_head (by simpa [followOK] using hfollow)
      obtain ⟨res, stop, hnt, hm⟩ := nextTok_word sk parts hne hwf (render rest) hk pos
      obtain ⟨b, t, hbt, _⟩ := wordBytes_head parts hne hwf
      cases fuel with
      | zero => simp at hf
      | succ n =>
        simp only [Piece.bytes]
        rw [lexAllF_step_tok n sk _ pos _ _ _ _ hnt (by simp) (by simp) (by simp)]
        simp only [expect, toksMatch]
        refine ⟨⟨⟨res⟩, litWord? res, rfl, hm, ?_⟩, ?_⟩
        · intro v hv
          rw [← hm]
          exact litWord?_some hv
        · have : (Tok.word ⟨res⟩ (litWord? res) == Tok.newl) = false := by simp
          rw [this]
          apply ih hrest
          simp only [Piece.bytes, hbt, List.length_append, List.length_cons] at hf
          omega
    | op b =>
      simp only [Piece.bytes]
      simp only [Piece.shapeOK] at hshape
      cases fuel with
      | zero => simp at hf
      | succ n =>
        have hfu : n ≥ (render rest).length + 1 := by
          have : b ≠ [] := by
            intro hb; subst hb; simp [opTok] at hshape
          have : b.length ≥ 1 := by
            cases b with
            | nil => exact absurd rfl this
            | cons _ _ => simp
          simp only [Piece.bytes, List.length_append] at hf
          omega
        rw [expect]
        by_cases h1 : b = [59]
        · subst h1
          have hfo : semiFollowOK (render rest) = true := by
            simp only [followOK, ↓reduceIte] at hfollow
            cases hr : render rest with
            | nil => rfl
            | cons c t => rw [hr] at hfollow; simp [optAll] at hfollow; simp only [semiFollowOK]; split <;> simp_all
          rw [List.singleton_append, lexAllF_step_tok n sk _ pos _ _ _ _ (nextTok_semi sk _ pos hfo) (by simp) (by simp) (by simp),
            show opTok [59] = some ATok.semi from by decide]
          exact ⟨rfl, ih hrest false _ n hfu⟩
        by_cases h2 : b = [38]
        · subst h2
          have hfo : ampFollowOK (render rest) = true := by
            simp only [followOK] at hfollow
            cases hr : render rest with
            | nil => rfl
            | cons c t => rw [hr] at hfollow; simp [optAll] at hfollow; simp only [ampFollowOK]; split <;> simp_all
          rw [List.singleton_append, lexAllF_step_tok n sk _ pos _ _ _ _ (nextTok_amp sk _ pos hfo) (by simp) (by simp) (by simp),
            show opTok [38] = some ATok.amp from by decide]
          exact ⟨rfl, ih hrest false _ n hfu⟩
        by_cases h3 : b = [38, 38]
        · subst h3
          rw [show ([38, 38] : Bytes) ++ render rest = 38 :: 38 :: render rest from rfl,
            lexAllF_step_tok n sk _ pos _ _ _ _ (nextTok_andAnd sk _ pos) (by simp) (by simp) (by simp),
            show opTok [38, 38] = some ATok.andAnd from by decide]
          exact ⟨rfl, ih hrest false _ n hfu⟩
        by_cases h4 : b = [124, 124]
        · subst h4
          rw [show ([124, 124] : Bytes) ++ render rest = 124 :: 124 :: render rest from rfl,
            lexAllF_step_tok n sk _ pos _ _ _ _ (nextTok_orOr sk _ pos) (by simp) (by simp) (by simp),
            show opTok [124, 124] = some ATok.orOr from by decide]
          exact ⟨rfl, ih hrest false _ n hfu⟩
        by_cases h5 : b = [124]
        · subst h5
          have hfo : pipeFollowOK (render rest) = true := by
            simp only [followOK] at hfollow
            cases hr : render rest with
            | nil => rfl
            | cons c t => rw [hr] at hfollow; simp [optAll] at hfollow; simp only [pipeFollowOK]; split <;> simp_all
          rw [List.singleton_append, lexAllF_step_tok n sk _ pos _ _ _ _ (nextTok_pipe sk _ pos hfo) (by simp) (by simp) (by simp),
            show opTok [124] = some ATok.pipe from by decide]
          exact ⟨rfl, ih hrest false _ n hfu⟩
        by_cases h6 : b = [40]
        · subst h6
          have hfo : lparenFollowOK (render rest) = true := by
            simp only [followOK] at hfollow
            cases hr : render rest with
            | nil => rfl
            | cons c t => rw [hr] at hfollow; simp [optAll] at hfollow; simp only [lparenFollowOK]; split <;> simp_all
          rw [List.singleton_append, lexAllF_step_tok n sk _ pos _ _ _ _ (nextTok_lparen sk _ pos hfo) (by simp) (by simp) (by simp),
            show opTok [40] = some ATok.lparen from by decide]
          exact ⟨rfl, ih hrest false _ n hfu⟩
        by_cases h7 : b = [41]
        · subst h7
          rw [List.singleton_append, lexAllF_step_tok n sk _ pos _ _ _ _ (nextTok_rparen sk _ pos) (by simp) (by simp) (by simp),
            show opTok [41] = some ATok.rparen from by decide]
          exact ⟨rfl, ih hrest false _ n hfu⟩
        have hk : b = [123] ∨ b = [125] ∨ b = [33] → eofOrDelim (render rest) = true := by
          intro hb
          apply eofOrDelim_of_head
          simp only [followOK, h1, h2, h5, h6, ↓reduceIte, hb] at hfollow
          exact hfollow
        by_cases h8 : b = [123]
        · subst h8
          rw [List.singleton_append, lexAllF_step_tok n sk _ pos _ _ _ _ (nextTok_rsrv sk 123 (Or.inl rfl) _ pos (hk (Or.inl rfl))) (by simp) (by simp) (by simp),
            show opTok [123] = some ATok.lbrace from by decide]
          exact ⟨⟨_, rfl⟩, ih hrest false _ n hfu⟩
        by_cases h9 : b = [125]
        · subst h9
          rw [List.singleton_append, lexAllF_step_tok n sk _ pos _ _ _ _ (nextTok_rsrv sk 125 (Or.inr (Or.inl rfl)) _ pos (hk (Or.inr (Or.inl rfl)))) (by simp) (by simp) (by simp),
            show opTok [125] = some ATok.rbrace from by decide]
          exact ⟨⟨_, rfl⟩, ih hrest false _ n hfu⟩
        by_cases h10 : b = [33]
        · subst h10
          rw [List.singleton_append, lexAllF_step_tok n sk _ pos _ _ _ _ (nextTok_rsrv sk 33 (Or.inr (Or.inr rfl)) _ pos (hk (Or.inr (Or.inr rfl)))) (by simp) (by simp) (by simp),
            show opTok [33] = some ATok.bang from by decide]
          exact ⟨⟨_, rfl⟩, ih hrest false _ n hfu⟩
        simp [opTok, h1, h2, h3, h4, h5, h6, h7, h8, h9, h10] at hshape
    | gap b =>
      simp only [Piece.bytes] at hf ⊢
      simp only [Piece.shapeOK] at hshape
      cases hgk : gapKind b with
      | none => simp [hgk] at hshape
      | some k =>
        cases k with
        | newline =>
          have hb := gapKind_newline hgk
          subst hb
          cases sk with
          | true =>
            rw [expect, hgk]
            simp only [↓reduceIte]
            rw [List.singleton_append, lexAllF_of_skip fuel (skipSpace_nl_skip _ pos)]
            apply ih hrest
            simp only [List.length_append, List.length_cons, List.length_nil] at hf
            omega
          | false =>
            cases fuel with
            | zero => simp at hf
            | succ n =>
              rw [expect, hgk]
              rw [List.singleton_append, lexAllF_step_tok n false _ pos _ _ _ _ (nextTok_newl _ pos) (by simp) (by simp) (by simp)]
              refine ⟨rfl, ?_⟩
              apply ih hrest
              simp only [List.length_append, List.length_cons, List.length_nil] at hf
              omega
        | bsnl =>
          have hb := gapKind_bsnl hgk
          subst hb
          rw [expect, hgk]
          rw [show ([92, 10] : Bytes) ++ render rest = 92 :: 10 :: render rest from rfl,
            lexAllF_of_skip fuel (skipSpace_bsnl sk _ pos)]
          apply ih hrest
          simp only [List.length_append, List.length_cons, List.length_nil] at hf
          omega
        | blanks =>
          obtain ⟨_, hall⟩ := gapKind_blanks hgk
          rw [expect, hgk]
          have hlen : fuel ≥ (render rest).length + 1 := by
            simp only [List.length_append] at hf
            omega
          rcases hall with hall | hall
          · rw [all_eq_replicate b 32 hall]
            obtain ⟨p', hp'⟩ := skipSpace_spaces sk b.length (render rest) pos
            rw [lexAllF_of_skip fuel hp']
            exact ih hrest sk p' fuel hlen
          · rw [all_eq_replicate b 9 hall]
            obtain ⟨p', hp'⟩ := skipSpace_tabs sk b.length (render rest) pos
            rw [lexAllF_of_skip fuel hp']
            exact ih hrest sk p' fuel hlen


/-! ## Token positions are valid (lines only grow, starting at 1) -/

theorem Pos.adv_line (p : Pos) (b : UInt8) : (p.adv b).line ≥ p.line := by
  unfold Pos.adv; split <;> simp

theorem skipSpace_line (sk : Bool) : ∀ (n : Nat) (src : Bytes) (p : Pos), src.length ≤ n →
    (skipSpace sk src p).2.line ≥ p.line := by
  intro n
  induction n with
  | zero =>
    intro src p h
    have : src = [] := List.eq_nil_of_length_eq_zero (by omega)
    subst this
    rw [skipSpace_nil]
    exact Nat.le_refl _
  | succ n ih =>
    intro src p h
    cases src with
    | nil => rw [skipSpace_nil]; exact Nat.le_refl _
    | cons b rest =>
      rw [skipSpace.eq_def]
      simp only
      split
      · have := ih rest (p.adv b) (by simp at h; omega)
        exact Nat.le_trans (Pos.adv_line p b) this
      · split
        · have := ih rest (p.adv b) (by simp at h; omega)
          exact Nat.le_trans (Pos.adv_line p b) this
        · split
          · split
            · rename_i rest' 
              have := ih rest' ⟨p.offs + 2, p.line + 1, 1⟩ (by simp at h; omega)
              simp only at this
              omega
            · exact Nat.le_refl _
          · exact Nat.le_refl _

theorem lexWord_line : ∀ (src : Bytes) (pos : Pos) (mode : LexMode) (acc : List WordPart) (res : List WordPart)
    (stop : Pos) (r : Bytes), lexWord src pos mode acc = .done res stop r → stop.line ≥ pos.line := by
  intro src
  induction src with
  | nil =>
    intro pos mode acc res stop r h
    cases mode <;> rw [lexWord] at h <;> first | (cases h; exact Nat.le_refl _) | cases h
  | cons b rest ih =>
    intro pos mode acc res stop r h
    cases mode with
    | idle =>
      rw [lexWord] at h
      split at h
      · exact Nat.le_trans (Pos.adv_line pos b) (ih _ _ _ _ _ _ h)
      · split at h
        · exact Nat.le_trans (Pos.adv_line pos b) (ih _ _ _ _ _ _ h)
        · split at h
          · cases h; exact Nat.le_refl _
          · cases h
    | lit st a =>
      rw [lexWord] at h
      split at h
      · exact Nat.le_trans (Pos.adv_line pos b) (ih _ _ _ _ _ _ h)
      · split at h
        · exact Nat.le_trans (Pos.adv_line pos b) (ih _ _ _ _ _ _ h)
        · split at h
          · cases h; exact Nat.le_refl _
          · cases h
    | sgl l a =>
      rw [lexWord] at h
      split at h
      · exact Nat.le_trans (Pos.adv_line pos b) (ih _ _ _ _ _ _ h)
      · split at h
        · exact Nat.le_trans (Pos.adv_line pos b) (ih _ _ _ _ _ _ h)
        · cases h


theorem nextTok_line (sk : Bool) (src : Bytes) (spos : Pos) :
    (nextTok sk src spos).pos.line ≥ spos.line ∧ (nextTok sk src spos).rpos.line ≥ spos.line := by
  have hs := skipSpace_line sk src.length src spos (Nat.le_refl _)
  unfold nextTok
  cases hsk : skipSpace sk src spos with
  | mk r p =>
    rw [hsk] at hs
    simp only at hs
    cases r with
    | nil => exact ⟨hs, hs⟩
    | cons b rest =>
      have h1 : (p.adv b).line ≥ spos.line := Nat.le_trans hs (Pos.adv_line p b)
      have h2 : ((p.adv b).adv b).line ≥ spos.line := Nat.le_trans h1 (Pos.adv_line _ b)
      simp only
      repeat' split
      all_goals first
        | exact ⟨hs, h1⟩
        | exact ⟨hs, h2⟩
        | (rename_i hl; exact ⟨hs, Nat.le_trans hs (lexWord_line _ _ _ _ _ _ _ hl)⟩)

theorem lexAllF_line : ∀ (fuel : Nat) (sk : Bool) (src : Bytes) (spos : Pos), ∀ tp ∈ lexAllF fuel sk src spos,
    tp.2.line ≥ spos.line := by
  intro fuel
  induction fuel with
  | zero => intro sk src spos tp h; simp [lexAllF] at h
  | succ n ih =>
    intro sk src spos tp h
    obtain ⟨h1, h2⟩ := nextTok_line sk src spos
    rw [lexAllF] at h
    split at h
    · simp only [List.mem_singleton] at h; subst h; exact h1
    · simp only [List.mem_singleton] at h; subst h; exact h1
    · simp only [List.mem_singleton] at h; subst h; exact h1
    · simp only [List.mem_cons] at h
      rcases h with h | h
      · subst h; exact h1
      · exact Nat.le_trans h2 (ih _ _ _ tp h)

theorem lexAll_line (src : Bytes) : ∀ tp ∈ lexAll src, tp.2.valid = true := by
  intro tp h
  have := lexAllF_line _ _ _ _ tp h
  simp only at this
  unfold Pos.valid
  have : tp.2.line ≠ 0 := by omega
  simp [this]

/-- Lexing the rendering of a piece list that satisfies `lexChain` (from the start of a file) -/
theorem lexAll_pieces (ps : List Piece) (h : lexChain ps = true) :
    toksMatch (expect false ps) (lexAll (render ps)) :=
  lexAllF_pieces ps h false _ _ (Nat.le_refl _)

end ShVerif.L4
