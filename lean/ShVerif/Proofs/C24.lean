import ShVerif.Model.C24
/-
  C24 — helper lemmas for Props/C24.lean.
-/
namespace ShVerif.C24

/-! ## unfolding lemmas for `go` -/

theorem go_nil (n : Option (Bytes → Res)) (k : Nat) (st : St) :
    go n [] k st = if st.fmts.length > 0 then .err [] .missingChar else .ok [] st.args.length := by
  cases k <;> rfl

theorem go_skip (n : Option (Bytes → Res)) (c : UInt8) (rest : Bytes) (k : Nat) (st : St) :
    go n (c :: rest) (k + 1) st = go n rest k st := rfl

theorem go_zero (n : Option (Bytes → Res)) (c : UInt8) (rest : Bytes) (st : St) :
    go n (c :: rest) 0 st =
      match step n c rest st with
      | .cont o st' k => (go n rest k st').prepend o
      | .stop r => r := rfl

/-! ## safety: no Go panic, nothing outside the modelled fragment of fmt -/

def Res.good : Res → Prop
  | .ok _ _ => True
  | .err _ _ => True
  | _ => False

theorem Res.good_prepend {o : Bytes} {r : Res} (h : r.good) : (r.prepend o).good := by
  cases r <;> simp_all [Res.prepend, Res.good]

theorem countDigits_le (hex : Bool) : ∀ (max : Nat) (s : Bytes), countDigits hex max s ≤ s.length
  | 0, s => by simp [countDigits]
  | _ + 1, [] => by simp [countDigits]
  | max + 1, c :: rest => by
    simp only [countDigits]
    split
    · have := countDigits_le hex max rest
      simp only [List.length_cons]; omega
    · omega

theorem readDigits_some (max : Nat) (hex : Bool) (s : Bytes) :
    readDigits max hex s = some (s.take (countDigits hex max s), countDigits hex max s) := by
  have h := countDigits_le hex max s
  simp [readDigits, slice?, h]

theorem countDigits_pos_of_octal (c : UInt8) (after : Bytes) (h : 48 ≤ c ∧ c ≤ 55) :
    countDigits false 3 (c :: after) ≠ 0 := by
  have h1 : isDigitChar false c = true := by
    have : c ≤ 57 := Nat.le_trans h.2 (by decide)
    simp [isDigitChar, h.1, this]
  simp [countDigits, h1]

theorem escape_isSome (rest : Bytes) : (escape rest).isSome = true := by
  unfold escape
  cases rest with
  | nil => rfl
  | cons c after =>
    simp only [readDigits_some]
    have hj := countDigits_pos_of_octal c after
    simp only [apply_ite Option.isSome, Option.isSome_some, Option.isSome_none]
    by_cases h : 48 ≤ c ∧ c ≤ 55
    · simp only [h, hj h, if_false, ite_self]
    · simp only [h, if_false, ite_self]
