import ShVerif.Model.C24
/-
  C24 — helper lemmas for Props/C24.lean.
-/
namespace ShVerif.C24

/-! ## unfolding lemmas for `go` -/

theorem go_nil (n : Option (Bytes → Res)) (k : Nat) (st : St) :
    go n [] k st = if st.fmts.length > 0 then .err [] .missingChar else .ok [] st.args.length := by
  cases k <;> rfl

theorem go_skip (n : Option (Bytes → Res)) (c : UInt8) (rest : Bytes) (k : Nat) (st : St) :
    go n (c :: rest) (k + 1) st = go n rest k st := rfl

theorem go_zero (n : Option (Bytes → Res)) (c : UInt8) (rest : Bytes) (st : St) :
    go n (c :: rest) 0 st =
      match step n c rest st with
      | .cont o st' k => (go n rest k st').prepend o
      | .stop r => r := rfl

/-! ## safety: no Go panic, nothing outside the modelled fragment of fmt -/

def Res.good : Res → Prop
  | .ok _ _ => True
  | .err _ _ => True
  | _ => False

theorem Res.good_prepend {o : Bytes} {r : Res} (h : r.good) : (r.prepend o).good := by
  cases r <;> simp_all [Res.prepend, Res.good]

theorem countDigits_le (hex : Bool) : ∀ (max : Nat) (s : Bytes), countDigits hex max s ≤ s.length
  | 0, s => by simp [countDigits]
  | _ + 1, [] => by simp [countDigits]
  | max + 1, c :: rest => by
    simp only [countDigits]
    split
    · have := countDigits_le hex max rest
      simp only [List.length_cons]; omega
    · omega

theorem readDigits_some (max : Nat) (hex : Bool) (s : Bytes) :
    readDigits max hex s = some (s.take (countDigits hex max s), countDigits hex max s) := by
  have h := countDigits_le hex max s
  simp [readDigits, slice?, h]

theorem countDigits_pos_of_octal (c : UInt8) (after : Bytes) (h : 48 ≤ c ∧ c ≤ 55) :
    countDigits false 3 (c :: after) ≠ 0 := by
  have h1 : isDigitChar false c = true := by
    have : c ≤ 57 := Nat.le_trans h.2 (by decide)
    simp [isDigitChar, h.1, this]
  simp [countDigits, h1]

theorem escape_isSome (rest : Bytes) : (escape rest).isSome = true := by
  unfold escape
  cases rest with
  | nil => rfl
  | cons c after =>
    simp only [readDigits_some]
    have hj := countDigits_pos_of_octal c after
    simp only [apply_ite Option.isSome, Option.isSome_some, Option.isSome_none]
    by_cases h : 48 ≤ c ∧ c ≤ 55
    · simp only [h, hj h, if_false, ite_self]
    · simp only [h, if_false, ite_self]

theorem escape_eq (rest : Bytes) : ∃ o k, escape rest = some (o, k) := by
  have h := escape_isSome rest
  cases he : escape rest with
  | none => simp [he] at h
  | some p => exact ⟨p.1, p.2, rfl⟩

theorem popArg_nil : popArg [] = some ([], []) := rfl

theorem popArg_cons (a : Bytes) (as : List Bytes) : popArg (a :: as) = some (a, as) := by
  simp [popArg, idx?, slice?]

/-! ### the fragment of fmt that is reached -/

/-- Shape of `fmts` between iterations: empty, or `%`, at most one of `+ - space`, digits. -/
def FmtsOK (fmts : Bytes) : Prop :=
  fmts = [] ∨ ∃ fl ds, fmts = 37 :: (fl ++ ds) ∧ (fl = [] ∨ fl = [43] ∨ fl = [45] ∨ fl = [32]) ∧
    ∀ d ∈ ds, isDec d = true

/-- The verb/argument pairs formatInto passes to Fprintf. -/
def VerbOK (v : UInt8) : FArg → Prop
  | .int _ => v = 100
  | .uint _ => v = 100 ∨ v = 111 ∨ v = 120
  | .str _ => v = 115

theorem printArg_v_isSome (fl : Flags) (w : Option Nat) (arg : FArg) :
    (printArg fl w arg 118).isSome = true := by
  cases arg <;> simp [printArg]

theorem noVerbExtra_isSome (arg : FArg) : (noVerbExtra arg).isSome = true := by
  unfold noVerbExtra
  have h := printArg_v_isSome {} none arg
  cases hp : printArg {} none arg 118 with
  | none => simp [hp] at h
  | some v => rfl

theorem printArg_isSome (fl : Flags) (w : Option Nat) (arg : FArg) (v : UInt8) (h : VerbOK v arg) :
    (printArg fl w arg v).isSome = true := by
  cases arg with
  | int x => simp only [VerbOK] at h; subst h; simp [printArg]
  | uint x =>
    simp only [VerbOK] at h
    rcases h with h | h | h <;> subst h <;> simp [printArg]
  | str x => simp only [VerbOK] at h; subst h; simp [printArg]

theorem isDec_iff (c : UInt8) : isDec c = true ↔ 48 ≤ c ∧ c ≤ 57 := by
  simp [isDec]

/-- The flag loop over digits followed by a verb letter stops at the first non-zero digit or at
    the verb. -/
theorem parseFlags_digits (v : UInt8) (hv : v ≠ 48 ∧ v ≠ 43 ∧ v ≠ 45 ∧ v ≠ 32) :
    ∀ (ds : Bytes) (fl : Flags), (∀ d ∈ ds, isDec d = true) →
      ∃ fl' ds', parseFlags fl (ds ++ [v]) = (fl', ds' ++ [v]) ∧ (∀ d ∈ ds', isDec d = true) ∧
        (∀ c rest, ds' = c :: rest → c ≠ 48)
  | [], fl, _ => by
    refine ⟨fl, [], ?_, by simp, by simp⟩
    simp [parseFlags, hv.1, hv.2.1, hv.2.2.1, hv.2.2.2]
  | d :: ds, fl, hds => by
    have hd : isDec d = true := hds d (List.mem_cons_self ..)
    have hds' : ∀ x ∈ ds, isDec x = true := fun x hx => hds x (List.mem_cons_of_mem _ hx)
    rw [isDec_iff] at hd
    by_cases h0 : d = 48
    · subst h0
      obtain ⟨fl', ds', h1, h2, h3⟩ := parseFlags_digits v hv ds { fl with zero := true } hds'
      exact ⟨fl', ds', by simpa [parseFlags] using h1, h2, h3⟩
    · refine ⟨fl, d :: ds, ?_, hds, ?_⟩
      · have h43 : d ≠ 43 := by intro h; subst h; exact absurd hd.1 (by decide)
        have h45 : d ≠ 45 := by intro h; subst h; exact absurd hd.1 (by decide)
        have h32 : d ≠ 32 := by intro h; subst h; exact absurd hd.1 (by decide)
        simp [parseFlags, h0, h43, h45, h32]
      · intro c rest h; cases h; exact h0

theorem parsenum_digits (v : UInt8) (hv : ¬ (48 ≤ v ∧ v ≤ 57)) :
    ∀ (ds : Bytes) (num : Nat) (b : Bool), (∀ d ∈ ds, isDec d = true) →
      parsenum (ds ++ [v]) num b = none ∨ ∃ n b', parsenum (ds ++ [v]) num b = some (n, b', [v])
  | [], num, b, _ => by
    right; exact ⟨num, b, by simp [parsenum, hv]⟩
  | d :: ds, num, b, hds => by
    have hd : isDec d = true := hds d (List.mem_cons_self ..)
    have hds' : ∀ x ∈ ds, isDec x = true := fun x hx => hds x (List.mem_cons_of_mem _ hx)
    rw [isDec_iff] at hd
    simp only [List.cons_append, parsenum, hd, and_self, if_true]
    split
    · left; rfl
    · exact parsenum_digits v hv ds _ true hds'

theorem goFprintf_isSome (fmts : Bytes) (v : UInt8) (arg : FArg) (hne : fmts ≠ []) (hf : FmtsOK fmts)
    (hv : VerbOK v arg) : (goFprintf (fmts ++ [v]) arg).isSome = true := by
  rcases hf with hf | ⟨fl, ds, hf, hfl, hds⟩
  · exact absurd hf hne
  subst hf
  -- facts about the verb
  have hvv : v = 100 ∨ v = 111 ∨ v = 120 ∨ v = 115 := by
    cases arg with
    | int x => exact Or.inl hv
    | uint x => rcases hv with h | h | h
                · exact Or.inl h
                · exact Or.inr (Or.inl h)
                · exact Or.inr (Or.inr (Or.inl h))
    | str x => exact Or.inr (Or.inr (Or.inr hv))
  have hvflag : v ≠ 48 ∧ v ≠ 43 ∧ v ≠ 45 ∧ v ≠ 32 := by
    rcases hvv with h | h | h | h <;> subst h <;> decide
  have hvlow : 97 ≤ v ∧ v ≤ 122 := by
    rcases hvv with h | h | h | h <;> subst h <;> decide
  have hvnd : ¬ (48 ≤ v ∧ v ≤ 57) := by
    rcases hvv with h | h | h | h <;> subst h <;> decide
  have hvok : ¬ (v = 46 ∨ v = 42 ∨ v = 91 ∨ v = 37 ∨ v ≥ 128 ∨ ¬ True) := by
    rcases hvv with h | h | h | h <;> subst h <;> decide
  -- the flag loop
  have key : ∀ fl0 : Flags, ∃ fl' ds', parseFlags fl0 (ds ++ [v]) = (fl', ds' ++ [v]) ∧
      (∀ d ∈ ds', isDec d = true) ∧ (∀ c rest, ds' = c :: rest → c ≠ 48) :=
    fun fl0 => parseFlags_digits v hvflag ds fl0 hds
  have key2 : ∃ fl' ds', parseFlags {} (fl ++ ds ++ [v]) = (fl', ds' ++ [v]) ∧
      (∀ d ∈ ds', isDec d = true) ∧ (∀ c rest, ds' = c :: rest → c ≠ 48) := by
    rcases hfl with h | h | h | h <;> subst h
    · simpa using key {}
    · simpa [parseFlags] using key { plus := true }
    · simpa [parseFlags] using key { minus := true }
    · simpa [parseFlags] using key { space := true }
  obtain ⟨fl', ds', hpf, hds', _⟩ := key2
  have hshape : (37 :: (fl ++ ds) ++ [v]) = 37 :: (fl ++ ds ++ [v]) := by simp
  rw [hshape]
  unfold goFprintf
  simp only [ne_eq, not_true_eq_false, if_false, hpf]
  cases ds' with
  | nil =>
    simp only [List.nil_append, hvlow, and_self, if_true]
    exact printArg_isSome _ _ _ _ hv
  | cons d ds'' =>
    have hd : isDec d = true := hds' d (List.mem_cons_self ..)
    rw [isDec_iff] at hd
    have hdlow : ¬ (97 ≤ d ∧ d ≤ 122) := by
      intro h; exact absurd (Nat.le_trans h.1 hd.2) (by decide)
    simp only [List.cons_append, hdlow, if_false]
    have hp := parsenum_digits v hvnd (d :: ds'') 0 false hds'
    simp only [List.cons_append] at hp
    rcases hp with hp | ⟨n, b', hp⟩
    · simp only [hp]; exact noVerbExtra_isSome arg
    · simp only [hp, not_true_eq_false] at hvok ⊢
      rw [if_neg hvok]
      exact printArg_isSome _ _ _ _ hv

/-- Invariant of the formatInto loop. -/
def Inv (nested : Option (Bytes → Res)) (fmts : Bytes) : Prop :=
  match nested with
  | none => fmts = []
  | some f => FmtsOK fmts ∧ ∀ a, (f a).good

def Step.good (nested : Option (Bytes → Res)) : Step → Prop
  | .cont _ st' _ => Inv nested st'.fmts
  | .stop r => r.good

theorem FmtsOK_nil : FmtsOK [] := Or.inl rfl

theorem FmtsOK_pct : FmtsOK [37] := Or.inr ⟨[], [], rfl, Or.inl rfl, by simp⟩

theorem FmtsOK_flag (fmts : Bytes) (c : UInt8) (hc : c = 43 ∨ c = 45 ∨ c = 32) (h : FmtsOK fmts)
    (hne : fmts.length > 0) (hlen : ¬ fmts.length > 1) : FmtsOK (fmts ++ [c]) := by
  rcases h with h | ⟨fl, ds, h, _, _⟩
  · subst h; simp at hne
  · subst h
    have : fl = [] ∧ ds = [] := by
      simp only [List.length_cons, List.length_append] at hlen
      constructor
      · cases fl with
        | nil => rfl
        | cons _ _ => simp only [List.length_cons] at hlen; omega
      · cases ds with
        | nil => rfl
        | cons _ _ => simp only [List.length_cons] at hlen; omega
    obtain ⟨rfl, rfl⟩ := this
    refine Or.inr ⟨[c], [], by simp, ?_, by simp⟩
    rcases hc with h | h | h <;> subst h <;> simp

theorem FmtsOK_digit (fmts : Bytes) (c : UInt8) (hc : 48 ≤ c ∧ c ≤ 57) (h : FmtsOK fmts)
    (hne : fmts.length > 0) : FmtsOK (fmts ++ [c]) := by
  rcases h with h | ⟨fl, ds, h, hfl, hds⟩
  · subst h; simp at hne
  · subst h
    refine Or.inr ⟨fl, ds ++ [c], by simp, hfl, ?_⟩
    intro d hd
    rcases List.mem_append.1 hd with hd | hd
    · exact hds d hd
    · simp only [List.mem_singleton] at hd; subst hd; rw [isDec_iff]; exact hc

theorem step_good_none (c : UInt8) (rest : Bytes) (st : St) (h : st.fmts = []) :
    (step none c rest st).good none := by
  unfold step
  obtain ⟨o, k, he⟩ := escape_eq rest
  by_cases h92 : c = 92
  · simp [h92, he, Step.good, Inv, h]
  · simp [h92, h, Step.good, Inv]

theorem step_good_some (f : Bytes → Res) (c : UInt8) (rest : Bytes) (st : St)
    (hf : ∀ a, (f a).good) (h : FmtsOK st.fmts) : (step (some f) c rest st).good (some f) := by
  unfold step
  obtain ⟨o, k, he⟩ := escape_eq rest
  by_cases h92 : c = 92
  · simp only [h92, he, if_true, Step.good, Inv]; exact ⟨h, hf⟩
  simp only [h92, if_false]
  by_cases hlen : st.fmts.length > 0
  · simp only [hlen, if_true]
    by_cases h37 : c = 37
    · simp only [h37, if_true, Step.good, Inv]; exact ⟨FmtsOK_nil, hf⟩
    simp only [h37, if_false]
    by_cases h99 : c = 99
    · simp only [h99, if_true]
      cases hargs : st.args with
      | nil => simp only [List.length_nil, Nat.lt_irrefl, gt_iff_lt, if_false, Step.good, Inv]; exact ⟨FmtsOK_nil, hf⟩
      | cons a as =>
        simp only [List.length_cons, gt_iff_lt, Nat.zero_lt_succ, if_true, popArg_cons]
        cases a with
        | nil => simp only [List.length_nil, Nat.lt_irrefl, if_false, Step.good, Inv]; exact ⟨FmtsOK_nil, hf⟩
        | cons b bs =>
          simp only [List.length_cons, Nat.zero_lt_succ, if_true, idx?, List.getElem?_cons_zero, Step.good, Inv]
          exact ⟨FmtsOK_nil, hf⟩
    simp only [h99, if_false]
    by_cases hflag : c = 43 ∨ c = 45 ∨ c = 32
    · simp only [hflag, if_true]
      by_cases hl1 : st.fmts.length > 1
      · simp only [hl1, if_true, Step.good, Res.good]
      · simp only [hl1, if_false, Step.good, Inv]
        exact ⟨FmtsOK_flag _ _ hflag h hlen hl1, hf⟩
    simp only [hflag, if_false]
    by_cases hdig : 48 ≤ c ∧ c ≤ 57
    · simp only [hdig, and_self, if_true, Step.good, Inv]
      exact ⟨FmtsOK_digit _ _ hdig h hlen, hf⟩
    simp only [hdig, if_false]
    by_cases hverb : c = 115 ∨ c = 98 ∨ isNumVerb c = true
    · simp only [hverb, if_true]
      have hpop : ∃ arg args', popArg st.args = some (arg, args') := by
        cases st.args with
        | nil => exact ⟨_, _, popArg_nil⟩
        | cons a as => exact ⟨_, _, popArg_cons a as⟩
      obtain ⟨arg, args', hpop⟩ := hpop
      simp only [hpop]
      by_cases h98 : c = 98
      · simp only [h98, if_true]
        have := hf arg
        cases hfa : f arg with
        | ok o n => simp only [Step.good, Inv]; exact ⟨FmtsOK_nil, hf⟩
        | err o e => simp only [Step.good, Res.good]
        | panic => rw [hfa] at this; exact this.elim
        | unmodelled => rw [hfa] at this; exact this.elim
      · simp only [h98, if_false]
        have hne : st.fmts ≠ [] := by intro h0; rw [h0] at hlen; simp at hlen
        have hvok : VerbOK (if c = 105 ∨ c = 117 then 100 else c)
            (if c = 115 then FArg.str arg else if c = 105 ∨ c = 100 then FArg.int (parseInt arg).1
              else FArg.uint (toU64 (parseInt arg).1)) := by
          have hc : c = 115 ∨ c = 100 ∨ c = 105 ∨ c = 117 ∨ c = 111 ∨ c = 120 := by
            rcases hverb with h | h | h
            · exact Or.inl h
            · exact absurd h h98
            · simp only [isNumVerb, Bool.or_eq_true, decide_eq_true_eq] at h
              rcases h with (((h | h) | h) | h) | h
              · exact Or.inr (Or.inl h)
              · exact Or.inr (Or.inr (Or.inl h))
              · exact Or.inr (Or.inr (Or.inr (Or.inl h)))
              · exact Or.inr (Or.inr (Or.inr (Or.inr (Or.inl h))))
              · exact Or.inr (Or.inr (Or.inr (Or.inr (Or.inr h))))
          rcases hc with h | h | h | h | h | h <;> subst h <;> simp [VerbOK]
        have hsome := goFprintf_isSome st.fmts _ _ hne h hvok
        cases hg : goFprintf (st.fmts ++ [if c = 105 ∨ c = 117 then 100 else c])
            (if c = 115 then FArg.str arg else if c = 105 ∨ c = 100 then FArg.int (parseInt arg).1
              else FArg.uint (toU64 (parseInt arg).1)) with
        | none => rw [hg] at hsome; simp at hsome
        | some o => simp only [Step.good, Inv]; exact ⟨FmtsOK_nil, hf⟩
    · simp only [hverb, if_false, Step.good, Res.good]
  · simp only [hlen, if_false, Option.isSome_some, true_and]
    by_cases h37 : c = 37
    · simp only [h37, if_true, Step.good, Inv]; exact ⟨FmtsOK_pct, hf⟩
    · simp only [h37, if_false, Step.good, Inv]; exact ⟨h, hf⟩

theorem step_good (nested : Option (Bytes → Res)) (c : UInt8) (rest : Bytes) (st : St)
    (h : Inv nested st.fmts) : (step nested c rest st).good nested := by
  cases nested with
  | none => exact step_good_none c rest st h
  | some f => exact step_good_some f c rest st h.2 h.1

theorem go_good (nested : Option (Bytes → Res)) :
    ∀ (f : Bytes) (k : Nat) (st : St), Inv nested st.fmts → (go nested f k st).good
  | [], k, st, _ => by
    rw [go_nil]; split <;> trivial
  | c :: rest, k + 1, st, h => by
    rw [go_skip]; exact go_good nested rest k st h
  | c :: rest, 0, st, h => by
    rw [go_zero]
    have hs := step_good nested c rest st h
    cases hstep : step nested c rest st with
    | cont o st' k =>
      rw [hstep] at hs
      exact Res.good_prepend (go_good nested rest k st' hs)
    | stop r => rw [hstep] at hs; exact hs

theorem formatNil_good (f : Bytes) : (formatNil f).good := go_good none f 0 _ rfl

theorem formatArgs_good (f : Bytes) (args : List Bytes) : (formatArgs f args).good :=
  go_good (some formatNil) f 0 _ ⟨FmtsOK_nil, formatNil_good⟩

/-! ## the hook view and the builtins -/

theorem formatInto_obs (f : Bytes) (args : List Bytes) (nil : Bool) :
    ∃ o, formatInto f args nil = .obs o := by
  unfold formatInto
  cases nil with
  | true =>
    have h := formatNil_good f
    cases hr : formatNil f <;> simp_all [Res.good]
  | false =>
    have h := formatArgs_good f args
    cases hr : formatArgs f args <;> simp_all [Res.good]

theorem formatInto_false (f : Bytes) (args : List Bytes) :
    formatInto f args false =
      match formatArgs f args with
      | .ok out left => .obs { out := out, consumed := args.length - left, err := none }
      | .err out e => .obs { out := out, consumed := 0, err := some e }
      | .panic => .panic
      | .unmodelled => .unmodelled := by
  simp only [formatInto, Bool.false_eq_true, if_false]
  cases formatArgs f args <;> rfl

theorem format_false (f : Bytes) (args : List Bytes) :
    format f args false =
      match formatArgs f args with
      | .ok out left => .obs { out := out, consumed := args.length - left, err := none }
      | .err _ e => .obs { out := [], consumed := 0, err := some e }
      | .panic => .panic
      | .unmodelled => .unmodelled := by
  unfold format
  rw [formatInto_false]
  cases formatArgs f args <;> simp

theorem slice_drop (args : List Bytes) (n : Nat) (h : n ≤ args.length) :
    slice? args n args.length = some (args.drop n) := by
  have : (args.drop n).take (args.length - n) = args.drop n :=
    List.take_of_length_le (by simp)
  simp [slice?, h, this]

/-- One unrolling of the printf loop in terms of `formatArgs`. -/
theorem printfLoop_succ (fuel : Nat) (fmt : Bytes) (args : List Bytes) (acc : Bytes) :
    printfLoop (fuel + 1) fmt args acc =
      match formatArgs fmt args with
      | .ok out left =>
        if args.length - left = 0 ∨ (args.drop (args.length - left)).length = 0 then
          .done { out := acc ++ out, status := 0 }
        else printfLoop fuel fmt (args.drop (args.length - left)) (acc ++ out)
      | .err _ _ => .done { out := acc, status := 1 }
      | .panic => .panic
      | .unmodelled => .unmodelled := by
  simp only [printfLoop, format_false]
  cases formatArgs fmt args with
  | ok out left =>
    have h : args.length - left ≤ args.length := Nat.sub_le ..
    simp [slice_drop _ _ h]
  | err out e => simp
  | panic => rfl
  | unmodelled => rfl

/-! ## how an iteration depends on the argument list -/

/-- Does the iteration `c` (with the given `fmts`) take an argument? -/
def pops (fmts : Bytes) (c : UInt8) : Bool :=
  decide (c ≠ 92) && decide (fmts.length > 0) &&
    (decide (c = 99) || decide (c = 115) || decide (c = 98) || isNumVerb c)

def Step.withArgs (a : List Bytes) : Step → Step
  | .cont o st k => .cont o { st with args := a } k
  | .stop r => .stop r

theorem isNumVerb_iff (c : UInt8) :
    isNumVerb c = true ↔ c = 100 ∨ c = 105 ∨ c = 117 ∨ c = 111 ∨ c = 120 := by
  simp [isNumVerb, or_assoc]

theorem verb_facts (c : UInt8) (h : c = 99 ∨ c = 115 ∨ c = 98 ∨ isNumVerb c = true) :
    c ≠ 37 ∧ ¬ (c = 43 ∨ c = 45 ∨ c = 32) ∧ ¬ (48 ≤ c ∧ c ≤ 57) := by
  rw [isNumVerb_iff] at h
  rcases h with h | h | h | h | h | h | h | h <;> subst h <;> decide

/-- An iteration that takes no argument leaves the list alone and does not look at it. -/
theorem step_nopop (n : Option (Bytes → Res)) (c : UInt8) (rest : Bytes) (fmts : Bytes)
    (args : List Bytes) (h : pops fmts c = false) :
    step n c rest ⟨fmts, args⟩ = (step n c rest ⟨fmts, []⟩).withArgs args := by
  unfold step
  by_cases h92 : c = 92
  · simp only [h92, if_true]
    cases escape rest with
    | none => rfl
    | some p => rfl
  simp only [h92, if_false]
  by_cases hlen : fmts.length > 0
  · simp only [hlen, if_true]
    simp only [pops, h92, hlen, ne_eq, not_false_eq_true, decide_true, Bool.true_and,
      Bool.or_eq_false_iff, decide_eq_false_iff_not] at h
    obtain ⟨⟨⟨h99, h115⟩, h98⟩, hnum⟩ := h
    have hnv : ¬ (c = 115 ∨ c = 98 ∨ isNumVerb c = true) := by simp [h115, h98, hnum]
    simp only [h99, hnv, if_false]
    repeat' split
    all_goals rfl
  · simp only [hlen, if_false]
    split <;> rfl

theorem pops_iff (fmts : Bytes) (c : UInt8) :
    pops fmts c = true ↔ c ≠ 92 ∧ fmts.length > 0 ∧ (c = 99 ∨ c = 115 ∨ c = 98 ∨ isNumVerb c = true) := by
  simp [pops, and_assoc, or_assoc]

/-- An iteration that takes an argument sees only the first one (an empty string when there is
    none) and continues with the others. -/
theorem step_pop (n : Option (Bytes → Res)) (c : UInt8) (rest : Bytes) (fmts : Bytes)
    (args : List Bytes) (h : pops fmts c = true) :
    step n c rest ⟨fmts, args⟩ = (step n c rest ⟨fmts, [args.headD []]⟩).withArgs args.tail := by
  rw [pops_iff] at h
  obtain ⟨h92, hlen, hv⟩ := h
  obtain ⟨h37, hnf, hnd⟩ := verb_facts c hv
  unfold step
  simp only [h92, hlen, h37, if_false, if_true]
  by_cases h99 : c = 99
  · subst h99
    simp only [if_true]
    cases args with
    | nil => simp [popArg_cons, Step.withArgs]
    | cons a as =>
      simp only [List.length_cons, gt_iff_lt, Nat.zero_lt_succ, if_true, popArg_cons, List.headD_cons,
        List.length_nil, Nat.zero_add, List.tail_cons]
      split
      · split <;> rfl
      · rfl
  · have hverb : c = 115 ∨ c = 98 ∨ isNumVerb c = true := by
      rcases hv with hv | hv
      · exact absurd hv h99
      · exact hv
    simp only [h99, hnf, hnd, hverb, if_false, if_true]
    cases args with
    | nil =>
      simp only [popArg_nil, popArg_cons, List.headD_nil, List.tail_nil]
      repeat' split
      all_goals simp_all [Step.withArgs]
    | cons a as =>
      simp only [popArg_cons, List.headD_cons, List.tail_cons]
      repeat' split
      all_goals simp_all [Step.withArgs]

/-- With a nil args slice nothing but escapes is processed: the result is always `ok … 0`. -/
theorem go_none_ok : ∀ (f : Bytes) (k : Nat), ∃ o, go none f k ⟨[], []⟩ = .ok o 0
  | [], k => ⟨[], by rw [go_nil]; rfl⟩
  | c :: rest, k + 1 => by rw [go_skip]; exact go_none_ok rest k
  | c :: rest, 0 => by
    rw [go_zero]
    obtain ⟨o, k, he⟩ := escape_eq rest
    by_cases h92 : c = 92
    · obtain ⟨o', h'⟩ := go_none_ok rest k
      exact ⟨o ++ o', by simp [step, h92, he, h', Res.prepend]⟩
    · obtain ⟨o', h'⟩ := go_none_ok rest 0
      exact ⟨[c] ++ o', by simp [step, h92, h', Res.prepend]⟩

theorem formatNil_ok (f : Bytes) : ∃ o, formatNil f = .ok o 0 := go_none_ok f 0

/-- The nested formatter of `%b` never fails. -/
def NestedOK (n : Option (Bytes → Res)) : Prop :=
  match n with
  | none => True
  | some f => ∀ a, ∃ o l, f a = .ok o l

theorem nestedOK_formatNil : ∀ a, ∃ o l, formatNil a = .ok o l := fun a =>
  let ⟨o, h⟩ := formatNil_ok a; ⟨o, 0, h⟩

theorem good_of_ok (f : Bytes → Res) (hf : ∀ a, ∃ o l, f a = .ok o l) : ∀ a, (f a).good := fun a => by
  obtain ⟨o, l, h⟩ := hf a; rw [h]; trivial

/-- An argument-taking iteration always continues, with `fmts` reset. -/
theorem step_pop_cont (f : Bytes → Res) (hf : ∀ a, ∃ o l, f a = .ok o l) (c : UInt8) (rest : Bytes)
    (fmts : Bytes) (a : Bytes) (hinv : FmtsOK fmts) (h : pops fmts c = true) :
    ∃ o, step (some f) c rest ⟨fmts, [a]⟩ = .cont o ⟨[], []⟩ 0 := by
  have hgood := step_good_some f c rest ⟨fmts, [a]⟩ (good_of_ok f hf) hinv
  rw [pops_iff] at h
  obtain ⟨h92, hlen, hv⟩ := h
  obtain ⟨h37, hnf, hnd⟩ := verb_facts c hv
  revert hgood
  unfold step
  simp only [h92, hlen, h37, if_false, if_true]
  by_cases h99 : c = 99
  · subst h99
    simp only [if_true, List.length_cons, List.length_nil, Nat.zero_add, gt_iff_lt, Nat.lt_add_one,
      popArg_cons]
    intro _
    split
    · split
      · exact ⟨_, rfl⟩
      · rename_i h1 _ h2
        cases a with
        | nil => simp at h1
        | cons b bs => simp [idx?] at h2
    · exact ⟨_, rfl⟩
  · have hverb : c = 115 ∨ c = 98 ∨ isNumVerb c = true := by
      rcases hv with hv | hv
      · exact absurd hv h99
      · exact hv
    simp only [h99, hnf, hnd, hverb, if_false, if_true, popArg_cons]
    by_cases h98 : c = 98
    · simp only [h98, if_true]
      obtain ⟨o, l, ho⟩ := hf a
      simp only [ho]
      intro _; exact ⟨_, rfl⟩
    · simp only [h98, if_false]
      split
      · intro _; exact ⟨_, rfl⟩
      · intro hg; exact hg.elim

/-- What an argument-taking iteration writes for the argument `a`. -/
def popOut (f : Bytes → Res) (c : UInt8) (rest fmts a : Bytes) : Bytes :=
  match step (some f) c rest ⟨fmts, [a]⟩ with
  | .cont o _ _ => o
  | .stop _ => []

/-- The loop of formatInto, one iteration, seen from the argument list. -/
theorem go_view (f : Bytes → Res) (hf : ∀ a, ∃ o l, f a = .ok o l) (c : UInt8) (rest fm : Bytes)
    (args : List Bytes) (hinv : FmtsOK fm) :
    go (some f) (c :: rest) 0 ⟨fm, args⟩ =
      if pops fm c = true then
        (go (some f) rest 0 ⟨[], args.tail⟩).prepend (popOut f c rest fm (args.headD []))
      else
        match step (some f) c rest ⟨fm, []⟩ with
        | .cont o st' k => (go (some f) rest k ⟨st'.fmts, args⟩).prepend o
        | .stop r => r := by
  rw [go_zero]
  by_cases hp : pops fm c = true
  · simp only [hp, if_true]
    rw [step_pop _ _ _ _ _ hp]
    obtain ⟨o, ho⟩ := step_pop_cont f hf c rest fm (args.headD []) hinv hp
    simp only [popOut, ho, Step.withArgs]
  · simp only [hp]
    simp only [Bool.not_eq_true] at hp
    rw [step_nopop _ _ _ _ _ hp]
    cases step (some f) c rest ⟨fm, []⟩ with
    | cont o st' k => simp only [Step.withArgs]; rfl
    | stop r => rfl

/-- `fmts` after an iteration that takes no argument satisfies the invariant again. -/
theorem step_nopop_inv (f : Bytes → Res) (hf : ∀ a, ∃ o l, f a = .ok o l) (c : UInt8) (rest fm : Bytes)
    (hinv : FmtsOK fm) (o : Bytes) (st' : St) (k : Nat)
    (h : step (some f) c rest ⟨fm, []⟩ = .cont o st' k) : FmtsOK st'.fmts := by
  have hg := step_good_some f c rest ⟨fm, []⟩ (good_of_ok f hf) hinv
  rw [h] at hg
  exact hg.1

def Res.errOf : Res → Option Err
  | .err _ e => some e
  | _ => none

/-- The result with the "arguments left" count erased. -/
def Res.view : Res → Res
  | .ok out _ => .ok out 0
  | r => r

theorem Res.view_prepend (o : Bytes) (r : Res) : (r.prepend o).view = (r.view).prepend o := by
  cases r <;> rfl

/-- Arguments that are missing behave as empty strings (for `%c`: a NUL byte either way). -/
theorem go_missing (f : Bytes → Res) (hf : ∀ a, ∃ o l, f a = .ok o l) (m : Nat) :
    ∀ (fmt : Bytes) (k : Nat) (fm : Bytes) (args : List Bytes), FmtsOK fm →
      (go (some f) fmt k ⟨fm, args ++ List.replicate m []⟩).view = (go (some f) fmt k ⟨fm, args⟩).view
  | [], k, fm, args, _ => by
    simp only [go_nil]; split <;> rfl
  | c :: rest, k + 1, fm, args, h => by
    simp only [go_skip]; exact go_missing f hf m rest k fm args h
  | c :: rest, 0, fm, args, h => by
    rw [go_view f hf c rest fm _ h, go_view f hf c rest fm args h]
    by_cases hp : pops fm c = true
    · simp only [hp, if_true, Res.view_prepend]
      cases args with
      | nil =>
        cases m with
        | zero => rfl
        | succ m' =>
          simp only [List.nil_append, List.replicate_succ, List.headD_cons, List.tail_cons, List.headD_nil,
            List.tail_nil]
          have := go_missing f hf m' rest 0 [] [] FmtsOK_nil
          simp only [List.nil_append] at this
          rw [this]
      | cons a as =>
        simp only [List.cons_append, List.headD_cons, List.tail_cons]
        rw [go_missing f hf m rest 0 [] as FmtsOK_nil]
    · rw [if_neg hp, if_neg hp]
      cases hs : step (some f) c rest ⟨fm, []⟩ with
      | cont o st' k =>
        simp only [Res.view_prepend]
        rw [go_missing f hf m rest k st'.fmts args (step_nopop_inv f hf c rest fm h o st' k hs)]
      | stop r => rfl

theorem step_stop_not_ok (f : Bytes → Res) (_hf : ∀ a, ∃ o l, f a = .ok o l) (c : UInt8) (rest : Bytes)
    (st : St) (r : Res) (hs : step (some f) c rest st = .stop r) : ∀ out l, r ≠ .ok out l := by
  intro out l hr
  subst hr
  revert hs
  unfold step
  repeat' split
  all_goals try (simp_all; done)
  all_goals (intro hs; simp only at hs; split at hs <;> simp_all)

theorem Res.prepend_eq_ok (o : Bytes) (r : Res) (out : Bytes) (left : Nat)
    (h : r.prepend o = .ok out left) : ∃ out', r = .ok out' left ∧ out = o ++ out' := by
  cases r with
  | ok out' l => simp only [Res.prepend, Res.ok.injEq] at h; exact ⟨out', by rw [h.2], h.1.symm⟩
  | err _ _ => simp [Res.prepend] at h
  | panic => simp [Res.prepend] at h
  | unmodelled => simp [Res.prepend] at h

/-- The pass never leaves more arguments than it was given. -/
theorem go_left_le (f : Bytes → Res) (hf : ∀ a, ∃ o l, f a = .ok o l) :
    ∀ (fmt : Bytes) (k : Nat) (fm : Bytes) (args : List Bytes) (out : Bytes) (left : Nat), FmtsOK fm →
      go (some f) fmt k ⟨fm, args⟩ = .ok out left → left ≤ args.length
  | [], k, fm, args, out, left, _, hgo => by
    simp only [go_nil] at hgo
    split at hgo
    · cases hgo
    · cases hgo; exact Nat.le_refl _
  | c :: rest, k + 1, fm, args, out, left, h, hgo => by
    simp only [go_skip] at hgo; exact go_left_le f hf rest k fm args out left h hgo
  | c :: rest, 0, fm, args, out, left, h, hgo => by
    rw [go_view f hf c rest fm args h] at hgo
    by_cases hp : pops fm c = true
    · rw [if_pos hp] at hgo
      obtain ⟨out', hr, _⟩ := Res.prepend_eq_ok _ _ _ _ hgo
      have := go_left_le f hf rest 0 [] args.tail out' left FmtsOK_nil hr
      have h2 : args.tail.length ≤ args.length := by simp
      omega
    · rw [if_neg hp] at hgo
      cases hs : step (some f) c rest ⟨fm, []⟩ with
      | cont o st' k =>
        rw [hs] at hgo
        obtain ⟨out', hr, _⟩ := Res.prepend_eq_ok _ _ _ _ hgo
        exact go_left_le f hf rest k st'.fmts args out' left
          (step_nopop_inv f hf c rest fm h o st' k hs) hr
      | stop r =>
        rw [hs] at hgo
        exact absurd hgo (step_stop_not_ok f hf c rest _ r hs out left)

theorem Res.errOf_prepend (o : Bytes) (r : Res) : (r.prepend o).errOf = r.errOf := by
  cases r <;> rfl

/-- Whether (and how) a pass fails depends on the format only, not on the arguments. -/
theorem go_err_indep (f : Bytes → Res) (hf : ∀ a, ∃ o l, f a = .ok o l) :
    ∀ (fmt : Bytes) (k : Nat) (fm : Bytes) (a1 a2 : List Bytes), FmtsOK fm →
      (go (some f) fmt k ⟨fm, a1⟩).errOf = (go (some f) fmt k ⟨fm, a2⟩).errOf
  | [], k, fm, a1, a2, _ => by
    simp only [go_nil]; split <;> rfl
  | c :: rest, k + 1, fm, a1, a2, h => by
    simp only [go_skip]; exact go_err_indep f hf rest k fm a1 a2 h
  | c :: rest, 0, fm, a1, a2, h => by
    rw [go_view f hf c rest fm a1 h, go_view f hf c rest fm a2 h]
    by_cases hp : pops fm c = true
    · rw [if_pos hp, if_pos hp, Res.errOf_prepend, Res.errOf_prepend]
      exact go_err_indep f hf rest 0 [] _ _ FmtsOK_nil
    · rw [if_neg hp, if_neg hp]
      cases hs : step (some f) c rest ⟨fm, []⟩ with
      | cont o st' k =>
        simp only [Res.errOf_prepend]
        exact go_err_indep f hf rest k st'.fmts a1 a2 (step_nopop_inv f hf c rest fm h o st' k hs)
      | stop r => rfl

/-- Trailing arguments a pass does not reach can be removed without changing what it writes. -/
theorem go_prefix (f : Bytes → Res) (hf : ∀ a, ∃ o l, f a = .ok o l) :
    ∀ (fmt : Bytes) (k : Nat) (fm : Bytes) (p q : List Bytes) (out : Bytes) (left : Nat), FmtsOK fm →
      go (some f) fmt k ⟨fm, p ++ q⟩ = .ok out left → q.length ≤ left →
      go (some f) fmt k ⟨fm, p⟩ = .ok out (left - q.length)
  | [], k, fm, p, q, out, left, _, hgo, _ => by
    simp only [go_nil] at hgo ⊢
    split at hgo
    · cases hgo
    · rename_i hl
      cases hgo
      simp [hl]
  | c :: rest, k + 1, fm, p, q, out, left, h, hgo, hq => by
    simp only [go_skip] at hgo ⊢; exact go_prefix f hf rest k fm p q out left h hgo hq
  | c :: rest, 0, fm, p, q, out, left, h, hgo, hq => by
    rw [go_view f hf c rest fm _ h] at hgo
    rw [go_view f hf c rest fm _ h]
    by_cases hp : pops fm c = true
    · rw [if_pos hp] at hgo ⊢
      obtain ⟨out', hr, ho⟩ := Res.prepend_eq_ok _ _ _ _ hgo
      cases p with
      | nil =>
        cases q with
        | nil => simpa using hgo
        | cons b q' =>
          -- the argument would come from `q`: then fewer than |q| are left
          exfalso
          have := go_left_le f hf rest 0 [] _ out' left FmtsOK_nil hr
          simp at this; simp at hq; omega
      | cons a p' =>
        simp only [List.cons_append, List.tail_cons, List.headD_cons] at hr ho ⊢
        rw [go_prefix f hf rest 0 [] p' q out' left FmtsOK_nil hr hq]
        simp [Res.prepend, ho]
    · rw [if_neg hp] at hgo ⊢
      cases hs : step (some f) c rest ⟨fm, []⟩ with
      | cont o st' k =>
        rw [hs] at hgo
        obtain ⟨out', hr, ho⟩ := Res.prepend_eq_ok _ _ _ _ hgo
        simp only
        rw [go_prefix f hf rest k st'.fmts p q out' left
          (step_nopop_inv f hf c rest fm h o st' k hs) hr hq]
        simp [Res.prepend, ho]
      | stop r =>
        rw [hs] at hgo
        exact absurd hgo (step_stop_not_ok f hf c rest _ r hs out left)

/-! ## the reuse loop of the `printf` builtin -/

/-- `Reuse fmt args out`: `out` is the concatenation of what single passes write for consecutive
    chunks of `args`, each chunk used up completely by its pass — or the format takes no argument
    at all and the arguments are ignored. -/
inductive Reuse (fmt : Bytes) : List Bytes → Bytes → Prop
  | last (chunk : List Bytes) (out : Bytes) :
      formatArgs fmt chunk = .ok out 0 → Reuse fmt chunk out
  | ignored (args : List Bytes) (out : Bytes) :
      args ≠ [] → formatArgs fmt args = .ok out args.length → Reuse fmt args out
  | more (chunk rest : List Bytes) (out out' : Bytes) :
      chunk ≠ [] → rest ≠ [] → formatArgs fmt chunk = .ok out 0 → Reuse fmt rest out' →
      Reuse fmt (chunk ++ rest) (out ++ out')

theorem formatArgs_errOf_indep (fmt : Bytes) (a1 a2 : List Bytes) :
    (formatArgs fmt a1).errOf = (formatArgs fmt a2).errOf :=
  go_err_indep formatNil nestedOK_formatNil fmt 0 [] a1 a2 FmtsOK_nil

theorem formatArgs_cases (fmt : Bytes) (args : List Bytes) :
    (∃ out left, formatArgs fmt args = .ok out left ∧ left ≤ args.length) ∨
    (∃ out e, formatArgs fmt args = .err out e) := by
  have hg := formatArgs_good fmt args
  cases h : formatArgs fmt args with
  | ok out left =>
    exact Or.inl ⟨out, left, rfl, go_left_le formatNil nestedOK_formatNil fmt 0 [] args out left FmtsOK_nil h⟩
  | err out e => exact Or.inr ⟨out, e, rfl⟩
  | panic => rw [h] at hg; exact hg.elim
  | unmodelled => rw [h] at hg; exact hg.elim

theorem formatArgs_prefix (fmt : Bytes) (args : List Bytes) (out : Bytes) (left : Nat)
    (h : formatArgs fmt args = .ok out left) (hl : left ≤ args.length) :
    formatArgs fmt (args.take (args.length - left)) = .ok out 0 := by
  have hsplit : args = args.take (args.length - left) ++ args.drop (args.length - left) :=
    (List.take_append_drop _ _).symm
  have hq : (args.drop (args.length - left)).length = left := by simp; omega
  have h' : go (some formatNil) fmt 0 ⟨[], args.take (args.length - left) ++ args.drop (args.length - left)⟩
      = .ok out left := by rw [← hsplit]; exact h
  have := go_prefix formatNil nestedOK_formatNil fmt 0 [] _ _ out left FmtsOK_nil h' (by omega)
  rw [hq, Nat.sub_self] at this
  exact this

theorem printfLoop_reuse (fmt : Bytes) (hok : (formatArgs fmt []).errOf = none) :
    ∀ (fuel : Nat) (args : List Bytes) (acc : Bytes), args.length < fuel →
      ∃ out, printfLoop fuel fmt args acc = .done { out := acc ++ out, status := 0 } ∧ Reuse fmt args out
  | 0, args, acc, h => by omega
  | fuel + 1, args, acc, hfuel => by
    rw [printfLoop_succ]
    rcases formatArgs_cases fmt args with ⟨out, left, hfa, hle⟩ | ⟨out, e, hfa⟩
    · simp only [hfa]
      have hdl : (args.drop (args.length - left)).length = left := by simp; omega
      rw [hdl]
      by_cases hstop : args.length - left = 0 ∨ left = 0
      · rw [if_pos hstop]
        refine ⟨out, rfl, ?_⟩
        by_cases hl0 : left = 0
        · subst hl0; exact Reuse.last _ _ hfa
        · have hll : left = args.length := by omega
          have hne : args ≠ [] := by intro h; subst h; simp at hll; exact hl0 hll
          exact Reuse.ignored _ _ hne (by rw [← hll]; exact hfa)
      · rw [if_neg hstop]
        have hlt : (args.drop (args.length - left)).length < fuel := by rw [hdl]; omega
        obtain ⟨out', hloop, hre⟩ := printfLoop_reuse fmt hok fuel _ (acc ++ out) hlt
        refine ⟨out ++ out', by rw [hloop]; simp, ?_⟩
        have hsplit : args = args.take (args.length - left) ++ args.drop (args.length - left) :=
          (List.take_append_drop _ _).symm
        rw [hsplit]
        refine Reuse.more _ _ _ _ ?_ ?_ (formatArgs_prefix fmt args out left hfa hle) hre
        · intro h
          have : (args.take (args.length - left)).length = 0 := by rw [h]; rfl
          simp at this; omega
        · intro h
          rw [h] at hdl; simp at hdl; omega
    · exfalso
      have := formatArgs_errOf_indep fmt args []
      rw [hfa, hok] at this
      simp [Res.errOf] at this

theorem printfLoop_err (fmt : Bytes) (e : Err) (hok : (formatArgs fmt []).errOf = some e)
    (fuel : Nat) (args : List Bytes) (acc : Bytes) :
    printfLoop (fuel + 1) fmt args acc = .done { out := acc, status := 1 } := by
  rw [printfLoop_succ]
  rcases formatArgs_cases fmt args with ⟨out, left, hfa, _⟩ | ⟨out, e', hfa⟩
  · have := formatArgs_errOf_indep fmt args []
    rw [hfa, hok] at this
    simp [Res.errOf] at this
  · simp only [hfa]

theorem format_obs (f : Bytes) (args : List Bytes) (nil : Bool) : ∃ o, format f args nil = .obs o := by
  obtain ⟨o, h⟩ := formatInto_obs f args nil
  unfold format
  rw [h]
  simp only
  split <;> exact ⟨_, rfl⟩

theorem echoBody_some (ex : Bool) : ∀ (ws : List Bytes) (first : Bool), ∃ b, echoBody ex ws first = some b
  | [], _ => ⟨[], rfl⟩
  | w :: rest, first => by
    obtain ⟨r, hr⟩ := echoBody_some ex rest false
    have : ∃ x, echoArg ex w = some x := by
      unfold echoArg
      cases ex with
      | false => exact ⟨w, rfl⟩
      | true =>
        obtain ⟨o, ho⟩ := format_obs w [] true
        simp only [if_true, ho]
        exact ⟨_, rfl⟩
    obtain ⟨x, hx⟩ := this
    simp only [echoBody, hx, hr]
    exact ⟨_, rfl⟩

/-! ## escapes -/

theorem Res.prepend_nil (r : Res) : r.prepend [] = r := by
  cases r <;> simp [Res.prepend]

theorem Res.prepend_prepend (a b : Bytes) (r : Res) : (r.prepend b).prepend a = r.prepend (a ++ b) := by
  cases r <;> simp [Res.prepend]

/-- Bytes already consumed by an escape are skipped. -/
theorem go_skip_append (n : Option (Bytes → Res)) (st : St) (rest : Bytes) :
    ∀ (pre : Bytes), go n (pre ++ rest) pre.length st = go n rest 0 st
  | [] => rfl
  | c :: pre => by
    simp only [List.cons_append, List.length_cons, go_skip]
    exact go_skip_append n st rest pre

/-- A backslash in the format: the escape is written, whatever the directive state. -/
theorem go_escape (n : Option (Bytes → Res)) (rest o : Bytes) (k : Nat) (st : St)
    (h : escape rest = some (o, k)) :
    go n (92 :: rest) 0 st = (go n rest k st).prepend o := by
  rw [go_zero]
  simp [step, h]

/-- The single-character escapes: (character after the backslash, byte written). -/
def escTable : List (UInt8 × UInt8) :=
  [(97, 7), (98, 8), (101, 27), (69, 27), (102, 12), (110, 10), (114, 13), (116, 9), (118, 11),
   (92, 92), (39, 39), (34, 34), (63, 63)]

theorem escape_table (p : UInt8 × UInt8) (hp : p ∈ escTable) (rest : Bytes) :
    escape (p.1 :: rest) = some ([p.2], 1) := by
  simp only [escTable, List.mem_cons, List.not_mem_nil, or_false] at hp
  rcases hp with h | h | h | h | h | h | h | h | h | h | h | h | h <;> subst h <;> simp [escape]

/-! ## strconv on digit strings -/

/-- Value of a digit string in the given base, continuing from `n`. -/
def foldv (base : Nat) (ds : Bytes) (n : Nat) : Nat :=
  ds.foldl (fun acc d => acc * base + (digitVal d).getD 0) n

theorem foldv_nil (base n : Nat) : foldv base [] n = n := rfl
theorem foldv_cons (base : Nat) (d : UInt8) (ds : Bytes) (n : Nat) :
    foldv base (d :: ds) n = foldv base ds (n * base + (digitVal d).getD 0) := rfl

theorem foldv_ge (base : Nat) (hb : 1 ≤ base) : ∀ (ds : Bytes) (n : Nat), n ≤ foldv base ds n
  | [], n => Nat.le_refl n
  | d :: ds, n => by
    rw [foldv_cons]
    have h1 : n ≤ n * base := Nat.le_mul_of_pos_right n hb
    have h2 := foldv_ge base hb ds (n * base + (digitVal d).getD 0)
    omega

theorem foldv_mono (base : Nat) : ∀ (ds : Bytes) (m n : Nat), m ≤ n → foldv base ds m ≤ foldv base ds n
  | [], m, n, h => h
  | d :: ds, m, n, h => by
    rw [foldv_cons, foldv_cons]
    apply foldv_mono base ds
    have := Nat.mul_le_mul_right base h
    omega

def ValidDigits (base : Nat) (ds : Bytes) : Prop := ∀ d ∈ ds, ∃ x, digitVal d = some x ∧ x < base

theorem digitVal_underscore : digitVal 95 = none := by decide

theorem cutoff_mul (base : Nat) (hb : 1 ≤ base) : maxU64 < (maxU64 / base + 1) * base := by
  have h := Nat.div_add_mod maxU64 base
  have hm : maxU64 % base < base := Nat.mod_lt _ hb
  rw [Nat.add_mul, Nat.one_mul, Nat.mul_comm]
  omega

/-- The ParseUint loop on valid digits: the value, or `maxVal` with a range error. -/
theorem parseUintLoop_valid (base : Nat) (hb : 1 ≤ base) (base0 : Bool) (maxVal : Nat) (hmax : maxVal ≤ maxU64)
    (us : Bool) : ∀ (ds : Bytes) (n : Nat), ValidDigits base ds → n ≤ maxVal →
      parseUintLoop base base0 (maxU64 / base + 1) maxVal ds n us =
        if foldv base ds n ≤ maxVal then (foldv base ds n, .ok, us) else (maxVal, .range, us)
  | [], n, _, hn => by simp [parseUintLoop, foldv_nil, hn]
  | d :: ds, n, hv, hn => by
    obtain ⟨x, hx, hxb⟩ := hv d (List.mem_cons_self ..)
    have hv' : ValidDigits base ds := fun y hy => hv y (List.mem_cons_of_mem _ hy)
    have hd95 : ¬ (d = 95 ∧ base0 = true) := by
      intro h; rw [h.1, digitVal_underscore] at hx; cases hx
    rw [parseUintLoop, if_neg hd95, hx]
    simp only
    rw [if_neg (Nat.not_le.2 hxb), foldv_cons, hx, Option.getD_some]
    by_cases hc : n ≥ maxU64 / base + 1
    · rw [if_pos hc]
      have h1 : maxU64 < n * base := Nat.lt_of_lt_of_le (cutoff_mul base hb) (Nat.mul_le_mul_right base hc)
      have h2 := foldv_ge base hb ds (n * base + x)
      rw [if_neg (by omega)]
    · rw [if_neg hc]
      by_cases ho : n * base + x > maxVal
      · rw [if_pos ho]
        have h2 := foldv_ge base hb ds (n * base + x)
        rw [if_neg (by omega)]
      · rw [if_neg ho]
        exact parseUintLoop_valid base hb base0 maxVal hmax us ds _ hv' (by omega)


theorem parseUintLoop_us (base : Nat) (cutoff maxVal : Nat) :
    ∀ (ds : Bytes) (n : Nat) (us : Bool), (parseUintLoop base false cutoff maxVal ds n us).2.2 = us
  | [], n, us => rfl
  | d :: ds, n, us => by
    rw [parseUintLoop]
    simp only [Bool.false_eq_true, and_false, if_false]
    cases digitVal d with
    | none => rfl
    | some x =>
      simp only
      repeat' split
      all_goals first | rfl | exact parseUintLoop_us base cutoff maxVal ds _ us

/-- `ParseUint(s, base, bitSize)` with an explicit base on valid digits. -/
theorem parseUint_valid (base bitSize : Nat) (hb : 2 ≤ base) (hbs : 1 ≤ bitSize ∧ bitSize ≤ 64)
    (ds : Bytes) (hne : ds ≠ []) (hv : ValidDigits base ds) :
    parseUint ds base bitSize =
      if foldv base ds 0 ≤ 2 ^ bitSize - 1 then (foldv base ds 0, .ok) else (2 ^ bitSize - 1, .range) := by
  have hb0 : base ≠ 0 := by omega
  have hbs0 : bitSize ≠ 0 := by omega
  have hmax : 2 ^ bitSize - 1 ≤ maxU64 := by
    have : 2 ^ bitSize ≤ 2 ^ 64 := Nat.pow_le_pow_right (by decide) hbs.2
    simp only [maxU64]; omega
  have hloop := parseUintLoop_valid base (by omega) (base == 0) (2 ^ bitSize - 1) hmax false ds 0 hv (Nat.zero_le _)
  unfold parseUint
  simp only [hne, if_false, hb0, hbs0]
  rw [hloop]
  by_cases hle : foldv base ds 0 ≤ 2 ^ bitSize - 1
  · simp [hle]
  · simp [hle]

/-! ## exhaustive facts about single bytes -/

theorem uint8_forall (P : UInt8 → Prop) (h : ∀ i : Fin 256, P (UInt8.ofNat i.val)) : ∀ c, P c := by
  intro c
  have := h ⟨c.toNat, c.toNat_lt⟩
  simpa using this

def digitLt (b : Nat) (c : UInt8) : Bool :=
  match digitVal c with
  | some x => decide (x < b)
  | none => false

theorem digitLt_iff (b : Nat) (c : UInt8) : digitLt b c = true ↔ ∃ x, digitVal c = some x ∧ x < b := by
  unfold digitLt
  cases digitVal c with
  | none => simp
  | some x => simp

theorem hexdigit_val : ∀ c : UInt8, isDigitChar true c = true → digitLt 16 c = true := by
  apply uint8_forall
  decide +kernel

theorem octdigit_val : ∀ c : UInt8, (48 ≤ c ∧ c ≤ 55) → digitLt 8 c = true := by
  apply uint8_forall
  decide +kernel

theorem decdigit_isDigitChar (hex : Bool) (c : UInt8) (h : 48 ≤ c ∧ c ≤ 57) : isDigitChar hex c = true := by
  simp [isDigitChar, h]

/-! ## octal and hexadecimal escapes -/

theorem countDigits_append (hex : Bool) (rest : Bytes) :
    ∀ (ds : Bytes) (max : Nat), (∀ d ∈ ds, isDigitChar hex d = true) → ds.length ≤ max →
      (ds.length = max ∨ ∀ c r, rest = c :: r → isDigitChar hex c = false) →
      countDigits hex max (ds ++ rest) = ds.length
  | [], max, _, _, hstop => by
    cases max with
    | zero => rfl
    | succ m =>
      cases rest with
      | nil => rfl
      | cons c r =>
        rcases hstop with h | h
        · simp at h
        · simp [countDigits, h c r rfl]
  | d :: ds, max, hds, hlen, hstop => by
    cases max with
    | zero => simp at hlen
    | succ m =>
      have hd := hds d (List.mem_cons_self ..)
      simp only [List.cons_append, countDigits, hd, if_true, List.length_cons]
      rw [countDigits_append hex rest ds m (fun x hx => hds x (List.mem_cons_of_mem _ hx))
        (by simp at hlen; omega)
        (by rcases hstop with h | h
            · left; simp at h; omega
            · right; exact h)]
      omega

theorem oct_not_table : ∀ c : UInt8, (48 ≤ c ∧ c ≤ 55) →
    ¬ (c = 97 ∨ c = 98 ∨ c = 101 ∨ c = 69 ∨ c = 102 ∨ c = 110 ∨ c = 114 ∨ c = 116 ∨ c = 118
      ∨ c = 92 ∨ c = 39 ∨ c = 34 ∨ c = 63) := by
  apply uint8_forall
  decide +kernel

/-- `\` followed by one to three digit characters (the first one octal): exactly these digits are
    consumed — never a fourth — and one byte is written. -/
theorem escape_octal (c : UInt8) (ds rest : Bytes) (hc : 48 ≤ c ∧ c ≤ 55)
    (hds : ∀ d ∈ ds, 48 ≤ d ∧ d ≤ 57) (hlen : ds.length ≤ 2)
    (hstop : ds.length = 2 ∨ ∀ x r, rest = x :: r → ¬ (48 ≤ x ∧ x ≤ 57)) :
    escape (c :: ds ++ rest) = some ([UInt8.ofNat (parseUint (c :: ds) 8 8).1], ds.length + 1) := by
  have hcd : c ≤ 57 := Nat.le_trans hc.2 (by decide)
  have hall : ∀ d ∈ c :: ds, isDigitChar false d = true := by
    intro d hd
    rcases List.mem_cons.1 hd with h | h
    · subst h; exact decdigit_isDigitChar _ _ ⟨hc.1, hcd⟩
    · exact decdigit_isDigitChar _ _ (hds d h)
  have hcount : countDigits false 3 ((c :: ds) ++ rest) = (c :: ds).length := by
    apply countDigits_append false rest (c :: ds) 3 hall (by simp; omega)
    rcases hstop with h | h
    · left; simp [h]
    · right
      intro x r hx
      have := h x r hx
      simp only [isDigitChar, Bool.false_and, Bool.or_false]
      simpa using this
  have hne : ¬ (c = 97 ∨ c = 98 ∨ c = 101 ∨ c = 69 ∨ c = 102 ∨ c = 110 ∨ c = 114 ∨ c = 116 ∨ c = 118
      ∨ c = 92 ∨ c = 39 ∨ c = 34 ∨ c = 63) := oct_not_table c hc
  simp only [not_or] at hne
  obtain ⟨n1, n2, n3, n4, n5, n6, n7, n8, n9, n10, n11, n12, n13⟩ := hne
  have hcons : c :: ds ++ rest = c :: (ds ++ rest) := rfl
  rw [hcons]
  unfold escape
  simp only [n1, n2, n3, n4, n5, n6, n7, n8, n9, n10, n11, n12, n13, or_self, if_false, hc, and_self,
    if_true, readDigits_some]
  have hcount' : countDigits false 3 (c :: (ds ++ rest)) = ds.length + 1 := by
    have := hcount; simpa using this
  rw [hcount']
  simp

theorem foldv_lt (base : Nat) (hb : 1 ≤ base) :
    ∀ (ds : Bytes) (n : Nat), ValidDigits base ds → foldv base ds n < (n + 1) * base ^ ds.length
  | [], n, _ => by simp [foldv_nil]
  | d :: ds, n, hv => by
    obtain ⟨x, hx, hxb⟩ := hv d (List.mem_cons_self ..)
    have hv' : ValidDigits base ds := fun y hy => hv y (List.mem_cons_of_mem _ hy)
    rw [foldv_cons, hx, Option.getD_some, List.length_cons, Nat.pow_succ]
    have h1 := foldv_lt base hb ds (n * base + x) hv'
    have h2 : n * base + x + 1 ≤ (n + 1) * base := by rw [Nat.add_mul, Nat.one_mul]; omega
    calc foldv base ds (n * base + x) < (n * base + x + 1) * base ^ ds.length := h1
      _ ≤ ((n + 1) * base) * base ^ ds.length := Nat.mul_le_mul_right _ h2
      _ = (n + 1) * (base ^ ds.length * base) := by rw [Nat.mul_assoc, Nat.mul_comm base]

theorem validDigits_oct (ds : Bytes) (h : ∀ d ∈ ds, 48 ≤ d ∧ d ≤ 55) : ValidDigits 8 ds := fun d hd =>
  (digitLt_iff 8 d).1 (octdigit_val d (h d hd))

theorem validDigits_hex (ds : Bytes) (h : ∀ d ∈ ds, isDigitChar true d = true) : ValidDigits 16 ds :=
  fun d hd => (digitLt_iff 16 d).1 (hexdigit_val d (h d hd))

/-- The byte an octal escape with genuine octal digits writes: the value, but 0xff above \377. -/
theorem parseUint_octal (ds : Bytes) (hne : ds ≠ []) (h : ∀ d ∈ ds, 48 ≤ d ∧ d ≤ 55) :
    (parseUint ds 8 8).1 = min (foldv 8 ds 0) 255 := by
  rw [parseUint_valid 8 8 (by decide) (by decide) ds hne (validDigits_oct ds h)]
  have : (2 : Nat) ^ 8 - 1 = 255 := by decide
  rw [this]
  split
  · rename_i hle; simp [Nat.min_eq_left hle]
  · rename_i hle; simp [Nat.min_eq_right (Nat.le_of_lt (Nat.not_le.1 hle))]

/-- One to `max` hexadecimal digits: their value (no range error is possible). -/
theorem parseUint_hex (ds : Bytes) (hne : ds ≠ []) (hlen : ds.length ≤ 8)
    (h : ∀ d ∈ ds, isDigitChar true d = true) : (parseUint ds 16 32).1 = foldv 16 ds 0 := by
  have hv := validDigits_hex ds h
  rw [parseUint_valid 16 32 (by decide) (by decide) ds hne hv]
  have hlt := foldv_lt 16 (by decide) ds 0 hv
  have hpow : 16 ^ ds.length ≤ 16 ^ 8 := Nat.pow_le_pow_right (by decide) hlen
  have h32 : (16 : Nat) ^ 8 = 2 ^ 32 := by decide
  rw [if_pos (by omega)]

theorem xuU_not_table (c : UInt8) (hc : c = 120 ∨ c = 117 ∨ c = 85) :
    ¬ (c = 97 ∨ c = 98 ∨ c = 101 ∨ c = 69 ∨ c = 102 ∨ c = 110 ∨ c = 114 ∨ c = 116 ∨ c = 118
      ∨ c = 92 ∨ c = 39 ∨ c = 34 ∨ c = 63) ∧ ¬ (48 ≤ c ∧ c ≤ 55) := by
  rcases hc with h | h | h <;> subst h <;> decide

/-- `\x`, `\u`, `\U` followed by 1..max hexadecimal digits (max = 2, 4, 8): exactly these digits
    are consumed; `\x` writes a single byte, `\u`/`\U` the UTF-8 encoding Go's WriteRune gives. -/
theorem escape_hex (c : UInt8) (hc : c = 120 ∨ c = 117 ∨ c = 85) (ds rest : Bytes)
    (hds : ∀ d ∈ ds, isDigitChar true d = true) (hne : ds ≠ [])
    (hlen : ds.length ≤ (if c = 117 then 4 else if c = 85 then 8 else 2))
    (hstop : ds.length = (if c = 117 then 4 else if c = 85 then 8 else 2) ∨
      ∀ x r, rest = x :: r → isDigitChar true x = false) :
    escape (c :: ds ++ rest) =
      some (if c = 120 then [UInt8.ofNat (foldv 16 ds 0)] else appendRune (foldv 16 ds 0), 1 + ds.length) := by
  obtain ⟨hnt, hno⟩ := xuU_not_table c hc
  simp only [not_or] at hnt
  obtain ⟨n1, n2, n3, n4, n5, n6, n7, n8, n9, n10, n11, n12, n13⟩ := hnt
  have hcount := countDigits_append true rest ds _ hds hlen hstop
  have hl8 : ds.length ≤ 8 := by
    have : (if c = 117 then 4 else if c = 85 then 8 else 2) ≤ 8 := by
      split
      · decide
      · split <;> decide
    omega
  have hcons : c :: ds ++ rest = c :: (ds ++ rest) := rfl
  rw [hcons]
  unfold escape
  simp only [n1, n2, n3, n4, n5, n6, n7, n8, n9, n10, n11, n12, n13, or_self, if_false, hno, hc,
    if_true, readDigits_some, hcount, List.take_left']
  have hpos : ds.length > 0 := by cases ds with
    | nil => exact absurd rfl hne
    | cons _ _ => simp
  simp only [hpos, if_true, parseUint_hex ds hne hl8 hds]
  split <;> rfl

/-! ## directives: the state machine -/

theorem dec_facts : ∀ c : UInt8, (48 ≤ c ∧ c ≤ 57) →
    c ≠ 92 ∧ c ≠ 37 ∧ c ≠ 99 ∧ ¬ (c = 43 ∨ c = 45 ∨ c = 32) := by
  apply uint8_forall
  decide +kernel

theorem step_digit (n : Option (Bytes → Res)) (c : UInt8) (rest fm : Bytes) (args : List Bytes)
    (hc : 48 ≤ c ∧ c ≤ 57) (hfm : fm.length > 0) :
    step n c rest ⟨fm, args⟩ = .cont [] ⟨fm ++ [c], args⟩ 0 := by
  obtain ⟨h92, h37, h99, hfl⟩ := dec_facts c hc
  unfold step
  simp only [h92, h37, h99, hfl, hfm, hc, and_self, if_false, if_true]

theorem step_pct (f : Bytes → Res) (rest : Bytes) (args : List Bytes) :
    step (some f) 37 rest ⟨[], args⟩ = .cont [] ⟨[37], args⟩ 0 := by
  simp [step]

theorem step_flag (n : Option (Bytes → Res)) (c : UInt8) (rest : Bytes) (args : List Bytes)
    (hc : c = 43 ∨ c = 45 ∨ c = 32) :
    step n c rest ⟨[37], args⟩ = .cont [] ⟨[37, c], args⟩ 0 := by
  rcases hc with h | h | h <;> subst h <;> simp [step]

theorem go_digits (n : Option (Bytes → Res)) (rest : Bytes) (args : List Bytes) :
    ∀ (ds fm : Bytes), (∀ d ∈ ds, isDec d = true) → fm.length > 0 →
      go n (ds ++ rest) 0 ⟨fm, args⟩ = go n rest 0 ⟨fm ++ ds, args⟩
  | [], fm, _, _ => by simp
  | d :: ds, fm, hds, hfm => by
    have hd : 48 ≤ d ∧ d ≤ 57 := (isDec_iff d).1 (hds d (List.mem_cons_self ..))
    rw [List.cons_append, go_zero, step_digit n d _ fm args hd hfm]
    simp only [Res.prepend_nil]
    rw [go_digits n rest args ds (fm ++ [d]) (fun x hx => hds x (List.mem_cons_of_mem _ hx)) (by simp)]
    simp

/-- A conversion specification as formatInto accepts it: `%`, at most one flag character, zeros,
    width digits, conversion character. -/
structure MDir where
  flag : Bytes
  zeros : Nat
  width : Bytes
  verb : UInt8
  deriving DecidableEq, Repr

def MDir.digits (d : MDir) : Bytes := List.replicate d.zeros 48 ++ d.width
def MDir.fmts (d : MDir) : Bytes := 37 :: (d.flag ++ d.digits)
def MDir.render (d : MDir) : Bytes := d.fmts ++ [d.verb]

structure MDir.WF (d : MDir) : Prop where
  flag : d.flag = [] ∨ d.flag = [43] ∨ d.flag = [45] ∨ d.flag = [32]
  width : ∀ x ∈ d.width, isDec x = true
  nz : ∀ c r, d.width = c :: r → c ≠ 48
  verb : d.verb = 99 ∨ d.verb = 115 ∨ d.verb = 98 ∨ isNumVerb d.verb = true

theorem MDir.digits_dec (d : MDir) (h : d.WF) : ∀ x ∈ d.digits, isDec x = true := by
  intro x hx
  rcases List.mem_append.1 hx with hx | hx
  · rw [List.mem_replicate] at hx; rw [hx.2]; decide
  · exact h.width x hx

theorem MDir.fmtsOK (d : MDir) (h : d.WF) : FmtsOK d.fmts :=
  Or.inr ⟨d.flag, d.digits, rfl, h.flag, d.digits_dec h⟩

/-- The loop runs through a whole directive and takes (at most) one argument. -/
theorem go_directive (f : Bytes → Res) (hf : ∀ a, ∃ o l, f a = .ok o l) (d : MDir) (h : d.WF)
    (rest : Bytes) (args : List Bytes) :
    go (some f) (d.render ++ rest) 0 ⟨[], args⟩ =
      (go (some f) rest 0 ⟨[], args.tail⟩).prepend (popOut f d.verb rest d.fmts (args.headD [])) := by
  have hr : d.render ++ rest = 37 :: (d.flag ++ (d.digits ++ (d.verb :: rest))) := by
    simp [MDir.render, MDir.fmts]
  rw [hr, go_zero, step_pct]
  simp only [Res.prepend_nil]
  have hflag : go (some f) (d.flag ++ (d.digits ++ (d.verb :: rest))) 0 ⟨[37], args⟩ =
      go (some f) (d.digits ++ (d.verb :: rest)) 0 ⟨37 :: d.flag, args⟩ := by
    rcases h.flag with hfl | hfl | hfl | hfl <;> rw [hfl]
    · rfl
    · rw [List.singleton_append, go_zero, step_flag _ _ _ _ (Or.inl rfl)]; simp [Res.prepend_nil]
    · rw [List.singleton_append, go_zero, step_flag _ _ _ _ (Or.inr (Or.inl rfl))]; simp [Res.prepend_nil]
    · rw [List.singleton_append, go_zero, step_flag _ _ _ _ (Or.inr (Or.inr rfl))]; simp [Res.prepend_nil]
  rw [hflag, go_digits (some f) _ args d.digits (37 :: d.flag) (d.digits_dec h) (by simp)]
  have hfm : 37 :: d.flag ++ d.digits = d.fmts := by simp [MDir.fmts]
  rw [hfm, go_view f hf d.verb rest d.fmts args (d.fmtsOK h)]
  have hp : pops d.fmts d.verb = true := by
    rw [pops_iff]
    refine ⟨?_, by simp [MDir.fmts], h.verb⟩
    intro h92
    have hv := h.verb
    rw [h92] at hv
    revert hv; decide
  rw [if_pos hp]

/-- The argument handed to Fprintf for a conversion character. -/
def fargOf (v : UInt8) (a : Bytes) : FArg :=
  if v = 115 then .str a
  else if v = 105 ∨ v = 100 then .int (parseInt a).1
  else .uint (toU64 (parseInt a).1)

/-- `%i` and `%u` are printed with Go's `%d`. -/
def goVerb (v : UInt8) : UInt8 := if v = 105 ∨ v = 117 then 100 else v

/-- What a directive writes for the argument `a` (`[]` when the arguments ran out). -/
def MDir.out (f : Bytes → Res) (d : MDir) (a : Bytes) : Bytes :=
  if d.verb = 99 then [a.headD 0]
  else if d.verb = 98 then (match f a with | .ok o _ => o | _ => [])
  else (goFprintf (d.fmts ++ [goVerb d.verb]) (fargOf d.verb a)).getD []

theorem popOut_eq (f : Bytes → Res) (d : MDir) (h : d.WF) (rest a : Bytes) :
    popOut f d.verb rest d.fmts a = d.out f a := by
  obtain ⟨h37, hnf, hnd⟩ := verb_facts d.verb h.verb
  have h92 : d.verb ≠ 92 := by
    intro h92; have hv := h.verb; rw [h92] at hv; revert hv; decide
  have hlen : d.fmts.length > 0 := by simp [MDir.fmts]
  unfold popOut MDir.out step
  simp only [h92, hlen, h37, if_false, if_true]
  by_cases h99 : d.verb = 99
  · simp only [h99, if_true, List.length_cons, List.length_nil, Nat.zero_add, gt_iff_lt, Nat.lt_add_one,
      popArg_cons]
    cases a with
    | nil => rfl
    | cons b bs => simp [idx?]
  · have hverb : d.verb = 115 ∨ d.verb = 98 ∨ isNumVerb d.verb = true := by
      rcases h.verb with hv | hv
      · exact absurd hv h99
      · exact hv
    simp only [h99, hnf, hnd, hverb, if_false, if_true, popArg_cons]
    by_cases h98 : d.verb = 98
    · simp only [h98, if_true]
      cases f a <;> rfl
    · simp only [h98, if_false, fargOf, goVerb]
      cases goFprintf (d.fmts ++ [if d.verb = 105 ∨ d.verb = 117 then 100 else d.verb])
        (if d.verb = 115 then FArg.str a else if d.verb = 105 ∨ d.verb = 100 then FArg.int (parseInt a).1
          else FArg.uint (toU64 (parseInt a).1)) <;> rfl

/-- `directive_sem` for the model: a directive is processed as a unit; it writes `d.out` of the
    first argument (an empty string when there is none) and the loop goes on with the others. -/
theorem go_directive_out (f : Bytes → Res) (hf : ∀ a, ∃ o l, f a = .ok o l) (d : MDir) (h : d.WF)
    (rest : Bytes) (args : List Bytes) :
    go (some f) (d.render ++ rest) 0 ⟨[], args⟩ =
      (go (some f) rest 0 ⟨[], args.tail⟩).prepend (d.out f (args.headD [])) := by
  rw [go_directive f hf d h rest args, popOut_eq f d h]

/-! ## directives: what Fprintf is asked to do -/

/-- Decimal value of a digit string, continuing from `n`. -/
def decv : Bytes → Nat → Nat
  | [], n => n
  | c :: r, n => decv r (n * 10 + (c.toNat - 48))

def MDir.flags (d : MDir) : Flags :=
  { plus := d.flag = [43], minus := d.flag = [45], space := d.flag = [32], zero := d.zeros > 0 }

def MDir.wid (d : MDir) : Option Nat := if d.width = [] then none else some (decv d.width 0)

theorem parseFlags_zeros (r : Bytes) : ∀ (z : Nat) (fl : Flags),
    parseFlags fl (List.replicate z 48 ++ r) = parseFlags { fl with zero := fl.zero || decide (z > 0) } r
  | 0, fl => by simp
  | z + 1, fl => by
    rw [List.replicate_succ, List.cons_append, parseFlags]
    simp only [if_true]
    rw [parseFlags_zeros r z]
    simp

theorem parseFlags_stop (fl : Flags) (c : UInt8) (r : Bytes)
    (hc : c ≠ 48 ∧ c ≠ 43 ∧ c ≠ 45 ∧ c ≠ 32) : parseFlags fl (c :: r) = (fl, c :: r) := by
  simp [parseFlags, hc.1, hc.2.1, hc.2.2.1, hc.2.2.2]

theorem parsenum_run (v : UInt8) (hv : ¬ (48 ≤ v ∧ v ≤ 57)) :
    ∀ (ws : Bytes) (n : Nat) (b : Bool) (k : Nat), (∀ d ∈ ws, isDec d = true) → n < 10 ^ k →
      ws.length + k ≤ 6 →
      parsenum (ws ++ [v]) n b = some (decv ws n, b || !ws.isEmpty, [v])
  | [], n, b, _, _, _, _ => by simp [parsenum, hv, decv]
  | d :: ws, n, b, k, hds, hn, hk => by
    have hd : 48 ≤ d ∧ d ≤ 57 := (isDec_iff d).1 (hds d (List.mem_cons_self ..))
    have hk6 : k ≤ 5 := by simp at hk; omega
    have hpow : 10 ^ k ≤ 10 ^ 5 := Nat.pow_le_pow_right (by decide) hk6
    have hsmall : ¬ n > 1000000 := by omega
    have hdv : d.toNat - 48 < 10 := by
      have : d.toNat ≤ 57 := hd.2
      omega
    rw [List.cons_append, parsenum, if_pos hd, if_neg hsmall]
    rw [parsenum_run v hv ws _ true (k + 1) (fun x hx => hds x (List.mem_cons_of_mem _ hx))
      (by rw [Nat.pow_succ]; omega) (by simp at hk; omega)]
    simp [decv]

/-- Go's `parsenum` accepts a digit string iff no proper prefix has a value above 10^6 (the
    `tooLarge` test is made before each digit is added). -/
def PrefixOK : Bytes → Nat → Prop
  | [], _ => True
  | c :: r, n => n ≤ 1000000 ∧ PrefixOK r (n * 10 + (c.toNat - 48))

/-- The width digits are accepted by `fmt` (every width of at most 7 digits is; the largest is
    10000009). -/
def WidthOK (ws : Bytes) : Prop := PrefixOK ws 0

theorem parsenum_ok (v : UInt8) (hv : ¬ (48 ≤ v ∧ v ≤ 57)) :
    ∀ (ws : Bytes) (n : Nat) (b : Bool), (∀ d ∈ ws, isDec d = true) → PrefixOK ws n →
      parsenum (ws ++ [v]) n b = some (decv ws n, b || !ws.isEmpty, [v])
  | [], n, b, _, _ => by simp [parsenum, hv, decv]
  | d :: ws, n, b, hds, hok => by
    have hd : 48 ≤ d ∧ d ≤ 57 := (isDec_iff d).1 (hds d (List.mem_cons_self ..))
    have hsmall : ¬ n > 1000000 := by have := hok.1; omega
    rw [List.cons_append, parsenum, if_pos hd, if_neg hsmall]
    rw [parsenum_ok v hv ws _ true (fun x hx => hds x (List.mem_cons_of_mem _ hx)) hok.2]
    simp [decv]

theorem prefixOK_of_length : ∀ (ws : Bytes) (n k : Nat), (∀ d ∈ ws, isDec d = true) → n < 10 ^ k →
    ws.length + k ≤ 7 → PrefixOK ws n
  | [], _, _, _, _, _ => trivial
  | d :: ws, n, k, hds, hn, hk => by
    have hd : 48 ≤ d ∧ d ≤ 57 := (isDec_iff d).1 (hds d (List.mem_cons_self ..))
    have hk6 : k ≤ 6 := by simp at hk; omega
    have hpow : 10 ^ k ≤ 10 ^ 6 := Nat.pow_le_pow_right (by decide) hk6
    have hdv : d.toNat - 48 < 10 := by
      have : d.toNat ≤ 57 := hd.2
      omega
    refine ⟨by omega, ?_⟩
    exact prefixOK_of_length ws _ (k + 1) (fun x hx => hds x (List.mem_cons_of_mem _ hx))
      (by rw [Nat.pow_succ]; omega) (by simp at hk; omega)

/-- Every width of at most seven digits is accepted. -/
theorem widthOK_of_length (ws : Bytes) (hds : ∀ d ∈ ws, isDec d = true) (h : ws.length ≤ 7) : WidthOK ws :=
  prefixOK_of_length ws 0 0 hds (by decide) (by omega)

theorem verb_fmt_facts (v : UInt8) (hv : v = 100 ∨ v = 111 ∨ v = 120 ∨ v = 115) :
    (v ≠ 48 ∧ v ≠ 43 ∧ v ≠ 45 ∧ v ≠ 32) ∧ (97 ≤ v ∧ v ≤ 122) ∧ ¬ (48 ≤ v ∧ v ≤ 57) ∧
    ¬ (v = 46 ∨ v = 42 ∨ v = 91 ∨ v = 37 ∨ v ≥ 128 ∨ ¬ True) := by
  rcases hv with h | h | h | h <;> subst h <;> decide

theorem dec_not_flag : ∀ c : UInt8, (48 ≤ c ∧ c ≤ 57) → c ≠ 48 →
    (c ≠ 48 ∧ c ≠ 43 ∧ c ≠ 45 ∧ c ≠ 32) ∧ ¬ (97 ≤ c ∧ c ≤ 122) := by
  apply uint8_forall
  decide +kernel

/-- The call `fmt.Fprintf(sb, string(fmts), farg)` of a well-formed directive with a width of at
    most six digits is `printArg` with the directive's flags and width. -/
theorem goFprintf_closed (d : MDir) (h : d.WF) (hw : WidthOK d.width) (v : UInt8)
    (hv : v = 100 ∨ v = 111 ∨ v = 120 ∨ v = 115) (farg : FArg) :
    goFprintf (d.fmts ++ [v]) farg = printArg d.flags d.wid farg v := by
  obtain ⟨hvf, hvl, hvd, hvok⟩ := verb_fmt_facts v hv
  have hshape : d.fmts ++ [v] = 37 :: (d.flag ++ (List.replicate d.zeros 48 ++ (d.width ++ [v]))) := by
    simp [MDir.fmts, MDir.digits]
  rw [hshape]
  unfold goFprintf
  simp only [ne_eq, not_true_eq_false, if_false]
  -- the flag loop
  have hpf : parseFlags {} (d.flag ++ (List.replicate d.zeros 48 ++ (d.width ++ [v]))) =
      (d.flags, d.width ++ [v]) := by
    have hstop : ∀ fl : Flags, parseFlags fl (d.width ++ [v]) = (fl, d.width ++ [v]) := by
      intro fl
      cases hwd : d.width with
      | nil => exact parseFlags_stop fl v [] hvf
      | cons c r =>
        have hc : 48 ≤ c ∧ c ≤ 57 := (isDec_iff c).1 (h.width c (by rw [hwd]; exact List.mem_cons_self ..))
        exact parseFlags_stop fl c _ (dec_not_flag c hc (h.nz c r hwd)).1
    rcases h.flag with hfl | hfl | hfl | hfl
    · rw [hfl, List.nil_append, parseFlags_zeros, hstop]; simp [MDir.flags, hfl]
    · rw [hfl, List.singleton_append, parseFlags]
      simp only [show ¬ ((43 : UInt8) = 48) by decide, if_false, if_true]
      rw [parseFlags_zeros, hstop]; simp [MDir.flags, hfl]
    · rw [hfl, List.singleton_append, parseFlags]
      simp only [show ¬ ((45 : UInt8) = 48) by decide, show ¬ ((45 : UInt8) = 43) by decide, if_false, if_true]
      rw [parseFlags_zeros, hstop]; simp [MDir.flags, hfl]
    · rw [hfl, List.singleton_append, parseFlags]
      simp only [show ¬ ((32 : UInt8) = 48) by decide, show ¬ ((32 : UInt8) = 43) by decide,
        show ¬ ((32 : UInt8) = 45) by decide, if_false, if_true]
      rw [parseFlags_zeros, hstop]; simp [MDir.flags, hfl]
  rw [hpf]
  cases hwd : d.width with
  | nil =>
    simp only [List.nil_append, hvl, and_self, if_true, MDir.wid, hwd]
  | cons c r =>
    have hc : 48 ≤ c ∧ c ≤ 57 := (isDec_iff c).1 (h.width c (by rw [hwd]; exact List.mem_cons_self ..))
    have hcl := (dec_not_flag c hc (h.nz c r hwd)).2
    simp only [List.cons_append, hcl, if_false]
    have hp := parsenum_ok v hvd (c :: r) 0 false (by rw [← hwd]; exact h.width) (by rw [← hwd]; exact hw)
    simp only [List.cons_append] at hp
    rw [hp]
    simp only [not_true_eq_false] at hvok
    simp only [not_true_eq_false, hvok, if_false, MDir.wid, hwd]
    simp

/-! ## Go's number and string formatting is C's -/

/-- fmtInteger after the sign and the digits have been determined. -/
def fmtCore (fl : Flags) (wid : Option Nat) (sign ds : Bytes) : Bytes :=
  let prec : Nat := match wid with
    | some w => if fl.zero ∧ ¬ fl.minus then w - sign.length else 0
    | none => 0
  let body := sign ++ (List.replicate (prec - ds.length) 48 ++ ds)
  pad { fl with zero := false } wid body.length body

theorem fmtInteger_core (fl : Flags) (wid : Option Nat) (u base : Nat) (isSigned : Bool) :
    fmtInteger fl wid u base isSigned =
      fmtCore fl wid
        (if (isSigned && decide (u ≥ two63)) = true then [45] else if fl.plus then [43]
          else if fl.space then [32] else [])
        (natDigits base (if (isSigned && decide (u ≥ two63)) = true then two64 - u else u)) := by
  unfold fmtInteger fmtCore
  cases hneg : (isSigned && decide (u ≥ two63))
  · cases hp : fl.plus <;> cases hs : fl.space <;> cases wid <;> simp
  · cases wid <;> simp

/-- The correspondence between Go's flag/width record and the specification's directive. -/
structure FlagsMatch (fl : Flags) (wid : Option Nat) (sd : Spec.Dir) : Prop where
  minus : sd.minus = fl.minus
  plus : sd.plus = fl.plus
  space : sd.space = fl.space
  zero : sd.zero = fl.zero
  width : sd.width = wid.getD 0
  pos : ∀ w, wid = some w → w > 0

theorem fmtCore_spec (fl : Flags) (wid : Option Nat) (sd : Spec.Dir) (hm : FlagsMatch fl wid sd)
    (sign ds : Bytes) : fmtCore fl wid sign ds = Spec.fmtNum sd sign ds := by
  unfold fmtCore Spec.fmtNum
  rw [hm.zero, hm.minus, hm.width]
  cases wid with
  | none =>
    simp only [pad, Option.getD_none, Nat.zero_sub, List.replicate_zero, List.nil_append]
    split
    · simp [Spec.zeros]
    · simp [Spec.padTo, Spec.spaces]
  | some w =>
    have hw : w > 0 := hm.pos w rfl
    have hw0 : w ≠ 0 := by omega
    simp only [pad, Option.getD_some, hw0, if_false]
    cases hz : fl.zero <;> cases hmn : fl.minus
    · simp [Spec.padTo, Spec.spaces]
    · simp [Spec.padTo, Spec.spaces]
    · have hlen : w - (sign.length + (w - sign.length - ds.length + ds.length)) = 0 := by omega
      simp [Spec.zeros, hlen]
    · simp [Spec.padTo, Spec.spaces]

theorem toU64_neg_iff (v : Int) (hlo : -9223372036854775808 ≤ v) (hhi : v ≤ 9223372036854775807) :
    (toU64 v ≥ two63 ↔ v < 0) ∧ (v < 0 → two64 - toU64 v = v.natAbs) ∧ (¬ v < 0 → toU64 v = v.natAbs) := by
  unfold toU64 two63 two64
  refine ⟨?_, ?_, ?_⟩ <;> omega

/-- `%d` of a Go `int`: C's `%d` with the same flags and width. -/
theorem fmtInteger_signed (fl : Flags) (wid : Option Nat) (sd : Spec.Dir) (hm : FlagsMatch fl wid sd)
    (v : Int) (hlo : -9223372036854775808 ≤ v) (hhi : v ≤ 9223372036854775807) :
    fmtInteger fl wid (toU64 v) 10 true = Spec.fmtSigned sd v := by
  obtain ⟨h1, h2, h3⟩ := toU64_neg_iff v hlo hhi
  rw [fmtInteger_core]
  unfold Spec.fmtSigned
  rw [hm.plus, hm.space]
  by_cases hv : v < 0
  · have hneg : (true && decide (toU64 v ≥ two63)) = true := by simp [h1.2 hv]
    simp only [hneg, if_true]
    simp only [hv, h2 hv, if_true]
    exact fmtCore_spec fl wid sd hm _ _
  · have hneg : (true && decide (toU64 v ≥ two63)) = false := by
      simp only [Bool.true_and, decide_eq_false_iff_not]; intro h; exact hv (h1.1 h)
    simp only [hneg, Bool.false_eq_true, if_false]
    simp only [hv, h3 hv, if_false]
    exact fmtCore_spec fl wid sd hm _ _

/-- `%d`/`%o`/`%x` of a Go `uint` without `+`/space: C's `%u`/`%o`/`%x`. -/
theorem fmtInteger_unsigned (fl : Flags) (wid : Option Nat) (sd : Spec.Dir) (hm : FlagsMatch fl wid sd)
    (hp : fl.plus = false) (hs : fl.space = false) (base u : Nat) :
    fmtInteger fl wid u base false = Spec.fmtUnsigned sd base u := by
  rw [fmtInteger_core]
  unfold Spec.fmtUnsigned
  simp only [Bool.false_and, Bool.false_eq_true, if_false, hp, hs]
  exact fmtCore_spec fl wid sd hm _ _

/-! ## directives against the specification's formatting functions -/

/-- The directive as the specification sees it. -/
def MDir.spec (d : MDir) : Spec.Dir :=
  { minus := d.flag = [45], plus := d.flag = [43], space := d.flag = [32], zero := d.zeros > 0,
    width := decv d.width 0, verb := d.verb }

theorem decv_ge : ∀ (ds : Bytes) (n : Nat), n ≤ decv ds n
  | [], n => Nat.le_refl n
  | c :: r, n => by
    have := decv_ge r (n * 10 + (c.toNat - 48))
    simp only [decv]; omega

theorem MDir.flagsMatch (d : MDir) (h : d.WF) : FlagsMatch d.flags d.wid d.spec where
  minus := rfl
  plus := rfl
  space := rfl
  zero := rfl
  width := by
    unfold MDir.wid MDir.spec
    cases hw : d.width with
    | nil => simp [decv]
    | cons c r => simp
  pos := by
    intro w hw
    unfold MDir.wid at hw
    cases hwd : d.width with
    | nil => rw [hwd] at hw; simp at hw
    | cons c r =>
      rw [hwd] at hw
      simp only [reduceCtorEq, if_false, Option.some.injEq] at hw
      have hc : 48 ≤ c ∧ c ≤ 57 := (isDec_iff c).1 (h.width c (by rw [hwd]; exact List.mem_cons_self ..))
      have hnz : c ≠ 48 := h.nz c r hwd
      have h1 : c.toNat - 48 ≥ 1 := by
        have h48 : (48 : Nat) ≤ c.toNat := hc.1
        have : c.toNat ≠ 48 := fun hh => hnz (UInt8.toNat_inj.1 (by simpa using hh))
        omega
      have := decv_ge r (0 * 10 + (c.toNat - 48))
      simp only [decv] at hw
      omega

theorem clamp_range (neg : Bool) (un : Nat) :
    -9223372036854775808 ≤
      (if neg = false ∧ un ≥ two63 then (Int.ofNat (two63 - 1), NumErr.range)
       else if neg = true ∧ un > two63 then (- Int.ofNat two63, NumErr.range)
       else (if neg then - Int.ofNat un else Int.ofNat un, NumErr.ok)).1 ∧
    (if neg = false ∧ un ≥ two63 then (Int.ofNat (two63 - 1), NumErr.range)
       else if neg = true ∧ un > two63 then (- Int.ofNat two63, NumErr.range)
       else (if neg then - Int.ofNat un else Int.ofNat un, NumErr.ok)).1 ≤ 9223372036854775807 := by
  unfold two63
  cases neg
  · by_cases h : un ≥ 9223372036854775808
    · simp [h]
    · simp [h]; omega
  · by_cases h : un > 9223372036854775808
    · simp [h]
    · simp [h]; omega

/-- `ParseInt(arg, 0, 0)` always yields an int64. -/
theorem parseInt_range (a : Bytes) :
    -9223372036854775808 ≤ (parseInt a).1 ∧ (parseInt a).1 ≤ 9223372036854775807 := by
  unfold parseInt
  by_cases ha : a = []
  · simp [ha]
  · rw [if_neg ha]
    simp only
    split
    · simp
    · exact clamp_range _ _

/-- `%d` / `%i`: the model writes C's `%d` rendering (flags, zero padding, width) of the value Go
    parsed from the argument. -/
theorem dir_out_signed (f : Bytes → Res) (d : MDir) (h : d.WF) (hw : WidthOK d.width)
    (hv : d.verb = 100 ∨ d.verb = 105) (a : Bytes) :
    d.out f a = Spec.fmtSigned d.spec (parseInt a).1 := by
  have h99 : d.verb ≠ 99 := by rcases hv with h | h <;> rw [h] <;> decide
  have h98 : d.verb ≠ 98 := by rcases hv with h | h <;> rw [h] <;> decide
  have hgv : goVerb d.verb = 100 := by rcases hv with h | h <;> rw [h] <;> rfl
  have hfa : fargOf d.verb a = .int (parseInt a).1 := by
    rcases hv with h | h <;> rw [h] <;> rfl
  unfold MDir.out
  rw [if_neg h99, if_neg h98, hgv, hfa, goFprintf_closed d h hw 100 (Or.inl rfl)]
  obtain ⟨hlo, hhi⟩ := parseInt_range a
  simp only [printArg, true_or, if_true, Option.getD_some]
  exact fmtInteger_signed _ _ _ (d.flagsMatch h) _ hlo hhi

/-- `%u` / `%o` / `%x` without a `+` or space flag: C's rendering of the value Go parsed, taken
    modulo 2^64. -/
theorem dir_out_unsigned (f : Bytes → Res) (d : MDir) (h : d.WF) (hw : WidthOK d.width)
    (hv : d.verb = 117 ∨ d.verb = 111 ∨ d.verb = 120) (hfl : d.flag = [] ∨ d.flag = [45]) (a : Bytes) :
    d.out f a = Spec.fmtUnsigned d.spec (if d.verb = 111 then 8 else if d.verb = 120 then 16 else 10)
      (toU64 (parseInt a).1) := by
  have h99 : d.verb ≠ 99 := by rcases hv with h | h | h <;> rw [h] <;> decide
  have h98 : d.verb ≠ 98 := by rcases hv with h | h | h <;> rw [h] <;> decide
  have hfa : fargOf d.verb a = .uint (toU64 (parseInt a).1) := by
    rcases hv with h | h | h <;> rw [h] <;> rfl
  have hp : d.flags.plus = false := by rcases hfl with h | h <;> simp [MDir.flags, h]
  have hs : d.flags.space = false := by rcases hfl with h | h <;> simp [MDir.flags, h]
  unfold MDir.out
  rw [if_neg h99, if_neg h98, hfa]
  rcases hv with hv | hv | hv
  · rw [hv, show goVerb 117 = 100 from rfl, goFprintf_closed d h hw 100 (Or.inl rfl)]
    simp only [printArg, true_or, if_true, Option.getD_some]
    simpa using fmtInteger_unsigned _ _ _ (d.flagsMatch h) hp hs 10 _
  · rw [hv, show goVerb 111 = 111 from rfl, goFprintf_closed d h hw 111 (Or.inr (Or.inl rfl))]
    simp only [printArg]
    simpa using fmtInteger_unsigned _ _ _ (d.flagsMatch h) hp hs 8 _
  · rw [hv, show goVerb 120 = 120 from rfl, goFprintf_closed d h hw 120 (Or.inr (Or.inr (Or.inl rfl)))]
    simp only [printArg]
    simpa using fmtInteger_unsigned _ _ _ (d.flagsMatch h) hp hs 16 _

theorem runeCountFuel_ascii : ∀ (fuel : Nat) (s : Bytes), (∀ b ∈ s, b < 128) → s.length ≤ fuel →
    runeCountFuel fuel s = s.length
  | 0, s, _, h => by
    have : s = [] := List.eq_nil_of_length_eq_zero (by omega)
    subst this; rfl
  | fuel + 1, [], _, _ => rfl
  | fuel + 1, b :: r, ha, h => by
    have hb : b < 128 := ha b (List.mem_cons_self ..)
    have hw : runeWidth (b :: r) = 1 := by simp [runeWidth, hb]
    rw [runeCountFuel, hw]
    · simp only [List.drop_succ_cons, List.drop_zero, List.length_cons]
      rw [runeCountFuel_ascii fuel r (fun x hx => ha x (List.mem_cons_of_mem _ hx)) (by simp at h; omega)]
      omega
    · intro hh; cases hh

theorem runeCount_ascii (s : Bytes) (h : ∀ b ∈ s, b < 128) : runeCount s = s.length :=
  runeCountFuel_ascii s.length s h (Nat.le_refl _)

/-- `%s` without the `0` flag: the argument padded with spaces to the width, on the left or (flag
    `-`) on the right — provided the width is absent or the argument is ASCII (Go counts runes). -/
theorem dir_out_string (f : Bytes → Res) (d : MDir) (h : d.WF) (hw : WidthOK d.width)
    (hv : d.verb = 115) (hz : d.zeros = 0) (a : Bytes) (ha : d.width = [] ∨ ∀ b ∈ a, b < 128) :
    d.out f a = Spec.padTo d.spec.minus d.spec.width a := by
  unfold MDir.out
  rw [hv]
  simp only [show ¬ ((115 : UInt8) = 99) by decide, show ¬ ((115 : UInt8) = 98) by decide, if_false]
  have hgf := goFprintf_closed d h hw 115 (Or.inr (Or.inr (Or.inr rfl))) (fargOf 115 a)
  rw [show goVerb 115 = 115 from rfl, hgf]
  simp only [fargOf, if_true, printArg, true_or, Option.getD_some, fmtS]
  have hm := d.flagsMatch h
  rw [hm.minus, hm.width]
  have hzero : d.flags.zero = false := by simp [MDir.flags, hz]
  unfold pad Spec.padTo Spec.spaces
  cases hwid : d.wid with
  | none => simp
  | some w =>
    have hw0 : w ≠ 0 := by have := hm.pos w hwid; omega
    have hne : d.width ≠ [] := by
      intro hnil; simp [MDir.wid, hnil] at hwid
    have hasc : ∀ b ∈ a, b < 128 := by
      rcases ha with ha | ha
      · exact absurd ha hne
      · exact ha
    simp only [Option.getD_some, hw0, if_false, hzero, Bool.false_eq_true, false_and, if_false,
      runeCount_ascii a hasc]
    cases hmn : d.flags.minus <;> simp

/-- `%c`: the first byte of the argument, a NUL byte when it is empty or missing; flags and width
    are ignored by the model. -/
theorem dir_out_char (f : Bytes → Res) (d : MDir) (hv : d.verb = 99) (a : Bytes) :
    d.out f a = [a.headD 0] := by
  simp [MDir.out, hv]

/-- `%b`: what the nested escape-only formatter writes; flags and width are ignored by the model. -/
theorem dir_out_b (d : MDir) (hv : d.verb = 98) (a : Bytes) :
    ∃ o, formatNil a = .ok o 0 ∧ d.out formatNil a = o := by
  obtain ⟨o, ho⟩ := formatNil_ok a
  refine ⟨o, ho, ?_⟩
  simp [MDir.out, hv, ho]

/-! ## numeric arguments: Go's ParseInt against strtoimax (plain decimal numerals) -/

theorem decdigit_vals : ∀ c : UInt8, (48 ≤ c ∧ c ≤ 57) →
    digitVal c = some (c.toNat - 48) ∧ Spec.hexVal c = some (c.toNat - 48) ∧ c.toNat - 48 < 10 ∧
    c ≠ 43 ∧ c ≠ 45 ∧ c ≠ 39 ∧ c ≠ 34 ∧ Spec.isSpace c = false := by
  apply uint8_forall
  decide +kernel

theorem validDigits_dec (ds : Bytes) (h : ∀ d ∈ ds, 48 ≤ d ∧ d ≤ 57) : ValidDigits 10 ds := fun d hd =>
  ⟨_, (decdigit_vals d (h d hd)).1, (decdigit_vals d (h d hd)).2.2.1⟩

theorem scanDigits_dec : ∀ (ds : Bytes) (acc : Nat) (any : Bool), (∀ d ∈ ds, 48 ≤ d ∧ d ≤ 57) →
    Spec.scanDigits 10 ds acc any = (foldv 10 ds acc, [], any || !ds.isEmpty)
  | [], acc, any, _ => by simp [Spec.scanDigits, foldv_nil]
  | d :: ds, acc, any, h => by
    obtain ⟨h1, h2, h3, _⟩ := decdigit_vals d (h d (List.mem_cons_self ..))
    rw [Spec.scanDigits, h2]
    simp only [h3, if_true]
    rw [scanDigits_dec ds _ true (fun x hx => h x (List.mem_cons_of_mem _ hx)), foldv_cons, h1]
    simp

/-- ParseUint with base 0 on a decimal numeral without leading zero. -/
theorem parseUint_base0_dec (c0 : UInt8) (t : Bytes) (h : ∀ d ∈ c0 :: t, 48 ≤ d ∧ d ≤ 57) (h0 : c0 ≠ 48) :
    parseUint (c0 :: t) 0 0 =
      if foldv 10 (c0 :: t) 0 ≤ maxU64 then (foldv 10 (c0 :: t) 0, .ok) else (maxU64, .range) := by
  have hloop := parseUintLoop_valid 10 (by decide) true (2 ^ 64 - 1) (by decide) false (c0 :: t) 0
    (validDigits_dec _ h) (Nat.zero_le _)
  have hm : (2 : Nat) ^ 64 - 1 = maxU64 := by decide
  unfold parseUint
  simp only [reduceCtorEq, if_false, if_true, h0, beq_self_eq_true]
  rw [hloop, hm]
  by_cases hle : foldv 10 (c0 :: t) 0 ≤ maxU64
  · simp [hle]
  · simp [hle]

/-- On a plain decimal numeral (no sign, no leading zero) Go's ParseInt and bash's strtoimax give
    the same int64, and bash reports no error. -/
theorem numeric_arg_decimal (c0 : UInt8) (t : Bytes) (h : ∀ d ∈ c0 :: t, 48 ≤ d ∧ d ≤ 57) (h0 : c0 ≠ 48) :
    (parseInt (c0 :: t)).1 = (Spec.signedArg (c0 :: t)).val ∧ (Spec.signedArg (c0 :: t)).bad = false := by
  obtain ⟨_, _, _, h43, h45, h39, h34, hsp⟩ := decdigit_vals c0 (h c0 (List.mem_cons_self ..))
  have hscan : Spec.scanNum (c0 :: t) = { neg := false, mag := foldv 10 (c0 :: t) 0, rest := [] } := by
    unfold Spec.scanNum
    simp [List.dropWhile, hsp, h43, h45, h0, scanDigits_dec (c0 :: t) 0 false h]
  have hspec : Spec.signedArg (c0 :: t) =
      { val := if (foldv 10 (c0 :: t) 0 : Int) > 9223372036854775807 then 9223372036854775807
               else (foldv 10 (c0 :: t) 0 : Int), bad := false } := by
    unfold Spec.signedArg
    simp only [Spec.quoteCode, h39, h34, or_self, if_false, hscan]
    simp
    omega
  rw [hspec]
  refine ⟨?_, rfl⟩
  unfold parseInt
  simp only [reduceCtorEq, if_false, h43, h45, parseUint_base0_dec c0 t h h0]
  by_cases hle : foldv 10 (c0 :: t) 0 ≤ maxU64
  · rw [if_pos hle]
    simp only [two63]
    by_cases hbig : foldv 10 (c0 :: t) 0 ≥ 9223372036854775808
    · simp [hbig]; omega
    · simp [hbig]; omega
  · rw [if_neg hle]
    simp only [maxU64] at hle
    simp [two63, maxU64]; omega


/-! ## numeric arguments: every well-formed C integer literal -/

/-- `c` is a digit below `b` for Go's `digitVal` and for the specification's `hexVal` alike. -/
def bothLt (b : Nat) (c : UInt8) : Bool :=
  match digitVal c, Spec.hexVal c with
  | some x, some y => x == y && decide (x < b)
  | _, _ => false

theorem bothLt_iff (b : Nat) (c : UInt8) :
    bothLt b c = true ↔ ∃ x, digitVal c = some x ∧ Spec.hexVal c = some x ∧ x < b := by
  unfold bothLt
  cases digitVal c <;> cases Spec.hexVal c <;> simp
  intro _; exact eq_comm

def BothDigits (b : Nat) (ds : Bytes) : Prop := ∀ d ∈ ds, bothLt b d = true

theorem BothDigits.valid {b : Nat} {ds : Bytes} (h : BothDigits b ds) : ValidDigits b ds := fun d hd => by
  obtain ⟨x, h1, _, h3⟩ := (bothLt_iff b d).1 (h d hd)
  exact ⟨x, h1, h3⟩

theorem scanDigits_both (b : Nat) : ∀ (ds : Bytes) (acc : Nat) (any : Bool), BothDigits b ds →
    Spec.scanDigits b ds acc any = (foldv b ds acc, [], any || !ds.isEmpty)
  | [], acc, any, _ => by simp [Spec.scanDigits, foldv_nil]
  | d :: ds, acc, any, h => by
    obtain ⟨x, h1, h2, h3⟩ := (bothLt_iff b d).1 (h d (List.mem_cons_self ..))
    rw [Spec.scanDigits, h2]
    simp only [h3, if_true]
    rw [scanDigits_both b ds _ true (fun y hy => h y (List.mem_cons_of_mem _ hy)), foldv_cons, h1]
    simp

theorem dec_both : ∀ c : UInt8, (48 ≤ c ∧ c ≤ 57) → bothLt 10 c = true := by
  apply uint8_forall; decide +kernel
theorem oct_both : ∀ c : UInt8, (48 ≤ c ∧ c ≤ 55) → bothLt 8 c = true := by
  apply uint8_forall; decide +kernel
theorem hex_both : ∀ c : UInt8, isDigitChar true c = true → bothLt 16 c = true := by
  apply uint8_forall; decide +kernel

/-- Facts about the first character of a numeral body. -/
theorem dec_head : ∀ c : UInt8, (48 ≤ c ∧ c ≤ 57) →
    c ≠ 43 ∧ c ≠ 45 ∧ c ≠ 39 ∧ c ≠ 34 ∧ Spec.isSpace c = false ∧
    lower c ≠ 98 ∧ lower c ≠ 111 ∧ lower c ≠ 120 ∧ c ≠ 120 ∧ c ≠ 88 := by
  apply uint8_forall; decide +kernel

/-- The unsigned part of Go's result: the value, or 2^64-1 with a range error. -/
def clampU (v : Nat) : Nat × NumErr := if v ≤ maxU64 then (v, .ok) else (maxU64, .range)

theorem loop_clampU (b : Nat) (hb : 1 ≤ b) (s ds : Bytes) (hv : ValidDigits b ds) :
    (match parseUintLoop b true (maxU64 / b + 1) (2 ^ 64 - 1) ds 0 false with
      | (n, NumErr.ok, us) => if us = true ∧ ¬ underscoreOK s = true then (0, NumErr.syntax) else (n, NumErr.ok)
      | (n, e, _) => (n, e)) = clampU (foldv b ds 0) := by
  have hloop := parseUintLoop_valid b hb true (2 ^ 64 - 1) (by decide) false ds 0 hv (Nat.zero_le _)
  have hm : (2 : Nat) ^ 64 - 1 = maxU64 := by decide
  rw [hloop, hm]
  unfold clampU
  by_cases hle : foldv b ds 0 ≤ maxU64
  · simp [hle]
  · simp [hle]

/-- The three shapes of an unsigned C integer literal, with base and digit string. -/
inductive NumBody : Bytes → Nat → Bytes → Prop
  | dec (c0 : UInt8) (t : Bytes) : (∀ d ∈ c0 :: t, 48 ≤ d ∧ d ≤ 57) → c0 ≠ 48 → NumBody (c0 :: t) 10 (c0 :: t)
  | oct (t : Bytes) : (∀ d ∈ t, 48 ≤ d ∧ d ≤ 55) → NumBody (48 :: t) 8 t
  | hex (x : UInt8) (t : Bytes) : (x = 120 ∨ x = 88) → t ≠ [] → (∀ d ∈ t, isDigitChar true d = true) →
      NumBody (48 :: x :: t) 16 t

theorem NumBody.both {body ds : Bytes} {b : Nat} (h : NumBody body b ds) : BothDigits b ds := by
  cases h with
  | dec c0 t hd _ => exact fun d hd' => dec_both d (hd d hd')
  | oct t ho => exact fun d hd' => oct_both d (ho d hd')
  | hex x t _ _ hh => exact fun d hd' => hex_both d (hh d hd')

/-- `ParseUint(body, 0, 0)` on a literal: its value, clamped. -/
theorem parseUint_body {body ds : Bytes} {b : Nat} (h : NumBody body b ds) :
    parseUint body 0 0 = clampU (foldv b ds 0) := by
  have hv := h.both.valid
  cases h with
  | dec c0 t hd h0 =>
    unfold parseUint
    simp only [reduceCtorEq, if_false, if_true, h0, beq_self_eq_true]
    exact loop_clampU 10 (by decide) _ _ hv
  | oct _ ho =>
    unfold parseUint
    simp only [reduceCtorEq, if_false, if_true, beq_self_eq_true]
    cases ds with
    | nil => simp [parseUintLoop, clampU, foldv_nil, maxU64]
    | cons c1 t2 =>
      obtain ⟨_, _, _, _, _, l1, l2, l3, _, _⟩ := dec_head c1
        ⟨(ho c1 (List.mem_cons_self ..)).1, Nat.le_trans (ho c1 (List.mem_cons_self ..)).2 (by decide)⟩
      simp only [l1, l2, l3, and_false, if_false]
      exact loop_clampU 8 (by decide) _ _ hv
  | hex x _ hx hne hh =>
    unfold parseUint
    have hl : lower x = 120 := by rcases hx with h | h <;> subst h <;> decide
    cases ds with
    | nil => exact absurd rfl hne
    | cons d1 t' =>
      have hlen : (48 :: x :: d1 :: t').length ≥ 3 := by simp
      simp only [reduceCtorEq, if_false, if_true, beq_self_eq_true, hl, hlen, true_and,
        show ¬ ((120 : UInt8) = 98) by decide, show ¬ ((120 : UInt8) = 111) by decide]
      exact loop_clampU 16 (by decide) _ _ hv

/-- What bash's strtoimax scan yields on a literal after the sign has been taken off. -/
theorem scan_body {body ds : Bytes} {b : Nat} (h : NumBody body b ds) (neg : Bool) (s : Bytes) :
    (match body with
      | c0 :: r0 =>
        if c0 = 48 then
          match r0 with
          | c1 :: r1 =>
            if c1 = 120 ∨ c1 = 88 then
              match Spec.scanDigits 16 r1 0 false with
              | (v, rest, true) => ({ neg := neg, mag := v, rest := rest } : Spec.Scan)
              | _ => { neg := neg, mag := 0, rest := r0 }
            else
              let r := Spec.scanDigits 8 r0 0 true
              { neg := neg, mag := r.1, rest := r.2.1 }
          | [] => { neg := neg, mag := 0, rest := [] }
        else
          match Spec.scanDigits 10 body 0 false with
          | (v, rest, true) => { neg := neg, mag := v, rest := rest }
          | _ => { neg := false, mag := 0, rest := s }
      | [] => { neg := false, mag := 0, rest := s }) = { neg := neg, mag := foldv b ds 0, rest := [] } := by
  have hb := h.both
  cases h with
  | dec c0 t hd h0 =>
    simp [h0, scanDigits_both 10 _ 0 false hb]
  | oct _ ho =>
    cases ds with
    | nil => simp [foldv_nil]
    | cons c1 t2 =>
      obtain ⟨_, _, _, _, _, _, _, _, n1, n2⟩ := dec_head c1
        ⟨(ho c1 (List.mem_cons_self ..)).1, Nat.le_trans (ho c1 (List.mem_cons_self ..)).2 (by decide)⟩
      simp [n1, n2, scanDigits_both 8 _ 0 true hb]
  | hex x _ hx hne hh =>
    have hne' : ds.isEmpty = false := by cases ds <;> simp_all
    simp [hx, scanDigits_both 16 _ 0 false hb, hne']

/-- ±v clamped to the int64 range: what both Go and bash end up with. -/
def clampI (neg : Bool) (v : Nat) : Int :=
  if neg then (if (v : Int) > 9223372036854775808 then -9223372036854775808 else -(v : Int))
  else (if (v : Int) > 9223372036854775807 then 9223372036854775807 else (v : Int))

/-- The tail of `ParseInt` once the sign is stripped and `ParseUint` has answered. -/
def goClamp (neg : Bool) (r : Nat × NumErr) : Int × NumErr :=
  match r with
  | (_, .syntax) => (0, .syntax)
  | (un, _) =>
    if neg = false ∧ un ≥ two63 then (Int.ofNat (two63 - 1), .range)
    else if neg = true ∧ un > two63 then (- Int.ofNat two63, .range)
    else (if neg then - Int.ofNat un else Int.ofNat un, .ok)

theorem goClamp_val (neg : Bool) (v : Nat) : (goClamp neg (clampU v)).1 = clampI neg v := by
  unfold clampU goClamp clampI two63 maxU64
  by_cases hle : v ≤ 18446744073709551615
  · rw [if_pos hle]
    cases neg
    · by_cases h : v ≥ 9223372036854775808
      · simp [h]; omega
      · simp [h]; omega
    · by_cases h : v > 9223372036854775808
      · simp [h]; omega
      · simp [h]; omega
  · rw [if_neg hle]
    cases neg <;> simp <;> omega

theorem NumBody.head {body ds : Bytes} {b : Nat} (h : NumBody body b ds) :
    ∃ c r, body = c :: r ∧ 48 ≤ c ∧ c ≤ 57 := by
  cases h with
  | dec c0 t hd _ => exact ⟨c0, t, rfl, hd c0 (List.mem_cons_self ..)⟩
  | oct _ _ => exact ⟨48, _, rfl, by decide⟩
  | hex x _ _ _ _ => exact ⟨48, _, rfl, by decide⟩

theorem parseInt_clean (sign : Bytes) (hs : sign = [] ∨ sign = [43] ∨ sign = [45]) {body ds : Bytes} {b : Nat}
    (h : NumBody body b ds) :
    (parseInt (sign ++ body)).1 = clampI (decide (sign = [45])) (foldv b ds 0) := by
  obtain ⟨c, r, hb, hc⟩ := h.head
  obtain ⟨h43, h45, _⟩ := dec_head c hc
  have hp := parseUint_body h
  rw [← goClamp_val]
  rcases hs with hs | hs | hs <;> subst hs
  · subst hb
    rw [← hp]
    unfold parseInt goClamp
    simp only [List.nil_append, reduceCtorEq, if_false, h43, h45]
    cases parseUint (c :: r) 0 0 with
    | mk un e => cases e <;> simp
  · rw [← hp]
    unfold parseInt goClamp
    simp only [List.singleton_append, reduceCtorEq, if_false, if_true]
    cases parseUint body 0 0 with
    | mk un e => cases e <;> simp
  · rw [← hp]
    unfold parseInt goClamp
    simp only [List.singleton_append, reduceCtorEq, if_false, if_true,
      show ¬ ((45 : UInt8) = 43) by decide]
    cases parseUint body 0 0 with
    | mk un e => cases e <;> simp

theorem scanNum_clean (sign : Bytes) (hs : sign = [] ∨ sign = [43] ∨ sign = [45]) {body ds : Bytes} {b : Nat}
    (h : NumBody body b ds) :
    Spec.scanNum (sign ++ body) = { neg := decide (sign = [45]), mag := foldv b ds 0, rest := [] } := by
  obtain ⟨c, r, hb, hc⟩ := h.head
  obtain ⟨h43, h45, _, _, hsp, _⟩ := dec_head c hc
  have hsb := fun neg s => scan_body h neg s
  rcases hs with hs | hs | hs <;> subst hs
  · unfold Spec.scanNum
    subst hb
    simp only [List.nil_append, List.dropWhile, hsp, h43, h45, if_false]
    exact hsb false _
  · unfold Spec.scanNum
    simp only [List.singleton_append, List.dropWhile, show Spec.isSpace 43 = false by decide,
      show ¬ ((43 : UInt8) = 45) by decide, if_false, if_true]
    exact hsb false _
  · unfold Spec.scanNum
    simp only [List.singleton_append, List.dropWhile, show Spec.isSpace 45 = false by decide, if_true]
    exact hsb true _

theorem signedArg_clean (sign : Bytes) (hs : sign = [] ∨ sign = [43] ∨ sign = [45]) {body ds : Bytes} {b : Nat}
    (h : NumBody body b ds) :
    Spec.signedArg (sign ++ body) = { val := clampI (decide (sign = [45])) (foldv b ds 0), bad := false } := by
  obtain ⟨c, r, hb, hc⟩ := h.head
  obtain ⟨_, _, h39, h34, _⟩ := dec_head c hc
  have hq : Spec.quoteCode (sign ++ body) = none := by
    rcases hs with hs | hs | hs <;> subst hs
    · subst hb; simp [Spec.quoteCode, h39, h34]
    · simp [Spec.quoteCode]
    · simp [Spec.quoteCode]
  unfold Spec.signedArg
  rw [hq, scanNum_clean sign hs h]
  simp only [clampI]
  rcases hs with hs | hs | hs <;> subst hs <;> simp <;> omega

/-- A well-formed C integer literal: optional sign, then decimal (no leading zero), `0` + octal
    digits, or `0x`/`0X` + at least one hexadecimal digit. -/
def CleanNum (a : Bytes) : Prop :=
  ∃ sign body b ds, (sign = [] ∨ sign = [43] ∨ sign = [45]) ∧ NumBody body b ds ∧ a = sign ++ body

theorem numeric_arg_clean (a : Bytes) (h : CleanNum a) :
    (parseInt a).1 = (Spec.signedArg a).val ∧ (Spec.signedArg a).bad = false := by
  obtain ⟨sign, body, b, ds, hs, hb, rfl⟩ := h
  rw [parseInt_clean sign hs hb, signedArg_clean sign hs hb]
  exact ⟨rfl, rfl⟩

/-- The literal's value fits the signed 64-bit range (the region where `%u %o %x` agree). -/
def InInt64 (neg : Bool) (v : Nat) : Prop := if neg then v ≤ 9223372036854775808 else v < 9223372036854775808

theorem u_arith (neg : Bool) (v : Nat) (hr : InInt64 neg v) :
    Int.ofNat (if v > maxU64 then maxU64 else if neg = true then (two64 - v) % two64 else v) =
      Int.ofNat (toU64 (clampI neg v)) := by
  unfold InInt64 at hr
  unfold clampI toU64 two64 maxU64
  cases neg
  · simp only [Bool.false_eq_true, if_false] at hr ⊢
    rw [if_neg (by omega), if_neg (by omega)]
    congr 1
    omega
  · simp only [if_true] at hr ⊢
    rw [if_neg (by omega), if_neg (by omega)]
    congr 1
    omega

theorem unsignedArg_clean (sign : Bytes) (hs : sign = [] ∨ sign = [43] ∨ sign = [45]) {body ds : Bytes} {b : Nat}
    (h : NumBody body b ds) (hr : InInt64 (decide (sign = [45])) (foldv b ds 0)) :
    (Spec.unsignedArg (sign ++ body)).val = Int.ofNat (toU64 (parseInt (sign ++ body)).1) ∧
    (Spec.unsignedArg (sign ++ body)).bad = false := by
  obtain ⟨c, r, hb, hc⟩ := h.head
  obtain ⟨_, _, h39, h34, _⟩ := dec_head c hc
  have hq : Spec.quoteCode (sign ++ body) = none := by
    rcases hs with hs | hs | hs <;> subst hs
    · subst hb; simp [Spec.quoteCode, h39, h34]
    · simp [Spec.quoteCode]
    · simp [Spec.quoteCode]
  rw [parseInt_clean sign hs h]
  unfold Spec.unsignedArg
  rw [hq, scanNum_clean sign hs h]
  refine ⟨?_, rfl⟩
  simp only
  rw [← u_arith _ _ hr]


/-! ## format reuse, step by step -/

/-- The result of the printf loop does not depend on the fuel (beyond `len(args)`) and the bytes
    already written are simply a prefix. -/
theorem printfLoop_indep (fmt : Bytes) (hok : (formatArgs fmt []).errOf = none) :
    ∀ (fuel1 fuel2 : Nat) (args : List Bytes) (acc1 acc2 : Bytes), args.length < fuel1 → args.length < fuel2 →
      ∃ out, printfLoop fuel1 fmt args acc1 = .done { out := acc1 ++ out, status := 0 } ∧
             printfLoop fuel2 fmt args acc2 = .done { out := acc2 ++ out, status := 0 }
  | 0, _, args, _, _, h, _ => by omega
  | _, 0, args, _, _, _, h => by omega
  | f1 + 1, f2 + 1, args, acc1, acc2, h1, h2 => by
    rw [printfLoop_succ, printfLoop_succ]
    rcases formatArgs_cases fmt args with ⟨out, left, hfa, hle⟩ | ⟨out, e, hfa⟩
    · simp only [hfa]
      have hdl : (args.drop (args.length - left)).length = left := by simp; omega
      rw [hdl]
      by_cases hstop : args.length - left = 0 ∨ left = 0
      · rw [if_pos hstop, if_pos hstop]; exact ⟨out, rfl, rfl⟩
      · rw [if_neg hstop, if_neg hstop]
        obtain ⟨out', ha, hb⟩ := printfLoop_indep fmt hok f1 f2 (args.drop (args.length - left))
          (acc1 ++ out) (acc2 ++ out) (by rw [hdl]; omega) (by rw [hdl]; omega)
        exact ⟨out ++ out', by rw [ha]; simp, by rw [hb]; simp⟩
    · exfalso
      have := formatArgs_errOf_indep fmt args []
      rw [hfa, hok] at this
      simp [Res.errOf] at this

/-- Format reuse: when a pass leaves arguments (and consumed at least one), `printf` writes what
    the pass wrote followed by what `printf` with the same format writes for the remaining ones. -/
theorem printf_reuse_step (fmt : Bytes) (args : List Bytes) (out : Bytes) (left : Nat)
    (h : formatArgs fmt args = .ok out left) (h0 : 0 < left) (hl : left < args.length) :
    ∃ out', printfBuiltin (fmt :: args.drop (args.length - left)) = .done ⟨out', 0⟩ ∧
      printfBuiltin (fmt :: args) = .done ⟨out ++ out', 0⟩ := by
  have hok : (formatArgs fmt []).errOf = none := by
    have := formatArgs_errOf_indep fmt args []
    rw [h] at this
    exact this.symm
  have hdl : (args.drop (args.length - left)).length = left := by simp; omega
  simp only [printfBuiltin]
  obtain ⟨out', ha, hb⟩ := printfLoop_indep fmt hok ((args.drop (args.length - left)).length + 1)
    args.length (args.drop (args.length - left)) [] ([] ++ out) (Nat.lt_succ_self _) (by rw [hdl]; exact hl)
  refine ⟨out', by simpa using ha, ?_⟩
  rw [printfLoop_succ, h]
  simp only
  rw [hdl, if_neg (by omega), hb]
  simp


/-- One pass of a format consisting of a single well-formed directive. -/
theorem formatArgs_directive (d : MDir) (h : d.WF) (args : List Bytes) :
    formatArgs d.render args = .ok (d.out formatNil (args.headD [])) args.tail.length := by
  have := go_directive_out formatNil nestedOK_formatNil d h [] args
  rw [List.append_nil] at this
  unfold formatArgs
  rw [this, go_nil]
  simp [Res.prepend]


end ShVerif.C24
