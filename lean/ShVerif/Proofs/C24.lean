import ShVerif.Model.C24
/-
  C24 — helper lemmas for Props/C24.lean.
-/
namespace ShVerif.C24

/-! ## unfolding lemmas for `go` -/

theorem go_nil (n : Option (Bytes → Res)) (k : Nat) (st : St) :
    go n [] k st = if st.fmts.length > 0 then .err [] .missingChar else .ok [] st.args.length := by
  cases k <;> rfl

theorem go_skip (n : Option (Bytes → Res)) (c : UInt8) (rest : Bytes) (k : Nat) (st : St) :
    go n (c :: rest) (k + 1) st = go n rest k st := rfl

theorem go_zero (n : Option (Bytes → Res)) (c : UInt8) (rest : Bytes) (st : St) :
    go n (c :: rest) 0 st =
      match step n c rest st with
      | .cont o st' k => (go n rest k st').prepend o
      | .stop r => r := rfl

/-! ## safety: no Go panic, nothing outside the modelled fragment of fmt -/

def Res.good : Res → Prop
  | .ok _ _ => True
  | .err _ _ => True
  | _ => False

theorem Res.good_prepend {o : Bytes} {r : Res} (h : r.good) : (r.prepend o).good := by
  cases r <;> simp_all [Res.prepend, Res.good]

theorem countDigits_le (hex : Bool) : ∀ (max : Nat) (s : Bytes), countDigits hex max s ≤ s.length
  | 0, s => by simp [countDigits]
  | _ + 1, [] => by simp [countDigits]
  | max + 1, c :: rest => by
    simp only [countDigits]
    split
    · have := countDigits_le hex max rest
      simp only [List.length_cons]; omega
    · omega

theorem readDigits_some (max : Nat) (hex : Bool) (s : Bytes) :
    readDigits max hex s = some (s.take (countDigits hex max s), countDigits hex max s) := by
  have h := countDigits_le hex max s
  simp [readDigits, slice?, h]

theorem countDigits_pos_of_octal (c : UInt8) (after : Bytes) (h : 48 ≤ c ∧ c ≤ 55) :
    countDigits false 3 (c :: after) ≠ 0 := by
  have h1 : isDigitChar false c = true := by
    have : c ≤ 57 := Nat.le_trans h.2 (by decide)
    simp [isDigitChar, h.1, this]
  simp [countDigits, h1]

theorem escape_isSome (rest : Bytes) : (escape rest).isSome = true := by
  unfold escape
  cases rest with
  | nil => rfl
  | cons c after =>
    simp only [readDigits_some]
    have hj := countDigits_pos_of_octal c after
    simp only [apply_ite Option.isSome, Option.isSome_some, Option.isSome_none]
    by_cases h : 48 ≤ c ∧ c ≤ 55
    · simp only [h, hj h, if_false, ite_self]
    · simp only [h, if_false, ite_self]

theorem escape_eq (rest : Bytes) : ∃ o k, escape rest = some (o, k) := by
  have h := escape_isSome rest
  cases he : escape rest with
  | none => simp [he] at h
  | some p => exact ⟨p.1, p.2, rfl⟩

theorem popArg_nil : popArg [] = some ([], []) := rfl

theorem popArg_cons (a : Bytes) (as : List Bytes) : popArg (a :: as) = some (a, as) := by
  simp [popArg, idx?, slice?]

/-! ### the fragment of fmt that is reached -/

/-- Shape of `fmts` between iterations: empty, or `%`, at most one of `+ - space`, digits. -/
def FmtsOK (fmts : Bytes) : Prop :=
  fmts = [] ∨ ∃ fl ds, fmts = 37 :: (fl ++ ds) ∧ (fl = [] ∨ fl = [43] ∨ fl = [45] ∨ fl = [32]) ∧
    ∀ d ∈ ds, isDec d = true

/-- The verb/argument pairs formatInto passes to Fprintf. -/
def VerbOK (v : UInt8) : FArg → Prop
  | .int _ => v = 100
  | .uint _ => v = 100 ∨ v = 111 ∨ v = 120
  | .str _ => v = 115

theorem printArg_v_isSome (fl : Flags) (w : Option Nat) (arg : FArg) :
    (printArg fl w arg 118).isSome = true := by
  cases arg <;> simp [printArg]

theorem noVerbExtra_isSome (arg : FArg) : (noVerbExtra arg).isSome = true := by
  unfold noVerbExtra
  have h := printArg_v_isSome {} none arg
  cases hp : printArg {} none arg 118 with
  | none => simp [hp] at h
  | some v => rfl

theorem printArg_isSome (fl : Flags) (w : Option Nat) (arg : FArg) (v : UInt8) (h : VerbOK v arg) :
    (printArg fl w arg v).isSome = true := by
  cases arg with
  | int x => simp only [VerbOK] at h; subst h; simp [printArg]
  | uint x =>
    simp only [VerbOK] at h
    rcases h with h | h | h <;> subst h <;> simp [printArg]
  | str x => simp only [VerbOK] at h; subst h; simp [printArg]

theorem isDec_iff (c : UInt8) : isDec c = true ↔ 48 ≤ c ∧ c ≤ 57 := by
  simp [isDec]

/-- The flag loop over digits followed by a verb letter stops at the first non-zero digit or at
    the verb. -/
theorem parseFlags_digits (v : UInt8) (hv : v ≠ 48 ∧ v ≠ 43 ∧ v ≠ 45 ∧ v ≠ 32) :
    ∀ (ds : Bytes) (fl : Flags), (∀ d ∈ ds, isDec d = true) →
      ∃ fl' ds', parseFlags fl (ds ++ [v]) = (fl', ds' ++ [v]) ∧ (∀ d ∈ ds', isDec d = true) ∧
        (∀ c rest, ds' = c :: rest → c ≠ 48)
  | [], fl, _ => by
    refine ⟨fl, [], ?_, by simp, by simp⟩
    simp [parseFlags, hv.1, hv.2.1, hv.2.2.1, hv.2.2.2]
  | d :: ds, fl, hds => by
    have hd : isDec d = true := hds d (List.mem_cons_self ..)
    have hds' : ∀ x ∈ ds, isDec x = true := fun x hx => hds x (List.mem_cons_of_mem _ hx)
    rw [isDec_iff] at hd
    by_cases h0 : d = 48
    · subst h0
      obtain ⟨fl', ds', h1, h2, h3⟩ := parseFlags_digits v hv ds { fl with zero := true } hds'
      exact ⟨fl', ds', by simpa [parseFlags] using h1, h2, h3⟩
    · refine ⟨fl, d :: ds, ?_, hds, ?_⟩
      · have h43 : d ≠ 43 := by intro h; subst h; exact absurd hd.1 (by decide)
        have h45 : d ≠ 45 := by intro h; subst h; exact absurd hd.1 (by decide)
        have h32 : d ≠ 32 := by intro h; subst h; exact absurd hd.1 (by decide)
        simp [parseFlags, h0, h43, h45, h32]
      · intro c rest h; cases h; exact h0

theorem parsenum_digits (v : UInt8) (hv : ¬ (48 ≤ v ∧ v ≤ 57)) :
    ∀ (ds : Bytes) (num : Nat) (b : Bool), (∀ d ∈ ds, isDec d = true) →
      parsenum (ds ++ [v]) num b = none ∨ ∃ n b', parsenum (ds ++ [v]) num b = some (n, b', [v])
  | [], num, b, _ => by
    right; exact ⟨num, b, by simp [parsenum, hv]⟩
  | d :: ds, num, b, hds => by
    have hd : isDec d = true := hds d (List.mem_cons_self ..)
    have hds' : ∀ x ∈ ds, isDec x = true := fun x hx => hds x (List.mem_cons_of_mem _ hx)
    rw [isDec_iff] at hd
    simp only [List.cons_append, parsenum, hd, and_self, if_true]
    split
    · left; rfl
    · exact parsenum_digits v hv ds _ true hds'

theorem goFprintf_isSome (fmts : Bytes) (v : UInt8) (arg : FArg) (hne : fmts ≠ []) (hf : FmtsOK fmts)
    (hv : VerbOK v arg) : (goFprintf (fmts ++ [v]) arg).isSome = true := by
  rcases hf with hf | ⟨fl, ds, hf, hfl, hds⟩
  · exact absurd hf hne
  subst hf
  -- facts about the verb
  have hvv : v = 100 ∨ v = 111 ∨ v = 120 ∨ v = 115 := by
    cases arg with
    | int x => exact Or.inl hv
    | uint x => rcases hv with h | h | h
                · exact Or.inl h
                · exact Or.inr (Or.inl h)
                · exact Or.inr (Or.inr (Or.inl h))
    | str x => exact Or.inr (Or.inr (Or.inr hv))
  have hvflag : v ≠ 48 ∧ v ≠ 43 ∧ v ≠ 45 ∧ v ≠ 32 := by
    rcases hvv with h | h | h | h <;> subst h <;> decide
  have hvlow : 97 ≤ v ∧ v ≤ 122 := by
    rcases hvv with h | h | h | h <;> subst h <;> decide
  have hvnd : ¬ (48 ≤ v ∧ v ≤ 57) := by
    rcases hvv with h | h | h | h <;> subst h <;> decide
  have hvok : ¬ (v = 46 ∨ v = 42 ∨ v = 91 ∨ v = 37 ∨ v ≥ 128 ∨ ¬ True) := by
    rcases hvv with h | h | h | h <;> subst h <;> decide
  -- the flag loop
  have key : ∀ fl0 : Flags, ∃ fl' ds', parseFlags fl0 (ds ++ [v]) = (fl', ds' ++ [v]) ∧
      (∀ d ∈ ds', isDec d = true) ∧ (∀ c rest, ds' = c :: rest → c ≠ 48) :=
    fun fl0 => parseFlags_digits v hvflag ds fl0 hds
  have key2 : ∃ fl' ds', parseFlags {} (fl ++ ds ++ [v]) = (fl', ds' ++ [v]) ∧
      (∀ d ∈ ds', isDec d = true) ∧ (∀ c rest, ds' = c :: rest → c ≠ 48) := by
    rcases hfl with h | h | h | h <;> subst h
    · simpa using key {}
    · simpa [parseFlags] using key { plus := true }
    · simpa [parseFlags] using key { minus := true }
    · simpa [parseFlags] using key { space := true }
  obtain ⟨fl', ds', hpf, hds', _⟩ := key2
  have hshape : (37 :: (fl ++ ds) ++ [v]) = 37 :: (fl ++ ds ++ [v]) := by simp
  rw [hshape]
  unfold goFprintf
  simp only [ne_eq, not_true_eq_false, if_false, hpf]
  cases ds' with
  | nil =>
    simp only [List.nil_append, hvlow, and_self, if_true]
    exact printArg_isSome _ _ _ _ hv
  | cons d ds'' =>
    have hd : isDec d = true := hds' d (List.mem_cons_self ..)
    rw [isDec_iff] at hd
    have hdlow : ¬ (97 ≤ d ∧ d ≤ 122) := by
      intro h; exact absurd (Nat.le_trans h.1 hd.2) (by decide)
    simp only [List.cons_append, hdlow, if_false]
    have hp := parsenum_digits v hvnd (d :: ds'') 0 false hds'
    simp only [List.cons_append] at hp
    rcases hp with hp | ⟨n, b', hp⟩
    · simp only [hp]; exact noVerbExtra_isSome arg
    · simp only [hp, not_true_eq_false] at hvok ⊢
      rw [if_neg hvok]
      exact printArg_isSome _ _ _ _ hv

/-- Invariant of the formatInto loop. -/
def Inv (nested : Option (Bytes → Res)) (fmts : Bytes) : Prop :=
  match nested with
  | none => fmts = []
  | some f => FmtsOK fmts ∧ ∀ a, (f a).good

def Step.good (nested : Option (Bytes → Res)) : Step → Prop
  | .cont _ st' _ => Inv nested st'.fmts
  | .stop r => r.good

theorem FmtsOK_nil : FmtsOK [] := Or.inl rfl

theorem FmtsOK_pct : FmtsOK [37] := Or.inr ⟨[], [], rfl, Or.inl rfl, by simp⟩

theorem FmtsOK_flag (fmts : Bytes) (c : UInt8) (hc : c = 43 ∨ c = 45 ∨ c = 32) (h : FmtsOK fmts)
    (hne : fmts.length > 0) (hlen : ¬ fmts.length > 1) : FmtsOK (fmts ++ [c]) := by
  rcases h with h | ⟨fl, ds, h, _, _⟩
  · subst h; simp at hne
  · subst h
    have : fl = [] ∧ ds = [] := by
      simp only [List.length_cons, List.length_append] at hlen
      constructor
      · cases fl with
        | nil => rfl
        | cons _ _ => simp only [List.length_cons] at hlen; omega
      · cases ds with
        | nil => rfl
        | cons _ _ => simp only [List.length_cons] at hlen; omega
    obtain ⟨rfl, rfl⟩ := this
    refine Or.inr ⟨[c], [], by simp, ?_, by simp⟩
    rcases hc with h | h | h <;> subst h <;> simp

theorem FmtsOK_digit (fmts : Bytes) (c : UInt8) (hc : 48 ≤ c ∧ c ≤ 57) (h : FmtsOK fmts)
    (hne : fmts.length > 0) : FmtsOK (fmts ++ [c]) := by
  rcases h with h | ⟨fl, ds, h, hfl, hds⟩
  · subst h; simp at hne
  · subst h
    refine Or.inr ⟨fl, ds ++ [c], by simp, hfl, ?_⟩
    intro d hd
    rcases List.mem_append.1 hd with hd | hd
    · exact hds d hd
    · simp only [List.mem_singleton] at hd; subst hd; rw [isDec_iff]; exact hc

theorem step_good_none (c : UInt8) (rest : Bytes) (st : St) (h : st.fmts = []) :
    (step none c rest st).good none := by
  unfold step
  obtain ⟨o, k, he⟩ := escape_eq rest
  by_cases h92 : c = 92
  · simp [h92, he, Step.good, Inv, h]
  · simp [h92, h, Step.good, Inv]

theorem step_good_some (f : Bytes → Res) (c : UInt8) (rest : Bytes) (st : St)
    (hf : ∀ a, (f a).good) (h : FmtsOK st.fmts) : (step (some f) c rest st).good (some f) := by
  unfold step
  obtain ⟨o, k, he⟩ := escape_eq rest
  by_cases h92 : c = 92
  · simp only [h92, he, if_true, Step.good, Inv]; exact ⟨h, hf⟩
  simp only [h92, if_false]
  by_cases hlen : st.fmts.length > 0
  · simp only [hlen, if_true]
    by_cases h37 : c = 37
    · simp only [h37, if_true, Step.good, Inv]; exact ⟨FmtsOK_nil, hf⟩
    simp only [h37, if_false]
    by_cases h99 : c = 99
    · simp only [h99, if_true]
      cases hargs : st.args with
      | nil => simp only [List.length_nil, Nat.lt_irrefl, gt_iff_lt, if_false, Step.good, Inv]; exact ⟨FmtsOK_nil, hf⟩
      | cons a as =>
        simp only [List.length_cons, gt_iff_lt, Nat.zero_lt_succ, if_true, popArg_cons]
        cases a with
        | nil => simp only [List.length_nil, Nat.lt_irrefl, if_false, Step.good, Inv]; exact ⟨FmtsOK_nil, hf⟩
        | cons b bs =>
          simp only [List.length_cons, Nat.zero_lt_succ, if_true, idx?, List.getElem?_cons_zero, Step.good, Inv]
          exact ⟨FmtsOK_nil, hf⟩
    simp only [h99, if_false]
    by_cases hflag : c = 43 ∨ c = 45 ∨ c = 32
    · simp only [hflag, if_true]
      by_cases hl1 : st.fmts.length > 1
      · simp only [hl1, if_true, Step.good, Res.good]
      · simp only [hl1, if_false, Step.good, Inv]
        exact ⟨FmtsOK_flag _ _ hflag h hlen hl1, hf⟩
    simp only [hflag, if_false]
    by_cases hdig : 48 ≤ c ∧ c ≤ 57
    · simp only [hdig, and_self, if_true, Step.good, Inv]
      exact ⟨FmtsOK_digit _ _ hdig h hlen, hf⟩
    simp only [hdig, if_false]
    by_cases hverb : c = 115 ∨ c = 98 ∨ isNumVerb c = true
    · simp only [hverb, if_true]
      have hpop : ∃ arg args', popArg st.args = some (arg, args') := by
        cases st.args with
        | nil => exact ⟨_, _, popArg_nil⟩
        | cons a as => exact ⟨_, _, popArg_cons a as⟩
      obtain ⟨arg, args', hpop⟩ := hpop
      simp only [hpop]
      by_cases h98 : c = 98
      · simp only [h98, if_true]
        have := hf arg
        cases hfa : f arg with
        | ok o n => simp only [Step.good, Inv]; exact ⟨FmtsOK_nil, hf⟩
        | err o e => simp only [Step.good, Res.good]
        | panic => rw [hfa] at this; exact this.elim
        | unmodelled => rw [hfa] at this; exact this.elim
      · simp only [h98, if_false]
        have hne : st.fmts ≠ [] := by intro h0; rw [h0] at hlen; simp at hlen
        have hvok : VerbOK (if c = 105 ∨ c = 117 then 100 else c)
            (if c = 115 then FArg.str arg else if c = 105 ∨ c = 100 then FArg.int (parseInt arg).1
              else FArg.uint (toU64 (parseInt arg).1)) := by
          have hc : c = 115 ∨ c = 100 ∨ c = 105 ∨ c = 117 ∨ c = 111 ∨ c = 120 := by
            rcases hverb with h | h | h
            · exact Or.inl h
            · exact absurd h h98
            · simp only [isNumVerb, Bool.or_eq_true, decide_eq_true_eq] at h
              rcases h with (((h | h) | h) | h) | h
              · exact Or.inr (Or.inl h)
              · exact Or.inr (Or.inr (Or.inl h))
              · exact Or.inr (Or.inr (Or.inr (Or.inl h)))
              · exact Or.inr (Or.inr (Or.inr (Or.inr (Or.inl h))))
              · exact Or.inr (Or.inr (Or.inr (Or.inr (Or.inr h))))
          rcases hc with h | h | h | h | h | h <;> subst h <;> simp [VerbOK]
        have hsome := goFprintf_isSome st.fmts _ _ hne h hvok
        cases hg : goFprintf (st.fmts ++ [if c = 105 ∨ c = 117 then 100 else c])
            (if c = 115 then FArg.str arg else if c = 105 ∨ c = 100 then FArg.int (parseInt arg).1
              else FArg.uint (toU64 (parseInt arg).1)) with
        | none => rw [hg] at hsome; simp at hsome
        | some o => simp only [Step.good, Inv]; exact ⟨FmtsOK_nil, hf⟩
    · simp only [hverb, if_false, Step.good, Res.good]
  · simp only [hlen, if_false, Option.isSome_some, true_and]
    by_cases h37 : c = 37
    · simp only [h37, if_true, Step.good, Inv]; exact ⟨FmtsOK_pct, hf⟩
    · simp only [h37, if_false, Step.good, Inv]; exact ⟨h, hf⟩

theorem step_good (nested : Option (Bytes → Res)) (c : UInt8) (rest : Bytes) (st : St)
    (h : Inv nested st.fmts) : (step nested c rest st).good nested := by
  cases nested with
  | none => exact step_good_none c rest st h
  | some f => exact step_good_some f c rest st h.2 h.1

theorem go_good (nested : Option (Bytes → Res)) :
    ∀ (f : Bytes) (k : Nat) (st : St), Inv nested st.fmts → (go nested f k st).good
  | [], k, st, _ => by
    rw [go_nil]; split <;> trivial
  | c :: rest, k + 1, st, h => by
    rw [go_skip]; exact go_good nested rest k st h
  | c :: rest, 0, st, h => by
    rw [go_zero]
    have hs := step_good nested c rest st h
    cases hstep : step nested c rest st with
    | cont o st' k =>
      rw [hstep] at hs
      exact Res.good_prepend (go_good nested rest k st' hs)
    | stop r => rw [hstep] at hs; exact hs

theorem formatNil_good (f : Bytes) : (formatNil f).good := go_good none f 0 _ rfl

theorem formatArgs_good (f : Bytes) (args : List Bytes) : (formatArgs f args).good :=
  go_good (some formatNil) f 0 _ ⟨FmtsOK_nil, formatNil_good⟩

/-! ## the hook view and the builtins -/

theorem formatInto_obs (f : Bytes) (args : List Bytes) (nil : Bool) :
    ∃ o, formatInto f args nil = .obs o := by
  unfold formatInto
  cases nil with
  | true =>
    have h := formatNil_good f
    cases hr : formatNil f <;> simp_all [Res.good]
  | false =>
    have h := formatArgs_good f args
    cases hr : formatArgs f args <;> simp_all [Res.good]

theorem formatInto_false (f : Bytes) (args : List Bytes) :
    formatInto f args false =
      match formatArgs f args with
      | .ok out left => .obs { out := out, consumed := args.length - left, err := none }
      | .err out e => .obs { out := out, consumed := 0, err := some e }
      | .panic => .panic
      | .unmodelled => .unmodelled := by
  simp only [formatInto, Bool.false_eq_true, if_false]
  cases formatArgs f args <;> rfl

theorem format_false (f : Bytes) (args : List Bytes) :
    format f args false =
      match formatArgs f args with
      | .ok out left => .obs { out := out, consumed := args.length - left, err := none }
      | .err _ e => .obs { out := [], consumed := 0, err := some e }
      | .panic => .panic
      | .unmodelled => .unmodelled := by
  unfold format
  rw [formatInto_false]
  cases formatArgs f args <;> simp

theorem slice_drop (args : List Bytes) (n : Nat) (h : n ≤ args.length) :
    slice? args n args.length = some (args.drop n) := by
  have : (args.drop n).take (args.length - n) = args.drop n :=
    List.take_of_length_le (by simp)
  simp [slice?, h, this]

/-- One unrolling of the printf loop in terms of `formatArgs`. -/
theorem printfLoop_succ (fuel : Nat) (fmt : Bytes) (args : List Bytes) (acc : Bytes) :
    printfLoop (fuel + 1) fmt args acc =
      match formatArgs fmt args with
      | .ok out left =>
        if args.length - left = 0 ∨ (args.drop (args.length - left)).length = 0 then
          .done { out := acc ++ out, status := 0 }
        else printfLoop fuel fmt (args.drop (args.length - left)) (acc ++ out)
      | .err _ _ => .done { out := acc, status := 1 }
      | .panic => .panic
      | .unmodelled => .unmodelled := by
  simp only [printfLoop, format_false]
  cases formatArgs fmt args with
  | ok out left =>
    have h : args.length - left ≤ args.length := Nat.sub_le ..
    simp [slice_drop _ _ h]
  | err out e => simp
  | panic => rfl
  | unmodelled => rfl

/-! ## how an iteration depends on the argument list -/

/-- Does the iteration `c` (with the given `fmts`) take an argument? -/
def pops (fmts : Bytes) (c : UInt8) : Bool :=
  decide (c ≠ 92) && decide (fmts.length > 0) &&
    (decide (c = 99) || decide (c = 115) || decide (c = 98) || isNumVerb c)

def Step.withArgs (a : List Bytes) : Step → Step
  | .cont o st k => .cont o { st with args := a } k
  | .stop r => .stop r

theorem isNumVerb_iff (c : UInt8) :
    isNumVerb c = true ↔ c = 100 ∨ c = 105 ∨ c = 117 ∨ c = 111 ∨ c = 120 := by
  simp [isNumVerb, or_assoc]

theorem verb_facts (c : UInt8) (h : c = 99 ∨ c = 115 ∨ c = 98 ∨ isNumVerb c = true) :
    c ≠ 37 ∧ ¬ (c = 43 ∨ c = 45 ∨ c = 32) ∧ ¬ (48 ≤ c ∧ c ≤ 57) := by
  rw [isNumVerb_iff] at h
  rcases h with h | h | h | h | h | h | h | h <;> subst h <;> decide

/-- An iteration that takes no argument leaves the list alone and does not look at it. -/
theorem step_nopop (n : Option (Bytes → Res)) (c : UInt8) (rest : Bytes) (fmts : Bytes)
    (args : List Bytes) (h : pops fmts c = false) :
    step n c rest ⟨fmts, args⟩ = (step n c rest ⟨fmts, []⟩).withArgs args := by
  unfold step
  by_cases h92 : c = 92
  · simp only [h92, if_true]
    cases escape rest with
    | none => rfl
    | some p => rfl
  simp only [h92, if_false]
  by_cases hlen : fmts.length > 0
  · simp only [hlen, if_true]
    simp only [pops, h92, hlen, ne_eq, not_false_eq_true, decide_true, Bool.true_and,
      Bool.or_eq_false_iff, decide_eq_false_iff_not] at h
    obtain ⟨⟨⟨h99, h115⟩, h98⟩, hnum⟩ := h
    have hnv : ¬ (c = 115 ∨ c = 98 ∨ isNumVerb c = true) := by simp [h115, h98, hnum]
    simp only [h99, hnv, if_false]
    repeat' split
    all_goals rfl
  · simp only [hlen, if_false]
    split <;> rfl

theorem pops_iff (fmts : Bytes) (c : UInt8) :
    pops fmts c = true ↔ c ≠ 92 ∧ fmts.length > 0 ∧ (c = 99 ∨ c = 115 ∨ c = 98 ∨ isNumVerb c = true) := by
  simp [pops, and_assoc, or_assoc]

/-- An iteration that takes an argument sees only the first one (an empty string when there is
    none) and continues with the others. -/
theorem step_pop (n : Option (Bytes → Res)) (c : UInt8) (rest : Bytes) (fmts : Bytes)
    (args : List Bytes) (h : pops fmts c = true) :
    step n c rest ⟨fmts, args⟩ = (step n c rest ⟨fmts, [args.headD []]⟩).withArgs args.tail := by
  rw [pops_iff] at h
  obtain ⟨h92, hlen, hv⟩ := h
  obtain ⟨h37, hnf, hnd⟩ := verb_facts c hv
  unfold step
  simp only [h92, hlen, h37, if_false, if_true]
  by_cases h99 : c = 99
  · subst h99
    simp only [if_true]
    cases args with
    | nil => simp [popArg_cons, Step.withArgs]
    | cons a as =>
      simp only [List.length_cons, gt_iff_lt, Nat.zero_lt_succ, if_true, popArg_cons, List.headD_cons,
        List.length_nil, Nat.zero_add, List.tail_cons]
      split
      · split <;> rfl
      · rfl
  · have hverb : c = 115 ∨ c = 98 ∨ isNumVerb c = true := by
      rcases hv with hv | hv
      · exact absurd hv h99
      · exact hv
    simp only [h99, hnf, hnd, hverb, if_false, if_true]
    cases args with
    | nil =>
      simp only [popArg_nil, popArg_cons, List.headD_nil, List.tail_nil]
      repeat' split
      all_goals simp_all [Step.withArgs]
    | cons a as =>
      simp only [popArg_cons, List.headD_cons, List.tail_cons]
      repeat' split
      all_goals simp_all [Step.withArgs]

/-- With a nil args slice nothing but escapes is processed: the result is always `ok … 0`. -/
theorem go_none_ok : ∀ (f : Bytes) (k : Nat), ∃ o, go none f k ⟨[], []⟩ = .ok o 0
  | [], k => ⟨[], by rw [go_nil]; rfl⟩
  | c :: rest, k + 1 => by rw [go_skip]; exact go_none_ok rest k
  | c :: rest, 0 => by
    rw [go_zero]
    obtain ⟨o, k, he⟩ := escape_eq rest
    by_cases h92 : c = 92
    · obtain ⟨o', h'⟩ := go_none_ok rest k
      exact ⟨o ++ o', by simp [step, h92, he, h', Res.prepend]⟩
    · obtain ⟨o', h'⟩ := go_none_ok rest 0
      exact ⟨[c] ++ o', by simp [step, h92, h', Res.prepend]⟩

theorem formatNil_ok (f : Bytes) : ∃ o, formatNil f = .ok o 0 := go_none_ok f 0

/-- The nested formatter of `%b` never fails. -/
def NestedOK (n : Option (Bytes → Res)) : Prop :=
  match n with
  | none => True
  | some f => ∀ a, ∃ o l, f a = .ok o l

theorem nestedOK_formatNil : ∀ a, ∃ o l, formatNil a = .ok o l := fun a =>
  let ⟨o, h⟩ := formatNil_ok a; ⟨o, 0, h⟩

theorem good_of_ok (f : Bytes → Res) (hf : ∀ a, ∃ o l, f a = .ok o l) : ∀ a, (f a).good := fun a => by
  obtain ⟨o, l, h⟩ := hf a; rw [h]; trivial

/-- An argument-taking iteration always continues, with `fmts` reset. -/
theorem step_pop_cont (f : Bytes → Res) (hf : ∀ a, ∃ o l, f a = .ok o l) (c : UInt8) (rest : Bytes)
    (fmts : Bytes) (a : Bytes) (hinv : FmtsOK fmts) (h : pops fmts c = true) :
    ∃ o, step (some f) c rest ⟨fmts, [a]⟩ = .cont o ⟨[], []⟩ 0 := by
  have hgood := step_good_some f c rest ⟨fmts, [a]⟩ (good_of_ok f hf) hinv
  rw [pops_iff] at h
  obtain ⟨h92, hlen, hv⟩ := h
  obtain ⟨h37, hnf, hnd⟩ := verb_facts c hv
  revert hgood
  unfold step
  simp only [h92, hlen, h37, if_false, if_true]
  by_cases h99 : c = 99
  · subst h99
    simp only [if_true, List.length_cons, List.length_nil, Nat.zero_add, gt_iff_lt, Nat.lt_add_one,
      popArg_cons]
    intro _
    split
    · split
      · exact ⟨_, rfl⟩
      · rename_i h1 _ h2
        cases a with
        | nil => simp at h1
        | cons b bs => simp [idx?] at h2
    · exact ⟨_, rfl⟩
  · have hverb : c = 115 ∨ c = 98 ∨ isNumVerb c = true := by
      rcases hv with hv | hv
      · exact absurd hv h99
      · exact hv
    simp only [h99, hnf, hnd, hverb, if_false, if_true, popArg_cons]
    by_cases h98 : c = 98
    · simp only [h98, if_true]
      obtain ⟨o, l, ho⟩ := hf a
      simp only [ho]
      intro _; exact ⟨_, rfl⟩
    · simp only [h98, if_false]
      split
      · intro _; exact ⟨_, rfl⟩
      · intro hg; exact hg.elim

end ShVerif.C24
