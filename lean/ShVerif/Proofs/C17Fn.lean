import ShVerif.Proofs.C17Ext
/-
  C17 — the filename modes: slashes, leading dots, `*` / `**` (with NoGlobStar), outside
  bracket expressions and pattern-lists.  The reference keeps track of "at the start of a path
  component" on the subject side (`GDen … b …`), pattern.go on the pattern side (`sl.last()`):
  `Pos` / `PosOK` is the invariant that ties the two.
-/
namespace ShVerif.L3

def dotSens (m : Mode) : Bool := m.filenames && !m.dotglob

/-- What the pattern-side position says about the subject-side context (only matters when a
    leading dot is special). -/
def PosOK (m : Mode) (pos : Pos) (b : Bool) : Prop :=
  dotSens m = true → (pos = .start → b = true) ∧ (pos = .mid → b = false)

/-- `pos` is `start` exactly when the previous pattern character is a slash (or there is none). -/
def PP (pos : Pos) (prev : Rune) : Prop := pos = .start ↔ (prev = 0 ∨ prev = cSlash)

def TopAgreeF (m : Mode) (pos : Pos) (r : Except Err Glob) (t : Except Err (Regex × List (Nat × Nat))) : Prop :=
  match r with
  | .ok g => ∃ body, t = .ok (body, []) ∧ goCompiles body = true ∧
      ∀ b s, PosOK m pos b → (Matches m.nocase body s ↔ GDen m g b s)
  | .error e => t = .error e

theorem TopAgreeF.cons {m : Mode} {pos pos' : Pos} {gtok : Glob} {r : Regex}
    {pr : Except Err Glob} {t : Except Err (Regex × List (Nat × Nat))} (hc : goCompiles r = true)
    (htok : ∀ b s, PosOK m pos b → (Matches m.nocase r s ↔ GDen m gtok b s))
    (hpos : ∀ b s, PosOK m pos b → GDen m gtok b s → PosOK m pos' (ctxAfter m b s))
    (h : TopAgreeF m pos' pr t) : TopAgreeF m pos (andThenG gtok pr) (contTok r t) := by
  cases pr with
  | error e =>
    simp only [TopAgreeF] at h
    subst h
    simp [andThenG, contTok, TopAgreeF]
  | ok g' =>
    simp only [TopAgreeF] at h
    obtain ⟨body, rfl, hcb, hb⟩ := h
    simp only [andThenG, contTok, TopAgreeF]
    refine ⟨_, rfl, by simp [goCompiles, hc, hcb], ?_⟩
    intro b s hp
    rw [matches_cat_iff]
    simp only [GDen]
    constructor
    · rintro ⟨s1, s2, rfl, h1, h2⟩
      have g1 := (htok b s1 hp).mp h1
      exact ⟨s1, s2, rfl, g1, (hb _ s2 (hpos b s1 hp g1)).mp h2⟩
    · rintro ⟨s1, s2, rfl, h1, h2⟩
      exact ⟨s1, s2, rfl, (htok b s1 hp).mpr h1, (hb _ s2 (hpos b s1 hp h1)).mpr h2⟩

/-! ### characters -/

theorem variants_slash (nc : Bool) : variants nc cSlash = [cSlash] := by cases nc <;> decide

theorem chEq_slash_iff {nc : Bool} {c x : Nat} (h : chEq nc c x = true) : x = cSlash ↔ c = cSlash := by
  constructor
  · rintro rfl
    unfold chEq at h
    rw [variants_slash] at h
    simpa using h
  · rintro rfl
    exact chEq_small (by decide) h

theorem any_variants_eq (nc : Bool) (x y : Nat) (hy : y < 65) :
    (variants nc x).any (fun z => z == y) = (x == y) := by
  rw [Bool.eq_iff_iff]
  constructor
  · intro h
    obtain ⟨z, hz, hzy⟩ := List.any_eq_true.mp h
    have := beq_iff_eq.mp hzy
    subst this
    have := variants_small nc x z hy (List.contains_iff_mem.mpr hz)
    simp [this]
  · intro h
    have := beq_iff_eq.mp h
    subst this
    have h0 := chEq_refl nc x
    unfold chEq at h0
    exact List.any_eq_true.mpr ⟨x, List.contains_iff_mem.mp h0, by simp⟩

theorem range_single (c y : Nat) : (decide (c ≤ y) && decide (y ≤ c)) = (y == c) := by
  rw [Bool.eq_iff_iff]
  simp only [Bool.and_eq_true, decide_eq_true_eq, beq_iff_eq]
  constructor
  · rintro ⟨h1, h2⟩; exact Nat.le_antisymm h2 h1
  · rintro rfl; exact ⟨Nat.le_refl _, Nat.le_refl _⟩

theorem setMem_notSlash (nc : Bool) (x : Nat) : setMem nc true [.raw cSlash] x = !(x == cSlash) := by
  have hp : parseItems [CItem.raw cSlash] = some [CRange.range cSlash cSlash] := by
    rw [parseItems.eq_def]
    simp [CItem.char]
    rw [parseItems.eq_def]
  unfold setMem
  rw [hp]
  simp only [List.any_cons, List.any_nil, Bool.or_false, CRange.mem, range_single]
  rw [any_variants_eq nc x cSlash (by decide)]
  cases (x == cSlash) <;> rfl

theorem setMem_notSlashDot (nc : Bool) (x : Nat) :
    setMem nc true [.raw cSlash, .raw cDot] x = (!(x == cSlash) && !(x == cDot)) := by
  have hp : parseItems [CItem.raw cSlash, CItem.raw cDot] =
      some [CRange.range cSlash cSlash, CRange.range cDot cDot] := by
    rw [parseItems.eq_def]
    simp [CItem.char]
    rw [parseItems.eq_def]
    simp [CItem.char]
    rw [parseItems.eq_def]
  unfold setMem
  rw [hp]
  simp only [List.any_cons, List.any_nil, Bool.or_false, CRange.mem, range_single]
  rw [any_or_split, any_variants_eq nc x cSlash (by decide), any_variants_eq nc x cDot (by decide)]
  cases (x == cSlash) <;> cases (x == cDot) <;> rfl

theorem matches_notSlash_iff (nc : Bool) (s : Str) :
    Matches nc notSlash s ↔ ∃ x, s = [x] ∧ x ≠ cSlash := by
  unfold notSlash
  rw [matches_set_iff]
  constructor
  · rintro ⟨x, rfl, h⟩
    rw [setMem_notSlash] at h
    exact ⟨x, rfl, by simpa using h⟩
  · rintro ⟨x, rfl, h⟩
    exact ⟨x, rfl, by rw [setMem_notSlash]; simpa using h⟩

theorem matches_notSlashDot_iff (nc : Bool) (s : Str) :
    Matches nc notSlashDot s ↔ ∃ x, s = [x] ∧ x ≠ cSlash ∧ x ≠ cDot := by
  unfold notSlashDot
  rw [matches_set_iff]
  constructor
  · rintro ⟨x, rfl, h⟩
    rw [setMem_notSlashDot] at h
    exact ⟨x, rfl, by simpa using h⟩
  · rintro ⟨x, rfl, h⟩
    exact ⟨x, rfl, by rw [setMem_notSlashDot]; simpa using h⟩

/-- `[^/]*` -/
theorem matches_star_notSlash (nc : Bool) (s : Str) :
    Matches nc (.star notSlash) s ↔ ∀ x ∈ s, x ≠ cSlash := by
  constructor
  · intro h
    generalize hr : Regex.star notSlash = r at h
    induction h with
    | starNil => intro x hx; simp at hx
    | @starCons a s1 s2 h1 _ _ ih2 =>
      cases hr
      obtain ⟨y, rfl, hy⟩ := (matches_notSlash_iff nc s1).mp h1
      intro x hx
      simp only [List.cons_append, List.nil_append, List.mem_cons] at hx
      rcases hx with rfl | hx
      · exact hy
      · exact ih2 rfl x hx
    | _ => cases hr
  · intro h
    induction s with
    | nil => exact .starNil
    | cons x s ih =>
      exact .starCons (s := [x]) ((matches_notSlash_iff nc [x]).mpr ⟨x, rfl, h x (List.mem_cons_self ..)⟩)
        (ih (fun y hy => h y (List.mem_cons_of_mem _ hy)))

/-- `([^/.][^/]*)?` -/
theorem matches_segStar (nc : Bool) (s : Str) :
    Matches nc segStar s ↔ s = [] ∨ ∃ x u, s = x :: u ∧ x ≠ cSlash ∧ x ≠ cDot ∧ ∀ y ∈ u, y ≠ cSlash := by
  unfold segStar
  constructor
  · intro h
    cases h with
    | optNil => exact .inl rfl
    | optSome h =>
      cases h with
      | grp h =>
        obtain ⟨s1, s2, rfl, h1, h2⟩ := (matches_cat_iff nc _ _ _).mp h
        obtain ⟨x, rfl, hx1, hx2⟩ := (matches_notSlashDot_iff nc s1).mp h1
        exact .inr ⟨x, s2, rfl, hx1, hx2, (matches_star_notSlash nc s2).mp h2⟩
  · rintro (rfl | ⟨x, u, rfl, h1, h2, h3⟩)
    · exact .optNil
    · exact .optSome (.grp (.cat (s := [x]) ((matches_notSlashDot_iff nc [x]).mpr ⟨x, rfl, h1, h2⟩)
        ((matches_star_notSlash nc u).mpr h3)))

/-! ### the reference side in filename mode -/

theorem wildOk_fn {m : Mode} (hf : m.filenames = true) (b : Bool) (x : Nat) :
    wildOk m b x = (!(x == cSlash) && !(!m.dotglob && b && x == cDot)) := by
  simp [wildOk, hf]

theorem StarDen_false_fn {m : Mode} (hf : m.filenames = true) (s : Str) :
    StarDen m false s ↔ ∀ x ∈ s, x ≠ cSlash := by
  induction s with
  | nil => simp [StarDen]
  | cons x s ih =>
    simp only [StarDen, ih, wildOk_fn hf, Bool.and_false, Bool.false_and, Bool.not_false, Bool.and_true,
      Bool.not_eq_true', beq_eq_false_iff_ne, List.mem_cons, forall_eq_or_imp]

theorem StarDen_fn {m : Mode} (hf : m.filenames = true) (b : Bool) (s : Str) :
    StarDen m b s ↔ s = [] ∨ ∃ x u, s = x :: u ∧ x ≠ cSlash ∧ ¬ (m.dotglob = false ∧ b = true ∧ x = cDot) ∧
      ∀ y ∈ u, y ≠ cSlash := by
  cases s with
  | nil => simp [StarDen]
  | cons x u =>
    simp only [StarDen, StarDen_false_fn hf, wildOk_fn hf]
    constructor
    · rintro ⟨h1, h2⟩
      right
      refine ⟨x, u, rfl, ?_, ?_, h2⟩
      · simp only [Bool.and_eq_true, Bool.not_eq_true', beq_eq_false_iff_ne] at h1; exact h1.1
      · simp only [Bool.and_eq_true, Bool.not_eq_true', beq_eq_false_iff_ne] at h1
        rintro ⟨g1, g2, g3⟩
        have := h1.2
        simp [g1, g2, g3] at this
    · rintro (h | ⟨x', u', h, h1, h2, h3⟩)
      · cases h
      · cases h
        refine ⟨?_, h3⟩
        simp only [Bool.and_eq_true, Bool.not_eq_true', beq_eq_false_iff_ne]
        refine ⟨h1, ?_⟩
        cases hd : m.dotglob <;> cases b <;> simp
        intro hx; exact h2 ⟨hd, rfl, hx⟩

theorem GDen_litTok' (m : Mode) (prev c : Rune) (b : Bool)
    (hb : (m.filenames && !m.dotglob && c == cDot) = true → b = true → prev = 0 ∨ prev = cSlash)
    (s1 : Str) : GDen m (litTok m prev c) b s1 ↔ ∃ x, s1 = [x] ∧ chEq m.nocase c x = true := by
  by_cases h : (m.filenames && !m.dotglob && c == cDot) = true
  · exact GDen_litTok m prev c b (hb h) s1
  · have : litTok m prev c = .lit c := by
      unfold litTok
      have h' : (m.filenames && !m.dotglob && c == cDot) = false := by simpa using h
      simp [h']
    rw [this]
    simp only [GDen]

theorem StarDen_append (m : Mode) : ∀ (a c : Str) (b : Bool),
    StarDen m b a → StarDen m (ctxAfter m b a) c → StarDen m b (a ++ c) := by
  intro a
  induction a with
  | nil => intro c b _ h; rw [ctxAfter_nil] at h; simpa using h
  | cons x a ih =>
    intro c b h1 h2
    obtain ⟨hw, ha⟩ := h1
    rw [ctxAfter_cons, wildOk_not_start hw] at h2
    exact ⟨hw, ih c false ha h2⟩

/-- Two stars in a row are one star (`**` without globstar). -/
theorem GDen_star_star (m : Mode) (g : Glob) (b : Bool) (s : Str) :
    GDen m (.seq .star (.seq .star g)) b s ↔ GDen m (.seq .star g) b s := by
  simp only [GDen]
  constructor
  · rintro ⟨a, r, rfl, ha, c, d, rfl, hc, hd⟩
    refine ⟨a ++ c, d, by simp, StarDen_append m a c b ha hc, ?_⟩
    rw [← ctxAfter_append]; exact hd
  · rintro ⟨a, d, rfl, ha, hd⟩
    exact ⟨a, d, rfl, ha, [], d, rfl, trivial, by rw [ctxAfter_nil]; exact hd⟩

theorem TopAgreeF.dup_star {m : Mode} {pos : Pos} {pr : Except Err Glob}
    {t : Except Err (Regex × List (Nat × Nat))} (h : TopAgreeF m pos (andThenG .star pr) t) :
    TopAgreeF m pos (andThenG .star (andThenG .star pr)) t := by
  cases pr with
  | error e => simpa [andThenG, TopAgreeF] using h
  | ok g =>
    simp only [andThenG, TopAgreeF] at h ⊢
    obtain ⟨body, rfl, hc, hb⟩ := h
    refine ⟨body, rfl, hc, ?_⟩
    intro b s hp
    rw [hb b s hp, GDen_star_star]

theorem head_ne_of_not_mem {a : Nat} {l : Str} (h : a ∉ l) : (l.head? == some a) = false := by
  cases l with
  | nil => rfl
  | cons x r =>
    have : x ≠ a := fun e => h (by simp [e])
    simp [this]

theorem posAfter_start_iff (c : Rune) : posAfter c = .start ↔ c = cSlash := by
  unfold posAfter
  by_cases h : c = cSlash
  · simp [h]
  · have : (c == cSlash) = false := by simpa using h
    simp [this, h]

theorem posAfter_mid_iff (c : Rune) : posAfter c = .mid ↔ c ≠ cSlash := by
  unfold posAfter
  by_cases h : c = cSlash
  · simp [h]
  · have : (c == cSlash) = false := by simpa using h
    simp [this, h]

/-- The literal token in filename mode (ordinary or escaped character). -/
theorem lit_agree_fn (m : Mode) (hf : m.filenames = true) (pos : Pos) (prev c : Rune) (hpp : PP pos prev)
    (hsupp : (!(m.filenames && !m.dotglob && pos == Pos.unknown && c == cDot)) = true) :
    (∀ b s, PosOK m pos b → (Matches m.nocase (.chr c) s ↔ GDen m (litTok m prev c) b s)) ∧
    (∀ b s, PosOK m pos b → GDen m (litTok m prev c) b s → PosOK m (posAfter c) (ctxAfter m b s)) := by
  have hbk : ∀ b, PosOK m pos b →
      (m.filenames && !m.dotglob && c == cDot) = true → b = true → prev = 0 ∨ prev = cSlash := by
    intro b hp hcond hb
    simp only [Bool.and_eq_true, Bool.not_eq_true', beq_iff_eq] at hcond
    obtain ⟨⟨h1, h2⟩, h3⟩ := hcond
    have hds : dotSens m = true := by simp [dotSens, h1, h2]
    have hpu : pos ≠ .unknown := by
      intro hu
      simp [h1, h2, hu, h3] at hsupp
    have hpm : pos ≠ .mid := fun hm => by
      have := (hp hds).2 hm
      rw [hb] at this; cases this
    have : pos = .start := by
      cases pos <;> simp_all
    exact hpp.mp this
  constructor
  · intro b s hp
    rw [GDen_litTok' m prev c b (hbk b hp) s, matches_chr_iff]
  · intro b s hp hg
    obtain ⟨x, rfl, hx⟩ := (GDen_litTok' m prev c b (hbk b hp) s).mp hg
    rw [ctxAfter_singleton]
    intro _
    constructor
    · intro hs
      have hc := (posAfter_start_iff c).mp hs
      have : x = cSlash := (chEq_slash_iff hx).mpr hc
      simp [startAfter, hf, this]
    · intro hm
      have hc := (posAfter_mid_iff c).mp hm
      have : x ≠ cSlash := fun e => hc ((chEq_slash_iff hx).mp e)
      have : (x == cSlash) = false := by simpa using this
      simp [startAfter, this]

theorem sb_iff {pos : Pos} {prev : Rune} (hpp : PP pos prev) :
    (prev == 0 || prev == cSlash) = true ↔ pos = .start := by
  unfold PP at hpp
  rw [hpp]; simp

/-- `*` in filename mode: `([^/.][^/]*)?` at the start of a component, `[^/]*` elsewhere. -/
theorem star_agree_fn (m : Mode) (hf : m.filenames = true) (pos : Pos) (prev : Rune) (hpp : PP pos prev)
    (hsupp : (!(m.filenames && !m.dotglob) || pos != Pos.unknown) = true) :
    (∀ b s, PosOK m pos b →
      (Matches m.nocase (singleStar m (prev == 0 || prev == cSlash)) s ↔ GDen m .star b s)) ∧
    (∀ b s, PosOK m pos b → GDen m .star b s →
      PosOK m (if pos == Pos.mid then Pos.mid else Pos.unknown) (ctxAfter m b s)) := by
  constructor
  · intro b s hp
    simp only [GDen]
    rw [StarDen_fn hf]
    unfold singleStar
    by_cases hsb : (prev == 0 || prev == cSlash) = true
    · have hstart := (sb_iff hpp).mp hsb
      cases hdg : m.dotglob with
      | false =>
        have hds : dotSens m = true := by simp [dotSens, hf, hdg]
        have hb : b = true := (hp hds).1 hstart
        simp only [hsb, Bool.not_false, Bool.and_self, if_true]
        rw [matches_segStar]
        subst hb
        constructor
        · rintro (h | ⟨x, u, rfl, h1, h2, h3⟩)
          · exact .inl h
          · exact .inr ⟨x, u, rfl, h1, by simp [h2], h3⟩
        · rintro (h | ⟨x, u, rfl, h1, h2, h3⟩)
          · exact .inl h
          · exact .inr ⟨x, u, rfl, h1, by simpa using h2, h3⟩
      | true =>
        simp only [hsb, Bool.not_true, Bool.and_false, Bool.false_eq_true, if_false]
        rw [matches_star_notSlash]
        constructor
        · intro h
          cases s with
          | nil => exact .inl rfl
          | cons x u =>
            exact .inr ⟨x, u, rfl, h x (List.mem_cons_self ..), by simp,
              fun y hy => h y (List.mem_cons_of_mem _ hy)⟩
        · rintro (rfl | ⟨x, u, rfl, h1, _, h3⟩)
          · intro x hx; simp at hx
          · intro y hy
            simp only [List.mem_cons] at hy
            rcases hy with rfl | hy
            · exact h1
            · exact h3 y hy
    · have hsb' : (prev == 0 || prev == cSlash) = false := by simpa using hsb
      have hns : pos ≠ .start := fun h => hsb ((sb_iff hpp).mpr h)
      simp only [hsb', Bool.false_and, Bool.false_eq_true, if_false]
      rw [matches_star_notSlash]
      -- not at a component start: either dots are not special, or we are in the middle
      have hdot : ∀ x, ¬ (m.dotglob = false ∧ b = true ∧ x = cDot) := by
        rintro x ⟨hd, hb, _⟩
        have hds : dotSens m = true := by simp [dotSens, hf, hd]
        have hpu : pos ≠ .unknown := by
          intro hu; simp [hf, hd, hu] at hsupp
        have hm : pos = .mid := by cases pos <;> simp_all
        have := (hp hds).2 hm
        rw [hb] at this; cases this
      constructor
      · intro h
        cases s with
        | nil => exact .inl rfl
        | cons x u =>
          exact .inr ⟨x, u, rfl, h x (List.mem_cons_self ..), hdot x,
            fun y hy => h y (List.mem_cons_of_mem _ hy)⟩
      · rintro (rfl | ⟨x, u, rfl, h1, _, h3⟩)
        · intro x hx; simp at hx
        · intro y hy
          simp only [List.mem_cons] at hy
          rcases hy with rfl | hy
          · exact h1
          · exact h3 y hy
  · intro b s hp hg hds
    simp only [GDen] at hg
    constructor
    · intro h
      split at h <;> cases h
    · intro h
      have hm : pos = .mid := by
        by_cases hpm : pos = .mid
        · exact hpm
        · have : (pos == Pos.mid) = false := by simpa using hpm
          simp [this] at h
      have hb := (hp hds).2 hm
      subst hb
      cases s with
      | nil => rfl
      | cons x u => exact StarDen_ctx hg (by simp)

/-- `?` in filename mode: `[^/]`. -/
theorem any_agree_fn (m : Mode) (hf : m.filenames = true) (pos : Pos)
    (hsupp : (!(m.filenames && !m.dotglob) || pos == Pos.mid) = true) :
    (∀ b s, PosOK m pos b → (Matches m.nocase notSlash s ↔ GDen m .any b s)) ∧
    (∀ b s, PosOK m pos b → GDen m .any b s → PosOK m Pos.mid (ctxAfter m b s)) := by
  have hdot : ∀ b x, PosOK m pos b → ¬ (m.dotglob = false ∧ b = true ∧ x = cDot) := by
    rintro b x hp ⟨hd, hb, _⟩
    have hds : dotSens m = true := by simp [dotSens, hf, hd]
    have hm : pos = .mid := by simpa [hf, hd] using hsupp
    have := (hp hds).2 hm
    rw [hb] at this; cases this
  constructor
  · intro b s hp
    rw [matches_notSlash_iff]
    simp only [GDen, wildOk_fn hf]
    constructor
    · rintro ⟨x, rfl, hx⟩
      refine ⟨x, rfl, ?_⟩
      have h1 : (x == cSlash) = false := by simpa using hx
      have h2 := hdot b x hp
      cases hd : m.dotglob <;> cases hb : b <;> cases hxd : (x == cDot) <;> simp_all
    · rintro ⟨x, rfl, hx⟩
      refine ⟨x, rfl, ?_⟩
      simp only [Bool.and_eq_true, Bool.not_eq_true', beq_eq_false_iff_ne] at hx
      exact hx.1
  · intro b s _ hg
    simp only [GDen] at hg
    obtain ⟨x, rfl, hx⟩ := hg
    rw [ctxAfter_singleton, wildOk_not_start hx]
    intro _
    exact ⟨fun h => (nomatch h), fun _ => rfl⟩

theorem extcond_false {m : Mode} {c : Rune} {rest : Str} (hnl : m.ext = false ∨ cLP ∉ (c :: rest)) :
    (m.ext && isExtOp c && rest.head? == some cLP) = false ∧ (m.ext && rest.head? == some cLP) = false := by
  rcases hnl with h | h
  · simp [h]
  · have : cLP ∉ rest := fun hm => h (List.mem_cons_of_mem _ hm)
    simp [head_ne_of_not_mem this]

/-- Translator and reference agree in the filename modes with NoGlobStar, on patterns without
    bracket expressions and pattern-lists. -/
theorem top_agree_fn (m : Mode) (hf : m.filenames = true) (hns : m.noglobstar = true) (total : Nat) :
    ∀ (fuelS : Nat) (pos : Pos) (prev : Rune) (rest : Str) (fuelP fuelT : Nat),
      rest.length < fuelP → rest.length < fuelT →
      supp m false fuelS pos prev rest = true → PP pos prev →
      cLB ∉ rest → (m.ext = false ∨ cLP ∉ rest) → (0 : Nat) ∉ rest →
      TopAgreeF m pos (parseSeq m fuelP prev rest) (topLoop m total fuelT prev rest) := by
  intro fuelS
  induction fuelS with
  | zero => intro pos prev rest fuelP fuelT _ _ h; rw [supp.eq_def] at h; simp at h
  | succ fS ih =>
    intro pos prev rest fuelP fuelT hP hT hs hpp hnb hnl hnz
    cases fuelP with
    | zero => simp at hP
    | succ fP =>
    cases fuelT with
    | zero => simp at hT
    | succ fT =>
    have hfuel : 2 * total + 4 = (2 * total + 3) + 1 := by omega
    cases rest with
    | nil =>
      rw [parseSeq_nil, topLoop_succ, hfuel, next_nil]
      simp only [TopAgreeF]
      exact ⟨_, rfl, rfl, fun b s _ => by rw [matches_eps_iff]; simp [GDen]⟩
    | cons c rest =>
      have hP' : rest.length < fP := by simp at hP; omega
      have hT' : rest.length < fT := by simp at hT; omega
      have hnb' : cLB ∉ rest := fun h => hnb (List.mem_cons_of_mem _ h)
      have hnz' : (0 : Nat) ∉ rest := fun h => hnz (List.mem_cons_of_mem _ h)
      have hnl' : m.ext = false ∨ cLP ∉ rest := by
        rcases hnl with h | h
        · exact .inl h
        · exact .inr (fun hm => h (List.mem_cons_of_mem _ hm))
      have hclb : c ≠ cLB := fun h => hnb (by simp [h])
      have hc0 : c ≠ 0 := fun h => hnz (by simp [h])
      obtain ⟨hcond, hcond2⟩ := extcond_false hnl
      rw [supp_cons] at hs
      rw [parseSeq_cons]
      by_cases hbs : c = cBS
      · subst hbs
        simp only [if_true] at hs ⊢
        cases rest with
        | nil =>
          simp only [TopAgreeF]
          apply topLoop_err
          rw [hfuel, next_cons]
          have e1 : cBS ≠ cStar := by decide
          have e2 : cBS ≠ cQuest := by decide
          have e5 : isExtOp cBS = false := by decide
          simp [e5, e1, e2]
        | cons d rest' =>
          simp only [Bool.and_eq_true] at hs ⊢
          obtain ⟨hs1, hs2⟩ := hs
          have hd0 : d ≠ 0 := fun h => hnz' (by simp [h])
          have hn : next m total (2 * total + 4) prev (cBS :: d :: rest') = .tok (.chr d) d rest' := by
            rw [hfuel, next_cons]
            have e1 : cBS ≠ cStar := by decide
            have e2 : cBS ≠ cQuest := by decide
            have e5 : isExtOp cBS = false := by decide
            simp [e5, e1, e2]
          rw [topLoop_tok hn]
          obtain ⟨ht, hp'⟩ := lit_agree_fn m hf pos prev d hpp hs1
          refine TopAgreeF.cons rfl ht hp' (ih _ d rest' fP fT (by simp at hP'; omega) (by simp at hT'; omega)
            hs2 ?_ (fun h => hnb' (List.mem_cons_of_mem _ h)) ?_ (fun h => hnz' (List.mem_cons_of_mem _ h)))
          · unfold PP
            rw [posAfter_start_iff]
            constructor
            · intro h; exact .inr h
            · rintro (h | h)
              · exact absurd h hd0
              · exact h
          · rcases hnl' with h | h
            · exact .inl h
            · exact .inr (fun hm => h (List.mem_cons_of_mem _ hm))
      · simp only [hbs, if_false, hcond, Bool.false_eq_true, hcond2, Bool.not_false, and_true] at hs ⊢
        by_cases hq : c = cQuest
        · subst hq
          simp only [if_true, Bool.and_eq_true] at hs ⊢
          have hn : next m total (2 * total + 4) prev (cQuest :: rest) = .tok notSlash cQuest rest := by
            rw [hfuel, next_cons]
            have e1 : cQuest ≠ cStar := by decide
            simp [hcond, hf, e1]
          rw [topLoop_tok hn]
          obtain ⟨ht, hp'⟩ := any_agree_fn m hf pos hs.1
          have hcc : goCompiles notSlash = true := by decide
          refine TopAgreeF.cons hcc ht hp' (ih _ cQuest rest fP fT hP' hT' hs.2 ?_ hnb' hnl' hnz')
          unfold PP; constructor
          · intro h; cases h
          · rintro (h | h) <;> exact absurd h (by decide)
        · simp only [hq, if_false] at hs ⊢
          by_cases hst : c = cStar
          · subst hst
            simp only [if_true, hf, hns, Bool.not_true, Bool.and_false, Bool.false_and, Bool.false_eq_true,
              if_false, Bool.true_and, Bool.and_eq_true] at hs ⊢
            obtain ⟨⟨hs1, _⟩, hs3⟩ := hs
            obtain ⟨ht, hp'⟩ := star_agree_fn m hf pos prev hpp (by simpa [hf] using hs1)
            have hppn : PP (if pos == Pos.mid then Pos.mid else Pos.unknown) cStar := by
              unfold PP; constructor
              · intro h; split at h <;> cases h
              · rintro (h | h) <;> exact absurd h (by decide)
            have hcc : goCompiles (singleStar m (prev == 0 || prev == cSlash)) = true := by
              unfold singleStar; split <;> decide
            cases rest with
            | nil =>
              simp only at hs3
              have hn : next m total (2 * total + 4) prev [cStar] =
                  .tok (singleStar m (prev == 0 || prev == cSlash)) cStar [] := by
                rw [hfuel, next_cons]
                simp [hcond, hf]
              rw [topLoop_tok hn]
              refine TopAgreeF.cons hcc ht hp' ?_
              cases fP with
              | zero => simp at hP'
              | succ fP2 =>
              cases fT with
              | zero => simp at hT'
              | succ fT2 =>
              rw [parseSeq_nil, topLoop_succ, hfuel, next_nil]
              simp only [TopAgreeF]
              exact ⟨_, rfl, rfl, fun b s _ => by rw [matches_eps_iff]; simp [GDen]⟩
            | cons c2 rest2 =>
              simp only at hs3
              by_cases h2 : c2 = cStar
              · -- `**` without globstar: pattern.go takes both stars as one
                subst h2
                simp only [if_true] at hs3
                have hn : next m total (2 * total + 4) prev (cStar :: cStar :: rest2) =
                    .tok (singleStar m (prev == 0 || prev == cSlash)) cStar rest2 := by
                  rw [hfuel, next_cons]
                  simp only [hcond, Bool.false_eq_true, if_false]
                  simp [hf, hns]
                rw [topLoop_tok hn]
                -- the reference reads two stars
                cases fP with
                | zero => simp at hP'
                | succ fP2 =>
                have hnl2 : m.ext = false ∨ cLP ∉ rest2 := by
                  rcases hnl' with h | h
                  · exact .inl h
                  · exact .inr (fun hm => h (List.mem_cons_of_mem _ hm))
                obtain ⟨hc3, hc4⟩ := extcond_false hnl'
                have hinner : parseSeq m (fP2 + 1) cStar (cStar :: rest2) =
                    andThenG .star (parseSeq m fP2 cStar rest2) := by
                  rw [parseSeq_cons]
                  have e1 : cStar ≠ cBS := by decide
                  have e2 : cStar ≠ cQuest := by decide
                  simp [e1, e2, hc4, hns]
                rw [hinner]
                apply TopAgreeF.dup_star
                exact TopAgreeF.cons hcc ht hp' (ih _ cStar rest2 fP2 fT (by simp at hP'; omega)
                  (by simp at hT'; omega) hs3 hppn (fun h => hnb' (List.mem_cons_of_mem _ h)) hnl2
                  (fun h => hnz' (List.mem_cons_of_mem _ h)))
              · simp only [h2, if_false] at hs3
                have hn : next m total (2 * total + 4) prev (cStar :: c2 :: rest2) =
                    .tok (singleStar m (prev == 0 || prev == cSlash)) cStar (c2 :: rest2) := by
                  rw [hfuel, next_cons]
                  simp only [hcond, Bool.false_eq_true, if_false]
                  simp [hf, h2]
                rw [topLoop_tok hn]
                exact TopAgreeF.cons hcc ht hp' (ih _ cStar (c2 :: rest2) fP fT hP' hT' hs3 hppn hnb' hnl' hnz')
          · simp only [hst, if_false, hclb, Bool.false_and, Bool.false_eq_true, Bool.and_eq_true] at hs ⊢
            obtain ⟨hs1, hs2⟩ := hs
            have hn : next m total (2 * total + 4) prev (c :: rest) = .tok (.chr c) c rest := by
              rw [hfuel, next_cons]
              simp [hcond, hbs, hq, hst, hclb]
            rw [topLoop_tok hn]
            obtain ⟨ht, hp'⟩ := lit_agree_fn m hf pos prev c hpp hs1
            refine TopAgreeF.cons rfl ht hp' (ih _ c rest fP fT hP' hT' hs2 ?_ hnb' hnl' hnz')
            unfold PP
            rw [posAfter_start_iff]
            constructor
            · intro h; exact .inr h
            · rintro (h | h)
              · exact absurd h hc0
              · exact h

/-! ### the slash invariant of the filename modes -/

/-- Patterns whose tokens are characters, `?`, `*` and bracket expressions (no `**`, no list). -/
def simpleGlob : Glob → Bool
  | .eps => true
  | .lit _ => true
  | .any => true
  | .star => true
  | .bracket _ _ => true
  | .seq a b => simpleGlob a && simpleGlob b
  | _ => false

/-- The number of literal-slash tokens. -/
def litSlashes : Glob → Nat
  | .lit c => if c == cSlash then 1 else 0
  | .seq a b => litSlashes a + litSlashes b
  | _ => 0

theorem count_zero_of_forall {s : Str} (h : ∀ x ∈ s, x ≠ cSlash) : s.count cSlash = 0 := by
  induction s with
  | nil => rfl
  | cons x s ih =>
    have hx : x ≠ cSlash := h x (List.mem_cons_self ..)
    have : (x == cSlash) = false := by simpa using hx
    rw [List.count_cons, ih (fun y hy => h y (List.mem_cons_of_mem _ hy))]
    simp [this]

/-- In filename mode every slash of a matched subject is consumed by a literal-slash token:
    `?`, `*` and bracket expressions consume none. -/
theorem GDen_slashes (m : Mode) (hf : m.filenames = true) : ∀ (g : Glob), simpleGlob g = true →
    ∀ b s, GDen m g b s → s.count cSlash = litSlashes g := by
  intro g
  induction g with
  | eps => intro _ b s h; simp only [GDen] at h; subst h; rfl
  | lit c =>
    intro _ b s h
    simp only [GDen] at h
    obtain ⟨x, rfl, hx⟩ := h
    simp only [litSlashes]
    by_cases hc : c = cSlash
    · have : x = cSlash := (chEq_slash_iff hx).mpr hc
      subst this; subst hc; rfl
    · have hxs : x ≠ cSlash := fun e => hc ((chEq_slash_iff hx).mp e)
      have e1 : (c == cSlash) = false := by simpa using hc
      have e2 : (x == cSlash) = false := by simpa using hxs
      simp [e1, List.count_cons, e2]
  | any =>
    intro _ b s h
    simp only [GDen] at h
    obtain ⟨x, rfl, hx⟩ := h
    rw [wildOk_fn hf] at hx
    simp only [Bool.and_eq_true, Bool.not_eq_true', beq_eq_false_iff_ne] at hx
    have e2 : (x == cSlash) = false := by simpa using hx.1
    simp [litSlashes, List.count_cons, e2]
  | star =>
    intro _ b s h
    simp only [GDen] at h
    rw [StarDen_fn hf] at h
    simp only [litSlashes]
    rcases h with rfl | ⟨x, u, rfl, h1, _, h3⟩
    · rfl
    · apply count_zero_of_forall
      intro y hy
      simp only [List.mem_cons] at hy
      rcases hy with rfl | hy
      · exact h1
      · exact h3 y hy
  | bracket neg items =>
    intro _ b s h
    simp only [GDen] at h
    obtain ⟨x, rfl, hx, _⟩ := h
    rw [wildOk_fn hf] at hx
    simp only [Bool.and_eq_true, Bool.not_eq_true', beq_eq_false_iff_ne] at hx
    have e2 : (x == cSlash) = false := by simpa using hx.1
    simp [litSlashes, List.count_cons, e2]
  | globstar sl => intro h; simp [simpleGlob] at h
  | seq g1 g2 ih1 ih2 =>
    intro hs b s h
    simp only [simpleGlob, Bool.and_eq_true] at hs
    simp only [GDen] at h
    obtain ⟨s1, s2, rfl, h1, h2⟩ := h
    rw [List.count_append, ih1 hs.1 b s1 h1, ih2 hs.2 _ s2 h2]
    rfl
  | alt g1 g2 _ _ => intro h; simp [simpleGlob] at h
  | ext op g _ => intro h; simp [simpleGlob] at h

theorem simple_andThenG {tok : Glob} {pr : Except Err Glob} {g : Glob} (ht : simpleGlob tok = true)
    (hr : ∀ g', pr = .ok g' → simpleGlob g' = true) (h : andThenG tok pr = .ok g) : simpleGlob g = true := by
  cases pr with
  | error e => simp [andThenG] at h
  | ok g' =>
    simp only [andThenG] at h
    cases h
    simp [simpleGlob, ht, hr g' rfl]

theorem simple_litTok (m : Mode) (prev c : Rune) : simpleGlob (litTok m prev c) = true := by
  unfold litTok; split <;> rfl

/-- Without globstar, brackets and pattern-lists the reference parse has only simple tokens. -/
theorem parse_simple (m : Mode) (hns : m.noglobstar = true) : ∀ (fuel : Nat) (prev : Rune) (rest : Str),
    cLB ∉ rest → (m.ext = false ∨ cLP ∉ rest) → ∀ g, parseSeq m fuel prev rest = .ok g → simpleGlob g = true := by
  intro fuel
  induction fuel with
  | zero => intro prev rest _ _ g h; rw [parseSeq.eq_def] at h; cases h; rfl
  | succ f ih =>
    intro prev rest hnb hnl g h
    cases rest with
    | nil => rw [parseSeq_nil] at h; cases h; rfl
    | cons c rest =>
      have hnb' : cLB ∉ rest := fun hm => hnb (List.mem_cons_of_mem _ hm)
      have hclb : c ≠ cLB := fun e => hnb (by simp [e])
      have hnl' : m.ext = false ∨ cLP ∉ rest := by
        rcases hnl with h | h
        · exact .inl h
        · exact .inr (fun hm => h (List.mem_cons_of_mem _ hm))
      obtain ⟨hcond, hcond2⟩ := extcond_false hnl
      rw [parseSeq_cons] at h
      by_cases hbs : c = cBS
      · subst hbs
        simp only [if_true] at h
        cases rest with
        | nil => cases h
        | cons d rest' =>
          simp only at h
          exact simple_andThenG (simple_litTok m prev d) (fun g' hg => ih d rest'
            (fun hm => hnb' (List.mem_cons_of_mem _ hm)) (by
            rcases hnl' with h | h
            · exact .inl h
            · exact .inr (fun hm => h (List.mem_cons_of_mem _ hm))) g' hg) h
      · simp only [hbs, if_false, hcond, Bool.false_eq_true, hcond2, Bool.not_false, and_true, hns,
          Bool.not_true, Bool.and_false, Bool.false_and, hclb] at h
        split at h
        · exact simple_andThenG rfl (fun g' hg => ih _ rest hnb' hnl' g' hg) h
        · split at h
          · exact simple_andThenG rfl (fun g' hg => ih _ rest hnb' hnl' g' hg) h
          · exact simple_andThenG (simple_litTok m prev c) (fun g' hg => ih _ rest hnb' hnl' g' hg) h

end ShVerif.L3
