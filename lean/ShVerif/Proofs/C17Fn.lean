import ShVerif.Proofs.C17Ext
/-
  C17 — the filename modes: slashes, leading dots, `*` / `**` (with NoGlobStar), outside
  bracket expressions and pattern-lists.  The reference keeps track of "at the start of a path
  component" on the subject side (`GDen … b …`), pattern.go on the pattern side (`sl.last()`):
  `Pos` / `PosOK` is the invariant that ties the two.
-/
namespace ShVerif.L3

def dotSens (m : Mode) : Bool := m.filenames && !m.dotglob

/-- What the pattern-side position says about the subject-side context (only matters when a
    leading dot is special). -/
def PosOK (m : Mode) (pos : Pos) (b : Bool) : Prop :=
  dotSens m = true → (pos = .start → b = true) ∧ (pos = .mid → b = false)

/-- `pos` is `start` exactly when the previous pattern character is a slash (or there is none). -/
def PP (pos : Pos) (prev : Rune) : Prop := pos = .start ↔ (prev = 0 ∨ prev = cSlash)

def TopAgreeF (m : Mode) (pos : Pos) (r : Except Err Glob) (t : Except Err (Regex × List (Nat × Nat))) : Prop :=
  match r with
  | .ok g => ∃ body, t = .ok (body, []) ∧ goCompiles body = true ∧
      ∀ b s, PosOK m pos b → (Matches m.nocase body s ↔ GDen m g b s)
  | .error e => t = .error e

theorem TopAgreeF.cons {m : Mode} {pos pos' : Pos} {gtok : Glob} {r : Regex}
    {pr : Except Err Glob} {t : Except Err (Regex × List (Nat × Nat))} (hc : goCompiles r = true)
    (htok : ∀ b s, PosOK m pos b → (Matches m.nocase r s ↔ GDen m gtok b s))
    (hpos : ∀ b s, PosOK m pos b → GDen m gtok b s → PosOK m pos' (ctxAfter m b s))
    (h : TopAgreeF m pos' pr t) : TopAgreeF m pos (andThenG gtok pr) (contTok r t) := by
  cases pr with
  | error e =>
    simp only [TopAgreeF] at h
    subst h
    simp [andThenG, contTok, TopAgreeF]
  | ok g' =>
    simp only [TopAgreeF] at h
    obtain ⟨body, rfl, hcb, hb⟩ := h
    simp only [andThenG, contTok, TopAgreeF]
    refine ⟨_, rfl, by simp [goCompiles, hc, hcb], ?_⟩
    intro b s hp
    rw [matches_cat_iff]
    simp only [GDen]
    constructor
    · rintro ⟨s1, s2, rfl, h1, h2⟩
      have g1 := (htok b s1 hp).mp h1
      exact ⟨s1, s2, rfl, g1, (hb _ s2 (hpos b s1 hp g1)).mp h2⟩
    · rintro ⟨s1, s2, rfl, h1, h2⟩
      exact ⟨s1, s2, rfl, (htok b s1 hp).mpr h1, (hb _ s2 (hpos b s1 hp h1)).mpr h2⟩

/-! ### characters -/

theorem variants_slash (nc : Bool) : variants nc cSlash = [cSlash] := by cases nc <;> decide

theorem chEq_slash_iff {nc : Bool} {c x : Nat} (h : chEq nc c x = true) : x = cSlash ↔ c = cSlash := by
  constructor
  · rintro rfl
    unfold chEq at h
    rw [variants_slash] at h
    simpa using h
  · rintro rfl
    exact chEq_small (by decide) h

theorem any_variants_eq (nc : Bool) (x y : Nat) (hy : y < 65) :
    (variants nc x).any (fun z => z == y) = (x == y) := by
  rw [Bool.eq_iff_iff]
  constructor
  · intro h
    obtain ⟨z, hz, hzy⟩ := List.any_eq_true.mp h
    have := beq_iff_eq.mp hzy
    subst this
    have := variants_small nc x z hy (List.contains_iff_mem.mpr hz)
    simp [this]
  · intro h
    have := beq_iff_eq.mp h
    subst this
    have h0 := chEq_refl nc x
    unfold chEq at h0
    exact List.any_eq_true.mpr ⟨x, List.contains_iff_mem.mp h0, by simp⟩

theorem range_single (c y : Nat) : (decide (c ≤ y) && decide (y ≤ c)) = (y == c) := by
  rw [Bool.eq_iff_iff]
  simp only [Bool.and_eq_true, decide_eq_true_eq, beq_iff_eq]
  constructor
  · rintro ⟨h1, h2⟩; exact Nat.le_antisymm h2 h1
  · rintro rfl; exact ⟨Nat.le_refl _, Nat.le_refl _⟩

theorem setMem_notSlash (nc : Bool) (x : Nat) : setMem nc true [.raw cSlash] x = !(x == cSlash) := by
  have hp : parseItems [CItem.raw cSlash] = some [CRange.range cSlash cSlash] := by
    rw [parseItems.eq_def]
    simp [CItem.char]
    rw [parseItems.eq_def]
  unfold setMem
  rw [hp]
  simp only [List.any_cons, List.any_nil, Bool.or_false, CRange.mem, range_single]
  rw [any_variants_eq nc x cSlash (by decide)]
  cases (x == cSlash) <;> rfl

theorem setMem_notSlashDot (nc : Bool) (x : Nat) :
    setMem nc true [.raw cSlash, .raw cDot] x = (!(x == cSlash) && !(x == cDot)) := by
  have hp : parseItems [CItem.raw cSlash, CItem.raw cDot] =
      some [CRange.range cSlash cSlash, CRange.range cDot cDot] := by
    rw [parseItems.eq_def]
    simp [CItem.char]
    rw [parseItems.eq_def]
    simp [CItem.char]
    rw [parseItems.eq_def]
  unfold setMem
  rw [hp]
  simp only [List.any_cons, List.any_nil, Bool.or_false, CRange.mem, range_single]
  rw [any_or_split, any_variants_eq nc x cSlash (by decide), any_variants_eq nc x cDot (by decide)]
  cases (x == cSlash) <;> cases (x == cDot) <;> rfl

theorem matches_notSlash_iff (nc : Bool) (s : Str) :
    Matches nc notSlash s ↔ ∃ x, s = [x] ∧ x ≠ cSlash := by
  unfold notSlash
  rw [matches_set_iff]
  constructor
  · rintro ⟨x, rfl, h⟩
    rw [setMem_notSlash] at h
    exact ⟨x, rfl, by simpa using h⟩
  · rintro ⟨x, rfl, h⟩
    exact ⟨x, rfl, by rw [setMem_notSlash]; simpa using h⟩

theorem matches_notSlashDot_iff (nc : Bool) (s : Str) :
    Matches nc notSlashDot s ↔ ∃ x, s = [x] ∧ x ≠ cSlash ∧ x ≠ cDot := by
  unfold notSlashDot
  rw [matches_set_iff]
  constructor
  · rintro ⟨x, rfl, h⟩
    rw [setMem_notSlashDot] at h
    exact ⟨x, rfl, by simpa using h⟩
  · rintro ⟨x, rfl, h⟩
    exact ⟨x, rfl, by rw [setMem_notSlashDot]; simpa using h⟩

/-- `[^/]*` -/
theorem matches_star_notSlash (nc : Bool) (s : Str) :
    Matches nc (.star notSlash) s ↔ ∀ x ∈ s, x ≠ cSlash := by
  constructor
  · intro h
    generalize hr : Regex.star notSlash = r at h
    induction h with
    | starNil => intro x hx; simp at hx
    | @starCons a s1 s2 h1 _ _ ih2 =>
      cases hr
      obtain ⟨y, rfl, hy⟩ := (matches_notSlash_iff nc s1).mp h1
      intro x hx
      simp only [List.cons_append, List.nil_append, List.mem_cons] at hx
      rcases hx with rfl | hx
      · exact hy
      · exact ih2 rfl x hx
    | _ => cases hr
  · intro h
    induction s with
    | nil => exact .starNil
    | cons x s ih =>
      exact .starCons (s := [x]) ((matches_notSlash_iff nc [x]).mpr ⟨x, rfl, h x (List.mem_cons_self ..)⟩)
        (ih (fun y hy => h y (List.mem_cons_of_mem _ hy)))

/-- `([^/.][^/]*)?` -/
theorem matches_segStar (nc : Bool) (s : Str) :
    Matches nc segStar s ↔ s = [] ∨ ∃ x u, s = x :: u ∧ x ≠ cSlash ∧ x ≠ cDot ∧ ∀ y ∈ u, y ≠ cSlash := by
  unfold segStar
  constructor
  · intro h
    cases h with
    | optNil => exact .inl rfl
    | optSome h =>
      cases h with
      | grp h =>
        obtain ⟨s1, s2, rfl, h1, h2⟩ := (matches_cat_iff nc _ _ _).mp h
        obtain ⟨x, rfl, hx1, hx2⟩ := (matches_notSlashDot_iff nc s1).mp h1
        exact .inr ⟨x, s2, rfl, hx1, hx2, (matches_star_notSlash nc s2).mp h2⟩
  · rintro (rfl | ⟨x, u, rfl, h1, h2, h3⟩)
    · exact .optNil
    · exact .optSome (.grp (.cat (s := [x]) ((matches_notSlashDot_iff nc [x]).mpr ⟨x, rfl, h1, h2⟩)
        ((matches_star_notSlash nc u).mpr h3)))

/-! ### the reference side in filename mode -/

theorem wildOk_fn {m : Mode} (hf : m.filenames = true) (b : Bool) (x : Nat) :
    wildOk m b x = (!(x == cSlash) && !(!m.dotglob && b && x == cDot)) := by
  simp [wildOk, hf]

theorem StarDen_false_fn {m : Mode} (hf : m.filenames = true) (s : Str) :
    StarDen m false s ↔ ∀ x ∈ s, x ≠ cSlash := by
  induction s with
  | nil => simp [StarDen]
  | cons x s ih =>
    simp only [StarDen, ih, wildOk_fn hf, Bool.and_false, Bool.false_and, Bool.not_false, Bool.and_true,
      Bool.not_eq_true', beq_eq_false_iff_ne, List.mem_cons, forall_eq_or_imp]

theorem StarDen_fn {m : Mode} (hf : m.filenames = true) (b : Bool) (s : Str) :
    StarDen m b s ↔ s = [] ∨ ∃ x u, s = x :: u ∧ x ≠ cSlash ∧ ¬ (m.dotglob = false ∧ b = true ∧ x = cDot) ∧
      ∀ y ∈ u, y ≠ cSlash := by
  cases s with
  | nil => simp [StarDen]
  | cons x u =>
    simp only [StarDen, StarDen_false_fn hf, wildOk_fn hf]
    constructor
    · rintro ⟨h1, h2⟩
      right
      refine ⟨x, u, rfl, ?_, ?_, h2⟩
      · simp only [Bool.and_eq_true, Bool.not_eq_true', beq_eq_false_iff_ne] at h1; exact h1.1
      · simp only [Bool.and_eq_true, Bool.not_eq_true', beq_eq_false_iff_ne] at h1
        rintro ⟨g1, g2, g3⟩
        have := h1.2
        simp [g1, g2, g3] at this
    · rintro (h | ⟨x', u', h, h1, h2, h3⟩)
      · cases h
      · cases h
        refine ⟨?_, h3⟩
        simp only [Bool.and_eq_true, Bool.not_eq_true', beq_eq_false_iff_ne]
        refine ⟨h1, ?_⟩
        cases hd : m.dotglob <;> cases b <;> simp
        intro hx; exact h2 ⟨hd, rfl, hx⟩

theorem GDen_litTok' (m : Mode) (prev c : Rune) (b : Bool)
    (hb : (m.filenames && !m.dotglob && c == cDot) = true → b = true → prev = 0 ∨ prev = cSlash)
    (s1 : Str) : GDen m (litTok m prev c) b s1 ↔ ∃ x, s1 = [x] ∧ chEq m.nocase c x = true := by
  by_cases h : (m.filenames && !m.dotglob && c == cDot) = true
  · exact GDen_litTok m prev c b (hb h) s1
  · have : litTok m prev c = .lit c := by
      unfold litTok
      have h' : (m.filenames && !m.dotglob && c == cDot) = false := by simpa using h
      simp [h']
    rw [this]
    simp only [GDen]

theorem StarDen_append (m : Mode) : ∀ (a c : Str) (b : Bool),
    StarDen m b a → StarDen m (ctxAfter m b a) c → StarDen m b (a ++ c) := by
  intro a
  induction a with
  | nil => intro c b _ h; rw [ctxAfter_nil] at h; simpa using h
  | cons x a ih =>
    intro c b h1 h2
    obtain ⟨hw, ha⟩ := h1
    rw [ctxAfter_cons, wildOk_not_start hw] at h2
    exact ⟨hw, ih c false ha h2⟩

/-- Two stars in a row are one star (`**` without globstar). -/
theorem GDen_star_star (m : Mode) (g : Glob) (b : Bool) (s : Str) :
    GDen m (.seq .star (.seq .star g)) b s ↔ GDen m (.seq .star g) b s := by
  simp only [GDen]
  constructor
  · rintro ⟨a, r, rfl, ha, c, d, rfl, hc, hd⟩
    refine ⟨a ++ c, d, by simp, StarDen_append m a c b ha hc, ?_⟩
    rw [← ctxAfter_append]; exact hd
  · rintro ⟨a, d, rfl, ha, hd⟩
    exact ⟨a, d, rfl, ha, [], d, rfl, trivial, by rw [ctxAfter_nil]; exact hd⟩

theorem TopAgreeF.dup_star {m : Mode} {pos : Pos} {pr : Except Err Glob}
    {t : Except Err (Regex × List (Nat × Nat))} (h : TopAgreeF m pos (andThenG .star pr) t) :
    TopAgreeF m pos (andThenG .star (andThenG .star pr)) t := by
  cases pr with
  | error e => simpa [andThenG, TopAgreeF] using h
  | ok g =>
    simp only [andThenG, TopAgreeF] at h ⊢
    obtain ⟨body, rfl, hc, hb⟩ := h
    refine ⟨body, rfl, hc, ?_⟩
    intro b s hp
    rw [hb b s hp, GDen_star_star]

theorem head_ne_of_not_mem {a : Nat} {l : Str} (h : a ∉ l) : (l.head? == some a) = false := by
  cases l with
  | nil => rfl
  | cons x r =>
    have : x ≠ a := fun e => h (by simp [e])
    simp [this]

theorem posAfter_start_iff (c : Rune) : posAfter c = .start ↔ c = cSlash := by
  unfold posAfter
  by_cases h : c = cSlash
  · simp [h]
  · have : (c == cSlash) = false := by simpa using h
    simp [this, h]

theorem posAfter_mid_iff (c : Rune) : posAfter c = .mid ↔ c ≠ cSlash := by
  unfold posAfter
  by_cases h : c = cSlash
  · simp [h]
  · have : (c == cSlash) = false := by simpa using h
    simp [this, h]

/-- The literal token in filename mode (ordinary or escaped character). -/
theorem lit_agree_fn (m : Mode) (hf : m.filenames = true) (pos : Pos) (prev c : Rune) (hpp : PP pos prev)
    (hsupp : (!(m.filenames && !m.dotglob && pos == Pos.unknown && c == cDot)) = true) :
    (∀ b s, PosOK m pos b → (Matches m.nocase (.chr c) s ↔ GDen m (litTok m prev c) b s)) ∧
    (∀ b s, PosOK m pos b → GDen m (litTok m prev c) b s → PosOK m (posAfter c) (ctxAfter m b s)) := by
  have hbk : ∀ b, PosOK m pos b →
      (m.filenames && !m.dotglob && c == cDot) = true → b = true → prev = 0 ∨ prev = cSlash := by
    intro b hp hcond hb
    simp only [Bool.and_eq_true, Bool.not_eq_true', beq_iff_eq] at hcond
    obtain ⟨⟨h1, h2⟩, h3⟩ := hcond
    have hds : dotSens m = true := by simp [dotSens, h1, h2]
    have hpu : pos ≠ .unknown := by
      intro hu
      simp [h1, h2, hu, h3] at hsupp
    have hpm : pos ≠ .mid := fun hm => by
      have := (hp hds).2 hm
      rw [hb] at this; cases this
    have : pos = .start := by
      cases pos <;> simp_all
    exact hpp.mp this
  constructor
  · intro b s hp
    rw [GDen_litTok' m prev c b (hbk b hp) s, matches_chr_iff]
  · intro b s hp hg
    obtain ⟨x, rfl, hx⟩ := (GDen_litTok' m prev c b (hbk b hp) s).mp hg
    rw [ctxAfter_singleton]
    intro _
    constructor
    · intro hs
      have hc := (posAfter_start_iff c).mp hs
      have : x = cSlash := (chEq_slash_iff hx).mpr hc
      simp [startAfter, hf, this]
    · intro hm
      have hc := (posAfter_mid_iff c).mp hm
      have : x ≠ cSlash := fun e => hc ((chEq_slash_iff hx).mp e)
      have : (x == cSlash) = false := by simpa using this
      simp [startAfter, this]

theorem sb_iff {pos : Pos} {prev : Rune} (hpp : PP pos prev) :
    (prev == 0 || prev == cSlash) = true ↔ pos = .start := by
  unfold PP at hpp
  rw [hpp]; simp

/-- `*` in filename mode: `([^/.][^/]*)?` at the start of a component, `[^/]*` elsewhere. -/
theorem star_agree_fn (m : Mode) (hf : m.filenames = true) (pos : Pos) (prev : Rune) (hpp : PP pos prev)
    (hsupp : (!(m.filenames && !m.dotglob) || pos != Pos.unknown) = true) :
    (∀ b s, PosOK m pos b →
      (Matches m.nocase (singleStar m (prev == 0 || prev == cSlash)) s ↔ GDen m .star b s)) ∧
    (∀ b s, PosOK m pos b → GDen m .star b s →
      PosOK m (if pos == Pos.mid then Pos.mid else Pos.unknown) (ctxAfter m b s)) := by
  constructor
  · intro b s hp
    simp only [GDen]
    rw [StarDen_fn hf]
    unfold singleStar
    by_cases hsb : (prev == 0 || prev == cSlash) = true
    · have hstart := (sb_iff hpp).mp hsb
      cases hdg : m.dotglob with
      | false =>
        have hds : dotSens m = true := by simp [dotSens, hf, hdg]
        have hb : b = true := (hp hds).1 hstart
        simp only [hsb, Bool.not_false, Bool.and_self, if_true]
        rw [matches_segStar]
        subst hb
        constructor
        · rintro (h | ⟨x, u, rfl, h1, h2, h3⟩)
          · exact .inl h
          · exact .inr ⟨x, u, rfl, h1, by simp [h2], h3⟩
        · rintro (h | ⟨x, u, rfl, h1, h2, h3⟩)
          · exact .inl h
          · exact .inr ⟨x, u, rfl, h1, by simpa using h2, h3⟩
      | true =>
        simp only [hsb, Bool.not_true, Bool.and_false, Bool.false_eq_true, if_false]
        rw [matches_star_notSlash]
        constructor
        · intro h
          cases s with
          | nil => exact .inl rfl
          | cons x u =>
            exact .inr ⟨x, u, rfl, h x (List.mem_cons_self ..), by simp,
              fun y hy => h y (List.mem_cons_of_mem _ hy)⟩
        · rintro (rfl | ⟨x, u, rfl, h1, _, h3⟩)
          · intro x hx; simp at hx
          · intro y hy
            simp only [List.mem_cons] at hy
            rcases hy with rfl | hy
            · exact h1
            · exact h3 y hy
    · have hsb' : (prev == 0 || prev == cSlash) = false := by simpa using hsb
      have hns : pos ≠ .start := fun h => hsb ((sb_iff hpp).mpr h)
      simp only [hsb', Bool.false_and, Bool.false_eq_true, if_false]
      rw [matches_star_notSlash]
      -- not at a component start: either dots are not special, or we are in the middle
      have hdot : ∀ x, ¬ (m.dotglob = false ∧ b = true ∧ x = cDot) := by
        rintro x ⟨hd, hb, _⟩
        have hds : dotSens m = true := by simp [dotSens, hf, hd]
        have hpu : pos ≠ .unknown := by
          intro hu; simp [hf, hd, hu] at hsupp
        have hm : pos = .mid := by cases pos <;> simp_all
        have := (hp hds).2 hm
        rw [hb] at this; cases this
      constructor
      · intro h
        cases s with
        | nil => exact .inl rfl
        | cons x u =>
          exact .inr ⟨x, u, rfl, h x (List.mem_cons_self ..), hdot x,
            fun y hy => h y (List.mem_cons_of_mem _ hy)⟩
      · rintro (rfl | ⟨x, u, rfl, h1, _, h3⟩)
        · intro x hx; simp at hx
        · intro y hy
          simp only [List.mem_cons] at hy
          rcases hy with rfl | hy
          · exact h1
          · exact h3 y hy
  · intro b s hp hg hds
    simp only [GDen] at hg
    constructor
    · intro h
      split at h <;> cases h
    · intro h
      have hm : pos = .mid := by
        by_cases hpm : pos = .mid
        · exact hpm
        · have : (pos == Pos.mid) = false := by simpa using hpm
          simp [this] at h
      have hb := (hp hds).2 hm
      subst hb
      cases s with
      | nil => rfl
      | cons x u => exact StarDen_ctx hg (by simp)

/-- `?` in filename mode: `[^/]`. -/
theorem any_agree_fn (m : Mode) (hf : m.filenames = true) (pos : Pos)
    (hsupp : (!(m.filenames && !m.dotglob) || pos == Pos.mid) = true) :
    (∀ b s, PosOK m pos b → (Matches m.nocase notSlash s ↔ GDen m .any b s)) ∧
    (∀ b s, PosOK m pos b → GDen m .any b s → PosOK m Pos.mid (ctxAfter m b s)) := by
  have hdot : ∀ b x, PosOK m pos b → ¬ (m.dotglob = false ∧ b = true ∧ x = cDot) := by
    rintro b x hp ⟨hd, hb, _⟩
    have hds : dotSens m = true := by simp [dotSens, hf, hd]
    have hm : pos = .mid := by simpa [hf, hd] using hsupp
    have := (hp hds).2 hm
    rw [hb] at this; cases this
  constructor
  · intro b s hp
    rw [matches_notSlash_iff]
    simp only [GDen, wildOk_fn hf]
    constructor
    · rintro ⟨x, rfl, hx⟩
      refine ⟨x, rfl, ?_⟩
      have h1 : (x == cSlash) = false := by simpa using hx
      have h2 := hdot b x hp
      cases hd : m.dotglob <;> cases hb : b <;> cases hxd : (x == cDot) <;> simp_all
    · rintro ⟨x, rfl, hx⟩
      refine ⟨x, rfl, ?_⟩
      simp only [Bool.and_eq_true, Bool.not_eq_true', beq_eq_false_iff_ne] at hx
      exact hx.1
  · intro b s _ hg
    simp only [GDen] at hg
    obtain ⟨x, rfl, hx⟩ := hg
    rw [ctxAfter_singleton, wildOk_not_start hx]
    intro _
    exact ⟨fun h => (nomatch h), fun _ => rfl⟩

/-! ### bracket expressions when no slash follows: the Filenames flag is irrelevant -/

theorem mem_drop {a : Nat} {l : Str} {n : Nat} (h : a ∈ l.drop n) : a ∈ l := List.mem_of_mem_drop h

theorem contains_false_of_not_mem {l : Str} (h : cSlash ∉ l) : l.contains cSlash = false := by
  cases hc : l.contains cSlash with
  | false => rfl
  | true => exact absurd (List.contains_iff_mem.mp hc) h

theorem take_not_mem {l : Str} (n : Nat) (h : cSlash ∉ l) : cSlash ∉ l.take n :=
  fun hm => h (List.mem_of_mem_take hm)

theorem brLoop_noslash (neg : Bool) : ∀ (f : Nat) (st : BrSt) (prev : Rune) (r : Str), cSlash ∉ r →
    brLoop true neg f st prev r = brLoop false neg f st prev r := by
  intro f
  induction f with
  | zero => intro st prev r _; rw [brLoop.eq_def, brLoop.eq_def]
  | succ f ih =>
    intro st prev r hr
    cases r with
    | nil => rw [brLoop_nil, brLoop_nil]
    | cons c rest =>
      have hc : c ≠ cSlash := fun e => hr (by simp [e])
      have hc' : (c == cSlash) = false := by simpa using hc
      have hrest : cSlash ∉ rest := fun hm => hr (List.mem_cons_of_mem _ hm)
      rw [brLoop_cons, brLoop_cons]
      by_cases h1 : c = cBS
      · simp only [h1, if_true]
        cases rest with
        | nil => exact ih _ _ _ (by simp)
        | cons d rest' =>
          have hd : d ≠ cSlash := fun e => hrest (by simp [e])
          have hd' : (d == cSlash) = false := by simpa using hd
          simp only [hd', Bool.and_false]
          exact ih _ _ _ (fun hm => hrest (List.mem_cons_of_mem _ hm))
      · simp only [h1, if_false]
        by_cases h2 : c = cDash
        · simp only [h2, if_true]
          exact ih _ _ _ hrest
        · simp only [h2, if_false]
          by_cases h3 : c = cRB
          · simp only [h3, if_true]
          · simp only [h3, if_false]
            by_cases h4 : c = cLB
            · simp only [h4, if_true]
              have hk : ((rest.take (charClass rest).1).contains cSlash) = false :=
                contains_false_of_not_mem (take_not_mem _ hrest)
              simp only [hk, Bool.and_false]
              exact ih _ _ _ (fun hm => hrest (mem_drop hm))
            · simp only [h4, if_false, hc', Bool.and_false]
              exact ih _ _ _ hrest

theorem elemChar_subset {s : Str} {lo : Rune} {esc : Bool} {r1 : Str} (h : elemChar s = some (lo, esc, r1)) :
    ∀ x ∈ r1, x ∈ s := by
  cases s with
  | nil => simp [elemChar] at h
  | cons c rest =>
    simp only [elemChar] at h
    by_cases hc : c = cBS
    · simp only [hc, if_true] at h
      cases rest with
      | nil => simp at h
      | cons d rest' =>
        simp at h
        obtain ⟨_, _, rfl⟩ := h
        intro x hx; simp [hx]
    · simp only [hc, if_false] at h
      simp at h
      obtain ⟨_, _, rfl⟩ := h
      intro x hx; simp [hx]

theorem elemChar_lo_mem {s : Str} {lo : Rune} {esc : Bool} {r1 : Str} (h : elemChar s = some (lo, esc, r1)) :
    lo ∈ s := by
  cases s with
  | nil => simp [elemChar] at h
  | cons c rest =>
    simp only [elemChar] at h
    by_cases hc : c = cBS
    · simp only [hc, if_true] at h
      cases rest with
      | nil => simp at h
      | cons d rest' =>
        simp at h
        obtain ⟨rfl, _, _⟩ := h
        simp
    · simp only [hc, if_false] at h
      simp at h
      obtain ⟨rfl, _, _⟩ := h
      simp

theorem scanItems_noslash : ∀ (f : Nat) (first : Bool) (st : BSt) (r : Str), cSlash ∉ r →
    scanItems true f first st r = scanItems false f first st r := by
  intro f
  induction f with
  | zero => intro first st r _; rw [scanItems.eq_def, scanItems.eq_def]
  | succ f ih =>
    intro first st r hr
    cases r with
    | nil => rw [scanItems_nil, scanItems_nil]
    | cons c rest =>
      have hrest : cSlash ∉ rest := fun hm => hr (List.mem_cons_of_mem _ hm)
      rw [scanItems_cons, scanItems_cons]
      split
      · rfl
      · cases hsc : (if c = cLB then scanClass rest else none) with
        | some p =>
          obtain ⟨n, res⟩ := p
          have hk : ((rest.take n).contains cSlash) = false :=
            contains_false_of_not_mem (take_not_mem _ hrest)
          cases res with
          | ok k =>
            simp only [hk, Bool.and_false]
            exact ih _ _ _ (fun hm => hrest (mem_drop hm))
          | error e =>
            simp only [hk, Bool.and_false]
            exact ih _ _ _ (fun hm => hrest (mem_drop hm))
        | none =>
          simp only
          cases he : elemChar (c :: rest) with
          | none => rfl
          | some q =>
            obtain ⟨lo, esc, r1⟩ := q
            have hlo : lo ≠ cSlash := fun e => hr (e ▸ elemChar_lo_mem he)
            have hlo' : (lo == cSlash) = false := by simpa using hlo
            have hr1 : cSlash ∉ r1 := fun hm => hr (elemChar_subset he _ hm)
            simp only [hlo', Bool.and_false]
            cases r1 with
            | nil => rfl
            | cons d r2 =>
              simp only
              split
              · cases he2 : elemChar r2 with
                | none => rfl
                | some q2 =>
                  obtain ⟨hi, esc2, r3⟩ := q2
                  have hr2 : cSlash ∉ r2 := fun hm => hr1 (List.mem_cons_of_mem _ hm)
                  have hhi : hi ≠ cSlash := fun e => hr2 (e ▸ elemChar_lo_mem he2)
                  have hhi' : (hi == cSlash) = false := by simpa using hhi
                  simp only [hhi', Bool.and_false]
                  exact ih _ _ _ (fun hm => hr2 (elemChar_subset he2 _ hm))
              · exact ih _ _ _ hr1

theorem brSupported_noslash : ∀ (f : Nat) (first : Bool) (r : Str), cSlash ∉ r →
    brSupported true f first r = brSupported false f first r := by
  intro f
  induction f with
  | zero => intro first r _; rw [brSupported.eq_def, brSupported.eq_def]
  | succ f ih =>
    intro first r hr
    cases r with
    | nil => rw [brSupported.eq_def, brSupported.eq_def]
    | cons c rest =>
      have hrest : cSlash ∉ rest := fun hm => hr (List.mem_cons_of_mem _ hm)
      rw [brSupported_cons, brSupported_cons]
      split
      · rfl
      · cases hsc : (if c = cLB then scanClass rest else none) with
        | some p =>
          obtain ⟨n, res⟩ := p
          have hk : ((rest.take n).contains cSlash) = false :=
            contains_false_of_not_mem (take_not_mem _ hrest)
          simp only [hk, Bool.and_false, Bool.false_and]
          rw [ih _ _ (fun hm => hrest (mem_drop hm))]
        | none =>
          simp only
          cases he : elemChar (c :: rest) with
          | none => rfl
          | some q =>
            obtain ⟨lo, esc, r1⟩ := q
            have hlo : lo ≠ cSlash := fun e => hr (e ▸ elemChar_lo_mem he)
            have hlo' : (lo == cSlash) = false := by simpa using hlo
            have hr1 : cSlash ∉ r1 := fun hm => hr (elemChar_subset he _ hm)
            simp only [hlo', Bool.and_false, Bool.false_and, Bool.false_eq_true, if_false]
            split
            · rw [ih _ _ hr1]
            · cases r1 with
              | nil => rfl
              | cons d r2 =>
                simp only
                split
                · cases r2 with
                  | nil => rfl
                  | cons hi r3 =>
                    have hr2 : cSlash ∉ (hi :: r3) := fun hm => hr1 (List.mem_cons_of_mem _ hm)
                    have hhi : hi ≠ cSlash := fun e => hr2 (by simp [e])
                    have hhi' : (hi == cSlash) = false := by simpa using hhi
                    simp only [hhi', Bool.and_false, Bool.false_and, Bool.not_false]
                    rw [ih _ _ (fun hm => hr2 (List.mem_cons_of_mem _ hm))]
                · rw [ih _ _ hr1]

theorem bracket_noslash (s : Str) (h : cSlash ∉ s) : bracket true s = bracket false s := by
  unfold bracket
  cases s with
  | nil => rfl
  | cons c r1 =>
    have hr1 : cSlash ∉ r1 := fun hm => h (List.mem_cons_of_mem _ hm)
    simp only
    by_cases hneg : c = cBang ∨ c = cCaret
    · simp only [hneg, if_true, decide_true]
      cases r1 with
      | nil => rfl
      | cons c1 r2 =>
        have hr2 : cSlash ∉ r2 := fun hm => hr1 (List.mem_cons_of_mem _ hm)
        simp only
        split
        · cases r2 with
          | nil => rfl
          | cons d r3 => exact brLoop_noslash _ _ _ _ _ hr2
        · exact brLoop_noslash _ _ _ _ _ hr1
    · simp only [hneg, if_false, decide_false]
      split
      · cases r1 with
        | nil => rfl
        | cons d r3 => exact brLoop_noslash _ _ _ _ _ hr1
      · exact brLoop_noslash _ _ _ _ _ h

theorem body_noslash {s : Str} (h : cSlash ∉ s) :
    cSlash ∉ (if (s.head? = some cBang ∨ s.head? = some cCaret) then s.tail else s) := by
  split
  · intro hm; exact h (List.mem_of_mem_tail hm)
  · exact h

theorem scanBracket_noslash (s : Str) (h : cSlash ∉ s) : scanBracket true s = scanBracket false s := by
  unfold scanBracket
  simp only
  rw [scanItems_noslash _ _ _ _ (body_noslash h)]

theorem bracketSupported_noslash (s : Str) (h : cSlash ∉ s) :
    bracketSupported true s = bracketSupported false s := by
  unfold bracketSupported
  simp only
  rw [brSupported_noslash _ _ _ (body_noslash h)]

theorem scanItems_subset (fn : Bool) : ∀ (f : Nat) (first : Bool) (st : BSt) (r : Str) (rest' : Str),
    (scanItems fn f first st r).2 = some rest' → ∀ x ∈ rest', x ∈ r := by
  intro f
  induction f with
  | zero => intro first st r rest' h; rw [scanItems.eq_def] at h; simp at h
  | succ f ih =>
    intro first st r rest' h
    cases r with
    | nil => rw [scanItems_nil] at h; simp at h
    | cons c rest =>
      rw [scanItems_cons] at h
      split at h
      · simp at h; subst h
        intro x hx; exact List.mem_cons_of_mem _ hx
      · cases hsc : (if c = cLB then scanClass rest else none) with
        | some p =>
          obtain ⟨n, res⟩ := p
          rw [hsc] at h
          cases res with
          | ok k =>
            intro x hx
            exact List.mem_cons_of_mem _ (mem_drop (ih _ _ _ _ h x hx))
          | error e =>
            intro x hx
            exact List.mem_cons_of_mem _ (mem_drop (ih _ _ _ _ h x hx))
        | none =>
          rw [hsc] at h
          simp only at h
          cases he : elemChar (c :: rest) with
          | none => rw [he] at h; simp at h
          | some q =>
            obtain ⟨lo, esc, r1⟩ := q
            rw [he] at h
            simp only at h
            cases r1 with
            | nil => simp at h
            | cons d r2 =>
              simp only at h
              split at h
              · cases he2 : elemChar r2 with
                | none => rw [he2] at h; simp at h
                | some q2 =>
                  obtain ⟨hi, esc2, r3⟩ := q2
                  rw [he2] at h
                  intro x hx
                  have h3 := ih _ _ _ _ h x hx
                  have h2 := elemChar_subset he2 x h3
                  exact elemChar_subset he x (List.mem_cons_of_mem _ h2)
              · intro x hx
                exact elemChar_subset he x (ih _ _ _ _ h x hx)

theorem scanBracket_subset (fn : Bool) (s : Str) (neg : Bool) (items : List BItem) (rest' : Str)
    (h : scanBracket fn s = .ok neg items rest') : ∀ x ∈ rest', x ∈ s := by
  unfold scanBracket at h
  simp only at h
  generalize hres : scanItems fn _ true _ _ = res at h
  obtain ⟨st, o⟩ := res
  cases o with
  | none => simp only at h; split at h <;> cases h
  | some r0 =>
    simp only at h
    split at h
    · cases h
    · split at h
      · cases h
      · simp at h
        obtain ⟨_, _, rfl⟩ := h
        have := scanItems_subset fn _ _ _ _ r0 (by rw [hres])
        intro x hx
        have hb := this x hx
        split at hb
        · exact List.mem_of_mem_tail hb
        · exact hb

theorem extcond_false {m : Mode} {c : Rune} {rest : Str} (hnl : m.ext = false ∨ cLP ∉ (c :: rest)) :
    (m.ext && isExtOp c && rest.head? == some cLP) = false ∧ (m.ext && rest.head? == some cLP) = false := by
  rcases hnl with h | h
  · simp [h]
  · have : cLP ∉ rest := fun hm => h (List.mem_cons_of_mem _ hm)
    simp [head_ne_of_not_mem this]

theorem bracketMem_slash (nc : Bool) (items : List BItem) (h : items.any (·.mem cSlash) = false) :
    bracketMem nc false items cSlash = false := by
  unfold bracketMem
  have : items.any (fun i => i.memFold nc cSlash) = false := by
    rw [List.any_eq_false] at h ⊢
    intro i hi
    have := h i hi
    cases i with
    | cls k => simpa [BItem.memFold, BItem.mem] using this
    | ch c => simpa [BItem.memFold, variants_slash] using this
    | range lo hi => simpa [BItem.memFold, variants_slash] using this
  simp [this]

/-- A bracket expression in filename mode (no slash in its set, not at a possible component start
    when dots are special): the class pattern.go emits matches what the reference says. -/
theorem bracket_agree_fn (m : Mode) (hf : m.filenames = true) (pos : Pos) (neg : Bool) (items : List BItem)
    (citems : List CItem)
    (hmem : ∀ x, setMem m.nocase neg citems x = bracketMem m.nocase neg items x)
    (hsl : (!(neg || items.any (·.mem cSlash))) = true)
    (hdot : (!(m.filenames && !m.dotglob) || pos == Pos.mid) = true) :
    (∀ b s, PosOK m pos b → (Matches m.nocase (.set neg citems) s ↔ GDen m (.bracket neg items) b s)) ∧
    (∀ b s, PosOK m pos b → GDen m (.bracket neg items) b s → PosOK m Pos.mid (ctxAfter m b s)) := by
  simp only [Bool.not_eq_true', Bool.or_eq_false_iff] at hsl
  obtain ⟨hneg, hany⟩ := hsl
  subst hneg
  have hw : ∀ b x, PosOK m pos b → bracketMem m.nocase false items x = true → wildOk m b x = true := by
    intro b x hp hbm
    have hx : x ≠ cSlash := by
      intro e; subst e
      rw [bracketMem_slash _ _ hany] at hbm; cases hbm
    have e1 : (x == cSlash) = false := by simpa using hx
    rw [wildOk_fn hf, e1]
    cases hd : m.dotglob with
    | true => simp
    | false =>
      have hds : dotSens m = true := by simp [dotSens, hf, hd]
      have hm : pos = .mid := by simpa [hf, hd] using hdot
      have := (hp hds).2 hm
      simp [this]
  constructor
  · intro b s hp
    rw [matches_set_iff]
    simp only [GDen]
    constructor
    · rintro ⟨x, rfl, hx⟩
      rw [hmem] at hx
      exact ⟨x, rfl, hw b x hp hx, hx⟩
    · rintro ⟨x, rfl, _, hx⟩
      exact ⟨x, rfl, by rw [hmem]; exact hx⟩
  · intro b s _ hg
    simp only [GDen] at hg
    obtain ⟨x, rfl, hx, _⟩ := hg
    rw [ctxAfter_singleton, wildOk_not_start hx]
    intro _
    exact ⟨fun h => (nomatch h), fun _ => rfl⟩

/-- Translator and reference agree in the filename modes with NoGlobStar, on patterns without
    pattern-lists; a bracket expression may only occur when the pattern has no slash (as in
    expand.glob, which splits the pattern at its slashes first). -/
theorem top_agree_fn (m : Mode) (hf : m.filenames = true) (hns : m.noglobstar = true) (total : Nat) :
    ∀ (fuelS : Nat) (pos : Pos) (prev : Rune) (rest : Str) (fuelP fuelT : Nat),
      rest.length < fuelP → rest.length < fuelT →
      supp m false fuelS pos prev rest = true → PP pos prev →
      (cLB ∉ rest ∨ cSlash ∉ rest) → (m.ext = false ∨ cLP ∉ rest) → (0 : Nat) ∉ rest →
      TopAgreeF m pos (parseSeq m fuelP prev rest) (topLoop m total fuelT prev rest) := by
  intro fuelS
  induction fuelS with
  | zero => intro pos prev rest fuelP fuelT _ _ h; rw [supp.eq_def] at h; simp at h
  | succ fS ih =>
    intro pos prev rest fuelP fuelT hP hT hs hpp hnb hnl hnz
    cases fuelP with
    | zero => simp at hP
    | succ fP =>
    cases fuelT with
    | zero => simp at hT
    | succ fT =>
    have hfuel : 2 * total + 4 = (2 * total + 3) + 1 := by omega
    cases rest with
    | nil =>
      rw [parseSeq_nil, topLoop_succ, hfuel, next_nil]
      simp only [TopAgreeF]
      exact ⟨_, rfl, rfl, fun b s _ => by rw [matches_eps_iff]; simp [GDen]⟩
    | cons c rest =>
      have hP' : rest.length < fP := by simp at hP; omega
      have hT' : rest.length < fT := by simp at hT; omega
      have hnb' : cLB ∉ rest ∨ cSlash ∉ rest := by
        rcases hnb with h | h
        · exact .inl (fun hm => h (List.mem_cons_of_mem _ hm))
        · exact .inr (fun hm => h (List.mem_cons_of_mem _ hm))
      have hnz' : (0 : Nat) ∉ rest := fun h => hnz (List.mem_cons_of_mem _ h)
      have hnl' : m.ext = false ∨ cLP ∉ rest := by
        rcases hnl with h | h
        · exact .inl h
        · exact .inr (fun hm => h (List.mem_cons_of_mem _ hm))
      have hc0 : c ≠ 0 := fun h => hnz (by simp [h])
      obtain ⟨hcond, hcond2⟩ := extcond_false hnl
      rw [supp_cons] at hs
      rw [parseSeq_cons]
      by_cases hbs : c = cBS
      · subst hbs
        simp only [if_true] at hs ⊢
        cases rest with
        | nil =>
          simp only [TopAgreeF]
          apply topLoop_err
          rw [hfuel, next_cons]
          have e1 : cBS ≠ cStar := by decide
          have e2 : cBS ≠ cQuest := by decide
          have e5 : isExtOp cBS = false := by decide
          simp [e5, e1, e2]
        | cons d rest' =>
          simp only [Bool.and_eq_true] at hs ⊢
          obtain ⟨hs1, hs2⟩ := hs
          have hd0 : d ≠ 0 := fun h => hnz' (by simp [h])
          have hn : next m total (2 * total + 4) prev (cBS :: d :: rest') = .tok (.chr d) d rest' := by
            rw [hfuel, next_cons]
            have e1 : cBS ≠ cStar := by decide
            have e2 : cBS ≠ cQuest := by decide
            have e5 : isExtOp cBS = false := by decide
            simp [e5, e1, e2]
          rw [topLoop_tok hn]
          obtain ⟨ht, hp'⟩ := lit_agree_fn m hf pos prev d hpp hs1
          refine TopAgreeF.cons rfl ht hp' (ih _ d rest' fP fT (by simp at hP'; omega) (by simp at hT'; omega)
            hs2 ?_ (by
              rcases hnb' with h | h
              · exact .inl (fun hm => h (List.mem_cons_of_mem _ hm))
              · exact .inr (fun hm => h (List.mem_cons_of_mem _ hm))) ?_ (fun h => hnz' (List.mem_cons_of_mem _ h)))
          · unfold PP
            rw [posAfter_start_iff]
            constructor
            · intro h; exact .inr h
            · rintro (h | h)
              · exact absurd h hd0
              · exact h
          · rcases hnl' with h | h
            · exact .inl h
            · exact .inr (fun hm => h (List.mem_cons_of_mem _ hm))
      · simp only [hbs, if_false, hcond, Bool.false_eq_true, hcond2, Bool.not_false, and_true] at hs ⊢
        by_cases hq : c = cQuest
        · subst hq
          simp only [if_true, Bool.and_eq_true] at hs ⊢
          have hn : next m total (2 * total + 4) prev (cQuest :: rest) = .tok notSlash cQuest rest := by
            rw [hfuel, next_cons]
            have e1 : cQuest ≠ cStar := by decide
            simp [hcond, hf, e1]
          rw [topLoop_tok hn]
          obtain ⟨ht, hp'⟩ := any_agree_fn m hf pos hs.1
          have hcc : goCompiles notSlash = true := by decide
          refine TopAgreeF.cons hcc ht hp' (ih _ cQuest rest fP fT hP' hT' hs.2 ?_ hnb' hnl' hnz')
          unfold PP; constructor
          · intro h; cases h
          · rintro (h | h) <;> exact absurd h (by decide)
        · simp only [hq, if_false] at hs ⊢
          by_cases hst : c = cStar
          · subst hst
            simp only [if_true, hf, hns, Bool.not_true, Bool.and_false, Bool.false_and, Bool.false_eq_true,
              if_false, Bool.true_and, Bool.and_eq_true] at hs ⊢
            obtain ⟨⟨hs1, _⟩, hs3⟩ := hs
            obtain ⟨ht, hp'⟩ := star_agree_fn m hf pos prev hpp (by simpa [hf] using hs1)
            have hppn : PP (if pos == Pos.mid then Pos.mid else Pos.unknown) cStar := by
              unfold PP; constructor
              · intro h; split at h <;> cases h
              · rintro (h | h) <;> exact absurd h (by decide)
            have hcc : goCompiles (singleStar m (prev == 0 || prev == cSlash)) = true := by
              unfold singleStar; split <;> decide
            cases rest with
            | nil =>
              simp only at hs3
              have hn : next m total (2 * total + 4) prev [cStar] =
                  .tok (singleStar m (prev == 0 || prev == cSlash)) cStar [] := by
                rw [hfuel, next_cons]
                simp [hcond, hf]
              rw [topLoop_tok hn]
              refine TopAgreeF.cons hcc ht hp' ?_
              cases fP with
              | zero => simp at hP'
              | succ fP2 =>
              cases fT with
              | zero => simp at hT'
              | succ fT2 =>
              rw [parseSeq_nil, topLoop_succ, hfuel, next_nil]
              simp only [TopAgreeF]
              exact ⟨_, rfl, rfl, fun b s _ => by rw [matches_eps_iff]; simp [GDen]⟩
            | cons c2 rest2 =>
              simp only at hs3
              by_cases h2 : c2 = cStar
              · -- `**` without globstar: pattern.go takes both stars as one
                subst h2
                simp only [if_true] at hs3
                have hn : next m total (2 * total + 4) prev (cStar :: cStar :: rest2) =
                    .tok (singleStar m (prev == 0 || prev == cSlash)) cStar rest2 := by
                  rw [hfuel, next_cons]
                  simp only [hcond, Bool.false_eq_true, if_false]
                  simp [hf, hns]
                rw [topLoop_tok hn]
                -- the reference reads two stars
                cases fP with
                | zero => simp at hP'
                | succ fP2 =>
                have hnl2 : m.ext = false ∨ cLP ∉ rest2 := by
                  rcases hnl' with h | h
                  · exact .inl h
                  · exact .inr (fun hm => h (List.mem_cons_of_mem _ hm))
                obtain ⟨hc3, hc4⟩ := extcond_false hnl'
                have hinner : parseSeq m (fP2 + 1) cStar (cStar :: rest2) =
                    andThenG .star (parseSeq m fP2 cStar rest2) := by
                  rw [parseSeq_cons]
                  have e1 : cStar ≠ cBS := by decide
                  have e2 : cStar ≠ cQuest := by decide
                  simp [e1, e2, hc4, hns]
                rw [hinner]
                apply TopAgreeF.dup_star
                exact TopAgreeF.cons hcc ht hp' (ih _ cStar rest2 fP2 fT (by simp at hP'; omega)
                  (by simp at hT'; omega) hs3 hppn (by
                    rcases hnb' with h | h
                    · exact .inl (fun hm => h (List.mem_cons_of_mem _ hm))
                    · exact .inr (fun hm => h (List.mem_cons_of_mem _ hm))) hnl2
                  (fun h => hnz' (List.mem_cons_of_mem _ h)))
              · simp only [h2, if_false] at hs3
                have hn : next m total (2 * total + 4) prev (cStar :: c2 :: rest2) =
                    .tok (singleStar m (prev == 0 || prev == cSlash)) cStar (c2 :: rest2) := by
                  rw [hfuel, next_cons]
                  simp only [hcond, Bool.false_eq_true, if_false]
                  simp [hf, h2]
                rw [topLoop_tok hn]
                exact TopAgreeF.cons hcc ht hp' (ih _ cStar (c2 :: rest2) fP fT hP' hT' hs3 hppn hnb' hnl' hnz')
          · by_cases hlb : c = cLB
            · -- a bracket expression: only when no slash follows, so the Filenames flag changes nothing
              subst hlb
              have hns' : cSlash ∉ rest := by
                rcases hnb with h | h
                · exact absurd (List.mem_cons_self ..) h
                · exact fun hm => h (List.mem_cons_of_mem _ hm)
              simp only [hst, if_false, if_true, hf, Bool.and_eq_true] at hs ⊢
              rw [bracketSupported_noslash rest hns', scanBracket_noslash rest hns'] at hs
              rw [scanBracket_noslash rest hns']
              obtain ⟨hbsup, hs2⟩ := hs
              have hag := bracket_agree rest hbsup
              unfold BracketAgree at hag
              have hnx : next m total (2 * total + 4) prev (cLB :: rest) =
                  (match bracket false rest with
                   | .literal => Step.tok (.chr cLB) cLB rest
                   | .err e => .err e
                   | .closed neg st rest' =>
                     if st.hasSlash then
                       .tok (seqRegex ((cLB :: rest.take (rest.length - rest'.length)).map .chr)) cRB rest'
                     else match st.deferred with
                       | some e => .err e
                       | none => .tok (.set neg st.items) cRB rest') := by
                rw [hfuel, next_cons]
                have e1 : cLB ≠ cStar := by decide
                have e2 : cLB ≠ cQuest := by decide
                have e3 : cLB ≠ cBS := by decide
                simp only [hcond, Bool.false_eq_true, if_false, e1, e2, e3, if_true, hf]
                rw [bracket_noslash rest hns']
                rfl
              have hppm : PP Pos.mid cRB := by
                unfold PP; constructor
                · intro h; cases h
                · rintro (h | h) <;> exact absurd h (by decide)
              cases hsb : scanBracket false rest with
              | notBracket =>
                rw [hsb] at hag hs2
                simp only [AgreeP] at hag
                simp only at hs2 ⊢
                have hn : next m total (2 * total + 4) prev (cLB :: rest) = .tok (.chr cLB) cLB rest := by
                  rw [hnx, hag]
                rw [topLoop_tok hn]
                obtain ⟨ht, hp'⟩ := lit_agree_fn m hf pos prev cLB hpp (by
                  have : (cLB == cDot) = false := by decide
                  simp [this])
                rw [litTok_ne_dot m prev (by decide : cLB ≠ cDot)] at ht hp'
                have hpa : posAfter cLB = Pos.mid := (posAfter_mid_iff cLB).mpr (by decide)
                rw [hpa] at hp'
                refine TopAgreeF.cons rfl ht hp' (ih _ cLB rest fP fT hP' hT' hs2 ?_ hnb' hnl' hnz')
                unfold PP; constructor
                · intro h; cases h
                · rintro (h | h) <;> exact absurd h (by decide)
              | malformed e =>
                rw [hsb] at hag
                simp only [AgreeP] at hag
                simp only [TopAgreeF]
                apply topLoop_err
                rw [hnx]
                rcases hag with hag | ⟨neg, st, rest', hag, h1, h2⟩
                · rw [hag]
                · rw [hag]; simp [h1, h2]
              | ok neg items rest' =>
                rw [hsb] at hag hs2
                simp only [AgreeP] at hag
                obtain ⟨st, hbr, h1, h2, hlen, hcc, hmem⟩ := hag
                simp only [Bool.and_eq_true] at hs2
                obtain ⟨⟨⟨hsl, hncls⟩, hdot⟩, hs3⟩ := hs2
                simp only
                have hn : next m total (2 * total + 4) prev (cLB :: rest) =
                    .tok (.set neg st.items) cRB rest' := by
                  rw [hnx, hbr]; simp [h1, h2]
                rw [topLoop_tok hn]
                have hcls : m.nocase = false ∨ ∀ i ∈ items, i.isCls = false := by
                  cases hnc : m.nocase with
                  | false => exact .inl rfl
                  | true =>
                    right
                    intro i hi
                    simp only [hnc, Bool.true_and, Bool.not_eq_true', List.any_eq_false] at hncls
                    simpa using hncls i hi
                have hsub := scanBracket_subset false rest neg items rest' hsb
                obtain ⟨ht, hp'⟩ := bracket_agree_fn m hf pos neg items st.items
                  (fun x => hmem m.nocase x hcls) (by simpa [hf] using hsl) (by simpa [hf] using hdot)
                refine TopAgreeF.cons (by simp [goCompiles, hcc]) ht hp'
                  (ih _ cRB rest' fP fT (by omega) (by omega) hs3 hppm
                    (.inr (fun hm => hns' (hsub _ hm))) ?_ (fun hm => hnz' (hsub _ hm)))
                rcases hnl' with h | h
                · exact .inl h
                · exact .inr (fun hm => h (hsub _ hm))
            · have hclb : c ≠ cLB := hlb
              simp only [hst, if_false, hclb, Bool.false_and, Bool.false_eq_true, Bool.and_eq_true] at hs ⊢
              obtain ⟨hs1, hs2⟩ := hs
              have hn : next m total (2 * total + 4) prev (c :: rest) = .tok (.chr c) c rest := by
                rw [hfuel, next_cons]
                simp [hcond, hbs, hq, hst, hclb]
              rw [topLoop_tok hn]
              obtain ⟨ht, hp'⟩ := lit_agree_fn m hf pos prev c hpp hs1
              refine TopAgreeF.cons rfl ht hp' (ih _ c rest fP fT hP' hT' hs2 ?_ hnb' hnl' hnz')
              unfold PP
              rw [posAfter_start_iff]
              constructor
              · intro h; exact .inr h
              · rintro (h | h)
                · exact absurd h hc0
                · exact h

/-! ### the slash invariant of the filename modes -/

/-- Patterns whose tokens are characters, `?`, `*` and bracket expressions (no `**`, no list). -/
def simpleGlob : Glob → Bool
  | .eps => true
  | .lit _ => true
  | .any => true
  | .star => true
  | .bracket _ _ => true
  | .seq a b => simpleGlob a && simpleGlob b
  | _ => false

/-- The number of literal-slash tokens. -/
def litSlashes : Glob → Nat
  | .lit c => if c == cSlash then 1 else 0
  | .seq a b => litSlashes a + litSlashes b
  | _ => 0

theorem count_zero_of_forall {s : Str} (h : ∀ x ∈ s, x ≠ cSlash) : s.count cSlash = 0 := by
  induction s with
  | nil => rfl
  | cons x s ih =>
    have hx : x ≠ cSlash := h x (List.mem_cons_self ..)
    have : (x == cSlash) = false := by simpa using hx
    rw [List.count_cons, ih (fun y hy => h y (List.mem_cons_of_mem _ hy))]
    simp [this]

/-- In filename mode every slash of a matched subject is consumed by a literal-slash token:
    `?`, `*` and bracket expressions consume none. -/
theorem GDen_slashes (m : Mode) (hf : m.filenames = true) : ∀ (g : Glob), simpleGlob g = true →
    ∀ b s, GDen m g b s → s.count cSlash = litSlashes g := by
  intro g
  induction g with
  | eps => intro _ b s h; simp only [GDen] at h; subst h; rfl
  | lit c =>
    intro _ b s h
    simp only [GDen] at h
    obtain ⟨x, rfl, hx⟩ := h
    simp only [litSlashes]
    by_cases hc : c = cSlash
    · have : x = cSlash := (chEq_slash_iff hx).mpr hc
      subst this; subst hc; rfl
    · have hxs : x ≠ cSlash := fun e => hc ((chEq_slash_iff hx).mp e)
      have e1 : (c == cSlash) = false := by simpa using hc
      have e2 : (x == cSlash) = false := by simpa using hxs
      simp [e1, List.count_cons, e2]
  | any =>
    intro _ b s h
    simp only [GDen] at h
    obtain ⟨x, rfl, hx⟩ := h
    rw [wildOk_fn hf] at hx
    simp only [Bool.and_eq_true, Bool.not_eq_true', beq_eq_false_iff_ne] at hx
    have e2 : (x == cSlash) = false := by simpa using hx.1
    simp [litSlashes, List.count_cons, e2]
  | star =>
    intro _ b s h
    simp only [GDen] at h
    rw [StarDen_fn hf] at h
    simp only [litSlashes]
    rcases h with rfl | ⟨x, u, rfl, h1, _, h3⟩
    · rfl
    · apply count_zero_of_forall
      intro y hy
      simp only [List.mem_cons] at hy
      rcases hy with rfl | hy
      · exact h1
      · exact h3 y hy
  | bracket neg items =>
    intro _ b s h
    simp only [GDen] at h
    obtain ⟨x, rfl, hx, _⟩ := h
    rw [wildOk_fn hf] at hx
    simp only [Bool.and_eq_true, Bool.not_eq_true', beq_eq_false_iff_ne] at hx
    have e2 : (x == cSlash) = false := by simpa using hx.1
    simp [litSlashes, List.count_cons, e2]
  | globstar sl => intro h; simp [simpleGlob] at h
  | seq g1 g2 ih1 ih2 =>
    intro hs b s h
    simp only [simpleGlob, Bool.and_eq_true] at hs
    simp only [GDen] at h
    obtain ⟨s1, s2, rfl, h1, h2⟩ := h
    rw [List.count_append, ih1 hs.1 b s1 h1, ih2 hs.2 _ s2 h2]
    rfl
  | alt g1 g2 _ _ => intro h; simp [simpleGlob] at h
  | ext op g _ => intro h; simp [simpleGlob] at h

theorem simple_andThenG {tok : Glob} {pr : Except Err Glob} {g : Glob} (ht : simpleGlob tok = true)
    (hr : ∀ g', pr = .ok g' → simpleGlob g' = true) (h : andThenG tok pr = .ok g) : simpleGlob g = true := by
  cases pr with
  | error e => simp [andThenG] at h
  | ok g' =>
    simp only [andThenG] at h
    cases h
    simp [simpleGlob, ht, hr g' rfl]

theorem simple_litTok (m : Mode) (prev c : Rune) : simpleGlob (litTok m prev c) = true := by
  unfold litTok; split <;> rfl

/-- Without globstar and pattern-lists the reference parse has only simple tokens. -/
theorem parse_simple (m : Mode) (hns : m.noglobstar = true) : ∀ (fuel : Nat) (prev : Rune) (rest : Str),
    (m.ext = false ∨ cLP ∉ rest) → ∀ g, parseSeq m fuel prev rest = .ok g → simpleGlob g = true := by
  intro fuel
  induction fuel with
  | zero => intro prev rest _ g h; rw [parseSeq.eq_def] at h; cases h; rfl
  | succ f ih =>
    intro prev rest hnl g h
    cases rest with
    | nil => rw [parseSeq_nil] at h; cases h; rfl
    | cons c rest =>
      have hnl' : m.ext = false ∨ cLP ∉ rest := by
        rcases hnl with h | h
        · exact .inl h
        · exact .inr (fun hm => h (List.mem_cons_of_mem _ hm))
      obtain ⟨hcond, hcond2⟩ := extcond_false hnl
      rw [parseSeq_cons] at h
      by_cases hbs : c = cBS
      · subst hbs
        simp only [if_true] at h
        cases rest with
        | nil => cases h
        | cons d rest' =>
          simp only at h
          exact simple_andThenG (simple_litTok m prev d) (fun g' hg => ih d rest' (by
            rcases hnl' with h | h
            · exact .inl h
            · exact .inr (fun hm => h (List.mem_cons_of_mem _ hm))) g' hg) h
      · simp only [hbs, if_false, hcond, Bool.false_eq_true, hcond2, Bool.not_false, and_true, hns,
          Bool.not_true, Bool.and_false, Bool.false_and] at h
        split at h
        · exact simple_andThenG rfl (fun g' hg => ih _ rest hnl' g' hg) h
        · split at h
          · exact simple_andThenG rfl (fun g' hg => ih _ rest hnl' g' hg) h
          · split at h
            · cases hsb : scanBracket m.filenames rest with
              | notBracket =>
                rw [hsb] at h
                exact simple_andThenG rfl (fun g' hg => ih _ rest hnl' g' hg) h
              | malformed e => rw [hsb] at h; cases h
              | ok neg items rest' =>
                rw [hsb] at h
                have hsub := scanBracket_subset _ rest neg items rest' hsb
                exact simple_andThenG rfl (fun g' hg => ih _ rest' (by
                  rcases hnl' with h | h
                  · exact .inl h
                  · exact .inr (fun hm => h (hsub _ hm))) g' hg) h
            · exact simple_andThenG (simple_litTok m prev c) (fun g' hg => ih _ rest hnl' g' hg) h

end ShVerif.L3
