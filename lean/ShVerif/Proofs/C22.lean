/-
  C22 — proofs: `wordFields` meets the POSIX field-splitting specification (`partOk` words),
  plain words give one field, `expand.Literal` is quote removal when no unquoted backslash.
  Core Lean only.
-/
import ShVerif.Model.C22
namespace ShVerif.C22

/-! ## Byte strings -/

theorem takeWhile_ne0 : ∀ (s : Bytes), s.contains 0 = false → s.takeWhile (· != 0) = s
  | [], _ => rfl
  | b :: rest, h => by
    simp only [List.contains_cons, Bool.or_eq_false_iff] at h
    have hb : (b != 0) = true := by
      have := h.1
      simp only [bne_iff_ne, ne_eq]
      intro hb0
      rw [hb0] at this
      simp at this
    rw [List.takeWhile_cons, hb]
    simp only [if_true]
    rw [takeWhile_ne0 rest h.2]

theorem unbackslash_no92 (s : Bytes) (h : s.contains 92 = false) : unbackslash s = s := by
  fun_induction unbackslash s with
  | case1 => rfl
  | case2 b => rfl
  | case3 b c rest hb ih =>
    exfalso
    simp only [beq_iff_eq] at hb
    subst hb
    simp at h
  | case4 b c rest hb ih =>
    simp only [List.contains_cons, Bool.or_eq_false_iff] at h
    have : (c :: rest).contains 92 = false := by
      simp only [List.contains_cons, Bool.or_eq_false_iff]; exact h.2
    rw [ih this]

theorem unbackslash_ne_nil : ∀ (s : Bytes), s ≠ [] → unbackslash s ≠ []
  | [], h => absurd rfl h
  | [b], _ => by simp [unbackslash]
  | b :: c :: rest, _ => by
    rw [unbackslash]; split <;> simp

theorem dqUnescape_nonul (s : Bytes) (h : s.contains 0 = false) : (dqUnescape s).contains 0 = false := by
  fun_induction dqUnescape s with
  | case1 => rfl
  | case2 b => exact h
  | case3 b c rest hb ih =>
    simp only [List.contains_cons, Bool.or_eq_false_iff] at h ⊢
    exact ⟨h.2.1, ih h.2.2⟩
  | case4 b c rest hb ih =>
    simp only [List.contains_cons, Bool.or_eq_false_iff] at h ⊢
    exact ⟨h.1, ih (by simp only [List.contains_cons, Bool.or_eq_false_iff]; exact h.2)⟩

/-! ## Values of double-quoted parts -/

/-- The specification's value of a part inside double quotes (the anonymous function of
    `posixLiteralVal`). -/
def dspecVal (env : Env) : DPart → Bytes
  | .lit s => dqUnescape s
  | .exp v => strBytes v
  | .at => joinBytes [32] (env.params.map strBytes)
  | .star => joinBytes (ifsSep env.ifs) (env.params.map strBytes)

theorem posixLiteralVal_dbl (env : Env) (ps : List DPart) :
    posixLiteralVal env (.dbl ps) = (ps.map (dspecVal env)).flatten := by
  rfl

theorem dpartVal_ok (env : Env) (d : DPart) (h : dpartOk d = true) :
    dpartVal env d = dspecVal env d := by
  cases d with
  | lit s =>
    simp only [dpartOk, Bool.not_eq_true'] at h
    exact takeWhile_ne0 _ (dqUnescape_nonul s h)
  | _ => rfl

theorem dpartVals_ok (env : Env) (ps : List DPart) (h : ps.all dpartOk = true) :
    ps.map (dpartVal env) = ps.map (dspecVal env) :=
  List.map_congr_left (fun d hd => dpartVal_ok env d (List.all_eq_true.mp h d hd))

/-! ## expand.Literal -/

theorem unbackslash_nonul (s : Bytes) (h : s.contains 0 = false) : (unbackslash s).contains 0 = false := by
  fun_induction unbackslash s with
  | case1 => rfl
  | case2 b => exact h
  | case3 b c rest hb ih =>
    simp only [List.contains_cons, Bool.or_eq_false_iff] at h ⊢
    exact ⟨h.2.1, ih h.2.2⟩
  | case4 b c rest hb ih =>
    simp only [List.contains_cons, Bool.or_eq_false_iff] at h ⊢
    exact ⟨h.1, ih (by simp only [List.contains_cons, Bool.or_eq_false_iff]; exact h.2)⟩

/-- expand.Literal is quote removal (source text holds no NUL byte). -/
theorem literal_spec' (env : Env) (parts : List Part)
    (h : ∀ p ∈ parts, (∀ s, p = .lit s → s.contains 0 = false) ∧
                      (∀ ps, p = .dbl ps → ps.all dpartOk = true)) :
    literal env parts = posixLiteral env parts := by
  unfold literal posixLiteral
  congr 1
  apply List.map_congr_left
  intro p hp
  obtain ⟨h1, h2⟩ := h p hp
  cases p with
  | lit s =>
    simp only [literalVal, posixLiteralVal, if_true]
    rw [takeWhile_ne0 _ (unbackslash_nonul s (h1 s rfl))]
  | dbl ps =>
    rw [posixLiteralVal_dbl]
    simp only [literalVal]
    rw [dpartVals_ok env ps (h2 ps rfl)]
  | _ => rfl

/-- literalKeepEscapes differs from quote removal exactly by keeping the backslashes of unquoted
    literals: it agrees when there are none. -/
theorem literalKeepEscapes_spec' (env : Env) (parts : List Part)
    (h : ∀ p ∈ parts, (∀ s, p = .lit s → s.contains 92 = false ∧ s.contains 0 = false) ∧
                      (∀ ps, p = .dbl ps → ps.all dpartOk = true)) :
    literalKeepEscapes env parts = posixLiteral env parts := by
  unfold literalKeepEscapes posixLiteral
  congr 1
  apply List.map_congr_left
  intro p hp
  obtain ⟨h1, h2⟩ := h p hp
  cases p with
  | lit s =>
    obtain ⟨a, b⟩ := h1 s rfl
    simp only [literalVal, posixLiteralVal, Bool.false_eq_true, if_false]
    rw [takeWhile_ne0 s b, unbackslash_no92 s a]
  | dbl ps =>
    rw [posixLiteralVal_dbl]
    simp only [literalVal]
    rw [dpartVals_ok env ps (h2 ps rfl)]
  | _ => rfl

/-! ## The Go state -/

theorem fieldJoin_append (a b : List FP) : fieldJoin (a ++ b) = fieldJoin a ++ fieldJoin b := by
  simp [fieldJoin, List.flatMap_append]

theorem fieldJoin_single (p : FP) : fieldJoin [p] = p.val := by simp [fieldJoin]

theorem fieldJoin_dvals (f : DPart → Bytes) (ps : List DPart) :
    fieldJoin (ps.map (fun d => (⟨f d, 1⟩ : FP))) = (ps.map f).flatten := by
  induction ps with
  | nil => rfl
  | cons d ps ih =>
    simp only [fieldJoin, List.map_cons, List.flatMap_cons, List.flatten_cons] at ih ⊢
    rw [ih]

theorem foldl_addPart (vs : List Bytes) (w : WS) :
    vs.foldl (fun w v => addPart w ⟨v, 1⟩) w =
      { w with cur := w.cur ++ vs.map (fun v => (⟨v, 1⟩ : FP)) } := by
  induction vs generalizing w with
  | nil => simp
  | cons v vs ih =>
    rw [List.foldl_cons, ih]
    simp [addPart]

/-- The parts that double quotes without `$@` add to the current field: one per inner part, and
    one empty part for `""`. -/
def dblParts (env : Env) : List DPart → List FP
  | [] => [⟨[], 1⟩]
  | d :: ps => (d :: ps).map (fun d => (⟨dpartVal env d, 1⟩ : FP))

theorem dblParts_ne_nil (env : Env) (ps : List DPart) : dblParts env ps ≠ [] := by
  cases ps <;> simp [dblParts]

theorem fieldJoin_dblParts (env : Env) (ps : List DPart) :
    fieldJoin (dblParts env ps) = (ps.map (dpartVal env)).flatten := by
  cases ps with
  | nil => simp [dblParts, fieldJoin]
  | cons d ps => exact fieldJoin_dvals (dpartVal env) (d :: ps)

theorem partStep_dbl_gen (env : Env) (w : WS) (first : Bool) (ps : List DPart)
    (h0 : ps ≠ []) (h1 : ps ≠ [.at]) (h2 : ps ≠ [.star]) :
    partStep env w first (.dbl ps) =
      { w with allowEmpty := true, cur := w.cur ++ ps.map (fun d => (⟨dpartVal env d, 1⟩ : FP)) } := by
  have : partStep env w first (.dbl ps) =
      (ps.map (dpartVal env)).foldl (fun w v => addPart w ⟨v, 1⟩) { w with allowEmpty := true } := by
    match ps, h0, h1, h2 with
    | [], h0, _, _ => exact absurd rfl h0
    | [.lit _], _, _, _ => rfl
    | [.exp _], _, _, _ => rfl
    | [.at], _, h1, _ => exact absurd rfl h1
    | [.star], _, _, h2 => exact absurd rfl h2
    | d :: e :: rest, _, _, _ => cases d <;> rfl
  rw [this, foldl_addPart, List.map_map]
  rfl

theorem partStep_dbl_star (env : Env) (w : WS) (first : Bool) :
    partStep env w first (.dbl [.star]) =
      { w with cur := w.cur ++ [(⟨dpartVal env .star, 1⟩ : FP)] } := rfl

theorem partStep_dbl_nil (env : Env) (w : WS) (first : Bool) :
    partStep env w first (.dbl []) =
      { w with allowEmpty := true, cur := w.cur ++ [(⟨[], 1⟩ : FP)] } := rfl

theorem partStep_dbl_noat (env : Env) (w : WS) (first : Bool) (ps : List DPart)
    (h : containsAt ps = false) :
    (partStep env w first (.dbl ps)).fields = w.fields ∧
    (partStep env w first (.dbl ps)).cur = w.cur ++ dblParts env ps := by
  by_cases hs : ps = [.star]
  · subst hs
    rw [partStep_dbl_star]
    simp [dblParts]
  · by_cases hn : ps = []
    · subst hn
      rw [partStep_dbl_nil]
      simp [dblParts]
    · have ha : ps ≠ [.at] := by
        intro ha; subst ha; simp [containsAt] at h
      rw [partStep_dbl_gen env w first ps hn ha hs]
      cases ps with
      | nil => exact absurd rfl hn
      | cons d ps => simp [dblParts]

/-! ## Words made of literals and quotes -/

theorem partStep_lit_nil (env : Env) (w : WS) (first : Bool) :
    partStep env w first (.lit []) = w := rfl

theorem partStep_lit_ne (env : Env) (w : WS) (first : Bool) (s : Bytes) (hs : s ≠ []) :
    partStep env w first (.lit s) = addPart w ⟨unbackslash s, 0⟩ := by
  cases s with
  | nil => exact absurd rfl hs
  | cons b s => rfl

theorem plain_step (env : Env) (w : WS) (first : Bool) (p : Part)
    (hp : plain p = true) (hok : partOk p = true) :
    (partStep env w first p).fields = w.fields ∧
    fieldJoin (partStep env w first p).cur = fieldJoin w.cur ++ posixLiteralVal env p ∧
    (p ≠ .lit [] → (partStep env w first p).cur ≠ []) ∧
    (w.cur ≠ [] → (partStep env w first p).cur ≠ []) := by
  cases p with
  | lit s =>
    by_cases hs : s = []
    · subst hs
      rw [partStep_lit_nil]
      simp [posixLiteralVal, unbackslash]
    · rw [partStep_lit_ne env w first s hs]
      simp [addPart, posixLiteralVal, fieldJoin_append, fieldJoin_single]
  | sgl s =>
    simp [partStep, addPart, fieldJoin_append, fieldJoin_single, posixLiteralVal]
  | dbl ps =>
    have hc : containsAt ps = false := by simpa [plain] using hp
    have hd : ps.all dpartOk = true := by
      simp only [partOk, Bool.and_eq_true] at hok
      exact hok.2
    obtain ⟨h1, h2⟩ := partStep_dbl_noat env w first ps hc
    have hne : (partStep env w first (.dbl ps)).cur ≠ [] := by
      rw [h2]
      have := dblParts_ne_nil env ps
      simp [this]
    refine ⟨h1, ?_, fun _ => hne, fun _ => hne⟩
    rw [h2, fieldJoin_append, fieldJoin_dblParts, dpartVals_ok env ps hd, posixLiteralVal_dbl]
  | exp v => simp [plain] at hp
  | «at» => simp [plain] at hp
  | star => simp [plain] at hp

theorem plain_loop (env : Env) : ∀ (parts : List Part) (w : WS) (first : Bool),
    parts.all plain = true → parts.all partOk = true →
    (partsLoop env w first parts).fields = w.fields ∧
    fieldJoin (partsLoop env w first parts).cur =
      fieldJoin w.cur ++ (parts.map (posixLiteralVal env)).flatten ∧
    (w.cur ≠ [] ∨ (∃ p ∈ parts, p ≠ Part.lit []) → (partsLoop env w first parts).cur ≠ [])
  | [], w, first, _, _ => by
    simp [partsLoop]
  | p :: ps, w, first, hp, hok => by
    simp only [List.all_cons, Bool.and_eq_true] at hp hok
    obtain ⟨s1, s2, s3, s4⟩ := plain_step env w first p hp.1 hok.1
    obtain ⟨l1, l2, l3⟩ := plain_loop env ps (partStep env w first p) false hp.2 hok.2
    rw [partsLoop]
    refine ⟨l1.trans s1, ?_, ?_⟩
    · rw [l2, s2, List.map_cons, List.flatten_cons, List.append_assoc]
    · intro h
      apply l3
      rcases h with h | ⟨q, hq, hne⟩
      · exact Or.inl (s4 h)
      · rcases List.mem_cons.mp hq with rfl | hq'
        · exact Or.inl (s3 hne)
        · exact Or.inr ⟨q, hq', hne⟩

theorem wordFields_finish (env : Env) (parts : List Part) (v : Bytes)
    (h1 : (partsLoop env WS.init true parts).fields = [])
    (h2 : fieldJoin (partsLoop env WS.init true parts).cur = v)
    (h3 : (partsLoop env WS.init true parts).cur ≠ []) :
    wordFields env parts = [v] := by
  unfold wordFields
  generalize partsLoop env WS.init true parts = wf at *
  obtain ⟨f, c, ae, wd⟩ := wf
  simp only at h1 h2 h3
  subst h1
  cases c with
  | nil => exact absurd rfl h3
  | cons x c => simp [flush, ← h2]

/-- words made only of literals, single quotes and double quotes without `$@` (no NUL in
    double-quoted literals), not all of them empty unquoted literals, give exactly one field, the
    concatenation of the quote-removed parts, whatever IFS is -/
theorem plain_one_field (env : Env) (parts : List Part)
    (hne : ∃ p ∈ parts, p ≠ Part.lit [])
    (hp : parts.all plain = true) (hok : parts.all partOk = true) :
    wordFields env parts = [(parts.map (posixLiteralVal env)).flatten] := by
  obtain ⟨l1, l2, l3⟩ := plain_loop env parts WS.init true hp hok
  apply wordFields_finish env parts _ l1 _ (l3 (Or.inr hne))
  rw [l2]
  rfl

/-! ## Specification side of double quotes without `$@` -/

theorem dqItems_noat (env : Env) : ∀ (ps : List DPart) (a : Bytes), containsAt ps = false →
    dqItems env ps (some a) = [.quoted (a ++ (ps.map (dspecVal env)).flatten)]
  | [], a, _ => by simp [dqItems]
  | d :: ps, a, h => by
    cases d with
    | «at» => simp [containsAt] at h
    | lit s =>
      have h' : containsAt ps = false := by simpa [containsAt] using h
      simp only [dqItems, Option.isNone_some, Bool.false_and, Bool.false_eq_true, if_false,
        Option.getD_some]
      rw [dqItems_noat env ps _ h']
      simp [dspecVal]
    | exp v =>
      have h' : containsAt ps = false := by simpa [containsAt] using h
      simp only [dqItems, Option.isNone_some, Bool.false_and, Bool.false_eq_true, if_false,
        Option.getD_some]
      rw [dqItems_noat env ps _ h']
      simp [dspecVal]
    | star =>
      have h' : containsAt ps = false := by simpa [containsAt] using h
      simp only [dqItems, Option.isNone_some, Bool.false_and, Bool.false_eq_true, if_false,
        Option.getD_some]
      rw [dqItems_noat env ps _ h']
      simp [dspecVal]

theorem partItems_dbl_noat (env : Env) (ps : List DPart) (h : containsAt ps = false) :
    partItems env (.dbl ps) = [.quoted (posixLiteralVal env (.dbl ps))] := by
  rw [posixLiteralVal_dbl]
  simp only [partItems, h, Bool.false_eq_true, if_false]
  rw [dqItems_noat env ps [] h]
  simp

/-! ## Simulation -/

/-- Go state and specification state between two parts: fields and current field. -/
def Rel0 (w : WS) (st : SS) : Prop :=
  st.out = w.fields.map fieldJoin ∧
  st.cur = (if w.cur.isEmpty then none else some (fieldJoin w.cur))

/-- ... and the "delimiter begun by IFS white space" flag, which the Go code only reads (and the
    relation only constrains) while the current field is empty.  With an empty IFS it is never read. -/
def Rel (ifs : Str) (w : WS) (st : SS) : Prop :=
  Rel0 w st ∧ (w.cur = [] → ifs ≠ [] → st.pend = w.wsDelim)

/-- ... and inside `splitLoop`, with the field being accumulated. -/
def RelA0 (w : WS) (acc : Option Bytes) (st : SS) : Prop :=
  st.out = w.fields.map fieldJoin ∧
  st.cur = (if w.cur.isEmpty && acc.isNone then none else some (fieldJoin w.cur ++ acc.getD []))

def RelA (ifs : Str) (w : WS) (acc : Option Bytes) (st : SS) : Prop :=
  RelA0 w acc st ∧ (w.cur = [] → acc = none → ifs ≠ [] → st.pend = w.wsDelim)

/-- Something has been produced. -/
def NE (w : WS) : Prop := w.fields ≠ [] ∨ w.cur ≠ []

/-- `allowEmpty` untouched, nothing lost. -/
def Le (w w' : WS) : Prop := w'.allowEmpty = w.allowEmpty ∧ (NE w → NE w')

/-- The `allowEmpty` fallback of `wordFields` cannot fire. -/
def Inv (w : WS) : Prop := w.allowEmpty = true → NE w

theorem Le.refl (w : WS) : Le w w := ⟨rfl, id⟩

theorem Le.trans {a b c : WS} (h1 : Le a b) (h2 : Le b c) : Le a c :=
  ⟨h2.1.trans h1.1, fun h => h2.2 (h1.2 h)⟩

theorem le_flush (w : WS) : Le w (flush w) := by
  obtain ⟨f, c, ae, wd⟩ := w
  cases c <;> simp [flush, Le, NE]

theorem le_addPart (w : WS) (p : FP) : Le w (addPart w p) := by
  simp [addPart, Le, NE]

theorem le_wsDelim (w : WS) (b : Bool) : Le w { w with wsDelim := b } := ⟨rfl, id⟩

theorem le_delimit (ifs : Str) (w : WS) (r : Char) : Le w (delimit ifs w r) := by
  unfold delimit
  split
  · exact Le.trans (le_flush w) (le_wsDelim _ _)
  · split
    · exact Le.refl w
    · split
      · exact le_wsDelim w false
      · simp [Le, NE]

theorem inv_le {w w' : WS} (hi : Inv w) (h : Le w w') : Inv w' := by
  intro ha
  rw [h.1] at ha
  exact h.2 (hi ha)

theorem inv_of_cur (w : WS) (h : w.cur ≠ []) : Inv w := fun _ => Or.inr h

/-- `splitAdd`'s "ending a field". -/
def endAcc (w : WS) : Option Bytes → WS
  | some b => addPart w ⟨b, 0⟩
  | none => w

theorem splitLoop_cons (ifs : Str) (w : WS) (acc : Option Bytes) (s : Sym) (rest : Str) :
    splitLoop ifs w acc (s :: rest) =
      if ifsRune ifs s.r then splitLoop ifs (delimit ifs (endAcc w acc) s.r) none rest
      else splitLoop ifs { w with wsDelim := false } (some (acc.getD [] ++ s.bs)) rest := rfl

theorem relA_none (ifs : Str) (w : WS) (st : SS) : RelA ifs w none st ↔ Rel ifs w st := by
  simp [RelA, Rel, RelA0, Rel0]

theorem rel_of_rel0 (ifs : Str) {w : WS} {st : SS} (h : Rel0 w st) (hc : w.cur ≠ []) :
    Rel ifs w st := ⟨h, fun h0 => absurd h0 hc⟩

/-- Appending parts to the current field. -/
theorem rel0_append {w : WS} {st : SS} (h : Rel0 w st) (w' : WS) (st' : SS) (l : List FP)
    (hl : l ≠ []) (hf : w'.fields = w.fields) (hc : w'.cur = w.cur ++ l)
    (ho : st'.out = st.out) (hcur : st'.cur = some (st.cur.getD [] ++ fieldJoin l)) :
    Rel0 w' st' := by
  obtain ⟨f, c, ae, wd⟩ := w
  obtain ⟨f', c', ae', wd'⟩ := w'
  obtain ⟨o, cu, pe⟩ := st
  obtain ⟨o', cu', pe'⟩ := st'
  obtain ⟨h1, h2⟩ := h
  simp only at hf hc ho hcur h1 h2
  subst hf hc ho hcur h1 h2
  cases c with
  | nil =>
    cases l with
    | nil => exact absurd rfl hl
    | cons x l => simp [Rel0]
  | cons y c =>
    have : fieldJoin (y :: (c ++ l)) = fieldJoin (y :: c) ++ fieldJoin l :=
      fieldJoin_append (y :: c) l
    simp [Rel0, this]

theorem rel_append (ifs : Str) {w : WS} {st : SS} (h : Rel0 w st) (w' : WS) (st' : SS) (l : List FP)
    (hl : l ≠ []) (hf : w'.fields = w.fields) (hc : w'.cur = w.cur ++ l)
    (ho : st'.out = st.out) (hcur : st'.cur = some (st.cur.getD [] ++ fieldJoin l)) :
    Rel ifs w' st' :=
  rel_of_rel0 ifs (rel0_append h w' st' l hl hf hc ho hcur) (by rw [hc]; simp [hl])

theorem rel_addPart (ifs : Str) {w : WS} {st : SS} (h : Rel0 w st) (st' : SS) (b : Bytes) (q : Nat)
    (ho : st'.out = st.out) (hcur : st'.cur = some (st.cur.getD [] ++ b)) :
    Rel ifs (addPart w ⟨b, q⟩) st' :=
  rel_append ifs h _ st' [⟨b, q⟩] (by simp) rfl rfl ho (by rw [hcur, fieldJoin_single])

/-- Ending the current field. -/
theorem rel0_flush {w : WS} {st : SS} (h : Rel0 w st) (st' : SS)
    (ho : st'.out = st.out ++ st.cur.toList) (hcur : st'.cur = none) :
    Rel0 (flush w) st' := by
  obtain ⟨f, c, ae, wd⟩ := w
  obtain ⟨o, cu, pe⟩ := st
  obtain ⟨o', cu', pe'⟩ := st'
  obtain ⟨h1, h2⟩ := h
  simp only at ho hcur h1 h2
  subst ho hcur h1 h2
  cases c with
  | nil => simp [Rel0, flush]
  | cons y c => simp [Rel0, flush]

theorem relA_end (ifs : Str) {w : WS} {acc : Option Bytes} {st : SS} (h : RelA ifs w acc st) :
    Rel ifs (endAcc w acc) st := by
  cases acc with
  | none => exact (relA_none ifs w st).mp h
  | some b =>
    apply rel_of_rel0
    · obtain ⟨f, c, ae, wd⟩ := w
      obtain ⟨o, cu, pe⟩ := st
      obtain ⟨⟨h1, h2⟩, _⟩ := h
      simp only at h1 h2
      subst h1 h2
      simp [Rel0, endAcc, addPart, fieldJoin_append, fieldJoin_single]
    · simp [endAcc, addPart]

theorem relA_push (ifs : Str) {w : WS} {acc : Option Bytes} {st : SS} (h : RelA ifs w acc st)
    (st' : SS) (x : Bytes) (ho : st'.out = st.out) (hcur : st'.cur = some (st.cur.getD [] ++ x)) :
    RelA ifs { w with wsDelim := false } (some (acc.getD [] ++ x)) st' := by
  refine ⟨?_, fun _ h0 => by simp at h0⟩
  obtain ⟨f, c, ae, wd⟩ := w
  obtain ⟨o, cu, pe⟩ := st
  obtain ⟨o', cu', pe'⟩ := st'
  obtain ⟨⟨h1, h2⟩, _⟩ := h
  simp only at ho hcur h1 h2
  subst ho hcur h1 h2
  cases c <;> cases acc <;> simp [RelA0, fieldJoin]

/-! ### Steps of the specification -/

theorem step_brk (ifs : Str) (st : SS) :
    (splitStep ifs st .brk).out = st.out ++ st.cur.toList ∧ (splitStep ifs st .brk).cur = none := by
  obtain ⟨o, c, p⟩ := st
  cases c <;> simp [splitStep]

theorem step_quoted (ifs : Str) (st : SS) (b : Bytes) :
    (splitStep ifs st (.quoted b)).out = st.out ∧
    (splitStep ifs st (.quoted b)).cur = some (st.cur.getD [] ++ b) := by
  simp [splitStep]

theorem step_u_non (ifs : Str) (st : SS) (s : Sym) (hi : ifsRune ifs s.r = false) :
    (splitStep ifs st (.u s)).out = st.out ∧
    (splitStep ifs st (.u s)).cur = some (st.cur.getD [] ++ s.bs) := by
  simp [splitStep, hi]

/-- `delimit` at an IFS character is the specification's step for that character. -/
theorem rel_delimit (ifs : Str) {w : WS} {st : SS} (h : Rel ifs w st) (s : Sym)
    (hi : ifsRune ifs s.r = true) :
    Rel ifs (delimit ifs w s.r) (splitStep ifs st (.u s)) := by
  have hne : ifs ≠ [] := by
    intro h0; subst h0; simp [ifsRune] at hi
  obtain ⟨f, c, ae, wd⟩ := w
  obtain ⟨o, cu, pe⟩ := st
  obtain ⟨⟨h1, h2⟩, h3⟩ := h
  simp only at h1 h2 h3
  subst h1 h2
  cases c with
  | nil =>
    have hp := h3 rfl hne
    subst hp
    cases hw : wsRune s.r <;> cases pe <;>
      simp [delimit, splitStep, ifsWs, hi, hw, Rel, Rel0, fieldJoin]
  | cons y c =>
    cases hw : wsRune s.r <;>
      simp [delimit, flush, splitStep, ifsWs, hi, hw, Rel, Rel0]

/-! ### `splitAdd` -/

theorem splitLoop_sim (ifs : Str) : ∀ (val : Str) (w : WS) (acc : Option Bytes) (st : SS),
    RelA ifs w acc st →
    RelA ifs (splitLoop ifs w acc val).1 (splitLoop ifs w acc val).2
      ((val.map .u).foldl (splitStep ifs) st)
  | [], w, acc, st, h => by simpa [splitLoop] using h
  | s :: rest, w, acc, st, h => by
    rw [List.map_cons, List.foldl_cons, splitLoop_cons]
    by_cases hi : ifsRune ifs s.r = true
    · simp only [hi, if_true]
      exact splitLoop_sim ifs rest _ none _
        ((relA_none _ _ _).mpr (rel_delimit ifs (relA_end ifs h) s hi))
    · simp only [hi, Bool.false_eq_true, if_false]
      obtain ⟨s1, s2⟩ := step_u_non ifs st s (by simpa using hi)
      exact splitLoop_sim ifs rest _ _ _ (relA_push ifs h _ _ s1 s2)

theorem le_splitLoop (ifs : Str) : ∀ (val : Str) (w : WS) (acc : Option Bytes),
    Le w (splitLoop ifs w acc val).1
  | [], w, acc => by simpa [splitLoop] using Le.refl w
  | s :: rest, w, acc => by
    rw [splitLoop_cons]
    by_cases hi : ifsRune ifs s.r = true
    · simp only [hi, if_true]
      refine Le.trans ?_ (le_splitLoop ifs rest _ none)
      refine Le.trans ?_ (le_delimit ifs _ _)
      cases acc with
      | none => exact Le.refl w
      | some b => exact le_addPart w _
    · simp only [hi, Bool.false_eq_true, if_false]
      exact Le.trans (le_wsDelim w false) (le_splitLoop ifs rest _ _)

theorem splitAdd_eq (ifs : Str) (w : WS) (val : Str) :
    splitAdd ifs w val =
      endAcc (splitLoop ifs w none val).1 (splitLoop ifs w none val).2 := by
  unfold splitAdd
  cases h : splitLoop ifs w none val with
  | mk w1 a => cases a <;> rfl

theorem splitAdd_sim (ifs : Str) (val : Str) (w : WS) (st : SS) (h : Rel ifs w st) :
    Rel ifs (splitAdd ifs w val) ((val.map .u).foldl (splitStep ifs) st) := by
  rw [splitAdd_eq]
  exact relA_end ifs (splitLoop_sim ifs val w none st ((relA_none _ _ _).mpr h))

theorem le_splitAdd (ifs : Str) (val : Str) (w : WS) : Le w (splitAdd ifs w val) := by
  rw [splitAdd_eq]
  have := le_splitLoop ifs val w none
  cases (splitLoop ifs w none val).2 with
  | none => exact this
  | some b => exact Le.trans this (le_addPart _ _)

/-! ### Unquoted `$@` / `$*` -/

/-- What separates two positional parameters: the first IFS character, or a break. -/
def sepItem (ifs : Str) : Item :=
  match ifs with
  | [] => .brk
  | sep :: _ => .u sep

def sepStep (ifs : Str) (w : WS) : WS :=
  match ifs with
  | [] => flush w
  | sep :: _ => delimit ifs w sep.r

def uRest (ifs : Str) (l : List Str) : List Item := l.flatMap (fun p => sepItem ifs :: p.map .u)

theorem unquotedElems_cons (ifs : Str) : ∀ (rest : List Str) (p : Str),
    unquotedElems ifs (p :: rest) = p.map .u ++ uRest ifs rest
  | [], p => by simp [unquotedElems, uRest]
  | q :: rest, p => by
    have ih := unquotedElems_cons ifs rest q
    cases ifs <;>
      (rw [unquotedElems, ih]; simp [uRest, sepItem])

theorem addUnq_false_cons (ifs : Str) (w : WS) (e : Str) (rest : List Str) :
    addUnquotedElems ifs w false (e :: rest) =
      addUnquotedElems ifs (splitAdd ifs (sepStep ifs w) e) false rest := by
  cases ifs <;> rfl

theorem addUnq_true_cons (ifs : Str) (w : WS) (e : Str) (rest : List Str) :
    addUnquotedElems ifs w true (e :: rest) =
      addUnquotedElems ifs (splitAdd ifs w e) false rest := rfl

theorem rel_sep (ifs : Str) {w : WS} {st : SS} (h : Rel ifs w st) :
    Rel ifs (sepStep ifs w) (splitStep ifs st (sepItem ifs)) := by
  cases ifs with
  | nil =>
    obtain ⟨b1, b2⟩ := step_brk [] st
    exact ⟨rel0_flush h.1 _ b1 b2, fun _ h0 => absurd rfl h0⟩
  | cons sep t =>
    exact rel_delimit (sep :: t) h sep (by simp [ifsRune])

theorem le_sep (ifs : Str) (w : WS) : Le w (sepStep ifs w) := by
  cases ifs with
  | nil => exact le_flush w
  | cons sep t => exact le_delimit _ w _

theorem unq_false_sim (ifs : Str) : ∀ (rest : List Str) (w : WS) (st : SS),
    Rel ifs w st →
    Rel ifs (addUnquotedElems ifs w false rest) ((uRest ifs rest).foldl (splitStep ifs) st)
  | [], w, st, h => by simpa [addUnquotedElems, uRest] using h
  | p :: rest, w, st, h => by
    have e : uRest ifs (p :: rest) = sepItem ifs :: (p.map .u ++ uRest ifs rest) := by simp [uRest]
    rw [e, List.foldl_cons, List.foldl_append, addUnq_false_cons]
    exact unq_false_sim ifs rest _ _ (splitAdd_sim ifs p _ _ (rel_sep ifs h))

theorem unq_sim (ifs : Str) (params : List Str) (w : WS) (st : SS) (h : Rel ifs w st) :
    Rel ifs (addUnquotedElems ifs w true params)
      ((unquotedElems ifs params).foldl (splitStep ifs) st) := by
  cases params with
  | nil => simpa [addUnquotedElems, unquotedElems] using h
  | cons p rest =>
    rw [unquotedElems_cons, List.foldl_append, addUnq_true_cons]
    exact unq_false_sim ifs rest _ _ (splitAdd_sim ifs p _ _ h)

theorem le_addUnq (ifs : Str) : ∀ (params : List Str) (w : WS) (first : Bool),
    Le w (addUnquotedElems ifs w first params)
  | [], w, first => by simpa [addUnquotedElems] using Le.refl w
  | p :: rest, w, first => by
    cases first
    · rw [addUnq_false_cons]
      exact Le.trans (Le.trans (le_sep ifs w) (le_splitAdd ifs p _)) (le_addUnq ifs rest _ false)
    · rw [addUnq_true_cons]
      exact Le.trans (le_splitAdd ifs p _) (le_addUnq ifs rest _ false)

/-! ### `"$@"` -/

def qRest (l : List Bytes) : List Item := l.flatMap (fun q => [.brk, .quoted q])

theorem atFull_cons (env : Env) : ∀ (rest : List Bytes) (p : Bytes),
    (atItems none (p :: rest)).1 ++ dqItems env [] (atItems none (p :: rest)).2 =
      .quoted p :: qRest rest
  | [], p => by simp [atItems, dqItems, qRest]
  | q :: rest, p => by
    have ih := atFull_cons env rest q
    rw [atItems]
    simp only [Option.getD_none, List.nil_append, List.cons_append]
    rw [ih]
    simp [qRest]

theorem partItems_dblat (env : Env) :
    partItems env (.dbl [.at]) =
      (atItems none (env.params.map strBytes)).1 ++
        dqItems env [] (atItems none (env.params.map strBytes)).2 := by
  simp [partItems, containsAt, dqItems]

/-- every `flush` between two elements is followed by an `addPart`: one step -/
theorem q_false_sim (ifs : Str) : ∀ (rest : List Bytes) (w : WS) (st : SS),
    Rel ifs w st → Rel ifs (addQuotedElems w false rest) ((qRest rest).foldl (splitStep ifs) st)
  | [], w, st, h => by simpa [addQuotedElems, qRest] using h
  | q :: rest, w, st, h => by
    have e : qRest (q :: rest) = .brk :: .quoted q :: qRest rest := by simp [qRest]
    rw [e, List.foldl_cons, List.foldl_cons, addQuotedElems]
    obtain ⟨b1, b2⟩ := step_brk ifs st
    have h1 : Rel0 (flush w) (splitStep ifs st .brk) := rel0_flush h.1 _ b1 b2
    obtain ⟨c1, c2⟩ := step_quoted ifs (splitStep ifs st .brk) q
    simp only [Bool.false_eq_true, if_false]
    exact q_false_sim ifs rest _ _ (rel_addPart ifs h1 _ q 1 c1 c2)

theorem dblat_sim (env : Env) (w : WS) (st : SS) (h : Rel env.ifs w st) :
    Rel env.ifs (addQuotedElems w true (env.params.map strBytes))
      ((partItems env (.dbl [.at])).foldl (splitStep env.ifs) st) := by
  rw [partItems_dblat]
  cases env.params.map strBytes with
  | nil => simpa [addQuotedElems, atItems, dqItems] using h
  | cons p rest =>
    rw [atFull_cons, List.foldl_cons, addQuotedElems]
    obtain ⟨c1, c2⟩ := step_quoted env.ifs st p
    simp only [if_true]
    exact q_false_sim env.ifs rest _ _ (rel_addPart env.ifs h.1 _ p 1 c1 c2)

theorem le_addQ : ∀ (es : List Bytes) (w : WS) (first : Bool), Le w (addQuotedElems w first es)
  | [], w, first => by simpa [addQuotedElems] using Le.refl w
  | e :: rest, w, first => by
    rw [addQuotedElems]
    refine Le.trans ?_ (le_addQ rest _ false)
    refine Le.trans ?_ (le_addPart _ _)
    cases first
    · exact le_flush w
    · exact Le.refl w

/-! ### One part -/

theorem part_sim (env : Env) (w : WS) (st : SS) (first : Bool) (p : Part)
    (hr : Rel env.ifs w st) (hi : Inv w) (hok : partOk p = true) :
    Rel env.ifs (partStep env w first p) ((partItems env p).foldl (splitStep env.ifs) st) ∧
    Inv (partStep env w first p) := by
  cases p with
  | lit s =>
    by_cases hs : s = []
    · subst hs
      have hst : (partItems env (.lit [])).foldl (splitStep env.ifs) st = st := by
        simp [partItems, unbackslash, splitStep]
      rw [hst, partStep_lit_nil]
      exact ⟨hr, hi⟩
    · have hu := unbackslash_ne_nil s hs
      have hst : (partItems env (.lit s)).foldl (splitStep env.ifs) st =
          { st with cur := some (st.cur.getD [] ++ unbackslash s), pend := false } := by
        simp [partItems, splitStep, hu]
      rw [hst, partStep_lit_ne env w first s hs]
      exact ⟨rel_addPart env.ifs hr.1 _ _ 0 rfl rfl, inv_of_cur _ (by simp [addPart])⟩
  | sgl s =>
    exact ⟨rel_append env.ifs hr.1 _ _ [⟨s, 3⟩] (by simp) rfl rfl rfl
        (by simp [fieldJoin, partItems, splitStep]), inv_of_cur _ (by simp [partStep, addPart])⟩
  | dbl ps =>
    simp only [partOk, Bool.and_eq_true, Bool.or_eq_true, Bool.not_eq_true', beq_iff_eq] at hok
    obtain ⟨hat, hdp⟩ := hok
    by_cases ha : ps = [.at]
    · subst ha
      exact ⟨dblat_sim env w st hr, inv_le hi (le_addQ _ w true)⟩
    · have hc : containsAt ps = false := by
        cases hat with
        | inl h => exact h
        | inr h => exact absurd h ha
      obtain ⟨h1, h2⟩ := partStep_dbl_noat env w first ps hc
      have hl := dblParts_ne_nil env ps
      refine ⟨rel_append env.ifs hr.1 _ _ _ hl h1 h2 ?_ ?_, inv_of_cur _ ?_⟩
      · rw [partItems_dbl_noat env ps hc]; simp [splitStep]
      · rw [partItems_dbl_noat env ps hc, fieldJoin_dblParts, dpartVals_ok env ps hdp,
          posixLiteralVal_dbl]
        simp [splitStep]
      · rw [h2]
        simp [hl]
  | exp v =>
    exact ⟨splitAdd_sim env.ifs v w st hr, inv_le hi (le_splitAdd env.ifs v w)⟩
  | «at» =>
    exact ⟨unq_sim env.ifs env.params w st hr, inv_le hi (le_addUnq env.ifs _ w true)⟩
  | star =>
    exact ⟨unq_sim env.ifs env.params w st hr, inv_le hi (le_addUnq env.ifs _ w true)⟩

/-! ### The whole word -/

theorem parts_sim (env : Env) : ∀ (parts : List Part) (w : WS) (st : SS) (first : Bool),
    Rel env.ifs w st → Inv w → (∀ p ∈ parts, partOk p = true) →
    Rel env.ifs (partsLoop env w first parts)
      ((parts.flatMap (partItems env)).foldl (splitStep env.ifs) st) ∧
    Inv (partsLoop env w first parts)
  | [], w, st, first, hr, hi, _ => by
    simpa [partsLoop] using ⟨hr, hi⟩
  | p :: ps, w, st, first, hr, hi, hall => by
    rw [List.flatMap_cons, List.foldl_append, partsLoop]
    obtain ⟨r1, i1⟩ := part_sim env w st first p hr hi (hall p (by simp))
    exact parts_sim env ps _ _ false r1 i1 (fun q hq => hall q (by simp [hq]))

theorem wordFields_of_rel (env : Env) (parts : List Part) (st : SS)
    (hr : Rel0 (partsLoop env WS.init true parts) st) (hi : Inv (partsLoop env WS.init true parts)) :
    wordFields env parts = (match st.cur with | some b => st.out ++ [b] | none => st.out) := by
  unfold wordFields
  generalize partsLoop env WS.init true parts = wf at *
  obtain ⟨f, c, ae, wd⟩ := wf
  obtain ⟨o, cu, pe⟩ := st
  obtain ⟨h1, h2⟩ := hr
  simp only at h1 h2
  subst h1 h2
  cases c with
  | nil =>
    cases ae with
    | false => simp [flush]
    | true =>
      have := hi rfl
      simp only [NE, ne_eq, not_true_eq_false, or_false] at this
      simp [flush, this]
  | cons x c => simp [flush]

/-- full theorem now: the only hypothesis is partOk (`$@` alone in its double quotes; no NUL in
    double-quoted literal text) -/
theorem split_spec' (env : Env) (parts : List Part) (hok : parts.all partOk = true) :
    wordFields env parts = posixFields env parts := by
  have hall : ∀ p ∈ parts, partOk p = true := fun p hp => List.all_eq_true.mp hok p hp
  have hr0 : Rel env.ifs WS.init SS.init := by simp [Rel, Rel0, WS.init, SS.init]
  have hi0 : Inv WS.init := by simp [Inv, WS.init]
  obtain ⟨r, i⟩ := parts_sim env parts WS.init SS.init true hr0 hi0 hall
  rw [wordFields_of_rel env parts _ r.1 i]
  rfl

end ShVerif.C22
