/-
  L4: what the model lexer + parser builds is well-formed and carries non-decreasing line numbers
  (`parse_WF`), for every input.

  Part 1: the lexer.  Every token position and every word-part position comes from `Pos.adv`
  along the input, so the flattened sequence of lines of the token stream is sorted; every word
  token is a well-formed word (or one of the reserved words `{ } !`).
  Part 2: the parser only copies those positions into the tree, in order; and the constructors it
  uses give the shapes `wf` asks for.
-/
import ShVerif.Proofs.L4Parse
namespace ShVerif.L4

/-! ## Sorted lists of lines -/

abbrev Sorted (l : List Nat) : Prop := l.Pairwise (· ≤ ·)

theorem Sorted.snoc {X : List Nat} {a b : Nat} (h : Sorted (X ++ [a])) (hab : a ≤ b) : Sorted (X ++ [a] ++ [b]) := by
  unfold Sorted at h ⊢
  rw [List.pairwise_append] at h ⊢
  refine ⟨List.pairwise_append.mpr h, by simp, ?_⟩
  intro x hx y hy
  simp only [List.mem_singleton] at hy
  subst hy
  rcases List.mem_append.mp hx with hx | hx
  · exact Nat.le_trans (h.2.2 x hx a (by simp)) hab
  · simp only [List.mem_singleton] at hx
    subst hx; exact hab

theorem Sorted.last_mono {X : List Nat} {a b : Nat} (h : Sorted (X ++ [a])) (hab : a ≤ b) : Sorted (X ++ [b]) := by
  unfold Sorted at h ⊢
  rw [List.pairwise_append] at h ⊢
  refine ⟨h.1, by simp, ?_⟩
  intro x hx y hy
  simp only [List.mem_singleton] at hy
  subst hy
  exact Nat.le_trans (h.2.2 x hx a (by simp)) hab

theorem Sorted.dup {X : List Nat} {a : Nat} (h : Sorted (X ++ [a])) : Sorted (X ++ [a] ++ [a]) :=
  h.snoc (Nat.le_refl a)

theorem Sorted.sub {l l' : List Nat} (h : Sorted l) (hs : l'.Sublist l) : Sorted l' := List.Pairwise.sublist hs h

/-! ## Lines of tokens -/

def wlines (parts : List WordPart) : List Nat := parts.flatMap partLines

def Tok.lines : Tok → List Nat
  | .word w _ => wlines w.parts
  | _ => []

def tokLines : List TokPos → List Nat
  | [] => []
  | tp :: rest => tp.2.line :: (tp.1.lines ++ tokLines rest)

def WordPart.isLit : WordPart → Bool
  | .lit _ _ _ => true
  | .sgl _ _ _ => false

/-- some part is a quoted string -/
def hasSgl (l : List WordPart) : Bool := l.any (fun p => !p.isLit)

/-- a word token as the lexer makes it: a well-formed word whose `lit` is its single literal, in
    which two literals are never adjacent — or one of the reserved words `{`, `}`, `!` -/
def Tok.ok : Tok → Prop
  | .word w lit =>
    (w.wf = true ∧ (w.parts.length ≥ 2 → hasSgl w.parts = true) ∧ lit = litWord? w.parts) ∨
    (∃ b : UInt8, (b = 123 ∨ b = 125 ∨ b = 33) ∧ lit = some [b])
  | _ => True

/-! ## `lexWord` -/

def modeStart : LexMode → List Nat
  | .idle => []
  | .lit st _ => [st.line]
  | .sgl l _ => [l.line]

/-- the invariant of `lexWord` on its mode and the parts read so far (`acc`, reversed) -/
structure ModeOK (mode : LexMode) (acc : List WordPart) : Prop where
  accwf : ∀ p ∈ acc, p.wf = true
  modewf : match mode with
    | .idle => True
    | .lit _ a => a ≠ [] ∧ ∀ b ∈ a, isSafe b = true
    | .sgl _ a => ∀ b ∈ a, isSglSafe b = true
  two : acc.length ≥ 2 → hasSgl acc = true
  open_ : (match mode with | .sgl _ _ => True | _ => acc = [] ∨ hasSgl acc = true)

theorem wlines_append (a b : List WordPart) : wlines (a ++ b) = wlines a ++ wlines b := by
  simp [wlines, List.flatMap_append]

theorem wlines_rev_cons (p : WordPart) (acc : List WordPart) :
    wlines (p :: acc).reverse = wlines acc.reverse ++ partLines p := by
  simp [wlines, List.flatMap_append]

theorem hasSgl_reverse (l : List WordPart) : hasSgl l.reverse = hasSgl l := by
  simp [hasSgl]

theorem lit_wf (st e : Pos) (a : Bytes) (hne : a ≠ []) (hs : ∀ b ∈ a, isSafe b = true) :
    (WordPart.lit st e a.reverse).wf = true := by
  simp only [WordPart.wf, Bool.and_eq_true, Bool.not_eq_true', List.isEmpty_eq_false_iff, List.all_eq_true]
  exact ⟨by simpa using hne, fun b hb => hs b (by simpa using hb)⟩

theorem sgl_wf (l r : Pos) (a : Bytes) (hs : ∀ b ∈ a, isSglSafe b = true) : (WordPart.sgl l r a.reverse).wf = true := by
  simp only [WordPart.wf, List.all_eq_true]
  exact fun b hb => hs b (by simpa using hb)

/-- closing the literal being read -/
theorem ModeOK.closeLit {st : Pos} {a : Bytes} {acc : List WordPart} (h : ModeOK (.lit st a) acc) (e : Pos) :
    (∀ p ∈ WordPart.lit st e a.reverse :: acc, p.wf = true) ∧
    ((WordPart.lit st e a.reverse :: acc).length ≥ 2 → hasSgl (WordPart.lit st e a.reverse :: acc) = true) := by
  have hm := h.modewf
  simp only at hm
  refine ⟨?_, ?_⟩
  · intro p hp
    rcases List.mem_cons.mp hp with rfl | hp
    · exact lit_wf st e a hm.1 hm.2
    · exact h.accwf p hp
  · intro hl
    have ho := h.open_
    simp only at ho
    rcases ho with ho | ho
    · subst ho; simp at hl
    · simp only [hasSgl, List.any_cons, Bool.or_eq_true] at ho ⊢
      exact Or.inr ho

theorem lexWord_ok : ∀ (src : Bytes) (pos : Pos) (mode : LexMode) (acc res : List WordPart) (stop : Pos) (r : Bytes)
    (pre : List Nat), lexWord src pos mode acc = .done res stop r → ModeOK mode acc →
    Sorted (pre ++ wlines acc.reverse ++ modeStart mode ++ [pos.line]) →
    Sorted (pre ++ wlines res ++ [stop.line]) ∧ (∀ p ∈ res, p.wf = true) ∧
      (res.length ≥ 2 → hasSgl res = true) ∧
      ((acc ≠ [] ∨ (match mode with | .idle => False | _ => True)) → res ≠ []) := by
  intro src
  induction src with
  | nil =>
    intro pos mode acc res stop r pre h hm hs
    cases mode with
    | idle =>
      rw [lexWord] at h
      cases h
      refine ⟨by simpa [modeStart] using hs, fun p hp => hm.accwf p (List.mem_reverse.mp hp),
        fun hl => by rw [hasSgl_reverse]; exact hm.two (by simpa using hl), fun hne => ?_⟩
      rcases hne with hne | hne
      · simpa using hne
      · exact absurd hne (by simp)
    | lit st a =>
      rw [lexWord] at h
      cases h
      obtain ⟨c1, c2⟩ := hm.closeLit pos
      refine ⟨?_, fun p hp => c1 p (List.mem_reverse.mp hp), fun hl => by rw [hasSgl_reverse]; exact c2 (by simpa using hl),
        fun _ => by simp⟩
      rw [wlines_rev_cons]
      simp only [modeStart, partLines] at hs ⊢
      have := hs.dup
      simpa [List.append_assoc] using this
    | sgl l a =>
      rw [lexWord] at h
      cases h
  | cons b rest ih =>
    intro pos mode acc res stop r pre h hm hs
    have hadv : pos.line ≤ (pos.adv b).line := Pos.adv_line pos b
    cases mode with
    | idle =>
      rw [lexWord] at h
      split at h
      · rename_i hb
        -- a literal starts
        have hm' : ModeOK (.lit pos [b]) acc :=
          ⟨hm.accwf, ⟨by simp, fun x hx => by simp only [List.mem_singleton] at hx; subst hx; exact hb⟩, hm.two, hm.open_⟩
        obtain ⟨r1, r2, r3, r4⟩ := ih _ _ _ _ _ _ pre h hm' (by
          simp only [modeStart, List.append_nil] at hs ⊢
          have := hs.snoc hadv
          simpa [List.append_assoc] using this)
        exact ⟨r1, r2, r3, fun _ => r4 (Or.inr trivial)⟩
      · split at h
        · -- a quoted string starts
          have hm' : ModeOK (.sgl pos []) acc := ⟨hm.accwf, by simp, hm.two, trivial⟩
          obtain ⟨r1, r2, r3, r4⟩ := ih _ _ _ _ _ _ pre h hm' (by
            simp only [modeStart, List.append_nil] at hs ⊢
            have := hs.snoc hadv
            simpa [List.append_assoc] using this)
          exact ⟨r1, r2, r3, fun _ => r4 (Or.inr trivial)⟩
        · split at h
          · cases h
            refine ⟨by simpa [modeStart] using hs, fun p hp => hm.accwf p (List.mem_reverse.mp hp),
              fun hl => by rw [hasSgl_reverse]; exact hm.two (by simpa using hl), fun hne => ?_⟩
            rcases hne with hne | hne
            · simpa using hne
            · exact absurd hne (by simp)
          · cases h
    | lit st a =>
      rw [lexWord] at h
      have hmw := hm.modewf
      simp only at hmw
      split at h
      · rename_i hb
        have hm' : ModeOK (.lit st (b :: a)) acc :=
          ⟨hm.accwf, ⟨by simp, fun x hx => by
            rcases List.mem_cons.mp hx with rfl | hx
            · exact hb
            · exact hmw.2 x hx⟩, hm.two, hm.open_⟩
        obtain ⟨r1, r2, r3, r4⟩ := ih _ _ _ _ _ _ pre h hm' (by
          simp only [modeStart] at hs ⊢
          exact hs.last_mono hadv)
        exact ⟨r1, r2, r3, fun _ => r4 (Or.inr trivial)⟩
      · split at h
        · -- the literal ends, a quoted string starts
          obtain ⟨c1, c2⟩ := hm.closeLit pos
          have hm' : ModeOK (.sgl pos []) (.lit st pos a.reverse :: acc) := ⟨c1, by simp, c2, trivial⟩
          obtain ⟨r1, r2, r3, r4⟩ := ih _ _ _ _ _ _ pre h hm' (by
            rw [wlines_rev_cons]
            simp only [modeStart, partLines] at hs ⊢
            have := (hs.dup).snoc hadv
            simpa [List.append_assoc] using this)
          exact ⟨r1, r2, r3, fun _ => r4 (Or.inl (by simp))⟩
        · split at h
          · cases h
            obtain ⟨c1, c2⟩ := hm.closeLit pos
            refine ⟨?_, fun p hp => c1 p (List.mem_reverse.mp hp),
              fun hl => by rw [hasSgl_reverse]; exact c2 (by simpa using hl), fun _ => by simp⟩
            rw [wlines_rev_cons]
            simp only [modeStart, partLines] at hs ⊢
            have := hs.dup
            simpa [List.append_assoc] using this
          · cases h
    | sgl l a =>
      rw [lexWord] at h
      have hmw := hm.modewf
      simp only at hmw
      split at h
      · -- the closing quote
        have hm' : ModeOK .idle (.sgl l pos a.reverse :: acc) := by
          refine ⟨?_, trivial, fun _ => by simp [hasSgl, WordPart.isLit], Or.inr (by simp [hasSgl, WordPart.isLit])⟩
          intro p hp
          rcases List.mem_cons.mp hp with rfl | hp
          · exact sgl_wf l pos a hmw
          · exact hm.accwf p hp
        obtain ⟨r1, r2, r3, r4⟩ := ih _ _ _ _ _ _ pre h hm' (by
          rw [wlines_rev_cons]
          simp only [modeStart, partLines, List.append_nil] at hs ⊢
          have := hs.snoc hadv
          simpa [List.append_assoc] using this)
        exact ⟨r1, r2, r3, fun _ => r4 (Or.inl (by simp))⟩
      · split at h
        · rename_i hb
          have hm' : ModeOK (.sgl l (b :: a)) acc :=
            ⟨hm.accwf, fun x hx => by
              rcases List.mem_cons.mp hx with rfl | hx
              · exact hb
              · exact hmw x hx, hm.two, trivial⟩
          obtain ⟨r1, r2, r3, r4⟩ := ih _ _ _ _ _ _ pre h hm' (by
            simp only [modeStart] at hs ⊢
            exact hs.last_mono hadv)
          exact ⟨r1, r2, r3, fun _ => r4 (Or.inr trivial)⟩
        · cases h

/-- a word read from its first byte -/
theorem lexWord_start_ok (b : UInt8) (rest : Bytes) (p : Pos) (parts : List WordPart) (stop : Pos) (r : Bytes)
    (pre : List Nat) (hb : (isSafe b || b == 39) = true) (hl : lexWord (b :: rest) p .idle [] = .done parts stop r)
    (hp : Sorted (pre ++ [p.line])) :
    Sorted (pre ++ [p.line] ++ wlines parts ++ [stop.line]) ∧ (Word.mk parts).wf = true ∧
      (parts.length ≥ 2 → hasSgl parts = true) := by
  have hadv : p.line ≤ (p.adv b).line := Pos.adv_line p b
  have hstart : Sorted ((pre ++ [p.line]) ++ wlines ([] : List WordPart).reverse ++ [p.line] ++ [(p.adv b).line]) := by
    have := hp.dup.snoc hadv
    simpa [wlines, List.append_assoc] using this
  have key : ∃ mode, lexWord rest (p.adv b) mode [] = .done parts stop r ∧ ModeOK mode [] ∧ modeStart mode = [p.line] ∧
      (match mode with | .idle => False | _ => True) := by
    cases hs : isSafe b with
    | true =>
      rw [lexWord_idle_safe b rest p [] hs] at hl
      exact ⟨.lit p [b], hl, ⟨by simp, ⟨by simp, fun x hx => by simp only [List.mem_singleton] at hx; subst hx; exact hs⟩,
        by simp, Or.inl rfl⟩, rfl, trivial⟩
    | false =>
      have hq : b = 39 := by simpa [hs] using hb
      subst hq
      rw [lexWord_idle_quote rest p []] at hl
      exact ⟨.sgl p [], hl, ⟨by simp, by simp, by simp, trivial⟩, rfl, trivial⟩
  obtain ⟨mode, h1, h2, h3, h4⟩ := key
  obtain ⟨r1, r2, r3, r4⟩ := lexWord_ok rest (p.adv b) mode [] parts stop r (pre ++ [p.line]) h1 h2 (by rw [h3]; exact hstart)
  refine ⟨r1, ?_, r3⟩
  have hne := r4 (Or.inr h4)
  simp only [Word.wf, Bool.and_eq_true, Bool.not_eq_true', List.isEmpty_eq_false_iff, List.all_eq_true]
  exact ⟨hne, r2⟩

theorem nextTok_ok (sk : Bool) (src : Bytes) (spos : Pos) (pre : List Nat) (hs : Sorted (pre ++ [spos.line])) :
    Sorted (pre ++ [(nextTok sk src spos).pos.line] ++ (nextTok sk src spos).tok.lines ++
      [(nextTok sk src spos).rpos.line]) ∧ (nextTok sk src spos).tok.ok := by
  have hsl := skipSpace_line sk src.length src spos (Nat.le_refl _)
  unfold nextTok
  cases hsk : skipSpace sk src spos with
  | mk r p =>
    rw [hsk] at hsl
    simp only at hsl
    have hp : Sorted (pre ++ [p.line]) := hs.last_mono hsl
    cases r with
    | nil =>
      refine ⟨?_, trivial⟩
      simpa [Tok.lines] using hp.dup
    | cons b rest =>
      have ha1 : p.line ≤ (p.adv b).line := Pos.adv_line p b
      have ha2 : p.line ≤ ((p.adv b).adv b).line := Nat.le_trans ha1 (Pos.adv_line _ b)
      have h1 : Sorted (pre ++ [p.line] ++ [] ++ [(p.adv b).line]) := by simpa using hp.snoc ha1
      have h2 : Sorted (pre ++ [p.line] ++ [] ++ [((p.adv b).adv b).line]) := by simpa using hp.snoc ha2
      have h3 : Sorted (pre ++ [p.line] ++ wlines [WordPart.lit p (p.adv b) [b]] ++ [(p.adv b).line]) := by
        have := (hp.dup.snoc ha1).dup
        simpa [wlines, partLines, List.append_assoc] using this
      simp only
      repeat' split
      all_goals first
        | exact ⟨h1, trivial⟩
        | exact ⟨h2, trivial⟩
        | (rename_i hb _; exact ⟨h3, Or.inr ⟨b, by simpa [or_assoc] using hb, rfl⟩⟩)
        | (rename_i hl; obtain ⟨k1, k2, k3⟩ := lexWord_start_ok b rest p _ _ _ pre ‹(isSafe b || b == 39) = true› hl hp; exact ⟨k1, Or.inl ⟨k2, k3, rfl⟩⟩)

/-- the token stream: its flattened lines are sorted, its word tokens are well formed -/
theorem lexAllF_ok : ∀ (fuel : Nat) (sk : Bool) (src : Bytes) (spos : Pos) (pre : List Nat),
    Sorted (pre ++ [spos.line]) →
    Sorted (pre ++ tokLines (lexAllF fuel sk src spos)) ∧ ∀ tp ∈ lexAllF fuel sk src spos, tp.1.ok := by
  intro fuel
  induction fuel with
  | zero =>
    intro sk src spos pre hs
    simp only [lexAllF, tokLines, List.append_nil]
    exact ⟨hs.sub (List.sublist_append_left _ _), fun _ h => by cases h⟩
  | succ n ih =>
    intro sk src spos pre hs
    obtain ⟨h1, h2⟩ := nextTok_ok sk src spos pre hs
    rw [lexAllF]
    have hlast : Sorted (pre ++ [(nextTok sk src spos).pos.line]) :=
      h1.sub (by
        rw [List.append_assoc, List.append_assoc]
        exact List.Sublist.append_left (List.sublist_append_left _ _) _)
    split
    · rename_i he
      refine ⟨by simpa [tokLines, Tok.lines] using hlast, fun tp h => ?_⟩
      simp only [List.mem_singleton] at h; subst h; trivial
    · refine ⟨by simpa [tokLines, Tok.lines] using hlast, fun tp h => ?_⟩
      simp only [List.mem_singleton] at h; subst h; trivial
    · refine ⟨by simpa [tokLines, Tok.lines] using hlast, fun tp h => ?_⟩
      simp only [List.mem_singleton] at h; subst h; trivial
    · obtain ⟨i1, i2⟩ := ih ((nextTok sk src spos).tok == .newl) (nextTok sk src spos).rest (nextTok sk src spos).rpos
        (pre ++ [(nextTok sk src spos).pos.line] ++ (nextTok sk src spos).tok.lines) h1
      refine ⟨by simpa [tokLines, List.append_assoc] using i1, fun tp h => ?_⟩
      rcases List.mem_cons.mp h with rfl | h
      · exact h2
      · exact i2 tp h

theorem lexAll_ok (src : Bytes) : Sorted (tokLines (lexAll src)) ∧ ∀ tp ∈ lexAll src, tp.1.ok := by
  have := lexAllF_ok (src.length + 1) false src ⟨0, 1, 1⟩ [] (by simp [Sorted])
  simpa [lexAll] using this

/-! ## Part 2: the parser -/

/-- proves `l₁ <+ l₂` for lists built with `++` and `::` from the same segments, `l₂` having extra ones -/
macro "sub_tac" : tactic => `(tactic| (
  try simp only [List.append_assoc, List.cons_append, List.nil_append, List.singleton_append, List.append_nil]
  repeat (first
    | exact List.Sublist.refl _
    | exact List.nil_sublist _
    | apply List.Sublist.append_left
    | apply List.Sublist.cons_cons
    | apply List.Sublist.cons
    | apply List.Sublist.trans _ (List.sublist_append_right _ _))))

theorem Sorted.dup_mid {A B : List Nat} {x : Nat} (h : Sorted (A ++ x :: B)) : Sorted (A ++ x :: x :: B) := by
  unfold Sorted at h ⊢
  rw [List.pairwise_append] at h ⊢
  obtain ⟨h1, h2, h3⟩ := h
  refine ⟨h1, ?_, ?_⟩
  · rw [List.pairwise_cons]
    exact ⟨fun y hy => by
      rcases List.mem_cons.mp hy with rfl | hy
      · exact Nat.le_refl _
      · exact (List.pairwise_cons.mp h2).1 y hy, h2⟩
  · intro a ha b hb
    rcases List.mem_cons.mp hb with rfl | hb
    · exact h3 a ha _ (by simp)
    · exact h3 a ha b hb

def slines (l : List Stmt) : List Nat := l.flatMap Stmt.lines
def wordsL (ws : List Word) : List Nat := ws.flatMap (fun w => wlines w.parts)

theorem call_lines (args : List Word) : (Cmd.call args).lines = wordsL args := by
  simp [Cmd.lines, wordsL, wlines]

theorem ofList_lines : ∀ l : List Stmt, (Stmts.ofList l).lines = slines l
  | [] => by simp [Stmts.ofList, Stmts.lines, slines]
  | s :: r => by simp [Stmts.ofList, Stmts.lines, slines, ofList_lines r]

theorem ofList_wf : ∀ l : List Stmt, (∀ s ∈ l, s.wf = true) → (Stmts.ofList l).wf = true
  | [], _ => by simp [Stmts.ofList, Stmts.wf]
  | s :: r, h => by
    simp only [Stmts.ofList, Stmts.wf, Bool.and_eq_true]
    exact ⟨h s (by simp), ofList_wf r (fun x hx => h x (by simp [hx]))⟩

theorem ofList_length : ∀ l : List Stmt, (Stmts.ofList l).length = l.length
  | [] => rfl
  | s :: r => by simp [Stmts.ofList, Stmts.length, ofList_length r]

def AllOK (ps : PS) : Prop := ∀ tp ∈ ps.toks, tp.1.ok

theorem AllOK.next {ps : PS} (h : AllOK ps) : AllOK ps.next := by
  intro tp htp
  exact h tp (List.mem_of_mem_tail htp)

theorem tokLines_next_sub (ps : PS) : (tokLines ps.next.toks).Sublist (tokLines ps.toks) := by
  unfold PS.next
  cases ps.toks with
  | nil => exact List.Sublist.refl _
  | cons tp rest =>
    simp only [List.tail_cons, tokLines]
    sub_tac

theorem gotNewl_facts (ps : PS) : (tokLines ps.gotNewl.2.toks).Sublist (tokLines ps.toks) ∧ (AllOK ps → AllOK ps.gotNewl.2) := by
  unfold PS.gotNewl
  split
  · exact ⟨tokLines_next_sub ps, AllOK.next⟩
  · exact ⟨List.Sublist.refl _, id⟩

/-- the position of the current token may be repeated in front -/
theorem Sorted.head_pos {pre : List Nat} {ps : PS} (h : Sorted (pre ++ tokLines ps.toks)) (hne : ps.toks ≠ []) :
    Sorted (pre ++ [ps.pos.line] ++ tokLines ps.toks) := by
  obtain ⟨toks⟩ := ps
  cases toks with
  | nil => exact absurd rfl hne
  | cons tp rest =>
    obtain ⟨t, p⟩ := tp
    simp only [tokLines, PS.pos] at h ⊢
    have := h.dup_mid
    simpa [List.append_assoc] using this

theorem Stmt.lines_cons (s : Stmt) : ∃ t, s.lines = s.pos.line :: t := by
  obtain ⟨pos, semi, neg, bg, cmd⟩ := s
  exact ⟨_, rfl⟩

theorem Sorted.head_stmt {A B : List Nat} {s : Stmt} (h : Sorted (A ++ s.lines ++ B)) :
    Sorted (A ++ s.pos.line :: s.lines ++ B) := by
  obtain ⟨t, ht⟩ := Stmt.lines_cons s
  rw [ht] at h ⊢
  have : Sorted (A ++ s.pos.line :: (t ++ B)) := by simpa [List.append_assoc] using h
  simpa [List.append_assoc] using this.dup_mid

theorem wordsL_rev_cons (w : Word) (acc : List Word) : wordsL (w :: acc).reverse = wordsL acc.reverse ++ wlines w.parts := by
  simp [wordsL, List.flatMap_append]

/-- a word token that is not one of `{ } !` is a well-formed word -/
theorem Tok.ok_word_wf {w : Word} {lit : Option Bytes} (h : (Tok.word w lit).ok)
    (hv : ∀ v, lit = some v → ¬ (v = [123] ∨ v = [125] ∨ v = [33])) : w.wf = true := by
  rcases h with h | ⟨b, hb, hl⟩
  · exact h.1
  · exfalso
    refine hv [b] hl ?_
    rcases hb with rfl | rfl | rfl <;> simp

theorem callArgs_wf : ∀ (fuel : Nat) (inSub : Bool) (ps : PS) (acc args : List Word) (ps' : PS),
    callArgs fuel inSub ps acc = .ok (args, ps') → AllOK ps → (∀ w ∈ acc, w.wf = true) →
    ∀ pre, Sorted (pre ++ wordsL acc.reverse ++ tokLines ps.toks) →
    AllOK ps' ∧ (∀ w ∈ args, w.wf = true) ∧ Sorted (pre ++ wordsL args ++ tokLines ps'.toks) ∧
      ∃ more, args = acc.reverse ++ more := by
  intro fuel
  induction fuel with
  | zero => intro inSub ps acc args ps' h; simp [callArgs] at h
  | succ n ih =>
    intro inSub ps acc args ps' h hok hacc pre hs
    have hstop : (.ok (acc.reverse, ps) : Except ParseErr (List Word × PS)) = .ok (args, ps') →
        AllOK ps' ∧ (∀ w ∈ args, w.wf = true) ∧ Sorted (pre ++ wordsL args ++ tokLines ps'.toks) ∧
          ∃ more, args = acc.reverse ++ more := by
      intro e
      simp only [Except.ok.injEq, Prod.mk.injEq] at e
      obtain ⟨rfl, rfl⟩ := e
      exact ⟨hok, fun w hw => hacc w (List.mem_reverse.mp hw), hs, [], by simp⟩
    obtain ⟨toks⟩ := ps
    cases toks with
    | nil =>
      simp only [callArgs, PS.tok] at h
      exact hstop h
    | cons tp rest =>
      obtain ⟨t, p⟩ := tp
      cases t with
      | word w lit =>
        have hwok : (Tok.word w lit).ok := hok (Tok.word w lit, p) (by simp)
        have hrec : callArgs n inSub ⟨rest⟩ (w :: acc) = .ok (args, ps') → w.wf = true →
            AllOK ps' ∧ (∀ w ∈ args, w.wf = true) ∧ Sorted (pre ++ wordsL args ++ tokLines ps'.toks) ∧
              ∃ more, args = acc.reverse ++ more := by
          intro e hw
          obtain ⟨r1, r2, r3, more, r4⟩ := ih inSub ⟨rest⟩ (w :: acc) args ps' e
            (fun tp htp => hok tp (List.mem_cons_of_mem _ htp))
            (fun x hx => by
              rcases List.mem_cons.mp hx with rfl | hx
              · exact hw
              · exact hacc x hx) pre (by
              rw [wordsL_rev_cons]
              simp only [tokLines, Tok.lines] at hs
              exact hs.sub (by sub_tac))
          exact ⟨r1, r2, r3, [w] ++ more, by rw [r4]; simp⟩
        cases lit with
        | none =>
          simp only [callArgs, PS.tok, PS.next, List.tail_cons] at h
          exact hrec h (Tok.ok_word_wf hwok (fun v hv => by cases hv))
        | some v =>
          simp only [callArgs, PS.tok, PS.next, List.tail_cons] at h
          split at h
          · cases h
          · rename_i hv
            simp only [Bool.or_eq_true, beq_iff_eq, not_or] at hv
            exact hrec h (Tok.ok_word_wf hwok (fun v' hv' => by
              simp only [Option.some.injEq] at hv'
              subst hv'
              intro hc
              rcases hc with hc | hc | hc
              · exact hv.1.1 hc
              · exact hv.1.2 hc
              · exact hv.2 hc))
      | rparen =>
        simp only [callArgs, PS.tok] at h
        split at h
        · exact hstop h
        · cases h
      | eof => simp only [callArgs, PS.tok] at h; exact hstop h
      | newl => simp only [callArgs, PS.tok] at h; exact hstop h
      | semi => simp only [callArgs, PS.tok] at h; exact hstop h
      | amp => simp only [callArgs, PS.tok] at h; exact hstop h
      | andAnd => simp only [callArgs, PS.tok] at h; exact hstop h
      | orOr => simp only [callArgs, PS.tok] at h; exact hstop h
      | pipe => simp only [callArgs, PS.tok] at h; exact hstop h
      | lparen => simp [callArgs, PS.tok] at h
      | outside => simp [callArgs, PS.tok] at h
      | unclosedQuote => simp [callArgs, PS.tok] at h

/-! ### The first word of a call is not a reserved word -/

theorem litValue_none_of_sgl : ∀ (parts : List WordPart), (∃ p ∈ parts, p.isLit = false) →
    (Word.mk parts).litValue? = none
  | [], h => by obtain ⟨p, hp, _⟩ := h; cases hp
  | p :: rest, h => by
    simp only [Word.litValue?, List.foldr_cons]
    cases p with
    | sgl l r v => rfl
    | lit a e v =>
      have : (Word.mk rest).litValue? = none := by
        apply litValue_none_of_sgl rest
        obtain ⟨q, hq, hql⟩ := h
        rcases List.mem_cons.mp hq with rfl | hq
        · simp [WordPart.isLit] at hql
        · exact ⟨q, hq, hql⟩
      simp only [Word.litValue?] at this
      rw [this]

theorem cmdNameOK_of_ok (w : Word) (lit : Option Bytes) (hwf : w.wf = true)
    (h2 : w.parts.length ≥ 2 → hasSgl w.parts = true) (hl : lit = litWord? w.parts)
    (hk : ∀ v, lit = some v → isOutsideKeyword v = false) : w.cmdNameOK = true := by
  unfold Word.cmdNameOK
  cases hv : w.litValue? with
  | none => rfl
  | some v =>
    simp only [Bool.not_eq_true']
    obtain ⟨parts⟩ := w
    simp only at h2 hl hv
    have hne := Word.wf_parts_ne hwf
    simp only at hne
    cases parts with
    | nil => exact absurd rfl hne
    | cons p rest =>
      cases rest with
      | cons q rest2 =>
        have hs := h2 (by simp)
        simp only [hasSgl, List.any_eq_true, Bool.not_eq_true'] at hs
        obtain ⟨x, hx, hxl⟩ := hs
        rw [litValue_none_of_sgl _ ⟨x, hx, hxl⟩] at hv
        cases hv
      | nil =>
        cases p with
        | sgl l r x => simp [Word.litValue?] at hv
        | lit a e x =>
          simp only [Word.litValue?, List.foldr_cons, List.foldr_nil, List.append_nil, Option.some.injEq] at hv
          subst hv
          exact hk x (by rw [hl]; rfl)

/-! ### The claims, by fuel -/

/-- a statement as `gotStmtPipe` builds it: well formed, no terminator, not an and-or list -/
structure PipeSt (s : Stmt) : Prop where
  wf : s.wf = true
  bare : s.bare = true
  nao : s.cmd.isAndOr = false

def ClaimFirst (n : Nat) : Prop :=
  ∀ (inSub : Bool) (pos : Pos) (neg : Bool) (ps : PS) (s : Stmt) (ps' : PS),
    firstCmdF n inSub pos neg ps = .ok (some s, ps') → AllOK ps →
    ∀ pre, Sorted (pre ++ [pos.line] ++ tokLines ps.toks) →
    AllOK ps' ∧ Sorted (pre ++ s.lines ++ tokLines ps'.toks) ∧ PipeSt s ∧ s.negated = neg ∧ s.cmd.isBinary = false

def ClaimGot (n : Nat) : Prop :=
  ∀ (inSub : Bool) (pos : Pos) (neg binCmd : Bool) (ps : PS) (s : Stmt) (ps' : PS),
    gotStmtPipeF n inSub pos neg binCmd ps = .ok (some s, ps') → AllOK ps →
    ∀ pre, Sorted (pre ++ [pos.line] ++ tokLines ps.toks) →
    AllOK ps' ∧ Sorted (pre ++ s.lines ++ tokLines ps'.toks) ∧ PipeSt s ∧ s.negated = neg ∧
      (binCmd = true → s.cmd.isBinary = false)

def ClaimPipe (n : Nat) : Prop :=
  ∀ (inSub binCmd : Bool) (s : Stmt) (ps : PS) (s' : Stmt) (ps' : PS),
    pipeF n inSub binCmd s ps = .ok (s', ps') → AllOK ps → PipeSt s →
    ∀ pre, Sorted (pre ++ s.lines ++ tokLines ps.toks) →
    AllOK ps' ∧ Sorted (pre ++ s'.lines ++ tokLines ps'.toks) ∧ PipeSt s' ∧ s'.negated = s.negated ∧
      (binCmd = true → s' = s)

def ClaimGet (n : Nat) : Prop :=
  ∀ (inSub readEnd binCmd : Bool) (ps : PS) (s : Stmt) (ps' : PS),
    getStmtF n inSub readEnd binCmd ps = .ok (some s, ps') → AllOK ps →
    ∀ pre, Sorted (pre ++ tokLines ps.toks) →
    AllOK ps' ∧ Sorted (pre ++ s.lines ++ tokLines ps'.toks) ∧ s.wf = true ∧ (readEnd = false → s.bare = true) ∧
      (binCmd = true → s.cmd.isAndOr = false)

def ClaimAndOr (n : Nat) : Prop :=
  ∀ (inSub binCmd : Bool) (s : Stmt) (ps : PS) (s' : Stmt) (ps' : PS),
    andOrF n inSub binCmd s ps = .ok (s', ps') → AllOK ps → s.wf = true → s.bare = true →
    ∀ pre, Sorted (pre ++ s.lines ++ tokLines ps.toks) →
    AllOK ps' ∧ Sorted (pre ++ s'.lines ++ tokLines ps'.toks) ∧ s'.wf = true ∧ s'.bare = true ∧
      (binCmd = true → s' = s)

def ClaimStmts (n : Nat) : Prop :=
  ∀ (inSub stopBrace gotEnd : Bool) (ps : PS) (acc ss : List Stmt) (ps' : PS),
    stmtsF n inSub stopBrace gotEnd ps acc = .ok (ss, ps') → AllOK ps → (∀ s ∈ acc, s.wf = true) →
    ∀ pre, Sorted (pre ++ slines acc.reverse ++ tokLines ps.toks) →
    AllOK ps' ∧ Sorted (pre ++ slines ss ++ tokLines ps'.toks) ∧ (∀ s ∈ ss, s.wf = true)

theorem mkStmt_lines (pos : Pos) (neg : Bool) (c : Cmd) : (mkStmt pos neg c).lines = pos.line :: c.lines := by
  simp [mkStmt, Stmt.lines, Pos.zero, Pos.valid]

theorem mkStmt_pipeSt (pos : Pos) (neg : Bool) (c : Cmd) (hc : c.wf = true) (hn : c.isAndOr = false) :
    PipeSt (mkStmt pos neg c) :=
  ⟨by simp [mkStmt, Stmt.wf, hc, hn], by simp [mkStmt, Stmt.bare, Stmt.bg, Stmt.semi, Pos.zero, Pos.valid],
    by simpa [mkStmt, Stmt.cmd] using hn⟩

theorem PS.tok_toks {ps : PS} {t : Tok} (h : ps.tok = t) (hne : t ≠ .eof) :
    ∃ p rest, ps.toks = (t, p) :: rest ∧ ps.pos = p ∧ ps.next = ⟨rest⟩ := by
  obtain ⟨toks⟩ := ps
  cases toks with
  | nil => simp only [PS.tok] at h; exact absurd h.symm hne
  | cons tp rest =>
    obtain ⟨t', p⟩ := tp
    simp only [PS.tok] at h
    subst h
    exact ⟨p, rest, rfl, rfl, rfl⟩

theorem PS.isLit_toks {ps : PS} {v : Bytes} (h : ps.tok.isLit v = true) :
    ∃ w p rest, ps.toks = (Tok.word w (some v), p) :: rest ∧ ps.pos = p ∧ ps.next = ⟨rest⟩ := by
  obtain ⟨toks⟩ := ps
  cases toks with
  | nil => simp [PS.tok, Tok.isLit] at h
  | cons tp rest =>
    obtain ⟨t, p⟩ := tp
    cases t with
    | word w lit =>
      cases lit with
      | none => simp [PS.tok, Tok.isLit] at h
      | some v' =>
        simp only [PS.tok, Tok.isLit, beq_iff_eq] at h
        subst h
        exact ⟨w, p, rest, rfl, rfl, rfl⟩
    | _ => simp [PS.tok, Tok.isLit] at h

theorem AllOK.of_toks {ps : PS} {tp : TokPos} {rest : List TokPos} (h : AllOK ps) (e : ps.toks = tp :: rest) :
    tp.1.ok ∧ AllOK ⟨rest⟩ :=
  ⟨h tp (by rw [e]; simp), fun x hx => h x (by rw [e]; exact List.mem_cons_of_mem _ hx)⟩

theorem first_step (n : Nat) (hS : ClaimStmts n) : ClaimFirst (n + 1) := by
  intro inSub pos neg ps s ps' h hok pre hs
  obtain ⟨toks⟩ := ps
  cases toks with
  | nil => simp [firstCmdF, PS.tok] at h
  | cons tp rest =>
    obtain ⟨t, p⟩ := tp
    obtain ⟨htok, hrestok⟩ := hok.of_toks (rfl : (PS.mk ((t, p) :: rest)).toks = (t, p) :: rest)
    simp only at htok
    cases t with
    | word w lit =>
      simp only [tokLines, Tok.lines] at hs
      -- a simple command
      have hcall : w.wf = true → w.cmdNameOK = true →
          (match callArgs (n + 1) inSub ⟨rest⟩ [w] with
            | .error e => (.error e : Except ParseErr (Option Stmt × PS))
            | .ok (args, ps) => .ok (some (mkStmt pos neg (.call args)), ps)) = .ok (some s, ps') →
          AllOK ps' ∧ Sorted (pre ++ s.lines ++ tokLines ps'.toks) ∧ PipeSt s ∧ s.negated = neg ∧
            s.cmd.isBinary = false := by
        intro hw hname e
        split at e
        · cases e
        · rename_i args q hca
          simp only [Except.ok.injEq, Prod.mk.injEq, Option.some.injEq] at e
          obtain ⟨rfl, rfl⟩ := e
          obtain ⟨r1, r2, r3, more, r4⟩ := callArgs_wf (n + 1) inSub ⟨rest⟩ [w] args q hca hrestok
            (fun x hx => by simp only [List.mem_singleton] at hx; subst hx; exact hw) (pre ++ [pos.line]) (by
              simp only [wordsL, List.reverse_cons, List.reverse_nil, List.nil_append, List.flatMap_cons, List.flatMap_nil,
                List.append_nil]
              exact hs.sub (by sub_tac))
          refine ⟨r1, by rw [mkStmt_lines, call_lines]; simpa [List.append_assoc] using r3, ?_, rfl, rfl⟩
          apply mkStmt_pipeSt _ _ _ _ rfl
          rw [r4]
          simp only [List.reverse_cons, List.reverse_nil, List.nil_append, List.singleton_append, Cmd.wf, Bool.and_eq_true,
            List.all_eq_true]
          refine ⟨fun x hx => r2 x (by rw [r4]; simpa using hx), hname⟩
      cases lit with
      | none =>
        simp only [firstCmdF, PS.tok_cons, PS.next_cons] at h
        rcases htok with hk | ⟨b, _, hb⟩
        · exact hcall hk.1 (cmdNameOK_of_ok w none hk.1 hk.2.1 hk.2.2 (fun v hv => by cases hv)) h
        · cases hb
      | some v =>
        simp only [firstCmdF, PS.tok_cons, PS.pos_cons, PS.next_cons] at h
        split at h
        · -- `{ …; }`
          cases hsemi : ((PS.mk rest).tok == Tok.semi) with
          | true => simp [hsemi] at h
          | false =>
            simp only [hsemi, Bool.false_eq_true, ↓reduceIte] at h
            split at h
            · cases h
            · rename_i ss q hst
              split at h
              · cases h
              · rename_i hne
                split at h
                · rename_i hclose
                  obtain ⟨w2, p2, rest2, e1, e2, e3⟩ := PS.isLit_toks hclose
                  simp only [Except.ok.injEq, Prod.mk.injEq, Option.some.injEq] at h
                  obtain ⟨rfl, rfl⟩ := h
                  obtain ⟨r1, r2, r3⟩ := hS inSub true true ⟨rest⟩ [] ss q hst hrestok (fun _ hx => by cases hx)
                    (pre ++ [pos.line] ++ [p.line]) (by
                      simp only [slines, List.reverse_nil, List.flatMap_nil, List.append_nil]
                      exact hs.sub (by sub_tac))
                  rw [e1] at r2
                  simp only [tokLines, Tok.lines] at r2
                  rw [e3, e2]
                  refine ⟨(r1.of_toks e1).2, ?_, ?_, rfl, rfl⟩
                  · rw [mkStmt_lines]
                    simp only [Cmd.lines, ofList_lines]
                    exact r2.sub (by sub_tac)
                  · apply mkStmt_pipeSt _ _ _ _ rfl
                    simp only [Cmd.wf, Bool.and_eq_true, decide_eq_true_eq, ofList_length]
                    refine ⟨?_, ofList_wf ss r3⟩
                    cases ss with
                    | nil => simp at hne
                    | cons _ _ => simp
                · split at h <;> cases h
        · split at h
          · cases h
          · split at h
            · split at h <;> cases h
            · split at h
              · cases h
              · rename_i h123 h125 h33 hkw
                rcases htok with hk | ⟨b, hb, hbl⟩
                · exact hcall hk.1 (cmdNameOK_of_ok w (some v) hk.1 hk.2.1 hk.2.2 (fun v' hv' => by
                    simp only [Option.some.injEq] at hv'
                    subst hv'
                    simpa using hkw)) h
                · exfalso
                  simp only [Option.some.injEq] at hbl
                  subst hbl
                  rcases hb with rfl | rfl | rfl
                  · simp at h123
                  · simp at h125
                  · simp at h33
    | lparen =>
      simp only [tokLines, Tok.lines, List.nil_append] at hs
      simp only [firstCmdF, PS.tok_cons, PS.pos_cons, PS.next_cons] at h
      cases hsemi : ((PS.mk rest).tok == Tok.semi) with
      | true => simp [hsemi] at h
      | false =>
        simp only [hsemi, Bool.false_eq_true, ↓reduceIte] at h
        split at h
        · cases h
        · rename_i ss q hst
          split at h
          · cases h
          · rename_i hne
            split at h
            · rename_i hclose
              obtain ⟨p2, rest2, e1, e2, e3⟩ := PS.tok_toks hclose (by simp)
              simp only [Except.ok.injEq, Prod.mk.injEq, Option.some.injEq] at h
              obtain ⟨rfl, rfl⟩ := h
              obtain ⟨r1, r2, r3⟩ := hS true false true ⟨rest⟩ [] ss q hst hrestok (fun _ hx => by cases hx)
                (pre ++ [pos.line] ++ [p.line]) (by
                  simp only [slines, List.reverse_nil, List.flatMap_nil, List.append_nil]
                  exact hs.sub (by sub_tac))
              rw [e1] at r2
              simp only [tokLines, Tok.lines, List.nil_append] at r2
              rw [e3, e2]
              refine ⟨(r1.of_toks e1).2, ?_, ?_, rfl, rfl⟩
              · rw [mkStmt_lines]
                simp only [Cmd.lines, ofList_lines]
                exact r2.sub (by sub_tac)
              · apply mkStmt_pipeSt _ _ _ _ rfl
                simp only [Cmd.wf, Bool.and_eq_true, decide_eq_true_eq, ofList_length]
                refine ⟨?_, ofList_wf ss r3⟩
                cases ss with
                | nil => simp at hne
                | cons _ _ => simp
            · cases h
            · cases h
    | eof => simp [firstCmdF, PS.tok] at h
    | newl => simp [firstCmdF, PS.tok] at h
    | semi => simp [firstCmdF, PS.tok] at h
    | amp => simp [firstCmdF, PS.tok] at h
    | andAnd => simp [firstCmdF, PS.tok] at h
    | orOr => simp [firstCmdF, PS.tok] at h
    | pipe => simp [firstCmdF, PS.tok] at h
    | rparen => simp [firstCmdF, PS.tok] at h
    | outside => simp [firstCmdF, PS.tok] at h
    | unclosedQuote => simp [firstCmdF, PS.tok] at h

theorem got_step (n : Nat) (hF : ClaimFirst n) (hP : ClaimPipe n) : ClaimGot (n + 1) := by
  intro inSub pos neg binCmd ps s ps' h hok pre hs
  rw [gotStmtPipeF_eq] at h
  split at h
  · cases h
  · simp at h
  · rename_i s1 ps1 hf
    unfold pipeWrap at h
    split at h
    · cases h
    · rename_i s2 ps2 hp
      simp only [Except.ok.injEq, Prod.mk.injEq, Option.some.injEq] at h
      obtain ⟨rfl, rfl⟩ := h
      obtain ⟨f1, f2, f3, f4, f5⟩ := hF _ _ _ _ _ _ hf hok pre hs
      obtain ⟨p1, p2, p3, p4, p5⟩ := hP _ _ _ _ _ _ hp f1 f3 pre f2
      exact ⟨p1, p2, p3, p4.trans f4, fun hb => by rw [p5 hb]; exact f5⟩

/-- no statement starts at the end of the token list -/
theorem gotStmtPipeF_nil (n : Nat) (inSub : Bool) (pos : Pos) (neg binCmd : Bool) (s : Stmt) (ps' : PS) :
    gotStmtPipeF n inSub pos neg binCmd ⟨[]⟩ ≠ .ok (some s, ps') := by
  intro h
  cases n with
  | zero => simp [gotStmtPipeF] at h
  | succ m =>
    rw [gotStmtPipeF_eq] at h
    cases m with
    | zero => simp [firstCmdF] at h
    | succ k => simp [firstCmdF, PS.tok] at h

theorem setNeg_lines (s : Stmt) (b : Bool) : (s.setNeg b).lines = s.lines := by
  obtain ⟨p, sm, n, bg, c⟩ := s
  rfl

theorem pipe_wf {s y : Stmt} (opPos : Pos) (hs : PipeSt s) (hy : PipeSt y) (hyn : y.negated = false)
    (hyb : y.cmd.isBinary = false) :
    PipeSt (mkStmt s.pos s.negated (.binary opPos .pipe (s.setNeg false) y)) := by
  apply mkStmt_pipeSt _ _ _ _ rfl
  obtain ⟨p, sm, n, bg, c⟩ := s
  have h1 := hs.wf
  have h2 := hs.bare
  have h3 := hs.nao
  simp only [Stmt.wf, Bool.and_eq_true, Stmt.cmd] at h1 h3
  simp only [Cmd.wf, Stmt.setNeg, Stmt.wf, Bool.false_and, Bool.not_false, Bool.and_true, Bool.and_eq_true,
    Bool.not_eq_true', Stmt.negated, Stmt.cmd]
  refine ⟨⟨⟨⟨h1.1, hy.wf⟩, ?_⟩, hy.bare⟩, ⟨⟨⟨trivial, hyn⟩, h3⟩, hyb⟩⟩
  simpa [Stmt.bare, Stmt.bg, Stmt.semi] using h2

theorem pipe_step (n : Nat) (hG : ClaimGot n) (hP : ClaimPipe n) : ClaimPipe (n + 1) := by
  intro inSub binCmd s ps s' ps' h hok hst pre hs
  rw [pipeF_eq] at h
  have hstop : (.ok (s, ps) : Except ParseErr (Stmt × PS)) = .ok (s', ps') →
      AllOK ps' ∧ Sorted (pre ++ s'.lines ++ tokLines ps'.toks) ∧ PipeSt s' ∧ s'.negated = s.negated ∧
        (binCmd = true → s' = s) := by
    intro e
    simp only [Except.ok.injEq, Prod.mk.injEq] at e
    obtain ⟨rfl, rfl⟩ := e
    exact ⟨hok, hs, hst, rfl, fun _ => rfl⟩
  split at h
  · rename_i hpipe
    split at h
    · exact hstop h
    · rename_i hbin
      obtain ⟨q, rest, e1, e2, e3⟩ := PS.tok_toks (by simpa using hpipe : ps.tok = .pipe) (by simp)
      simp only at h
      rw [e3, e2] at h
      obtain ⟨g1, g2⟩ := gotNewl_facts ⟨rest⟩
      have hrestok : AllOK ⟨rest⟩ := (hok.of_toks e1).2
      split at h
      · cases h
      · split at h <;> cases h
      · rename_i y ps2 hy
        have hne : (PS.mk rest).gotNewl.2.toks ≠ [] := by
          intro e
          have : (PS.mk rest).gotNewl.2 = ⟨[]⟩ := by
            cases hq : (PS.mk rest).gotNewl.2 with
            | mk t => rw [hq] at e; simp only at e; rw [e]
          rw [this] at hy
          exact gotStmtPipeF_nil _ _ _ _ _ _ _ hy
        have hs1 : Sorted (pre ++ s.lines ++ [q.line] ++ tokLines (PS.mk rest).gotNewl.2.toks) := by
          rw [e1] at hs
          simp only [tokLines, Tok.lines, List.nil_append] at hs
          have h' : Sorted (pre ++ s.lines ++ [q.line] ++ tokLines rest) := by simpa [List.append_assoc] using hs
          exact h'.sub (List.Sublist.append_left g1 _)
        have hs2 := hs1.head_pos hne
        obtain ⟨y1, y2, y3, y4, y5⟩ := hG _ _ _ _ _ _ _ hy (g2 hrestok) (pre ++ s.lines ++ [q.line]) hs2
        have hnew : PipeSt (mkStmt s.pos s.negated (.binary q .pipe (s.setNeg false) y)) :=
          pipe_wf q hst y3 y4 (y5 rfl)
        obtain ⟨r1, r2, r3, r4, r5⟩ := hP _ _ _ _ _ _ h y1 hnew pre (by
          rw [mkStmt_lines]
          simp only [Cmd.lines, setNeg_lines]
          have h' : Sorted (pre ++ s.lines ++ (q.line :: y.lines ++ tokLines ps2.toks)) := by
            simpa [List.append_assoc] using y2
          have := h'.head_stmt
          simpa [List.append_assoc] using this)
        refine ⟨r1, r2, r3, by rw [r4]; rfl, fun hb => ?_⟩
        rw [hb] at hbin
        exact absurd rfl hbin
  · exact hstop h

theorem andor_core (n : Nat) (hGet : ClaimGet n) (hA : ClaimAndOr n) (inSub binCmd : Bool) (s : Stmt) (op : BinOp)
    (hop : op ≠ .pipe) (q : Pos) (rest : List TokPos) (t : Tok) (s' : Stmt) (ps' : PS)
    (h : (match getStmtF n inSub false true (PS.mk rest).gotNewl.2 with
        | .error e => (.error e : Except ParseErr (Stmt × PS))
        | .ok (none, ps') =>
          match ps'.tok with
          | .outside => .error .outside
          | _ => .error (.syntax "must be followed by a statement")
        | .ok (some y, ps') => andOrF n inSub binCmd (mkStmt s.pos false (.binary q op s y)) ps') = .ok (s', ps'))
    (hok : AllOK ⟨(t, q) :: rest⟩) (ht : t.lines = []) (hwf : s.wf = true) (hb : s.bare = true) (pre : List Nat)
    (hs : Sorted (pre ++ s.lines ++ tokLines ((t, q) :: rest))) (hbin : binCmd = false) :
    AllOK ps' ∧ Sorted (pre ++ s'.lines ++ tokLines ps'.toks) ∧ s'.wf = true ∧ s'.bare = true ∧
      (binCmd = true → s' = s) := by
  obtain ⟨g1, g2⟩ := gotNewl_facts ⟨rest⟩
  have hrestok : AllOK ⟨rest⟩ := (hok.of_toks rfl).2
  split at h
  · cases h
  · split at h <;> cases h
  · rename_i y ps2 hy
    have hs1 : Sorted (pre ++ s.lines ++ [q.line] ++ tokLines (PS.mk rest).gotNewl.2.toks) := by
      simp only [tokLines, ht, List.nil_append] at hs
      have h' : Sorted (pre ++ s.lines ++ [q.line] ++ tokLines rest) := by simpa [List.append_assoc] using hs
      exact h'.sub (List.Sublist.append_left g1 _)
    obtain ⟨y1, y2, y3, y4, y5⟩ := hGet _ _ _ _ _ _ hy (g2 hrestok) (pre ++ s.lines ++ [q.line]) hs1
    have hnewwf : (mkStmt s.pos false (.binary q op s y)).wf = true := by
      have hyb := y4 rfl
      have hya := y5 rfl
      simp only [mkStmt, Stmt.wf, Bool.false_and, Bool.not_false, Bool.and_true, Cmd.wf, Bool.and_eq_true]
      refine ⟨⟨⟨⟨hwf, y3⟩, hb⟩, hyb⟩, ?_⟩
      cases op with
      | pipe => exact absurd rfl hop
      | andStmt => simpa using hya
      | orStmt => simpa using hya
    have hnewb : (mkStmt s.pos false (.binary q op s y)).bare = true := by
      simp [mkStmt, Stmt.bare, Stmt.bg, Stmt.semi, Pos.zero, Pos.valid]
    obtain ⟨r1, r2, r3, r4, r5⟩ := hA _ _ _ _ _ _ h y1 hnewwf hnewb pre (by
      rw [mkStmt_lines]
      simp only [Cmd.lines]
      have h' : Sorted (pre ++ s.lines ++ (q.line :: y.lines ++ tokLines ps2.toks)) := by
        simpa [List.append_assoc] using y2
      have := h'.head_stmt
      simpa [List.append_assoc] using this)
    exact ⟨r1, r2, r3, r4, fun hb' => by rw [hbin] at hb'; cases hb'⟩

theorem andor_step (n : Nat) (hGet : ClaimGet n) (hA : ClaimAndOr n) : ClaimAndOr (n + 1) := by
  intro inSub binCmd s ps s' ps' h hok hwf hb pre hs
  rw [andOrF_eq] at h
  have hstop : (.ok (s, ps) : Except ParseErr (Stmt × PS)) = .ok (s', ps') →
      AllOK ps' ∧ Sorted (pre ++ s'.lines ++ tokLines ps'.toks) ∧ s'.wf = true ∧ s'.bare = true ∧
        (binCmd = true → s' = s) := by
    intro e
    simp only [Except.ok.injEq, Prod.mk.injEq] at e
    obtain ⟨rfl, rfl⟩ := e
    exact ⟨hok, hs, hwf, hb, fun _ => rfl⟩
  obtain ⟨toks⟩ := ps
  cases toks with
  | nil => simp only [PS.tok] at h; exact hstop h
  | cons tp rest =>
    obtain ⟨t, q⟩ := tp
    cases t with
    | andAnd =>
      simp only [PS.tok_cons, PS.pos_cons, PS.next_cons] at h
      cases hbin : binCmd with
      | true => simp only [hbin, ↓reduceIte] at h; rw [hbin] at hstop; exact hstop h
      | false =>
        simp only [hbin, Bool.false_eq_true, ↓reduceIte] at h
        have := andor_core n hGet hA inSub false s .andStmt (by simp) q rest .andAnd s' ps' h hok rfl hwf hb pre hs rfl
        exact this
    | orOr =>
      simp only [PS.tok_cons, PS.pos_cons, PS.next_cons] at h
      cases hbin : binCmd with
      | true => simp only [hbin, ↓reduceIte] at h; rw [hbin] at hstop; exact hstop h
      | false =>
        simp only [hbin, Bool.false_eq_true, ↓reduceIte] at h
        have := andor_core n hGet hA inSub false s .orStmt (by simp) q rest .orOr s' ps' h hok rfl hwf hb pre hs rfl
        exact this
    | eof => simp only [PS.tok_cons] at h; exact hstop h
    | newl => simp only [PS.tok_cons] at h; exact hstop h
    | semi => simp only [PS.tok_cons] at h; exact hstop h
    | amp => simp only [PS.tok_cons] at h; exact hstop h
    | pipe => simp only [PS.tok_cons] at h; exact hstop h
    | lparen => simp only [PS.tok_cons] at h; exact hstop h
    | rparen => simp only [PS.tok_cons] at h; exact hstop h
    | word w lit => simp only [PS.tok_cons] at h; exact hstop h
    | outside => simp only [PS.tok_cons] at h; exact hstop h
    | unclosedQuote => simp only [PS.tok_cons] at h; exact hstop h

theorem setEnd_facts (s : Stmt) (q : Pos) (bg : Bool) (hb : s.bare = true) (hwf : s.wf = true) :
    (s.setEnd q bg).lines = s.lines ++ (if q.valid then [q.line] else []) ∧ (s.setEnd q bg).wf = true ∧
      (s.setEnd q bg).cmd = s.cmd := by
  obtain ⟨p, sm, n, b, c⟩ := s
  simp only [Stmt.bare, Stmt.bg, Stmt.semi, Bool.and_eq_true, Bool.not_eq_true'] at hb
  refine ⟨?_, by simpa [Stmt.setEnd, Stmt.wf] using hwf, rfl⟩
  simp [Stmt.setEnd, Stmt.lines, hb.2]

theorem get_step (n : Nat) (hG : ClaimGot n) (hA : ClaimAndOr n) : ClaimGet (n + 1) := by
  intro inSub readEnd binCmd ps s ps' h hok pre hs
  rw [getStmtF_eq] at h
  simp only at h
  -- the state after an optional `!`
  have hstart : AllOK (if ps.tok.isLit [33] = true then ps.next else ps) ∧
      ((if ps.tok.isLit [33] = true then ps.next else ps).toks ≠ [] →
        Sorted (pre ++ [ps.pos.line] ++ tokLines (if ps.tok.isLit [33] = true then ps.next else ps).toks)) := by
    cases hneg : ps.tok.isLit [33] with
    | true =>
      simp only [↓reduceIte]
      obtain ⟨w, p, rest, e1, e2, e3⟩ := PS.isLit_toks hneg
      refine ⟨hok.next, fun _ => ?_⟩
      rw [e3, e2]
      rw [e1] at hs
      simp only [tokLines, Tok.lines] at hs
      exact hs.sub (by sub_tac)
    | false =>
      simp only [Bool.false_eq_true, ↓reduceIte]
      exact ⟨hok, fun hne => hs.head_pos hne⟩
  obtain ⟨ps1, hps1⟩ : ∃ ps1, ps1 = (if ps.tok.isLit [33] = true then ps.next else ps) := ⟨_, rfl⟩
  rw [← hps1] at h hstart
  obtain ⟨hok1, hs1⟩ := hstart
  split at h
  · cases h
  · split at h
    · cases h
    · split at h
      · cases h
      · simp at h
      · rename_i s1 ps2 hg
        have hne : ps1.toks ≠ [] := by
          intro e
          have : ps1 = ⟨[]⟩ := by
            cases hq : ps1 with
            | mk t => rw [hq] at e; simp only at e; rw [e]
          rw [this] at hg
          exact gotStmtPipeF_nil _ _ _ _ _ _ _ hg
        obtain ⟨g1, g2, g3, g4, _⟩ := hG _ _ _ _ _ _ _ hg hok1 pre (hs1 hne)
        unfold endWrap at h
        split at h
        · cases h
        · rename_i s2 ps3 ha
          obtain ⟨a1, a2, a3, a4, a5⟩ := hA _ _ _ _ _ _ ha g1 g3.wf g3.bare pre g2
          have hnao : binCmd = true → s2.cmd.isAndOr = false := fun hb => by rw [a5 hb]; exact g3.nao
          have hkeep : (.ok (some s2, ps3) : Except ParseErr (Option Stmt × PS)) = .ok (some s, ps') →
              AllOK ps' ∧ Sorted (pre ++ s.lines ++ tokLines ps'.toks) ∧ s.wf = true ∧ (readEnd = false → s.bare = true) ∧
                (binCmd = true → s.cmd.isAndOr = false) := by
            intro e
            simp only [Except.ok.injEq, Prod.mk.injEq, Option.some.injEq] at e
            obtain ⟨rfl, rfl⟩ := e
            exact ⟨a1, a2, a3, fun _ => a4, hnao⟩
          have hend : ∀ (t : Tok) (bg : Bool), ps3.tok = t → t.lines = [] → t ≠ .eof →
              (.ok (some (s2.setEnd ps3.pos bg), ps3.next) : Except ParseErr (Option Stmt × PS)) = .ok (some s, ps') →
              readEnd = true →
              AllOK ps' ∧ Sorted (pre ++ s.lines ++ tokLines ps'.toks) ∧ s.wf = true ∧ (readEnd = false → s.bare = true) ∧
                (binCmd = true → s.cmd.isAndOr = false) := by
            intro t bg ht htl hte e hre
            simp only [Except.ok.injEq, Prod.mk.injEq, Option.some.injEq] at e
            obtain ⟨rfl, rfl⟩ := e
            obtain ⟨q, rest, e1, e2, e3⟩ := PS.tok_toks ht hte
            obtain ⟨l1, l2, l3⟩ := setEnd_facts s2 ps3.pos bg a4 a3
            rw [e1] at a2
            simp only [tokLines, htl, List.nil_append] at a2
            refine ⟨a1.next, ?_, l2, (fun hf => by rw [hre] at hf; cases hf), (fun hb => by rw [l3]; exact hnao hb)⟩
            rw [l1, e3, e2]
            split
            · simpa [List.append_assoc] using a2
            · exact a2.sub (by sub_tac)
          cases hre : readEnd with
          | false =>
            simp only [hre, Bool.false_eq_true, ↓reduceIte] at h
            rw [hre] at hkeep
            exact hkeep h
          | true =>
            simp only [hre, ↓reduceIte] at h
            rw [hre] at hkeep hend
            split at h
            · rename_i ht
              exact hend .semi false ht rfl (by simp) h rfl
            · rename_i ht
              exact hend .amp true ht rfl (by simp) h rfl
            · exact hkeep h

theorem slines_rev_cons (s : Stmt) (acc : List Stmt) : slines (s :: acc).reverse = slines acc.reverse ++ s.lines := by
  simp [slines, List.flatMap_append]

theorem stmts_step (n : Nat) (hGet : ClaimGet n) (hS : ClaimStmts n) : ClaimStmts (n + 1) := by
  intro inSub stopBrace gotEnd ps acc ss ps' h hok hacc pre hs
  rw [stmtsF_eq] at h
  have hstop : ∀ q : PS, AllOK q → (tokLines q.toks).Sublist (tokLines ps.toks) →
      (.ok (acc.reverse, q) : Except ParseErr (List Stmt × PS)) = .ok (ss, ps') →
      AllOK ps' ∧ Sorted (pre ++ slines ss ++ tokLines ps'.toks) ∧ (∀ s ∈ ss, s.wf = true) := by
    intro q hq hsub e
    simp only [Except.ok.injEq, Prod.mk.injEq] at e
    obtain ⟨rfl, rfl⟩ := e
    exact ⟨hq, hs.sub (List.Sublist.append_left hsub _), fun s hs' => hacc s (List.mem_reverse.mp hs')⟩
  split at h
  · exact hstop ps hok (List.Sublist.refl _) h
  · obtain ⟨g1, g2⟩ := gotNewl_facts ps
    cases hq : ps.gotNewl with
    | mk nl ps1 =>
      have e2 : ps.gotNewl.2 = ps1 := by rw [hq]
      rw [e2] at g1 g2
      rw [hq] at h
      simp only at h
      have hok1 := g2 hok
      split at h
      · split at h
        · exact hstop ps1 hok1 g1 h
        · cases h
      · split at h
        · exact hstop ps1 hok1 g1 h
        · split at h
          · cases h
          · split at h
            · exact hstop ps1 hok1 g1 h
            · split at h
              · cases h
              · split at h <;> cases h
              · rename_i s ps2 hg
                have hs1 : Sorted (pre ++ slines acc.reverse ++ tokLines ps1.toks) :=
                  hs.sub (List.Sublist.append_left g1 _)
                obtain ⟨r1, r2, r3, _, _⟩ := hGet _ _ _ _ _ _ hg hok1 (pre ++ slines acc.reverse) hs1
                exact hS _ _ _ _ _ _ _ h r1 (fun x hx => by
                  rcases List.mem_cons.mp hx with rfl | hx
                  · exact r3
                  · exact hacc x hx) pre (by
                  rw [slines_rev_cons]
                  simpa [List.append_assoc] using r2)

/-! ### All claims, and the file -/

theorem all_claims : ∀ n : Nat, ClaimFirst n ∧ ClaimGot n ∧ ClaimPipe n ∧ ClaimGet n ∧ ClaimAndOr n ∧ ClaimStmts n
  | 0 => by
    refine ⟨?_, ?_, ?_, ?_, ?_, ?_⟩
    · intro inSub pos neg ps s ps' h; simp [firstCmdF] at h
    · intro inSub pos neg binCmd ps s ps' h; simp [gotStmtPipeF] at h
    · intro inSub binCmd s ps s' ps' h; simp [pipeF] at h
    · intro inSub readEnd binCmd ps s ps' h; simp [getStmtF] at h
    · intro inSub binCmd s ps s' ps' h; simp [andOrF] at h
    · intro inSub stopBrace gotEnd ps acc ss ps' h; simp [stmtsF] at h
  | n + 1 => by
    obtain ⟨hF, hG, hP, hGet, hA, hS⟩ := all_claims n
    exact ⟨first_step n hS, got_step n hF hP, pipe_step n hG hP, get_step n hG hA, andor_step n hGet hA,
      stmts_step n hGet hS⟩

/-- what the parser builds from a sorted stream of well-formed tokens -/
theorem parseToksF_wf (fuel : Nat) (toks : List TokPos) (f : File) (h : parseToksF fuel toks = .ok f)
    (hok : ∀ tp ∈ toks, tp.1.ok) (hs : Sorted (tokLines toks)) : f.wf = true ∧ posMono f := by
  unfold parseToksF at h
  split at h
  · cases h
  · rename_i ss ps hst
    obtain ⟨_, r2, r3⟩ := (all_claims fuel).2.2.2.2.2 false false true ⟨toks⟩ [] ss ps hst hok (fun _ hx => by cases hx) []
      (by simpa [slines] using hs)
    split at h
    · simp only [Except.ok.injEq] at h
      subst h
      refine ⟨ofList_wf ss r3, ?_⟩
      unfold posMono
      simp only [ofList_lines]
      exact r2.sub (by simp)
    · cases h
    · cases h

/-- **`parse_WF`**: whatever the model parser accepts is a well-formed tree whose line numbers
    never decrease in source order — for every input and every language variant. -/
theorem parse_wf_posMono (l : Lang) (src : Bytes) (f : File) (h : parse l src = .ok f) : f.wf = true ∧ posMono f := by
  obtain ⟨h1, h2⟩ := lexAll_ok src
  exact parseToksF_wf _ _ f h h2 h1

end ShVerif.L4
