import ShVerif.Model.C23
/-
  C23 — helper lemmas.  Part 1: `read` line reading and REPLY; Part 2: index safety of ReadFields
  (loop invariant `Inv`); Part 3: ReadFields against the specification.
-/
namespace ShVerif.C23

/-! ## Part 1 -/

theorem bareReplyLoop_cons (b : UInt8) (rest : Bytes) (esc : Bool) :
    bareReplyLoop (b :: rest) esc =
      if b == bsl && !esc then bareReplyLoop rest true else b :: bareReplyLoop rest false := by
  rw [bareReplyLoop]

theorem bareReplyLoop_false : ∀ l : Bytes, bareReplyLoop l false = specBareReply false l
  | [] => by simp [bareReplyLoop, specBareReply]
  | [b] => by
    by_cases h : b = bsl <;> simp [bareReplyLoop, specBareReply, h]
  | b :: c :: rest => by
    rw [bareReplyLoop_cons]
    by_cases h : b = bsl
    · rw [bareReplyLoop_cons]
      simp [specBareReply, h, bareReplyLoop_false rest]
    · simp [specBareReply, h, bareReplyLoop_false (c :: rest)]

theorem bare_reply' (raw : Bool) (line : Bytes) : bareReply raw line = specBareReply raw line := by
  cases raw
  · simp [bareReply, bareReplyLoop_false]
  · simp [bareReply, specBareReply]

theorem readLineLoop_cons (raw : Bool) (b : UInt8) (rest line : Bytes) (esc : Bool) :
    readLineLoop raw (b :: rest) line esc =
      if !raw && b == bsl then readLineLoop raw rest (line ++ [b]) (!esc)
      else if !raw && b == nl && esc then
        if line.length == 0 then .error "line[:len(line)-1]"
        else readLineLoop raw rest line.dropLast false
      else if b == nl then .ok ⟨line, rest, false⟩
      else readLineLoop raw rest (line ++ [b]) false := by
  rw [readLineLoop]

theorem readLineLoop_raw : ∀ (input acc : Bytes) (esc : Bool),
    readLineLoop true input acc esc =
      .ok { specReadLine true input with line := acc ++ (specReadLine true input).line }
  | [], acc, esc => by simp [readLineLoop, specReadLine]
  | b :: rest, acc, esc => by
    rw [readLineLoop_cons]
    by_cases h : b = nl
    · simp [specReadLine, h]
    · simp [specReadLine, h, readLineLoop_raw rest]

theorem bsl_ne_nl : bsl ≠ nl := by decide

theorem readLineLoop_cooked : ∀ (input acc : Bytes),
    readLineLoop false input acc false =
      .ok { specReadLine false input with line := acc ++ (specReadLine false input).line }
  | [], acc => by simp [readLineLoop, specReadLine]
  | [b], acc => by
    rw [readLineLoop_cons]
    by_cases h : b = nl
    · have h' : nl ≠ bsl := fun e => bsl_ne_nl e.symm
      simp [readLineLoop, specReadLine, h, h']
    · by_cases h2 : b = bsl
      · simp [readLineLoop, specReadLine, h, h2, bsl_ne_nl]
      · simp [readLineLoop, specReadLine, h, h2]
  | b :: c :: rest, acc => by
    rw [readLineLoop_cons]
    by_cases h2 : b = bsl
    · subst h2
      rw [readLineLoop_cons]
      by_cases h3 : c = nl
      · subst h3
        have : nl ≠ bsl := fun e => bsl_ne_nl e.symm
        simp [specReadLine, this, readLineLoop_cooked rest]
      · by_cases h4 : c = bsl
        · subst h4
          simp [specReadLine, bsl_ne_nl, readLineLoop_cooked rest]
        · simp [specReadLine, h3, h4, readLineLoop_cooked rest]
    · by_cases h : b = nl
      · have h' : nl ≠ bsl := fun e => bsl_ne_nl e.symm
        simp [specReadLine, h, h']
      · simp [specReadLine, h, h2, readLineLoop_cooked (c :: rest)]


/-! ## Part 2 -/

/-- Closed, ordered field positions between `lo` and `hi`. -/
inductive Chain : Nat → Nat → List Pos → Prop
  | nil {lo hi : Nat} : lo ≤ hi → Chain lo hi []
  | cons {lo hi s e : Nat} {ps : List Pos} : lo ≤ s → s ≤ e → Chain e hi ps →
      Chain lo hi (⟨s, (e : Int)⟩ :: ps)

theorem Chain.le {lo hi ps} (h : Chain lo hi ps) : lo ≤ hi := by
  induction h with
  | nil h => exact h
  | cons h1 h2 _ ih => omega

theorem Chain.mono {lo hi hi' ps} (h : Chain lo hi ps) (hh : hi ≤ hi') : Chain lo hi' ps := by
  induction h with
  | nil h => exact .nil (by omega)
  | cons h1 h2 _ ih => exact .cons h1 h2 (ih hh)

theorem Chain.snoc {lo a e ps} (h : Chain lo a ps) (hae : a ≤ e) :
    Chain lo e (ps ++ [⟨a, (e : Int)⟩]) := by
  induction h with
  | nil h => exact .cons h hae (.nil (Nat.le_refl _))
  | cons h1 h2 _ ih => exact .cons h1 h2 (ih hae)

theorem setLastEnd_snoc (ps : List Pos) (p : Pos) (e : Int) :
    setLastEnd (ps ++ [p]) e = .ok (ps ++ [{ p with stop := e }]) := by
  induction ps with
  | nil => rfl
  | cons q qs ih =>
    cases qs with
    | nil => simp [setLastEnd]
    | cons r rs =>
      simp only [List.cons_append] at ih ⊢
      rw [setLastEnd, ih]

/-- Shape of `fpos`: closed ordered fields, plus one open field when `infield`. -/
def InvF (fpos : List Pos) (len : Nat) (infield : Bool) : Prop :=
  if infield then ∃ closed a, fpos = closed ++ [⟨a, -1⟩] ∧ Chain 0 a closed ∧ a ≤ len
  else Chain 0 len fpos

def Inv (st : St) : Prop := InvF st.fpos st.runes.length st.infield

theorem InvF.mono {fpos len len' infield} (h : InvF fpos len infield) (hl : len ≤ len') :
    InvF fpos len' infield := by
  unfold InvF at *
  cases infield with
  | true =>
    simp only [if_true] at h ⊢
    obtain ⟨c, a, h1, h2, h3⟩ := h
    exact ⟨c, a, h1, h2, by omega⟩
  | false =>
    simp only [Bool.false_eq_true, if_false] at h ⊢
    exact h.mono hl

theorem toggle_inv (ifs : List Char) (raw : Bool) (st : St) (r : Char) (h : Inv st) :
    ∃ st', toggle ifs raw st r = .ok st' ∧ Inv st' ∧ st'.runes = st.runes ∧ st'.esc = st.esc := by
  unfold Inv InvF at h
  unfold toggle
  cases hin : st.infield with
  | true =>
    simp only [hin, if_true] at h ⊢
    obtain ⟨closed, a, hf, hc, ha⟩ := h
    split
    · rw [hf, setLastEnd_snoc]
      refine ⟨_, rfl, ?_, rfl, rfl⟩
      simp only [Inv, InvF, Bool.false_eq_true, if_false]
      exact hc.snoc ha
    · refine ⟨_, rfl, ?_, rfl, rfl⟩
      simp only [Inv, InvF, hin, if_true]
      exact ⟨closed, a, hf, hc, ha⟩
  | false =>
    simp only [hin, Bool.false_eq_true, if_false] at h ⊢
    split
    · refine ⟨_, rfl, ?_, rfl, rfl⟩
      simp only [Inv, InvF, if_true]
      exact ⟨st.fpos, st.runes.length, rfl, h, Nat.le_refl _⟩
    · refine ⟨_, rfl, ?_, rfl, rfl⟩
      simp only [Inv, InvF, hin, Bool.false_eq_true, if_false]
      exact h

theorem push_fpos (raw : Bool) (st : St) (r : Char) :
    (push raw st r).fpos = st.fpos ∧ (push raw st r).infield = st.infield ∧
    st.runes.length ≤ (push raw st r).runes.length := by
  unfold push
  split
  · refine ⟨rfl, rfl, ?_⟩
    simp only
    split <;> simp
  · exact ⟨rfl, rfl, by simp⟩

theorem push_inv (raw : Bool) (st : St) (r : Char) (h : Inv st) : Inv (push raw st r) := by
  obtain ⟨h1, h2, h3⟩ := push_fpos raw st r
  unfold Inv at *
  rw [h1, h2]
  exact h.mono h3

theorem step_inv (ifs : List Char) (raw : Bool) (st : St) (r : Char) (h : Inv st) :
    ∃ st', step ifs raw st r = .ok st' ∧ Inv st' := by
  obtain ⟨st1, h1, h2, _, _⟩ := toggle_inv ifs raw st r h
  unfold step
  rw [h1]
  exact ⟨_, rfl, push_inv raw st1 r h2⟩

theorem loop_inv (ifs : List Char) (raw : Bool) : ∀ (line : List Char) (st : St), Inv st →
    ∃ st', loop ifs raw st line = .ok st' ∧ Inv st'
  | [], st, h => ⟨st, rfl, h⟩
  | r :: rs, st, h => by
    obtain ⟨st1, h1, h2⟩ := step_inv ifs raw st r h
    rw [loop, h1]
    exact loop_inv ifs raw rs st1 h2

theorem init_inv : Inv St.init := by
  simp only [Inv, InvF, St.init, Bool.false_eq_true, if_false]
  exact .nil (Nat.le_refl _)

theorem sliceRunes_ok (runes : List Char) (s e : Nat) (h1 : s ≤ e) (h2 : e ≤ runes.length) :
    sliceRunes runes ⟨s, (e : Int)⟩ = .ok ((runes.drop s).take (e - s)) := by
  unfold sliceRunes
  have : ¬ ((e : Int) < 0) := by omega
  simp only [this, if_false, Int.toNat_natCast]
  have h3 : ¬ e > runes.length := by omega
  have h4 : ¬ s > e := by omega
  simp only [h3, h4, if_false]

theorem sliceAll_chain (runes : List Char) {lo hi : Nat} {ps : List Pos} (h : Chain lo hi ps)
    (hh : hi ≤ runes.length) : ∃ fs, sliceAll runes ps = .ok fs := by
  induction h with
  | nil _ => exact ⟨[], rfl⟩
  | @cons lo hi s e ps h1 h2 hc ih =>
    obtain ⟨fs, hfs⟩ := ih hh
    have := hc.le
    rw [sliceAll, sliceRunes_ok runes s e h2 (by omega), hfs]
    exact ⟨_, rfl⟩

theorem chain_last {lo hi : Nat} {ps : List Pos} (h : Chain lo hi ps) (hne : ps ≠ []) :
    ∃ (s e : Nat), lastPos ps = some ⟨s, (e : Int)⟩ ∧ lo ≤ e ∧ e ≤ hi := by
  induction h with
  | nil _ => exact absurd rfl hne
  | @cons lo hi s e ps h1 h2 hc ih =>
    cases ps with
    | nil => exact ⟨s, e, rfl, by omega, hc.le⟩
    | cons q qs =>
      obtain ⟨s', e', h3, h4, h5⟩ := ih (by simp)
      exact ⟨s', e', by rw [lastPos]; exact h3, by omega, h5⟩

theorem loLoop_ok (ifs : List Char) (runes : List Char) (start : Nat) (hs : start ≤ runes.length) :
    ∀ (fuel lo : Nat), lo ≤ start → ∃ lo', loLoop ifs runes start fuel lo = .ok lo' ∧ lo' ≤ start
  | 0, lo, h => ⟨lo, rfl, h⟩
  | fuel + 1, lo, h => by
    rw [loLoop]
    by_cases hlt : lo < start
    · simp only [hlt, if_true]
      have hl : lo < runes.length := by omega
      rw [List.getElem?_eq_getElem hl]
      simp only
      split
      · exact loLoop_ok ifs runes start hs fuel (lo + 1) (by omega)
      · exact ⟨lo, rfl, h⟩
    · simp only [hlt, if_false]
      exact ⟨lo, rfl, h⟩

theorem hiLoop_ok (ifs : List Char) (runes : List Char) (e : Nat) :
    ∀ (hi : Nat), hi ≤ runes.length → e ≤ hi →
      ∃ hi', hiLoop ifs runes (e : Int) hi = .ok hi' ∧ hi' ≤ hi ∧ e ≤ hi'
  | 0, _, he => by
    rw [hiLoop]
    have : ¬ ((0 : Int) > (e : Int)) := by omega
    simp only [this, if_false]
    exact ⟨0, rfl, Nat.le_refl _, he⟩
  | hi + 1, hl, he => by
    rw [hiLoop]
    by_cases hgt : (((hi + 1 : Nat) : Int) > (e : Int))
    · simp only [hgt, if_true]
      have hl' : hi < runes.length := by omega
      rw [List.getElem?_eq_getElem hl']
      simp only
      split
      · obtain ⟨hi', h1, h2, h3⟩ := hiLoop_ok ifs runes e hi (by omega) (by omega)
        exact ⟨hi', h1, by omega, h3⟩
      · exact ⟨hi + 1, rfl, Nat.le_refl _, he⟩
    · simp only [hgt, if_false]
      exact ⟨hi + 1, rfl, Nat.le_refl _, he⟩

theorem chain_setEndAt_take {lo hi : Nat} {ps : List Pos} (h : Chain lo hi ps) :
    ∀ (i : Nat) (e : Nat), i < ps.length → (∃ s, lastPos ps = some ⟨s, (e : Int)⟩) →
      Chain lo hi ((setEndAt ps i (e : Int)).take (i + 1)) := by
  induction h with
  | nil _ => intro i e hlt; simp at hlt
  | @cons lo hi s e0 ps h1 h2 hc ih =>
    intro i e hlt ⟨sl, hlast⟩
    cases i with
    | zero =>
      simp only [setEndAt, List.take_succ_cons, List.take_zero]
      -- s ≤ e : the last stop is ≥ e0
      have hse : e0 ≤ e ∧ e ≤ hi := by
        cases ps with
        | nil =>
          simp only [lastPos, Option.some.injEq, Pos.mk.injEq] at hlast
          have := hc.le
          have h5 : e0 = e := by omega
          omega
        | cons q qs =>
          obtain ⟨s', e', h3, h4, h5⟩ := chain_last hc (by simp)
          rw [lastPos] at hlast
          rw [h3] at hlast
          simp only [Option.some.injEq, Pos.mk.injEq] at hlast
          have h6 : e' = e := by omega
          omega
      exact .cons h1 (by omega) (.nil hse.2)
    | succ j =>
      simp only [setEndAt, List.take_succ_cons]
      have hj : j < ps.length := by simpa using hlt
      cases ps with
      | nil => simp at hj
      | cons q qs =>
        rw [lastPos] at hlast
        exact .cons h1 h2 (ih j e hj ⟨sl, hlast⟩)


theorem Chain.head_le {lo hi : Nat} {p : Pos} {ps : List Pos} (h : Chain lo hi (p :: ps)) :
    p.start ≤ hi := by
  cases h with
  | cons h1 h2 hc => have := hc.le; simp only; omega

theorem close_ok (st : St) (h : Inv st) :
    ∃ fpos', (if st.infield then setLastEnd st.fpos st.runes.length else .ok st.fpos) = .ok fpos' ∧
      Chain 0 st.runes.length fpos' ∧ fpos'.length = st.fpos.length ∧
      (∀ p0 rest, st.fpos = p0 :: rest → p0.start ≤ st.runes.length ∧
        ∃ q qs, fpos' = q :: qs ∧ q.start = p0.start) := by
  unfold Inv InvF at h
  cases hin : st.infield with
  | true =>
    simp only [hin, if_true] at h ⊢
    obtain ⟨closed, a, hf, hc, ha⟩ := h
    rw [hf, setLastEnd_snoc]
    refine ⟨_, rfl, hc.snoc ha, by simp, ?_⟩
    intro p0 rest hp
    cases closed with
    | nil =>
      simp only [List.nil_append, List.cons.injEq] at hp
      rw [← hp.1]; exact ⟨ha, _, _, rfl, rfl⟩
    | cons q qs =>
      simp only [List.cons_append, List.cons.injEq] at hp
      rw [← hp.1]
      have := hc.head_le
      exact ⟨by omega, _, _, rfl, rfl⟩
  | false =>
    simp only [hin, Bool.false_eq_true, if_false] at h ⊢
    refine ⟨_, rfl, h, rfl, ?_⟩
    intro p0 rest hp
    rw [hp] at h
    exact ⟨h.head_le, _, _, hp, rfl⟩

theorem chain_head_le_last {lo hi : Nat} {p : Pos} {ps : List Pos} (h : Chain lo hi (p :: ps))
    {s e : Nat} (hl : lastPos (p :: ps) = some ⟨s, (e : Int)⟩) : p.start ≤ e := by
  cases h with
  | @cons _ _ s0 e0 _ c1 c2 c3 =>
    cases ps with
    | nil =>
      simp only [lastPos, Option.some.injEq, Pos.mk.injEq] at hl
      simp only; omega
    | cons q qs =>
      rw [lastPos] at hl
      obtain ⟨s', e', h3, h4, h5⟩ := chain_last c3 (by simp)
      rw [h3] at hl
      simp only [Option.some.injEq, Pos.mk.injEq] at hl
      simp only; omega

theorem finish_safe (ifs : List Char) (n : Int) (st : St) (h : Inv st) (hn : 1 ≤ n ∨ n = -1) :
    ∃ fs, finish ifs n st = .ok fs := by
  obtain ⟨fpos', h1, h2, h3, h4⟩ := close_ok st h
  unfold finish
  cases hf : st.fpos with
  | nil => exact ⟨[], rfl⟩
  | cons p0 rest =>
    simp only
    rw [hf] at h1 h3
    rw [h1]
    simp only
    have hne : fpos' ≠ [] := by
      intro he; rw [he] at h3; simp at h3
    obtain ⟨sl, el, hl1, hl2, hl3⟩ := chain_last h2 hne
    rw [hl1]
    simp only
    by_cases hn1 : n = 1
    · subst hn1
      simp only [beq_self_eq_true, if_true]
      obtain ⟨hp0, q, qs, hq1, hq2⟩ := h4 p0 rest hf
      obtain ⟨lo, hlo1, hlo2⟩ := loLoop_ok ifs st.runes p0.start hp0 p0.start 0 (Nat.zero_le _)
      obtain ⟨hi, hhi1, hhi2, hhi3⟩ := hiLoop_ok ifs st.runes el st.runes.length (Nat.le_refl _) hl3
      rw [hlo1, hhi1]
      simp only
      have hp0el : p0.start ≤ el := by
        rw [hq1] at h2 hl1
        rw [← hq2]
        exact chain_head_le_last h2 hl1
      rw [sliceAll, sliceRunes_ok st.runes lo hi (by omega) hhi2]
      simp only [sliceAll]
      exact ⟨_, rfl⟩
    · have hb : (n == 1) = false := by simpa using hn1
      simp only [hb, Bool.false_eq_true, if_false]
      by_cases hc : (n != -1 && decide (n < (fpos'.length : Int))) = true
      · simp only [hc, if_true]
        have hnn : 1 ≤ n := by
          rcases hn with h | h
          · exact h
          · subst h; simp at hc
        have : ¬ (n - 1 < 0) := by omega
        simp only [this, if_false]
        have hlt : (n - 1).toNat < fpos'.length := by
          simp only [Bool.and_eq_true, decide_eq_true_eq] at hc
          omega
        have hch := chain_setEndAt_take h2 (n - 1).toNat el hlt ⟨sl, hl1⟩
        have he : (n - 1).toNat + 1 = n.toNat := by omega
        rw [he] at hch
        exact sliceAll_chain st.runes hch (Nat.le_refl _)
      · simp only [hc, Bool.false_eq_true, if_false]
        exact sliceAll_chain st.runes h2 (Nat.le_refl _)



theorem isolated_cons (ifs : List Char) (st : Scan) (m : MC) (s : List MC) :
    isolated ifs st (m :: s) =
      if isWs ifs m then isolated ifs st s
      else if isDelim ifs m then
        match st with
        | .afterC => isolated ifs .afterD s
        | _ => false
      else isolated ifs .afterC s := by
  cases st <;> simp [isolated]

theorem isolated_of_ws (ifs : List Char)
    (hws : ∀ c ∈ ifs, c = ' ' ∨ c = '\t' ∨ c = '\n') :
    ∀ (s : List MC) (st : Scan), st ≠ .afterD → isolated ifs st s = true
  | [], st, h => by cases st <;> simp_all [isolated]
  | m :: s, st, h => by
    rw [isolated_cons]
    by_cases hw : isWs ifs m = true
    · simp only [hw, if_true]; exact isolated_of_ws ifs hws s st h
    · have hd : isDelim ifs m = false := by
        cases hdm : isDelim ifs m with
        | false => rfl
        | true =>
          exfalso; apply hw
          simp only [isDelim, Bool.and_eq_true, Bool.not_eq_true', List.contains_iff_mem] at hdm
          have := hws m.1 (by simpa using hdm.2)
          simp only [isWs, hdm.1, Bool.not_false, Bool.true_and, Bool.and_eq_true, Bool.or_eq_true,
            beq_iff_eq, List.contains_iff_mem]
          refine ⟨?_, by simpa using hdm.2⟩
          rcases this with h | h | h <;> simp [h]
      simp only [hw, hd, Bool.false_eq_true, if_false]
      exact isolated_of_ws ifs hws s .afterC (by simp)


/-! ## Lines without a backslash: `-r` and a backslash in IFS are irrelevant -/

theorem ne_backslash_of (c : Char) (l : List Char) (h : (c :: l).contains '\\' = false) :
    (c == '\\') = false ∧ l.contains '\\' = false := by
  simp only [List.contains_cons, Bool.or_eq_false_iff] at h
  refine ⟨?_, h.2⟩
  cases hcc : (c == '\\') with
  | false => rfl
  | true =>
    have : c = '\\' := by simpa using hcc
    subst this; simp at h

theorem unescape_true (line : List Char) : unescape true line = line.map fun c => (c, false) := by
  cases line <;> rfl

theorem unescape_no_backslash : ∀ (line : List Char), line.contains '\\' = false →
    unescape false line = unescape true line
  | [], _ => by simp [unescape]
  | [c], h => by
    have hc := (ne_backslash_of c [] h).1
    simp [unescape, hc]
  | c :: d :: rest, h => by
    obtain ⟨hc, h2⟩ := ne_backslash_of c (d :: rest) h
    have ih := unescape_no_backslash (d :: rest) h2
    rw [unescape_true] at ih ⊢
    rw [unescape]
    simp only [hc, Bool.false_eq_true, if_false, ih, List.map_cons]

theorem step_no_backslash (ifs : List Char) (st : St) (r : Char) (hr : (r == '\\') = false)
    (he : st.esc = false) :
    step ifs false st r = step ifs true st r ∧
      ∀ st', step ifs true st r = .ok st' → st'.esc = false := by
  constructor
  · simp only [step, toggle, push, he, hr]
    simp
  · intro st' h
    simp only [step, toggle, push, hr] at h
    split at h
    · cases h
    · cases h; rfl

theorem loop_no_backslash (ifs : List Char) : ∀ (line : List Char) (st : St),
    line.contains '\\' = false → st.esc = false →
    loop ifs false st line = loop ifs true st line
  | [], st, _, _ => rfl
  | r :: rs, st, h, he => by
    obtain ⟨hr, h⟩ := ne_backslash_of r rs h
    obtain ⟨h1, h2⟩ := step_no_backslash ifs st r hr he
    rw [loop, loop, h1]
    cases hs : step ifs true st r with
    | error m => rfl
    | ok st' =>
      simp only
      exact loop_no_backslash ifs rs st' h (h2 st' hs)

theorem readFields_no_backslash (ifs line : List Char) (n : Int) (h : line.contains '\\' = false) :
    readFields ifs line n false = readFields ifs line n true := by
  unfold readFields
  rw [loop_no_backslash ifs line St.init h rfl]

theorem specRead_no_backslash (ifs line : List Char) (names : Option Nat)
    (h : line.contains '\\' = false) :
    specRead ifs line names false = specRead ifs line names true := by
  unfold specRead
  rw [unescape_no_backslash line h]


end ShVerif.C23
