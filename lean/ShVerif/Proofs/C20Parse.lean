import ShVerif.Proofs.C20
/-
  C20: the round trip parseArith (printArith e) = e for trees whose operands sit at the levels of the
  precedence chain (PrecOK).
-/
namespace ShVerif.C20

/-! ### unfolding equations, one per level kind -/

def isLoopLevel (l : Nat) : Bool := l = 0 || (3 ≤ l && l ≤ 12)

theorem parseLevel_loop (f l : Nat) (toks : List Tok) (hl : isLoopLevel l = true) :
    parseLevel (f + 1) l toks =
      match parseLevel f (l + 1) toks with
      | none => none
      | some (value, rest) => binLoop f l value rest := by
  rw [parseLevel]
  have h1 : l ≠ lvAssign := by intro h; subst h; simp [isLoopLevel, lvAssign] at hl
  have h2 : l ≠ lvTernary := by intro h; subst h; simp [isLoopLevel, lvTernary] at hl
  have h3 : l ≠ lvPower := by intro h; subst h; simp [isLoopLevel, lvPower] at hl
  have h4 : l ≠ lvUnary := by intro h; subst h; simp [isLoopLevel, lvUnary] at hl
  have h5 : l ≠ lvValue := by intro h; subst h; simp [isLoopLevel, lvValue] at hl
  simp only [h1, h2, h3, h4, h5, if_false]
  rfl

theorem binLoop_succ (f l : Nat) (value : Option Expr) (toks : List Tok) :
    binLoop (f + 1) l value toks =
      match symBinIn toks (levelOps l) with
      | none => some (value, toks)
      | some (o, rest) =>
        match value, parseLevel f (l + 1) rest with
        | some v, some (some y, rest') => binLoop f l (some (.binary o v y)) rest'
        | _, _ => none := by
  rw [binLoop]
  rfl

theorem parseLevel_assign (f : Nat) (toks : List Tok) :
    parseLevel (f + 1) 1 toks =
      match parseLevel f 2 toks with
      | none => none
      | some (value, rest) =>
        match symBinIn rest assignOps with
        | none => some (value, rest)
        | some (o, rest') =>
          if !isArithName value then none
          else match value, parseLevel f 1 rest' with
            | some v, some (some y, rest'') => some (some (.binary o v y), rest'')
            | _, _ => none := by
  rw [parseLevel]
  simp only [lvAssign, lvTernary, if_true]
  rfl

theorem parseLevel_power (f : Nat) (toks : List Tok) :
    parseLevel (f + 1) 13 toks =
      match parseLevel f 14 toks with
      | none => none
      | some (value, rest) =>
        match rest with
        | .sym .power :: rest1 =>
          match value, parseLevel f 13 rest1 with
          | some v, some (some y, rest2) => some (some (.binary .pow v y), rest2)
          | _, _ => none
        | _ => some (value, rest) := by
  rw [parseLevel]
  simp [lvAssign, lvTernary, lvPower, lvUnary]
  rfl

theorem parseLevel_ternary (f : Nat) (toks : List Tok) :
    parseLevel (f + 1) 2 toks =
      match parseLevel f 3 toks with
      | none => none
      | some (value, rest) =>
        match rest with
        | .sym .quest :: rest1 =>
          match value, rest1 with
          | none, _ => none
          | _, .sym .colon :: _ => none
          | some c, _ =>
            match parseLevel f 0 rest1 with
            | some (some t, .sym .colon :: rest2) =>
              match parseLevel f 2 rest2 with
              | some (some fe, rest3) =>
                some (some (.binary .ternQuest c (.binary .ternColon t fe)), rest3)
              | _ => none
            | _ => none
        | _ => some (value, rest) := by
  rw [parseLevel]
  simp [lvAssign, lvTernary, lvLor, lvComma]
  rfl

/-- the prefix-unary case of level 14 -/
def unarySym : Tok → Option UnOp
  | .sym .exclMark => some .not
  | .sym .tilde => some .bitNeg
  | .sym .plus => some .plus
  | .sym .minus => some .minus
  | _ => none

theorem parseLevel_unary_op (f : Nat) (t : Tok) (rest : List Tok) (op : UnOp)
    (h : unarySym t = some op) :
    parseLevel (f + 1) 14 (t :: rest) =
      match parseLevel f 14 rest with
      | some (some x, rest') => some (some (.unary op false x), rest')
      | _ => none := by
  rw [parseLevel]
  cases t with
  | sym s => cases s <;> simp [unarySym] at h <;> subst h <;>
      simp [lvAssign, lvTernary, lvPower, lvUnary] <;> rfl
  | word w => simp [unarySym] at h
  | lparen => simp [unarySym] at h
  | rparen => simp [unarySym] at h

theorem parseLevel_unary_pass (f : Nat) (toks : List Tok)
    (h : ∀ t r, toks = t :: r → unarySym t = none) :
    parseLevel (f + 1) 14 toks = parseLevel f 15 toks := by
  rw [parseLevel]
  simp only [lvAssign, lvTernary, lvPower, lvUnary, lvValue]
  cases toks with
  | nil => simp
  | cons t r =>
    have := h t r rfl
    cases t with
    | sym s => cases s <;> simp [unarySym] at this <;> simp
    | word w => simp
    | lparen => simp
    | rparen => simp

/-- the continuation does not start with a postfix operator -/
def NoPost (rest : List Tok) : Prop :=
  ∀ r, rest ≠ .sym .addAdd :: r ∧ rest ≠ .sym .subSub :: r

theorem value_word (f : Nat) (w : Bytes) (rest : List Tok) (h : NoPost rest) :
    parseLevel (f + 1) 15 (.word w :: rest) = some (some (.word w), rest) := by
  rw [parseLevel]
  simp only [lvAssign, lvTernary, lvPower, lvUnary, lvValue]
  cases rest with
  | nil => simp
  | cons t r =>
    cases t with
    | sym s =>
      cases s <;> simp
      · exact absurd rfl (h r).1
      · exact absurd rfl (h r).2
    | word w => simp
    | lparen => simp
    | rparen => simp

theorem value_postinc (f : Nat) (n : Bytes) (op : UnOp) (rest : List Tok) (hn : validName n = true)
    (hop : op = .inc ∨ op = .dec) :
    parseLevel (f + 1) 15 (.word n :: .sym op.sym :: rest) =
      some (some (.unary op true (.word n)), rest) := by
  rw [parseLevel]
  rcases hop with rfl | rfl <;>
    simp [lvAssign, lvTernary, lvPower, lvUnary, lvValue, UnOp.sym, isArithName, hn]

theorem value_preinc (f : Nat) (n : Bytes) (op : UnOp) (rest : List Tok)
    (hop : op = .inc ∨ op = .dec) (hn : validName n = true) (h : NoPost rest) :
    parseLevel (f + 2) 15 (.sym op.sym :: .word n :: rest) =
      some (some (.unary op false (.word n)), rest) := by
  rw [parseLevel]
  rcases hop with rfl | rfl <;>
    simp [lvAssign, lvTernary, lvPower, lvUnary, lvValue, UnOp.sym, value_word f n rest h, isArithName, hn]

theorem value_paren (f : Nat) (x : Expr) (inner rest : List Tok) (h : NoPost rest)
    (hin : parseLevel f 0 (inner ++ .rparen :: rest) = some (some x, .rparen :: rest)) :
    parseLevel (f + 1) 15 (.lparen :: (inner ++ .rparen :: rest)) = some (some (.paren x), rest) := by
  rw [parseLevel]
  simp only [lvAssign, lvTernary, lvPower, lvUnary, lvValue, lvComma]
  simp only [hin]
  cases rest with
  | nil => simp
  | cons t r =>
    cases t with
    | sym s =>
      cases s <;> simp
      · exact absurd rfl (h r).1
      · exact absurd rfl (h r).2
    | word w => simp
    | lparen => simp
    | rparen => simp

/-! ### stop tokens -/

def opLevel (o : BinOp) : Nat := exprLevel (.binary o (.word []) (.word []))

/-- a token that ends an expression parsed at level `l`: `)`, `:`, or a binary operator of a
    looser level -/
def stopTok (l : Nat) : Tok → Bool
  | .rparen => true
  | .sym .colon => true
  | .sym s =>
    match s.bin with
    | some o => decide (opLevel o < l)
    | none => false
  | _ => false

def Stops (l : Nat) (rest : List Tok) : Prop :=
  rest = [] ∨ ∃ t r, rest = t :: r ∧ stopTok l t = true

def symHit (s : Sym) (ops : List BinOp) : Bool :=
  match s.bin with
  | some o => ops.contains o
  | none => false

theorem symBinIn_sym_none (s : Sym) (r : List Tok) (ops : List BinOp) (h : symHit s ops = false) :
    symBinIn (.sym s :: r) ops = none := by
  unfold symBinIn
  unfold symHit at h
  cases hb : s.bin with
  | none => simp [hb]
  | some o =>
    rw [hb] at h
    simp only [] at h
    have : o ∉ ops := by simpa using h
    simp [hb, this]

/-- the facts about stop symbols, checked exhaustively for levels 0..15 -/
def chkStop (s : Sym) : Bool :=
  (List.range 16).all fun l =>
    !stopTok l (.sym s) ||
      ((List.range 16).all (fun k => !(decide (l ≤ k) && isLoopLevel k) || !symHit s (levelOps k)) &&
       (!decide (l ≤ 1) || !symHit s assignOps) &&
       (!decide (l ≤ 2) || s != .quest) &&
       (!decide (l ≤ 13) || s != .power) &&
       s != .addAdd && s != .subSub &&
       (List.range 16).all (fun l' => !decide (l ≤ l') || stopTok l' (.sym s)))

theorem chkStop_all (s : Sym) : chkStop s = true := by
  cases s <;> decide

structure StopFacts (l : Nat) (rest : List Tok) : Prop where
  noPost : NoPost rest
  loop : ∀ k, l ≤ k → k ≤ 15 → isLoopLevel k = true → symBinIn rest (levelOps k) = none
  assign : l ≤ 1 → symBinIn rest assignOps = none
  quest : l ≤ 2 → ∀ r, rest ≠ .sym .quest :: r
  power : l ≤ 13 → ∀ r, rest ≠ .sym .power :: r
  mono : ∀ l', l ≤ l' → l' ≤ 15 → Stops l' rest

theorem stops_facts {l : Nat} (hl : l ≤ 15) {rest : List Tok} (h : Stops l rest) :
    StopFacts l rest := by
  rcases h with rfl | ⟨t, r, rfl, ht⟩
  · exact ⟨fun r => ⟨by simp, by simp⟩, fun _ _ _ _ => rfl, fun _ => rfl, fun _ r => by simp,
      fun _ r => by simp, fun _ _ _ => Or.inl rfl⟩
  · cases t with
    | word w => simp [stopTok] at ht
    | lparen => simp [stopTok] at ht
    | rparen =>
      exact ⟨fun r' => ⟨by simp, by simp⟩, fun _ _ _ _ => rfl, fun _ => rfl, fun _ r' => by simp,
        fun _ r' => by simp, fun l' _ _ => Or.inr ⟨_, _, rfl, rfl⟩⟩
    | sym s =>
      have hc := chkStop_all s
      unfold chkStop at hc
      rw [List.all_eq_true] at hc
      have hcl := hc l (List.mem_range.2 (by omega))
      simp only [ht, Bool.not_true, Bool.false_or, Bool.and_eq_true, List.all_eq_true,
        Bool.or_eq_true, Bool.not_eq_true', decide_eq_false_iff_not, bne_iff_ne, ne_eq,
        decide_eq_true_eq] at hcl
      obtain ⟨⟨⟨⟨⟨⟨h1, h2⟩, h3⟩, h4⟩, h5⟩, h6⟩, h7⟩ := hcl
      refine ⟨fun r' => ⟨?_, ?_⟩, ?_, ?_, ?_, ?_, ?_⟩
      · intro he; simp at he; exact h5 he.1
      · intro he; simp at he; exact h6 he.1
      · intro k hk hk15 hloop
        apply symBinIn_sym_none
        rcases h1 k (List.mem_range.2 (by omega)) with hh | hh
        · simp [hk, hloop] at hh
        · exact hh
      · intro hl1
        apply symBinIn_sym_none
        rcases h2 with hh | hh
        · exact absurd hl1 hh
        · exact hh
      · intro hl2 r' he
        simp at he
        rcases h3 with hh | hh
        · exact hh hl2
        · exact hh he.1
      · intro hl13 r' he
        simp at he
        rcases h4 with hh | hh
        · exact hh hl13
        · exact hh he.1
      · intro l' hll hl15
        refine Or.inr ⟨_, _, rfl, ?_⟩
        rcases h7 l' (List.mem_range.2 (by omega)) with hh | hh
        · exact absurd hll hh
        · exact hh

/-! ### descending through the levels -/

def ParsesFrom (F l : Nat) (toks : List Tok) (e : Expr) (rest : List Tok) : Prop :=
  ∀ f, F ≤ f → parseLevel f l toks = some (some e, rest)

theorem level_cases {l : Nat} (h : l ≤ 13) : isLoopLevel l = true ∨ l = 1 ∨ l = 2 ∨ l = 13 := by
  have : l = 0 ∨ l = 1 ∨ l = 2 ∨ l = 3 ∨ l = 4 ∨ l = 5 ∨ l = 6 ∨ l = 7 ∨ l = 8 ∨ l = 9 ∨ l = 10 ∨
      l = 11 ∨ l = 12 ∨ l = 13 := by omega
  rcases this with rfl | rfl | rfl | rfl | rfl | rfl | rfl | rfl | rfl | rfl | rfl | rfl | rfl | rfl <;>
    simp [isLoopLevel]

theorem binLoop_stop (f l : Nat) (v : Option Expr) (rest : List Tok)
    (h : symBinIn rest (levelOps l) = none) : binLoop (f + 1) l v rest = some (v, rest) := by
  rw [binLoop_succ, h]

theorem descend_one {F l : Nat} {toks : List Tok} {e : Expr} {rest : List Tok} (hl : l ≤ 13)
    (hF : 1 ≤ F) (h : ParsesFrom F (l + 1) toks e rest) (hs : StopFacts l rest) :
    ParsesFrom (F + 1) l toks e rest := by
  intro f hf
  obtain ⟨f', rfl⟩ : ∃ f', f = f' + 2 := ⟨f - 2, by omega⟩
  have h1 := h (f' + 1) (by omega)
  rcases level_cases hl with hloop | rfl | rfl | rfl
  · rw [parseLevel_loop _ _ _ hloop, h1]
    exact binLoop_stop _ _ _ _ (hs.loop l (Nat.le_refl _) (by omega) hloop)
  · rw [parseLevel_assign, h1]
    simp only [hs.assign (by omega)]
  · rw [parseLevel_ternary, h1]
    simp only []
    split
    · exact absurd rfl (hs.quest (by omega) _)
    · rfl
  · rw [parseLevel_power, h1]
    simp only []
    split
    · exact absurd rfl (hs.power (by omega) _)
    · rfl

theorem descend {L : Nat} : ∀ (d l F : Nat) {toks : List Tok} {e : Expr} {rest : List Tok},
    l + d = L → L ≤ 14 → 1 ≤ F → ParsesFrom F L toks e rest → Stops l rest →
    ParsesFrom (F + d) l toks e rest
  | 0, l, F, toks, e, rest, hd, _, _, h, _ => by
    have : l = L := by omega
    subst this
    simpa using h
  | d + 1, l, F, toks, e, rest, hd, hL, hF, h, hs => by
    have hsf := stops_facts (l := l) (by omega) hs
    have h1 := descend d (l + 1) F (by omega) hL hF h (hsf.mono (l + 1) (by omega) (by omega))
    have h2 := descend_one (l := l) (by omega) (by omega) h1 hsf
    intro f hf
    exact h2 f (by omega)

/-! ### printing -/

def ntoks (e : Expr) : Nat := (printArith e).length

theorem print_binary {op : BinOp} {s : Sym} (h : op.sym = some s) (x y : Expr) :
    printArith (.binary op x y) = printArith x ++ (.sym s :: printArith y) := by
  rw [printArith, h]
  simp

theorem print_nonempty : ∀ e : Expr, 1 ≤ ntoks e := by
  intro e
  unfold ntoks
  cases e with
  | word w => simp [printArith]
  | paren x => simp [printArith]
  | unary op post x => rw [printArith]; split <;> simp
  | binary op x y =>
    rw [printArith]
    split
    · simp; omega
    · have : 1 ≤ (printArith x).length := by
        have := print_nonempty x; unfold ntoks at this; exact this
      simp; omega

/-- operator symbol facts -/
def chkOp (o : BinOp) : Bool :=
  match o.sym with
  | none => true
  | some s =>
    s.bin == some o &&
      (!isLoopLevel (opLevel o) || (levelOps (opLevel o)).contains o) &&
      (!(o == .assgn || (assignOp o).isSome) || (assignOps.contains o && opLevel o == 1)) &&
      s != .addAdd && s != .subSub

theorem chkOp_all (o : BinOp) : chkOp o = true := by cases o <;> decide

theorem symBinIn_hit {o : BinOp} {s : Sym} (hs : o.sym = some s) (r : List Tok) (ops : List BinOp)
    (hc : ops.contains o = true) : symBinIn (.sym s :: r) ops = some (o, r) := by
  have h := chkOp_all o
  unfold chkOp at h
  rw [hs] at h
  simp only [Bool.and_eq_true, beq_iff_eq] at h
  unfold symBinIn
  simp only [h.1.1.1.1, hc, if_true]

/-! ### the induction -/

def S1 (e : Expr) : Prop :=
  ∀ l rest, l ≤ exprLevel e → Stops l rest →
    ParsesFrom (16 * ntoks e) l (printArith e ++ rest) e rest

def S2 (e : Expr) : Prop :=
  ∀ L, exprLevel e = L → isLoopLevel L = true → ∀ rest R G, Stops (L + 1) rest → 1 ≤ G →
    (∀ f2, G ≤ f2 → binLoop f2 L (some e) rest = R) →
    ∀ f, 16 * ntoks e + G ≤ f + 14 → parseLevel f L (printArith e ++ rest) = R

theorem parsesFrom_mono {F F' l : Nat} {toks : List Tok} {e : Expr} {rest : List Tok}
    (h : ParsesFrom F l toks e rest) (hle : F ≤ F') : ParsesFrom F' l toks e rest :=
  fun f hf => h f (by omega)

/-- from the value level (15) down to any level -/
theorem from_value {e : Expr} {toks rest : List Tok} {F l : Nat}
    (h15 : ParsesFrom F 15 toks e rest) (hF : 1 ≤ F)
    (hhead : ∀ t r, toks = t :: r → unarySym t = none) (hl : l ≤ 15) (hs : Stops l rest) :
    ParsesFrom (F + 15) l toks e rest := by
  by_cases h15l : l = 15
  · subst h15l; exact parsesFrom_mono h15 (by omega)
  · have h14 : ParsesFrom (F + 1) 14 toks e rest := by
      intro f hf
      obtain ⟨f', rfl⟩ : ∃ f', f = f' + 1 := ⟨f - 1, by omega⟩
      rw [parseLevel_unary_pass _ _ hhead]
      exact h15 f' (by omega)
    have := descend (L := 14) (14 - l) l (F + 1) (by omega) (by omega) (by omega) h14 hs
    exact parsesFrom_mono this (by omega)

theorem stops_of_tok {l : Nat} {t : Tok} {r : List Tok} (h : stopTok l t = true) : Stops l (t :: r) :=
  Or.inr ⟨t, r, rfl, h⟩

theorem S1_word (w : Bytes) : S1 (.word w) := by
  intro l rest hl hs
  have hsf := stops_facts (l := l) (by simp [exprLevel] at hl; omega) hs
  have h15 : ParsesFrom 1 15 (printArith (.word w) ++ rest) (.word w) rest := by
    intro f hf
    obtain ⟨f', rfl⟩ : ∃ f', f = f' + 1 := ⟨f - 1, by omega⟩
    exact value_word f' w rest hsf.noPost
  have := from_value h15 (by omega) (by intro t r ht; simp [printArith] at ht; rw [← ht.1]; rfl)
    (by simp [exprLevel] at hl; omega) hs
  exact parsesFrom_mono this (by simp [ntoks, printArith])

theorem S1_paren (x : Expr) (hx : S1 x) : S1 (.paren x) := by
  intro l rest hl hs
  have hl15 : l ≤ 15 := by simp [exprLevel] at hl; omega
  have hsf := stops_facts hl15 hs
  have hin := hx 0 (.rparen :: rest) (Nat.zero_le _) (stops_of_tok rfl)
  have e1 : printArith (.paren x) ++ rest = .lparen :: (printArith x ++ .rparen :: rest) := by
    simp [printArith]
  have h15 : ParsesFrom (16 * ntoks x + 1) 15 (printArith (.paren x) ++ rest) (.paren x) rest := by
    intro f hf
    obtain ⟨f', rfl⟩ : ∃ f', f = f' + 1 := ⟨f - 1, by omega⟩
    rw [e1]
    exact value_paren f' x _ rest hsf.noPost (hin f' (by omega))
  have := from_value h15 (by omega) (by intro t r ht; rw [e1] at ht; simp at ht; rw [← ht.1]; rfl)
    hl15 hs
  refine parsesFrom_mono this ?_
  have : ntoks (.paren x) = ntoks x + 2 := by simp [ntoks, printArith]
  omega

theorem S1_incdec (op : UnOp) (post : Bool) (n : Bytes) (hop : op = .inc ∨ op = .dec)
    (hn : validName n = true) : S1 (.unary op post (.word n)) := by
  intro l rest hl hs
  have hlev : exprLevel (.unary op post (.word n)) = 15 := by simp [exprLevel, hop]
  have hl15 : l ≤ 15 := by omega
  have hsf := stops_facts hl15 hs
  have hnt : ntoks (.unary op post (.word n)) = 2 := by
    unfold ntoks; rw [printArith]; cases post <;> simp [printArith]
  cases post with
  | true =>
    have e1 : printArith (.unary op true (.word n)) ++ rest = .word n :: .sym op.sym :: rest := by
      simp [printArith]
    have h15 : ParsesFrom 1 15 (printArith (.unary op true (.word n)) ++ rest)
        (.unary op true (.word n)) rest := by
      intro f hf
      obtain ⟨f', rfl⟩ : ∃ f', f = f' + 1 := ⟨f - 1, by omega⟩
      rw [e1]
      exact value_postinc f' n op rest hn hop
    have := from_value h15 (by omega) (by intro t r ht; rw [e1] at ht; simp at ht; rw [← ht.1]; rfl)
      hl15 hs
    exact parsesFrom_mono this (by omega)
  | false =>
    have e1 : printArith (.unary op false (.word n)) ++ rest = .sym op.sym :: .word n :: rest := by
      simp [printArith]
    have h15 : ParsesFrom 2 15 (printArith (.unary op false (.word n)) ++ rest)
        (.unary op false (.word n)) rest := by
      intro f hf
      obtain ⟨f', rfl⟩ : ∃ f', f = f' + 2 := ⟨f - 2, by omega⟩
      rw [e1]
      exact value_preinc f' n op rest hop hn hsf.noPost
    have := from_value h15 (by omega)
      (by intro t r ht; rw [e1] at ht; simp at ht; rw [← ht.1]; rcases hop with rfl | rfl <;> rfl)
      hl15 hs
    exact parsesFrom_mono this (by omega)

theorem unarySym_of {op : UnOp} (hop : ¬ (op = .inc ∨ op = .dec)) : unarySym (.sym op.sym) = some op := by
  cases op <;> simp at hop <;> rfl

theorem S1_unary (op : UnOp) (x : Expr) (hop : ¬ (op = .inc ∨ op = .dec)) (hx : S1 x)
    (hlx : 14 ≤ exprLevel x) : S1 (.unary op false x) := by
  intro l rest hl hs
  have hlev : exprLevel (.unary op false x) = 14 := by simp [exprLevel, hop]
  have hl14 : l ≤ 14 := by omega
  have hsf := stops_facts (l := l) (by omega) hs
  have hin := hx 14 rest hlx (hsf.mono 14 hl14 (by omega))
  have e1 : printArith (.unary op false x) ++ rest = .sym op.sym :: (printArith x ++ rest) := by
    simp [printArith]
  have hnt : ntoks (.unary op false x) = ntoks x + 1 := by simp [ntoks, printArith]
  have h14 : ParsesFrom (16 * ntoks x + 1) 14 (printArith (.unary op false x) ++ rest)
      (.unary op false x) rest := by
    intro f hf
    obtain ⟨f', rfl⟩ : ∃ f', f = f' + 1 := ⟨f - 1, by omega⟩
    rw [e1, parseLevel_unary_op _ _ _ _ (unarySym_of hop), hin f' (by omega)]
  have := descend (L := 14) (14 - l) l _ (by omega) (by omega) (by omega) h14 hs
  exact parsesFrom_mono this (by omega)

theorem ntoks_binary {op : BinOp} {s : Sym} (h : op.sym = some s) (x y : Expr) :
    ntoks (.binary op x y) = ntoks x + 1 + ntoks y := by
  unfold ntoks; rw [print_binary h]; simp; omega

theorem stopTok_op {o : BinOp} {s : Sym} (hs : o.sym = some s) {l : Nat} (hl : opLevel o < l)
    (hc : o ≠ .ternColon) : stopTok l (.sym s) = true := by
  have h := chkOp_all o
  unfold chkOp at h
  rw [hs] at h
  simp only [Bool.and_eq_true, beq_iff_eq] at h
  have hb := h.1.1.1.1
  cases s <;> simp [stopTok, hb, hl]

theorem S1_assign (op : BinOp) (n : Bytes) (y : Expr) (s : Sym)
    (hass : op = .assgn ∨ (assignOp op).isSome = true) (hs : op.sym = some s)
    (hn : validName n = true) (hy : S1 y) (hly : 1 ≤ exprLevel y) :
    S1 (.binary op (.word n) y) := by
  intro l rest hl hst
  have hc := chkOp_all op
  unfold chkOp at hc
  rw [hs] at hc
  simp only [Bool.and_eq_true, beq_iff_eq] at hc
  have hlevel : opLevel op = 1 ∧ assignOps.contains op = true := by
    have := hc.1.1.2
    have hb : (op == BinOp.assgn || (assignOp op).isSome) = true := by
      rcases hass with h | h
      · simp [h]
      · simp [h]
    simp [hb] at this
    exact ⟨this.2, by simpa using this.1⟩
  have hlev : exprLevel (.binary op (.word n) y) = 1 := hlevel.1
  have hl1 : l ≤ 1 := by omega
  have hsf := stops_facts (l := l) (by omega) hst
  have hnc : op ≠ .ternColon := by
    intro h; subst h; rcases hass with h | h
    · cases h
    · simp [assignOp] at h
  have hx := S1_word n 2 (.sym s :: (printArith y ++ rest)) (by simp [exprLevel])
    (stops_of_tok (stopTok_op hs (by omega) hnc))
  have hyy := hy 1 rest hly (hsf.mono 1 hl1 (by omega))
  have e1 : printArith (.binary op (.word n) y) ++ rest =
      printArith (.word n) ++ (.sym s :: (printArith y ++ rest)) := by
    rw [print_binary hs]; simp
  have hnt := ntoks_binary hs (.word n) y
  have hnw : ntoks (.word n) = 1 := by simp [ntoks, printArith]
  have h1 : ParsesFrom (16 * ntoks y + 17) 1 (printArith (.binary op (.word n) y) ++ rest)
      (.binary op (.word n) y) rest := by
    intro f hf
    obtain ⟨f', rfl⟩ : ∃ f', f = f' + 1 := ⟨f - 1, by omega⟩
    rw [e1, parseLevel_assign, hx f' (by omega)]
    simp only [symBinIn_hit hs _ _ hlevel.2, isArithName, hn, Bool.not_true, Bool.false_eq_true,
      if_false, hyy f' (by omega)]
  have := descend (L := 1) (1 - l) l _ (by omega) (by omega) (by omega) h1 hst
  exact parsesFrom_mono this (by omega)

theorem S1_pow (x y : Expr) (hx : S1 x) (hy : S1 y) (hlx : 14 ≤ exprLevel x)
    (hly : 13 ≤ exprLevel y) : S1 (.binary .pow x y) := by
  intro l rest hl hst
  have hlev : exprLevel (.binary .pow x y) = 13 := rfl
  have hl13 : l ≤ 13 := by omega
  have hsf := stops_facts (l := l) (by omega) hst
  have hxx := hx 14 (.sym .power :: (printArith y ++ rest)) hlx (stops_of_tok (by decide))
  have hyy := hy 13 rest hly (hsf.mono 13 hl13 (by omega))
  have e1 : printArith (.binary .pow x y) ++ rest =
      printArith x ++ (.sym .power :: (printArith y ++ rest)) := by
    rw [print_binary (s := .power) rfl]; simp
  have hnt := ntoks_binary (op := .pow) (s := .power) rfl x y
  have h13 : ParsesFrom (16 * ntoks x + 16 * ntoks y + 1) 13 (printArith (.binary .pow x y) ++ rest)
      (.binary .pow x y) rest := by
    intro f hf
    obtain ⟨f', rfl⟩ : ∃ f', f = f' + 1 := ⟨f - 1, by omega⟩
    rw [e1, parseLevel_power, hxx f' (by omega)]
    simp only [hyy f' (by omega)]
  have := descend (L := 13) (13 - l) l _ (by omega) (by omega) (by omega) h13 hst
  exact parsesFrom_mono this (by omega)

theorem print_head_ne_colon : ∀ (e : Expr) (tail r : List Tok),
    printArith e ++ tail ≠ .sym .colon :: r := by
  intro e
  induction e with
  | word w => intro tail r h; simp [printArith] at h
  | paren x _ => intro tail r h; simp [printArith] at h
  | unary op post x ih =>
    intro tail r h
    rw [printArith] at h
    cases post with
    | true =>
      simp only [if_true, List.append_assoc] at h
      exact ih _ _ h
    | false =>
      simp at h
      cases op <;> simp [UnOp.sym] at h
  | binary op x y ihx _ =>
    intro tail r h
    rw [printArith] at h
    split at h
    · simp only [List.append_assoc] at h; exact ihx _ _ h
    · simp only [List.append_assoc] at h; exact ihx _ _ h

theorem S1_tern (c t fe : Expr) (hc : S1 c) (ht : S1 t) (hf : S1 fe) (hlc : 3 ≤ exprLevel c)
    (hlf : 2 ≤ exprLevel fe) : S1 (.binary .ternQuest c (.binary .ternColon t fe)) := by
  intro l rest hl hst
  have hlev : exprLevel (.binary .ternQuest c (.binary .ternColon t fe)) = 2 := rfl
  have hl2 : l ≤ 2 := by omega
  have hsf := stops_facts (l := l) (by omega) hst
  have hcc := hc 3 (.sym .quest :: (printArith t ++ (.sym .colon :: (printArith fe ++ rest)))) hlc
    (stops_of_tok (by decide))
  have htt := ht 0 (.sym .colon :: (printArith fe ++ rest)) (Nat.zero_le _) (stops_of_tok (by decide))
  have hff := hf 2 rest hlf (hsf.mono 2 hl2 (by omega))
  have e1 : printArith (.binary .ternQuest c (.binary .ternColon t fe)) ++ rest =
      printArith c ++ (.sym .quest :: (printArith t ++ (.sym .colon :: (printArith fe ++ rest)))) := by
    rw [print_binary (s := .quest) rfl, print_binary (s := .colon) rfl]; simp
  have hnt : ntoks (.binary .ternQuest c (.binary .ternColon t fe)) =
      ntoks c + 1 + (ntoks t + 1 + ntoks fe) := by
    rw [ntoks_binary (s := .quest) rfl, ntoks_binary (s := .colon) rfl]
  have h2 : ParsesFrom (16 * ntoks c + 16 * ntoks t + 16 * ntoks fe + 1) 2
      (printArith (.binary .ternQuest c (.binary .ternColon t fe)) ++ rest)
      (.binary .ternQuest c (.binary .ternColon t fe)) rest := by
    intro f hf'
    obtain ⟨f', rfl⟩ : ∃ f', f = f' + 1 := ⟨f - 1, by omega⟩
    rw [e1, parseLevel_ternary, hcc f' (by omega)]
    simp only []
    split
    · rename_i heq; exact absurd heq (by simp)
    · rename_i heq _; exact absurd heq (print_head_ne_colon t _ _)
    · rename_i c' h1 h2 h3
      cases h2
      rw [htt f' (by omega)]
      simp only [hff f' (by omega)]
  have := descend (L := 2) (2 - l) l _ (by omega) (by omega) (by omega) h2 hst
  exact parsesFrom_mono this (by omega)

theorem exprLevel_binary (op : BinOp) (x y : Expr) : exprLevel (.binary op x y) = opLevel op := by
  cases op <;> rfl

theorem loop_contains {op : BinOp} {s : Sym} (hs : op.sym = some s)
    (hloop : isLoopLevel (opLevel op) = true) : (levelOps (opLevel op)).contains op = true := by
  have h := chkOp_all op
  unfold chkOp at h
  rw [hs] at h
  simp only [Bool.and_eq_true, beq_iff_eq] at h
  have := h.1.1.1.2
  simpa [hloop] using this

theorem S2_loop (op : BinOp) (x y : Expr) (s : Sym) (hs : op.sym = some s)
    (hloop : isLoopLevel (opLevel op) = true) (hx1 : S1 x) (hx2 : S2 x) (hy : S1 y)
    (hlx : opLevel op ≤ exprLevel x) (hly : opLevel op + 1 ≤ exprLevel y) :
    S2 (.binary op x y) := by
  intro L hL _ rest R G hst hG hR f hf
  rw [exprLevel_binary] at hL
  subst hL
  have hL12 : opLevel op ≤ 12 := by
    unfold isLoopLevel at hloop
    simp at hloop
    omega
  have hnc : op ≠ .ternColon := by intro h; subst h; simp [opLevel, exprLevel, isLoopLevel] at hloop
  have hcont := loop_contains hs hloop
  have e1 : printArith (.binary op x y) ++ rest =
      printArith x ++ (.sym s :: (printArith y ++ rest)) := by
    rw [print_binary hs]; simp
  have hnt := ntoks_binary hs x y
  have hst' : Stops (opLevel op + 1) (.sym s :: (printArith y ++ rest)) :=
    stops_of_tok (stopTok_op hs (by omega) hnc)
  have hyy := hy (opLevel op + 1) rest hly hst
  have step : ∀ f2, 16 * ntoks y + G + 1 ≤ f2 →
      binLoop f2 (opLevel op) (some x) (.sym s :: (printArith y ++ rest)) = R := by
    intro f2 hf2
    obtain ⟨f3, rfl⟩ : ∃ f3, f2 = f3 + 1 := ⟨f2 - 1, by omega⟩
    rw [binLoop_succ, symBinIn_hit hs _ _ hcont]
    simp only [hyy f3 (by omega)]
    exact hR f3 (by omega)
  have htx := print_nonempty x
  rw [e1]
  by_cases hcase : opLevel op + 1 ≤ exprLevel x
  · have hxx := hx1 (opLevel op + 1) _ hcase hst'
    obtain ⟨f', rfl⟩ : ∃ f', f = f' + 1 := ⟨f - 1, by omega⟩
    rw [parseLevel_loop _ _ _ hloop, hxx f' (by omega)]
    exact step f' (by omega)
  · have hxl : exprLevel x = opLevel op := by omega
    exact hx2 (opLevel op) hxl hloop _ R (16 * ntoks y + G + 1) hst' (by omega) step f (by omega)

theorem S1_loop (op : BinOp) (x y : Expr) (s : Sym) (hs : op.sym = some s)
    (hloop : isLoopLevel (opLevel op) = true) (h2 : S2 (.binary op x y)) : S1 (.binary op x y) := by
  intro l rest hl hst
  rw [exprLevel_binary] at hl
  have hL12 : opLevel op ≤ 12 := by
    unfold isLoopLevel at hloop
    simp at hloop
    omega
  have hsf := stops_facts (l := l) (by omega) hst
  have hnt := ntoks_binary hs x y
  have htx := print_nonempty x
  have hty := print_nonempty y
  have hown : ∀ rest', Stops (opLevel op) rest' →
      ParsesFrom (16 * ntoks (.binary op x y) - 13) (opLevel op)
        (printArith (.binary op x y) ++ rest') (.binary op x y) rest' := by
    intro rest' hst'
    have hsf' := stops_facts (l := opLevel op) (by omega) hst'
    intro f hf
    refine h2 (opLevel op) (exprLevel_binary op x y) hloop rest' _ 1
      (hsf'.mono _ (by omega) (by omega)) (Nat.le_refl _) ?_ f (by omega)
    intro f2 hf2
    obtain ⟨f3, rfl⟩ : ∃ f3, f2 = f3 + 1 := ⟨f2 - 1, by omega⟩
    exact binLoop_stop _ _ _ _ (hsf'.loop _ (Nat.le_refl _) (by omega) hloop)
  have h := hown rest (hsf.mono _ hl (by omega))
  have := descend (L := opLevel op) (opLevel op - l) l _ (by omega) (by omega) (by omega) h hst
  exact parsesFrom_mono this (by omega)

theorem S2_vacuous {e : Expr} (h : isLoopLevel (exprLevel e) = false) : S2 e := by
  intro L hL hloop
  rw [← hL, h] at hloop
  cases hloop

theorem assign_has_sym {op : BinOp} (h : op = .assgn ∨ (assignOp op).isSome = true) :
    ∃ s, op.sym = some s := by
  rcases h with rfl | h
  · exact ⟨_, rfl⟩
  · cases op <;> simp [assignOp] at h <;> exact ⟨_, rfl⟩

theorem rest_is_loop {op : BinOp} (h1 : ¬ (op = .assgn ∨ (assignOp op).isSome = true))
    (h2 : op ≠ .ternQuest) (h3 : op ≠ .pow) (h4 : ¬ (op = .ternColon ∨ op.sym = none)) :
    isLoopLevel (opLevel op) = true := by
  cases op <;> simp [assignOp, BinOp.sym] at h1 h2 h3 h4 <;> decide

theorem main_ind (e : Expr) :
    (PrecOK e = true → S1 e ∧ S2 e) ∧
    (PrecOKColon e = true → ∃ t f, e = .binary .ternColon t f ∧ S1 t ∧ S1 f ∧ 2 ≤ exprLevel f) := by
  induction e with
  | word w =>
    exact ⟨fun _ => ⟨S1_word w, S2_vacuous rfl⟩, fun h => by simp [PrecOKColon] at h⟩
  | paren x ih =>
    refine ⟨fun h => ?_, fun h => by simp [PrecOKColon] at h⟩
    simp only [PrecOK] at h
    exact ⟨S1_paren x (ih.1 h).1, S2_vacuous rfl⟩
  | unary op post x ih =>
    refine ⟨fun h => ?_, fun h => by simp [PrecOKColon] at h⟩
    by_cases hop : op = .inc ∨ op = .dec
    · simp only [PrecOK, hop, if_true] at h
      obtain ⟨n, rfl, hn⟩ := isNameWord_elim h
      exact ⟨S1_incdec op post n hop hn, S2_vacuous (by simp [exprLevel, hop, isLoopLevel])⟩
    · simp only [PrecOK, hop, if_false, Bool.and_eq_true, Bool.not_eq_true', decide_eq_true_eq] at h
      obtain ⟨⟨hp, hpx⟩, hlx⟩ := h
      subst hp
      exact ⟨S1_unary op x hop (ih.1 hpx).1 hlx, S2_vacuous (by simp [exprLevel, hop, isLoopLevel])⟩
  | binary op x y ihx ihy =>
    constructor
    · intro h
      by_cases hass : op = .assgn ∨ (assignOp op).isSome = true
      · simp only [PrecOK, hass, if_true, Bool.and_eq_true, decide_eq_true_eq] at h
        obtain ⟨⟨hnx, hpy⟩, hly⟩ := h
        obtain ⟨n, rfl, hn⟩ := isNameWord_elim hnx
        obtain ⟨s, hs⟩ := assign_has_sym hass
        refine ⟨S1_assign op n y s hass hs hn (ihy.1 hpy).1 hly, S2_vacuous ?_⟩
        rw [exprLevel_binary]
        rcases hass with rfl | h'
        · rfl
        · cases op <;> simp [assignOp] at h' <;> rfl
      · simp only [PrecOK, hass, if_false] at h
        by_cases ht : op = .ternQuest
        · subst ht
          simp only [if_true, Bool.and_eq_true, decide_eq_true_eq] at h
          obtain ⟨⟨hpx, hlx⟩, hcol⟩ := h
          obtain ⟨t, f, rfl, ht1, hf1, hlf⟩ := ihy.2 hcol
          exact ⟨S1_tern x t f (ihx.1 hpx).1 ht1 hf1 hlx hlf, S2_vacuous rfl⟩
        · simp only [ht, if_false] at h
          by_cases hp : op = .pow
          · subst hp
            simp only [if_true, Bool.and_eq_true, decide_eq_true_eq] at h
            obtain ⟨⟨⟨hpx, hpy⟩, hlx⟩, hly⟩ := h
            exact ⟨S1_pow x y (ihx.1 hpx).1 (ihy.1 hpy).1 hlx hly, S2_vacuous rfl⟩
          · simp only [hp, if_false] at h
            by_cases hc : op = .ternColon ∨ op.sym = none
            · simp [hc] at h
            · simp only [hc, if_false, Bool.and_eq_true, decide_eq_true_eq] at h
              obtain ⟨⟨⟨hpx, hpy⟩, hlx⟩, hly⟩ := h
              rw [exprLevel_binary] at hlx hly
              have hloop := rest_is_loop hass ht hp hc
              obtain ⟨s, hs⟩ : ∃ s, op.sym = some s := by
                cases hsym : op.sym with
                | none => exact absurd (Or.inr hsym) hc
                | some s => exact ⟨s, rfl⟩
              have h2 := S2_loop op x y s hs hloop (ihx.1 hpx).1 (ihx.1 hpx).2 (ihy.1 hpy).1 hlx hly
              exact ⟨S1_loop op x y s hs hloop h2, h2⟩
    · intro h
      simp only [PrecOKColon, Bool.and_eq_true, beq_iff_eq, decide_eq_true_eq] at h
      obtain ⟨⟨⟨hop, hpt⟩, hpf⟩, hlf⟩ := h
      subst hop
      exact ⟨x, y, rfl, (ihx.1 hpt).1, (ihy.1 hpf).1, hlf⟩

theorem parse_print (e : Expr) (h : PrecOK e = true) : parseArith (printArith e) = some e := by
  have h1 := ((main_ind e).1 h).1 0 [] (Nat.zero_le _) (Or.inl rfl)
  unfold parseArith
  have hn := print_nonempty e
  unfold ntoks at hn
  have := h1 (20 * (printArith e).length + 20) (by unfold ntoks; omega)
  simp only [List.append_nil, lvComma] at this ⊢
  rw [this]

end ShVerif.C20
