import ShVerif.Proofs.C20
/-
  C20: the round trip parseArith (printArith e) = e for trees whose operands sit at the levels of the
  precedence chain (PrecOK).
-/
namespace ShVerif.C20

/-! ### unfolding equations, one per level kind -/

def isLoopLevel (l : Nat) : Bool := l = 0 || (3 ≤ l && l ≤ 12)

theorem parseLevel_loop (f l : Nat) (toks : List Tok) (hl : isLoopLevel l = true) :
    parseLevel (f + 1) l toks =
      match parseLevel f (l + 1) toks with
      | none => none
      | some (value, rest) => binLoop f l value rest := by
  rw [parseLevel]
  have h1 : l ≠ lvAssign := by intro h; subst h; simp [isLoopLevel, lvAssign] at hl
  have h2 : l ≠ lvTernary := by intro h; subst h; simp [isLoopLevel, lvTernary] at hl
  have h3 : l ≠ lvPower := by intro h; subst h; simp [isLoopLevel, lvPower] at hl
  have h4 : l ≠ lvUnary := by intro h; subst h; simp [isLoopLevel, lvUnary] at hl
  have h5 : l ≠ lvValue := by intro h; subst h; simp [isLoopLevel, lvValue] at hl
  simp only [h1, h2, h3, h4, h5, if_false]
  rfl

theorem binLoop_succ (f l : Nat) (value : Option Expr) (toks : List Tok) :
    binLoop (f + 1) l value toks =
      match symBinIn toks (levelOps l) with
      | none => some (value, toks)
      | some (o, rest) =>
        match value, parseLevel f (l + 1) rest with
        | some v, some (some y, rest') => binLoop f l (some (.binary o v y)) rest'
        | _, _ => none := by
  rw [binLoop]
  rfl

theorem parseLevel_assign (f : Nat) (toks : List Tok) :
    parseLevel (f + 1) 1 toks =
      match parseLevel f 2 toks with
      | none => none
      | some (value, rest) =>
        match symBinIn rest assignOps with
        | none => some (value, rest)
        | some (o, rest') =>
          if !isArithName value then none
          else match value, parseLevel f 1 rest' with
            | some v, some (some y, rest'') => some (some (.binary o v y), rest'')
            | _, _ => none := by
  rw [parseLevel]
  simp only [lvAssign, lvTernary, if_true]
  rfl

theorem parseLevel_power (f : Nat) (toks : List Tok) :
    parseLevel (f + 1) 13 toks =
      match parseLevel f 14 toks with
      | none => none
      | some (value, rest) =>
        match rest with
        | .sym .power :: rest1 =>
          match value, parseLevel f 13 rest1 with
          | some v, some (some y, rest2) => some (some (.binary .pow v y), rest2)
          | _, _ => none
        | _ => some (value, rest) := by
  rw [parseLevel]
  simp [lvAssign, lvTernary, lvPower, lvUnary]
  rfl

theorem parseLevel_ternary (f : Nat) (toks : List Tok) :
    parseLevel (f + 1) 2 toks =
      match parseLevel f 3 toks with
      | none => none
      | some (value, rest) =>
        match rest with
        | .sym .quest :: rest1 =>
          match value, rest1 with
          | none, _ => none
          | _, .sym .colon :: _ => none
          | some c, _ =>
            match parseLevel f 0 rest1 with
            | some (some t, .sym .colon :: rest2) =>
              match parseLevel f 2 rest2 with
              | some (some fe, rest3) =>
                some (some (.binary .ternQuest c (.binary .ternColon t fe)), rest3)
              | _ => none
            | _ => none
        | _ => some (value, rest) := by
  rw [parseLevel]
  simp [lvAssign, lvTernary, lvLor, lvComma]
  rfl

/-- the prefix-unary case of level 14 -/
def unarySym : Tok → Option UnOp
  | .sym .exclMark => some .not
  | .sym .tilde => some .bitNeg
  | .sym .plus => some .plus
  | .sym .minus => some .minus
  | _ => none

theorem parseLevel_unary_op (f : Nat) (t : Tok) (rest : List Tok) (op : UnOp)
    (h : unarySym t = some op) :
    parseLevel (f + 1) 14 (t :: rest) =
      match parseLevel f 14 rest with
      | some (some x, rest') => some (some (.unary op false x), rest')
      | _ => none := by
  rw [parseLevel]
  cases t with
  | sym s => cases s <;> simp [unarySym] at h <;> subst h <;>
      simp [lvAssign, lvTernary, lvPower, lvUnary] <;> rfl
  | word w => simp [unarySym] at h
  | lparen => simp [unarySym] at h
  | rparen => simp [unarySym] at h

theorem parseLevel_unary_pass (f : Nat) (toks : List Tok)
    (h : ∀ t r, toks = t :: r → unarySym t = none) :
    parseLevel (f + 1) 14 toks = parseLevel f 15 toks := by
  rw [parseLevel]
  simp only [lvAssign, lvTernary, lvPower, lvUnary, lvValue]
  cases toks with
  | nil => simp
  | cons t r =>
    have := h t r rfl
    cases t with
    | sym s => cases s <;> simp [unarySym] at this <;> simp
    | word w => simp
    | lparen => simp
    | rparen => simp

/-- the continuation does not start with a postfix operator -/
def NoPost (rest : List Tok) : Prop :=
  ∀ r, rest ≠ .sym .addAdd :: r ∧ rest ≠ .sym .subSub :: r

theorem value_word (f : Nat) (w : Bytes) (rest : List Tok) (h : NoPost rest) :
    parseLevel (f + 1) 15 (.word w :: rest) = some (some (.word w), rest) := by
  rw [parseLevel]
  simp only [lvAssign, lvTernary, lvPower, lvUnary, lvValue]
  cases rest with
  | nil => simp
  | cons t r =>
    cases t with
    | sym s =>
      cases s <;> simp
      · exact absurd rfl (h r).1
      · exact absurd rfl (h r).2
    | word w => simp
    | lparen => simp
    | rparen => simp

theorem value_postinc (f : Nat) (n : Bytes) (op : UnOp) (rest : List Tok) (hn : validName n = true)
    (hop : op = .inc ∨ op = .dec) :
    parseLevel (f + 1) 15 (.word n :: .sym op.sym :: rest) =
      some (some (.unary op true (.word n)), rest) := by
  rw [parseLevel]
  rcases hop with rfl | rfl <;>
    simp [lvAssign, lvTernary, lvPower, lvUnary, lvValue, UnOp.sym, isArithName, hn]

theorem value_preinc (f : Nat) (n : Bytes) (op : UnOp) (rest : List Tok)
    (hop : op = .inc ∨ op = .dec) (h : NoPost rest) :
    parseLevel (f + 2) 15 (.sym op.sym :: .word n :: rest) =
      some (some (.unary op false (.word n)), rest) := by
  rw [parseLevel]
  rcases hop with rfl | rfl <;>
    simp [lvAssign, lvTernary, lvPower, lvUnary, lvValue, UnOp.sym, value_word f n rest h]

theorem value_paren (f : Nat) (x : Expr) (inner rest : List Tok) (h : NoPost rest)
    (hin : parseLevel f 0 (inner ++ .rparen :: rest) = some (some x, .rparen :: rest)) :
    parseLevel (f + 1) 15 (.lparen :: (inner ++ .rparen :: rest)) = some (some (.paren x), rest) := by
  rw [parseLevel]
  simp only [lvAssign, lvTernary, lvPower, lvUnary, lvValue, lvComma]
  simp only [hin]
  cases rest with
  | nil => simp
  | cons t r =>
    cases t with
    | sym s =>
      cases s <;> simp
      · exact absurd rfl (h r).1
      · exact absurd rfl (h r).2
    | word w => simp
    | lparen => simp
    | rparen => simp

/-! ### stop tokens -/

def opLevel (o : BinOp) : Nat := exprLevel (.binary o (.word []) (.word []))

/-- a token that ends an expression parsed at level `l`: `)`, `:`, or a binary operator of a
    looser level -/
def stopTok (l : Nat) : Tok → Bool
  | .rparen => true
  | .sym .colon => true
  | .sym s =>
    match s.bin with
    | some o => decide (opLevel o < l)
    | none => false
  | _ => false

def Stops (l : Nat) (rest : List Tok) : Prop :=
  rest = [] ∨ ∃ t r, rest = t :: r ∧ stopTok l t = true

def symHit (s : Sym) (ops : List BinOp) : Bool :=
  match s.bin with
  | some o => ops.contains o
  | none => false

theorem symBinIn_sym_none (s : Sym) (r : List Tok) (ops : List BinOp) (h : symHit s ops = false) :
    symBinIn (.sym s :: r) ops = none := by
  unfold symBinIn
  unfold symHit at h
  cases hb : s.bin with
  | none => simp [hb]
  | some o =>
    rw [hb] at h
    simp only [] at h
    have : o ∉ ops := by simpa using h
    simp [hb, this]

/-- the facts about stop symbols, checked exhaustively for levels 0..15 -/
def chkStop (s : Sym) : Bool :=
  (List.range 16).all fun l =>
    !stopTok l (.sym s) ||
      ((List.range 16).all (fun k => !(decide (l ≤ k) && isLoopLevel k) || !symHit s (levelOps k)) &&
       (!decide (l ≤ 1) || !symHit s assignOps) &&
       (!decide (l ≤ 2) || s != .quest) &&
       (!decide (l ≤ 13) || s != .power) &&
       s != .addAdd && s != .subSub &&
       (List.range 16).all (fun l' => !decide (l ≤ l') || stopTok l' (.sym s)))

theorem chkStop_all (s : Sym) : chkStop s = true := by
  cases s <;> decide

structure StopFacts (l : Nat) (rest : List Tok) : Prop where
  noPost : NoPost rest
  loop : ∀ k, l ≤ k → k ≤ 15 → isLoopLevel k = true → symBinIn rest (levelOps k) = none
  assign : l ≤ 1 → symBinIn rest assignOps = none
  quest : l ≤ 2 → ∀ r, rest ≠ .sym .quest :: r
  power : l ≤ 13 → ∀ r, rest ≠ .sym .power :: r
  mono : ∀ l', l ≤ l' → l' ≤ 15 → Stops l' rest

theorem stops_facts {l : Nat} (hl : l ≤ 15) {rest : List Tok} (h : Stops l rest) :
    StopFacts l rest := by
  rcases h with rfl | ⟨t, r, rfl, ht⟩
  · exact ⟨fun r => ⟨by simp, by simp⟩, fun _ _ _ _ => rfl, fun _ => rfl, fun _ r => by simp,
      fun _ r => by simp, fun _ _ _ => Or.inl rfl⟩
  · cases t with
    | word w => simp [stopTok] at ht
    | lparen => simp [stopTok] at ht
    | rparen =>
      exact ⟨fun r' => ⟨by simp, by simp⟩, fun _ _ _ _ => rfl, fun _ => rfl, fun _ r' => by simp,
        fun _ r' => by simp, fun l' _ _ => Or.inr ⟨_, _, rfl, rfl⟩⟩
    | sym s =>
      have hc := chkStop_all s
      unfold chkStop at hc
      rw [List.all_eq_true] at hc
      have hcl := hc l (List.mem_range.2 (by omega))
      simp only [ht, Bool.not_true, Bool.false_or, Bool.and_eq_true, List.all_eq_true,
        Bool.or_eq_true, Bool.not_eq_true', decide_eq_false_iff_not, bne_iff_ne, ne_eq,
        decide_eq_true_eq] at hcl
      obtain ⟨⟨⟨⟨⟨⟨h1, h2⟩, h3⟩, h4⟩, h5⟩, h6⟩, h7⟩ := hcl
      refine ⟨fun r' => ⟨?_, ?_⟩, ?_, ?_, ?_, ?_, ?_⟩
      · intro he; simp at he; exact h5 he.1
      · intro he; simp at he; exact h6 he.1
      · intro k hk hk15 hloop
        apply symBinIn_sym_none
        rcases h1 k (List.mem_range.2 (by omega)) with hh | hh
        · simp [hk, hloop] at hh
        · exact hh
      · intro hl1
        apply symBinIn_sym_none
        rcases h2 with hh | hh
        · exact absurd hl1 hh
        · exact hh
      · intro hl2 r' he
        simp at he
        rcases h3 with hh | hh
        · exact hh hl2
        · exact hh he.1
      · intro hl13 r' he
        simp at he
        rcases h4 with hh | hh
        · exact hh hl13
        · exact hh he.1
      · intro l' hll hl15
        refine Or.inr ⟨_, _, rfl, ?_⟩
        rcases h7 l' (List.mem_range.2 (by omega)) with hh | hh
        · exact absurd hll hh
        · exact hh

end ShVerif.C20
