import ShVerif.Proofs.C25
/-
  C25 — the converse direction for here-documents: when the one-pass specification leaves the
  fragment (`outside`), the staged model does not produce a result either.
-/
namespace ShVerif.C25
open ShVerif

theorem res_map_outside {α β} {f : α → β} {r : Res α} (h : r.map f = .outside) : r = .outside := by
  cases r <;> simp [Res.map] at h ⊢

theorem expandPartsQ_append_none_left (env : Env) (acc : List Part) (p : Part)
    (h : expandPartsQ env false acc = none) : expandPartsQ env false (acc ++ [p]) = none := by
  rw [expandPartsQ_append, h]

theorem expandPartsQ_append_none_right (env : Env) (acc : List Part) (p : Part)
    (h : expandPartQ env false p = none) : expandPartsQ env false (acc ++ [p]) = none := by
  rw [expandPartsQ_append, h]
  cases expandPartsQ env false acc <;> rfl

theorem flush_none (env : Env) (acc : List Part) (cur : Bytes) (h : expandPartsQ env false acc = none) :
    expandPartsQ env false (if cur.isEmpty then acc else acc ++ [.lit cur]) = none := by
  by_cases hc : cur.isEmpty = true
  · simp [hc, h]
  · simp only [hc, Bool.false_eq_true, if_false]
    exact expandPartsQ_append_none_left env acc _ h

theorem parseDoc_not_ok (env : Env) : ∀ (fuel : Nat) (input cur : Bytes) (acc : List Part),
    (hdocText env fuel input = .outside ∨ expandPartsQ env false acc = none) →
    ∀ v, finishDoc env (parseDoc fuel input cur acc) ≠ .ok v := by
  intro fuel
  induction fuel with
  | zero => intro input cur acc _ v; simp [parseDoc, finishDoc]
  | succ fuel ih =>
    intro input cur acc hyp v
    cases input with
    | nil =>
      rcases hyp with h | h
      · simp [hdocText] at h
      · simp only [parseDoc, finishDoc, flush_none env acc cur h]
        intro hh; cases hh
    | cons b rest =>
      simp only [parseDoc]
      simp only [hdocText] at hyp
      by_cases h1 : (b == 0 || b == 13 || b == bBQ) = true
      · simp [h1, finishDoc]
      · simp only [h1, Bool.false_eq_true, if_false] at hyp ⊢
        by_cases h2 : (b == bBS) = true
        · simp only [h2, if_true] at hyp ⊢
          cases rest with
          | nil =>
            simp only at hyp ⊢
            rcases hyp with h | h
            · cases h
            · simp only [finishDoc, expandPartsQ_append_none_left env acc _ h]
              intro hh; cases hh
          | cons c rest' =>
            simp only at hyp ⊢
            by_cases h3 : (c == 0 || c == 13) = true
            · simp [h3, finishDoc]
            · simp only [h3, Bool.false_eq_true, if_false] at hyp ⊢
              exact ih rest' _ acc (hyp.imp res_map_outside id) v
        · simp only [h2, Bool.false_eq_true, if_false] at hyp ⊢
          by_cases h4 : (b == bDollar) = true
          · simp only [h4, if_true] at hyp ⊢
            cases hpd : parseDollar rest with
            | err => simp [finishDoc]
            | outside => simp [finishDoc]
            | ok o =>
              simp only [hpd] at hyp ⊢
              cases o with
              | none =>
                simp only at hyp ⊢
                exact ih rest _ acc (hyp.imp res_map_outside id) v
              | some pr =>
                obtain ⟨p, r⟩ := pr
                simp only at hyp ⊢
                apply ih r [] _ _ v
                cases hev : expandPartQ env false p with
                | none => exact Or.inr (expandPartsQ_append_none_right env _ p hev)
                | some w =>
                  simp only [hev] at hyp
                  rcases hyp with h | h
                  · exact Or.inl (res_map_outside h)
                  · exact Or.inr (expandPartsQ_append_none_left env _ p (flush_none env acc cur h))
          · simp only [h4, Bool.false_eq_true, if_false] at hyp ⊢
            exact ih rest _ acc (hyp.imp res_map_outside id) v

end ShVerif.C25
