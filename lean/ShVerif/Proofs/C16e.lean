import ShVerif.Model.C16
import ShVerif.Proofs.C16
import ShVerif.Proofs.C16b
import ShVerif.Proofs.C16c
import ShVerif.Proofs.C16d
/-
  C16 — `bash_equiv_partial` with free top-level literals: outside any group, `,`, `.` and `}` are
  ordinary characters for SplitBraces (empty stack) and for bash (`brace_gobbler` at level 0
  looking for `{`), so a top-level literal may contain any byte except `{`, backslash and `$`.
-/
set_option linter.unusedSimpArgs false
set_option linter.unusedVariables false
namespace ShVerif.C16

def topLit (v : Bytes) : Bool := !v.isEmpty && v.all topByte

def canonTopPart : Part → Bool
  | .lit v => topLit v
  | .brace seq elems => canonPart (.brace seq elems)

/-- A word whose groups are well-formed (`canonPart`) and whose top-level literals are non-empty,
    never adjacent and free of `{`, backslash and `$` (but may contain `,`, `.`, `}`). -/
def canonTop : List Part → Bool
  | [] => true
  | p :: ps => canonTopPart p && canonTop ps && !(p.isLit && headIsLit ps)

theorem canonTop_cons (p : Part) (ps : List Part) (h : canonTop (p :: ps) = true) :
    canonTopPart p = true ∧ canonTop ps = true ∧ (p.isLit = true → headIsLit ps = false) := by
  simp only [canonTop, Bool.and_eq_true, Bool.not_eq_true', Bool.and_eq_false_iff] at h
  refine ⟨h.1.1, h.1.2, ?_⟩
  intro hp
  rcases h.2 with h2 | h2
  · simp [hp] at h2
  · exact h2

theorem canonTop_split (a : List Part) (s : Bool) (e : List Word) (b : List Part)
    (h : canonTop (a ++ .brace s e :: b) = true) :
    (∀ q ∈ a, canonTopPart q = true) ∧ canonPart (.brace s e) = true ∧ canonTop b = true := by
  induction a with
  | nil =>
    obtain ⟨h1, h2, _⟩ := canonTop_cons _ b h
    exact ⟨by simp, h1, h2⟩
  | cons x xs ih =>
    obtain ⟨h1, h2, _⟩ := canonTop_cons x (xs ++ .brace s e :: b) h
    obtain ⟨i1, i2, i3⟩ := ih h2
    refine ⟨?_, i2, i3⟩
    intro q hq
    simp only [List.mem_cons] at hq
    rcases hq with rfl | hq
    · exact h1
    · exact i1 q hq

/-! ### Go side -/

theorem scan_top (v : Bytes) (hv : v.all topByte = true) :
    ∀ (st : St) (pend rest : Bytes), st.stack = [] →
      scan st .normal pend (v ++ rest) = scan st .normal (pend ++ v) rest := by
  induction v with
  | nil => intro st pend rest _; simp
  | cons c v ih =>
    intro st pend rest hs
    simp only [List.all_cons, Bool.and_eq_true] at hv
    obtain ⟨h1, h2, _⟩ := topByte_ne c hv.1
    simp only [List.cons_append, scan, h1, h2, hs, if_false]
    have := ih hv.2 st (pend ++ [c]) rest hs
    simp only [List.append_assoc, List.singleton_append] at this
    split
    · exact this
    · split
      · exact this
      · split <;> exact this

theorem scanTop (u : List Part) : canonTop u = true → ∀ (st : St) (pend rest : Bytes),
    st.stack = [] →
    scan st .normal pend (render u ++ rest) = scan (feed st pend u).1 .normal (feed st pend u).2 rest := by
  induction u with
  | nil => intro _ st pend rest _; simp [feed]
  | cons p ps ih =>
    intro hc st pend rest hs
    obtain ⟨hp, hps, _⟩ := canonTop_cons p ps hc
    cases p with
    | lit v =>
      simp only [canonTopPart, topLit, Bool.and_eq_true] at hp
      simp only [render_cons, renderPart_lit, List.append_assoc, feed]
      rw [scan_top v hp.2 st pend _ hs]
      exact ih hps st (pend ++ v) rest hs
    | brace s e =>
      simp only [canonTopPart] at hp
      have h1 := scanPart (.brace s e) hp st pend (render ps ++ rest)
      simp only [render_cons, render_nil, List.append_nil] at h1
      simp only [render_cons, List.append_assoc]
      rw [h1]
      simp only [feed]
      exact ih hps _ [] rest (addParts_stack_nil _ _ (flush_stack_nil _ _ hs))

theorem topLit_ne_nil (v : Bytes) (h : topLit v = true) : v ≠ [] := by
  intro hv; subst hv; simp [topLit] at h

theorem feed_flush_top (u : List Part) : canonTop u = true → ∀ (st : St) (pend : Bytes),
    (pend = [] ∨ headIsLit u = false) →
    (feed st pend u).1.flush (feed st pend u).2 = (st.flush pend).addParts u := by
  induction u with
  | nil => intro _ st pend _; simp [feed, addParts_nil]
  | cons p ps ih =>
    intro hc st pend hp
    obtain ⟨hcp, hcps, hadj⟩ := canonTop_cons p ps hc
    cases p with
    | lit v =>
      have hpend : pend = [] := by
        rcases hp with h | h
        · exact h
        · simp [headIsLit] at h
      subst hpend
      simp only [canonTopPart] at hcp
      simp only [feed, List.nil_append]
      rw [ih hcps st v (Or.inr (hadj rfl)), flush_ne_nil _ _ (topLit_ne_nil v hcp), flush_nil,
        St.add, addParts_addParts]
      rfl
    | brace s e =>
      simp only [feed]
      rw [ih hcps _ [] (Or.inl rfl), flush_nil, St.add, addParts_addParts]
      rfl

theorem render_lits_top (a : List Part) (ha : a.all Part.isLit = true)
    (hc : ∀ q ∈ a, canonTopPart q = true) : (render a).all topByte = true := by
  induction a with
  | nil => simp
  | cons x xs ih =>
    cases x with
    | lit v =>
      have hv := hc (.lit v) (by simp)
      simp only [canonTopPart, topLit, Bool.and_eq_true] at hv
      simp only [List.all_cons, isLit_lit, Bool.true_and] at ha
      simp only [render_cons, renderPart_lit, List.all_append, Bool.and_eq_true]
      exact ⟨hv.2, ih ha (fun q hq => hc q (by simp [hq]))⟩
    | brace s e => simp at ha

theorem canonTop_parts (t : List Part) (hc : canonTop t = true) : ∀ q ∈ t, canonTopPart q = true := by
  induction t with
  | nil => intro q hq; cases hq
  | cons x xs ih =>
    obtain ⟨h1, h2, _⟩ := canonTop_cons x xs hc
    intro q hq
    simp only [List.mem_cons] at hq
    rcases hq with rfl | hq
    · exact h1
    · exact ih h2 q hq

theorem split_canonTop_denot (t : List Part) (hc : canonTop t = true) :
    denot (splitBraces (render t)).1 = denot t := by
  cases hb : hasBrace t with
  | true =>
    have : splitBraces (render t) = (t, true) := by
      unfold splitBraces
      rw [if_neg (by simpa using mem_render_of_hasBrace t hb)]
      have hscan := scanTop t hc ⟨[], []⟩ [] [] rfl
      simp only [List.append_nil] at hscan
      simp only [hscan, scan]
      have hff := feed_flush_top t hc ⟨[], []⟩ [] (Or.inl rfl)
      rw [flush_nil] at hff
      have htop : (St.addParts ⟨[], []⟩ t) = ⟨t, []⟩ := by simp [St.addParts]
      rw [htop] at hff
      rw [hff]
      simp [unwind, hb]
    rw [this]
  | false =>
    have hall := allLit_of_not_hasBrace t hb
    have htb := render_lits_top t hall (canonTop_parts t hc)
    have hnm : cLB ∉ render t := by
      intro hm
      have := (topByte_ne cLB (List.all_eq_true.mp htb cLB hm)).1
      exact this rfl
    unfold splitBraces
    rw [if_pos hnm]
    simp only
    rw [denot_allLit t hall]; simp [cross_single_left]

/-! ### bash side -/

theorem bash_canonTop : ∀ (fuel : Nat) (t : List Part), canonTop t = true →
    (render t).length < fuel → bashRec fuel (render t) = denot t := by
  intro fuel
  induction fuel with
  | zero => intro t _ h; omega
  | succ fuel ih =>
    intro t hc hlen
    cases hsp : splitAtBrace t with
    | mk left o =>
      cases o with
      | none =>
        obtain ⟨hl, hall⟩ := splitAtBrace_none t left hsp
        subst hl
        have hsafe : (render left).all topByte = true := by
          apply render_lits_top left hall
          clear hsp hall hlen
          induction left with
          | nil => intro q hq; cases hq
          | cons x xs ihx =>
            obtain ⟨h1, h2, _⟩ := canonTop_cons x xs hc
            intro q hq
            simp only [List.mem_cons] at hq
            rcases hq with rfl | hq
            · exact h1
            · exact ihx h2 q hq
        simp only [bashRec, findBrace_top _ _ _ hsafe]
        rw [denot_allLit left hall]
      | some tr =>
        obtain ⟨seq, elems, rest⟩ := tr
        obtain ⟨hteq, hleft⟩ := splitAtBrace_some t left seq elems rest hsp
        subst hteq
        obtain ⟨hcl, hcp, hcr⟩ := canonTop_split left seq elems rest hc
        have hap := seqsAgreePart_of_canon _ hcp
        have hpre := render_lits_top left hleft hcl
        have hden : denot (left ++ Part.brace seq elems :: rest) =
            (cross (denotPart (.brace seq elems)) (denot rest)).map (render left ++ ·) := by
          rw [denot_append, denot_allLit left hleft, cross_single_left, denot_cons]
        have hrestlen : (render rest).length < fuel := by
          simp only [render_append, render_cons, renderPart_brace, List.length_append,
            List.length_cons] at hlen
          omega
        have hpost : (if render rest = [] then [[]] else bashRec fuel (render rest)) = denot rest := by
          have := ih rest hcr hrestlen
          split
          · rename_i he
            rw [he, bashRec_nil] at this
            exact this
          · exact this
        cases seq with
        | false =>
          simp only [canonPart, Bool.false_eq_true, if_false, Bool.and_eq_true,
            decide_eq_true_eq] at hcp
          simp only [seqsAgreePart, Bool.false_eq_true, if_false] at hap
          match elems, hcp, hap with
          | [], hcp, _ => simp at hcp
          | [e], hcp, _ => simp at hcp
          | e :: e' :: es', hcp, hap =>
            obtain ⟨_, hce⟩ := hcp
            have hmemc := canonElems_mem _ hce
            have hmema := seqsAgreeElems_mem _ hap
            have hgs := gobSkipsMem _ hce
            have has := ambleSkipsMem _ hce
            -- the text
            have htext : render (left ++ Part.brace false (e :: e' :: es') :: rest) =
                render left ++ cLB :: (joinSep [cComma] (render e :: renderElems (e' :: es')) ++
                  cRB :: render rest) := by
              simp [render_append, renderPart_brace, sepOf]
            have hJ : joinSep [cComma] (render e :: renderElems (e' :: es')) =
                render e ++ cComma :: joinSep [cComma] (renderElems (e' :: es')) := by
              simp [joinSep]
            have hopen : gobbleOpen true 0 (render (left ++ Part.brace false (e :: e' :: es') :: rest)) =
                some (render left, joinSep [cComma] (render e :: renderElems (e' :: es')) ++
                  cRB :: render rest) := by
              rw [htext]
              apply go_tops_lb _ hpre
              intro _
              rw [hJ]
              intro hbad
              rcases hbad.2 with h0 | h0
              · cases hre : render e <;> simp [hre] at h0
              · cases hre : render e with
                | nil => simp [hre] at h0
                | cons c r =>
                  simp only [hre, List.cons_append, List.head?_cons, Option.some.injEq] at h0
                  exact canon_head_ne_rb e (hmemc e (by simp)) c r hre h0
            have hclose := gc_list0 (e' :: es') (fun x hx => hgs x (by simp [hx])) e
              (hgs e (by simp)) 0 (Or.inr (by simp)) (render rest)
            have hfind := findBrace_hit
              (render (left ++ Part.brace false (e :: e' :: es') :: rest)).length true _ _ _ _ _
              hopen hclose
            rw [bashRec_hit fuel _ _ _ _ hfind, hpost]
            have hcomma : hasComma (joinSep [cComma] (render e :: renderElems (e' :: es'))) = true := by
              rw [hJ]; exact hc_prefix _ (noBSWord e (hmemc e (by simp))) _
            rw [hcomma, if_pos rfl,
              sa_list0 (e' :: es') (fun x hx => has x (by simp [hx])) e (has e (by simp))]
            have helems : ((render e :: renderElems (e' :: es')).flatMap (bashRec fuel)) =
                denotElems (e :: e' :: es') := by
              have hJlen : (joinSep [cComma] (renderElems (e :: e' :: es'))).length < fuel := by
                rw [htext] at hlen
                simp only [List.length_append, List.length_cons, renderElems_cons] at hlen ⊢
                omega
              have key : ∀ (xs : List (List Part)), (∀ x ∈ xs, x ∈ e :: e' :: es') →
                  (renderElems xs).flatMap (bashRec fuel) = denotElems xs := by
                intro xs
                induction xs with
                | nil => intro _; simp
                | cons x xs ihx =>
                  intro hx
                  have hxm := hx x (by simp)
                  have hl := joinSep_length_mem [cComma] _ _ (render_mem_renderElems _ x hxm)
                  simp only [renderElems_cons, List.flatMap_cons, denotElems_cons]
                  rw [bash_canon fuel x (hmemc x hxm) (hmema x hxm) (by omega),
                    ihx (fun y hy => hx y (by simp [hy]))]
              have := key (e :: e' :: es') (fun x hx => hx)
              simpa using this
            rw [helems, hden, cross_map_left]
            simp [denotPart]
        | true =>
          simp only [canonPart, if_true, Bool.and_eq_true] at hcp
          simp only [seqsAgreePart, if_true] at hap
          obtain ⟨s, hst, hsl⟩ := seqAgree_list elems hap
          rcases seq_elems_cases elems hcp.1 hcp.2 with ⟨a, b, rfl, ha, hb⟩ | ⟨a, b, c, rfl, ha, hb, hc3⟩
          · have htext : render (left ++ Part.brace true [[Part.lit a], [Part.lit b]] :: rest) =
                render left ++ cLB :: (a ++ (dots ++ (b ++ cRB :: render rest))) := by
              simp [render_append, renderPart_brace, sepOf, joinSep]
            have hamble : joinSep dots (renderElems [[Part.lit a], [Part.lit b]]) = a ++ (dots ++ b) := by
              simp [joinSep]
            obtain ⟨x, y, hax, hx1, _, _⟩ := safe_head_ne a ha
            have hopen : gobbleOpen true 0 (render (left ++ Part.brace true [[Part.lit a], [Part.lit b]] :: rest)) =
                some (render left, a ++ (dots ++ (b ++ cRB :: render rest))) := by
              rw [htext]
              apply go_tops_lb _ hpre
              intro _ hbad
              subst hax
              rcases hbad.2 with h0 | h0
              · simp at h0
              · simp only [List.cons_append, List.head?_cons, Option.some.injEq] at h0
                exact hx1 h0
            have hfind := findBrace_hit
              (render (left ++ Part.brace true [[Part.lit a], [Part.lit b]] :: rest)).length true _ _ _ _ _
              hopen (gc_seq0_2 a b ha hb (render rest))
            rw [bashRec_hit fuel _ _ _ _ hfind, hpost, hasComma_seq2 a b ha hb]
            rw [hamble] at hst
            simp only [Bool.false_eq_true, if_false, hst, hsl]
            rw [hden, cross_map_left]
            simp [denotPart]
          · have htext : render (left ++ Part.brace true [[Part.lit a], [Part.lit b], [Part.lit c]] :: rest) =
                render left ++ cLB :: (a ++ (dots ++ (b ++ (dots ++ (c ++ cRB :: render rest))))) := by
              simp [render_append, renderPart_brace, sepOf, joinSep]
            have hamble : joinSep dots (renderElems [[Part.lit a], [Part.lit b], [Part.lit c]]) =
                a ++ (dots ++ (b ++ (dots ++ c))) := by
              simp [joinSep]
            obtain ⟨x, y, hax, hx1, _, _⟩ := safe_head_ne a ha
            have hopen : gobbleOpen true 0
                (render (left ++ Part.brace true [[Part.lit a], [Part.lit b], [Part.lit c]] :: rest)) =
                some (render left, a ++ (dots ++ (b ++ (dots ++ (c ++ cRB :: render rest))))) := by
              rw [htext]
              apply go_tops_lb _ hpre
              intro _ hbad
              subst hax
              rcases hbad.2 with h0 | h0
              · simp at h0
              · simp only [List.cons_append, List.head?_cons, Option.some.injEq] at h0
                exact hx1 h0
            have hfind := findBrace_hit
              (render (left ++ Part.brace true [[Part.lit a], [Part.lit b], [Part.lit c]] :: rest)).length
              true _ _ _ _ _ hopen (gc_seq0_3 a b c ha hb hc3 (render rest))
            rw [bashRec_hit fuel _ _ _ _ hfind, hpost, hasComma_seq3 a b c ha hb hc3]
            rw [hamble] at hst
            simp only [Bool.false_eq_true, if_false, hst, hsl]
            rw [hden, cross_map_left]
            simp [denotPart]


theorem canon_canonTop (t : List Part) (h : canon t = true) : canonTop t = true := by
  induction t with
  | nil => simp [canonTop]
  | cons p ps ih =>
    obtain ⟨hp, hps, hadj⟩ := canon_cons p ps h
    have hp' : canonTopPart p = true := by
      cases p with
      | lit v =>
        simp only [canonPart, innerLit, Bool.and_eq_true] at hp
        simp only [canonTopPart, topLit, Bool.and_eq_true]
        exact ⟨hp.1, innerOk_top v hp.2⟩
      | brace s e => simpa [canonTopPart] using hp
    simp only [canonTop, hp', ih hps, Bool.true_and, Bool.not_eq_true', Bool.and_eq_false_iff]
    cases hl : p.isLit with
    | false => exact Or.inl rfl
    | true => exact Or.inr (hadj hl)

end ShVerif.C16
