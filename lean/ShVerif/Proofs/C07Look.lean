/-
  C07 — the lookahead loops: `zshNumRange` and the stop-word test.
-/
import ShVerif.Proofs.C07Rune5
namespace ShVerif.C07
open ShVerif ShVerif.L2
set_option linter.unusedSimpArgs false

/-! ### the scan of `zshNumRange` on a prefix of the input -/

theorem dropWhile_append_cons {α : Type} (f : α → Bool) (p q : List α) {c : α} {r : List α}
    (h : p.dropWhile f = c :: r) : (p ++ q).dropWhile f = c :: (r ++ q) := by
  induction p with
  | nil => simp at h
  | cons x xs ih =>
    simp only [List.cons_append, List.dropWhile_cons] at h ⊢
    by_cases hx : f x = true
    · simp only [hx, if_true] at h ⊢
      exact ih h
    · simp only [hx] at h ⊢
      simp at h ⊢
      obtain ⟨h1, h2⟩ := h
      subst h1; subst h2
      simp

/-- a decision reached on the bytes at hand is not changed by more bytes -/
theorem zshScan_append (p q : List Byte) (h : St.zshScan p ≠ .more) :
    St.zshScan (p ++ q) = St.zshScan p := by
  unfold St.zshScan at h ⊢
  cases h1 : p.dropWhile St.isDigit with
  | nil => simp [h1] at h
  | cons c r =>
    rw [dropWhile_append_cons _ p q h1]
    simp only [h1] at h ⊢
    by_cases hc : (c != 45) = true
    · simp [hc]
    · simp only [hc] at h ⊢
      cases h2 : r.dropWhile St.isDigit with
      | nil => simp [h2] at h
      | cons d r2 =>
        rw [dropWhile_append_cons _ r q h2]

theorem zshScan_take (p : List Byte) (k : Nat) (h : St.zshScan p = .more) :
    St.zshScan (p.take k) = .more := by
  cases hk : St.zshScan (p.take k) with
  | more => rfl
  | yes =>
    have := zshScan_append (p.take k) (p.drop k) (by rw [hk]; simp)
    rw [List.take_append_drop, hk, h] at this; cases this
  | no =>
    have := zshScan_append (p.take k) (p.drop k) (by rw [hk]; simp)
    rw [List.take_append_drop, hk, h] at this; cases this

theorem zshLoop_refines (fuel : Nat) : ∀ {s a}, R s a → a.behind = none → a.halted = false →
    a.r ≠ runeEOF → 66 ≤ s.front.length + fuel → 1 ≤ fuel →
    (St.zshScan a.rest = .yes → St.zshScan (a.rest.take 64) = .yes) →
    ∃ s', St.zshLoop fuel s = .ok (St.zshScan a.rest == .yes, s') ∧ R s' a := by
  induction fuel with
  | zero => intro s a _ _ _ _ _ h1; omega
  | succ fuel ih =>
    intro s a h hb hh hr hlen _ hcut
    have hal : a.err = none := by
      cases he : a.err with
      | none => rfl
      | some e =>
        have := (h.dead (by simp [he])).2.2.2
        rw [← h.f_r] at this; exact absurd this hr
    have hrest := (h.alive hal).1
    have hle : ¬ s.bsp > s.blen := by
      have := h.bsp_le (by rw [← h.f_r]; exact hr); omega
    unfold St.zshLoop
    simp only [hle, if_false]
    cases hsc : St.zshScan s.front with
    | yes =>
      have := zshScan_append s.front s.pending (by rw [hsc]; simp)
      rw [← hrest, hsc] at this
      exact ⟨s, by simp [this], h⟩
    | no =>
      have := zshScan_append s.front s.pending (by rw [hsc]; simp)
      rw [← hrest, hsc] at this
      exact ⟨s, by simp [this], h⟩
    | more =>
      simp only
      by_cases h64 : s.front.length ≥ 64
      · simp only [h64, if_true]
        refine ⟨s, ?_, h⟩
        have hny : St.zshScan a.rest ≠ .yes := by
          intro hy
          have h1 := hcut hy
          have h2 : a.rest.take 64 = s.front.take 64 := by
            rw [hrest, List.take_append_of_le_length h64]
          rw [h2, zshScan_take _ _ hsc] at h1
          cases h1
        simp [hny]
      · simp only [h64, if_false]
        by_cases hp : s.pending = []
        · obtain ⟨s', h1, h2, h3, _⟩ := fill_eof h hb (Or.inl hp)
          refine ⟨s', ?_, h2⟩
          have : a.rest = s.front := by rw [hrest, hp]; simp
          simp [h1, this, hsc]
        · obtain ⟨n, s', h1, hn, h2, chunk, hne, hfr, happ⟩ :=
            fill_data h hb hal hh hp (by simp [bufSize]; omega)
          have hgrow : s.front.length + 1 ≤ s'.front.length := by
            rw [hfr]; cases chunk with
            | nil => exact absurd rfl hne
            | cons x t => simp
          have hn0 : (n == 0) = false := by simp; omega
          simp only [h1, bind_ok, hn0, Bool.false_eq_true, if_false]
          exact ih h2 hb hh hr (by omega) (by omega) hcut

theorem zshNum_ok_iff (a : LSt) : a.zshNum.2.ok = true ↔
    (a.ok = true ∧ a.halted = false ∧ a.r ≠ runeEOF ∧
      (St.zshScan a.rest = .yes → St.zshScan (a.rest.take 64) = .yes)) := by
  unfold LSt.zshNum
  simp [LSt.forget]
  constructor
  · rintro ⟨⟨⟨h1, h2⟩, h3⟩, h4⟩
    refine ⟨h1, h2, h3, ?_⟩
    intro hy
    rcases h4 with h4 | h4
    · exact absurd hy h4
    · exact h4
  · rintro ⟨h1, h2, h3, h4⟩
    refine ⟨⟨⟨h1, h2⟩, h3⟩, ?_⟩
    by_cases hy : St.zshScan a.rest = .yes
    · right; exact h4 hy
    · left; exact hy

theorem zshNum_refines {s a} (h : R s a) (hok : a.zshNum.2.ok = true) :
    ∃ s', s.zshNum = .ok (a.zshNum.1, s') ∧ R s' a.zshNum.2 := by
  obtain ⟨_, hh, hr, hcut⟩ := (zshNum_ok_iff a).mp hok
  obtain ⟨s', h1, h2⟩ := zshLoop_refines 66 h.forget (forget_behind a) hh (by simpa using hr)
    (by omega) (by omega) (by simpa using hcut)
  refine ⟨s', ?_, ?_⟩
  · unfold St.zshNum LSt.zshNum
    simpa using h1
  · unfold LSt.zshNum
    exact h2.setOk _

/-! ### the stop-word test -/

theorem isPrefixOf_append_of_le (l p q : List Byte) (h : l.length ≤ p.length) :
    l.isPrefixOf (p ++ q) = l.isPrefixOf p := by
  induction l generalizing p with
  | nil => simp
  | cons x xs ih =>
    cases p with
    | nil => simp at h
    | cons y ys =>
      simp only [List.cons_append, List.isPrefixOf]
      rw [ih ys (by simpa using h)]

theorem stopFill_refines (fuel : Nat) : ∀ {s a} (need : Nat), R s a → a.behind = none →
    a.halted = false → need ≤ 4 → need + 1 ≤ s.front.length + fuel → 1 ≤ fuel →
    ∃ s', St.stopFill fuel need s = .ok s' ∧ R s' a ∧
      (need ≤ s'.front.length ∨ s'.pending = [] ∨ a.err ≠ none ∨ s'.bsp > s'.blen) := by
  induction fuel with
  | zero => intro s a need _ _ _ _ _ h1; omega
  | succ fuel ih =>
    intro s a need h hb hh hn4 hlen _
    unfold St.stopFill
    by_cases hc : s.front.length < need ∧ s.bsp ≤ s.blen
    · simp only [hc, and_self, if_true]
      by_cases hd : s.pending = [] ∨ a.err ≠ none
      · obtain ⟨s', h1, h2, h3, h4⟩ := fill_eof h hb hd
        refine ⟨s', by simp [h1], h2, ?_⟩
        rcases hd with hd | hd
        · right; left; rw [h4]; exact hd
        · right; right; left; exact hd
      · have hal : a.err = none := by
          cases he : a.err with
          | none => rfl
          | some e => exact absurd (Or.inr (by simp [he])) hd
        have hp : s.pending ≠ [] := fun hx => hd (Or.inl hx)
        obtain ⟨n, s', h1, hn, h2, chunk, hne, hfr, happ⟩ :=
          fill_data h hb hal hh hp (by simp [bufSize]; omega)
        have hgrow : s.front.length + 1 ≤ s'.front.length := by
          rw [hfr]; cases chunk with
          | nil => exact absurd rfl hne
          | cons x t => simp
        have hn0 : (n == 0) = false := by simp; omega
        simp only [h1, bind_ok, hn0, Bool.false_eq_true, if_false]
        exact ih need h2 hb hh hn4 (by omega) (by omega)
    · simp only [hc, if_false]
      refine ⟨s, rfl, h, ?_⟩
      by_cases h1 : s.front.length < need
      · right; right; right
        have : ¬ s.bsp ≤ s.blen := fun hx => hc ⟨h1, hx⟩
        omega
      · left; omega

theorem stopAt_ok_le (a : LSt) (r : Nat) (h : (a.stopAt r).2.ok = true) : a.forget.ok = true := by
  unfold LSt.stopAt at h
  simp only at h
  split at h <;> (split at h <;> simpa using h)

theorem R.halt {s a} (h : R s a) (hal : a.err = none) (hcur : s.bsp = s.back.length) :
    R { s with r := runeEOF, w := 1 } { a with r := runeEOF, w := 1, halted := true } := by
  have ha := h.alive hal
  have hl := h.look hal
  destruct_R h
  r_close

theorem stopAt_refines {s a} (h : R s a) (r : Nat) (hok : (a.stopAt r).2.ok = true) :
    ∃ s', s.stopAt r = .ok ((a.stopAt r).1, s') ∧ R s' (a.stopAt r).2 := by
  have hfo := stopAt_ok_le a r hok
  have hh : a.halted = false := forget_ok_halted hfo
  have h0 := h.forget
  have hb0 := forget_behind a
  have hh0 : a.forget.halted = false := hh
  unfold LSt.stopAt St.stopAt
  simp only
  generalize a.forget = a0 at h0 hb0 hh0 ⊢
  have hst := h0.f_stop
  have hsl := h0.stopLen
  generalize (if r ≤ 0x10FFFF then encodeRune r else []) = enc
  rw [hst]
  by_cases hc : enc.length > 0 ∧ s.stopPat.length ≥ enc.length ∧ s.stopPat.take enc.length = enc
  · simp only [hc, and_self, if_true, true_and]
    obtain ⟨s', h1, h2, h3⟩ := stopFill_refines (s.stopPat.length - enc.length + 1)
      (s.stopPat.length - enc.length) h0 hb0 hh0 (by omega) (by omega) (by omega)
    simp only [h1, bind_ok]
    have hst' : s'.stopPat = s.stopPat := by rw [← h2.f_stop, hst]
    rw [hst']
    by_cases hov : s'.bsp ≤ s'.blen
    · -- the cursor is inside the buffer: alive and `p.r` is not runeEOF
      have hal : a0.err = none := by
        cases he : a0.err with
        | none => rfl
        | some e => have := (h2.dead (by simp [he])).2.2.1; omega
      have hr : a0.r ≠ runeEOF := by
        intro hx
        have := (h2.eofR hal (by rw [← h2.f_r]; exact hx) hh0).2.2
        omega
      have hcur : s'.bsp = s'.back.length := h2.cursor_of_ne hr
      have hrest := (h2.alive hal).1
      have hpre : (s.stopPat.drop enc.length).isPrefixOf a0.rest
          = (s.stopPat.drop enc.length).isPrefixOf s'.front := by
        rw [hrest]
        rcases h3 with h3 | h3 | h3 | h3
        · exact isPrefixOf_append_of_le _ _ _ (by simp; omega)
        · rw [h3]; simp
        · exact absurd hal h3
        · omega
      simp only [hov, true_and, hr, ne_eq, not_false_eq_true, hpre]
      by_cases hp : (s.stopPat.drop enc.length).isPrefixOf s'.front = true
      · simp only [hp, if_true]
        exact ⟨_, rfl, by simpa [hst, hst'] using h2.halt hal hcur⟩
      · simp only [hp, if_false]
        exact ⟨_, rfl, h2⟩
    · have hr : a0.r = runeEOF := by
        rcases h2.cursor with hx | ⟨_, _, hx⟩
        · have := h2.blen_eq; omega
        · rw [h2.f_r]; exact hx
      simp only [hov, false_and, if_false, hr, ne_eq, not_true_eq_false, and_false, false_and]
      exact ⟨_, rfl, h2⟩
  · have hc' : ¬ (enc.length > 0 ∧ s.stopPat.length ≥ enc.length ∧ s.stopPat.take enc.length = enc ∧
        a0.r ≠ runeEOF ∧ (s.stopPat.drop enc.length).isPrefixOf a0.rest = true) := by
      intro hx; exact hc ⟨hx.1, hx.2.1, hx.2.2.1⟩
    simp only [hc, hc', if_false]
    exact ⟨_, rfl, h0⟩

end ShVerif.C07
