/-
  L4 parser lemmas: the fragment parser applied to a token list that matches the abstract token
  sequence of a (layout-annotated) tree returns that tree, positions aside.
-/
import ShVerif.Proofs.L4Lex
namespace ShVerif.L4

/-! ## Token list plumbing -/

theorem toksMatch_nil_left {tps : List TokPos} (h : toksMatch [] tps) : tps = [] := by
  cases tps with
  | nil => rfl
  | cons x xs => exact absurd h (by simp [toksMatch])

theorem toksMatch_cons {a : ATok} {as : List ATok} {tps : List TokPos} (h : toksMatch (a :: as) tps) :
    ∃ t p ts, tps = (t, p) :: ts ∧ tokMatch a t ∧ toksMatch as ts := by
  cases tps with
  | nil => exact absurd h (by simp [toksMatch])
  | cons x xs =>
    obtain ⟨t, p⟩ := x
    exact ⟨t, p, xs, rfl, h.1, h.2⟩

/-! ## Argument words -/

/-- a normalised word that is not one of the reserved words `{`, `}`, `!` -/
def NWordOK (n : List NPart) : Prop := ∀ v, n = [.lit v] → v ≠ [123] ∧ v ≠ [125] ∧ v ≠ [33]

/-- abstract tokens at which the argument loop of `callExpr` stops -/
def stopA (inSub : Bool) : ATok → Bool
  | .newl | .semi | .amp | .andAnd | .orOr | .pipe | .eof => true
  | .rparen => inSub
  | _ => false

theorem callArgs_stop (fuel : Nat) (inSub : Bool) (a : ATok) (t : Tok) (p : Pos) (ts : List TokPos) (acc : List Word)
    (hm : tokMatch a t) (hs : stopA inSub a = true) :
    callArgs (fuel + 1) inSub ⟨(t, p) :: ts⟩ acc = .ok (acc.reverse, ⟨(t, p) :: ts⟩) := by
  cases a <;> simp [stopA] at hs <;> simp only [tokMatch] at hm <;> subst hm <;> simp [callArgs, PS.tok, hs]

theorem callArgs_ok (ns : List (List NPart)) (hok : ∀ n ∈ ns, NWordOK n) (inSub : Bool) (k : List ATok)
    (hk : ∃ a rest, k = a :: rest ∧ stopA inSub a = true) :
    ∀ (tps : List TokPos) (acc : List Word) (fuel : Nat), fuel ≥ ns.length + 1 →
      toksMatch (ns.map ATok.word ++ k) tps →
      ∃ ws tps', callArgs fuel inSub ⟨tps⟩ acc = .ok (acc.reverse ++ ws, ⟨tps'⟩) ∧
        ws.map Word.norm = ns ∧ toksMatch k tps' := by
  induction ns with
  | nil =>
    intro tps acc fuel hf hm
    obtain ⟨a, rest, rfl, hs⟩ := hk
    simp only [List.map_nil, List.nil_append] at hm
    obtain ⟨t, p, ts, rfl, hma, hmr⟩ := toksMatch_cons hm
    cases fuel with
    | zero => simp at hf
    | succ n =>
      refine ⟨[], (t, p) :: ts, ?_, rfl, ⟨hma, hmr⟩⟩
      rw [callArgs_stop n inSub a t p ts acc hma hs]
      simp
  | cons n ns ih =>
    intro tps acc fuel hf hm
    simp only [List.map_cons, List.cons_append] at hm
    obtain ⟨t, p, ts, rfl, hma, hmr⟩ := toksMatch_cons hm
    obtain ⟨w, lit, rfl, hnorm, hlit⟩ := hma
    have hn := hok n (by simp)
    cases fuel with
    | zero => simp at hf
    | succ f =>
      obtain ⟨ws, tps', h1, h2, h3⟩ := ih (fun m hm' => hok m (by simp [hm'])) ts (w :: acc) f
        (by simp only [List.length_cons] at hf; omega) hmr
      refine ⟨w :: ws, tps', ?_, ?_, h3⟩
      · have hstep : callArgs (f + 1) inSub ⟨(Tok.word w lit, p) :: ts⟩ acc = callArgs f inSub ⟨ts⟩ (w :: acc) := by
          cases lit with
          | none => simp [callArgs, PS.tok, PS.next]
          | some v =>
            obtain ⟨e1, e2, e3⟩ := hn v (hlit v rfl)
            simp [callArgs, PS.tok, PS.next, e1, e2, e3]
        rw [hstep, h1]
        simp
      · simp only [List.map_cons, h2, Word.norm, normParts_eq, hnorm]

end ShVerif.L4
