/-
  L4 parser lemmas: the fragment parser applied to a token list that matches the abstract token
  sequence of a (layout-annotated) tree returns that tree, positions aside.
-/
import ShVerif.Proofs.L4Lex
namespace ShVerif.L4

/-! ## Token list plumbing -/

theorem toksMatch_nil_left {tps : List TokPos} (h : toksMatch [] tps) : tps = [] := by
  cases tps with
  | nil => rfl
  | cons x xs => exact absurd h (by simp [toksMatch])

theorem toksMatch_length : ∀ {as : List ATok} {tps : List TokPos}, toksMatch as tps → tps.length = as.length
  | [], [], _ => rfl
  | [], _ :: _, h => absurd h (by simp [toksMatch])
  | _ :: _, [], h => absurd h (by simp [toksMatch])
  | _ :: as, (_, _) :: ts, h => by
    have := toksMatch_length (as := as) (tps := ts) h.2
    simp [this]

theorem toksMatch_cons {a : ATok} {as : List ATok} {tps : List TokPos} (h : toksMatch (a :: as) tps) :
    ∃ t p ts, tps = (t, p) :: ts ∧ tokMatch a t ∧ toksMatch as ts := by
  cases tps with
  | nil => exact absurd h (by simp [toksMatch])
  | cons x xs =>
    obtain ⟨t, p⟩ := x
    exact ⟨t, p, xs, rfl, h.1, h.2⟩

/-! ## Argument words -/

/-- a normalised word that is not one of the reserved words `{`, `}`, `!` -/
def NWordOK (n : List NPart) : Prop := ∀ v, n = [.lit v] → v ≠ [123] ∧ v ≠ [125] ∧ v ≠ [33]

/-- abstract tokens at which the argument loop of `callExpr` stops -/
def stopA (inSub : Bool) : ATok → Bool
  | .newl | .semi | .amp | .andAnd | .orOr | .pipe | .eof => true
  | .rparen => inSub
  | _ => false

theorem callArgs_stop (fuel : Nat) (inSub : Bool) (a : ATok) (t : Tok) (p : Pos) (ts : List TokPos) (acc : List Word)
    (hm : tokMatch a t) (hs : stopA inSub a = true) :
    callArgs (fuel + 1) inSub ⟨(t, p) :: ts⟩ acc = .ok (acc.reverse, ⟨(t, p) :: ts⟩) := by
  cases a <;> simp [stopA] at hs <;> simp only [tokMatch] at hm <;> subst hm <;> simp [callArgs, PS.tok, hs]

theorem callArgs_ok (ns : List (List NPart)) (hok : ∀ n ∈ ns, NWordOK n) (inSub : Bool) (k : List ATok)
    (hk : ∃ a rest, k = a :: rest ∧ stopA inSub a = true) :
    ∀ (tps : List TokPos) (acc : List Word) (fuel : Nat), fuel ≥ ns.length + 1 →
      toksMatch (ns.map ATok.word ++ k) tps →
      ∃ ws tps', callArgs fuel inSub ⟨tps⟩ acc = .ok (acc.reverse ++ ws, ⟨tps'⟩) ∧
        ws.map Word.norm = ns ∧ toksMatch k tps' := by
  induction ns with
  | nil =>
    intro tps acc fuel hf hm
    obtain ⟨a, rest, rfl, hs⟩ := hk
    simp only [List.map_nil, List.nil_append] at hm
    obtain ⟨t, p, ts, rfl, hma, hmr⟩ := toksMatch_cons hm
    cases fuel with
    | zero => simp at hf
    | succ n =>
      refine ⟨[], (t, p) :: ts, ?_, rfl, ⟨hma, hmr⟩⟩
      rw [callArgs_stop n inSub a t p ts acc hma hs]
      simp
  | cons n ns ih =>
    intro tps acc fuel hf hm
    simp only [List.map_cons, List.cons_append] at hm
    obtain ⟨t, p, ts, rfl, hma, hmr⟩ := toksMatch_cons hm
    obtain ⟨w, lit, rfl, hnorm, hlit⟩ := hma
    have hn := hok n (by simp)
    cases fuel with
    | zero => simp at hf
    | succ f =>
      obtain ⟨ws, tps', h1, h2, h3⟩ := ih (fun m hm' => hok m (by simp [hm'])) ts (w :: acc) f
        (by simp only [List.length_cons] at hf; omega) hmr
      refine ⟨w :: ws, tps', ?_, ?_, h3⟩
      · have hstep : callArgs (f + 1) inSub ⟨(Tok.word w lit, p) :: ts⟩ acc = callArgs f inSub ⟨ts⟩ (w :: acc) := by
          cases lit with
          | none => simp [callArgs, PS.tok, PS.next]
          | some v =>
            obtain ⟨e1, e2, e3⟩ := hn v (hlit v rfl)
            simp [callArgs, PS.tok, PS.next, e1, e2, e3]
        rw [hstep, h1]
        simp
      · simp only [List.map_cons, h2, Word.norm, normParts_eq, hnorm]


/-! ## Layout trees: the token sequences of a tree

  A layout tree is the norm tree annotated with the layout choices that matter to the parser:
  which terminator a statement has (`;`, `&`, none) and where newline tokens are. -/

inductive Term
  | none | semi | amp
deriving DecidableEq, Repr, Inhabited

def Term.toks : Term → List ATok
  | .none => []
  | .semi => [.semi]
  | .amp => [.amp]

def nlT (b : Bool) : List ATok := if b then [.newl] else []

def opA : BinOp → ATok
  | .andStmt => .andAnd
  | .orStmt => .orOr
  | .pipe => .pipe

mutual
inductive LStmt
  | mk (neg : Bool) (cmd : LCmd) (term : Term)
inductive LCmd
  | call (args : List (List NPart))
  | subshell (nl : Bool) (ss : LStmts)
  | block (nl : Bool) (ss : LStmts)
  | binary (op : BinOp) (nl : Bool) (x y : LStmt)
inductive LStmts
  | one (s : LStmt) (nl : Bool)
  | cons (s : LStmt) (nl : Bool) (rest : LStmts)
end

mutual
def LStmt.toks : LStmt → List ATok
  | .mk neg cmd term => (if neg then [.bang] else []) ++ (cmd.toks ++ term.toks)
def LCmd.toks : LCmd → List ATok
  | .call args => args.map .word
  | .subshell nl ss => .lparen :: (nlT nl ++ (ss.toks ++ [.rparen]))
  | .block nl ss => .lbrace :: (nlT nl ++ (ss.toks ++ [.rbrace]))
  | .binary op nl x y => x.toks ++ (opA op :: (nlT nl ++ y.toks))
def LStmts.toks : LStmts → List ATok
  | .one s nl => s.toks ++ nlT nl
  | .cons s nl rest => s.toks ++ (nlT nl ++ rest.toks)
end

mutual
def LStmt.norm : LStmt → NStmt
  | .mk neg cmd term => .mk neg (term == .amp) cmd.norm
def LCmd.norm : LCmd → NCmd
  | .call args => .call args
  | .subshell _ ss => .subshell ss.norm
  | .block _ ss => .block ss.norm
  | .binary op _ x y => .binary op x.norm y.norm
def LStmts.norm : LStmts → NStmts
  | .one s _ => .cons s.norm .nil
  | .cons s _ rest => .cons s.norm rest.norm
end

def LStmt.neg : LStmt → Bool
  | .mk n _ _ => n
def LStmt.cmd : LStmt → LCmd
  | .mk _ c _ => c
def LStmt.term : LStmt → Term
  | .mk _ _ t => t

def LCmd.isAndOr : LCmd → Bool
  | .binary .andStmt _ _ _ => true
  | .binary .orStmt _ _ _ => true
  | _ => false

def LCmd.isBinary : LCmd → Bool
  | .binary _ _ _ _ => true
  | _ => false

def nwordOK (n : List NPart) : Bool :=
  match n with
  | [.lit v] => v != [123] && v != [125] && v != [33]
  | _ => true

def ncmdNameOK (n : List NPart) : Bool :=
  match n with
  | [.lit v] => !isOutsideKeyword v
  | _ => true

mutual
/-- the last token of the statement is a word (then `}` may not follow directly) -/
def LStmt.endsInWord : LStmt → Bool
  | .mk _ cmd term => term == .none && cmd.endsInWord
def LCmd.endsInWord : LCmd → Bool
  | .call _ => true
  | .subshell _ _ => false
  | .block _ _ => false
  | .binary _ _ _ y => y.endsInWord
end

/-- the list may be closed by `}`: its last statement is terminated, followed by a newline, or
    does not end in a word -/
def LStmts.closable : LStmts → Bool
  | .one s nl => nl || !s.endsInWord
  | .cons _ _ rest => rest.closable

mutual
def LStmt.valid : LStmt → Bool
  | .mk neg cmd _ => cmd.valid && !(neg && cmd.isAndOr)
def LCmd.valid : LCmd → Bool
  | .call args =>
    match args with
    | [] => false
    | n :: _ => args.all nwordOK && ncmdNameOK n
  | .subshell _ ss => ss.valid
  | .block _ ss => ss.valid && ss.closable
  | .binary op _ x y =>
    x.valid && y.valid && x.term == .none && y.term == .none &&
    (match op with
     | .pipe => !x.neg && !y.neg && !x.cmd.isAndOr && !y.cmd.isBinary
     | _ => !y.cmd.isAndOr)
def LStmts.valid : LStmts → Bool
  | .one s _ => s.valid
  | .cons s nl rest => s.valid && (nl || s.term != .none) && rest.valid
end


/-! ## Simple commands -/

def Stmt.normOf (neg bg : Bool) (c : NCmd) : NStmt := .mk neg bg c

theorem nwordOK_iff {n : List NPart} (h : nwordOK n = true) : NWordOK n := by
  intro v hv
  subst hv
  simp only [nwordOK, Bool.and_eq_true, bne_iff_ne, ne_eq] at h
  exact ⟨h.1.1, h.1.2, h.2⟩

theorem mkStmt_norm (pos : Pos) (neg : Bool) (c : Cmd) : (mkStmt pos neg c).norm = .mk neg false c.norm := by
  simp [mkStmt, Stmt.norm]

theorem mkStmt_bare (pos : Pos) (neg : Bool) (c : Cmd) : (mkStmt pos neg c).bare = true := by
  simp [mkStmt, Stmt.bare, Stmt.bg, Stmt.semi, Pos.valid, Pos.zero]

/-- the follow condition: the continuation starts with a token at which a call stops -/
def headStop (inSub : Bool) (k : List ATok) : Prop := ∃ a rest, k = a :: rest ∧ stopA inSub a = true

theorem firstCmdF_call (args : List (List NPart)) (hv : (LCmd.call args).valid = true) (inSub : Bool) (pos : Pos)
    (neg : Bool) (k : List ATok) (hk : headStop inSub k) (tps : List TokPos) (fuel : Nat)
    (hf : fuel ≥ tps.length + 2) (hm : toksMatch (args.map ATok.word ++ k) tps) :
    ∃ s tps', firstCmdF fuel inSub pos neg ⟨tps⟩ = .ok (some s, ⟨tps'⟩) ∧
      s.norm = .mk neg false (.call args) ∧ s.bare = true ∧ toksMatch k tps' ∧ tps'.length < tps.length := by
  cases args with
  | nil => simp [LCmd.valid] at hv
  | cons n ns =>
    simp only [LCmd.valid, Bool.and_eq_true, List.all_eq_true] at hv
    obtain ⟨hall, hname⟩ := hv
    simp only [List.map_cons, List.cons_append] at hm
    obtain ⟨t, p, ts, rfl, hma, hmr⟩ := toksMatch_cons hm
    obtain ⟨w, lit, rfl, hnorm, hlit⟩ := hma
    have hnsok : ∀ m ∈ ns, NWordOK m := fun m hm' => nwordOK_iff (hall m (by simp [hm']))
    have hlen := toksMatch_length hmr
    simp only [List.length_append, List.length_map] at hlen
    cases fuel with
    | zero => simp at hf
    | succ f =>
      obtain ⟨ws, tps', h1, h2, h3⟩ := callArgs_ok ns hnsok inSub k hk ts [w] (f + 1)
        (by simp only [List.length_cons] at hf; omega) hmr
      have hlen' := toksMatch_length h3
      have hcall : firstCmdF (f + 1) inSub pos neg ⟨(Tok.word w lit, p) :: ts⟩ =
          .ok (some (mkStmt pos neg (.call (w :: ws))), ⟨tps'⟩) := by
        cases lit with
        | none =>
          simp only [firstCmdF, PS.tok, PS.next, List.tail_cons, h1]
          simp
        | some v =>
          have hn : n = [.lit v] := hlit v rfl
          obtain ⟨e1, e2, e3⟩ := nwordOK_iff (hall n (by simp)) v hn
          have e4 : isOutsideKeyword v = false := by
            subst hn
            simpa [ncmdNameOK] using hname
          simp only [firstCmdF, PS.tok, PS.next, List.tail_cons, h1, e4]
          simp [e1, e2, e3]
      refine ⟨_, tps', hcall, ?_, mkStmt_bare _ _ _, h3, ?_⟩
      · rw [mkStmt_norm]
        simp only [Cmd.norm, List.map_cons, h2, Word.norm, normParts_eq, hnorm]
      · simp only [List.length_cons]
        omega


/-! ## The loops return when the next token is not theirs -/

def pipeWrap (r : Except ParseErr (Stmt × PS)) : Except ParseErr (Option Stmt × PS) :=
  match r with
  | .error e => .error e
  | .ok (s, ps) => .ok (some s, ps)

def endWrap (readEnd : Bool) (r : Except ParseErr (Stmt × PS)) : Except ParseErr (Option Stmt × PS) :=
  match r with
  | .error e => .error e
  | .ok (s, ps) =>
    if readEnd then
      match ps.tok with
      | .semi => .ok (some (s.setEnd ps.pos false), ps.next)
      | .amp => .ok (some (s.setEnd ps.pos true), ps.next)
      | _ => .ok (some s, ps)
    else .ok (some s, ps)

theorem gotStmtPipeF_eq (fuel : Nat) (inSub : Bool) (pos : Pos) (neg binCmd : Bool) (ps : PS) :
    gotStmtPipeF (fuel + 1) inSub pos neg binCmd ps =
      match firstCmdF fuel inSub pos neg ps with
      | .error e => .error e
      | .ok (none, ps) => .ok (none, ps)
      | .ok (some s, ps) => pipeWrap (pipeF fuel inSub binCmd s ps) := by
  rw [gotStmtPipeF]
  rfl

/-- tokens that are not `|` -/
def ATok.notPipe : ATok → Bool
  | .pipe => false
  | _ => true

def ATok.notAndOr : ATok → Bool
  | .andAnd | .orOr => false
  | _ => true

theorem tokMatch_pipe {a : ATok} {t : Tok} (h : tokMatch a t) : (t == Tok.pipe) = !a.notPipe := by
  cases a <;> simp only [tokMatch] at h <;> (try subst h) <;> simp [ATok.notPipe]
  all_goals (obtain ⟨w, rest⟩ := h; first | (obtain ⟨lit, rfl, _⟩ := rest; simp) | (subst rest; simp))

theorem pipeF_stop (fuel : Nat) (inSub binCmd : Bool) (s : Stmt) (a : ATok) (t : Tok) (p : Pos) (ts : List TokPos)
    (hm : tokMatch a t) (ha : a.notPipe = true) :
    pipeF (fuel + 1) inSub binCmd s ⟨(t, p) :: ts⟩ = .ok (s, ⟨(t, p) :: ts⟩) := by
  have := tokMatch_pipe hm
  rw [ha] at this
  rw [pipeF]
  simp [PS.tok, this]

theorem pipeF_binCmd (fuel : Nat) (inSub : Bool) (s : Stmt) (ps : PS) :
    pipeF (fuel + 1) inSub true s ps = .ok (s, ps) := by
  rw [pipeF]
  split <;> simp

theorem andOrF_stop (fuel : Nat) (inSub binCmd : Bool) (s : Stmt) (a : ATok) (t : Tok) (p : Pos) (ts : List TokPos)
    (hm : tokMatch a t) (ha : a.notAndOr = true) :
    andOrF (fuel + 1) inSub binCmd s ⟨(t, p) :: ts⟩ = .ok (s, ⟨(t, p) :: ts⟩) := by
  rw [andOrF]
  cases a <;> simp [ATok.notAndOr] at ha <;> simp only [tokMatch] at hm <;> (try subst hm) <;> simp [PS.tok]
  all_goals (obtain ⟨w, rest⟩ := hm; first | (obtain ⟨lit, rfl, _⟩ := rest; simp) | (subst rest; simp))

theorem andOrF_binCmd (fuel : Nat) (inSub : Bool) (s : Stmt) (ps : PS) :
    andOrF (fuel + 1) inSub true s ps = .ok (s, ps) := by
  rw [andOrF]
  split <;> simp


/-! ## Follow sets and first tokens -/

/-- tokens that may follow a command: a stop token of the argument loop, or — after a command
    that does not end in a word — the `}` closing the enclosing block -/
def followTok (inSub ew : Bool) (a : ATok) : Bool := stopA inSub a || (!ew && a == .rbrace)

def headFollow (inSub ew : Bool) (k : List ATok) : Prop :=
  ∃ a rest, k = a :: rest ∧ followTok inSub ew a = true

def headFollowNP (inSub ew : Bool) (k : List ATok) : Prop :=
  ∃ a rest, k = a :: rest ∧ followTok inSub ew a = true ∧ a.notPipe = true

/-- first token of a command: a word that is not reserved, `(` or `{` -/
def startTok : ATok → Bool
  | .word n => nwordOK n
  | .lparen | .lbrace => true
  | _ => false

def LStmt.bodyToks : LStmt → List ATok
  | .mk neg cmd _ => (if neg then [.bang] else []) ++ cmd.toks

theorem LStmt.toks_eq (s : LStmt) : s.toks = s.bodyToks ++ s.term.toks := by
  cases s with
  | mk neg cmd term => simp [LStmt.toks, LStmt.bodyToks, LStmt.term]

theorem LStmt.toks_none {s : LStmt} (h : s.term = .none) : s.toks = s.bodyToks := by
  rw [LStmt.toks_eq, h]; simp [Term.toks]

theorem LCmd.start : ∀ (c : LCmd), c.valid = true → c.isAndOr = false →
    ∃ a rest, c.toks = a :: rest ∧ startTok a = true
  | .call args, hv, _ => by
    cases args with
    | nil => simp [LCmd.valid] at hv
    | cons n ns =>
      simp only [LCmd.valid, Bool.and_eq_true, List.all_eq_true] at hv
      exact ⟨.word n, ns.map .word, by simp [LCmd.toks], by simpa [startTok] using hv.1 n (by simp)⟩
  | .subshell nl ss, _, _ => ⟨.lparen, nlT nl ++ (ss.toks ++ [.rparen]), by simp [LCmd.toks], rfl⟩
  | .block nl ss, _, _ => ⟨.lbrace, nlT nl ++ (ss.toks ++ [.rbrace]), by simp [LCmd.toks], rfl⟩
  | .binary op nl (.mk xn xc xt) y, hv, hao => by
    cases op with
    | andStmt => simp [LCmd.isAndOr] at hao
    | orStmt => simp [LCmd.isAndOr] at hao
    | pipe =>
      simp only [LCmd.valid, LStmt.valid, LStmt.term, LStmt.neg, LStmt.cmd, Bool.and_eq_true, beq_iff_eq,
        Bool.not_eq_true'] at hv
      obtain ⟨⟨⟨⟨⟨hxc, _⟩, _⟩, hxt⟩, _⟩, ⟨⟨⟨hxn, _⟩, hxao⟩, _⟩⟩ := hv
      subst hxt
      subst hxn
      obtain ⟨a, rest, h1, h2⟩ := LCmd.start xc hxc hxao
      exact ⟨a, rest ++ (opA .pipe :: (nlT nl ++ y.toks)), by simp [LCmd.toks, LStmt.toks, Term.toks, h1], h2⟩

/-- a token matching a start token is no stop token and not `!` -/
theorem startTok_match {a : ATok} {t : Tok} (ha : startTok a = true) (hm : tokMatch a t) :
    t.isStop = false ∧ t.isLit [33] = false ∧
    (t == Tok.eof) = false ∧ (t == Tok.newl) = false ∧ (t == Tok.semi) = false ∧
    t.isLit [125] = false ∧ (t == Tok.rparen) = false := by
  cases a <;> simp [startTok] at ha <;> simp only [tokMatch] at hm
  · -- word
    obtain ⟨w, lit, rfl, _, hl⟩ := hm
    cases lit with
    | none => simp [Tok.isStop, Tok.isLit]
    | some v =>
      have := hl v rfl
      subst this
      simp only [nwordOK, Bool.and_eq_true, bne_iff_ne, ne_eq] at ha
      simp [Tok.isStop, Tok.isLit, ha.1.2, ha.2]
  · subst hm; simp [Tok.isStop, Tok.isLit]
  · obtain ⟨w, rfl⟩ := hm; simp [Tok.isStop, Tok.isLit]

/-! ## The claims proved by mutual induction over layout trees -/

def posValid (tps : List TokPos) : Prop := ∀ tp ∈ tps, tp.2.valid = true

/-- `firstCmdF` on a simple or compound command -/
def ClaimF (c : LCmd) : Prop :=
  ∀ (inSub : Bool) (pos : Pos) (neg : Bool) (k : List ATok) (tps : List TokPos) (fuel : Nat),
    headFollow inSub c.endsInWord k → toksMatch (c.toks ++ k) tps → posValid tps → fuel ≥ 6 * tps.length + 3 →
    ∃ s tps', firstCmdF fuel inSub pos neg ⟨tps⟩ = .ok (some s, ⟨tps'⟩) ∧ toksMatch k tps' ∧ posValid tps' ∧
      s.norm = .mk neg false c.norm ∧ s.bare = true ∧ tps'.length < tps.length

/-- `gotStmtPipeF` on a pipeline: the first command is parsed and the pipe loop goes on -/
def ClaimC (c : LCmd) : Prop :=
  ∀ (inSub : Bool) (pos : Pos) (neg : Bool) (k : List ATok) (tps : List TokPos) (fuel : Nat),
    headFollow inSub c.endsInWord k → toksMatch (c.toks ++ k) tps → posValid tps → fuel ≥ 6 * tps.length + 4 →
    ∃ s tps' fuel', gotStmtPipeF fuel inSub pos neg false ⟨tps⟩ = pipeWrap (pipeF fuel' inSub false s ⟨tps'⟩) ∧
      toksMatch k tps' ∧ posValid tps' ∧ s.norm = .mk neg false c.norm ∧ s.bare = true ∧
      fuel' ≥ 6 * tps'.length + 3 ∧ tps'.length < tps.length

/-- `getStmtF` on the body of a statement (without its terminator): the first pipeline is parsed
    and the and-or loop goes on -/
def ClaimS (s : LStmt) : Prop :=
  ∀ (inSub readEnd : Bool) (k : List ATok) (tps : List TokPos) (fuel : Nat),
    headFollowNP inSub s.cmd.endsInWord k → toksMatch (s.bodyToks ++ k) tps → posValid tps →
    fuel ≥ 6 * tps.length + 5 →
    ∃ s' tps' fuel', getStmtF fuel inSub readEnd false ⟨tps⟩ = endWrap readEnd (andOrF fuel' inSub false s' ⟨tps'⟩) ∧
      toksMatch k tps' ∧ posValid tps' ∧ s'.norm = .mk s.neg false s.cmd.norm ∧ s'.bare = true ∧
      fuel' ≥ 6 * tps'.length + 4 ∧ tps'.length < tps.length

/-- the same for an operand of `&&` / `||` (`binCmd = true`): the loop is not entered -/
def ClaimY (s : LStmt) : Prop :=
  s.cmd.isAndOr = false →
  ∀ (inSub : Bool) (k : List ATok) (tps : List TokPos) (fuel : Nat),
    headFollowNP inSub s.cmd.endsInWord k → toksMatch (s.bodyToks ++ k) tps → posValid tps →
    fuel ≥ 6 * tps.length + 5 →
    ∃ s' tps', getStmtF fuel inSub false true ⟨tps⟩ = .ok (some s', ⟨tps'⟩) ∧
      toksMatch k tps' ∧ posValid tps' ∧ s'.norm = .mk s.neg false s.cmd.norm ∧ s'.bare = true ∧
      tps'.length < tps.length

def normList : List Stmt → NStmts
  | [] => .nil
  | s :: r => .cons s.norm (normList r)

/-- what closes a statement list -/
def closerOK (inSub stopBrace closable : Bool) (a : ATok) : Bool :=
  a == .eof || (a == .rparen && inSub) || (a == .rbrace && stopBrace && closable)

/-- `stmtsF` on a statement list up to its closing token -/
def ClaimL (ss : LStmts) : Prop :=
  ∀ (inSub stopBrace gotEnd nl0 : Bool) (a : ATok) (k : List ATok) (tps : List TokPos) (acc : List Stmt) (fuel : Nat),
    (gotEnd = true ∨ nl0 = true) → closerOK inSub stopBrace ss.closable a = true →
    toksMatch (nlT nl0 ++ (ss.toks ++ a :: k)) tps → posValid tps → fuel ≥ 6 * tps.length + 6 →
    ∃ ss' tps', stmtsF fuel inSub stopBrace gotEnd ⟨tps⟩ acc = .ok (acc.reverse ++ ss', ⟨tps'⟩) ∧
      toksMatch (a :: k) tps' ∧ posValid tps' ∧ normList ss' = ss.norm ∧ ss' ≠ [] ∧ tps'.length < tps.length


/-! ## Glue lemmas -/

theorem posValid_tail {tp : TokPos} {ts : List TokPos} (h : posValid (tp :: ts)) : posValid ts :=
  fun x hx => h x (by simp [hx])

theorem claimC_of_F {c : LCmd} (hF : ClaimF c) : ClaimC c := by
  intro inSub pos neg k tps fuel hk hm hpv hf
  cases fuel with
  | zero => omega
  | succ f =>
    obtain ⟨s, tps', h1, h2, h3, h4, h5, h6⟩ := hF inSub pos neg k tps f hk hm hpv (by omega)
    refine ⟨s, tps', f, ?_, h2, h3, h4, h5, by omega, h6⟩
    rw [gotStmtPipeF_eq, h1]

theorem getStmtF_eq (fuel : Nat) (inSub readEnd binCmd : Bool) (ps : PS) :
    getStmtF (fuel + 1) inSub readEnd binCmd ps =
      (let pos := ps.pos
       let neg := ps.tok.isLit [33]
       let ps := if neg then ps.next else ps
       if neg && ps.tok.isStop then .error (.syntax "`!` cannot form a statement alone")
       else if neg && ps.tok.isLit [33] then
         .error (.syntax "cannot negate a command multiple times")
       else
         match gotStmtPipeF fuel inSub pos neg false ps with
         | .error e => .error e
         | .ok (none, ps) => .ok (none, ps)
         | .ok (some s, ps) => endWrap readEnd (andOrF fuel inSub binCmd s ps)) := by
  rw [getStmtF]
  rfl

/-- a statement whose command is a pipeline: `getStmtF` handles `!`, parses the pipeline and
    enters the and-or loop -/
theorem getStmtF_base (s : LStmt) (hv : s.valid = true) (hao : s.cmd.isAndOr = false) (hC : ClaimC s.cmd)
    (inSub readEnd binCmd : Bool) (k : List ATok) (tps : List TokPos) (fuel : Nat)
    (hk : headFollowNP inSub s.cmd.endsInWord k) (hm : toksMatch (s.bodyToks ++ k) tps) (hpv : posValid tps)
    (hf : fuel ≥ 6 * tps.length + 5) :
    ∃ s' tps' fuel', getStmtF fuel inSub readEnd binCmd ⟨tps⟩ = endWrap readEnd (andOrF fuel' inSub binCmd s' ⟨tps'⟩) ∧
      toksMatch k tps' ∧ posValid tps' ∧ s'.norm = .mk s.neg false s.cmd.norm ∧ s'.bare = true ∧
      fuel' ≥ 6 * tps'.length + 4 ∧ tps'.length < tps.length := by
  obtain ⟨neg, cmd, term⟩ := s
  simp only [LStmt.cmd, LStmt.neg] at *
  have hcv : cmd.valid = true := by
    simp only [LStmt.valid, Bool.and_eq_true] at hv
    exact hv.1
  obtain ⟨a0, rest0, hstart, hst⟩ := LCmd.start cmd hcv hao
  obtain ⟨ak, restk, rfl, hfk, hnp⟩ := hk
  have hkC : headFollow inSub cmd.endsInWord (ak :: restk) := ⟨ak, restk, rfl, hfk⟩
  cases fuel with
  | zero => omega
  | succ f =>
    cases neg with
    | false =>
      simp only [LStmt.bodyToks, Bool.false_eq_true, ↓reduceIte, List.nil_append] at hm
      have hm' := hm
      rw [hstart] at hm'
      obtain ⟨t, p, ts, rfl, hma, _⟩ := toksMatch_cons hm'
      obtain ⟨e1, e2, e3, e4, e5, e6, e7⟩ := startTok_match hst hma
      obtain ⟨s1, tps1, f1, h1, h2, h3, h4, h5, h6, h7⟩ := hC inSub p false (ak :: restk) _ f hkC hm hpv (by omega)
      obtain ⟨t1, p1, ts1, rfl, hmk, _⟩ := toksMatch_cons h2
      have hp1 : pipeF f1 inSub false s1 ⟨(t1, p1) :: ts1⟩ = .ok (s1, ⟨(t1, p1) :: ts1⟩) := by
        cases f1 with
        | zero => omega
        | succ g => exact pipeF_stop g inSub false s1 ak t1 p1 ts1 hmk hnp
      refine ⟨s1, (t1, p1) :: ts1, f, ?_, h2, h3, h4, h5, by omega, h7⟩
      rw [getStmtF_eq]
      simp only [PS.tok, e2, Bool.false_eq_true, ↓reduceIte, Bool.false_and, PS.pos]
      rw [h1, hp1]
      rfl
    | true =>
      simp only [LStmt.bodyToks, ↓reduceIte, List.cons_append] at hm
      obtain ⟨tb, pb, tsb, rfl, hmb, hmrest⟩ := toksMatch_cons hm
      obtain ⟨wb, rfl⟩ := hmb
      have hm' := hmrest
      rw [hstart] at hm'
      obtain ⟨t, p, ts, rfl, hma, _⟩ := toksMatch_cons hm'
      obtain ⟨e1, e2, e3, e4, e5, e6, e7⟩ := startTok_match hst hma
      obtain ⟨s1, tps1, f1, h1, h2, h3, h4, h5, h6, h7⟩ := hC inSub pb true (ak :: restk) _ f hkC hmrest
        (posValid_tail hpv) (by simp only [List.length_cons] at hf ⊢; omega)
      obtain ⟨t1, p1, ts1, rfl, hmk, _⟩ := toksMatch_cons h2
      have hp1 : pipeF f1 inSub false s1 ⟨(t1, p1) :: ts1⟩ = .ok (s1, ⟨(t1, p1) :: ts1⟩) := by
        cases f1 with
        | zero => omega
        | succ g => exact pipeF_stop g inSub false s1 ak t1 p1 ts1 hmk hnp
      refine ⟨s1, (t1, p1) :: ts1, f, ?_, h2, h3, h4, h5, ?_, ?_⟩
      · rw [getStmtF_eq]
        simp only [PS.tok, PS.pos, PS.next, List.tail_cons, Tok.isLit, beq_self_eq_true, ↓reduceIte, Bool.true_and,
          e1, Bool.false_eq_true]
        have e2' := e2
        simp only [Tok.isLit] at e2'
        simp only [e2', Bool.false_eq_true, ↓reduceIte]
        rw [h1, hp1]
        rfl
      · simp only [List.length_cons] at hf h7 ⊢; omega
      · simp only [List.length_cons] at h7 ⊢; omega

end ShVerif.L4
