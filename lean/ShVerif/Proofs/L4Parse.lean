/-
  L4 parser lemmas: the fragment parser applied to a token list that matches the abstract token
  sequence of a (layout-annotated) tree returns that tree, positions aside.
-/
import ShVerif.Proofs.L4Lex
namespace ShVerif.L4

/-! ## Token list plumbing -/

theorem toksMatch_nil_left {tps : List TokPos} (h : toksMatch [] tps) : tps = [] := by
  cases tps with
  | nil => rfl
  | cons x xs => exact absurd h (by simp [toksMatch])

theorem toksMatch_length : ∀ {as : List ATok} {tps : List TokPos}, toksMatch as tps → tps.length = as.length
  | [], [], _ => rfl
  | [], _ :: _, h => absurd h (by simp [toksMatch])
  | _ :: _, [], h => absurd h (by simp [toksMatch])
  | _ :: as, (_, _) :: ts, h => by
    have := toksMatch_length (as := as) (tps := ts) h.2
    simp [this]

theorem toksMatch_cons {a : ATok} {as : List ATok} {tps : List TokPos} (h : toksMatch (a :: as) tps) :
    ∃ t p ts, tps = (t, p) :: ts ∧ tokMatch a t ∧ toksMatch as ts := by
  cases tps with
  | nil => exact absurd h (by simp [toksMatch])
  | cons x xs =>
    obtain ⟨t, p⟩ := x
    exact ⟨t, p, xs, rfl, h.1, h.2⟩

/-! ## Argument words -/

/-- a normalised word that is not one of the reserved words `{`, `}`, `!` -/
def NWordOK (n : List NPart) : Prop := ∀ v, n = [.lit v] → v ≠ [123] ∧ v ≠ [125] ∧ v ≠ [33]

/-- abstract tokens at which the argument loop of `callExpr` stops -/
def stopA (inSub : Bool) : ATok → Bool
  | .newl | .semi | .amp | .andAnd | .orOr | .pipe | .eof => true
  | .rparen => inSub
  | _ => false

theorem callArgs_stop (fuel : Nat) (inSub : Bool) (a : ATok) (t : Tok) (p : Pos) (ts : List TokPos) (acc : List Word)
    (hm : tokMatch a t) (hs : stopA inSub a = true) :
    callArgs (fuel + 1) inSub ⟨(t, p) :: ts⟩ acc = .ok (acc.reverse, ⟨(t, p) :: ts⟩) := by
  cases a <;> simp [stopA] at hs <;> simp only [tokMatch] at hm <;> subst hm <;> simp [callArgs, PS.tok, hs]

theorem callArgs_ok (ns : List (List NPart)) (hok : ∀ n ∈ ns, NWordOK n) (inSub : Bool) (k : List ATok)
    (hk : ∃ a rest, k = a :: rest ∧ stopA inSub a = true) :
    ∀ (tps : List TokPos) (acc : List Word) (fuel : Nat), fuel ≥ ns.length + 1 →
      toksMatch (ns.map ATok.word ++ k) tps →
      ∃ ws tps', callArgs fuel inSub ⟨tps⟩ acc = .ok (acc.reverse ++ ws, ⟨tps'⟩) ∧
        ws.map Word.norm = ns ∧ toksMatch k tps' ∧ (∀ x ∈ tps', x ∈ tps) := by
  induction ns with
  | nil =>
    intro tps acc fuel hf hm
    obtain ⟨a, rest, rfl, hs⟩ := hk
    simp only [List.map_nil, List.nil_append] at hm
    obtain ⟨t, p, ts, rfl, hma, hmr⟩ := toksMatch_cons hm
    cases fuel with
    | zero => simp at hf
    | succ n =>
      refine ⟨[], (t, p) :: ts, ?_, rfl, ⟨hma, hmr⟩, fun x hx => hx⟩
      rw [callArgs_stop n inSub a t p ts acc hma hs]
      simp
  | cons n ns ih =>
    intro tps acc fuel hf hm
    simp only [List.map_cons, List.cons_append] at hm
    obtain ⟨t, p, ts, rfl, hma, hmr⟩ := toksMatch_cons hm
    obtain ⟨w, lit, rfl, hnorm, hlit⟩ := hma
    have hn := hok n (by simp)
    cases fuel with
    | zero => simp at hf
    | succ f =>
      obtain ⟨ws, tps', h1, h2, h3, h3'⟩ := ih (fun m hm' => hok m (by simp [hm'])) ts (w :: acc) f
        (by simp only [List.length_cons] at hf; omega) hmr
      refine ⟨w :: ws, tps', ?_, ?_, h3, fun x hx => by simp [h3' x hx]⟩
      · have hstep : callArgs (f + 1) inSub ⟨(Tok.word w lit, p) :: ts⟩ acc = callArgs f inSub ⟨ts⟩ (w :: acc) := by
          cases lit with
          | none => simp [callArgs, PS.tok, PS.next]
          | some v =>
            obtain ⟨e1, e2, e3⟩ := hn v (hlit v rfl)
            simp [callArgs, PS.tok, PS.next, e1, e2, e3]
        rw [hstep, h1]
        simp
      · simp only [List.map_cons, h2, Word.norm, normParts_eq, hnorm]


/-! ## Layout trees: the token sequences of a tree

  A layout tree is the norm tree annotated with the layout choices that matter to the parser:
  which terminator a statement has (`;`, `&`, none) and where newline tokens are. -/

inductive Term
  | none | semi | amp
deriving DecidableEq, Repr, Inhabited

def Term.toks : Term → List ATok
  | .none => []
  | .semi => [.semi]
  | .amp => [.amp]

def nlT (b : Bool) : List ATok := if b then [.newl] else []

def opA : BinOp → ATok
  | .andStmt => .andAnd
  | .orStmt => .orOr
  | .pipe => .pipe

mutual
inductive LStmt
  | mk (neg : Bool) (cmd : LCmd) (term : Term)
inductive LCmd
  | call (args : List (List NPart))
  | subshell (nl : Bool) (ss : LStmts)
  | block (nl : Bool) (ss : LStmts)
  | binary (op : BinOp) (nl : Bool) (x y : LStmt)
inductive LStmts
  | one (s : LStmt) (nl : Bool)
  | cons (s : LStmt) (nl : Bool) (rest : LStmts)
end

mutual
def LStmt.toks : LStmt → List ATok
  | .mk neg cmd term => (if neg then [.bang] else []) ++ (cmd.toks ++ term.toks)
def LCmd.toks : LCmd → List ATok
  | .call args => args.map .word
  | .subshell nl ss => .lparen :: (nlT nl ++ (ss.toks ++ [.rparen]))
  | .block nl ss => .lbrace :: (nlT nl ++ (ss.toks ++ [.rbrace]))
  | .binary op nl x y => x.toks ++ (opA op :: (nlT nl ++ y.toks))
def LStmts.toks : LStmts → List ATok
  | .one s nl => s.toks ++ nlT nl
  | .cons s nl rest => s.toks ++ (nlT nl ++ rest.toks)
end

mutual
def LStmt.norm : LStmt → NStmt
  | .mk neg cmd term => .mk neg (term == .amp) cmd.norm
def LCmd.norm : LCmd → NCmd
  | .call args => .call args
  | .subshell _ ss => .subshell ss.norm
  | .block _ ss => .block ss.norm
  | .binary op _ x y => .binary op x.norm y.norm
def LStmts.norm : LStmts → NStmts
  | .one s _ => .cons s.norm .nil
  | .cons s _ rest => .cons s.norm rest.norm
end

def LStmt.neg : LStmt → Bool
  | .mk n _ _ => n
def LStmt.cmd : LStmt → LCmd
  | .mk _ c _ => c
def LStmt.term : LStmt → Term
  | .mk _ _ t => t

def LCmd.isAndOr : LCmd → Bool
  | .binary .andStmt _ _ _ => true
  | .binary .orStmt _ _ _ => true
  | _ => false

def LCmd.isBinary : LCmd → Bool
  | .binary _ _ _ _ => true
  | _ => false

def nwordOK (n : List NPart) : Bool :=
  match n with
  | [.lit v] => v != [123] && v != [125] && v != [33]
  | _ => true

def ncmdNameOK (n : List NPart) : Bool :=
  match n with
  | [.lit v] => !isOutsideKeyword v
  | _ => true

mutual
/-- the last token of the statement is a word (then `}` may not follow directly) -/
def LStmt.endsInWord : LStmt → Bool
  | .mk _ cmd term => term == .none && cmd.endsInWord
def LCmd.endsInWord : LCmd → Bool
  | .call _ => true
  | .subshell _ _ => false
  | .block _ _ => false
  | .binary _ _ _ y => y.endsInWord
end

/-- the list may be closed by `}`: its last statement is terminated, followed by a newline, or
    does not end in a word -/
def LStmts.closable : LStmts → Bool
  | .one s nl => nl || !s.endsInWord
  | .cons _ _ rest => rest.closable

mutual
def LStmt.valid : LStmt → Bool
  | .mk neg cmd _ => cmd.valid && !(neg && cmd.isAndOr)
def LCmd.valid : LCmd → Bool
  | .call args =>
    match args with
    | [] => false
    | n :: _ => args.all nwordOK && ncmdNameOK n
  | .subshell _ ss => ss.valid
  | .block _ ss => ss.valid && ss.closable
  | .binary op _ x y =>
    x.valid && y.valid && x.term == .none && y.term == .none &&
    (match op with
     | .pipe => !x.neg && !y.neg && !x.cmd.isAndOr && !y.cmd.isBinary
     | _ => !y.cmd.isAndOr)
def LStmts.valid : LStmts → Bool
  | .one s _ => s.valid
  | .cons s nl rest => s.valid && (nl || s.term != .none) && rest.valid
end


/-! ## Simple commands -/

def Stmt.normOf (neg bg : Bool) (c : NCmd) : NStmt := .mk neg bg c

theorem nwordOK_iff {n : List NPart} (h : nwordOK n = true) : NWordOK n := by
  intro v hv
  subst hv
  simp only [nwordOK, Bool.and_eq_true, bne_iff_ne, ne_eq] at h
  exact ⟨h.1.1, h.1.2, h.2⟩

theorem mkStmt_norm (pos : Pos) (neg : Bool) (c : Cmd) : (mkStmt pos neg c).norm = .mk neg false c.norm := by
  simp [mkStmt, Stmt.norm]

theorem mkStmt_bare (pos : Pos) (neg : Bool) (c : Cmd) : (mkStmt pos neg c).bare = true := by
  simp [mkStmt, Stmt.bare, Stmt.bg, Stmt.semi, Pos.valid, Pos.zero]

/-- the follow condition: the continuation starts with a token at which a call stops -/
def headStop (inSub : Bool) (k : List ATok) : Prop := ∃ a rest, k = a :: rest ∧ stopA inSub a = true

theorem firstCmdF_call (args : List (List NPart)) (hv : (LCmd.call args).valid = true) (inSub : Bool) (pos : Pos)
    (neg : Bool) (k : List ATok) (hk : headStop inSub k) (tps : List TokPos) (fuel : Nat)
    (hf : fuel ≥ tps.length + 2) (hm : toksMatch (args.map ATok.word ++ k) tps) :
    ∃ s tps', firstCmdF fuel inSub pos neg ⟨tps⟩ = .ok (some s, ⟨tps'⟩) ∧
      s.norm = .mk neg false (.call args) ∧ s.bare = true ∧ toksMatch k tps' ∧ tps'.length < tps.length ∧
      (∀ x ∈ tps', x ∈ tps) := by
  cases args with
  | nil => simp [LCmd.valid] at hv
  | cons n ns =>
    simp only [LCmd.valid, Bool.and_eq_true, List.all_eq_true] at hv
    obtain ⟨hall, hname⟩ := hv
    simp only [List.map_cons, List.cons_append] at hm
    obtain ⟨t, p, ts, rfl, hma, hmr⟩ := toksMatch_cons hm
    obtain ⟨w, lit, rfl, hnorm, hlit⟩ := hma
    have hnsok : ∀ m ∈ ns, NWordOK m := fun m hm' => nwordOK_iff (hall m (by simp [hm']))
    have hlen := toksMatch_length hmr
    simp only [List.length_append, List.length_map] at hlen
    cases fuel with
    | zero => simp at hf
    | succ f =>
      obtain ⟨ws, tps', h1, h2, h3, h3'⟩ := callArgs_ok ns hnsok inSub k hk ts [w] (f + 1)
        (by simp only [List.length_cons] at hf; omega) hmr
      have hlen' := toksMatch_length h3
      have hcall : firstCmdF (f + 1) inSub pos neg ⟨(Tok.word w lit, p) :: ts⟩ =
          .ok (some (mkStmt pos neg (.call (w :: ws))), ⟨tps'⟩) := by
        cases lit with
        | none =>
          simp only [firstCmdF, PS.tok, PS.next, List.tail_cons, h1]
          simp
        | some v =>
          have hn : n = [.lit v] := hlit v rfl
          obtain ⟨e1, e2, e3⟩ := nwordOK_iff (hall n (by simp)) v hn
          have e4 : isOutsideKeyword v = false := by
            subst hn
            simpa [ncmdNameOK] using hname
          simp only [firstCmdF, PS.tok, PS.next, List.tail_cons, h1, e4]
          simp [e1, e2, e3]
      refine ⟨_, tps', hcall, ?_, mkStmt_bare _ _ _, h3, ?_, fun x hx => by simp [h3' x hx]⟩
      · rw [mkStmt_norm]
        simp only [Cmd.norm, List.map_cons, h2, Word.norm, normParts_eq, hnorm]
      · simp only [List.length_cons]
        omega


/-! ## The loops return when the next token is not theirs -/

def pipeWrap (r : Except ParseErr (Stmt × PS)) : Except ParseErr (Option Stmt × PS) :=
  match r with
  | .error e => .error e
  | .ok (s, ps) => .ok (some s, ps)

def endWrap (readEnd : Bool) (r : Except ParseErr (Stmt × PS)) : Except ParseErr (Option Stmt × PS) :=
  match r with
  | .error e => .error e
  | .ok (s, ps) =>
    if readEnd then
      match ps.tok with
      | .semi => .ok (some (s.setEnd ps.pos false), ps.next)
      | .amp => .ok (some (s.setEnd ps.pos true), ps.next)
      | _ => .ok (some s, ps)
    else .ok (some s, ps)

theorem gotStmtPipeF_eq (fuel : Nat) (inSub : Bool) (pos : Pos) (neg binCmd : Bool) (ps : PS) :
    gotStmtPipeF (fuel + 1) inSub pos neg binCmd ps =
      match firstCmdF fuel inSub pos neg ps with
      | .error e => .error e
      | .ok (none, ps) => .ok (none, ps)
      | .ok (some s, ps) => pipeWrap (pipeF fuel inSub binCmd s ps) := by
  rw [gotStmtPipeF]
  rfl

/-- tokens that are not `|` -/
def ATok.notPipe : ATok → Bool
  | .pipe => false
  | _ => true

def ATok.notAndOr : ATok → Bool
  | .andAnd | .orOr => false
  | _ => true

theorem tokMatch_pipe {a : ATok} {t : Tok} (h : tokMatch a t) : (t == Tok.pipe) = !a.notPipe := by
  cases a <;> simp only [tokMatch] at h <;> (try subst h) <;> simp [ATok.notPipe]
  all_goals (obtain ⟨w, rest⟩ := h; first | (obtain ⟨lit, rfl, _⟩ := rest; simp) | (subst rest; simp))

theorem pipeF_stop (fuel : Nat) (inSub binCmd : Bool) (s : Stmt) (a : ATok) (t : Tok) (p : Pos) (ts : List TokPos)
    (hm : tokMatch a t) (ha : a.notPipe = true) :
    pipeF (fuel + 1) inSub binCmd s ⟨(t, p) :: ts⟩ = .ok (s, ⟨(t, p) :: ts⟩) := by
  have := tokMatch_pipe hm
  rw [ha] at this
  rw [pipeF]
  simp [PS.tok, this]

theorem pipeF_binCmd (fuel : Nat) (inSub : Bool) (s : Stmt) (ps : PS) :
    pipeF (fuel + 1) inSub true s ps = .ok (s, ps) := by
  rw [pipeF]
  split <;> simp

theorem andOrF_stop (fuel : Nat) (inSub binCmd : Bool) (s : Stmt) (a : ATok) (t : Tok) (p : Pos) (ts : List TokPos)
    (hm : tokMatch a t) (ha : a.notAndOr = true) :
    andOrF (fuel + 1) inSub binCmd s ⟨(t, p) :: ts⟩ = .ok (s, ⟨(t, p) :: ts⟩) := by
  rw [andOrF]
  cases a <;> simp [ATok.notAndOr] at ha <;> simp only [tokMatch] at hm <;> (try subst hm) <;> simp [PS.tok]
  all_goals (obtain ⟨w, rest⟩ := hm; first | (obtain ⟨lit, rfl, _⟩ := rest; simp) | (subst rest; simp))

theorem andOrF_binCmd (fuel : Nat) (inSub : Bool) (s : Stmt) (ps : PS) :
    andOrF (fuel + 1) inSub true s ps = .ok (s, ps) := by
  rw [andOrF]
  split <;> simp


/-! ## Follow sets and first tokens -/

/-- tokens that may follow a command: a stop token of the argument loop, or — after a command
    that does not end in a word — the `}` closing the enclosing block -/
def followTok (inSub ew : Bool) (a : ATok) : Bool := stopA inSub a || (!ew && a == .rbrace)

def headFollow (inSub ew : Bool) (k : List ATok) : Prop :=
  ∃ a rest, k = a :: rest ∧ followTok inSub ew a = true

def headFollowNP (inSub ew : Bool) (k : List ATok) : Prop :=
  ∃ a rest, k = a :: rest ∧ followTok inSub ew a = true ∧ a.notPipe = true

/-- first token of a command: a word that is not reserved, `(` or `{` -/
def startTok : ATok → Bool
  | .word n => nwordOK n
  | .lparen | .lbrace => true
  | _ => false

def LStmt.bodyToks : LStmt → List ATok
  | .mk neg cmd _ => (if neg then [.bang] else []) ++ cmd.toks

theorem LStmt.toks_eq (s : LStmt) : s.toks = s.bodyToks ++ s.term.toks := by
  cases s with
  | mk neg cmd term => simp [LStmt.toks, LStmt.bodyToks, LStmt.term]

theorem LStmt.toks_none {s : LStmt} (h : s.term = .none) : s.toks = s.bodyToks := by
  rw [LStmt.toks_eq, h]; simp [Term.toks]

theorem LCmd.start : ∀ (c : LCmd), c.valid = true → c.isAndOr = false →
    ∃ a rest, c.toks = a :: rest ∧ startTok a = true
  | .call args, hv, _ => by
    cases args with
    | nil => simp [LCmd.valid] at hv
    | cons n ns =>
      simp only [LCmd.valid, Bool.and_eq_true, List.all_eq_true] at hv
      exact ⟨.word n, ns.map .word, by simp [LCmd.toks], by simpa [startTok] using hv.1 n (by simp)⟩
  | .subshell nl ss, _, _ => ⟨.lparen, nlT nl ++ (ss.toks ++ [.rparen]), by simp [LCmd.toks], rfl⟩
  | .block nl ss, _, _ => ⟨.lbrace, nlT nl ++ (ss.toks ++ [.rbrace]), by simp [LCmd.toks], rfl⟩
  | .binary op nl (.mk xn xc xt) y, hv, hao => by
    cases op with
    | andStmt => simp [LCmd.isAndOr] at hao
    | orStmt => simp [LCmd.isAndOr] at hao
    | pipe =>
      simp only [LCmd.valid, LStmt.valid, LStmt.term, LStmt.neg, LStmt.cmd, Bool.and_eq_true, beq_iff_eq,
        Bool.not_eq_true'] at hv
      obtain ⟨⟨⟨⟨⟨hxc, _⟩, _⟩, hxt⟩, _⟩, ⟨⟨⟨hxn, _⟩, hxao⟩, _⟩⟩ := hv
      subst hxt
      subst hxn
      obtain ⟨a, rest, h1, h2⟩ := LCmd.start xc hxc hxao
      exact ⟨a, rest ++ (opA .pipe :: (nlT nl ++ y.toks)), by simp [LCmd.toks, LStmt.toks, Term.toks, h1], h2⟩

/-- a token matching a start token is no stop token and not `!` -/
theorem startTok_match {a : ATok} {t : Tok} (ha : startTok a = true) (hm : tokMatch a t) :
    t.isStop = false ∧ t.isLit [33] = false ∧
    (t == Tok.eof) = false ∧ (t == Tok.newl) = false ∧ (t == Tok.semi) = false ∧
    t.isLit [125] = false ∧ (t == Tok.rparen) = false := by
  cases a <;> simp [startTok] at ha <;> simp only [tokMatch] at hm
  · -- word
    obtain ⟨w, lit, rfl, _, hl⟩ := hm
    cases lit with
    | none => simp [Tok.isStop, Tok.isLit]
    | some v =>
      have := hl v rfl
      subst this
      simp only [nwordOK, Bool.and_eq_true, bne_iff_ne, ne_eq] at ha
      simp [Tok.isStop, Tok.isLit, ha.1.2, ha.2]
  · subst hm; simp [Tok.isStop, Tok.isLit]
  · obtain ⟨w, rfl⟩ := hm; simp [Tok.isStop, Tok.isLit]

/-! ## The claims proved by mutual induction over layout trees -/

def posValid (tps : List TokPos) : Prop := ∀ tp ∈ tps, tp.2.valid = true

/-- `firstCmdF` on a simple or compound command -/
def ClaimF (c : LCmd) : Prop :=
  ∀ (inSub : Bool) (pos : Pos) (neg : Bool) (k : List ATok) (tps : List TokPos) (fuel : Nat),
    headFollow inSub c.endsInWord k → toksMatch (c.toks ++ k) tps → posValid tps → fuel ≥ 6 * tps.length + 3 →
    ∃ s tps', firstCmdF fuel inSub pos neg ⟨tps⟩ = .ok (some s, ⟨tps'⟩) ∧ toksMatch k tps' ∧ posValid tps' ∧
      s.norm = .mk neg false c.norm ∧ s.bare = true ∧ tps'.length < tps.length

/-- `gotStmtPipeF` on a pipeline: the first command is parsed and the pipe loop goes on -/
def ClaimC (c : LCmd) : Prop :=
  ∀ (inSub : Bool) (pos : Pos) (neg : Bool) (k : List ATok) (tps : List TokPos) (fuel : Nat),
    headFollow inSub c.endsInWord k → toksMatch (c.toks ++ k) tps → posValid tps → fuel ≥ 6 * tps.length + 4 →
    ∃ s tps' fuel', gotStmtPipeF fuel inSub pos neg false ⟨tps⟩ = pipeWrap (pipeF fuel' inSub false s ⟨tps'⟩) ∧
      toksMatch k tps' ∧ posValid tps' ∧ s.norm = .mk neg false c.norm ∧ s.bare = true ∧
      fuel' ≥ 6 * tps'.length + 3 ∧ tps'.length < tps.length

/-- `getStmtF` on the body of a statement (without its terminator): the first pipeline is parsed
    and the and-or loop goes on -/
def ClaimS (s : LStmt) : Prop :=
  ∀ (inSub readEnd : Bool) (k : List ATok) (tps : List TokPos) (fuel : Nat),
    headFollowNP inSub s.cmd.endsInWord k → toksMatch (s.bodyToks ++ k) tps → posValid tps →
    fuel ≥ 6 * tps.length + 5 →
    ∃ s' tps' fuel', getStmtF fuel inSub readEnd false ⟨tps⟩ = endWrap readEnd (andOrF fuel' inSub false s' ⟨tps'⟩) ∧
      toksMatch k tps' ∧ posValid tps' ∧ s'.norm = .mk s.neg false s.cmd.norm ∧ s'.bare = true ∧
      fuel' ≥ 6 * tps'.length + 4 ∧ tps'.length < tps.length

/-- the same for an operand of `&&` / `||` (`binCmd = true`): the loop is not entered -/
def ClaimY (s : LStmt) : Prop :=
  s.cmd.isAndOr = false →
  ∀ (inSub : Bool) (k : List ATok) (tps : List TokPos) (fuel : Nat),
    headFollowNP inSub s.cmd.endsInWord k → toksMatch (s.bodyToks ++ k) tps → posValid tps →
    fuel ≥ 6 * tps.length + 5 →
    ∃ s' tps', getStmtF fuel inSub false true ⟨tps⟩ = .ok (some s', ⟨tps'⟩) ∧
      toksMatch k tps' ∧ posValid tps' ∧ s'.norm = .mk s.neg false s.cmd.norm ∧ s'.bare = true ∧
      tps'.length < tps.length

def normList : List Stmt → NStmts
  | [] => .nil
  | s :: r => .cons s.norm (normList r)

/-- what closes a statement list -/
def closerOK (inSub stopBrace closable : Bool) (a : ATok) : Bool :=
  a == .eof || (a == .rparen && inSub) || (a == .rbrace && stopBrace && closable)

/-- `stmtsF` on a statement list up to its closing token -/
def ClaimL (ss : LStmts) : Prop :=
  ∀ (inSub stopBrace gotEnd nl0 : Bool) (a : ATok) (k : List ATok) (tps : List TokPos) (acc : List Stmt) (fuel : Nat),
    (gotEnd = true ∨ nl0 = true) → closerOK inSub stopBrace ss.closable a = true →
    toksMatch (nlT nl0 ++ (ss.toks ++ a :: k)) tps → posValid tps → fuel ≥ 6 * tps.length + 6 →
    ∃ ss' tps', stmtsF fuel inSub stopBrace gotEnd ⟨tps⟩ acc = .ok (acc.reverse ++ ss', ⟨tps'⟩) ∧
      toksMatch (a :: k) tps' ∧ posValid tps' ∧ normList ss' = ss.norm ∧ ss' ≠ [] ∧ tps'.length < tps.length


/-! ## Glue lemmas -/

theorem posValid_tail {tp : TokPos} {ts : List TokPos} (h : posValid (tp :: ts)) : posValid ts :=
  fun x hx => h x (by simp [hx])

theorem claimC_of_F {c : LCmd} (hF : ClaimF c) : ClaimC c := by
  intro inSub pos neg k tps fuel hk hm hpv hf
  cases fuel with
  | zero => omega
  | succ f =>
    obtain ⟨s, tps', h1, h2, h3, h4, h5, h6⟩ := hF inSub pos neg k tps f hk hm hpv (by omega)
    refine ⟨s, tps', f, ?_, h2, h3, h4, h5, by omega, h6⟩
    rw [gotStmtPipeF_eq, h1]

theorem getStmtF_eq (fuel : Nat) (inSub readEnd binCmd : Bool) (ps : PS) :
    getStmtF (fuel + 1) inSub readEnd binCmd ps =
      (let pos := ps.pos
       let neg := ps.tok.isLit [33]
       let ps := if neg then ps.next else ps
       if neg && ps.tok.isStop then .error (.syntax "`!` cannot form a statement alone")
       else if neg && ps.tok.isLit [33] then
         .error (.syntax "cannot negate a command multiple times")
       else
         match gotStmtPipeF fuel inSub pos neg false ps with
         | .error e => .error e
         | .ok (none, ps) => .ok (none, ps)
         | .ok (some s, ps) => endWrap readEnd (andOrF fuel inSub binCmd s ps)) := by
  rw [getStmtF]
  rfl

/-- a statement whose command is a pipeline: `getStmtF` handles `!`, parses the pipeline and
    enters the and-or loop -/
theorem getStmtF_base (s : LStmt) (hv : s.valid = true) (hao : s.cmd.isAndOr = false) (hC : ClaimC s.cmd)
    (inSub readEnd binCmd : Bool) (k : List ATok) (tps : List TokPos) (fuel : Nat)
    (hk : headFollowNP inSub s.cmd.endsInWord k) (hm : toksMatch (s.bodyToks ++ k) tps) (hpv : posValid tps)
    (hf : fuel ≥ 6 * tps.length + 5) :
    ∃ s' tps' fuel', getStmtF fuel inSub readEnd binCmd ⟨tps⟩ = endWrap readEnd (andOrF fuel' inSub binCmd s' ⟨tps'⟩) ∧
      toksMatch k tps' ∧ posValid tps' ∧ s'.norm = .mk s.neg false s.cmd.norm ∧ s'.bare = true ∧
      fuel' ≥ 6 * tps'.length + 4 ∧ tps'.length < tps.length := by
  obtain ⟨neg, cmd, term⟩ := s
  simp only [LStmt.cmd, LStmt.neg] at *
  have hcv : cmd.valid = true := by
    simp only [LStmt.valid, Bool.and_eq_true] at hv
    exact hv.1
  obtain ⟨a0, rest0, hstart, hst⟩ := LCmd.start cmd hcv hao
  obtain ⟨ak, restk, rfl, hfk, hnp⟩ := hk
  have hkC : headFollow inSub cmd.endsInWord (ak :: restk) := ⟨ak, restk, rfl, hfk⟩
  cases fuel with
  | zero => omega
  | succ f =>
    cases neg with
    | false =>
      simp only [LStmt.bodyToks, Bool.false_eq_true, ↓reduceIte, List.nil_append] at hm
      have hm' := hm
      rw [hstart] at hm'
      obtain ⟨t, p, ts, rfl, hma, _⟩ := toksMatch_cons hm'
      obtain ⟨e1, e2, e3, e4, e5, e6, e7⟩ := startTok_match hst hma
      obtain ⟨s1, tps1, f1, h1, h2, h3, h4, h5, h6, h7⟩ := hC inSub p false (ak :: restk) _ f hkC hm hpv (by omega)
      obtain ⟨t1, p1, ts1, rfl, hmk, _⟩ := toksMatch_cons h2
      have hp1 : pipeF f1 inSub false s1 ⟨(t1, p1) :: ts1⟩ = .ok (s1, ⟨(t1, p1) :: ts1⟩) := by
        cases f1 with
        | zero => omega
        | succ g => exact pipeF_stop g inSub false s1 ak t1 p1 ts1 hmk hnp
      refine ⟨s1, (t1, p1) :: ts1, f, ?_, h2, h3, h4, h5, by omega, h7⟩
      rw [getStmtF_eq]
      simp only [PS.tok, e2, Bool.false_eq_true, ↓reduceIte, Bool.false_and, PS.pos]
      rw [h1, hp1]
      rfl
    | true =>
      simp only [LStmt.bodyToks, ↓reduceIte, List.cons_append] at hm
      obtain ⟨tb, pb, tsb, rfl, hmb, hmrest⟩ := toksMatch_cons hm
      obtain ⟨wb, rfl⟩ := hmb
      have hm' := hmrest
      rw [hstart] at hm'
      obtain ⟨t, p, ts, rfl, hma, _⟩ := toksMatch_cons hm'
      obtain ⟨e1, e2, e3, e4, e5, e6, e7⟩ := startTok_match hst hma
      obtain ⟨s1, tps1, f1, h1, h2, h3, h4, h5, h6, h7⟩ := hC inSub pb true (ak :: restk) _ f hkC hmrest
        (posValid_tail hpv) (by simp only [List.length_cons] at hf ⊢; omega)
      obtain ⟨t1, p1, ts1, rfl, hmk, _⟩ := toksMatch_cons h2
      have hp1 : pipeF f1 inSub false s1 ⟨(t1, p1) :: ts1⟩ = .ok (s1, ⟨(t1, p1) :: ts1⟩) := by
        cases f1 with
        | zero => omega
        | succ g => exact pipeF_stop g inSub false s1 ak t1 p1 ts1 hmk hnp
      refine ⟨s1, (t1, p1) :: ts1, f, ?_, h2, h3, h4, h5, ?_, ?_⟩
      · rw [getStmtF_eq]
        simp only [PS.tok, PS.pos, PS.next, List.tail_cons, Tok.isLit, beq_self_eq_true, ↓reduceIte, Bool.true_and,
          e1, Bool.false_eq_true]
        have e2' := e2
        simp only [Tok.isLit] at e2'
        simp only [e2', Bool.false_eq_true, ↓reduceIte]
        rw [h1, hp1]
        rfl
      · simp only [List.length_cons] at hf h7 ⊢; omega
      · simp only [List.length_cons] at h7 ⊢; omega


/-! ## Norm bookkeeping -/

theorem Stmt.norm_setEnd (s : Stmt) (n b : Bool) (c : NCmd) (h : s.norm = .mk n b c) (p : Pos) (bg : Bool) :
    (s.setEnd p bg).norm = .mk n bg c ∧ (s.setEnd p bg).semi = p := by
  obtain ⟨a, e, n', b', c'⟩ := s
  simp only [Stmt.norm, NStmt.mk.injEq] at h
  obtain ⟨rfl, rfl, rfl⟩ := h
  simp [Stmt.setEnd, Stmt.norm, Stmt.semi]

theorem Stmt.norm_setNeg (s : Stmt) (n b : Bool) (c : NCmd) (h : s.norm = .mk n b c) (m : Bool) :
    (s.setNeg m).norm = .mk m b c ∧ s.negated = n ∧ (s.setNeg m).bare = s.bare := by
  obtain ⟨a, e, n', b', c'⟩ := s
  simp only [Stmt.norm, NStmt.mk.injEq] at h
  obtain ⟨rfl, rfl, rfl⟩ := h
  simp [Stmt.setNeg, Stmt.norm, Stmt.negated, Stmt.bare, Stmt.bg, Stmt.semi]

theorem LStmt.norm_none {s : LStmt} (h : s.term = .none) : s.norm = .mk s.neg false s.cmd.norm := by
  obtain ⟨n, c, t⟩ := s
  simp only [LStmt.term] at h
  subst h
  simp [LStmt.norm, LStmt.neg, LStmt.cmd]

/-- the first token of a statement body is `!` or a start token: never a newline -/
theorem LStmt.body_head (s : LStmt) (hv : s.valid = true) (hao : s.cmd.isAndOr = false) :
    ∃ a rest, s.bodyToks = a :: rest ∧ (a = .bang ∨ startTok a = true) := by
  obtain ⟨n, c, t⟩ := s
  simp only [LStmt.cmd] at hao
  have hcv : c.valid = true := by
    simp only [LStmt.valid, Bool.and_eq_true] at hv
    exact hv.1
  cases n with
  | true => exact ⟨.bang, c.toks, by simp [LStmt.bodyToks], Or.inl rfl⟩
  | false =>
    obtain ⟨a, rest, h1, h2⟩ := LCmd.start c hcv hao
    exact ⟨a, rest, by simp [LStmt.bodyToks, h1], Or.inr h2⟩

theorem not_newl_of_head {a : ATok} {t : Tok} (ha : a = .bang ∨ startTok a = true) (hm : tokMatch a t) :
    (t == Tok.newl) = false := by
  rcases ha with rfl | ha
  · obtain ⟨w, rfl⟩ := hm; rfl
  · exact (startTok_match ha hm).2.2.2.1

/-- `gotNewl` on a token list that starts with an optional newline token followed by a token
    that is not a newline -/
theorem gotNewl_nlT (nl : Bool) (rest : List ATok) (tps : List TokPos) (hm : toksMatch (nlT nl ++ rest) tps)
    (hhead : ∀ a r t p ts, rest = a :: r → tps = (t, p) :: ts → nl = false → (t == Tok.newl) = false) :
    ∃ tps', (PS.mk tps).gotNewl = (nl, ⟨tps'⟩) ∧ toksMatch rest tps' ∧ tps'.length + (if nl then 1 else 0) = tps.length := by
  cases nl with
  | true =>
    simp only [nlT, ↓reduceIte, List.singleton_append] at hm
    obtain ⟨t, p, ts, rfl, hma, hmr⟩ := toksMatch_cons hm
    simp only [tokMatch] at hma
    subst hma
    exact ⟨ts, by simp [PS.gotNewl, PS.tok, PS.next], hmr, by simp⟩
  | false =>
    simp only [nlT, Bool.false_eq_true, ↓reduceIte, List.nil_append] at hm
    refine ⟨tps, ?_, hm, by simp⟩
    cases rest with
    | nil =>
      have := toksMatch_nil_left hm
      subst this
      simp [PS.gotNewl, PS.tok]
    | cons a r =>
      obtain ⟨t, p, ts, rfl, _, _⟩ := toksMatch_cons hm
      have := hhead a r t p ts rfl rfl rfl
      simp [PS.gotNewl, PS.tok, this]


/-! ## The loop steps -/

theorem andOrF_eq (fuel : Nat) (inSub binCmd : Bool) (s : Stmt) (ps : PS) :
    andOrF (fuel + 1) inSub binCmd s ps =
      (let op? : Option BinOp := match ps.tok with
         | .andAnd => some .andStmt
         | .orOr => some .orStmt
         | _ => none
       match op? with
       | none => .ok (s, ps)
       | some op =>
         if binCmd then .ok (s, ps)
         else
           let opPos := ps.pos
           let ps := ps.next
           let ps := ps.gotNewl.2
           match getStmtF fuel inSub false true ps with
           | .error e => .error e
           | .ok (none, ps') =>
             match ps'.tok with
             | .outside => .error .outside
             | _ => .error (.syntax "must be followed by a statement")
           | .ok (some y, ps') =>
             andOrF fuel inSub binCmd (mkStmt s.pos false (.binary opPos op s y)) ps') := by
  rw [andOrF]
  rfl

/-- `x && y` / `x || y`: after the left operand the loop reads the operator and the right operand -/
theorem claimS_andor (op : BinOp) (hop : op ≠ .pipe) (nl : Bool) (x y : LStmt) (term : Term)
    (hxt : x.term = .none) (hyt : y.term = .none) (hyv : y.valid = true) (hyao : y.cmd.isAndOr = false)
    (hSx : ClaimS x) (hYy : ClaimY y) : ClaimS (.mk false (.binary op nl x y) term) := by
  intro inSub readEnd k tps fuel hk hm hpv hf
  simp only [LStmt.cmd, LCmd.endsInWord] at hk
  have hyew : y.endsInWord = y.cmd.endsInWord := by
    obtain ⟨n, c, t⟩ := y
    simp only [LStmt.term] at hyt
    subst hyt
    simp [LStmt.endsInWord, LStmt.cmd]
  rw [hyew] at hk
  have htoks : (LStmt.mk false (.binary op nl x y) term).bodyToks ++ k =
      x.bodyToks ++ (opA op :: (nlT nl ++ (y.bodyToks ++ k))) := by
    simp [LStmt.bodyToks, LCmd.toks, LStmt.toks_none hxt, LStmt.toks_none hyt]
  rw [htoks] at hm
  have hk1 : headFollowNP inSub x.cmd.endsInWord (opA op :: (nlT nl ++ (y.bodyToks ++ k))) := by
    refine ⟨opA op, _, rfl, ?_, ?_⟩
    · cases op <;> simp [opA, followTok, stopA]
    · cases op with
      | pipe => exact absurd rfl hop
      | andStmt => rfl
      | orStmt => rfl
  obtain ⟨sx, tps1, f1, h1, h2, h3, h4, h5, h6, h7⟩ := hSx inSub readEnd _ tps fuel hk1 hm hpv hf
  obtain ⟨top, pop, ts1, rfl, hmop, hmr⟩ := toksMatch_cons h2
  obtain ⟨ay, ry, hyb, hyh⟩ := LStmt.body_head y hyv hyao
  obtain ⟨tps2, hg, hm2, hl2⟩ := gotNewl_nlT nl (y.bodyToks ++ k) ts1 hmr (by
    intro a r t p ts hr htp _
    rw [hyb, List.cons_append] at hr
    simp only [List.cons.injEq] at hr
    obtain ⟨rfl, _⟩ := hr
    subst htp
    rw [hyb, List.cons_append] at hmr
    cases nl with
    | true => rename_i hnl; cases hnl
    | false =>
      simp only [nlT, Bool.false_eq_true, ↓reduceIte, List.nil_append] at hmr
      exact not_newl_of_head hyh hmr.1)
  have hpv1 : posValid ts1 := posValid_tail h3
  have hpv2 : posValid tps2 := by
    cases nl with
    | false =>
      simp only [PS.gotNewl] at hg
      split at hg
      · simp at hg
      · simp only [Prod.mk.injEq, PS.mk.injEq, true_and] at hg
        subst hg
        exact hpv1
    | true =>
      simp only [nlT, ↓reduceIte, List.singleton_append] at hmr
      obtain ⟨t, p, ts, rfl, hma, _⟩ := toksMatch_cons hmr
      simp only [tokMatch] at hma
      subst hma
      simp only [PS.gotNewl, PS.tok, beq_self_eq_true, ↓reduceIte, PS.next, List.tail_cons, Prod.mk.injEq,
        PS.mk.injEq, true_and] at hg
      subst hg
      exact posValid_tail hpv1
  cases f1 with
  | zero => omega
  | succ g =>
    obtain ⟨sy, tpsk, hy1, hy2, hy3, hy4, hy5, hy6⟩ := hYy hyao inSub k tps2 g hk hm2 hpv2 (by
      simp only [List.length_cons] at h6
      have : tps2.length ≤ ts1.length := by
        cases nl <;> simp at hl2 <;> omega
      omega)
    refine ⟨mkStmt sx.pos false (.binary pop op sx sy), tpsk, g, ?_, hy2, hy3, ?_, mkStmt_bare _ _ _, ?_, ?_⟩
    · rw [h1, andOrF_eq]
      simp only [PS.tok, Bool.false_eq_true, ↓reduceIte, PS.pos, PS.next, List.tail_cons]
      rw [hg]
      simp only [hy1]
      cases op with
      | pipe => exact absurd rfl hop
      | andStmt => simp only [opA, tokMatch] at hmop; subst hmop; rfl
      | orStmt => simp only [opA, tokMatch] at hmop; subst hmop; rfl
    · rw [mkStmt_norm]
      simp only [Cmd.norm, h4, hy4, LStmt.neg, LStmt.cmd, LCmd.norm, LStmt.norm_none hxt, LStmt.norm_none hyt]
    · have : tpsk.length < tps2.length := hy6
      have : tps2.length ≤ ts1.length := by
        cases nl <;> simp at hl2 <;> omega
      simp only [List.length_cons] at h6
      omega
    · have : tps2.length ≤ ts1.length := by
        cases nl <;> simp at hl2 <;> omega
      simp only [List.length_cons] at h7
      omega


theorem PS.pos_cons (t : Tok) (p : Pos) (ts : List TokPos) : (PS.mk ((t, p) :: ts)).pos = p := rfl
theorem PS.tok_cons (t : Tok) (p : Pos) (ts : List TokPos) : (PS.mk ((t, p) :: ts)).tok = t := rfl
theorem PS.next_cons (t : Tok) (p : Pos) (ts : List TokPos) : (PS.mk ((t, p) :: ts)).next = ⟨ts⟩ := rfl

theorem pipeF_eq (fuel : Nat) (inSub binCmd : Bool) (s : Stmt) (ps : PS) :
    pipeF (fuel + 1) inSub binCmd s ps =
      (if ps.tok == .pipe then
         if binCmd then .ok (s, ps)
         else
           let opPos := ps.pos
           let ps := ps.next
           let ps := ps.gotNewl.2
           match gotStmtPipeF fuel inSub ps.pos false true ps with
           | .error e => .error e
           | .ok (none, ps') =>
             match ps'.tok with
             | .outside => .error .outside
             | _ => .error (.syntax "must be followed by a statement")
           | .ok (some y, ps') =>
             pipeF fuel inSub binCmd (mkStmt s.pos s.negated (.binary opPos .pipe (s.setNeg false) y)) ps'
       else .ok (s, ps)) := by
  rw [pipeF]
  rfl

theorem gotNewl_posValid {tps tps' : List TokPos} {b : Bool} (h : (PS.mk tps).gotNewl = (b, ⟨tps'⟩))
    (hpv : posValid tps) : posValid tps' := by
  simp only [PS.gotNewl] at h
  split at h
  · simp only [PS.next, Prod.mk.injEq, PS.mk.injEq] at h
    obtain ⟨_, rfl⟩ := h
    intro x hx
    exact hpv x (List.mem_of_mem_tail hx)
  · simp only [Prod.mk.injEq, PS.mk.injEq] at h
    obtain ⟨_, rfl⟩ := h
    exact hpv

/-- `x | y`: after the left operand the loop reads `|` and one more command -/
theorem claimC_pipe (nl : Bool) (x y : LStmt) (hxt : x.term = .none) (hyt : y.term = .none)
    (hxn : x.neg = false) (hyn : y.neg = false) (hyv : y.cmd.valid = true) (hynb : y.cmd.isBinary = false)
    (hCx : ClaimC x.cmd) (hFy : ClaimF y.cmd) : ClaimC (.binary .pipe nl x y) := by
  intro inSub pos neg k tps fuel hk hm hpv hf
  obtain ⟨xn, xc, xt⟩ := x
  obtain ⟨yn, yc, yt⟩ := y
  simp only [LStmt.term, LStmt.neg, LStmt.cmd] at *
  subst hxt hyt hxn hyn
  have hyao : yc.isAndOr = false := by
    cases yc with
    | binary op _ _ _ => simp [LCmd.isBinary] at hynb
    | _ => rfl
  simp only [LCmd.endsInWord, LStmt.endsInWord, beq_self_eq_true, Bool.true_and] at hk
  have htoks : (LCmd.binary .pipe nl (.mk false xc .none) (.mk false yc .none)).toks ++ k =
      xc.toks ++ (ATok.pipe :: (nlT nl ++ (yc.toks ++ k))) := by
    simp [LCmd.toks, LStmt.toks, Term.toks, opA]
  rw [htoks] at hm
  have hk1 : headFollow inSub xc.endsInWord (ATok.pipe :: (nlT nl ++ (yc.toks ++ k))) :=
    ⟨.pipe, _, rfl, by simp [followTok, stopA]⟩
  obtain ⟨sx, tps1, f1, h1, h2, h3, h4, h5, h6, h7⟩ := hCx inSub pos neg _ tps fuel hk1 hm hpv hf
  obtain ⟨tp, pp, ts1, rfl, hmp, hmr⟩ := toksMatch_cons h2
  simp only [tokMatch] at hmp
  subst hmp
  obtain ⟨ay, ry, hyb, hyh⟩ := LCmd.start yc hyv hyao
  obtain ⟨tps2, hg, hm2, hl2⟩ := gotNewl_nlT nl (yc.toks ++ k) ts1 hmr (by
    intro a r t p ts hr htp hnl
    subst hnl htp
    rw [hyb, List.cons_append] at hr hmr
    simp only [List.cons.injEq] at hr
    obtain ⟨rfl, _⟩ := hr
    simp only [nlT, Bool.false_eq_true, ↓reduceIte, List.nil_append] at hmr
    exact (startTok_match hyh hmr.1).2.2.2.1)
  have hpv2 : posValid tps2 := gotNewl_posValid hg (posValid_tail h3)
  have hlen2 : tps2.length ≤ ts1.length := by
    cases nl <;> simp at hl2 <;> omega
  cases f1 with
  | zero => omega
  | succ g =>
    cases g with
    | zero => simp only [List.length_cons] at h6; omega
    | succ h =>
      obtain ⟨sy, tpsk, hy1, hy2, hy3, hy4, hy5, hy6⟩ := hFy inSub (PS.mk tps2).pos false k tps2 h hk hm2 hpv2 (by
        simp only [List.length_cons] at h6
        omega)
      obtain ⟨hn1, hn2, hn3⟩ := Stmt.norm_setNeg sx _ _ _ h4 false
      refine ⟨mkStmt sx.pos sx.negated (.binary pp .pipe (sx.setNeg false) sy), tpsk, h + 1, ?_, hy2, hy3, ?_,
        mkStmt_bare _ _ _, ?_, ?_⟩
      · rw [h1, pipeF_eq]
        simp only [PS.tok_cons, PS.pos_cons, PS.next_cons, beq_self_eq_true, ↓reduceIte, Bool.false_eq_true]
        rw [hg]
        simp only []
        rw [gotStmtPipeF_eq, hy1]
        simp only [pipeWrap]
        cases h with
        | zero => simp only [List.length_cons] at h6; omega
        | succ h' => rw [pipeF_binCmd]
      · rw [mkStmt_norm]
        simp only [Cmd.norm, hn1, hn2, hy4, LCmd.norm, LStmt.norm]
        simp
      · simp only [List.length_cons] at h6
        omega
      · simp only [List.length_cons] at h7
        omega


/-! ## Statement lists -/

theorem stmtsF_eq (fuel : Nat) (inSub stopBrace gotEnd : Bool) (ps : PS) (acc : List Stmt) :
    stmtsF (fuel + 1) inSub stopBrace gotEnd ps acc =
      (if ps.tok == .eof then .ok (acc.reverse, ps)
       else
         let (newLine, ps) := ps.gotNewl
         if ps.tok.isLit [125] then
           if stopBrace then .ok (acc.reverse, ps)
           else .error (.syntax "`}` can only be used to close a block")
         else if ps.tok == .rparen && inSub then .ok (acc.reverse, ps)
         else if !newLine && !gotEnd then .error (.syntax "statements must be separated by &, ; or a newline")
         else if ps.tok == .eof then .ok (acc.reverse, ps)
         else
           match getStmtF fuel inSub true false ps with
           | .error e => .error e
           | .ok (none, ps') =>
             match ps'.tok with
             | .outside => .error .outside
             | .unclosedQuote => .error (.syntax "reached EOF without closing quote '")
             | _ => .error (.syntax "not a valid start for a statement")
           | .ok (some s, ps') => stmtsF fuel inSub stopBrace s.semi.valid ps' (s :: acc)) := by
  rw [stmtsF]
  rfl

/-- at the closing token (after an optional newline) the loop ends -/
theorem stmtsF_close (fuel : Nat) (inSub stopBrace gotEnd nl cl : Bool) (a : ATok) (k : List ATok)
    (tps : List TokPos) (acc : List Stmt) (hc : closerOK inSub stopBrace cl a = true)
    (hm : toksMatch (nlT nl ++ a :: k) tps) :
    ∃ tps', stmtsF (fuel + 1) inSub stopBrace gotEnd ⟨tps⟩ acc = .ok (acc.reverse, ⟨tps'⟩) ∧
      toksMatch (a :: k) tps' ∧ tps'.length ≤ tps.length ∧ (∀ x ∈ tps', x ∈ tps) := by
  have closeAt : ∀ (newLine : Bool) (t : Tok) (p : Pos) (ts : List TokPos), tokMatch a t →
      (if t.isLit [125] then
          if stopBrace then (Except.ok (acc.reverse, PS.mk ((t, p) :: ts)) : Except ParseErr (List Stmt × PS))
          else .error (.syntax "`}` can only be used to close a block")
        else if t == .rparen && inSub then .ok (acc.reverse, ⟨(t, p) :: ts⟩)
        else if !newLine && !gotEnd then .error (.syntax "statements must be separated by &, ; or a newline")
        else if t == .eof then .ok (acc.reverse, ⟨(t, p) :: ts⟩)
        else
          match getStmtF fuel inSub true false ⟨(t, p) :: ts⟩ with
          | .error e => .error e
          | .ok (none, ps') =>
            match ps'.tok with
            | .outside => .error .outside
            | .unclosedQuote => .error (.syntax "reached EOF without closing quote '")
            | _ => .error (.syntax "not a valid start for a statement")
          | .ok (some s, ps') => stmtsF fuel inSub stopBrace s.semi.valid ps' (s :: acc)) =
        .ok (acc.reverse, ⟨(t, p) :: ts⟩) ∨ (a = .eof ∧ newLine = false) := by
    intro newLine t p ts hma
    simp only [closerOK, Bool.or_eq_true, Bool.and_eq_true, beq_iff_eq] at hc
    rcases hc with (rfl | ⟨rfl, hin⟩) | ⟨⟨rfl, hsb⟩, _⟩
    · simp only [tokMatch] at hma
      subst hma
      cases newLine with
      | false => exact Or.inr ⟨rfl, rfl⟩
      | true => left; simp [Tok.isLit]
    · simp only [tokMatch] at hma
      subst hma
      left; simp [Tok.isLit, hin]
    · obtain ⟨w, rfl⟩ := hma
      left; simp [Tok.isLit, hsb]
  cases nl with
  | false =>
    simp only [nlT, Bool.false_eq_true, ↓reduceIte, List.nil_append] at hm
    obtain ⟨t, p, ts, rfl, hma, hmr⟩ := toksMatch_cons hm
    refine ⟨(t, p) :: ts, ?_, ⟨hma, hmr⟩, Nat.le_refl _, fun x hx => hx⟩
    rw [stmtsF_eq]
    by_cases heof : a = .eof
    · subst heof
      simp only [tokMatch] at hma
      subst hma
      simp [PS.tok_cons]
    · have hne : (t == Tok.eof) = false := by
        cases a <;> simp only [tokMatch] at hma <;> first | (subst hma; rfl) | exact absurd rfl heof | skip
        all_goals (obtain ⟨w, rest⟩ := hma; first | (obtain ⟨lit, rfl, _⟩ := rest; rfl) | (subst rest; rfl))
      have hnl : (t == Tok.newl) = false := by
        simp only [closerOK, Bool.or_eq_true, Bool.and_eq_true, beq_iff_eq] at hc
        rcases hc with (rfl | ⟨rfl, _⟩) | ⟨⟨rfl, _⟩, _⟩
        · exact absurd rfl heof
        · simp only [tokMatch] at hma; subst hma; rfl
        · obtain ⟨w, rfl⟩ := hma; rfl
      simp only [PS.tok_cons, hne, Bool.false_eq_true, ↓reduceIte, PS.gotNewl, hnl]
      rcases closeAt false t p ts hma with h | ⟨h, _⟩
      · simp only [hne, Bool.false_eq_true, ↓reduceIte] at h
        simpa [PS.tok_cons] using h
      · exact absurd h heof
  | true =>
    simp only [nlT, ↓reduceIte, List.singleton_append] at hm
    obtain ⟨tn, pn, ts0, rfl, hmn, hm0⟩ := toksMatch_cons hm
    simp only [tokMatch] at hmn
    subst hmn
    obtain ⟨t, p, ts, rfl, hma, hmr⟩ := toksMatch_cons hm0
    refine ⟨(t, p) :: ts, ?_, ⟨hma, hmr⟩, by simp, fun x hx => by simp [hx]⟩
    rw [stmtsF_eq]
    simp only [PS.tok_cons, PS.gotNewl, PS.next_cons, beq_self_eq_true, ↓reduceIte]
    have : (Tok.newl == Tok.eof) = false := rfl
    simp only [this, Bool.false_eq_true, ↓reduceIte]
    rcases closeAt true t p ts hma with h | ⟨_, h⟩
    · simpa [PS.tok_cons] using h
    · cases h


theorem tokMatch_not_semi_amp {a : ATok} {t : Tok} (hm : tokMatch a t) (h1 : a ≠ .semi) (h2 : a ≠ .amp) :
    t ≠ .semi ∧ t ≠ .amp := by
  cases a <;> simp only [tokMatch] at hm <;> first
    | exact absurd rfl h1
    | exact absurd rfl h2
    | (subst hm; exact ⟨by simp, by simp⟩)
    | (obtain ⟨w, rest⟩ := hm; first | (obtain ⟨lit, rfl, _⟩ := rest; exact ⟨by simp, by simp⟩) | (subst rest; exact ⟨by simp, by simp⟩))

/-- a whole statement with its terminator, as read by the statement loop (`readEnd = true`) -/
theorem getStmt_full (s : LStmt) (hS : ClaimS s) (inSub : Bool) (k : List ATok) (tps : List TokPos) (fuel : Nat)
    (hk : ∃ a rest, k = a :: rest ∧ a.notAndOr = true ∧ a.notPipe = true ∧ a ≠ .semi ∧ a ≠ .amp ∧
      (s.term = .none → followTok inSub s.cmd.endsInWord a = true))
    (hm : toksMatch (s.toks ++ k) tps) (hpv : posValid tps) (hf : fuel ≥ 6 * tps.length + 5) :
    ∃ s' tps', getStmtF fuel inSub true false ⟨tps⟩ = .ok (some s', ⟨tps'⟩) ∧ toksMatch k tps' ∧ posValid tps' ∧
      s'.norm = s.norm ∧ s'.semi.valid = (s.term != .none) ∧ tps'.length < tps.length := by
  obtain ⟨a, rest, rfl, hnao, hnp, hns, hna, hfol⟩ := hk
  rw [LStmt.toks_eq, List.append_assoc] at hm
  have hk1 : headFollowNP inSub s.cmd.endsInWord (s.term.toks ++ a :: rest) := by
    cases hterm : s.term with
    | none => exact ⟨a, rest, by simp [Term.toks], hfol hterm, hnp⟩
    | semi => exact ⟨.semi, a :: rest, by simp [Term.toks], by simp [followTok, stopA], rfl⟩
    | amp => exact ⟨.amp, a :: rest, by simp [Term.toks], by simp [followTok, stopA], rfl⟩
  obtain ⟨s1, tps1, f1, h1, h2, h3, h4, h5, h6, h7⟩ := hS inSub true _ tps fuel hk1 hm hpv hf
  obtain ⟨n, c, term⟩ := s
  simp only [LStmt.term, LStmt.neg, LStmt.cmd] at *
  cases f1 with
  | zero => omega
  | succ g =>
    cases term with
    | none =>
      simp only [Term.toks, List.nil_append] at h2
      obtain ⟨t1, p1, ts1, rfl, hma, hmr⟩ := toksMatch_cons h2
      obtain ⟨e1, e2⟩ := tokMatch_not_semi_amp hma hns hna
      refine ⟨s1, (t1, p1) :: ts1, ?_, ⟨hma, hmr⟩, h3, ?_, ?_, h7⟩
      · rw [h1, andOrF_stop g inSub false s1 a t1 p1 ts1 hma hnao]
        simp only [endWrap, ↓reduceIte, PS.tok_cons]
        try (cases t1 <;> first | rfl | exact absurd rfl e1 | exact absurd rfl e2)
      · simp [h4, LStmt.norm]
      · simp only [Stmt.bare, Bool.and_eq_true, Bool.not_eq_true'] at h5
        simp [h5.2]
    | semi =>
      simp only [Term.toks, List.singleton_append] at h2
      obtain ⟨t1, p1, ts1, rfl, hma, hmr⟩ := toksMatch_cons h2
      simp only [tokMatch] at hma
      subst hma
      obtain ⟨hn1, hn2⟩ := Stmt.norm_setEnd s1 _ _ _ h4 p1 false
      refine ⟨s1.setEnd p1 false, ts1, ?_, hmr, posValid_tail h3, ?_, ?_, ?_⟩
      · rw [h1, andOrF_stop g inSub false s1 .semi .semi p1 ts1 rfl rfl]
        simp [endWrap, PS.tok_cons, PS.pos_cons, PS.next_cons]
      · simp [hn1, LStmt.norm]
      · rw [hn2, h3 (Tok.semi, p1) (by simp)]
        rfl
      · simp only [List.length_cons] at h7; omega
    | amp =>
      simp only [Term.toks, List.singleton_append] at h2
      obtain ⟨t1, p1, ts1, rfl, hma, hmr⟩ := toksMatch_cons h2
      simp only [tokMatch] at hma
      subst hma
      obtain ⟨hn1, hn2⟩ := Stmt.norm_setEnd s1 _ _ _ h4 p1 true
      refine ⟨s1.setEnd p1 true, ts1, ?_, hmr, posValid_tail h3, ?_, ?_, ?_⟩
      · rw [h1, andOrF_stop g inSub false s1 .amp .amp p1 ts1 rfl rfl]
        simp [endWrap, PS.tok_cons, PS.pos_cons, PS.next_cons]
      · simp [hn1, LStmt.norm]
      · rw [hn2, h3 (Tok.amp, p1) (by simp)]
        rfl
      · simp only [List.length_cons] at h7; omega


mutual
/-- the first token of a valid statement body is `!` or a start token -/
theorem LStmt.head_gen : ∀ (s : LStmt), s.valid = true → ∃ a rest, s.bodyToks = a :: rest ∧ (a = .bang ∨ startTok a = true)
  | .mk neg cmd term, hv => by
    have hcv : cmd.valid = true := by
      simp only [LStmt.valid, Bool.and_eq_true] at hv
      exact hv.1
    cases neg with
    | true => exact ⟨.bang, cmd.toks, by simp [LStmt.bodyToks], Or.inl rfl⟩
    | false =>
      obtain ⟨a, rest, h1, h2⟩ := LCmd.head_gen cmd hcv
      exact ⟨a, rest, by simp [LStmt.bodyToks, h1], h2⟩
theorem LCmd.head_gen : ∀ (c : LCmd), c.valid = true → ∃ a rest, c.toks = a :: rest ∧ (a = .bang ∨ startTok a = true)
  | .call args, hv => by
    obtain ⟨a, rest, h1, h2⟩ := LCmd.start (.call args) hv rfl
    exact ⟨a, rest, h1, Or.inr h2⟩
  | .subshell nl ss, _ => ⟨.lparen, nlT nl ++ (ss.toks ++ [.rparen]), by simp [LCmd.toks], Or.inr rfl⟩
  | .block nl ss, _ => ⟨.lbrace, nlT nl ++ (ss.toks ++ [.rbrace]), by simp [LCmd.toks], Or.inr rfl⟩
  | .binary op nl x y, hv => by
    simp only [LCmd.valid, Bool.and_eq_true, beq_iff_eq] at hv
    obtain ⟨⟨⟨⟨hx, _⟩, hxt⟩, _⟩, _⟩ := hv
    obtain ⟨a, rest, h1, h2⟩ := LStmt.head_gen x hx
    exact ⟨a, rest ++ (opA op :: (nlT nl ++ y.toks)), by simp [LCmd.toks, LStmt.toks_none hxt, h1], h2⟩
end

theorem head_tok_facts {a : ATok} {t : Tok} (ha : a = .bang ∨ startTok a = true) (hm : tokMatch a t) :
    (t == Tok.eof) = false ∧ (t == Tok.newl) = false ∧ t.isLit [125] = false ∧ (t == Tok.rparen) = false := by
  rcases ha with rfl | ha
  · obtain ⟨w, rfl⟩ := hm
    exact ⟨rfl, rfl, by simp [Tok.isLit], rfl⟩
  · obtain ⟨_, _, e3, e4, _, e6, e7⟩ := startTok_match ha hm
    exact ⟨e3, e4, e6, e7⟩

theorem head_atok_facts {a : ATok} (ha : a = .bang ∨ startTok a = true) :
    a.notAndOr = true ∧ a.notPipe = true ∧ a ≠ .semi ∧ a ≠ .amp := by
  rcases ha with rfl | ha
  · exact ⟨rfl, rfl, by simp, by simp⟩
  · cases a <;> simp [startTok] at ha <;> exact ⟨rfl, rfl, by simp, by simp⟩

/-- one iteration of the statement loop -/
theorem stmtsF_step (s : LStmt) (hv : s.valid = true) (hS : ClaimS s) (inSub stopBrace gotEnd nl0 : Bool)
    (k2 : List ATok) (tps : List TokPos) (acc : List Stmt) (f : Nat)
    (hsep : gotEnd = true ∨ nl0 = true)
    (hk : ∃ a rest, k2 = a :: rest ∧ a.notAndOr = true ∧ a.notPipe = true ∧ a ≠ .semi ∧ a ≠ .amp ∧
      (s.term = .none → followTok inSub s.cmd.endsInWord a = true))
    (hm : toksMatch (nlT nl0 ++ (s.toks ++ k2)) tps) (hpv : posValid tps) (hf : f + 1 ≥ 6 * tps.length + 6) :
    ∃ s' tps', stmtsF (f + 1) inSub stopBrace gotEnd ⟨tps⟩ acc =
        stmtsF f inSub stopBrace (s.term != .none) ⟨tps'⟩ (s' :: acc) ∧
      toksMatch k2 tps' ∧ posValid tps' ∧ s'.norm = s.norm ∧ tps'.length < tps.length := by
  obtain ⟨a0, r0, hb, ha0⟩ := LStmt.head_gen s hv
  have hhead : ∀ a r t p ts, s.toks ++ k2 = a :: r → tps = (t, p) :: ts → nl0 = false → (t == Tok.newl) = false := by
    intro a r t p ts hr htp hnl
    subst hnl htp
    rw [LStmt.toks_eq, hb] at hr hm
    simp only [List.cons_append, List.cons.injEq] at hr
    obtain ⟨rfl, _⟩ := hr
    simp only [nlT, Bool.false_eq_true, ↓reduceIte, List.nil_append, List.cons_append] at hm
    exact (head_tok_facts ha0 hm.1).2.1
  obtain ⟨tps1, hg, hm1, hl1⟩ := gotNewl_nlT nl0 (s.toks ++ k2) tps hm hhead
  have hpv1 : posValid tps1 := gotNewl_posValid hg hpv
  have hlen1 : tps1.length ≤ tps.length := by cases nl0 <;> simp at hl1 <;> omega
  obtain ⟨s', tps', h1, h2, h3, h4, h5, h6⟩ := getStmt_full s hS inSub k2 tps1 f hk hm1 hpv1 (by omega)
  refine ⟨s', tps', ?_, h2, h3, h4, by omega⟩
  -- the first token of the statement
  have hm1' := hm1
  rw [LStmt.toks_eq, hb] at hm1'
  simp only [List.cons_append] at hm1'
  obtain ⟨t, p, ts, rfl, hma, _⟩ := toksMatch_cons hm1'
  obtain ⟨e1, e2, e3, e4⟩ := head_tok_facts ha0 hma
  have hfirst : ((PS.mk tps).tok == Tok.eof) = false := by
    cases nl0 with
    | true =>
      simp only [nlT, ↓reduceIte, List.singleton_append] at hm
      obtain ⟨tn, pn, ts0, rfl, hmn, _⟩ := toksMatch_cons hm
      simp only [tokMatch] at hmn
      subst hmn
      rfl
    | false =>
      simp only [PS.gotNewl] at hg
      split at hg
      · simp at hg
      · simp only [Prod.mk.injEq, PS.mk.injEq, true_and] at hg
        subst hg
        exact e1
  rw [stmtsF_eq]
  simp only [hfirst, Bool.false_eq_true, ↓reduceIte, hg, PS.tok_cons, e3, e4, Bool.false_and, e1]
  have hsep' : (!nl0 && !gotEnd) = false := by
    rcases hsep with h | h <;> simp [h]
  simp only [hsep', Bool.false_eq_true, ↓reduceIte, h1, h5]


theorem closer_facts {inSub stopBrace cl : Bool} {a : ATok} (h : closerOK inSub stopBrace cl a = true) :
    a.notAndOr = true ∧ a.notPipe = true ∧ a ≠ .semi ∧ a ≠ .amp ∧
    (a = .eof ∨ (a = .rparen ∧ inSub = true) ∨ (a = .rbrace ∧ stopBrace = true ∧ cl = true)) := by
  simp only [closerOK, Bool.or_eq_true, Bool.and_eq_true, beq_iff_eq] at h
  rcases h with (rfl | ⟨rfl, h⟩) | ⟨⟨rfl, h1⟩, h2⟩
  · exact ⟨rfl, rfl, by simp, by simp, Or.inl rfl⟩
  · exact ⟨rfl, rfl, by simp, by simp, Or.inr (Or.inl ⟨rfl, h⟩)⟩
  · exact ⟨rfl, rfl, by simp, by simp, Or.inr (Or.inr ⟨rfl, h1, h2⟩)⟩

theorem claimL_one (s : LStmt) (nl : Bool) (hv : s.valid = true) (hS : ClaimS s) : ClaimL (.one s nl) := by
  intro inSub stopBrace gotEnd nl0 a k tps acc fuel hsep hc hm hpv hf
  obtain ⟨c1, c2, c3, c4, c5⟩ := closer_facts hc
  cases fuel with
  | zero => omega
  | succ f =>
    have hm' : toksMatch (nlT nl0 ++ (s.toks ++ (nlT nl ++ a :: k))) tps := by
      simpa [LStmts.toks, List.append_assoc] using hm
    have hk : ∃ a' rest, nlT nl ++ a :: k = a' :: rest ∧ a'.notAndOr = true ∧ a'.notPipe = true ∧ a' ≠ .semi ∧
        a' ≠ .amp ∧ (s.term = .none → followTok inSub s.cmd.endsInWord a' = true) := by
      cases nl with
      | true => exact ⟨.newl, a :: k, by simp [nlT], rfl, rfl, by simp, by simp, fun _ => by simp [followTok, stopA]⟩
      | false =>
        refine ⟨a, k, by simp [nlT], c1, c2, c3, c4, ?_⟩
        intro hterm
        rcases c5 with rfl | ⟨rfl, hin⟩ | ⟨rfl, _, hcl⟩
        · simp [followTok, stopA]
        · simp [followTok, stopA, hin]
        · obtain ⟨n, c, t⟩ := s
          simp only [LStmt.term] at hterm
          subst hterm
          simp only [LStmts.closable, Bool.false_or, LStmt.endsInWord, beq_self_eq_true, Bool.true_and,
            Bool.not_eq_true'] at hcl
          simp [followTok, stopA, LStmt.cmd, hcl]
    obtain ⟨s', tps1, h1, h2, h3, h4, h5⟩ := stmtsF_step s hv hS inSub stopBrace gotEnd nl0 _ tps acc f hsep hk hm' hpv hf
    cases f with
    | zero => omega
    | succ g =>
      obtain ⟨tps2, h6, h7, h8, h9⟩ := stmtsF_close g inSub stopBrace (s.term != .none) nl _ a k tps1 (s' :: acc) hc h2
      refine ⟨[s'], tps2, ?_, h7, fun x hx => h3 x (h9 x hx), ?_, by simp, by omega⟩
      · rw [h1, h6]; simp
      · simp [normList, LStmts.norm, h4]

theorem claimL_cons (s : LStmt) (nl : Bool) (rest : LStmts) (hv : s.valid = true) (hrv : rest.valid = true)
    (hnl : (nl || s.term != .none) = true) (hS : ClaimS s) (hL : ClaimL rest) : ClaimL (.cons s nl rest) := by
  intro inSub stopBrace gotEnd nl0 a k tps acc fuel hsep hc hm hpv hf
  cases fuel with
  | zero => omega
  | succ f =>
    have hm' : toksMatch (nlT nl0 ++ (s.toks ++ (nlT nl ++ (rest.toks ++ a :: k)))) tps := by
      simpa [LStmts.toks, List.append_assoc] using hm
    -- the first token of the rest of the list
    obtain ⟨ar, rr, hrb, har⟩ : ∃ ar rr, rest.toks = ar :: rr ∧ (ar = .bang ∨ startTok ar = true) := by
      cases rest with
      | one s2 nl2 =>
        simp only [LStmts.valid] at hrv
        obtain ⟨a2, r2, h1, h2⟩ := LStmt.head_gen s2 hrv
        exact ⟨a2, r2 ++ s2.term.toks ++ nlT nl2, by simp [LStmts.toks, LStmt.toks_eq, h1], h2⟩
      | cons s2 nl2 rest2 =>
        simp only [LStmts.valid, Bool.and_eq_true] at hrv
        obtain ⟨a2, r2, h1, h2⟩ := LStmt.head_gen s2 hrv.1.1
        exact ⟨a2, r2 ++ s2.term.toks ++ (nlT nl2 ++ rest2.toks), by simp [LStmts.toks, LStmt.toks_eq, h1], h2⟩
    obtain ⟨f1, f2, f3, f4⟩ := head_atok_facts har
    have hk : ∃ a' r', nlT nl ++ (rest.toks ++ a :: k) = a' :: r' ∧ a'.notAndOr = true ∧ a'.notPipe = true ∧
        a' ≠ .semi ∧ a' ≠ .amp ∧ (s.term = .none → followTok inSub s.cmd.endsInWord a' = true) := by
      cases nl with
      | true => exact ⟨.newl, rest.toks ++ a :: k, by simp [nlT], rfl, rfl, by simp, by simp, fun _ => by simp [followTok, stopA]⟩
      | false =>
        refine ⟨ar, rr ++ a :: k, by simp [nlT, hrb], f1, f2, f3, f4, ?_⟩
        intro hterm
        simp [hterm] at hnl
    obtain ⟨s', tps1, h1, h2, h3, h4, h5⟩ := stmtsF_step s hv hS inSub stopBrace gotEnd nl0 _ tps acc f hsep hk hm' hpv hf
    have hsep' : (s.term != .none) = true ∨ nl = true := by
      simp only [Bool.or_eq_true] at hnl
      rcases hnl with h | h
      · exact Or.inr h
      · exact Or.inl h
    obtain ⟨ss', tps2, h6, h7, h8, h9, h10, h11⟩ := hL inSub stopBrace (s.term != .none) nl a k tps1 (s' :: acc) f hsep'
      (by simpa [LStmts.closable] using hc) h2 h3 (by omega)
    refine ⟨s' :: ss', tps2, ?_, h7, h8, ?_, by simp, by omega⟩
    · rw [h1, h6]; simp
    · simp [normList, LStmts.norm, h4, h9]


/-! ## Compound commands -/

theorem normList_ofList (ss : List Stmt) : (Stmts.ofList ss).norm = normList ss := by
  induction ss with
  | nil => rfl
  | cons s r ih => simp [Stmts.ofList, Stmts.norm, normList, ih]

theorem LStmts.head_gen (ss : LStmts) (hv : ss.valid = true) :
    ∃ a rest, ss.toks = a :: rest ∧ (a = .bang ∨ startTok a = true) := by
  cases ss with
  | one s2 nl2 =>
    simp only [LStmts.valid] at hv
    obtain ⟨a2, r2, h1, h2⟩ := LStmt.head_gen s2 hv
    exact ⟨a2, r2 ++ s2.term.toks ++ nlT nl2, by simp [LStmts.toks, LStmt.toks_eq, h1], h2⟩
  | cons s2 nl2 rest2 =>
    simp only [LStmts.valid, Bool.and_eq_true] at hv
    obtain ⟨a2, r2, h1, h2⟩ := LStmt.head_gen s2 hv.1.1
    exact ⟨a2, r2 ++ s2.term.toks ++ (nlT nl2 ++ rest2.toks), by simp [LStmts.toks, LStmt.toks_eq, h1], h2⟩

/-- the token after `(` / `{` is a newline, `!` or a start token: not `;` -/
theorem open_not_semi (nl : Bool) (ss : LStmts) (hv : ss.valid = true) (more : List ATok) (ts : List TokPos)
    (hm : toksMatch (nlT nl ++ (ss.toks ++ more)) ts) : ((PS.mk ts).tok == Tok.semi) = false := by
  cases nl with
  | true =>
    simp only [nlT, ↓reduceIte, List.singleton_append] at hm
    obtain ⟨t, p, ts', rfl, hma, _⟩ := toksMatch_cons hm
    simp only [tokMatch] at hma
    subst hma
    rfl
  | false =>
    obtain ⟨a, r, h1, h2⟩ := LStmts.head_gen ss hv
    simp only [nlT, Bool.false_eq_true, ↓reduceIte, List.nil_append, h1, List.cons_append] at hm
    obtain ⟨t, p, ts', rfl, hma, _⟩ := toksMatch_cons hm
    rcases h2 with rfl | h2
    · obtain ⟨w, rfl⟩ := hma; rfl
    · exact (startTok_match h2 hma).2.2.2.2.1

theorem claimF_subshell (nl : Bool) (ss : LStmts) (hv : ss.valid = true) (hL : ClaimL ss) :
    ClaimF (.subshell nl ss) := by
  intro inSub pos neg k tps fuel _ hm hpv hf
  have htoks : (LCmd.subshell nl ss).toks ++ k = .lparen :: (nlT nl ++ (ss.toks ++ .rparen :: k)) := by
    simp [LCmd.toks]
  rw [htoks] at hm
  obtain ⟨t0, p0, ts, rfl, hm0, hmr⟩ := toksMatch_cons hm
  simp only [tokMatch] at hm0
  subst hm0
  cases fuel with
  | zero => omega
  | succ f =>
    obtain ⟨ss', tps1, h1, h2, h3, h4, h5, h6⟩ := hL true false true nl .rparen k ts [] f (Or.inl rfl)
      (by simp [closerOK]) hmr (posValid_tail hpv) (by simp only [List.length_cons] at hf; omega)
    obtain ⟨tr, pr, tsk, rfl, hmrp, hmk⟩ := toksMatch_cons h2
    simp only [tokMatch] at hmrp
    subst hmrp
    have hne : ss'.isEmpty = false := by
      cases ss' with
      | nil => exact absurd rfl h5
      | cons _ _ => rfl
    refine ⟨mkStmt pos neg (.subshell p0 pr (Stmts.ofList ss')), tsk, ?_, hmk, posValid_tail h3, ?_,
      mkStmt_bare _ _ _, ?_⟩
    · rw [firstCmdF]
      simp only [PS.tok_cons, PS.pos_cons, PS.next_cons, open_not_semi nl ss hv _ ts hmr, Bool.false_eq_true,
        ↓reduceIte, h1, List.reverse_nil, List.nil_append, hne]
    · rw [mkStmt_norm]
      simp [Cmd.norm, normList_ofList, h4, LCmd.norm]
    · simp only [List.length_cons] at h6 ⊢
      omega

theorem claimF_block (nl : Bool) (ss : LStmts) (hv : ss.valid = true) (hcl : ss.closable = true) (hL : ClaimL ss) :
    ClaimF (.block nl ss) := by
  intro inSub pos neg k tps fuel _ hm hpv hf
  have htoks : (LCmd.block nl ss).toks ++ k = .lbrace :: (nlT nl ++ (ss.toks ++ .rbrace :: k)) := by
    simp [LCmd.toks]
  rw [htoks] at hm
  obtain ⟨t0, p0, ts, rfl, hm0, hmr⟩ := toksMatch_cons hm
  obtain ⟨w0, rfl⟩ := hm0
  cases fuel with
  | zero => omega
  | succ f =>
    obtain ⟨ss', tps1, h1, h2, h3, h4, h5, h6⟩ := hL inSub true true nl .rbrace k ts [] f (Or.inl rfl)
      (by simp [closerOK, hcl]) hmr (posValid_tail hpv) (by simp only [List.length_cons] at hf; omega)
    obtain ⟨tr, pr, tsk, rfl, hmrb, hmk⟩ := toksMatch_cons h2
    obtain ⟨wr, rfl⟩ := hmrb
    have hne : ss'.isEmpty = false := by
      cases ss' with
      | nil => exact absurd rfl h5
      | cons _ _ => rfl
    refine ⟨mkStmt pos neg (.block p0 pr (Stmts.ofList ss')), tsk, ?_, hmk, posValid_tail h3, ?_,
      mkStmt_bare _ _ _, ?_⟩
    · rw [firstCmdF]
      simp only [PS.tok_cons, PS.pos_cons, PS.next_cons, open_not_semi nl ss hv _ ts hmr, Bool.false_eq_true,
        ↓reduceIte, h1, List.reverse_nil, List.nil_append, hne, beq_self_eq_true, Tok.isLit]
    · rw [mkStmt_norm]
      simp [Cmd.norm, normList_ofList, h4, LCmd.norm]
    · simp only [List.length_cons] at h6 ⊢
      omega


/-! ## The mutual induction -/

theorem claimF_call (args : List (List NPart)) (hv : (LCmd.call args).valid = true) : ClaimF (.call args) := by
  intro inSub pos neg k tps fuel hk hm hpv hf
  obtain ⟨a, rest, rfl, hfa⟩ := hk
  have hstop : stopA inSub a = true := by simpa [followTok, LCmd.endsInWord] using hfa
  obtain ⟨s, tps', h1, h2, h3, h4, h5, h6⟩ := firstCmdF_call args hv inSub pos neg (a :: rest) ⟨a, rest, rfl, hstop⟩ tps fuel
    (by omega) (by simpa [LCmd.toks] using hm)
  exact ⟨s, tps', h1, h4, fun x hx => hpv x (h6 x hx), by simpa [LCmd.norm] using h2, h3, h5⟩

mutual
theorem B_stmt : ∀ (s : LStmt), s.valid = true → ClaimS s ∧ ClaimY s
  | .mk neg cmd term, hv => by
    have hcv : cmd.valid = true := by
      simp only [LStmt.valid, Bool.and_eq_true] at hv
      exact hv.1
    cases hao : cmd.isAndOr with
    | false =>
      have hC := (B_cmd cmd hcv).2 hao
      refine ⟨?_, ?_⟩
      · intro inSub readEnd k tps fuel hk hm hpv hf
        exact getStmtF_base (.mk neg cmd term) hv hao hC inSub readEnd false k tps fuel hk hm hpv hf
      · intro _ inSub k tps fuel hk hm hpv hf
        obtain ⟨s', tps', f', h1, h2, h3, h4, h5, h6, h7⟩ :=
          getStmtF_base (.mk neg cmd term) hv hao hC inSub false true k tps fuel hk hm hpv hf
        refine ⟨s', tps', ?_, h2, h3, h4, h5, h7⟩
        cases f' with
        | zero => omega
        | succ g => rw [h1, andOrF_binCmd]; rfl
    | true =>
      cases cmd with
      | call _ => simp [LCmd.isAndOr] at hao
      | subshell _ _ => simp [LCmd.isAndOr] at hao
      | block _ _ => simp [LCmd.isAndOr] at hao
      | binary op nl x y =>
        have hop : op ≠ .pipe := by
          intro h; subst h; simp [LCmd.isAndOr] at hao
        have hneg : neg = false := by
          simp only [LStmt.valid, hao, Bool.and_true, Bool.and_eq_true, Bool.not_eq_true'] at hv
          exact hv.2
        subst hneg
        simp only [LCmd.valid, Bool.and_eq_true, beq_iff_eq] at hcv
        obtain ⟨⟨⟨⟨hx, hy⟩, hxt⟩, hyt⟩, hsh⟩ := hcv
        have hyao : y.cmd.isAndOr = false := by
          cases op with
          | pipe => exact absurd rfl hop
          | andStmt => simpa using hsh
          | orStmt => simpa using hsh
        refine ⟨claimS_andor op hop nl x y term hxt hyt hy hyao (B_stmt x hx).1 (B_stmt y hy).2, ?_⟩
        intro h
        simp [LStmt.cmd, hao] at h
theorem B_cmd : ∀ (c : LCmd), c.valid = true → (c.isBinary = false → ClaimF c) ∧ (c.isAndOr = false → ClaimC c)
  | .call args, hv => ⟨fun _ => claimF_call args hv, fun _ => claimC_of_F (claimF_call args hv)⟩
  | .subshell nl ss, hv => by
    have hsv : ss.valid = true := by simpa [LCmd.valid] using hv
    have hF := claimF_subshell nl ss hsv (B_stmts ss hsv)
    exact ⟨fun _ => hF, fun _ => claimC_of_F hF⟩
  | .block nl ss, hv => by
    simp only [LCmd.valid, Bool.and_eq_true] at hv
    have hF := claimF_block nl ss hv.1 hv.2 (B_stmts ss hv.1)
    exact ⟨fun _ => hF, fun _ => claimC_of_F hF⟩
  | .binary op nl (.mk xn xc xt) (.mk yn yc yt), hv => by
    refine ⟨fun h => by simp [LCmd.isBinary] at h, ?_⟩
    intro hao
    cases op with
    | andStmt => simp [LCmd.isAndOr] at hao
    | orStmt => simp [LCmd.isAndOr] at hao
    | pipe =>
      simp only [LCmd.valid, LStmt.valid, LStmt.term, LStmt.neg, LStmt.cmd, Bool.and_eq_true, beq_iff_eq,
        Bool.not_eq_true'] at hv
      obtain ⟨⟨⟨⟨⟨hxc, _⟩, ⟨hyc, _⟩⟩, hxt⟩, hyt⟩, ⟨⟨⟨hxn, hyn⟩, hxao⟩, hynb⟩⟩ := hv
      exact claimC_pipe nl _ _ hxt hyt hxn hyn hyc hynb ((B_cmd xc hxc).2 hxao) ((B_cmd yc hyc).1 hynb)
theorem B_stmts : ∀ (ss : LStmts), ss.valid = true → ClaimL ss
  | .one s nl, hv => claimL_one s nl (by simpa [LStmts.valid] using hv) (B_stmt s (by simpa [LStmts.valid] using hv)).1
  | .cons s nl rest, hv => by
    simp only [LStmts.valid, Bool.and_eq_true] at hv
    exact claimL_cons s nl rest hv.1.1 hv.2 hv.1.2 (B_stmt s hv.1.1).1 (B_stmts rest hv.2)
end


/-! ## The parser on the tokens of a layout tree -/

/-- A token list (valid positions) matching the tokens of a valid layout tree, optionally after
    a newline, and ending in `eof`, parses to a file with the tree's norm. -/
theorem parseToks_layout (ss : LStmts) (hv : ss.valid = true) (nl0 : Bool) (tps : List TokPos) (hpv : posValid tps)
    (hm : toksMatch (nlT nl0 ++ (ss.toks ++ [.eof])) tps) :
    ∃ f, parseToks tps = .ok f ∧ f.norm = ss.norm := by
  obtain ⟨ss', tps', h1, h2, _, h4, _, _⟩ := B_stmts ss hv false false true nl0 .eof [] tps [] (parseFuelFor tps)
    (Or.inl rfl) (by simp [closerOK]) hm hpv (by simp [parseFuelFor])
  obtain ⟨t, p, ts, rfl, hma, _⟩ := toksMatch_cons h2
  simp only [tokMatch] at hma
  subst hma
  refine ⟨⟨Stmts.ofList ss'⟩, ?_, ?_⟩
  · unfold parseToks parseToksF
    rw [h1]
    simp [PS.tok_cons]
  · simp [File.norm, normList_ofList, h4]

end ShVerif.L4
