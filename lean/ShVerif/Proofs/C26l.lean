import ShVerif.Proofs.C26k
/-
  C26 — simulation: `while`/`until`.
-/
namespace ShVerif.C26
open ShVerif.L5 ShVerif.L5.Bash

/-- The `for !r.stop(ctx)` loop of `WhileClause` against the `loop` of `BashSem`. -/
def SimW (n : Nat) : Prop :=
  ∀ (K : SCtx) (k : Ctx) (sub : Bool) (u : Bool) (c b : Prog) (s : St),
    Stat K k sub → supCmd K (.whl u c b) = true → Dyn K k sub s → LastOk s → NoFlags s →
    NoPending s →
    Rel (Post K k sub False True s) (run n (.whl u c b) s) (sem n k (.loop u c b 0) (absEnv s))

theorem run_whl (n : Nat) (u : Bool) (c b : Prog) (s : St) (hs : stop s = false) :
    run (n+1) (.whl u c b) s =
      match foldStmts (fun st => run n (.stmt st)) c { s with noErrExit := true } with
      | none => none
      | some s1 =>
        if (s1.exit.ok == u) then
          some { s1 with noErrExit := s.noErrExit, exit := s1.exit.clear }
        else
          match loopStmtsBroken (fun st => run n (.stmt st)) b
              { s1 with noErrExit := s.noErrExit, exit := s1.exit.clear } with
          | none => none
          | some r => if r.2 then some r.1 else run n (.whl u c b) r.1 := by
  rw [run]; simp only [hs, Bool.false_eq_true, ↓reduceIte]
  cases foldStmts (fun st => run n (.stmt st)) c { s with noErrExit := true } with
  | none => rfl
  | some s1 =>
    simp only
    split
    · rfl
    · cases loopStmtsBroken (fun st => run n (.stmt st)) b
          { s1 with noErrExit := s.noErrExit, exit := s1.exit.clear } with
      | none => rfl
      | some r => obtain ⟨a, br⟩ := r; rfl

theorem sem_loop (n : Nat) (k : Ctx) (u : Bool) (c b : Prog) (acc : Nat) (e : Env) :
    sem (n+1) k (.loop u c b acc) e =
      match seqList (fun st => sem n { k with ign := true, depth := k.depth + 1 } (.stmt st)) c e with
      | none => none
      | some (.norm, e1) =>
        if (e1.status == 0) == u then some (.norm, { e1 with status := acc })
        else
          match seqList (fun st => sem n { k with depth := k.depth + 1 } (.stmt st)) b e1 with
          | none => none
          | some (fl, e2) =>
            match afterBody fl with
            | (true, fl') => some (fl', e2)
            | (false, _) => sem n k (.loop u c b e2.status) e2
      | some (fl, e1) =>
        match afterBody fl with
        | (true, fl') => some (fl', e1)
        | (false, _) => sem n k (.loop u c b e1.status) e1 := by
  rw [sem]; rfl

theorem St.inLoop_roundtrip (s : St) :
    ({ { s with inLoop := true } with inLoop := s.inLoop } : St) = s := by
  cases s; rfl

theorem loopStmtsBroken_stopped {n : Nat} (hn : 1 ≤ n) (b : Prog) (s : St) (hs : stop s = true)
    (hp : NoPending s) :
    loopStmtsBroken (fun st => run n (.stmt st)) b s = some (s, false) := by
  have hs' : stop { s with inLoop := true } = true := hs
  rw [loopStmtsBroken_eq,
    foldBody_fixed _ { s with inLoop := true } (fun st => run_stmt_stopped hn st _ hs') hp b]

theorem run_whl_stopped {n : Nat} (hn : 1 ≤ n) (u : Bool) (c b : Prog) (s : St)
    (hs : stop s = true) : run n (.whl u c b) s = some s := by
  cases n with
  | zero => omega
  | succ m => simp [run, hs]

theorem simW_step (n : Nat) (hS : SimS n) (hW : SimW n) : SimW (n+1) := by
  intro K k sub u c b s hst hs hd hl hnf hnp
  simp only [supCmd, Bool.and_eq_true, Bool.not_eq_eq_eq_not, Bool.not_true] at hs
  obtain ⟨⟨⟨⟨hc0, hsc⟩, hb0⟩, hsb⟩, hlz⟩ := hs
  have hsup : supCmd K (.whl u c b) = true := by
    simp [supCmd, hc0, hsc, hb0, hsb, hlz]
  rw [run_whl n u c b s (not_stop hnf), sem_loop]
  -- the condition
  have hstc : Stat (condK K) { k with ign := true, depth := k.depth + 1 } sub :=
    ⟨hst.kt, fun _ => rfl, fun _ h' => by simp [condK] at h', hst.kfn,
      by have := hst.depth; simp [condK, headFalse_length]; omega, hst.top⟩
  have hdc : Dyn (condK K) { k with ign := true, depth := k.depth + 1 } sub { s with noErrExit := true } :=
    ⟨hd.cerr, hd.csub, hd.fok, hd.ht, fun _ => rfl, hd.noe, hd.sfn,
      fun hne => hd.inl ((headFalse_ne_nil K.tl).1 hne)⟩
  have h0 := sim_list n hS c (condK K) false { k with ign := true, depth := k.depth + 1 } sub
    { s with noErrExit := true } hc0 hstc hsc hdc hl hnf hnp
  have hae : absEnv { s with noErrExit := true } = absEnv s := rfl
  rw [hae] at h0
  cases hr : foldStmts (fun st => run n (.stmt st)) c { s with noErrExit := true } with
  | none => rw [hr] at h0; rw [Rel_none h0]; trivial
  | some s1 =>
    rw [hr] at h0
    obtain ⟨fl, e1, he, hpc⟩ := Rel_some h0
    rw [he]
    have hn1 : 1 ≤ n := foldStmts_pos hc0 hr
    cases fl with
    | norm =>
      obtain ⟨h1, h2, h3, h4, h5, h6, _⟩ := hpc
      subst h1
      have hle : s1.lastExit = s1.exit := h6 trivial
      have hcl : s1.exit.clear = {} := clear_of_noFlags h4.1 h4.2
      have hst0 : ((absEnvC s1).status == 0) = s1.exit.ok := by simp [absEnvC, Exit.ok]
      simp only [hst0]
      have hd3 : Dyn K k sub { s1 with noErrExit := s.noErrExit, exit := s1.exit.clear } :=
        ⟨h2.cerr, h2.csub, h2.fok, h2.ht, hd.eign, h2.noe, h2.sfn,
          fun hne => h2.inl ((headFalse_ne_nil K.tl).2 hne)⟩
      have hf3 : Frame s { s1 with noErrExit := s.noErrExit, exit := s1.exit.clear } :=
        ⟨rfl, h3.il, h3.inf⟩
      have hl3 : LastOk { s1 with noErrExit := s.noErrExit, exit := s1.exit.clear } :=
        (LastOk_of_le hle h4 : LastOk s1)
      have hnf3 : NoFlags { s1 with noErrExit := s.noErrExit, exit := s1.exit.clear } := by
        simp [NoFlags, hcl]
      by_cases hstop : (s1.exit.ok == u) = true
      · rw [if_pos hstop, if_pos hstop]
        simp only [Rel, Post]
        refine ⟨?_, hd3, hf3, hnf3, h5, fun h => h.elim, fun _ hne => ?_⟩
        · simp [absEnvC, hcl]
        · simp [hcl] at hne
      · rw [if_neg hstop, if_neg hstop]
        have hae3 : absEnvC s1 = absEnv { s1 with noErrExit := s.noErrExit, exit := s1.exit.clear } := by
          simp [absEnv, absEnvC, hle]
        rw [hae3]
        have hit := sim_iter hS True False b { s1 with noErrExit := s.noErrExit, exit := s1.exit.clear }
          hst hb0 hsb (fun _ => hlz) (fun h => h.elim) hd3 hl3 hnf3 h5
        cases hlb : loopStmtsBroken (fun st => run n (.stmt st)) b
            { s1 with noErrExit := s.noErrExit, exit := s1.exit.clear } with
        | none =>
          rw [hlb] at hit
          cases hsb2 : seqList (fun st => sem n { k with depth := k.depth + 1 } (.stmt st)) b
              (absEnv { s1 with noErrExit := s.noErrExit, exit := s1.exit.clear }) with
          | none => trivial
          | some r => rw [hsb2] at hit; exact absurd hit (by simp [IterRel])
        | some r =>
          obtain ⟨s4, br⟩ := r
          rw [hlb] at hit
          cases hsb2 : seqList (fun st => sem n { k with depth := k.depth + 1 } (.stmt st)) b
              (absEnv { s1 with noErrExit := s.noErrExit, exit := s1.exit.clear }) with
          | none => rw [hsb2] at hit; exact absurd hit (by simp [IterRel])
          | some pr =>
            obtain ⟨fl2, e2⟩ := pr
            rw [hsb2] at hit
            simp only
            rcases hit with ⟨hab, hbr, hd4, hf4, hl4, hnf4, hnp4, he2, hst2, _, hz4, _⟩ | ⟨hab, hpo, hbs⟩
            · -- next iteration
              subst hbr
              have hz0 : s4.exit.code = 0 := hz4 trivial
              have hab' : afterBody fl2 = (false, (afterBody fl2).2) := by
                rw [← hab]
              rw [hab']
              simp only [Bool.false_eq_true, ↓reduceIte]
              rw [hst2, hz0, he2]
              have := hW K k sub u c b s4 hst hsup hd4 hl4 hnf4 hnp4
              exact Rel_mono (fun _ _ _ h => h.frame_trans (hf3.trans hf4)) this
            · -- the loop is left
              have hab' : afterBody fl2 = (true, (afterBody fl2).2) := by
                rw [← hab]
              rw [hab']
              simp only
              have hpo' := hpo.frame_trans hf3
              rcases hbs with hbs | hbs
              · subst hbs
                simp only [↓reduceIte]
                exact hpo'
              · cases br with
                | true => simp only [↓reduceIte]; exact hpo'
                | false =>
                  simp only [Bool.false_eq_true, ↓reduceIte]
                  cases n with
                  | zero => omega
                  | succ m =>
                    rw [run]
                    simp only [hbs, ↓reduceIte]
                    exact hpo'
    | brk m =>
      obtain ⟨_, _, _, _, _, _, hlv, _⟩ := hpc
      exact absurd hlv (not_levels_headFalse K m)
    | cont m =>
      obtain ⟨_, _, _, _, _, _, hlv, _⟩ := hpc
      exact absurd hlv (not_levels_headFalse K m)
    | ret =>
      have hs1 : stop s1 = true := hpc.stopped (Or.inl rfl)
      have hnp1 : NoPending s1 := hpc.noPending_of_stopped (Or.inl rfl)
      have hfl : s1.exit.returning = true := hpc.2.2.2.2.1
      have hpost := hpc.uncond (q' := True) hd (by simp)
      dsimp only
      rw [clear_of_flag (Or.inl hfl)]
      have hs3 : stop { s1 with noErrExit := s.noErrExit, exit := s1.exit } = true := hs1
      simp only [afterBody]
      by_cases hstop : (s1.exit.ok == u) = true
      · rw [if_pos hstop]; exact hpost
      · rw [if_neg hstop, loopStmtsBroken_stopped hn1 b _ hs3 hnp1]
        simp only [Bool.false_eq_true, ↓reduceIte]
        rw [run_whl_stopped hn1 u c b _ hs3]
        exact hpost
    | exit =>
      have hs1 : stop s1 = true := hpc.stopped (Or.inr rfl)
      have hnp1 : NoPending s1 := hpc.noPending_of_stopped (Or.inr rfl)
      have hfl : s1.exit.exiting = true := hpc.1
      have hpost := hpc.uncond (q' := True) hd (by simp)
      dsimp only
      rw [clear_of_flag (Or.inr hfl)]
      have hs3 : stop { s1 with noErrExit := s.noErrExit, exit := s1.exit } = true := hs1
      simp only [afterBody]
      by_cases hstop : (s1.exit.ok == u) = true
      · rw [if_pos hstop]; exact hpost
      · rw [if_neg hstop, loopStmtsBroken_stopped hn1 b _ hs3 hnp1]
        simp only [Bool.false_eq_true, ↓reduceIte]
        rw [run_whl_stopped hn1 u c b _ hs3]
        exact hpost

end ShVerif.C26
