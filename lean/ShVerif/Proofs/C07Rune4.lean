/-
  C07 — `rune` refinement: EOF branch and one pass from `retry:`.
-/
import ShVerif.Proofs.C07Rune3
namespace ShVerif.C07
open ShVerif ShVerif.L2
set_option linter.unusedSimpArgs false

theorem atEOF_refines {s a} (h : R s a) (hrest : a.rest = []) (hb0 : a.behind = none)
    (hh : a.halted = false) : R (St.runeAtEOF s) (LSt.runeAtEOF a) := by
  have hf := h.front_nil hrest
  unfold St.runeAtEOF LSt.runeAtEOF
  have hr := h.f_r
  cases he : a.err with
  | some e =>
    have hd := h.dead (by simp [he])
    have hre : a.r = runeEOF := by rw [hr]; exact hd.2.2.2
    simp only [hre, beq_self_eq_true, if_true]
    destruct_R h
    r_close
  | none =>
    have hp := h.pending_nil he hrest
    have ha := h.alive he
    by_cases hre : a.r = runeEOF
    · have := h.eofR he (by rw [← hr]; exact hre) hh
      simp only [hre, beq_self_eq_true, if_true]
      destruct_R h
      r_close
    · have e : (a.r == runeEOF) = false := by simp [hre]
      simp only [e, Bool.false_eq_true, if_false]
      have hcur : s.bsp = s.back.length := h.cursor_of_ne hre
      destruct_R h
      r_close

theorem runeStep_refines {s a} (bq : Nat) (h : R s a) (hh : a.halted = false) :
    ∃ st, St.runeStep bq s = .ok st ∧ StepR st (LSt.runeStep bq a) := by
  have h0 := h.forget
  have hb0 := forget_behind a
  have hh0 : a.forget.halted = false := hh
  unfold LSt.runeStep
  simp only
  generalize a.forget = a0 at h0 hb0 hh0 ⊢
  unfold St.runeStep
  -- the part after a byte is known to be in the buffer
  have key : ∀ (s1 : St) (b : Byte) (f : List Byte), R s1 a0 → s1.front = b :: f →
      ∃ st, St.runeBody b bq s1 = .ok st ∧ StepR st (LSt.runeBody b bq a0) := by
    intro s1 b f hR1 hf1
    obtain ⟨hal, hrest⟩ := hR1.head hf1
    have hRl : R s1 { a0 with look := max a0.look 1 } := by
      apply hR1.setLook
      intro _
      rcases hR1.look hal with hl | hl
      · left; simp [hf1] at hl ⊢; omega
      · right; exact hl
    have hbl : ({ a0 with look := max a0.look 1 } : LSt).behind = none := hb0
    have hhl : ({ a0 with look := max a0.look 1 } : LSt).halted = false := hh0
    unfold LSt.runeBody
    unfold St.runeBody
    simp only
    generalize ({ a0 with look := max a0.look 1 } : LSt) = al at hRl hbl hhl ⊢
    by_cases hb7 : b.toNat < 0x80
    · simp only [hb7, if_true]
      exact runeAscii_refines b f bq hRl hbl hf1 hb7 hhl
    · simp only [hb7, if_false]
      obtain ⟨s2, h2, hR2⟩ := runeDecode_refines hRl hbl hf1 hhl
      exact ⟨St.Step.done s2, by simp [h2], hR2⟩
  cases hf : s.front with
  | cons b f =>
    simp only [List.isEmpty_cons, Bool.false_eq_true, if_false, bind_ok, pure_eq_ok]
    obtain ⟨hal, hrest⟩ := h0.head hf
    rw [hrest]
    simpa [hf] using key s b f h0 hf
  | nil =>
    obtain ⟨n, s', h1, h2, h3, h4, h5⟩ := ensure1 h0 hb0 hh0 hf
    simp only [List.isEmpty_nil, if_true, h1, bind_ok, pure_eq_ok]
    cases hr : a0.rest with
    | nil =>
      have hn : n = 0 := h3.2 hr
      simp only [hn, beq_self_eq_true, if_true]
      exact ⟨_, rfl, atEOF_refines h2 hr hb0 hh0⟩
    | cons b t =>
      have hn : ¬ n = 0 := fun hx => by have := h3.1 hx; simp [hr] at this
      have e0 : (n == 0) = false := by simp [hn]
      simp only [e0, Bool.false_eq_true, if_false]
      have hne := h4 (by simp [hr])
      cases hf' : s'.front with
      | nil => exact absurd hf' hne
      | cons b' f' =>
        obtain ⟨_, hrest⟩ := h2.head hf'
        rw [hr] at hrest
        injection hrest with hbb _
        subst hbb
        simpa [hf'] using key s' b f' h2 hf'

end ShVerif.C07
