/-
  C07 — `rune` refinement, end: EOF branch, one step, the retry loop, `rune`.
-/
import ShVerif.Proofs.C07Rune3
namespace ShVerif.C07
open ShVerif ShVerif.L2
set_option linter.unusedSimpArgs false

/-- the part of the spec's `runeAtEOF` after its `fillE` -/
def atEOFTail (a : LSt) : LSt :=
  let a := match a.buf with
    | some (0, bp) => { a with consumed := a.consumed - bp + 1, buf := some (0, 1) }
    | _ => a
  { a with r := runeEOF, w := 1 }

theorem runeAtEOF_eq (a : LSt) : LSt.runeAtEOF a = atEOFTail a.fillE := rfl

theorem atEOF_refines {s a} (h : R s a) (hrest : a.rest = []) (hb0 : a.behind = none)
    (hre : a.err = none → a.readErr = true) : R (St.runeAtEOF s) (atEOFTail a) := by
  have hf := h.front_nil hrest
  unfold St.runeAtEOF atEOFTail
  cases he : a.err with
  | some e =>
    have hd := h.dead (by simp [he])
    rcases hb : a.buf with _ | ⟨bl, bp⟩
    · simp only
      by_cases h0 : s.blen = 0
      · simp only [h0, beq_self_eq_true, if_true]
        destruct_R h
        constructor <;> simp_all <;> (try assumption) <;> (try omega)
      · have e0 : (s.blen == 0) = false := by simp [h0]
        simp only [e0, Bool.false_eq_true, if_false]
        destruct_R h
        constructor <;> simp_all <;> (try assumption) <;> (try omega)
    · have hv := h.bufV bl bp hb
      cases bl with
      | zero =>
        have h0 : s.blen = 0 := hv.1
        simp only [h0, beq_self_eq_true, if_true]
        destruct_R h
        constructor <;> simp_all <;> (try assumption) <;> (try omega)
      | succ k =>
        have e0 : (s.blen == 0) = false := by simp [hv.1]
        simp only [e0, Bool.false_eq_true, if_false]
        destruct_R h
        constructor <;> simp_all <;> (try assumption) <;> (try omega)
  | none =>
    have hrerr := hre he
    have ha := h.alive he
    have hs : a.buf.isSome = true := by rw [h.bufS, ← h.f_readErr]; exact hrerr
    rcases hb : a.buf with _ | ⟨bl, bp⟩
    · rw [hb] at hs; simp at hs
    · have hv := h.bufV bl bp hb
      have hpn := h.errP (by rw [← h.f_readErr]; exact hrerr)
      cases bl with
      | zero =>
        have h0 : s.blen = 0 := hv.1
        simp only [h0, beq_self_eq_true, if_true]
        destruct_R h
        constructor <;> simp_all <;> (try assumption) <;> (try omega)
      | succ k =>
        have e0 : (s.blen == 0) = false := by simp [hv.1]
        simp only [e0, Bool.false_eq_true, if_false]
        destruct_R h
        constructor <;> simp_all <;> (try assumption) <;> (try omega)

theorem fillE_readErr {s a} (h : R s a) (hal : a.err = none) (_hp : s.pending = []) :
    a.fillE.readErr = true := by
  unfold LSt.fillE
  by_cases h1 : (a.readEOF || a.r == runeEOF) = true
  · simp only [h1, if_true]
    simp at h1
    rcases h1 with h1 | h1
    · rw [h.f_readErr]; exact h.eofE (by rw [← h.f_readEOF]; exact h1)
    · rw [h.f_readErr]; exact (h.eofR hal (by rw [← h.f_r]; exact h1)).1
  · have e : (a.readEOF || a.r == runeEOF) = false := by simpa using h1
    simp only [e, Bool.false_eq_true, if_false]
    by_cases hre : a.readErr = true <;> simp [hre]

theorem runeStep_refines {s a} (bq : Nat) (h : R s a)
    (hok : (LSt.runeStep bq a).st.ok = true) :
    ∃ st, St.runeStep bq s = .ok st ∧ StepR st (LSt.runeStep bq a) := by
  have h0 := h.forget
  have hb0 := forget_behind a
  unfold LSt.runeStep at hok ⊢
  simp only at hok ⊢
  generalize a.forget = a0 at h0 hb0 hok ⊢
  unfold St.runeStep
  -- the part after a byte is known to be in the buffer
  have key : ∀ (s1 : St) (b : Byte) (f : List Byte), R s1 a0 → s1.front = b :: f →
      (LSt.runeBody b bq a0).st.ok = true →
      ∃ st, St.runeBody b bq s1 = .ok st ∧ StepR st (LSt.runeBody b bq a0) := by
    intro s1 b f hR1 hf1 hok1
    obtain ⟨hal, hrest⟩ := hR1.head hf1
    have hRl : R s1 { a0 with look := max a0.look 1 } := by
      apply hR1.setLook
      intro _
      rcases hR1.look hal with hl | hl
      · left; simp [hf1] at hl ⊢; omega
      · right; exact hl
    have hbl : ({ a0 with look := max a0.look 1 } : LSt).behind = none := hb0
    unfold LSt.runeBody at hok1 ⊢
    unfold St.runeBody
    simp only at hok1 ⊢
    generalize ({ a0 with look := max a0.look 1 } : LSt) = al at hok1 hRl hbl ⊢
    by_cases hb7 : b.toNat < 0x80
    · simp only [hb7, if_true] at hok1 ⊢
      exact runeAscii_refines b f bq hRl hbl hf1 hb7 hok1
    · simp only [hb7, if_false] at hok1 ⊢
      obtain ⟨s2, h2, hR2⟩ := runeDecode_refines hRl hbl hf1
      exact ⟨St.Step.done s2, by simp [h2], hR2⟩
  cases hf : s.front with
  | cons b f =>
    simp only [List.isEmpty_cons, Bool.false_eq_true, if_false, bind_ok, pure_eq_ok]
    obtain ⟨hal, hrest⟩ := h0.head hf
    rw [hrest] at hok ⊢
    simpa [hf] using key s b f h0 hf hok
  | nil =>
    obtain ⟨n, s', h1, h2, h3, h4⟩ := ensure1 h0 hb0 hf
    simp only [List.isEmpty_nil, if_true, h1, bind_ok, pure_eq_ok]
    cases hr : a0.rest with
    | nil =>
      have hn : n = 0 := h3.2 hr
      have he : a0.rest.isEmpty = true := by simp [hr]
      simp only [he, if_true] at h2
      simp only [hn, beq_self_eq_true, if_true]
      refine ⟨_, rfl, ?_⟩
      rw [runeAtEOF_eq]
      apply atEOF_refines h2 (by simpa using hr) (by simpa using hb0)
      intro hal
      have hal0 : a0.err = none := by simpa using hal
      exact fillE_readErr h0 hal0 (h0.pending_nil hal0 hr)
    | cons b t =>
      have hn : ¬ n = 0 := fun hh => by have := h3.1 hh; simp [hr] at this
      have he : a0.rest.isEmpty = false := by simp [hr]
      simp only [he, Bool.false_eq_true, if_false] at h2
      have e0 : (n == 0) = false := by simp [hn]
      simp only [e0, Bool.false_eq_true, if_false]
      have hne := h4 (by simp [hr])
      cases hf' : s'.front with
      | nil => exact absurd hf' hne
      | cons b' f' =>
        obtain ⟨_, hrest⟩ := h2.head hf'
        rw [hr] at hrest
        injection hrest with hbb _
        subst hbb
        rw [hr] at hok
        simpa [hf'] using key s' b f' h2 hf' hok

end ShVerif.C07
