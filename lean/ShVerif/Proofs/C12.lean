import ShVerif.Model.C12
/-
  C12 — helper lemmas: the model parser `parse c` recognises exactly `Derives c .program`.
  Part 1: the token-list loops.  Part 2: soundness (by induction on fuel).  Part 3: completeness
  (by induction on the derivation, with an explicit fuel bound).
-/
namespace ShVerif.C12
open Tok

/-! ### Part 1: loops without recursion into statements -/

theorem nls_succ (k : Nat) : nls (k+1) = nl :: nls k := rfl
theorem nls_zero : nls 0 = [] := rfl

theorem skipNL_spec (ts : List Tok) :
    ∃ k, ts = nls k ++ skipNL ts ∧ (skipNL ts).head? ≠ some nl := by
  induction ts with
  | nil => exact ⟨0, rfl, by simp [skipNL]⟩
  | cons t r ih =>
    by_cases h : t = nl
    · subst h
      obtain ⟨k, h1, h2⟩ := ih
      refine ⟨k+1, ?_, ?_⟩
      · simp only [skipNL, nls_succ, List.cons_append]; rw [← h1]
      · simpa [skipNL] using h2
    · refine ⟨0, ?_, ?_⟩
      · cases t <;> simp_all [skipNL, nls]
      · cases t <;> simp_all [skipNL]

theorem skipNL_nls_append (k : Nat) (r : List Tok) : skipNL (nls k ++ r) = skipNL r := by
  induction k with
  | zero => rfl
  | succ k ih => simpa [nls_succ, skipNL] using ih

theorem skipNL_of_head {r : List Tok} (h : r.head? ≠ some nl) : skipNL r = r := by
  cases r with
  | nil => rfl
  | cons t r => cases t <;> simp_all [skipNL]

theorem redirs_sound : ∀ (ts : List Tok) {b : Bool} {r : List Tok}, redirs ts = some (b, r) →
    ∃ pr, Redirs pr ∧ ts = pr ++ r ∧ b = !pr.isEmpty ∧ r.head? ≠ some io
  | [], b, r, h => by
    simp [redirs] at h
    obtain ⟨rfl, rfl⟩ := h
    exact ⟨[], .nil, rfl, rfl, by simp⟩
  | [t], b, r, h => by
    cases t <;> simp [redirs] at h <;>
      (obtain ⟨rfl, rfl⟩ := h; exact ⟨[], .nil, rfl, rfl, by simp⟩)
  | t :: w :: r', b, r, h => by
    by_cases ht : t = io
    · subst ht
      simp only [redirs] at h
      split at h
      · rename_i hw
        split at h
        · rename_i b' r'' heq
          cases h
          obtain ⟨pr, h1, h2, _, h4⟩ := redirs_sound r' heq
          exact ⟨io :: w :: pr, .cons hw h1, by simp [h2], by simp, h4⟩
        · cases h
      · cases h
    · have : redirs (t :: w :: r') = some (false, t :: w :: r') := by
        cases t <;> first | rfl | exact absurd rfl ht
      rw [this] at h
      cases h
      exact ⟨[], .nil, rfl, rfl, by simpa using ht⟩

theorem redirs_complete {pr : List Tok} (h : Redirs pr) (rest : List Tok) (hr : rest.head? ≠ some io) :
    redirs (pr ++ rest) = some (!pr.isEmpty, rest) := by
  induction h with
  | nil =>
    cases rest with
    | nil => rfl
    | cons t r => cases t <;> first | rfl | simp at hr
  | @cons w r hw _ ih => simp [redirs, hw, ih]

theorem callExpr_cons {q : Q} {t : Tok} {r : List Tok} (h : t ≠ io) :
    callExpr q (t :: r) = if callStop t then some (t :: r) else if wordLike t then callExpr q r
      else if t = rparen then (if q = .sub then some (t :: r) else none) else none := by
  cases t <;> first | rfl | exact absurd rfl h

theorem openOK_of_callStop {q : Q} {t : Tok} (h : callStop t = true) : openOK q (some t) = true := by
  simp [openOK, h]

theorem callExpr_sound (q : Q) : ∀ (ts : List Tok) {r : List Tok}, callExpr q ts = some r →
    ∃ its, Items its ∧ ts = its ++ r ∧ openOK q r.head? = true
  | [], r, h => by
    simp [callExpr] at h; subst h; exact ⟨[], .nil, rfl, rfl⟩
  | [t], r, h => by
    by_cases ht : t = io
    · subst ht; simp [callExpr] at h
    · rw [callExpr_cons ht] at h
      split at h
      · rename_i hc; cases h; exact ⟨[], .nil, rfl, openOK_of_callStop hc⟩
      · split at h
        · rename_i hw
          simp [callExpr] at h; subst h
          exact ⟨[t], .arg hw .nil, rfl, rfl⟩
        · split at h
          · rename_i hp
            split at h
            · rename_i hq; cases h; subst hp; subst hq; exact ⟨[], .nil, rfl, by simp [openOK]⟩
            · cases h
          · cases h
  | t :: w :: r', r, h => by
    by_cases ht : t = io
    · subst ht
      simp only [callExpr] at h
      split at h
      · rename_i hw
        obtain ⟨its, h1, h2, h3⟩ := callExpr_sound q r' h
        exact ⟨io :: w :: its, .redir hw h1, by simp [h2], h3⟩
      · cases h
    · rw [callExpr_cons ht] at h
      split at h
      · rename_i hc; cases h; exact ⟨[], .nil, rfl, openOK_of_callStop hc⟩
      · split at h
        · rename_i hw
          obtain ⟨its, h1, h2, h3⟩ := callExpr_sound q (w :: r') h
          exact ⟨t :: its, .arg hw h1, by simp [h2], h3⟩
        · split at h
          · rename_i hp
            split at h
            · rename_i hq; cases h; subst hp; subst hq; exact ⟨[], .nil, rfl, by simp [openOK]⟩
            · cases h
          · cases h

theorem wordLike_ne_io {t : Tok} (h : wordLike t = true) : t ≠ io := by
  intro h'; subst h'; simp [wordLike, isLitWord] at h

theorem wordLike_not_callStop {t : Tok} (h : wordLike t = true) : callStop t = false := by
  cases t <;> simp_all [wordLike, isLitWord, callStop]

theorem wordLike_not_stopTok {t : Tok} (h : wordLike t = true) : stopTok t = false := by
  cases t <;> simp_all [wordLike, isLitWord, callStop, stopTok]

theorem callExpr_stop {q : Q} (rest : List Tok) (h : openOK q rest.head? = true) :
    callExpr q rest = some rest := by
  cases rest with
  | nil => rfl
  | cons t r =>
    simp only [List.head?, openOK, Bool.or_eq_true, Bool.and_eq_true, beq_iff_eq] at h
    have ht : t ≠ io := by rintro rfl; simp [callStop] at h
    rw [callExpr_cons ht]
    rcases h with h | ⟨h1, h2⟩
    · simp [h]
    · subst h1; subst h2; simp [callStop, wordLike, isLitWord]

theorem callExpr_complete {q : Q} {its : List Tok} (h : Items its) (rest : List Tok)
    (hr : openOK q rest.head? = true) : callExpr q (its ++ rest) = some rest := by
  induction h with
  | nil => exact callExpr_stop rest hr
  | @arg t r hw _ ih =>
    rw [List.cons_append, callExpr_cons (wordLike_ne_io hw)]
    simp [wordLike_not_callStop hw, hw, ih]
  | @redir w r hw _ ih => simp [callExpr, hw, ih]

theorem forWords_sound : ∀ (ts : List Tok) {r : List Tok}, forWords ts = some r →
    ∃ ws, Words ws ∧ ts = ws ++ r ∧ (r = [] ∨ ∃ t r', r = t :: r' ∧ stopTok t = true)
  | [], r, h => by simp [forWords] at h; subst h; exact ⟨[], .nil, rfl, .inl rfl⟩
  | t :: r', r, h => by
    simp only [forWords] at h
    split at h
    · rename_i hs; cases h; exact ⟨[], .nil, rfl, .inr ⟨t, r', rfl, hs⟩⟩
    · split at h
      · rename_i hw
        obtain ⟨ws, h1, h2, h3⟩ := forWords_sound r' h
        exact ⟨t :: ws, .cons hw h1, by simp [h2], h3⟩
      · cases h

theorem forWords_complete {ws : List Tok} (h : Words ws) (rest : List Tok)
    (hr : rest = [] ∨ ∃ t r', rest = t :: r' ∧ stopTok t = true) :
    forWords (ws ++ rest) = some rest := by
  induction h with
  | nil =>
    rcases hr with rfl | ⟨t, r', rfl, hs⟩
    · rfl
    · simp [forWords, hs]
  | @cons t r hw _ ih => simp [forWords, wordLike_not_stopTok hw, hw, ih]

theorem patterns_sound : ∀ (ts : List Tok) {r : List Tok}, patterns ts = some r →
    ∃ pat, Pats pat ∧ ts = pat ++ r
  | [], r, h => by simp [patterns] at h
  | [w], r, h => by simp [patterns] at h
  | w :: t :: r', r, h => by
    by_cases h1 : t = rparen
    · subst h1
      simp only [patterns] at h
      split at h
      · rename_i hw; cases h; exact ⟨[w, rparen], .one hw, rfl⟩
      · cases h
    · by_cases h2 : t = pipe
      · subst h2
        simp only [patterns] at h
        split at h
        · rename_i hw
          obtain ⟨pat, hp, he⟩ := patterns_sound r' h
          exact ⟨w :: pipe :: pat, .more hw hp, by simp [he]⟩
        · cases h
      · have : patterns (w :: t :: r') = none := by
          cases t <;> first | rfl | exact absurd rfl h1 | exact absurd rfl h2
        rw [this] at h; cases h

theorem patterns_complete {pat : List Tok} (h : Pats pat) (rest : List Tok) :
    patterns (pat ++ rest) = some rest := by
  induction h with
  | @one w hw => simp [patterns, hw]
  | @more w r hw _ ih => simp [patterns, hw, ih]

theorem nls_head_ne {k : Nat} {t : Tok} {r : List Tok} (h : t ≠ nl) :
    (nls k ++ t :: r).head? ≠ some nl ∨ k ≠ 0 := by
  cases k with
  | zero => left; simpa [nls] using h
  | succ k => right; simp

theorem skipNL_nls_cons {k : Nat} {t : Tok} {r : List Tok} (h : t ≠ nl) :
    skipNL (nls k ++ t :: r) = t :: r := by
  rw [skipNL_nls_append]; exact skipNL_of_head (by simpa using h)

end ShVerif.C12
