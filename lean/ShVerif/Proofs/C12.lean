import ShVerif.Model.C12
/-
  C12 — helper lemmas: the model parser `parse c` recognises exactly `Derives c .program`.
  Part 1: the token-list loops.  Part 2: soundness (by induction on fuel).  Part 3: completeness
  (by induction on the derivation, with an explicit fuel bound).
-/
namespace ShVerif.C12
open Tok

/-! ### Part 1: loops without recursion into statements -/

theorem nls_succ (k : Nat) : nls (k+1) = nl :: nls k := rfl
theorem nls_zero : nls 0 = [] := rfl

theorem skipNL_spec (ts : List Tok) :
    ∃ k, ts = nls k ++ skipNL ts ∧ (skipNL ts).head? ≠ some nl := by
  induction ts with
  | nil => exact ⟨0, rfl, by simp [skipNL]⟩
  | cons t r ih =>
    by_cases h : t = nl
    · subst h
      obtain ⟨k, h1, h2⟩ := ih
      refine ⟨k+1, ?_, ?_⟩
      · simp only [skipNL, nls_succ, List.cons_append]; rw [← h1]
      · simpa [skipNL] using h2
    · refine ⟨0, ?_, ?_⟩
      · cases t <;> simp_all [skipNL, nls]
      · cases t <;> simp_all [skipNL]

theorem skipNL_nls_append (k : Nat) (r : List Tok) : skipNL (nls k ++ r) = skipNL r := by
  induction k with
  | zero => rfl
  | succ k ih => simpa [nls_succ, skipNL] using ih

theorem skipNL_of_head {r : List Tok} (h : r.head? ≠ some nl) : skipNL r = r := by
  cases r with
  | nil => rfl
  | cons t r => cases t <;> simp_all [skipNL]

theorem redirs_sound : ∀ (ts : List Tok) {b : Bool} {r : List Tok}, redirs ts = some (b, r) →
    ∃ pr, Redirs pr ∧ ts = pr ++ r ∧ b = !pr.isEmpty ∧ r.head? ≠ some io
  | [], b, r, h => by
    simp [redirs] at h
    obtain ⟨rfl, rfl⟩ := h
    exact ⟨[], .nil, rfl, rfl, by simp⟩
  | [t], b, r, h => by
    cases t <;> simp [redirs] at h <;>
      (obtain ⟨rfl, rfl⟩ := h; exact ⟨[], .nil, rfl, rfl, by simp⟩)
  | t :: w :: r', b, r, h => by
    by_cases ht : t = io
    · subst ht
      simp only [redirs] at h
      split at h
      · rename_i hw
        split at h
        · rename_i b' r'' heq
          cases h
          obtain ⟨pr, h1, h2, _, h4⟩ := redirs_sound r' heq
          exact ⟨io :: w :: pr, .cons hw h1, by simp [h2], by simp, h4⟩
        · cases h
      · cases h
    · have : redirs (t :: w :: r') = some (false, t :: w :: r') := by
        cases t <;> first | rfl | exact absurd rfl ht
      rw [this] at h
      cases h
      exact ⟨[], .nil, rfl, rfl, by simpa using ht⟩

theorem redirs_complete {pr : List Tok} (h : Redirs pr) (rest : List Tok) (hr : rest.head? ≠ some io) :
    redirs (pr ++ rest) = some (!pr.isEmpty, rest) := by
  induction h with
  | nil =>
    cases rest with
    | nil => rfl
    | cons t r => cases t <;> first | rfl | simp at hr
  | @cons w r hw _ ih => simp [redirs, hw, ih]

theorem callExpr_cons {q : Q} {t : Tok} {r : List Tok} (h : t ≠ io) :
    callExpr q (t :: r) = if callStop t then some (t :: r) else if wordLike t then callExpr q r
      else if t = rparen then (if q = .sub then some (t :: r) else none) else none := by
  cases t <;> first | rfl | exact absurd rfl h

theorem openOK_of_callStop {q : Q} {t : Tok} (h : callStop t = true) : openOK q (some t) = true := by
  simp [openOK, h]

theorem callExpr_sound (q : Q) : ∀ (ts : List Tok) {r : List Tok}, callExpr q ts = some r →
    ∃ its, Items its ∧ ts = its ++ r ∧ openOK q r.head? = true
  | [], r, h => by
    simp [callExpr] at h; subst h; exact ⟨[], .nil, rfl, rfl⟩
  | [t], r, h => by
    by_cases ht : t = io
    · subst ht; simp [callExpr] at h
    · rw [callExpr_cons ht] at h
      split at h
      · rename_i hc; cases h; exact ⟨[], .nil, rfl, openOK_of_callStop hc⟩
      · split at h
        · rename_i hw
          simp [callExpr] at h; subst h
          exact ⟨[t], .arg hw .nil, rfl, rfl⟩
        · split at h
          · rename_i hp
            split at h
            · rename_i hq; cases h; subst hp; subst hq; exact ⟨[], .nil, rfl, by simp [openOK]⟩
            · cases h
          · cases h
  | t :: w :: r', r, h => by
    by_cases ht : t = io
    · subst ht
      simp only [callExpr] at h
      split at h
      · rename_i hw
        obtain ⟨its, h1, h2, h3⟩ := callExpr_sound q r' h
        exact ⟨io :: w :: its, .redir hw h1, by simp [h2], h3⟩
      · cases h
    · rw [callExpr_cons ht] at h
      split at h
      · rename_i hc; cases h; exact ⟨[], .nil, rfl, openOK_of_callStop hc⟩
      · split at h
        · rename_i hw
          obtain ⟨its, h1, h2, h3⟩ := callExpr_sound q (w :: r') h
          exact ⟨t :: its, .arg hw h1, by simp [h2], h3⟩
        · split at h
          · rename_i hp
            split at h
            · rename_i hq; cases h; subst hp; subst hq; exact ⟨[], .nil, rfl, by simp [openOK]⟩
            · cases h
          · cases h

theorem wordLike_ne_io {t : Tok} (h : wordLike t = true) : t ≠ io := by
  intro h'; subst h'; simp [wordLike, isLitWord] at h

theorem wordLike_not_callStop {t : Tok} (h : wordLike t = true) : callStop t = false := by
  cases t <;> simp_all [wordLike, isLitWord, callStop]

theorem wordLike_not_stopTok {t : Tok} (h : wordLike t = true) : stopTok t = false := by
  cases t <;> simp_all [wordLike, isLitWord, callStop, stopTok]

theorem callExpr_stop {q : Q} (rest : List Tok) (h : openOK q rest.head? = true) :
    callExpr q rest = some rest := by
  cases rest with
  | nil => rfl
  | cons t r =>
    simp only [List.head?, openOK, Bool.or_eq_true, Bool.and_eq_true, beq_iff_eq] at h
    have ht : t ≠ io := by rintro rfl; simp [callStop] at h
    rw [callExpr_cons ht]
    rcases h with h | ⟨h1, h2⟩
    · simp [h]
    · subst h1; subst h2; simp [callStop, wordLike, isLitWord]

theorem callExpr_complete {q : Q} {its : List Tok} (h : Items its) (rest : List Tok)
    (hr : openOK q rest.head? = true) : callExpr q (its ++ rest) = some rest := by
  induction h with
  | nil => exact callExpr_stop rest hr
  | @arg t r hw _ ih =>
    rw [List.cons_append, callExpr_cons (wordLike_ne_io hw)]
    simp [wordLike_not_callStop hw, hw, ih]
  | @redir w r hw _ ih => simp [callExpr, hw, ih]

theorem forWords_sound : ∀ (ts : List Tok) {r : List Tok}, forWords ts = some r →
    ∃ ws, Words ws ∧ ts = ws ++ r ∧ (r = [] ∨ ∃ t r', r = t :: r' ∧ stopTok t = true)
  | [], r, h => by simp [forWords] at h; subst h; exact ⟨[], .nil, rfl, .inl rfl⟩
  | t :: r', r, h => by
    simp only [forWords] at h
    split at h
    · rename_i hs; cases h; exact ⟨[], .nil, rfl, .inr ⟨t, r', rfl, hs⟩⟩
    · split at h
      · rename_i hw
        obtain ⟨ws, h1, h2, h3⟩ := forWords_sound r' h
        exact ⟨t :: ws, .cons hw h1, by simp [h2], h3⟩
      · cases h

theorem forWords_complete {ws : List Tok} (h : Words ws) (rest : List Tok)
    (hr : rest = [] ∨ ∃ t r', rest = t :: r' ∧ stopTok t = true) :
    forWords (ws ++ rest) = some rest := by
  induction h with
  | nil =>
    rcases hr with rfl | ⟨t, r', rfl, hs⟩
    · rfl
    · simp [forWords, hs]
  | @cons t r hw _ ih => simp [forWords, wordLike_not_stopTok hw, hw, ih]

theorem patterns_sound : ∀ (ts : List Tok) {r : List Tok}, patterns ts = some r →
    ∃ pat, Pats pat ∧ ts = pat ++ r
  | [], r, h => by simp [patterns] at h
  | [w], r, h => by simp [patterns] at h
  | w :: t :: r', r, h => by
    by_cases h1 : t = rparen
    · subst h1
      simp only [patterns] at h
      split at h
      · rename_i hw; cases h; exact ⟨[w, rparen], .one hw, rfl⟩
      · cases h
    · by_cases h2 : t = pipe
      · subst h2
        simp only [patterns] at h
        split at h
        · rename_i hw
          obtain ⟨pat, hp, he⟩ := patterns_sound r' h
          exact ⟨w :: pipe :: pat, .more hw hp, by simp [he]⟩
        · cases h
      · have : patterns (w :: t :: r') = none := by
          cases t <;> first | rfl | exact absurd rfl h1 | exact absurd rfl h2
        rw [this] at h; cases h

theorem patterns_complete {pat : List Tok} (h : Pats pat) (rest : List Tok) :
    patterns (pat ++ rest) = some rest := by
  induction h with
  | @one w hw => simp [patterns, hw]
  | @more w r hw _ ih => simp [patterns, hw, ih]

theorem nls_head_ne {k : Nat} {t : Tok} {r : List Tok} (h : t ≠ nl) :
    (nls k ++ t :: r).head? ≠ some nl ∨ k ≠ 0 := by
  cases k with
  | zero => left; simpa [nls] using h
  | succ k => right; simp

theorem skipNL_nls_cons {k : Nat} {t : Tok} {r : List Tok} (h : t ≠ nl) :
    skipNL (nls k ++ t :: r) = t :: r := by
  rw [skipNL_nls_append]; exact skipNL_of_head (by simpa using h)

theorem forIter_sound {r r2 : List Tok} (h : forIter r = some r2) :
    (∃ it b, ForIter it b ∧ r = it ++ r2 ∧ (b = false → r2.head? = some kDo)) ∨
    (r2 = [] ∨ ∃ t r', r2 = t :: r' ∧ stopTok t = true) := by
  unfold forIter at h
  split at h
  · rename_i r'
    cases h
    obtain ⟨k, h1, h2⟩ := skipNL_spec r'
    exact .inl ⟨semi :: nls k, true, .semi, by simp [← h1], by simp⟩
  · rename_i hns
    obtain ⟨k, h1, h2⟩ := skipNL_spec r
    split at h
    · rename_i r'' heq
      split at h
      · rename_i r3 hw
        cases h
        obtain ⟨ws, w1, w2, _⟩ := forWords_sound r'' hw
        obtain ⟨j, j1, j2⟩ := skipNL_spec r3
        refine .inl ⟨nls k ++ kIn :: ws ++ semi :: nls j, true, .inSemi w1, ?_, by simp⟩
        rw [h1, heq, w2]; simp [← j1]
      · rename_i r3 hns2 hw
        cases h
        obtain ⟨ws, w1, w2, w3⟩ := forWords_sound r'' hw
        obtain ⟨j, j1, j2⟩ := skipNL_spec r3
        cases j with
        | zero =>
          right
          simp only [nls, List.replicate, List.nil_append] at j1
          rw [← j1]
          exact w3
        | succ j =>
          refine .inl ⟨nls k ++ kIn :: ws ++ nl :: nls j, true, .inNl w1, ?_, by simp⟩
          rw [h1, heq, w2]
          conv => lhs; rw [j1]
          simp [nls_succ]
      · cases h
    · rename_i r'' heq
      cases h
      exact .inl ⟨nls k, false, .plain, by rw [h1, heq], by simp⟩
    · cases h

theorem forHead_sound {c : Cfg} {ts : List Tok} {close : Tok} {r2 : List Tok}
    (h : forHead c ts = some (close, r2)) : ∃ hd, ForHead c hd close ∧ ts = hd ++ r2 := by
  cases ts with
  | nil => simp [forHead] at h
  | cons nm r =>
    simp only [forHead] at h
    split at h
    · rename_i hn
      simp only [Bool.and_eq_true, Bool.or_eq_true, bne_iff_ne, ne_eq] at hn
      obtain ⟨hn1, hn2⟩ := hn
      cases hi : forIter r with
      | none => simp [hi] at h
      | some r1 =>
        simp only [hi, Option.bind] at h
        have ho : forOpen c r1 = some (close, r2) := h
        rcases forIter_sound hi with ⟨it, b, hit, hr, hb⟩ | hstop
        · unfold forOpen at ho
          split at ho
          · rename_i r2'
            split at ho
            · rename_i hfb
              cases ho
              cases b with
              | true => exact ⟨nm :: it ++ [lbrace], .brace hfb hn1 hn2 hit, by simp [hr]⟩
              | false => simp at hb
            · cases ho
          · cases ho
            exact ⟨nm :: it ++ [kDo], .doLoop hn1 hn2 hit, by simp [hr]⟩
          · cases ho
        · rcases hstop with rfl | ⟨t, r', rfl, ht⟩
          · simp [forOpen] at ho
          · cases t <;> simp [forOpen, stopTok, callStop] at ho ht
    · cases h

theorem forIter_complete {it : List Tok} {b : Bool} (h : ForIter it b) (o : Tok) (rest : List Tok)
    (ho : o = kDo ∨ (o = lbrace ∧ b = true)) : forIter (it ++ o :: rest) = some (o :: rest) := by
  have hon : o ≠ nl := by rcases ho with rfl | ⟨rfl, _⟩ <;> decide
  cases h with
  | @semi k => simp [forIter, skipNL_nls_cons hon]
  | @plain k =>
    rcases ho with rfl | ⟨_, hb⟩
    · unfold forIter
      split
      · rename_i r' heq
        cases k <;> simp [nls, List.replicate] at heq
      · simp [skipNL_nls_cons]
    · cases hb
  | @inSemi k ws j hw =>
    unfold forIter
    split
    · rename_i r' heq
      cases k <;> simp [nls, List.replicate] at heq
    · have : skipNL (nls k ++ kIn :: ws ++ semi :: nls j ++ o :: rest)
          = kIn :: (ws ++ (semi :: (nls j ++ o :: rest))) := by
        have := skipNL_nls_cons (k := k) (t := kIn) (r := ws ++ semi :: nls j ++ o :: rest) (by decide)
        simpa using this
      rw [this]
      simp only
      rw [forWords_complete hw _ (.inr ⟨semi, _, rfl, by decide⟩)]
      simp [skipNL_nls_cons hon]
  | @inNl k ws j hw =>
    unfold forIter
    split
    · rename_i r' heq
      cases k <;> simp [nls, List.replicate] at heq
    · have : skipNL (nls k ++ kIn :: ws ++ nl :: nls j ++ o :: rest)
          = kIn :: (ws ++ (nl :: (nls j ++ o :: rest))) := by
        have := skipNL_nls_cons (k := k) (t := kIn) (r := ws ++ nl :: nls j ++ o :: rest) (by decide)
        simpa using this
      rw [this]
      simp only
      rw [forWords_complete hw _ (.inr ⟨nl, _, rfl, by decide⟩)]
      simp [skipNL, skipNL_nls_cons hon]

theorem forHead_complete {c : Cfg} {hd : List Tok} {close : Tok} (h : ForHead c hd close)
    (rest : List Tok) : forHead c (hd ++ rest) = some (close, rest) := by
  cases h with
  | @doLoop nm it b hn1 hn2 hit =>
    have hn : (isLitWord nm && (nm != assign || c.forAssign)) = true := by
      rcases hn2 with h | h <;> simp [hn1, h]
    simp only [List.cons_append, List.append_assoc, forHead, hn, if_true, List.nil_append]
    rw [forIter_complete hit kDo rest (.inl rfl)]
    simp [Option.bind, forOpen]
  | @brace nm it hfb hn1 hn2 hit =>
    have hn : (isLitWord nm && (nm != assign || c.forAssign)) = true := by
      rcases hn2 with h | h <;> simp [hn1, h]
    simp only [List.cons_append, List.append_assoc, forHead, hn, if_true, List.nil_append]
    rw [forIter_complete hit lbrace rest (.inr ⟨rfl, rfl⟩)]
    simp [Option.bind, forOpen, hfb]

theorem caseHead_sound {ts r : List Tok} (h : caseHead ts = some r) :
    ∃ w k j, wordLike w = true ∧ ts = w :: nls k ++ kIn :: nls j ++ r := by
  cases ts with
  | nil => simp [caseHead] at h
  | cons w r0 =>
    simp only [caseHead] at h
    split at h
    · rename_i hw
      obtain ⟨k, k1, _⟩ := skipNL_spec r0
      split at h
      · rename_i r' heq
        cases h
        obtain ⟨j, j1, _⟩ := skipNL_spec r'
        refine ⟨w, k, j, hw, ?_⟩
        rw [k1, heq]
        conv => lhs; rw [j1]
        simp
      · cases h
    · cases h

theorem caseHead_complete {w : Tok} (hw : wordLike w = true) (k j : Nat) (rest : List Tok)
    (hr : rest.head? ≠ some nl) : caseHead (w :: nls k ++ kIn :: nls j ++ rest) = some rest := by
  have h1 : skipNL (nls k ++ kIn :: (nls j ++ rest)) = kIn :: (nls j ++ rest) :=
    skipNL_nls_cons (by decide)
  simp [caseHead, hw, h1, skipNL_nls_append, skipNL_of_head hr]

/-! ### Part 2: soundness -/

theorem allows_io (q : Q) (e : End) : allows q e (some io) = false := by
  cases e <;> simp [allows, openOK, callStop, notCont]

theorem allows_of_sub {q : Q} {e : End} {t : Tok} (ht : t ≠ rparen)
    (h : allows .sub e (some t) = true) : allows q e (some t) = true := by
  cases e <;> simp_all [allows, openOK]

theorem allows_none_of_sub {q : Q} {e : End} (h : allows .sub e none = true) :
    allows q e none = true := by
  cases e <;> simp_all [allows, openOK]

theorem allows_closed_of_ne {q : Q} {n : Option Tok} (h : n ≠ some io) : allows q .closed n = true := by
  simp [allows, h]

theorem list_nls {c : Cfg} {q stops a e ts} (k : Nat) (h : Derives c (.list q stops a) e ts) :
    Derives c (.list q stops a) e (nls k ++ ts) := by
  induction k with
  | zero => simpa [nls] using h
  | succ k ih => simpa [nls_succ] using Derives.l_nl ih

theorem nonempty_of_derives {c : Cfg} {nt e ts} (h : Derives c nt e ts) :
    (match nt with | .command _ _ => True | .compound _ => True | _ => False) → ts ≠ [] := by
  induction h <;> simp_all

theorem command_ne {c : Cfg} {q neg e cm} (h : Derives c (.command q neg) e cm) : cm ≠ [] :=
  nonempty_of_derives h trivial

theorem redirs_none_of_head {r r' : List Tok} {b : Bool} (h : redirs r = some (b, r'))
    (hh : r.head? ≠ some io) : r' = r := by
  obtain ⟨pr, h1, h2, _, _⟩ := redirs_sound r h
  cases h1 with
  | nil => simpa using h2.symm
  | cons _ _ => subst h2; simp at hh


/-- How `getStmt` / `andOrTail` leave the input: nothing consumed after the derived string `s`, or
    (with `readEnd`) the `;` / `&` that follows it. -/
def Tail (readEnd sm : Bool) (s : List Tok) (e : End) (ts rest : List Tok) : Prop :=
  (sm = false ∧ ts = s ++ rest ∧ allows .sub e rest.head? = true) ∨
  (sm = true ∧ readEnd = true ∧ ∃ sep, (sep = semi ∨ sep = amp) ∧ ts = s ++ sep :: rest ∧
    allows .sub e (some sep) = true)

structure SoundIH (c : Cfg) (f : Nat) : Prop where
  stmts : ∀ q stops gotEnd any ts a' rest, stops.contains io = false →
    stmts c q stops f gotEnd any ts = .ok (a', rest) →
    ∃ pre a e, ts = pre ++ rest ∧ Derives c (.list q stops a) e pre ∧
      (gotEnd = false → pre = [] ∨ ∃ p', pre = nl :: p' ∧ Derives c (.list q stops a) e p') ∧
      a' = (any || a) ∧ allows .sub e rest.head? = true
  follow : ∀ q stops ts rest, stops.contains io = false →
    followStmts c q stops f ts = .ok rest →
    ∃ l e, ts = l ++ rest ∧ Derives c (.list q stops true) e l ∧ allows .sub e rest.head? = true
  getStmt : ∀ q readEnd binCmd ts sm rest, getStmt c q readEnd binCmd f ts = .ok (sm, rest) →
    ∃ p e0 t e, Derives c (.bpipe q) e0 p ∧ Derives c (.aoTail q e0) e t ∧
      (binCmd = true → t = [] ∧ e = e0) ∧ Tail readEnd sm (p ++ t) e ts rest ∧
      (sm = false → rest.head? ≠ some pipe) ∧ (binCmd = false → sm = false → notCont rest.head? = true)
  andOrTail : ∀ q readEnd binCmd ts sm rest e0, andOrTail c q readEnd binCmd f ts = .ok (sm, rest) →
    allows .sub e0 ts.head? = true → ts.head? ≠ some pipe →
    ∃ t e, Derives c (.aoTail q e0) e t ∧ (binCmd = true → t = [] ∧ e = e0) ∧
      Tail readEnd sm t e ts rest ∧
      (sm = false → rest.head? ≠ some pipe) ∧ (binCmd = false → sm = false → notCont rest.head? = true)
  pipeline : ∀ q neg binCmd ts rest, pipeline c q neg binCmd f ts = .ok rest →
    ∃ cm e0 t e, Derives c (.command q neg) e0 cm ∧ Derives c (.pipeTail q e0) e t ∧
      (binCmd = true → t = [] ∧ e = e0) ∧ ts = cm ++ t ++ rest ∧ allows .sub e rest.head? = true ∧
      (binCmd = false → rest.head? ≠ some pipe)
  pipeTail : ∀ q binCmd ts rest e0, pipeTail c q binCmd f ts = .ok rest →
    allows .sub e0 ts.head? = true →
    ∃ t e, Derives c (.pipeTail q e0) e t ∧ (binCmd = true → t = [] ∧ e = e0) ∧ ts = t ++ rest ∧
      allows .sub e rest.head? = true ∧ (binCmd = false → rest.head? ≠ some pipe)
  command : ∀ q neg pre ts rest pr, command c q neg pre f ts = .ok rest → Redirs pr →
    pre = !pr.isEmpty → ts.head? ≠ some io →
    ∃ cm, ts = cm ++ rest ∧
      ((∃ e, Derives c (.command q neg) e (pr ++ cm) ∧ allows .sub e rest.head? = true) ∨
       (pr = [] ∧ Derives c (.compound q) .closed cm))
  name : ∀ q neg pre t r rest pr, name c q pre f t r = .ok rest →
    (t = word ∨ (t = bang ∧ neg = true) ∨ ((t = kElse ∨ t = kIn) ∧ c.elseInCmd = true)) →
    Redirs pr → pre = !pr.isEmpty →
    ∃ cm e, r = cm ++ rest ∧ Derives c (.command q neg) e (pr ++ t :: cm) ∧
      allows .sub e rest.head? = true
  ifTail : ∀ q ts rest e0, ifTail c q f ts = .ok rest → allows .sub e0 ts.head? = true →
    ∃ t e, Derives c (.ifTail q e0) e t ∧ ts = t ++ rest
  caseItems : ∀ ts rest, caseItems c f ts = .ok rest →
    ∃ items e, Derives c .caseItems e items ∧ ts = items ++ rest

theorem sound_zero (c : Cfg) : SoundIH c 0 := by
  constructor <;> intros <;> simp_all [stmts, followStmts, getStmt, andOrTail, pipeline, pipeTail,
    command, name, ifTail, caseItems]

theorem bind_ok {α β} {x : R α} {g : α → R β} {b : β} (h : x.bind g = .ok b) :
    ∃ a, x = .ok a ∧ g a = .ok b := by
  cases x <;> simp_all [R.bind]

theorem expect_ok {t : Tok} {ts rest : List Tok} (h : expect t ts = .ok rest) : ts = t :: rest := by
  cases ts with
  | nil => simp [expect] at h
  | cons t' r =>
    simp only [expect] at h
    split at h
    · rename_i ht; cases h; rw [ht]
    · cases h

theorem ofOpt_ok {α} {o : Option α} {a : α} (h : ofOpt o = .ok a) : o = some a := by
  cases o <;> simp_all [ofOpt]

theorem sound_stmts {c : Cfg} {f : Nat} (ih : SoundIH c f) :
    ∀ q stops gotEnd any ts a' rest, stops.contains io = false →
    stmts c q stops (f+1) gotEnd any ts = .ok (a', rest) →
    ∃ pre a e, ts = pre ++ rest ∧ Derives c (.list q stops a) e pre ∧
      (gotEnd = false → pre = [] ∨ ∃ p', pre = nl :: p' ∧ Derives c (.list q stops a) e p') ∧
      a' = (any || a) ∧ allows .sub e rest.head? = true := by
  intro q stops gotEnd any ts a' rest hst h
  cases ts with
  | nil =>
    simp [stmts] at h
    obtain ⟨rfl, rfl⟩ := h
    exact ⟨[], false, .closed, rfl, .l_nil, fun _ => .inl rfl, by simp, rfl⟩
  | cons t0 r0 =>
    simp only [stmts] at h
    obtain ⟨k, hk1, hk2⟩ := skipNL_spec (t0 :: r0)
    -- the shape of the skipped prefix, as needed for `gotEnd = false`
    have hpre : ∀ {a e} (body : List Tok), Derives c (.list q stops a) e body →
        (k ≠ 0 ∨ body = []) → nls k ++ body = [] ∨
          ∃ p', nls k ++ body = nl :: p' ∧ Derives c (.list q stops a) e p' := by
      intro a e body hb hk
      cases k with
      | zero =>
        rcases hk with hk | rfl
        · exact absurd rfl hk
        · exact .inl rfl
      | succ k => exact .inr ⟨nls k ++ body, by simp [nls_succ], list_nls k hb⟩
    have hnew : (t0 == nl) = true → k ≠ 0 := by
      intro hnl hk0
      subst hk0
      simp only [nls, List.replicate, List.nil_append] at hk1
      rw [← hk1] at hk2
      simp at hnl hk2
      exact hk2 hnl
    have hnil : Derives c (.list q stops false) .closed (nls k) := by
      simpa using list_nls k (Derives.l_nil (c := c) (q := q) (stops := stops))
    split at h
    · rename_i heq
      cases h
      rw [heq] at hk1
      exact ⟨nls k, false, .closed, by simpa using hk1, hnil,
        fun _ => by simpa using hpre [] .l_nil (.inr rfl), by simp, rfl⟩
    · rename_i t r heq
      rw [heq] at hk1
      have hstop : ∀ {any : Bool}, t ≠ io →
          ∃ pre a e, t0 :: r0 = pre ++ t :: r ∧ Derives c (.list q stops a) e pre ∧
          (gotEnd = false → pre = [] ∨ ∃ p', pre = nl :: p' ∧ Derives c (.list q stops a) e p') ∧
          any = (any || a) ∧ allows .sub e (t :: r).head? = true := by
        intro any hio
        exact ⟨nls k, false, .closed, hk1, hnil,
          fun _ => by simpa using hpre [] .l_nil (.inr rfl), by simp,
          allows_closed_of_ne (by simpa using hio)⟩
      split at h
      · rename_i hs
        cases h
        exact hstop (by rintro rfl; simp at hst hs; exact hst hs)
      · rename_i hns
        split at h
        · cases h
        · split at h
          · cases h; rename_i hp; exact hstop (by rintro rfl; simp at hp)
          · split at h
            · rename_i hd
              split at h
              · cases h; exact hstop (by rintro rfl; simp at hd)
              · cases h
            · split at h
              · cases h
              · rename_i hsep
                cases hg : getStmt c q true false f (t :: r) with
                | oof => simp [hg] at h
                | err => simp [hg] at h
                | ok x =>
                  obtain ⟨sm, r'⟩ := x
                  simp only [hg] at h
                  obtain ⟨p, e0, t', e1, hp, ht', _, htail, _, _⟩ := ih.getStmt _ _ _ _ _ _ hg
                  have hstm : Derives c (.stmt q) e1 (p ++ t') := .stmt hp ht'
                  obtain ⟨pre', a, e, hr', hl, hshape, ha', hal⟩ := ih.stmts _ _ _ _ _ _ _ hst h
                  have hk0 : gotEnd = false → k ≠ 0 := by
                    intro hg0
                    apply hnew
                    simp only [hg0, Bool.not_false, Bool.and_true, Bool.not_eq_true', Bool.not_eq_false] at hsep
                    simpa using hsep
                  have hstart : ∀ tl, t :: r = (p ++ t') ++ tl → startOK stops (p ++ t') := by
                    intro tl htl
                    unfold startOK
                    cases hpt : p ++ t' with
                    | nil => simp
                    | cons x xs =>
                      rw [hpt] at htl
                      simp only [List.cons_append, List.cons.injEq] at htl
                      simp only [List.head?]
                      rw [← htl.1]
                      simpa using hns
                  rcases htail with ⟨hsm, hts, hal0⟩ | ⟨hsm, _, sep, hsep', hts, hal0⟩
                  · -- no separator consumed: the rest of the list is empty or starts with a newline
                    subst hsm
                    rcases hshape rfl with hnil' | ⟨p', hp', hl'⟩
                    · subst hnil'
                      simp only [List.nil_append] at hr'
                      subst hr'
                      refine ⟨nls k ++ (p ++ t'), true, e1, ?_, list_nls k (.l_last hstm (hstart _ hts)),
                        fun hg0 => hpre _ (.l_last hstm (hstart _ hts)) (.inl (hk0 hg0)), by simp [ha'], hal0⟩
                      rw [hk1, hts]; simp
                    · subst hp'
                      have hnlok : allows q e1 (some nl) = true := by
                        rw [hr'] at hal0
                        exact allows_of_sub (by decide) (by simpa using hal0)
                      have hd := Derives.l_newl hstm (hstart _ hts) hnlok hl'
                      refine ⟨nls k ++ ((p ++ t') ++ nl :: p'), true, e, ?_, list_nls k hd,
                        fun hg0 => hpre _ hd (.inl (hk0 hg0)), by simp [ha'], hal⟩
                      rw [hk1, hts, hr']; simp
                  · subst hsm
                    have hsepok : allows q e1 (some sep) = true :=
                      allows_of_sub (by rcases hsep' with rfl | rfl <;> decide) hal0
                    have hd := Derives.l_sep hstm (hstart _ hts) hsep' hsepok hl
                    refine ⟨nls k ++ ((p ++ t') ++ sep :: pre'), true, e, ?_, list_nls k hd,
                      fun hg0 => hpre _ hd (.inl (hk0 hg0)), by simp [ha'], hal⟩
                    rw [hk1, hts, hr']; simp

theorem sound_follow {c : Cfg} {f : Nat} (ih : SoundIH c f) :
    ∀ q stops ts rest, stops.contains io = false →
    followStmts c q stops (f+1) ts = .ok rest →
    ∃ l e, ts = l ++ rest ∧ Derives c (.list q stops true) e l ∧ allows .sub e rest.head? = true := by
  intro q stops ts rest hst h
  simp only [followStmts] at h
  split at h
  · rename_i r heq
    cases h
    obtain ⟨pre, a, e, h1, h2, _, h4, h5⟩ := ih.stmts _ _ _ _ _ _ _ hst heq
    simp at h4
    subst h4
    exact ⟨pre, e, h1, h2, h5⟩
  all_goals cases h

theorem tail_nil_false {readEnd : Bool} {e : End} {ts : List Tok}
    (h : allows .sub e ts.head? = true) : Tail readEnd false [] e ts ts :=
  .inl ⟨rfl, rfl, h⟩

theorem sound_andOrTail {c : Cfg} {f : Nat} (ih : SoundIH c f) :
    ∀ q readEnd binCmd ts sm rest e0, andOrTail c q readEnd binCmd (f+1) ts = .ok (sm, rest) →
    allows .sub e0 ts.head? = true → ts.head? ≠ some pipe →
    ∃ t e, Derives c (.aoTail q e0) e t ∧ (binCmd = true → t = [] ∧ e = e0) ∧
      Tail readEnd sm t e ts rest ∧
      (sm = false → rest.head? ≠ some pipe) ∧ (binCmd = false → sm = false → notCont rest.head? = true) := by
  intro q readEnd binCmd ts sm rest e0 h hal hnp
  -- the result when the loop stops without consuming anything
  have stay : ∀ (_ : notCont ts.head? = true), (sm, rest) = (false, ts) →
      ∃ t e, Derives c (.aoTail q e0) e t ∧ (binCmd = true → t = [] ∧ e = e0) ∧
      Tail readEnd sm t e ts rest ∧
      (sm = false → rest.head? ≠ some pipe) ∧ (binCmd = false → sm = false → notCont rest.head? = true) := by
    intro hnc heq
    cases heq
    exact ⟨[], e0, .t_nil, fun _ => ⟨rfl, rfl⟩, tail_nil_false hal, fun _ => hnp, fun _ _ => hnc⟩
  have opcase : ∀ op r, ts = op :: r → (op = andIf ∨ op = orIf) →
      (if binCmd then R.ok (false, ts) else
        match getStmt c q false true f (skipNL r) with
        | .ok (_, r') => andOrTail c q readEnd binCmd f r'
        | .err => .err
        | .oof => .oof) = .ok (sm, rest) →
      ∃ t e, Derives c (.aoTail q e0) e t ∧ (binCmd = true → t = [] ∧ e = e0) ∧
      Tail readEnd sm t e ts rest ∧
      (sm = false → rest.head? ≠ some pipe) ∧ (binCmd = false → sm = false → notCont rest.head? = true) := by
    intro op r hts hop h
    split at h
    · rename_i hb
      cases h
      exact ⟨[], e0, .t_nil, fun _ => ⟨rfl, rfl⟩, tail_nil_false hal, fun _ => hnp,
        fun hb' => by simp [hb] at hb'⟩
    · rename_i hb
      cases hg : getStmt c q false true f (skipNL r) with
      | oof => simp [hg] at h
      | err => simp [hg] at h
      | ok x =>
        obtain ⟨sm', r'⟩ := x
        simp only [hg] at h
        obtain ⟨p, e1, t1, e1', hp, _, hbin, htail, hnp', _⟩ := ih.getStmt _ _ _ _ _ _ hg
        obtain ⟨rfl, rfl⟩ := hbin rfl
        rcases htail with ⟨hsm', hsk, hal1⟩ | ⟨_, hre, _⟩
        · subst hsm'
          obtain ⟨t2, e, ht2, _, htail2, hq1, hq2⟩ := ih.andOrTail _ _ _ _ _ _ e1' h hal1 (hnp' rfl)
          obtain ⟨k, hk1, _⟩ := skipNL_spec r
          have hopok : allows q e0 (some op) = true := by
            rw [hts] at hal
            exact allows_of_sub (by rcases hop with rfl | rfl <;> decide) (by simpa using hal)
          have hd := Derives.t_op (k := k) hop hopok hp ht2
          refine ⟨op :: nls k ++ p ++ t2, e, hd, fun hb' => by simp [hb] at hb', ?_, hq1, hq2⟩
          have hts' : ts = op :: nls k ++ p ++ r' := by
            rw [hts, hk1, hsk]; simp
          rcases htail2 with ⟨h1, h2, h3⟩ | ⟨h1, h2, sep, h3, h4, h5⟩
          · exact .inl ⟨h1, by rw [hts', h2]; simp, h3⟩
          · exact .inr ⟨h1, h2, sep, h3, by rw [hts', h4]; simp, h5⟩
        · cases hre
  cases ts with
  | nil => simp only [andOrTail] at h; exact stay rfl (by cases h; rfl)
  | cons t r =>
    by_cases h1 : t = andIf
    · subst h1; simp only [andOrTail] at h; exact opcase _ _ rfl (.inl rfl) h
    by_cases h2 : t = orIf
    · subst h2; simp only [andOrTail] at h; exact opcase _ _ rfl (.inr rfl) h
    have sepcase : (t = semi ∨ t = amp) →
        (if readEnd then R.ok (true, r) else R.ok (false, t :: r)) = .ok (sm, rest) →
        ∃ t' e, Derives c (.aoTail q e0) e t' ∧ (binCmd = true → t' = [] ∧ e = e0) ∧
        Tail readEnd sm t' e (t :: r) rest ∧
        (sm = false → rest.head? ≠ some pipe) ∧ (binCmd = false → sm = false → notCont rest.head? = true) := by
      intro hsep h
      split at h
      · rename_i hre
        cases h
        exact ⟨[], e0, .t_nil, fun _ => ⟨rfl, rfl⟩,
          .inr ⟨rfl, hre, t, hsep, rfl, by simpa using hal⟩, by simp, by simp⟩
      · cases h
        exact stay (by rcases hsep with rfl | rfl <;> rfl) rfl
    by_cases h3 : t = semi
    · subst h3; simp only [andOrTail] at h; exact sepcase (.inl rfl) h
    by_cases h4 : t = amp
    · subst h4; simp only [andOrTail] at h; exact sepcase (.inr rfl) h
    have : andOrTail c q readEnd binCmd (f+1) (t :: r) = .ok (false, t :: r) := by
      cases t <;> first | rfl | exact absurd rfl h1 | exact absurd rfl h2 | exact absurd rfl h3 | exact absurd rfl h4
    rw [this] at h
    have hnc : notCont (t :: r).head? = true := by
      cases t <;> first | rfl | exact absurd rfl h1 | exact absurd rfl h2 | exact absurd rfl hnp
    exact stay hnc (by cases h; rfl)

theorem dropWhile_bang (r : List Tok) :
    ∃ k, r = bangs k ++ r.dropWhile (· == bang) ∧ (r.dropWhile (· == bang)).head? ≠ some bang := by
  induction r with
  | nil => exact ⟨0, rfl, by simp⟩
  | cons t r ih =>
    by_cases h : t = bang
    · subst h
      obtain ⟨k, h1, h2⟩ := ih
      refine ⟨k+1, ?_, ?_⟩
      · simp only [List.dropWhile, beq_self_eq_true, bangs, List.replicate, List.cons_append]
        congr 1
      · simpa [List.dropWhile] using h2
    · have hb : (t == bang) = false := by simpa using h
      refine ⟨0, ?_, ?_⟩
      · simp [List.dropWhile, hb, bangs]
      · simp [List.dropWhile, hb, h]

theorem head_append_of_ne {a b : List Tok} (h : a ≠ []) : (a ++ b).head? = a.head? := by
  cases a with
  | nil => exact absurd rfl h
  | cons x xs => rfl

theorem sound_getStmt {c : Cfg} {f : Nat} (ih : SoundIH c f) :
    ∀ q readEnd binCmd ts sm rest, getStmt c q readEnd binCmd (f+1) ts = .ok (sm, rest) →
    ∃ p e0 t e, Derives c (.bpipe q) e0 p ∧ Derives c (.aoTail q e0) e t ∧
      (binCmd = true → t = [] ∧ e = e0) ∧ Tail readEnd sm (p ++ t) e ts rest ∧
      (sm = false → rest.head? ≠ some pipe) ∧ (binCmd = false → sm = false → notCont rest.head? = true) := by
  intro q readEnd binCmd ts sm rest h
  -- common continuation: a pipeline, then the and-or loop
  have fin : ∀ (pfx : List Tok) (neg : Bool) (r1 : List Tok),
      (∀ {e p}, Derives c (.pipeline q neg) e p → p.head? = r1.head? → Derives c (.bpipe q) e (pfx ++ p)) →
      ts = pfx ++ r1 →
      (pipeline c q neg false f r1).bind (andOrTail c q readEnd binCmd f) = .ok (sm, rest) →
      ∃ p e0 t e, Derives c (.bpipe q) e0 p ∧ Derives c (.aoTail q e0) e t ∧
        (binCmd = true → t = [] ∧ e = e0) ∧ Tail readEnd sm (p ++ t) e ts rest ∧
        (sm = false → rest.head? ≠ some pipe) ∧ (binCmd = false → sm = false → notCont rest.head? = true) := by
    intro pfx neg r1 bp hts hb
    obtain ⟨r2, hp, ha⟩ := bind_ok hb
    obtain ⟨cm, e0', t1, e1, hcm, ht1, _, hr1, hal1, hnp1⟩ := ih.pipeline _ _ _ _ _ hp
    obtain ⟨t2, e, ht2, hbin, htail, hq1, hq2⟩ := ih.andOrTail _ _ _ _ _ _ e1 ha hal1 (hnp1 rfl)
    have hne : cm ++ t1 ≠ [] := by
      intro hh; exact command_ne hcm (List.append_eq_nil_iff.mp hh).1
    have hhead : (cm ++ t1).head? = r1.head? := by
      rw [hr1, List.append_assoc, ← List.append_assoc, head_append_of_ne hne]
    have hd := bp (Derives.pipeline hcm ht1) hhead
    refine ⟨pfx ++ (cm ++ t1), e1, t2, e, hd, ht2, hbin, ?_, hq1, hq2⟩
    rcases htail with ⟨h1, h2, h3⟩ | ⟨h1, h2, sep, h3, h4, h5⟩
    · exact .inl ⟨h1, by rw [hts, hr1, h2]; simp, h3⟩
    · exact .inr ⟨h1, h2, sep, h3, by rw [hts, hr1, h4]; simp, h5⟩
  by_cases hb : ∃ r, ts = bang :: r
  · obtain ⟨r, rfl⟩ := hb
    simp only [getStmt] at h
    split at h
    · rename_i hba
      obtain ⟨k, hk1, hk2⟩ := dropWhile_bang r
      generalize hr' : r.dropWhile (· == bang) = r' at h hk1 hk2
      have hbare : Derives c (.bpipe q) .bare (bang :: bangs k) := .b_bare hba
      have bareres : ∀ (_ : allows .sub .bare r'.head? = true) (_ : r'.head? ≠ some pipe)
          (_ : notCont r'.head? = true), (sm, rest) = (false, r') →
          ∃ p e0 t e, Derives c (.bpipe q) e0 p ∧ Derives c (.aoTail q e0) e t ∧
          (binCmd = true → t = [] ∧ e = e0) ∧ Tail readEnd sm (p ++ t) e (bang :: r) rest ∧
          (sm = false → rest.head? ≠ some pipe) ∧ (binCmd = false → sm = false → notCont rest.head? = true) := by
        intro h1 h2 h3 heq
        cases heq
        exact ⟨bang :: bangs k, .bare, [], .bare, hbare, .t_nil, fun _ => ⟨rfl, rfl⟩,
          .inl ⟨rfl, by rw [hk1]; simp, h1⟩, fun _ => h2, fun _ _ => h3⟩
      cases r' with
      | nil => simp only at h; exact bareres rfl (by simp) rfl (by cases h; rfl)
      | cons t r'' =>
        by_cases h1 : t = nl
        · subst h1; simp only at h; exact bareres rfl (by simp) rfl (by cases h; rfl)
        by_cases h2 : t = semi
        · subst h2
          simp only at h
          split at h
          · rename_i hre
            cases h
            exact ⟨bang :: bangs k, .bare, [], .bare, hbare, .t_nil, fun _ => ⟨rfl, rfl⟩,
              .inr ⟨rfl, hre, semi, .inl rfl, by rw [hk1]; simp, rfl⟩, by simp, by simp⟩
          · exact bareres rfl (by simp) rfl (by cases h; rfl)
        have h' : (if stopTok t then R.err else
            (pipeline c q true false f (t :: r'')).bind (andOrTail c q readEnd binCmd f)) = .ok (sm, rest) := by
          cases t <;> first | exact h | exact absurd rfl h1 | exact absurd rfl h2
        split at h'
        · cases h'
        · refine fin (bang :: bangs k) true (t :: r'') ?_ (by rw [hk1]; simp) h'
          intro e p hp hhead
          show Derives c (.bpipe q) e (bang :: bangs k ++ p)
          exact .b_bangs hba hp (by rw [hhead]; exact hk2)
    · rename_i hba
      cases r with
      | nil => cases h
      | cons t r'' =>
        simp only at h
        split at h
        · cases h
        · rename_i hst
          refine fin [bang] true (t :: r'') ?_ rfl h
          intro e p hp hhead
          show Derives c (.bpipe q) e (bang :: p)
          have hnb : p.head? ≠ some bang := by
            rw [hhead]
            simp only [Bool.or_eq_true, beq_iff_eq, not_or] at hst
            simpa using hst.2
          exact .b_bang (by simpa using hba) hp hnb
  · have h' : (pipeline c q false false f ts).bind (andOrTail c q readEnd binCmd f) = .ok (sm, rest) := by
      cases ts with
      | nil => exact h
      | cons t r =>
        cases t <;> first | exact h | exact absurd ⟨_, rfl⟩ hb
    exact fin [] false ts (fun hp _ => .b_plain hp) rfl h'

theorem sound_pipeTail {c : Cfg} {f : Nat} (ih : SoundIH c f) :
    ∀ q binCmd ts rest e0, pipeTail c q binCmd (f+1) ts = .ok rest →
    allows .sub e0 ts.head? = true →
    ∃ t e, Derives c (.pipeTail q e0) e t ∧ (binCmd = true → t = [] ∧ e = e0) ∧ ts = t ++ rest ∧
      allows .sub e rest.head? = true ∧ (binCmd = false → rest.head? ≠ some pipe) := by
  intro q binCmd ts rest e0 h hal
  by_cases hp : ∃ r, ts = pipe :: r
  · obtain ⟨r, rfl⟩ := hp
    simp only [pipeTail] at h
    split at h
    · rename_i hb
      cases h
      exact ⟨[], e0, .p_nil, fun _ => ⟨rfl, rfl⟩, rfl, hal, fun hb' => by simp [hb] at hb'⟩
    · rename_i hb
      obtain ⟨r2, hp2, ht2⟩ := bind_ok h
      obtain ⟨cm, e1, t1, e1', hcm, _, hbin, hr, hal1, _⟩ := ih.pipeline _ _ _ _ _ hp2
      obtain ⟨rfl, rfl⟩ := hbin rfl
      obtain ⟨t2, e, hd2, _, hr2, hal2, hnp2⟩ := ih.pipeTail _ _ _ _ e1' ht2 hal1
      obtain ⟨k, hk1, _⟩ := skipNL_spec r
      have hok : allows q e0 (some pipe) = true := allows_of_sub (by decide) (by simpa using hal)
      refine ⟨pipe :: nls k ++ cm ++ t2, e, .p_pipe hok hcm hd2, fun hb' => by simp [hb] at hb', ?_, hal2, hnp2⟩
      rw [hk1, hr, hr2]; simp
  · have : pipeTail c q binCmd (f+1) ts = .ok ts := by
      cases ts with
      | nil => rfl
      | cons t r => cases t <;> first | rfl | exact absurd ⟨_, rfl⟩ hp
    rw [this] at h
    cases h
    refine ⟨[], e0, .p_nil, fun _ => ⟨rfl, rfl⟩, rfl, hal, fun _ hh => hp ?_⟩
    cases ts with
    | nil => simp at hh
    | cons t r => simp at hh; exact ⟨r, by rw [hh]⟩

theorem sound_pipeline {c : Cfg} {f : Nat} (ih : SoundIH c f) :
    ∀ q neg binCmd ts rest, pipeline c q neg binCmd (f+1) ts = .ok rest →
    ∃ cm e0 t e, Derives c (.command q neg) e0 cm ∧ Derives c (.pipeTail q e0) e t ∧
      (binCmd = true → t = [] ∧ e = e0) ∧ ts = cm ++ t ++ rest ∧ allows .sub e rest.head? = true ∧
      (binCmd = false → rest.head? ≠ some pipe) := by
  intro q neg binCmd ts rest h
  simp only [pipeline] at h
  split at h
  · cases h
  · rename_i pre ts1 hre
    obtain ⟨pr, hpr, hts, hpre, hio⟩ := redirs_sound ts hre
    obtain ⟨r', hc, ht⟩ := bind_ok h
    obtain ⟨r, hcmd, hpost⟩ := bind_ok hc
    split at hpost
    · cases hpost
    · rename_i b' r'' hre2
      split at hpost
      · cases hpost
      · rename_i hchk
        cases hpost
        obtain ⟨cm, hcm, hcase⟩ := ih.command _ _ _ _ _ pr hcmd hpr hpre hio
        -- the command with its redirections, and what follows it
        have key : ∃ full e0, Derives c (.command q neg) e0 full ∧ ts = full ++ r' ∧
            allows .sub e0 r'.head? = true := by
          rcases hcase with ⟨e0, hd, hal⟩ | ⟨hpr0, hd⟩
          · have hne : r.head? ≠ some io := by
              intro hh; rw [hh, allows_io] at hal; cases hal
            have := redirs_none_of_head hre2 hne
            subst this
            exact ⟨pr ++ cm, e0, hd, by rw [hts, hcm]; simp, hal⟩
          · subst hpr0
            obtain ⟨post, hpost, hr, hb', hio2⟩ := redirs_sound r hre2
            refine ⟨cm ++ post, _, .c_compound hd hpost, by rw [hts, hcm, hr]; simp, ?_⟩
            split
            · exact allows_closed_of_ne hio2
            · rename_i hcl
              simp only [Bool.or_eq_true, not_or, Bool.not_eq_true] at hcl
              have hfo : followsOpen r'.head? = true := by
                simp only [hb', hcl.1, hcl.2, Bool.not_false, Bool.and_true, Bool.true_and,
                  Bool.not_eq_true', Bool.not_eq_false] at hchk
                simpa using hchk
              cases hh : r'.head? with
              | none => rfl
              | some t => rw [hh] at hfo; simpa [allows, openOK, followsOpen] using hfo
        obtain ⟨full, e0, hd, hfull, hal⟩ := key
        obtain ⟨t, e, hdt, hbin, hr', hal', hnp⟩ := ih.pipeTail _ _ _ _ e0 ht hal
        exact ⟨full, e0, t, e, hd, hdt, hbin, by rw [hfull, hr']; simp, hal', hnp⟩

theorem seal_allows {e : End} {n : Option Tok} (h : allows .sub e n = true) (hn : notCont n = true) :
    allows .sub e.seal n = true := by
  cases e <;> simp_all [End.seal, allows]

theorem simple_sound {c : Cfg} {q : Q} {neg : Bool} {pr : List Tok} {t : Tok} {r rest : List Tok}
    (hpr : Redirs pr) (hf : firstOK c neg (!pr.isEmpty) t = true) (h : callExpr q r = some rest) :
    ∃ cm e, r = cm ++ rest ∧ Derives c (.command q neg) e (pr ++ t :: cm) ∧
      allows .sub e rest.head? = true := by
  obtain ⟨its, hi, hr, ho⟩ := callExpr_sound q r h
  refine ⟨its, .open, hr, .c_simple hpr hf hi, ?_⟩
  cases hrest : rest.head? with
  | none => rfl
  | some x =>
    rw [hrest] at ho
    simp only [openOK, Bool.or_eq_true, Bool.and_eq_true, beq_iff_eq] at ho
    simp only [allows, openOK, Bool.or_eq_true, Bool.and_eq_true, beq_iff_eq]
    rcases ho with ho | ⟨ho, _⟩
    · exact .inl ho
    · exact .inr ⟨ho, trivial⟩

theorem sound_name {c : Cfg} {f : Nat} (ih : SoundIH c f) :
    ∀ q neg pre t r rest pr, name c q pre (f+1) t r = .ok rest →
    (t = word ∨ (t = bang ∧ neg = true) ∨ ((t = kElse ∨ t = kIn) ∧ c.elseInCmd = true)) →
    Redirs pr → pre = !pr.isEmpty →
    ∃ cm e, r = cm ++ rest ∧ Derives c (.command q neg) e (pr ++ t :: cm) ∧
      allows .sub e rest.head? = true := by
  intro q neg pre t r rest pr h ht hpr hpre
  have hfirst : firstOK c neg (!pr.isEmpty) t = true := by
    rcases ht with rfl | ⟨rfl, hn⟩ | ⟨rfl | rfl, he⟩ <;> simp [firstOK, *]
  by_cases hl : ∃ r1, r = lparen :: r1
  · obtain ⟨r1, rfl⟩ := hl
    by_cases hr : ∃ r2, r1 = rparen :: r2
    · obtain ⟨r2, rfl⟩ := hr
      simp only [name] at h
      split at h
      · cases h
      · rename_i hpb
        split at h
        · cases h
        · rename_i hnpre
          have hpr0 : pr = [] := by
            cases pr with
            | nil => rfl
            | cons x xs => simp [hpre] at hnpre
          subst hpr0
          have hfn : fnNameOK c neg t = true := by
            rcases ht with rfl | ⟨rfl, hn⟩ | ⟨rfl | rfl, he⟩ <;> simp_all [fnNameOK]
          obtain ⟨k, hk1, _⟩ := skipNL_spec r2
          generalize skipNL r2 = r3 at h hk1
          split at h
          · rename_i hfb
            obtain ⟨x, hg, hx⟩ := bind_ok h
            cases hx
            obtain ⟨sm, rst⟩ := x
            obtain ⟨p, e0, t', e, hp, ht', _, htail, _, hnc⟩ := ih.getStmt _ _ _ _ _ _ hg
            rcases htail with ⟨hsm, hr3, hal⟩ | ⟨_, hre, _⟩
            · subst hsm
              refine ⟨lparen :: rparen :: nls k ++ (p ++ t'), e.seal, by rw [hk1, hr3]; simp,
                ?_, seal_allows hal (hnc rfl rfl)⟩
              exact .f_andor hfb hfn (.stmt hp ht')
            · cases hre
          · rename_i hfb
            obtain ⟨cm, e0, t', e, hcm, _, hbin, hr3, hal, _⟩ := ih.pipeline _ _ _ _ _ h
            obtain ⟨rfl, rfl⟩ := hbin rfl
            exact ⟨lparen :: rparen :: nls k ++ cm, e, by rw [hk1, hr3]; simp,
              .f_command hfb hfn hcm, hal⟩
          · rename_i hfb
            split at h
            · rename_i t3 r4
              split at h
              · rename_i hcs
                obtain ⟨cm, e0, t', e, hcm, _, hbin, hr3, hal, _⟩ := ih.pipeline _ _ _ _ _ h
                obtain ⟨rfl, rfl⟩ := hbin rfl
                have hsc : startsCompound cm = true := by
                  cases cm with
                  | nil => exact absurd rfl (command_ne hcm)
                  | cons x xs =>
                    simp only [List.append_nil, List.cons_append, List.cons.injEq] at hr3
                    simp only [startsCompound]
                    rw [← hr3.1]; exact hcs
                exact ⟨lparen :: rparen :: nls k ++ cm, e, by rw [hk1, hr3]; simp,
                  .f_compound hfb hfn hcm hsc, hal⟩
              · cases h
            · cases h
    · have : name c q pre (f+1) t (lparen :: r1) = .err := by
        cases r1 with
        | nil => rfl
        | cons x xs => cases x <;> first | rfl | exact absurd ⟨_, rfl⟩ hr
      rw [this] at h; cases h
  · have : name c q pre (f+1) t r = ofOpt (callExpr q r) := by
      cases r with
      | nil => rfl
      | cons x xs => cases x <;> first | rfl | exact absurd ⟨_, rfl⟩ hl
    rw [this] at h
    exact simple_sound hpr hfirst (ofOpt_ok h)

theorem sound_follow_expect {c : Cfg} {f : Nat} (ih : SoundIH c f) {q : Q} {stops : List Tok}
    {x : Tok} {r rest : List Tok} (hst : stops.contains io = false)
    (h : (followStmts c q stops f r).bind (expect x) = .ok rest) :
    ∃ l e, r = l ++ x :: rest ∧ Derives c (.list q stops true) e l ∧
      allows .sub e (some x) = true := by
  obtain ⟨r1, h1, h2⟩ := bind_ok h
  obtain ⟨l, e, hl, hd, hal⟩ := ih.follow _ _ _ _ hst h1
  have := expect_ok h2
  subst this
  exact ⟨l, e, hl, hd, by simpa using hal⟩

theorem sound_ifTail {c : Cfg} {f : Nat} (ih : SoundIH c f) :
    ∀ q ts rest e0, ifTail c q (f+1) ts = .ok rest → allows .sub e0 ts.head? = true →
    ∃ t e, Derives c (.ifTail q e0) e t ∧ ts = t ++ rest := by
  intro q ts rest e0 h hal
  cases ts with
  | nil => simp [ifTail] at h
  | cons t r =>
    by_cases h1 : t = kElif
    · subst h1
      simp only [ifTail] at h
      obtain ⟨r1, ha, hb⟩ := bind_ok h
      obtain ⟨cond, e1, hr, hd1, hal1⟩ := sound_follow_expect ih (by decide) ha
      obtain ⟨r2, hc, hd⟩ := bind_ok hb
      obtain ⟨thn, e2, hr1, hd2, hal2⟩ := ih.follow _ _ _ _ (by decide) hc
      obtain ⟨t', e, hd3, hr2⟩ := ih.ifTail _ _ _ e2 hd hal2
      refine ⟨kElif :: cond ++ kThen :: thn ++ t', .closed, ?_, by rw [hr, hr1, hr2]; simp⟩
      exact .i_elif (allows_of_sub (by decide) (by simpa using hal)) hd1
        (allows_of_sub (by decide) hal1) hd2 hd3
    by_cases h2 : t = kElse
    · subst h2
      simp only [ifTail] at h
      obtain ⟨l, e, hr, hd1, hal1⟩ := sound_follow_expect ih (by decide) h
      exact ⟨kElse :: l ++ [kFi], .closed,
        .i_else (allows_of_sub (by decide) (by simpa using hal)) hd1 (allows_of_sub (by decide) hal1),
        by rw [hr]; simp⟩
    by_cases h3 : t = kFi
    · subst h3
      simp only [ifTail] at h
      cases h
      exact ⟨[kFi], .closed, .i_fi (allows_of_sub (by decide) (by simpa using hal)), rfl⟩
    · have : ifTail c q (f+1) (t :: r) = .err := by
        cases t <;> first | rfl | exact absurd rfl h1 | exact absurd rfl h2 | exact absurd rfl h3
      rw [this] at h; cases h

theorem sound_caseItems {c : Cfg} {f : Nat} (ih : SoundIH c f) :
    ∀ ts rest, caseItems c (f+1) ts = .ok rest →
    ∃ items e, Derives c .caseItems e items ∧ ts = items ++ rest := by
  intro ts rest h
  cases ts with
  | nil => simp [caseItems] at h
  | cons t r =>
    by_cases h1 : t = kEsac
    · subst h1
      simp only [caseItems] at h
      cases h
      exact ⟨[kEsac], .closed, .ci_esac, rfl⟩
    · have hunf : caseItems c (f+1) (t :: r) =
          (match patterns (if t = lparen then r else t :: r) with
          | none => R.err
          | some r1 =>
            match stmts c .case [kEsac] f true false r1 with
            | .ok (_, dsemi :: r2) => caseItems c f (skipNL r2)
            | .ok (_, r2) => expect kEsac r2
            | .err => .err
            | .oof => .oof) := by
        cases t <;> first | rfl | exact absurd rfl h1
      rw [hunf] at h
      -- the optional `(` and the patterns
      have hps : ∀ r1, patterns (if t = lparen then r else t :: r) = some r1 →
          ∃ lp pat, (lp = [] ∨ lp = [lparen]) ∧ Pats pat ∧ (lp = [] → pat.head? ≠ some kEsac) ∧
            t :: r = lp ++ pat ++ r1 := by
        intro r1 hp
        obtain ⟨pat, hpat, hpr⟩ := patterns_sound _ hp
        by_cases hl : t = lparen
        · subst hl
          simp only [if_true] at hpr
          exact ⟨[lparen], pat, .inr rfl, hpat, (fun h => by cases h), by rw [hpr]; simp⟩
        · simp only [hl, if_false] at hpr
          refine ⟨[], pat, .inl rfl, hpat, fun _ => ?_, by rw [hpr]; simp⟩
          cases hpat with
          | one hw => simp at hpr; rw [← hpr.1]; simpa using h1
          | more hw _ => simp at hpr; rw [← hpr.1]; simpa using h1
      split at h
      · cases h
      · rename_i r1 hp
        obtain ⟨lp, pat, hlp, hpat, hes, htr⟩ := hps r1 hp
        cases hs : stmts c .case [kEsac] f true false r1 with
        | oof => simp [hs] at h
        | err => simp [hs] at h
        | ok x =>
          obtain ⟨a', r2⟩ := x
          obtain ⟨l, a, e, hr1, hd, _, _, hal⟩ := ih.stmts _ _ _ _ _ _ _ (by decide) hs
          by_cases hds : ∃ r3, r2 = dsemi :: r3
          · obtain ⟨r3, rfl⟩ := hds
            simp only [hs] at h
            obtain ⟨items, e', hd', hr3⟩ := ih.caseItems _ _ h
            obtain ⟨k, hk1, _⟩ := skipNL_spec r3
            refine ⟨lp ++ pat ++ l ++ dsemi :: nls k ++ items, .closed, ?_, ?_⟩
            · exact .ci_item hlp hpat hes hd (allows_of_sub (by decide) (by simpa using hal)) hd'
            · rw [htr, hr1, hk1, hr3]; simp
          · have h' : expect kEsac r2 = .ok rest := by
              rw [hs] at h
              cases r2 with
              | nil => exact h
              | cons x xs => cases x <;> first | exact h | exact absurd ⟨_, rfl⟩ hds
            have := expect_ok h'
            subst this
            refine ⟨lp ++ pat ++ l ++ [kEsac], .closed, ?_, by rw [htr, hr1]; simp⟩
            exact .ci_last hlp hpat hes hd (allows_of_sub (by decide) (by simpa using hal))

theorem forHead_close {c : Cfg} {hd : List Tok} {close : Tok} (h : ForHead c hd close) :
    close = kDone ∨ close = rbrace := by
  cases h <;> simp

theorem redirs_ne_nil_form {pr : List Tok} (h : Redirs pr) (hne : (!pr.isEmpty) = true) :
    ∃ w r, pr = io :: w :: r ∧ wordLike w = true ∧ Redirs r := by
  cases h with
  | nil => simp at hne
  | @cons w r hw hr => exact ⟨w, r, rfl, hw, hr⟩

theorem sound_command {c : Cfg} {f : Nat} (ih : SoundIH c f) :
    ∀ q neg pre ts rest pr, command c q neg pre (f+1) ts = .ok rest → Redirs pr →
    pre = !pr.isEmpty → ts.head? ≠ some io →
    ∃ cm, ts = cm ++ rest ∧
      ((∃ e, Derives c (.command q neg) e (pr ++ cm) ∧ allows .sub e rest.head? = true) ∨
       (pr = [] ∧ Derives c (.compound q) .closed cm)) := by
  intro q neg pre ts rest pr h hpr hpre hio
  have hpr0 : pre = false → pr = [] := by
    intro hp
    cases pr with
    | nil => rfl
    | cons x xs => simp [hpre] at hp
  -- only redirections
  have redirOnly : pre = true → rest = ts → (∀ t r, ts = t :: r → stopTok t = true) →
      ∃ cm, ts = cm ++ rest ∧
      ((∃ e, Derives c (.command q neg) e (pr ++ cm) ∧ allows .sub e rest.head? = true) ∨
       (pr = [] ∧ Derives c (.compound q) .closed cm)) := by
    intro hp hrest hstop
    subst hrest
    obtain ⟨w, r, rfl, hw, hr⟩ := redirs_ne_nil_form hpr (by rw [← hpre]; exact hp)
    refine ⟨[], rfl, .inl ⟨.open, by simpa using Derives.c_redir hw hr, ?_⟩⟩
    cases rest with
    | nil => rfl
    | cons t r' =>
      have := hstop t r' rfl
      cases t <;> simp_all [allows, openOK, stopTok, callStop]
  -- a simple command
  have simple : ∀ t r, ts = t :: r → firstOK c neg (!pr.isEmpty) t = true →
      callExpr q r = some rest →
      ∃ cm, ts = cm ++ rest ∧
      ((∃ e, Derives c (.command q neg) e (pr ++ cm) ∧ allows .sub e rest.head? = true) ∨
       (pr = [] ∧ Derives c (.compound q) .closed cm)) := by
    intro t r hts hf hc
    obtain ⟨cm, e, hr, hd, hal⟩ := simple_sound (neg := neg) hpr hf hc
    exact ⟨t :: cm, by rw [hts, hr]; simp, .inl ⟨e, hd, hal⟩⟩
  have named : ∀ t r, ts = t :: r →
      (t = word ∨ (t = bang ∧ neg = true) ∨ ((t = kElse ∨ t = kIn) ∧ c.elseInCmd = true)) →
      name c q pre f t r = .ok rest →
      ∃ cm, ts = cm ++ rest ∧
      ((∃ e, Derives c (.command q neg) e (pr ++ cm) ∧ allows .sub e rest.head? = true) ∨
       (pr = [] ∧ Derives c (.compound q) .closed cm)) := by
    intro t r hts ht hn
    obtain ⟨cm, e, hr, hd, hal⟩ := ih.name _ neg _ _ _ _ pr hn ht hpr hpre
    exact ⟨t :: cm, by rw [hts, hr]; simp, .inl ⟨e, hd, hal⟩⟩
  have comp : ∀ cm, pre = false → ts = cm ++ rest → Derives c (.compound q) .closed cm →
      ∃ cm, ts = cm ++ rest ∧
      ((∃ e, Derives c (.command q neg) e (pr ++ cm) ∧ allows .sub e rest.head? = true) ∨
       (pr = [] ∧ Derives c (.compound q) .closed cm)) :=
    fun cm hp hts hd => ⟨cm, hts, .inr ⟨hpr0 hp, hd⟩⟩
  cases ts with
  | nil =>
    simp only [command] at h
    split at h
    · rename_i hp; cases h; exact redirOnly hp rfl (fun _ _ h => by cases h)
    · cases h
  | cons t r =>
    simp only [command] at h
    split at h
    · -- the shells: any literal word after a redirection is the command name
      rename_i hcond
      simp only [Bool.and_eq_true, Bool.not_eq_true', bne_iff_ne, ne_eq] at hcond
      obtain ⟨⟨⟨hp, hrs⟩, hlw⟩, hna⟩ := hcond
      have hf : firstOK c neg (!pr.isEmpty) t = true := by
        rw [← hpre, hp]
        by_cases hw : t = word
        · simp [firstOK, hw]
        · have : isRsrv t = true := by simp [isRsrv, hlw, hw, hna]
          simp [firstOK, hrs, this]
      by_cases hl : ∃ r1, r = lparen :: r1
      · obtain ⟨r1, rfl⟩ := hl; cases h
      · have h' : ofOpt (callExpr q r) = .ok rest := by
          cases r with
          | nil => exact h
          | cons x xs => cases x <;> first | exact h | exact absurd ⟨_, rfl⟩ hl
        exact simple t r rfl hf (ofOpt_ok h')
    · cases t
      case word => exact named _ _ rfl (.inl rfl) h
      case assign => exact simple _ _ rfl (by simp [firstOK]) (ofOpt_ok h)
      case qword =>
        by_cases hl : ∃ r1, r = lparen :: r1
        · obtain ⟨r1, rfl⟩ := hl; cases h
        · have h' : ofOpt (callExpr q r) = .ok rest := by
            cases r with
            | nil => exact h
            | cons x xs => cases x <;> first | exact h | exact absurd ⟨_, rfl⟩ hl
          exact simple _ _ rfl (by simp [firstOK]) (ofOpt_ok h')
      case bang =>
        simp only at h
        split at h
        · rename_i hn; exact named _ _ rfl (.inr (.inl ⟨rfl, hn⟩)) h
        · cases h
      case kElse =>
        simp only at h
        split at h
        · rename_i hn; exact named _ _ rfl (.inr (.inr ⟨.inl rfl, hn⟩)) h
        · cases h
      case kIn =>
        simp only at h
        split at h
        · rename_i hn; exact named _ _ rfl (.inr (.inr ⟨.inr rfl, hn⟩)) h
        · cases h
      case lbrace =>
        simp only at h
        split at h
        · cases h
        · rename_i hp
          obtain ⟨l, e, hr, hd, hal⟩ := sound_follow_expect ih (by decide) h
          exact comp (lbrace :: l ++ [rbrace]) (by simpa using hp) (by rw [hr]; simp)
            (.block hd (allows_of_sub (by decide) hal))
      case lparen =>
        simp only at h
        split at h
        · cases h
        · rename_i hp
          obtain ⟨l, e, hr, hd, hal⟩ := sound_follow_expect ih (by decide) h
          exact comp (lparen :: l ++ [rparen]) (by simpa using hp) (by rw [hr]; simp)
            (.subshell hd hal)
      case kIf =>
        simp only at h
        split at h
        · cases h
        · rename_i hp
          obtain ⟨r1, ha, hb⟩ := bind_ok h
          obtain ⟨cond, e1, hr, hd1, hal1⟩ := sound_follow_expect ih (by decide) ha
          obtain ⟨r2, hc, hd⟩ := bind_ok hb
          obtain ⟨thn, e2, hr1, hd2, hal2⟩ := ih.follow _ _ _ _ (by decide) hc
          obtain ⟨t', e, hd3, hr2⟩ := ih.ifTail _ _ _ e2 hd hal2
          exact comp (kIf :: cond ++ kThen :: thn ++ t') (by simpa using hp)
            (by rw [hr, hr1, hr2]; simp) (.ifc hd1 (allows_of_sub (by decide) hal1) hd2 hd3)
      case kWhile =>
        simp only at h
        split at h
        · cases h
        · rename_i hp
          obtain ⟨r1, ha, hb⟩ := bind_ok h
          obtain ⟨cond, e1, hr, hd1, hal1⟩ := sound_follow_expect ih (by decide) ha
          obtain ⟨body, e2, hr1, hd2, hal2⟩ := sound_follow_expect ih (by decide) hb
          exact comp (kWhile :: cond ++ kDo :: body ++ [kDone]) (by simpa using hp)
            (by rw [hr, hr1]; simp)
            (.loop (.inl rfl) hd1 (allows_of_sub (by decide) hal1) hd2 (allows_of_sub (by decide) hal2))
      case kUntil =>
        simp only at h
        split at h
        · cases h
        · rename_i hp
          obtain ⟨r1, ha, hb⟩ := bind_ok h
          obtain ⟨cond, e1, hr, hd1, hal1⟩ := sound_follow_expect ih (by decide) ha
          obtain ⟨body, e2, hr1, hd2, hal2⟩ := sound_follow_expect ih (by decide) hb
          exact comp (kUntil :: cond ++ kDo :: body ++ [kDone]) (by simpa using hp)
            (by rw [hr, hr1]; simp)
            (.loop (.inr rfl) hd1 (allows_of_sub (by decide) hal1) hd2 (allows_of_sub (by decide) hal2))
      case kFor =>
        simp only at h
        split at h
        · cases h
        · rename_i hp
          split at h
          · rename_i close r1 hfh
            obtain ⟨hd, hfd, hr⟩ := forHead_sound hfh
            have hcl := forHead_close hfd
            have hst : [close].contains io = false := by rcases hcl with rfl | rfl <;> decide
            obtain ⟨body, e, hr1, hd1, hal1⟩ := sound_follow_expect ih hst h
            exact comp (kFor :: hd ++ body ++ [close]) (by simpa using hp)
              (by rw [hr, hr1]; simp)
              (.forc hfd hd1 (allows_of_sub (by rcases hcl with rfl | rfl <;> decide) hal1))
          · cases h
      case kCase =>
        simp only at h
        split at h
        · cases h
        · rename_i hp
          split at h
          · rename_i r1 hch
            obtain ⟨w, k, j, hw, hr⟩ := caseHead_sound hch
            obtain ⟨items, e, hd, hr1⟩ := ih.caseItems _ _ h
            exact comp (kCase :: w :: nls k ++ kIn :: nls j ++ items) (by simpa using hp)
              (by rw [hr, hr1]; simp) (.casec hw hd)
          · cases h
      case io => exact absurd rfl hio
      all_goals first
        | cases h
        | (simp only at h
           split at h
           · rename_i hp; cases h; exact redirOnly hp rfl (fun _ _ hh => by cases hh; rfl)
           · cases h)

theorem sound_all (c : Cfg) : ∀ f, SoundIH c f
  | 0 => sound_zero c
  | f+1 =>
    have ih := sound_all c f
    { stmts := sound_stmts ih, follow := sound_follow ih, getStmt := sound_getStmt ih,
      andOrTail := sound_andOrTail ih, pipeline := sound_pipeline ih, pipeTail := sound_pipeTail ih,
      command := sound_command ih, name := sound_name ih, ifTail := sound_ifTail ih,
      caseItems := sound_caseItems ih }

theorem parseWith_sound {c : Cfg} {fuel : Nat} {ts : List Tok} (h : parseWith c fuel ts = true) :
    Derives c .program .closed ts := by
  unfold parseWith at h
  split at h
  · rename_i a heq
    obtain ⟨pre, a', e, h1, h2, _, _, _⟩ := (sound_all c fuel).stmts _ _ _ _ _ _ _ (by decide) heq
    simp at h1
    subst h1
    exact .program h2
  · cases h

end ShVerif.C12
