/-
  L4 helper lemmas shared by Props/C01 and Props/C02: well-formedness of fragment trees, the
  printer never reaches a Go panic on well-formed trees (`levelIncs` stays balanced).
-/
import ShVerif.Model.L4Syntax
namespace ShVerif.L4

/-! ## Well-formed fragment trees

  `wf` describes the trees the fragment parser can produce, positions aside: non-empty words over
  the safe alphabet, non-empty calls whose first word is not a reserved word, non-empty lists,
  and the shapes the grammar gives to `!`, `&`, `&&`/`||` and `|` (left-associative, `|` binds
  tighter, `!` and `&` only on whole and-or lists / pipelines). -/

def WordPart.wf : WordPart → Bool
  | .lit _ _ v => !v.isEmpty && v.all isSafe
  | .sgl _ _ v => v.all isSglSafe

def Word.wf (w : Word) : Bool := !w.parts.isEmpty && w.parts.all WordPart.wf

/-- the bytes of a word that is made of literals only -/
def Word.litValue? (w : Word) : Option Bytes :=
  w.parts.foldr (fun p acc => match p, acc with
    | .lit _ _ v, some r => some (v ++ r)
    | _, _ => none) (some [])

/-- the first word of a call must not be a reserved word the parser acts on -/
def Word.cmdNameOK (w : Word) : Bool :=
  match w.litValue? with
  | some v => !isOutsideKeyword v
  | none => true

def Cmd.isAndOr : Cmd → Bool
  | .binary _ .andStmt _ _ => true
  | .binary _ .orStmt _ _ => true
  | _ => false

def Stmt.cmd : Stmt → Cmd
  | .mk _ _ _ _ c => c
def Stmt.bg : Stmt → Bool
  | .mk _ _ _ b _ => b

/-- an operand of a binary command: no terminator of its own -/
def Stmt.bare (s : Stmt) : Bool := !s.bg && !s.semi.valid

mutual
def Stmt.wf : Stmt → Bool
  | .mk _ _ neg _ cmd => cmd.wf && !(neg && cmd.isAndOr)
def Cmd.wf : Cmd → Bool
  | .call args =>
    match args with
    | [] => false
    | w :: _ => args.all Word.wf && w.cmdNameOK
  | .subshell _ _ ss => ss.length > 0 && ss.wf
  | .block _ _ ss => ss.length > 0 && ss.wf
  | .binary _ op x y =>
    x.wf && y.wf && x.bare && y.bare &&
    (match op with
     | .pipe => !x.negated && !y.negated && !x.cmd.isAndOr && !y.cmd.isBinary
     | _ => !y.cmd.isAndOr)
def Stmts.wf : Stmts → Bool
  | .nil => true
  | .cons s r => s.wf && r.wf
end

def File.wf (f : File) : Bool := f.stmts.wf

/-! ## Side conditions of the printer half of the round trip -/

def partLines : WordPart → List Nat
  | .lit p e _ => [p.line, e.line]
  | .sgl l r _ => [l.line, r.line]

mutual
/-- the line numbers of a statement in source order -/
def Stmt.lines : Stmt → List Nat
  | .mk pos semi _ _ cmd => pos.line :: (cmd.lines ++ (if semi.valid then [semi.line] else []))
def Cmd.lines : Cmd → List Nat
  | .call args => args.flatMap fun w => w.parts.flatMap partLines
  | .subshell lp rp ss => lp.line :: (ss.lines ++ [rp.line])
  | .block lb rb ss => lb.line :: (ss.lines ++ [rb.line])
  | .binary opPos _ x y => x.lines ++ opPos.line :: y.lines
def Stmts.lines : Stmts → List Nat
  | .nil => []
  | .cons s r => s.lines ++ r.lines
end

/-- positions as a parser assigns them: line numbers never decrease in source order.  (With
    arbitrary line numbers the printer writes `((a) )` for `( (a) )` when the inner statement
    claims an earlier line than the outer parenthesis: `subshellOpen` then expects a line break
    that `newlines` does not make.) -/
def posMono (f : File) : Prop := f.stmts.lines.Pairwise (· ≤ ·)

mutual
/-- the printer's `wroteSemi` flag after a statement, under SingleLine -/
def Stmt.endWS : Stmt → Bool
  | .mk _ _ _ bg c => bg || c.endWS
def Cmd.endWS : Cmd → Bool
  | .call _ => false
  | .subshell _ _ ss => ss.endWS
  | .block _ _ ss => ss.endWS
  | .binary _ _ _ y => y.endWS
def Stmts.endWS : Stmts → Bool
  | .nil => false
  | .cons s .nil => s.endWS
  | .cons _ r => r.endWS
end

mutual
/-- no statement that is followed by another one leaves `wroteSemi` set without having written
    a terminator itself (the shape of known finding C01-single-missing-semicolon) -/
def Stmt.noStale : Stmt → Bool
  | .mk _ _ _ _ c => c.noStale
def Cmd.noStale : Cmd → Bool
  | .call _ => true
  | .subshell _ _ ss => ss.noStale
  | .block _ _ ss => ss.noStale
  | .binary _ _ x y => x.noStale && y.noStale
def Stmts.noStale : Stmts → Bool
  | .nil => true
  | .cons s .nil => s.noStale
  | .cons s r => s.noStale && (s.bg || !s.endWS) && r.noStale
end

mutual
/-- no subshell whose single statement starts with a parenthesis (the shape of
    C02-subshell-trailing-blank) and none whose single statement ends with one
    (C02-closing-paren-space) -/
def Stmt.noParenParen : Stmt → Bool
  | .mk _ _ _ _ c => c.noParenParen
def Cmd.noParenParen : Cmd → Bool
  | .call _ => true
  | .subshell _ _ ss =>
    ss.noParenParen && (match ss with
      | .cons s .nil => !s.startsWithLparen && !s.endsWithRparen
      | _ => true)
  | .block _ _ ss => ss.noParenParen
  | .binary _ _ x y => x.noParenParen && y.noParenParen
def Stmts.noParenParen : Stmts → Bool
  | .nil => true
  | .cons s r => s.noParenParen && r.noParenParen
end

/-! ## No panic: `levelIncs` stays balanced -/

/-- not panicked, and `n` open indentation levels -/
def Inv (n : Nat) (p : P) : Prop := p.panicked = false ∧ p.levelIncs.length = n

theorem Inv.tok {n p} (h : Inv n p) (b) : Inv n (p.tok b) := h
theorem Inv.gapw {n p} (h : Inv n p) (b) : Inv n (p.gapw b) := h
theorem Inv.space {n p} (h : Inv n p) : Inv n p.space := h
theorem Inv.advanceLine {n p} (h : Inv n p) (l) : Inv n (p.advanceLine l) := h
theorem Inv.newline {n p} (h : Inv n p) (l) : Inv n (p.newline l) := h

/-- closes `Inv n (f p)` for the primitives that only touch other fields -/
macro "inv_prim" h:ident : tactic =>
  `(tactic| (dsimp only; (repeat' split) <;> (first | exact $h | exact Inv.gapw $h _ | exact Inv.tok $h _)))

theorem Inv.spacePad {n p} (h : Inv n p) : Inv n p.spacePad := by
  unfold P.spacePad; inv_prim h
theorem Inv.indent {n p} (h : Inv n p) : Inv n p.indent := by
  unfold P.indent; inv_prim h
theorem Inv.bslashNewl {n p} (h : Inv n p) : Inv n p.bslashNewl := by
  unfold P.bslashNewl
  dsimp only
  apply Inv.indent
  split <;> exact h
theorem Inv.spacedString {n p} (h : Inv n p) (s) : Inv n (p.spacedString s) := by
  unfold P.spacedString; exact (h.spacePad)
theorem Inv.spacedToken {n p} (h : Inv n p) (s) : Inv n (p.spacedToken s) := by
  unfold P.spacedToken; split
  · exact h
  · exact (h.spacePad)
theorem Inv.newlines {n p} (h : Inv n p) (l) : Inv n (p.newlines l) := by
  unfold P.newlines
  dsimp only
  split
  · exact h
  · split
    · exact h
    · apply Inv.indent
      split <;> exact h
theorem Inv.rightParen {n p} (h : Inv n p) (l) : Inv n (p.rightParen l) := by
  unfold P.rightParen
  dsimp only
  split
  · exact (h.newlines l)
  · exact h
theorem Inv.semiRsrv {n p} (h : Inv n p) (s l) : Inv n (p.semiRsrv s l) := by
  unfold P.semiRsrv
  dsimp only
  split
  · exact (h.newlines l)
  · split <;> split <;> first | exact h | exact (Inv.spacePad (n := n) (p := p.tok [59]) h) | exact (Inv.spacePad h)
theorem Inv.incLevel {n p} (h : Inv n p) : Inv (n + 1) p.incLevel := by
  unfold P.incLevel
  obtain ⟨h1, h2⟩ := h
  split
  · exact ⟨h1, by simp [h2]⟩
  · split
    · rename_i heq; exact ⟨h1, by simp [← h2, heq]⟩
    · exact ⟨h1, by simp [h2]⟩
theorem Inv.decLevel {n p} (h : Inv (n + 1) p) : Inv n p.decLevel := by
  unfold P.decLevel
  obtain ⟨h1, h2⟩ := h
  split
  · rename_i heq; simp [heq] at h2
  · rename_i heq; exact ⟨h1, by simp [heq] at h2; simpa using h2⟩


theorem Inv.wordPart {n p} (h : Inv n p) (wp) : Inv n (p.wordPart wp) := by
  unfold P.wordPart
  cases wp <;> exact h

theorem Inv.wordPartsLoop {n} (wps : List WordPart) : ∀ {p}, Inv n p → Inv n (p.wordPartsLoop wps) := by
  induction wps with
  | nil => intro p h; exact h
  | cons wp rest ih => intro p h; unfold P.wordPartsLoop; exact ih (h.wordPart wp)

theorem Inv.wordParts {n p} (h : Inv n p) (wps : List WordPart) (hne : wps ≠ []) : Inv n (p.wordParts wps) := by
  unfold P.wordParts
  cases wps with
  | nil => exact absurd rfl hne
  | cons wp rest =>
    dsimp only
    apply Inv.wordPartsLoop
    split
    · exact h.bslashNewl
    · exact h

theorem Word.wf_parts_ne {w : Word} (h : w.wf = true) : w.parts ≠ [] := by
  unfold Word.wf at h
  intro hn
  simp [hn] at h

theorem Inv.word {n p} (h : Inv n p) (w : Word) (hw : w.wf = true) : Inv n (p.word w) := by
  unfold P.word
  exact h.wordParts w.parts (Word.wf_parts_ne hw)

theorem Word.wf_pos {w : Word} (h : w.wf = true) : ∃ pos, w.pos? = some pos := by
  have := Word.wf_parts_ne h
  unfold Word.pos?
  cases hp : w.parts with
  | nil => exact absurd hp this
  | cons a r => exact ⟨a.pos, by simp⟩

/-- `wordJoinLoop` leaves one extra level open exactly when it reports `anyNewline` -/
theorem Inv.wordJoinLoop (ws : List Word) : ∀ {n p} (any : Bool), Inv (n + (if any then 1 else 0)) p →
    (∀ w ∈ ws, w.wf = true) →
    Inv (n + (if (p.wordJoinLoop any ws).2 then 1 else 0)) (p.wordJoinLoop any ws).1 := by
  induction ws with
  | nil => intro n p any h _; unfold P.wordJoinLoop; exact h
  | cons w rest ih =>
    intro n p any h hw
    unfold P.wordJoinLoop
    obtain ⟨pos, hpos⟩ := Word.wf_pos (hw w (by simp))
    rw [hpos]
    dsimp only
    have hrest : ∀ w ∈ rest, w.wf = true := fun w' hm => hw w' (by simp [hm])
    have hwf := hw w (by simp)
    split
    · -- a line break
      rename_i hbr
      cases any with
      | true =>
        simp only [Bool.not_true, Bool.false_eq_true, ↓reduceIte] at *
        exact ih (n := n) true (by simpa using ((h.bslashNewl).spacePad).word w hwf) hrest
      | false =>
        simp only [Bool.not_false, ↓reduceIte] at *
        have h1 : Inv (n + 1) p.incLevel := by simpa using h.incLevel
        exact ih (n := n) true (by simpa using ((h1.bslashNewl).spacePad).word w hwf) hrest
    · exact ih (n := n) any ((h.spacePad).word w hwf) hrest

theorem Inv.wordJoin {n p} (h : Inv n p) (ws : List Word) (hw : ∀ w ∈ ws, w.wf = true) : Inv n (p.wordJoin ws) := by
  unfold P.wordJoin
  have := Inv.wordJoinLoop ws (n := n) (p := p) false (by simpa using h) hw
  revert this
  cases hres : p.wordJoinLoop false ws with
  | mk p' any =>
    intro this
    dsimp only at this ⊢
    cases any with
    | true => simp only [↓reduceIte] at this ⊢; exact this.decLevel
    | false => simpa using this

theorem Inv.closingParenSpace {n p} (h : Inv n p) (ss a b) : Inv n (p.closingParenSpace ss a b) := by
  unfold P.closingParenSpace
  dsimp only
  apply Inv.spacePad
  (repeat' split) <;> exact h

theorem Inv.stmtListWith {n p} (h : Inv n p) (ss : Stmts) (loop : P → P)
    (hl : ∀ q, Inv n q → Inv n (loop q)) : Inv n (p.stmtListWith ss loop) := by
  unfold P.stmtListWith
  dsimp only
  have := hl p h
  (repeat' split) <;> exact this

theorem Inv.nestedStmtsWith {n p} (h : Inv n p) (ss : Stmts) (closing : Pos) (loop : P → P)
    (hl : ∀ m q, Inv m q → Inv m (loop q)) : Inv n (p.nestedStmtsWith ss closing loop) := by
  unfold P.nestedStmtsWith
  dsimp only
  apply Inv.decLevel
  apply Inv.stmtListWith _ _ _ (hl (n + 1))
  have := h.incLevel
  (repeat' split) <;> exact this


theorem Stmts.wf_cons {s : Stmt} {r : Stmts} (h : (Stmts.cons s r).wf = true) : s.wf = true ∧ r.wf = true := by
  unfold Stmts.wf at h
  simpa using h

theorem Inv.stmtPre {n p} (h : Inv n p) (neg) : Inv n (p.stmtPre neg) := by
  unfold P.stmtPre
  dsimp only
  split
  · exact Inv.spacedString (p := { p with wroteSemi := false }) h _
  · exact h

theorem Inv.stmtEnd {n p} (h : Inv n p) (semi bg) : Inv n (p.stmtEnd semi bg) := by
  unfold P.stmtEnd
  dsimp only
  apply Inv.decLevel
  have h2 := h.incLevel
  (repeat' split) <;> first | exact h2 | exact h2.bslashNewl | exact h2.space

theorem Inv.subshellOpen {n p} (h : Inv n p) (lp ss) : Inv n (p.subshellOpen lp ss) := by
  unfold P.subshellOpen
  dsimp only
  apply Inv.spacePad
  (repeat' split) <;> exact h

/-- `binaryOp` opens one level exactly when it reports `indent` -/
theorem Inv.binaryOp {n p} (h : Inv n p) (opPos op yl yb) :
    Inv (n + (if (p.binaryOp opPos op yl yb).2.1 then 1 else 0)) (p.binaryOp opPos op yl yb).1 := by
  unfold P.binaryOp
  dsimp only
  split
  · simpa using (h.spacedToken _).advanceLine _
  · cases hnb : p.nestedBinary with
    | true =>
      simp only [Bool.not_true, Bool.false_eq_true, ↓reduceIte, Nat.add_zero]
      split
      · exact ((h.bslashNewl).spacedToken _)
      · exact (((h.spacedToken _).advanceLine _).newline 0).indent
    | false =>
      simp only [Bool.not_false, ↓reduceIte]
      have h2 := h.incLevel
      split
      · exact ((h2.bslashNewl).spacedToken _)
      · exact (((h2.spacedToken _).advanceLine _).newline 0).indent

theorem P.binaryOp_multi_false {p : P} {opPos op yl yb} (h : (p.binaryOp opPos op yl yb).2.2 = false) :
    (p.binaryOp opPos op yl yb).2.1 = false := by
  unfold P.binaryOp at h ⊢
  dsimp only at h ⊢
  split
  · rfl
  · rename_i hc; simp [hc] at h

theorem Inv.binaryEnd {n p} (indent multi : Bool) (himp : multi = false → indent = false)
    (h : Inv (n + (if indent then 1 else 0)) p) : Inv n (p.binaryEnd indent multi) := by
  unfold P.binaryEnd
  cases multi with
  | false => simp only [himp rfl] at h; simpa using h
  | true =>
    cases indent with
    | true => simp only [↓reduceIte] at h ⊢; exact h.decLevel
    | false =>
      simp only [Bool.false_eq_true, ↓reduceIte, Nat.add_zero] at h ⊢
      exact h

theorem Inv.stmtSep {n p} (h : Inv n p) (first l) : Inv n (p.stmtSep first l) := by
  unfold P.stmtSep
  dsimp only
  apply Inv.advanceLine
  (repeat' split) <;> first
    | exact h
    | exact Inv.newlines h _
    | exact Inv.newlines (p := { (p.tok [59]) with wantSpace := WS.required }) h _

mutual
theorem Inv.stmt : ∀ (s : Stmt) (n : Nat) (p : P), Inv n p → s.wf = true → Inv n (p.stmt s)
  | .mk pos semi neg bg cmd, n, p, h, hw => by
    have hc : cmd.wf = true := by
      unfold Stmt.wf at hw
      simp only [Bool.and_eq_true] at hw
      exact hw.1
    unfold P.stmt
    exact (Inv.command cmd n _ (h.stmtPre neg) hc).stmtEnd semi bg
theorem Inv.command : ∀ (c : Cmd) (n : Nat) (p : P), Inv n p → c.wf = true → Inv n (p.command c)
  | .call args, n, p, h, hw => by
    unfold Cmd.wf at hw
    cases args with
    | nil => simp at hw
    | cons w rest =>
      simp only [Bool.and_eq_true, List.all_eq_true] at hw
      obtain ⟨hall, _⟩ := hw
      obtain ⟨pos, hpos⟩ := Word.wf_pos (hall w (by simp))
      unfold P.command
      simp only [hpos]
      have h0 : Inv n ((p.advanceLine pos.line).spacePad.incLevel.decLevel) :=
        (((h.advanceLine pos.line).spacePad).incLevel).decLevel
      have hw1 : ∀ x ∈ [w], x.wf = true := by
        intro x hx
        simp only [List.mem_singleton] at hx
        exact hx ▸ hall w (by simp)
      have hr : ∀ x ∈ rest, x.wf = true := fun x hx => hall x (by simp [hx])
      split
      · exact h0.wordJoin [w] hw1
      · exact (h0.wordJoin [w] hw1).wordJoin rest hr
  | .block lb rb ss, n, p, h, hw => by
    unfold Cmd.wf at hw
    simp only [Bool.and_eq_true] at hw
    unfold P.command
    dsimp only
    apply Inv.semiRsrv
    have hn : Inv n (P.nestedStmtsWith
        { ((p.advanceLine lb.line).spacePad.tok [123]) with
          wroteSemi := true, wantSpace := .required,
          wantNewline := ((p.advanceLine lb.line).spacePad.tok [123]).wantNewline ||
            ((p.advanceLine lb.line).spacePad.tok [123]).o.funcNextLine }
        ss rb (fun q => q.stmtListLoop true ss)) := by
      apply Inv.nestedStmtsWith
      · exact ((h.advanceLine lb.line).spacePad)
      · intro m q hq
        exact Inv.stmtListLoop ss m q true hq hw.2
    split
    · exact hn.space
    · exact hn
  | .subshell lp rp ss, n, p, h, hw => by
    unfold Cmd.wf at hw
    simp only [Bool.and_eq_true] at hw
    unfold P.command
    dsimp only
    apply Inv.rightParen
    apply Inv.closingParenSpace
    apply Inv.nestedStmtsWith
    · exact ((h.advanceLine lp.line).spacePad).subshellOpen lp ss
    · intro m q hq
      exact Inv.stmtListLoop ss m q true hq hw.2
  | .binary opPos op x y, n, p, h, hw => by
    unfold Cmd.wf at hw
    simp only [Bool.and_eq_true] at hw
    obtain ⟨⟨⟨⟨hx, hy⟩, _⟩, _⟩, _⟩ := hw
    unfold P.command
    dsimp only
    have h1 : Inv n (((p.advanceLine x.pos.line).spacePad).stmt x) :=
      Inv.stmt x n _ ((h.advanceLine x.pos.line).spacePad) hx
    apply Inv.binaryEnd _ _ (fun hm => P.binaryOp_multi_false hm)
    exact Inv.stmt y _ _ (h1.binaryOp _ _ _ _) hy
theorem Inv.stmtListLoop : ∀ (ss : Stmts) (n : Nat) (p : P) (first : Bool), Inv n p → ss.wf = true →
    Inv n (p.stmtListLoop first ss)
  | .nil, n, p, first, h, _ => by unfold P.stmtListLoop; exact h
  | .cons s rest, n, p, first, h, hw => by
    obtain ⟨hs, hr⟩ := Stmts.wf_cons hw
    unfold P.stmtListLoop
    dsimp only
    exact Inv.stmtListLoop rest n _ false (Inv.stmt s n _ (h.stmtSep first _) hs) hr
end

theorem Inv.stmtList {n p} (h : Inv n p) (ss : Stmts) (hw : ss.wf = true) : Inv n (p.stmtList ss) := by
  unfold P.stmtList
  exact h.stmtListWith ss _ (fun q hq => Inv.stmtListLoop ss n q true hq hw)

theorem Inv.init (o : Opts) : Inv 0 (P.init o) := ⟨rfl, rfl⟩

theorem Inv.finish {n p} (h : Inv n p) : p.finish = .ok (render p.out.reverse) := by
  unfold P.finish
  simp [h.1]

end ShVerif.L4
