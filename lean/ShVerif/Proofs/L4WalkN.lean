/-
  L4: the walk of `Proofs/L4Walk.lean` extended into subshells and blocks, under the executable
  side condition `nestOKFile` (`Model/L4Transcript.lean`).
-/
import ShVerif.Proofs.L4Walk
namespace ShVerif.L4

/-! ## Options are never changed (all of F0) -/

theorem subshellOpen_o (p : P) (lp : Pos) (ss : Stmts) : (p.subshellOpen lp ss).o = p.o := by
  unfold P.subshellOpen
  simp only
  rw [spacePad_o]
  split
  · rfl
  · split
    · split
      · split <;> rfl
      · rfl
    · rfl
theorem nestPre_o (p : P) (ss : Stmts) (c : Pos) : (p.nestPre ss c).o = p.o := by
  unfold P.nestPre
  simp only
  split
  · exact incLevel_o p
  · split
    · exact incLevel_o p
    · exact incLevel_o p
theorem stmtListWith_o (p : P) (ss : Stmts) (loop : P → P) : (p.stmtListWith ss loop).o = (loop p).o := by
  rw [stmtListWith_eq2]
  split <;> rfl
theorem closingParenSpace_o (p : P) (ss : Stmts) (a b : Nat) : (p.closingParenSpace ss a b).o = p.o := by
  rw [closingParenSpace_eq2, spacePad_o]
  split <;> rfl
theorem rparenPre_o (p : P) (l : Nat) : (p.rparenPre l).o = p.o := by
  unfold P.rparenPre
  split
  · rfl
  · exact newlines_o p l
theorem rightParen_o (p : P) (l : Nat) : (p.rightParen l).o = p.o := by
  unfold P.rightParen
  simp only
  show (if _ then _ else _ : P).o = _
  split
  · exact newlines_o p l
  · rfl
theorem blkOpen_o (p : P) (lb : Pos) : (p.blkOpen lb).o = p.o := by
  unfold P.blkOpen
  simp only
  show ((p.advanceLine lb.line).spacePad).o = _
  rw [spacePad_o]; rfl
theorem semiPre_o (p : P) (l : Nat) : (p.semiPre l).o = p.o := by
  unfold P.semiPre
  split
  · exact newlines_o p l
  · simp only
    have e : ∀ x : P, (if (!x.o.minify) = true then x.spacePad else x).o = x.o := by
      intro x
      split
      · exact spacePad_o x
      · rfl
    rw [e]
    split <;> rfl

mutual
theorem stmt_oN : ∀ (s : Stmt) (p : P), (p.stmt s).o = p.o
  | .mk _ semi neg bg cmd, p => by
    rw [P.stmt, stmtEnd_o, command_oN cmd, stmtPre_o]
theorem command_oN : ∀ (c : Cmd) (p : P), (p.command c).o = p.o
  | .call args, p => by
    cases args with
    | nil => simp [P.command, P.panic]
    | cons w rest =>
      cases hp : w.pos? with
      | none => simp [P.command, hp, P.panic]
      | some pos =>
        rw [command_call p w rest pos hp, wordJoin_o, wordJoin_o, decLevel_o, incLevel_o, spacePad_o]; rfl
  | .binary opPos op x y, p => by
    rw [P.command, binaryEnd_o, stmt_oN y, binaryOp_o, stmt_oN x, spacePad_o]; rfl
  | .subshell lp rp ss, p => by
    rw [command_subshell2, rightParen_o]
    unfold P.subClose
    rw [closingParenSpace_o, nestedStmtsWith_eq2, decLevel_o, stmtListWith_o, loop_oN ss, nestPre_o, subshellOpen_o,
      spacePad_o]; rfl
  | .block lb rb ss, p => by
    rw [command_block2, semiRsrv_eq2]
    show ((p.blkBody lb rb ss).semiPre rb.line).o = _
    rw [semiPre_o]
    unfold P.blkBody
    have e : ((p.blkOpen lb).nestedStmtsWith ss rb (fun q => q.stmtListLoop true ss)).o = p.o := by
      rw [nestedStmtsWith_eq2, decLevel_o, stmtListWith_o, loop_oN ss, nestPre_o, blkOpen_o]
    split
    · exact e
    · exact e
theorem loop_oN : ∀ (ss : Stmts) (p : P) (first : Bool), (p.stmtListLoop first ss).o = p.o
  | .nil, p, first => by rw [P.stmtListLoop]
  | .cons s rest, p, first => by
    rw [P.stmtListLoop, loop_oN rest]
    show ((p.stmtSep first s.pos.line).stmt s).o = _
    rw [stmt_oN s, stmtSep_o]
end

/-! ## The tokens of a printer run (all of F0) -/

theorem tl_subshellOpen (p : P) (lp : Pos) (ss : Stmts) : (p.subshellOpen lp ss).tl = p.tl ++ [(TK.other, p.cur)] := by
  unfold P.subshellOpen
  simp only
  rw [tl_spacePad]
  have e : (p.tok [40]).tl = p.tl ++ [(TK.other, p.cur)] := tl_tok p [40]
  split
  · exact e
  · split
    · split
      · split <;> exact e
      · exact e
    · exact e
theorem tl_nestPre (p : P) (ss : Stmts) (c : Pos) : (p.nestPre ss c).tl = p.tl := by
  unfold P.nestPre
  simp only
  split
  · exact tl_incLevel p
  · split
    · exact tl_incLevel p
    · exact tl_incLevel p
theorem cur_nestPre (p : P) (ss : Stmts) (c : Pos) : (p.nestPre ss c).cur = p.cur := by
  unfold P.nestPre
  simp only
  split
  · exact cur_incLevel p
  · split
    · exact cur_incLevel p
    · exact cur_incLevel p
theorem tl_nested (p : P) (ss : Stmts) (c : Pos) (loop : P → P) :
    (p.nestedStmtsWith ss c loop).tl = (loop (p.nestPre ss c)).tl := by
  rw [nestedStmtsWith_eq2, tl_decLevel, stmtListWith_eq2]
  split <;> rfl
theorem cur_nested (p : P) (ss : Stmts) (c : Pos) (loop : P → P) :
    (p.nestedStmtsWith ss c loop).cur = (loop (p.nestPre ss c)).cur := by
  rw [nestedStmtsWith_eq2, cur_decLevel, stmtListWith_eq2]
  split <;> rfl
theorem tl_closingParenSpace (p : P) (ss : Stmts) (a b : Nat) : (p.closingParenSpace ss a b).tl = p.tl := by
  rw [closingParenSpace_eq2, tl_spacePad]
  split <;> rfl
theorem cur_closingParenSpace (p : P) (ss : Stmts) (a b : Nat) : (p.closingParenSpace ss a b).cur = p.cur := by
  rw [closingParenSpace_eq2, cur_spacePad]
  split <;> rfl
theorem tl_rparenPre (p : P) (l : Nat) : (p.rparenPre l).tl = p.tl := by
  unfold P.rparenPre
  split
  · rfl
  · exact tl_newlines p l
theorem rightParen_eq (p : P) (l : Nat) : p.rightParen l = { ((p.rparenPre l).tok [41]) with wantSpace := .required } := by
  unfold P.rightParen P.rparenPre
  cases p.o.minify <;> rfl
theorem tl_rightParen (p : P) (l : Nat) : (p.rightParen l).tl = p.tl ++ [(TK.other, (p.rparenPre l).cur)] := by
  rw [rightParen_eq]
  show ((p.rparenPre l).tok [41]).tl = _
  rw [tl_tok, tl_rparenPre]
  rfl
theorem tl_blkOpen (p : P) (lb : Pos) : (p.blkOpen lb).tl = p.tl ++ [(TK.other, p.cur)] := by
  unfold P.blkOpen
  simp only
  show (((p.advanceLine lb.line).spacePad).tok [123]).tl = _
  rw [tl_tok, tl_spacePad, cur_spacePad]
  rfl
theorem cur_blkOpen (p : P) (lb : Pos) : (p.blkOpen lb).cur = p.cur := by
  unfold P.blkOpen
  simp only
  show (((p.advanceLine lb.line).spacePad).tok [123]).cur = _
  rw [cur_tok, cur_spacePad]
  rfl

/-- the `;` that `semiRsrv` may write before the reserved word -/
def semiPreD (p : P) (l : Nat) : List (TK × Nat) :=
  if p.wantsNewline l false then [] else if !p.wroteSemi then [(TK.semi, p.cur)] else []

theorem tl_semiPre (p : P) (l : Nat) : (p.semiPre l).tl = p.tl ++ semiPreD p l := by
  unfold P.semiPre semiPreD
  split
  · rw [tl_newlines]; simp
  · simp only
    have e : ∀ x : P, (if (!x.o.minify) = true then x.spacePad else x).tl = x.tl := by
      intro x
      split
      · exact tl_spacePad x
      · rfl
    rw [e]
    split
    · exact tl_tok p [59]
    · simp

mutual
def stmtDN (p : P) : Stmt → List (TK × Nat)
  | .mk _ semi neg bg cmd =>
    (if neg then [(TK.other, p.cur)] else []) ++
      (cmdDN (p.stmtPre neg) cmd ++ semiD ((p.stmtPre neg).command cmd) semi bg)
def cmdDN (p : P) : Cmd → List (TK × Nat)
  | .call args => callD p args
  | .binary opPos op x y =>
    stmtDN ((p.advanceLine x.pos.line).spacePad) x ++
      ((TK.other, opLine (((p.advanceLine x.pos.line).spacePad).stmt x) y.pos.line) ::
        stmtDN ((((p.advanceLine x.pos.line).spacePad).stmt x).binaryOp opPos op y.pos.line y.isBinaryCmd).1 y)
  | .subshell lp rp ss =>
    (TK.other, p.cur) ::
      (loopDN ((((p.advanceLine lp.line).spacePad).subshellOpen lp ss).nestPre ss rp) true ss ++
        [(TK.other, ((p.subClose lp rp ss).rparenPre rp.line).cur)])
  | .block lb rb ss =>
    (TK.other, p.cur) ::
      (loopDN ((p.blkOpen lb).nestPre ss rb) true ss ++
        (semiPreD (p.blkBody lb rb ss) rb.line ++ [(TK.other, ((p.blkBody lb rb ss).semiPre rb.line).cur)]))
def loopDN (p : P) (first : Bool) : Stmts → List (TK × Nat)
  | .nil => []
  | .cons s rest =>
    stmtDN (p.stmtSep first s.pos.line) s ++
      loopDN { ((p.stmtSep first s.pos.line).stmt s) with wantNewline := true } false rest
end

theorem blkBody_tl (p : P) (lb rb : Pos) (ss : Stmts) :
    (p.blkBody lb rb ss).tl = ((p.blkOpen lb).nestedStmtsWith ss rb (fun q => q.stmtListLoop true ss)).tl := by
  unfold P.blkBody
  split
  · exact tl_space _
  · rfl

mutual
theorem tl_stmtN : ∀ (s : Stmt) (p : P), s.wf = true → p.o.singleLine = false →
    (p.stmt s).tl = p.tl ++ stmtDN p s
  | .mk _ semi neg bg cmd, p, hwf, hsl => by
    have hcw : cmd.wf = true := by
      simp only [Stmt.wf, Bool.and_eq_true] at hwf; exact hwf.1
    have hsl1 : (p.stmtPre neg).o.singleLine = false := by rw [stmtPre_o]; exact hsl
    rw [P.stmt, tl_stmtEnd _ _ _ (by rw [command_oN cmd]; exact hsl1), tl_cmdN cmd _ hcw hsl1, tl_stmtPre]
    simp only [stmtDN, List.append_assoc]
theorem tl_cmdN : ∀ (c : Cmd) (p : P), c.wf = true → p.o.singleLine = false →
    (p.command c).tl = p.tl ++ cmdDN p c
  | .call args, p, hwf, _ => by
    obtain ⟨h1, h2⟩ := call_wordsOK hwf
    rw [tl_call p args h1 h2]
    simp only [cmdDN]
  | .binary opPos op x y, p, hwf, hsl => by
    have hxw : x.wf = true := by simp only [Cmd.wf, Bool.and_eq_true] at hwf; exact hwf.1.1.1.1
    have hyw : y.wf = true := by simp only [Cmd.wf, Bool.and_eq_true] at hwf; exact hwf.1.1.1.2
    have hsl0 : ((p.advanceLine x.pos.line).spacePad).o.singleLine = false := by rw [spacePad_o]; exact hsl
    have hsl1 : (((p.advanceLine x.pos.line).spacePad).stmt x).o.singleLine = false := by
      rw [stmt_oN x]; exact hsl0
    rw [P.command, tl_binaryEnd, tl_stmtN y _ hyw (by rw [binaryOp_o]; exact hsl1), tl_binaryOp,
      tl_stmtN x _ hxw hsl0, tl_spacePad, tl_advanceLine]
    simp only [cmdDN, List.append_assoc, List.singleton_append]
  | .subshell lp rp ss, p, hwf, hsl => by
    have hsw : ss.wf = true := by simp only [Cmd.wf, Bool.and_eq_true] at hwf; exact hwf.2
    rw [command_subshell2, tl_rightParen]
    unfold P.subClose
    rw [tl_closingParenSpace, tl_nested,
      tl_loopN ss _ true hsw (by rw [nestPre_o, subshellOpen_o, spacePad_o]; exact hsl), tl_nestPre,
      tl_subshellOpen, tl_spacePad, tl_advanceLine, cur_spacePad]
    simp only [cmdDN, P.subClose, List.append_assoc, List.cons_append]
    rfl
  | .block lb rb ss, p, hwf, hsl => by
    have hsw : ss.wf = true := by simp only [Cmd.wf, Bool.and_eq_true] at hwf; exact hwf.2
    rw [command_block2, semiRsrv_eq2]
    show ((p.blkBody lb rb ss).semiPre rb.line |>.tok [125]).tl = _
    rw [tl_tok, tl_semiPre, blkBody_tl, tl_nested,
      tl_loopN ss _ true hsw (by rw [nestPre_o, blkOpen_o]; exact hsl), tl_nestPre, tl_blkOpen]
    simp only [cmdDN, List.append_assoc, List.cons_append]
    rfl
theorem tl_loopN : ∀ (ss : Stmts) (p : P) (first : Bool), ss.wf = true → p.o.singleLine = false →
    (p.stmtListLoop first ss).tl = p.tl ++ loopDN p first ss
  | .nil, p, first, _, _ => by simp [P.stmtListLoop, loopDN]
  | .cons s rest, p, first, hwf, hsl => by
    obtain ⟨hs, hr⟩ := Stmts.wf_cons hwf
    have hsl1 : (p.stmtSep first s.pos.line).o.singleLine = false := by rw [stmtSep_o]; exact hsl
    rw [P.stmtListLoop, tl_loopN rest _ false hr (by
      show ((p.stmtSep first s.pos.line).stmt s).o.singleLine = false
      rw [stmt_oN s]; exact hsl1)]
    show ((p.stmtSep first s.pos.line).stmt s).tl ++ _ = _
    rw [tl_stmtN s _ hs hsl1, tl_stmtSep _ _ _ hsl]
    simp only [loopDN, List.append_assoc]
end

/-! ## Where a re-read statement ends -/

def partEnd (x : WordPart) : Nat := x.stop.line

theorem partEnd_eq (x : WordPart) : partEnd x = x.endMax ∧ partEnd x ∈ partLines x := by
  cases x with
  | lit a e v => exact ⟨rfl, by simp [partEnd, WordPart.stop, partLines]⟩
  | sgl l r v =>
    have : (WordPart.sgl l r v).stop.line = r.line := by
      simp only [WordPart.stop]; split <;> rfl
    exact ⟨by simp [partEnd, WordPart.endMax, this], by simp [partEnd, this, partLines]⟩

/-- in a word whose lines do not decrease, the last part ends on the largest line -/
theorem lastEnd_partsMax : ∀ (parts : List WordPart), Sorted (wlines parts) → parts ≠ [] →
    ((parts.getLast?.map WordPart.stop).map (fun e => e.line)).getD 0 = partsMax parts
  | [], _, h => absurd rfl h
  | [x], _, _ => by
    simp only [List.getLast?_singleton, Option.map_some, Option.getD_some, partsMax]
    have := (partEnd_eq x).1
    unfold partEnd at this
    rw [this]; omega
  | x :: y :: r, hs, _ => by
    have hs2 : Sorted (wlines (y :: r)) := by
      unfold Sorted at hs ⊢
      simp only [wlines, List.flatMap_cons] at hs ⊢
      exact (List.pairwise_append.mp hs).2.1
    have ih := lastEnd_partsMax (y :: r) hs2 (by simp)
    rw [List.getLast?_cons_cons, ih]
    simp only [partsMax]
    -- `x` ends no later than the last part
    have hx : x.endMax ≤ max y.endMax (partsMax r) := by
      have hm : ∃ z ∈ y :: r, partsMax (y :: r) = z.endMax := by
        have : ∀ l : List WordPart, l ≠ [] → ∃ z ∈ l, partsMax l = z.endMax := by
          intro l
          induction l with
          | nil => intro h; exact absurd rfl h
          | cons a t iht =>
            intro _
            cases t with
            | nil => exact ⟨a, by simp, by simp [partsMax]⟩
            | cons b t' =>
              obtain ⟨z, hz, e⟩ := iht (by simp)
              simp only [partsMax] at e ⊢
              by_cases hc : a.endMax ≤ max b.endMax (partsMax t')
              · exact ⟨z, by simp [hz], by rw [← e]; omega⟩
              · exact ⟨a, by simp, by omega⟩
        exact this (y :: r) (by simp)
      obtain ⟨z, hz, e⟩ := hm
      simp only [partsMax] at e
      rw [e]
      unfold Sorted at hs
      simp only [wlines, List.flatMap_cons] at hs
      obtain ⟨_, _, h3⟩ := List.pairwise_append.mp hs
      have h1 := (partEnd_eq x)
      have h2 := (partEnd_eq z)
      rw [← h1.1, ← h2.1]
      exact h3 _ h1.2 _ (by
        have : partEnd z ∈ wlines (y :: r) := by
          simp only [wlines, List.mem_flatMap]
          exact ⟨z, hz, h2.2⟩
        simpa [wlines] using this)
    omega

def Word.endL (w : Word) : Nat := ((w.stop?).map (fun e => e.line)).getD 0

theorem call_endLine (args : List Word) :
    (Cmd.call args).endLine = (args.getLast?.map Word.endL).getD 0 := by
  simp only [Cmd.endLine]
  cases args.getLast? with
  | none => rfl
  | some w =>
    simp only [Option.map_some, Option.getD_some]
    unfold Word.endL
    cases w.stop? <;> rfl

theorem cur_word (p : P) (w : Word) (hne : w.parts ≠ []) :
    (p.word w).cur = (p.preWord w).cur + nls (wordBytes w.parts) := by
  unfold P.word P.wordParts
  cases hw : w.parts with
  | nil => exact absurd hw hne
  | cons wp r =>
    simp only
    rw [wordPartsLoop_eq]
    have e : p.preWord w = (if (!p.o.singleLine && decide (wp.pos.line > p.line)) = true then p.bslashNewl else p) := by
      unfold P.preWord; rw [hw]
    rw [← e, ← hw]
    show P.cur { (p.preWord w) with out := .word w.parts :: (p.preWord w).out, line := _, wantSpace := _ } = _
    rw [P.cur_eq, P.cur_eq, outB_cons (p.preWord w) (.word w.parts) _ rfl, nls_append]
    simp only [Piece.bytes]
    omega

theorem endArgs : ∀ (ws ws' : List Word) (p : P) (any : Bool), TrArgs p any ws ws' → ws ≠ [] →
    (∀ w ∈ ws', Sorted (wlines w.parts)) →
    (ws'.getLast?.map Word.endL).getD 0 = (p.wordJoinLoop any ws).1.cur
  | [], _, _, _, _, h, _ => absurd rfl h
  | _ :: _, [], _, _, t, _, _ => by simp [TrArgs] at t
  | w :: rest, w' :: rest', p, any, t, _, hs => by
    simp only [TrArgs] at t
    obtain ⟨pos, hp, tw, tr⟩ := t
    rw [wordJoinLoop_cons p any w rest pos hp]
    cases rest with
    | nil =>
      cases rest' with
      | cons _ _ => simp [TrArgs] at tr
      | nil =>
        simp only [List.getLast?_singleton, Option.map_some, Option.getD_some, P.wordJoinLoop]
        obtain ⟨wp', r', hw', _⟩ := tw.first
        have hne' : w'.parts ≠ [] := by rw [hw']; simp
        unfold Word.endL Word.stop?
        rw [lastEnd_partsMax w'.parts (hs w' (by simp)) hne', tw.last, cur_word _ _ tw.ne]
    | cons w2 rest2 =>
      cases rest' with
      | nil => simp [TrArgs] at tr
      | cons w2' rest2' =>
        rw [List.getLast?_cons_cons]
        exact endArgs (w2 :: rest2) (w2' :: rest2') _ _ tr (by simp) (fun x hx => hs x (by simp [hx]))

theorem cur_wordJoin (ws : List Word) (p : P) : (p.wordJoin ws).cur = (p.wordJoinLoop false ws).1.cur := by
  unfold P.wordJoin
  simp only
  split
  · exact cur_decLevel _
  · rfl

theorem cur_stmtEnd (p : P) (semi : Pos) (bg : Bool) (hsl : p.o.singleLine = false) :
    (p.stmtEnd semi bg).cur = p.cur + (if (semi.valid && decide (semi.line > p.line)) = true then 1 else 0) := by
  unfold P.stmtEnd
  simp only
  rw [cur_decLevel]
  have hl : p.incLevel.line = p.line := incLevel_line p
  have ho : p.incLevel.o = p.o := incLevel_o p
  have hc : p.incLevel.cur = p.cur := cur_incLevel p
  generalize p.incLevel = p1 at hl ho hc
  simp only [ho, hsl, Bool.not_false, Bool.and_true, hl]
  have tk : ∀ (x : P) (b : Bool), (if b = true then x.tok [38] else x.tok [59]).cur = x.cur := by
    intro x b; cases b
    · exact (cur_tok x [59]).trans rfl
    · exact (cur_tok x [38]).trans rfl
  by_cases c : (semi.valid && decide (semi.line > p.line)) = true
  · simp only [c, Bool.true_or, ↓reduceIte]
    show (if bg = true then P.tok _ [38] else P.tok _ [59]).cur = _
    rw [tk, cur_bslashNewl, hc]
  · have c' : (semi.valid && decide (semi.line > p.line)) = false := by simpa using c
    simp only [c', Bool.false_or, Bool.false_eq_true, ↓reduceIte, Nat.add_zero]
    cases bg
    · simp only [Bool.false_eq_true, ↓reduceIte]; exact hc
    · simp only [↓reduceIte]
      show (P.tok _ [38]).cur = _
      rw [cur_tok]
      split
      · rw [cur_space, hc]; rfl
      · rw [hc]; rfl

theorem sorted_flatMap_mem {α : Type} (f : α → List Nat) : ∀ (l : List α), Sorted (l.flatMap f) → ∀ x ∈ l, Sorted (f x)
  | [], _, x, hx => by cases hx
  | a :: r, h, x, hx => by
    unfold Sorted at h ⊢
    simp only [List.flatMap_cons] at h
    obtain ⟨h1, h2, _⟩ := List.pairwise_append.mp h
    rcases List.mem_cons.mp hx with rfl | hx
    · exact h1
    · exact sorted_flatMap_mem f r h2 x hx

theorem cur_binaryEnd (p : P) (i m : Bool) : (p.binaryEnd i m).cur = p.cur := by
  unfold P.binaryEnd
  cases m
  · rfl
  · cases i
    · rfl
    · exact cur_decLevel p

theorem cur_rightParen (p : P) (l : Nat) : (p.rightParen l).cur = (p.rparenPre l).cur := by
  rw [rightParen_eq]
  show ((p.rparenPre l).tok [41]).cur = _
  rw [cur_tok]; rfl

mutual
theorem end_stmt : ∀ (s s' : Stmt) (p : P), TrStmt p s s' → Sorted s'.lines → p.o.singleLine = false →
    s'.endLine = (p.stmt s).cur
  | .mk _ semi neg bg cmd, .mk pos' semi' neg' bg' cmd', p, t, hs, hsl => by
    simp only [TrStmt] at t
    obtain ⟨rfl, rfl, _, tc, ts⟩ := t
    have hsl2 : ((p.stmtPre neg').command cmd).o.singleLine = false := by
      rw [command_oN, stmtPre_o]; exact hsl
    have hsc : Sorted cmd'.lines := by
      unfold Sorted at hs ⊢
      simp only [Stmt.lines] at hs
      exact (List.pairwise_append.mp (List.pairwise_cons.mp hs).2).1
    rw [P.stmt, cur_stmtEnd _ _ _ hsl2]
    simp only [Stmt.endLine]
    by_cases c : (semi.valid && decide (semi.line > ((p.stmtPre neg').command cmd).line)) = true
    · simp only [Bool.and_eq_true, decide_eq_true_eq] at c
      obtain ⟨hv, hl⟩ := ts.sepV c.1 c.2
      simp [hv, hl, c.1, c.2]
    · have hn : ¬ (semi.valid = true ∧ semi.line > ((p.stmtPre neg').command cmd).line) := by
        intro hh; apply c; simp [hh.1, hh.2]
      have c' : (semi.valid && decide (semi.line > ((p.stmtPre neg').command cmd).line)) = false := by simpa using c
      rw [c']
      simp only [Bool.false_eq_true, ↓reduceIte, Nat.add_zero]
      cases hv' : semi'.valid with
      | true => simp only [↓reduceIte]; exact ts.nosep hn hv'
      | false =>
        simp only [Bool.false_eq_true, ↓reduceIte]
        exact end_cmd cmd cmd' _ tc hsc (by rw [stmtPre_o]; exact hsl)
theorem end_cmd : ∀ (c c' : Cmd) (p : P), TrCmd p c c' → Sorted c'.lines → p.o.singleLine = false →
    c'.endLine = (p.command c).cur
  | .call args, c', p, t, hs, _ => by
    cases c' with
    | call args' =>
      simp only [TrCmd] at t
      have hws : ∀ w ∈ args', Sorted (wlines w.parts) := by
        simp only [Cmd.lines] at hs
        exact sorted_flatMap_mem _ args' hs
      cases args with
      | nil => simp [TrCall] at t
      | cons w rest =>
        cases args' with
        | nil => simp [TrCall] at t
        | cons w' rest' =>
          simp only [TrCall] at t
          obtain ⟨pos, hp, t1, t2⟩ := t
          rw [call_endLine, command_call p w rest pos hp, cur_wordJoin]
          cases rest with
          | nil =>
            cases rest' with
            | cons _ _ => simp [TrArgs] at t2
            | nil =>
              simp only [P.wordJoinLoop]
              rw [cur_wordJoin]
              exact endArgs [w] [w'] _ false t1 (by simp) (fun x hx => hws x hx)
          | cons w2 r2 =>
            cases rest' with
            | nil => simp [TrArgs] at t2
            | cons w2' r2' =>
              rw [List.getLast?_cons_cons]
              exact endArgs (w2 :: r2) (w2' :: r2') _ false t2 (by simp) (fun x hx => hws x (by simp [hx]))
    | subshell _ _ _ => simp [TrCmd] at t
    | block _ _ _ => simp [TrCmd] at t
    | binary _ _ _ _ => simp [TrCmd] at t
  | .binary opPos op x y, c', p, t, hs, hsl => by
    cases c' with
    | call _ => simp [TrCmd] at t
    | subshell _ _ _ => simp [TrCmd] at t
    | block _ _ _ => simp [TrCmd] at t
    | binary opPos' op' x' y' =>
      simp only [TrCmd] at t
      obtain ⟨rfl, _, _, ty⟩ := t
      have hsy : Sorted y'.lines := by
        unfold Sorted at hs ⊢
        simp only [Cmd.lines] at hs
        exact (List.pairwise_cons.mp (List.pairwise_append.mp hs).2.1).2
      rw [P.command, cur_binaryEnd]
      simp only [Cmd.endLine]
      exact end_stmt y y' _ ty hsy (by rw [binaryOp_o, stmt_oN, spacePad_o]; exact hsl)
  | .subshell lp rp ss, c', p, t, _, _ => by
    cases c' with
    | call _ => simp [TrCmd] at t
    | block _ _ _ => simp [TrCmd] at t
    | binary _ _ _ _ => simp [TrCmd] at t
    | subshell lp' rp' ss' =>
      simp only [TrCmd] at t
      rw [command_subshell2, cur_rightParen]
      simp only [Cmd.endLine]
      exact t.2.2.2.2.2.2.2.2.2
  | .block lb rb ss, c', p, t, _, _ => by
    cases c' with
    | call _ => simp [TrCmd] at t
    | subshell _ _ _ => simp [TrCmd] at t
    | binary _ _ _ _ => simp [TrCmd] at t
    | block lb' rb' ss' =>
      simp only [TrCmd] at t
      rw [command_block2, semiRsrv_eq2]
      simp only [Cmd.endLine]
      rw [t.2.2.2.2.2.2]
      show _ = (P.tok _ [125]).cur
      rw [cur_tok]; rfl
end

theorem end_loop : ∀ (ss ss' : Stmts) (p : P) (first : Bool), TrLoop p first ss ss' → ss ≠ .nil →
    Sorted ss'.lines → p.o.singleLine = false → ss'.endLine = (p.stmtListLoop first ss).cur
  | .nil, _, _, _, _, h, _, _ => absurd rfl h
  | .cons _ _, .nil, _, _, t, _, _, _ => by simp [TrLoop] at t
  | .cons s rest, .cons s' rest', p, first, t, _, hs, hsl => by
    simp only [TrLoop] at t
    obtain ⟨ts, tr⟩ := t
    have hs1 : Sorted s'.lines ∧ Sorted rest'.lines := by
      unfold Sorted at hs ⊢
      simp only [Stmts.lines] at hs
      exact ⟨(List.pairwise_append.mp hs).1, (List.pairwise_append.mp hs).2.1⟩
    have hsl1 : (p.stmtSep first s.pos.line).o.singleLine = false := by rw [stmtSep_o]; exact hsl
    rw [P.stmtListLoop]
    cases rest with
    | nil =>
      cases rest' with
      | cons _ _ => simp [TrLoop] at tr
      | nil =>
        rw [P.stmtListLoop]
        show (Stmts.cons s' .nil).endLine = ((p.stmtSep first s.pos.line).stmt s).cur
        simp only [Stmts.endLine, Stmts.last?]
        exact end_stmt s s' _ ts hs1.1 hsl1
    | cons s2 r2 =>
      cases rest' with
      | nil => simp [TrLoop] at tr
      | cons s2' r2' =>
        have : (Stmts.cons s' (.cons s2' r2')).endLine = (Stmts.cons s2' r2').endLine := by
          simp [Stmts.endLine, Stmts.last?]
        rw [this]
        exact end_loop (.cons s2 r2) (.cons s2' r2') _ false tr (by simp) hs1.2 (by
          show ((p.stmtSep first s.pos.line).stmt s).o.singleLine = false
          rw [stmt_oN]; exact hsl1)

/-! ## The walk into subshells and blocks -/

mutual
theorem norm_shape_s : ∀ (s s' : Stmt), s'.norm = s.norm →
    s'.startsWithLparen = s.startsWithLparen ∧ s'.endsWithRparen = s.endsWithRparen
  | .mk _ _ neg bg cmd, .mk _ _ neg' bg' cmd', h => by
    simp only [Stmt.norm, NStmt.mk.injEq] at h
    obtain ⟨rfl, rfl, hc⟩ := h
    obtain ⟨a, b⟩ := norm_shape_c cmd cmd' hc
    simp only [Stmt.startsWithLparen, Stmt.endsWithRparen, a, b]
    exact ⟨trivial, trivial⟩
theorem norm_shape_c : ∀ (c c' : Cmd), c'.norm = c.norm →
    c'.startsWithLparen = c.startsWithLparen ∧ c'.endsWithRparen = c.endsWithRparen
  | .call _, c', h => by cases c' <;> simp [Cmd.norm] at h <;> simp [Cmd.startsWithLparen, Cmd.endsWithRparen]
  | .subshell _ _ _, c', h => by cases c' <;> simp [Cmd.norm] at h <;> simp [Cmd.startsWithLparen, Cmd.endsWithRparen]
  | .block _ _ _, c', h => by cases c' <;> simp [Cmd.norm] at h <;> simp [Cmd.startsWithLparen, Cmd.endsWithRparen]
  | .binary _ op x y, c', h => by
    cases c' with
    | call _ => simp [Cmd.norm] at h
    | subshell _ _ _ => simp [Cmd.norm] at h
    | block _ _ _ => simp [Cmd.norm] at h
    | binary _ op' x' y' =>
      simp only [Cmd.norm, NCmd.binary.injEq] at h
      simp only [Cmd.startsWithLparen, Cmd.endsWithRparen]
      exact ⟨(norm_shape_s x x' h.2.1).1, (norm_shape_s y y' h.2.2).2⟩
end

theorem norm_shape_l : ∀ (ss ss' : Stmts), ss'.norm = ss.norm →
    ss'.length = ss.length ∧ ss'.headLparen = ss.headLparen ∧ ss'.singleRparen = ss.singleRparen
  | .nil, .nil, _ => ⟨rfl, rfl, rfl⟩
  | .nil, .cons _ _, h => by simp [Stmts.norm] at h
  | .cons _ _, .nil, h => by simp [Stmts.norm] at h
  | .cons s r, .cons s' r', h => by
    simp only [Stmts.norm, NStmts.cons.injEq] at h
    obtain ⟨a, b⟩ := norm_shape_s s s' h.1
    obtain ⟨l, _, _⟩ := norm_shape_l r r' h.2
    refine ⟨by simp [Stmts.length, l], by simp [Stmts.headLparen, a], ?_⟩
    cases r with
    | nil =>
      cases r' with
      | nil => simp [Stmts.singleRparen, b]
      | cons _ _ => simp [Stmts.length] at l
    | cons _ _ =>
      cases r' with
      | nil => simp [Stmts.length] at l
      | cons _ _ => rfl

/-- what may follow a statement: no `;`/`&`, except the `;` that `semiRsrv` writes on line `c` -/
def SemiAt (c : Nat) (K : List (TK × Nat)) : Prop :=
  ∀ x rest, K = x :: rest → x.1 = .other ∨ x = (TK.semi, c)

theorem semi_glueN (p : P) (semi semi' : Pos) (bg : Bool) (K K' : List (TK × Nat)) (c : Nat)
    (hc : ¬ (semi.valid = true ∧ semi.line > p.line) → c = p.cur)
    (hd : (semiToks semi' bg).map tinfo ++ K' = semiD p semi bg ++ K)
    (hs : (NoSA K' ∧ SemiAt c K) ∨ ((bg = false ∧ semi.valid = false) ∧ semi'.valid = false)) :
    TrSemi p semi bg semi' ∧ (K' = K ∨ K = (TK.semi, c) :: K') := by
  rcases hs with ⟨hK', hK⟩ | hb
  · by_cases hother : NoSA K
    · obtain ⟨t, e⟩ := semi_glue p semi semi' bg K K' hd (Or.inl ⟨hother, hK'⟩)
      exact ⟨t.weak, Or.inl e⟩
    · -- `K` starts with the `;` of `semiRsrv`
      have hKs : ∃ K2, K = (TK.semi, c) :: K2 := by
        cases K with
        | nil => exact absurd (by intro x r e; cases e) hother
        | cons x r =>
          rcases hK x r rfl with h1 | h1
          · exfalso; apply hother; intro y r' e
            simp only [List.cons.injEq] at e
            rw [← e.1]; exact h1
          · exact ⟨r, by rw [h1]⟩
      obtain ⟨K2, rfl⟩ := hKs
      unfold semiD semiToks at hd
      by_cases cc : (semi.valid && decide (semi.line > p.line)) = true
      · simp only [cc, ↓reduceIte] at hd
        have hcc : semi.valid = true ∧ semi.line > p.line := by simpa using cc
        cases hv' : semi'.valid with
        | true =>
          simp only [hv', ↓reduceIte, List.map_cons, List.map_nil, List.cons_append, List.nil_append, List.cons.injEq] at hd
          have hl : semi'.line = p.cur + 1 := by
            have := congrArg Prod.snd hd.1
            simpa [tinfo] using this
          exact ⟨⟨fun _ _ => ⟨hv', hl⟩, fun hn _ => absurd hcc hn⟩, Or.inl hd.2⟩
        | false =>
          simp only [hv', Bool.false_eq_true, ↓reduceIte, List.map_nil, List.nil_append, List.cons_append] at hd
          exfalso
          have := hK' _ _ hd
          cases bg <;> simp at this
      · have cc' : (semi.valid && decide (semi.line > p.line)) = false := by simpa using cc
        have hnc : ¬ (semi.valid = true ∧ semi.line > p.line) := by
          intro hh; apply cc; simp [hh.1, hh.2]
        have hcp := hc hnc
        simp only [cc', Bool.false_eq_true, ↓reduceIte] at hd
        cases bg with
        | true =>
          simp only [↓reduceIte] at hd
          cases hv' : semi'.valid with
          | true =>
            simp only [hv', ↓reduceIte, List.map_cons, List.map_nil, List.cons_append, List.nil_append, List.cons.injEq] at hd
            have hl : semi'.line = p.cur := by
              have := congrArg Prod.snd hd.1
              simpa [tinfo] using this
            exact ⟨⟨fun h1 h2 => absurd ⟨h1, h2⟩ hnc, fun _ _ => hl⟩, Or.inl hd.2⟩
          | false =>
            simp only [hv', Bool.false_eq_true, ↓reduceIte, List.map_nil, List.nil_append, List.cons_append] at hd
            exfalso
            have := hK' _ _ hd
            simp at this
        | false =>
          simp only [Bool.false_eq_true, ↓reduceIte, List.nil_append] at hd
          cases hv' : semi'.valid with
          | true =>
            simp only [hv', ↓reduceIte, List.map_cons, List.map_nil, List.cons_append, List.nil_append, List.cons.injEq] at hd
            have hl : semi'.line = c := by
              have := congrArg Prod.snd hd.1
              simpa [tinfo] using this
            refine ⟨⟨fun h1 h2 => absurd ⟨h1, h2⟩ hnc, fun _ _ => by rw [hl, hcp]⟩, Or.inr ?_⟩
            rw [hd.2]
          | false =>
            simp only [hv', Bool.false_eq_true, ↓reduceIte, List.map_nil, List.nil_append] at hd
            exact ⟨⟨fun h1 h2 => absurd ⟨h1, h2⟩ hnc, fun _ hv => by rw [hv'] at hv; cases hv⟩, Or.inl hd⟩
  · obtain ⟨t, e⟩ := semi_glue p semi semi' bg K K' hd (Or.inr hb)
    exact ⟨t.weak, Or.inl e⟩

mutual
theorem stmtDN_head : ∀ (s : Stmt) (p : P), s.wf = true → ∃ rest, stmtDN p s = (TK.other, p.cur) :: rest
  | .mk _ semi neg bg cmd, p, hwf => by
    have hcw : cmd.wf = true := by
      simp only [Stmt.wf, Bool.and_eq_true] at hwf; exact hwf.1
    cases neg with
    | true => exact ⟨_, by simp only [stmtDN, ↓reduceIte, List.singleton_append]; rfl⟩
    | false =>
      obtain ⟨r, e⟩ := cmdDN_head cmd (p.stmtPre false) hcw
      exact ⟨_, by simp only [stmtDN, Bool.false_eq_true, ↓reduceIte, List.nil_append, e, List.cons_append]; rw [cur_stmtPre]⟩
theorem cmdDN_head : ∀ (c : Cmd) (p : P), c.wf = true → ∃ rest, cmdDN p c = (TK.other, p.cur) :: rest
  | .call args, p, hwf => by
    obtain ⟨ho, hne⟩ := call_wordsOK hwf
    cases args with
    | nil => exact absurd rfl hne
    | cons w rest =>
      obtain ⟨pos, hp⟩ := pos_of_parts (ho w (by simp))
      exact ⟨_, by simp only [cmdDN, callD, hp, first_word p w pos hp, List.singleton_append]; rfl⟩
  | .binary opPos op x y, p, hwf => by
    have hxw : x.wf = true := by simp only [Cmd.wf, Bool.and_eq_true] at hwf; exact hwf.1.1.1.1
    obtain ⟨r, e⟩ := stmtDN_head x ((p.advanceLine x.pos.line).spacePad) hxw
    exact ⟨_, by simp only [cmdDN, e, List.cons_append]; rw [cur_spacePad]; rfl⟩
  | .subshell _ _ _, p, _ => ⟨_, by simp only [cmdDN]; rfl⟩
  | .block _ _ _, p, _ => ⟨_, by simp only [cmdDN]; rfl⟩
end

theorem OKc.nested_sub {lp rp : Pos} {ss : Stmts} (h : OKc (.subshell lp rp ss)) :
    ss.wf = true ∧ ss.length > 0 ∧ (∀ tp ∈ ss.ftoks, tp.1.ok3 tp.2) ∧ Sorted ss.lines := by
  have hw := h.wf
  simp only [Cmd.wf, Bool.and_eq_true, decide_eq_true_eq] at hw
  refine ⟨hw.2, hw.1, fun tp htp => h.ok3 tp (by simp [Cmd.ftoks, htp]), ?_⟩
  have hs := h.sorted
  unfold Sorted at hs ⊢
  simp only [Cmd.lines] at hs
  exact (List.pairwise_append.mp (List.pairwise_cons.mp hs).2).1

theorem OKc.nested_blk {lb rb : Pos} {ss : Stmts} (h : OKc (.block lb rb ss)) :
    ss.wf = true ∧ ss.length > 0 ∧ (∀ tp ∈ ss.ftoks, tp.1.ok3 tp.2) ∧ Sorted ss.lines := by
  have hw := h.wf
  simp only [Cmd.wf, Bool.and_eq_true, decide_eq_true_eq] at hw
  refine ⟨hw.2, hw.1, fun tp htp => h.ok3 tp (by simp [Cmd.ftoks, htp]), ?_⟩
  have hs := h.sorted
  unfold Sorted at hs ⊢
  simp only [Cmd.lines] at hs
  exact (List.pairwise_append.mp (List.pairwise_cons.mp hs).2).1

theorem headLine_of_TrLoop {p : P} {ss ss' : Stmts} (t : TrLoop p true ss ss') (hne : ss.length > 0) :
    ss'.headLine = (p.stmtSep true ss.headLine).cur := by
  cases ss with
  | nil => simp [Stmts.length] at hne
  | cons s r =>
    cases ss' with
    | nil => simp [TrLoop] at t
    | cons s' r' =>
      simp only [TrLoop] at t
      simp only [Stmts.headLine]
      exact t.1.pos

theorem loop_cur_last (p : P) (first : Bool) (s : Stmt) :
    (p.stmtListLoop first (.cons s .nil)).cur = ((p.stmtSep first s.pos.line).stmt s).cur := by
  rw [P.stmtListLoop, P.stmtListLoop]; rfl

theorem blkBody_cur (p : P) (lb rb : Pos) (ss : Stmts) :
    (p.blkBody lb rb ss).cur = (((p.blkOpen lb).nestPre ss rb).stmtListLoop true ss).cur := by
  unfold P.blkBody
  split
  · rw [cur_space, cur_nested]
  · rw [cur_nested]

/-- the continuation after a statement: unchanged, or the `;` of `semiRsrv` went to the statement -/
def After (c : Nat) (K K' : List (TK × Nat)) : Prop := K' = K ∨ K = (TK.semi, c) :: K'

theorem After.of_other {c : Nat} {K K' : List (TK × Nat)} {x : TK × Nat} {r : List (TK × Nat)}
    (h : After c K K') (e : K = x :: r) (hx : x.1 = .other) : K' = K := by
  rcases h with h | h
  · exact h
  · rw [e] at h
    simp only [List.cons.injEq] at h
    rw [h.1] at hx
    cases hx

theorem noSA_cons_other {x : TK × Nat} {r : List (TK × Nat)} (hx : x.1 = .other) : NoSA (x :: r) := by
  intro y r' e
  simp only [List.cons.injEq] at e
  rw [← e.1]; exact hx

theorem semiAt_cons_other {c : Nat} {x : TK × Nat} {r : List (TK × Nat)} (hx : x.1 = .other) : SemiAt c (x :: r) := by
  intro y r' e
  simp only [List.cons.injEq] at e
  rw [← e.1]; exact Or.inl hx

mutual
theorem glue_stmtN : ∀ (s s' : Stmt) (p : P) (ctx : Option Pos) (K K' : List (TK × Nat)),
    s.wf = true → nestOKs p s = true → p.o.singleLine = false → OKs s' → s'.norm = s.norm → s'.pk ctx →
    (∀ bp, ctx = some bp → bp.line = p.cur) →
    s'.ftoks.map tinfo ++ K' = stmtDN p s ++ K →
    ((NoSA K' ∧ SemiAt (p.stmt s).cur K) ∨ (s.bare = true ∧ s'.bare = true)) →
    TrStmt p s s' ∧ After (p.stmt s).cur K K' ∧ (s.bare = true → s'.bare = true → K' = K)
  | .mk pos semi neg bg cmd, .mk pos' semi' neg' bg' cmd', p, ctx, K, K', hwf, hnok, hsl, ok, hn, hpk, hctx, hd, hs => by
    simp only [Stmt.norm, NStmt.mk.injEq] at hn
    obtain ⟨rfl, rfl, hnc⟩ := hn
    have hcw : cmd.wf = true := by
      simp only [Stmt.wf, Bool.and_eq_true] at hwf; exact hwf.1
    simp only [nestOKs] at hnok
    simp only [Stmt.pk] at hpk
    have hsl1 : (p.stmtPre neg').o.singleLine = false := by rw [stmtPre_o]; exact hsl
    have hsl2 : ((p.stmtPre neg').command cmd).o.singleLine = false := by rw [command_oN]; exact hsl1
    have hc1 : (p.stmtPre neg').cur = p.cur := cur_stmtPre p neg'
    have key : pos'.line = p.cur ∧
        cmd'.ftoks.map tinfo ++ ((semiToks semi' bg').map tinfo ++ K') =
          cmdDN (p.stmtPre neg') cmd ++ (semiD ((p.stmtPre neg').command cmd) semi bg' ++ K) := by
      simp only [Stmt.ftoks, stmtDN] at hd
      cases neg' with
      | true =>
        simp only [↓reduceIte, List.map_cons, List.cons_append, List.cons.injEq,
          List.map_append, List.append_assoc] at hd
        refine ⟨?_, hd.2⟩
        have := congrArg Prod.snd hd.1
        simpa [tinfo, rsrvTok] using this
      | false =>
        simp only [Bool.false_eq_true, ↓reduceIte, List.nil_append, List.map_append, List.append_assoc] at hd
        refine ⟨?_, hd⟩
        cases ctx with
        | some bp =>
          simp only at hpk
          rw [hpk.1.1]
          exact hctx bp rfl
        | none =>
          simp only at hpk
          obtain ⟨tp, r, e1, e2⟩ := hpk.1 trivial
          obtain ⟨r2, e3⟩ := cmdDN_head cmd (p.stmtPre false) hcw
          rw [e1, e3] at hd
          simp only [List.map_cons, List.cons_append, List.cons.injEq] at hd
          have := congrArg Prod.snd hd.1
          simp only [tinfo] at this
          rw [← e2, this, hc1]
    obtain ⟨hpos, hd2⟩ := key
    have hck : cmd'.pk (ctxCmd ctx neg' pos') := by
      cases ctx <;> exact hpk.2
    have hctx1 : ∀ bp, ctxCmd ctx neg' pos' = some bp → bp.line = (p.stmtPre neg').cur := by
      intro bp e
      rw [hc1]
      cases ctx with
      | none =>
        simp only [ctxCmd] at e
        split at e
        · simp only [Option.some.injEq] at e
          rw [← e]; exact hpos
        · cases e
      | some b2 =>
        simp only [ctxCmd, Option.some.injEq] at e
        rw [← e]; exact hctx b2 rfl
    obtain ⟨tc, hd3⟩ := glue_cmdN cmd cmd' (p.stmtPre neg') _ _ _ hcw hnok hsl1 ok.cmd hnc hck hctx1 hd2
    -- the terminator
    have hcur : ¬ (semi.valid = true ∧ semi.line > ((p.stmtPre neg').command cmd).line) →
        (P.stmt p (.mk pos semi neg' bg' cmd)).cur = ((p.stmtPre neg').command cmd).cur := by
      intro hnn
      rw [P.stmt, cur_stmtEnd _ _ _ hsl2]
      have : (semi.valid && decide (semi.line > ((p.stmtPre neg').command cmd).line)) = false := by
        cases hv : semi.valid
        · rfl
        · simp only [Bool.true_and, decide_eq_false_iff_not]
          exact fun hh => hnn ⟨hv, hh⟩
      rw [this]; simp
    have hs' : (NoSA K' ∧ SemiAt (P.stmt p (.mk pos semi neg' bg' cmd)).cur K) ∨
        ((bg' = false ∧ semi.valid = false) ∧ semi'.valid = false) := by
      rcases hs with h1 | ⟨h1, h2⟩
      · exact Or.inl h1
      · exact Or.inr ⟨bare_facts h1, (bare_facts h2).2⟩
    obtain ⟨ts, hk⟩ := semi_glueN _ semi semi' bg' K K' _ hcur hd3 hs'
    refine ⟨?_, hk, ?_⟩
    · simp only [TrStmt]
      exact ⟨trivial, trivial, hpos, tc, ts⟩
    · intro hb hb'
      obtain ⟨b1, b2⟩ := bare_facts hb
      have b3 := (bare_facts hb').2
      subst b1
      have e1 : semiD ((p.stmtPre neg').command cmd) semi false = [] := by simp [semiD, b2]
      have e2 : semiToks semi' false = [] := by simp [semiToks, b3]
      rw [e1, e2] at hd3
      simpa using hd3
theorem glue_cmdN : ∀ (c c' : Cmd) (p : P) (ctxc : Option Pos) (K K' : List (TK × Nat)),
    c.wf = true → nestOKc p c = true → p.o.singleLine = false → OKc c' → c'.norm = c.norm → c'.pk ctxc →
    (∀ bp, ctxc = some bp → bp.line = p.cur) →
    c'.ftoks.map tinfo ++ K' = cmdDN p c ++ K → TrCmd p c c' ∧ K' = K
  | .call args, c', p, ctxc, K, K', hwf, _, _, ok, hn, _, _, hd => by
    cases c' with
    | call args' =>
      simp only [Cmd.norm, NCmd.call.injEq] at hn
      rw [call_tinfo] at hd
      simp only [cmdDN] at hd
      obtain ⟨t, hk⟩ := glue_call p args args' K K' hwf ok.wf ok.call hn hd
      refine ⟨?_, hk⟩
      simp only [TrCmd]
      exact t
    | subshell _ _ _ => simp [Cmd.norm] at hn
    | block _ _ _ => simp [Cmd.norm] at hn
    | binary _ _ _ _ => simp [Cmd.norm] at hn
  | .binary opPos op x y, c', p, ctxc, K, K', hwf, hnok, hsl, ok, hn, hpk, hctx, hd => by
    cases c' with
    | call _ => simp [Cmd.norm] at hn
    | subshell _ _ _ => simp [Cmd.norm] at hn
    | block _ _ _ => simp [Cmd.norm] at hn
    | binary opPos' op' x' y' =>
      simp only [Cmd.norm, NCmd.binary.injEq] at hn
      obtain ⟨rfl, hnx, hny⟩ := hn
      simp only [nestOKc, Bool.and_eq_true] at hnok
      have hw := hwf
      simp only [Cmd.wf, Bool.and_eq_true] at hw
      obtain ⟨okx, oky, hop, hbx', hby'⟩ := ok.binary
      simp only [Cmd.pk] at hpk
      have hsl0 : ((p.advanceLine x.pos.line).spacePad).o.singleLine = false := by rw [spacePad_o]; exact hsl
      have hsl1 : (((p.advanceLine x.pos.line).spacePad).stmt x).o.singleLine = false := by
        rw [stmt_oN x]; exact hsl0
      have hc0 : ((p.advanceLine x.pos.line).spacePad).cur = p.cur := by rw [cur_spacePad]; rfl
      simp only [Cmd.ftoks, cmdDN, List.map_append, List.map_cons, List.append_assoc, List.cons_append] at hd
      have hpkx : x'.pk (if op' = BinOp.pipe then ctxc else none) := by
        split
        · rename_i e; simpa [e] using hpk.1
        · rename_i e; simpa [e] using hpk.1
      obtain ⟨tx, _, hd2⟩ := glue_stmtN x x' _ (if op' = BinOp.pipe then ctxc else none) _ _ hw.1.1.1.1 hnok.1 hsl0 okx hnx hpkx
        (by
          intro bp e
          rw [hc0]
          split at e
          · exact hctx bp e
          · cases e) hd (Or.inr ⟨hw.1.1.2, hbx'⟩)
      have hd2' := hd2 hw.1.1.2 hbx'
      simp only [List.cons.injEq] at hd2'
      obtain ⟨ty, _, hk⟩ := glue_stmtN y y' _ none K K' hw.1.1.1.2 hnok.2 (by rw [binaryOp_o]; exact hsl1) oky hny hpk.2
        (by intro bp e; cases e) hd2'.2 (Or.inr ⟨hw.1.2, hby'⟩)
      refine ⟨?_, hk hw.1.2 hby'⟩
      simp only [TrCmd]
      exact ⟨trivial, tx, hop, ty⟩
  | .subshell lp rp ss, c', p, ctxc, K, K', hwf, hnok, hsl, ok, hn, hpk, _, hd => by
    cases c' with
    | call _ => simp [Cmd.norm] at hn
    | block _ _ _ => simp [Cmd.norm] at hn
    | binary _ _ _ _ => simp [Cmd.norm] at hn
    | subshell lp' rp' ss' =>
      simp only [Cmd.norm, NCmd.subshell.injEq] at hn
      obtain ⟨hlen, hhl, hsr⟩ := norm_shape_l ss ss' hn
      obtain ⟨hsw', hpos', hok3', hsorted'⟩ := ok.nested_sub
      have hw := hwf
      simp only [Cmd.wf, Bool.and_eq_true, decide_eq_true_eq] at hw
      simp only [Cmd.pk] at hpk
      simp only [nestOKc, Bool.and_eq_true] at hnok
      obtain ⟨⟨⟨nA, nB⟩, nE⟩, nL⟩ := hnok
      have hslp : ((((p.advanceLine lp.line).spacePad).subshellOpen lp ss).nestPre ss rp).o.singleLine = false := by
        rw [nestPre_o, subshellOpen_o, spacePad_o]; exact hsl
      simp only [Cmd.ftoks, cmdDN, List.map_cons, List.map_append, List.cons_append, List.append_assoc,
        List.cons.injEq, List.map_nil, List.nil_append] at hd
      have hlp : lp'.line = p.cur := by
        have := congrArg Prod.snd hd.1
        simpa [tinfo] using this
      obtain ⟨tl, haf⟩ := glue_loopN ss ss' _ true _ _ hw.2 nL hslp ⟨hsw', hok3', hsorted', hpk⟩ hn hd.2
        (noSA_cons_other rfl) (semiAt_cons_other rfl)
      have hk := haf.of_other rfl rfl
      simp only [List.cons.injEq] at hk
      have hrp : rp'.line = ((p.subClose lp rp ss).rparenPre rp.line).cur := by
        have := congrArg Prod.snd hk.1
        simpa [tinfo] using this
      refine ⟨?_, hk.2⟩
      -- the quantities of the re-read tree are those of the first run
      have hhead : ss'.headLine =
          (((((p.advanceLine lp.line).spacePad).subshellOpen lp ss).nestPre ss rp).stmtSep true ss.headLine).cur :=
        headLine_of_TrLoop tl hw.1
      have hend : ss'.endLine =
          (((((p.advanceLine lp.line).spacePad).subshellOpen lp ss).nestPre ss rp).stmtListLoop true ss).cur :=
        end_loop ss ss' _ true tl (by intro e; rw [e] at hw; simp [Stmts.length] at hw) hsorted' hslp
      simp only [TrCmd]
      refine ⟨hlen, hhl, hsr, hlp, ?_, ?_, ?_, ?_, tl, hrp⟩
      · intro hh
        rw [hh] at nA
        simp only [Bool.not_true, Bool.false_or, beq_iff_eq] at nA
        rw [hlp, hhead]
        exact nA
      · intro hl1
        unfold nestAgree at nB
        simp only [Bool.and_eq_true, Bool.or_eq_true, Bool.not_eq_true', decide_eq_false_iff_not, beq_iff_eq] at nB
        rcases nB.1 with h1 | h1
        · exact absurd hl1 h1
        · rw [← h1]
          unfold nestB
          rw [hrp, hend, hlen]
      · intro hs1
        unfold nestAgree at nB
        simp only [Bool.and_eq_true, Bool.or_eq_true, Bool.not_eq_true', beq_iff_eq] at nB
        rcases nB.2 with h1 | h1
        · rw [hs1] at h1; cases h1
        · rw [← h1, hhead]
      · intro hs1
        rw [hs1] at nE
        simp only [Bool.not_true, Bool.false_or, beq_iff_eq] at nE
        rw [hlp, hrp]
        exact nE
  | .block lb rb ss, c', p, ctxc, K, K', hwf, hnok, hsl, ok, hn, hpk, _, hd => by
    cases c' with
    | call _ => simp [Cmd.norm] at hn
    | subshell _ _ _ => simp [Cmd.norm] at hn
    | binary _ _ _ _ => simp [Cmd.norm] at hn
    | block lb' rb' ss' =>
      simp only [Cmd.norm, NCmd.block.injEq] at hn
      obtain ⟨hlen, _, _⟩ := norm_shape_l ss ss' hn
      obtain ⟨hsw', hpos', hok3', hsorted'⟩ := ok.nested_blk
      have hw := hwf
      simp only [Cmd.wf, Bool.and_eq_true, decide_eq_true_eq] at hw
      simp only [Cmd.pk] at hpk
      simp only [nestOKc, Bool.and_eq_true, Bool.not_eq_true'] at hnok
      obtain ⟨⟨nB, nF⟩, nL⟩ := hnok
      have hslp : ((p.blkOpen lb).nestPre ss rb).o.singleLine = false := by
        rw [nestPre_o, blkOpen_o]; exact hsl
      simp only [Cmd.ftoks, cmdDN, List.map_cons, List.map_append, List.cons_append, List.append_assoc,
        List.cons.injEq, List.map_nil, List.nil_append] at hd
      have hlb : lb'.line = p.cur := by
        have := congrArg Prod.snd hd.1
        simpa [tinfo, rsrvTok] using this
      have hcur := blkBody_cur p lb rb ss
      have hKs : SemiAt (((p.blkOpen lb).nestPre ss rb).stmtListLoop true ss).cur
          (semiPreD (p.blkBody lb rb ss) rb.line ++ ((TK.other, ((p.blkBody lb rb ss).semiPre rb.line).cur) :: K)) := by
        unfold semiPreD
        split
        · exact semiAt_cons_other rfl
        · split
          · intro x r e
            simp only [List.cons_append, List.nil_append, List.cons.injEq] at e
            right
            rw [← e.1, hcur]
          · exact semiAt_cons_other rfl
      obtain ⟨tl, haf⟩ := glue_loopN ss ss' _ true _ _ hw.2 nL hslp ⟨hsw', hok3', hsorted', hpk⟩ hn hd.2
        (noSA_cons_other (by simp [tinfo, tkOf, rsrvTok])) hKs
      -- `}` and what follows
      have hk : rb'.line = ((p.blkBody lb rb ss).semiPre rb.line).cur ∧ K' = K := by
        unfold semiPreD at haf
        rcases haf with e | e
        · split at e
          · simp only [List.nil_append, List.cons.injEq] at e
            have := congrArg Prod.snd e.1
            exact ⟨by simpa [tinfo, rsrvTok] using this, e.2⟩
          · split at e
            · simp only [List.cons_append, List.nil_append, List.cons.injEq] at e
              have := congrArg Prod.fst e.1
              simp [tinfo, tkOf, rsrvTok] at this
            · simp only [List.nil_append, List.cons.injEq] at e
              have := congrArg Prod.snd e.1
              exact ⟨by simpa [tinfo, rsrvTok] using this, e.2⟩
        · split at e
          · simp only [List.nil_append, List.cons.injEq] at e
            have := congrArg Prod.fst e.1
            simp at this
          · split at e
            · simp only [List.cons_append, List.nil_append, List.cons.injEq] at e
              have := congrArg Prod.snd e.2.1
              exact ⟨by simpa [tinfo, rsrvTok] using this.symm, e.2.2.symm⟩
            · simp only [List.nil_append, List.cons.injEq] at e
              have := congrArg Prod.fst e.1
              simp at this
      refine ⟨?_, hk.2⟩
      have hhead : ss'.headLine = ((((p.blkOpen lb).nestPre ss rb)).stmtSep true ss.headLine).cur :=
        headLine_of_TrLoop tl hw.1
      have hend : ss'.endLine = (((p.blkOpen lb).nestPre ss rb).stmtListLoop true ss).cur :=
        end_loop ss ss' _ true tl (by intro e; rw [e] at hw; simp [Stmts.length] at hw) hsorted' hslp
      simp only [TrCmd]
      refine ⟨hlen, hlb, ?_, ?_, tl, nF, hk.1⟩
      · intro hl1
        unfold nestAgree at nB
        simp only [Bool.and_eq_true, Bool.or_eq_true, Bool.not_eq_true', decide_eq_false_iff_not, beq_iff_eq] at nB
        rcases nB.1 with h1 | h1
        · exact absurd hl1 h1
        · rw [← h1]
          unfold nestB
          rw [hk.1, hend, hlen]
      · intro hs1
        unfold nestAgree at nB
        simp only [Bool.and_eq_true, Bool.or_eq_true, Bool.not_eq_true', beq_iff_eq] at nB
        rcases nB.2 with h1 | h1
        · rw [hs1] at h1; cases h1
        · rw [← h1, hhead]
theorem glue_loopN : ∀ (ss ss' : Stmts) (p : P) (first : Bool) (K K' : List (TK × Nat)),
    ss.wf = true → nestOKl p first ss = true → p.o.singleLine = false → OKS ss' → ss'.norm = ss.norm →
    ss'.ftoks.map tinfo ++ K' = loopDN p first ss ++ K → NoSA K' → SemiAt (p.stmtListLoop first ss).cur K →
    TrLoop p first ss ss' ∧ After (p.stmtListLoop first ss).cur K K'
  | .nil, .nil, p, first, K, K', _, _, _, _, _, hd, _, _ => by
    simp only [Stmts.ftoks, loopDN, List.map_nil, List.nil_append] at hd
    exact ⟨by simp [TrLoop], Or.inl hd⟩
  | .nil, .cons _ _, _, _, _, _, _, _, _, _, hn, _, _, _ => by simp [Stmts.norm] at hn
  | .cons _ _, .nil, _, _, _, _, _, _, _, _, hn, _, _, _ => by simp [Stmts.norm] at hn
  | .cons s rest, .cons s' rest', p, first, K, K', hwf, hnok, hsl, ok, hn, hd, hK', hK => by
    obtain ⟨hs, hr⟩ := Stmts.wf_cons hwf
    simp only [nestOKl, Bool.and_eq_true] at hnok
    simp only [Stmts.norm, NStmts.cons.injEq] at hn
    obtain ⟨oks, pks, okr⟩ := ok.cons
    have hsl1 : (p.stmtSep first s.pos.line).o.singleLine = false := by rw [stmtSep_o]; exact hsl
    have hsl2 : ({ ((p.stmtSep first s.pos.line).stmt s) with wantNewline := true } : P).o.singleLine = false := by
      show ((p.stmtSep first s.pos.line).stmt s).o.singleLine = false
      rw [stmt_oN s]; exact hsl1
    simp only [Stmts.ftoks, loopDN, List.map_append, List.append_assoc] at hd
    have hK1' : NoSA (rest'.ftoks.map tinfo ++ K') := by
      cases rest' with
      | nil => simpa [Stmts.ftoks] using hK'
      | cons s2 r2 =>
        obtain ⟨hs2, _⟩ := Stmts.wf_cons okr.wf
        obtain ⟨tp, r, e, k⟩ := ftoks_head_s s2 hs2
        intro x rr hx
        simp only [Stmts.ftoks, e, List.cons_append, List.map_cons, List.cons.injEq] at hx
        rw [← hx.1]
        exact k
    cases rest with
    | nil =>
      cases rest' with
      | cons _ _ => simp [Stmts.norm] at hn
      | nil =>
        simp only [loopDN, List.nil_append] at hd
        rw [loop_cur_last] at hK ⊢
        obtain ⟨ts, haf, _⟩ := glue_stmtN s s' _ none K _ hs hnok.1 hsl1 oks hn.1 pks (by intro bp e; cases e) hd
          (Or.inl ⟨hK1', hK⟩)
        simp only [Stmts.ftoks, List.map_nil, List.nil_append] at haf
        refine ⟨?_, haf⟩
        simp only [TrLoop]
        exact ⟨ts, trivial⟩
    | cons s2 r2 =>
      obtain ⟨hs2, _⟩ := Stmts.wf_cons hr
      obtain ⟨r, e⟩ := stmtDN_head s2 (({ ((p.stmtSep first s.pos.line).stmt s) with wantNewline := true } : P).stmtSep false s2.pos.line) hs2
      have hhead : ∃ rr, loopDN { ((p.stmtSep first s.pos.line).stmt s) with wantNewline := true } false (.cons s2 r2) ++ K =
          (TK.other, (({ ((p.stmtSep first s.pos.line).stmt s) with wantNewline := true } : P).stmtSep false s2.pos.line).cur) :: rr := by
        exact ⟨_, by simp only [loopDN, e, List.cons_append]; rfl⟩
      obtain ⟨rr, ehead⟩ := hhead
      obtain ⟨ts, haf, _⟩ := glue_stmtN s s' _ none _ _ hs hnok.1 hsl1 oks hn.1 pks (by intro bp e; cases e) hd
        (Or.inl ⟨hK1', by rw [ehead]; exact semiAt_cons_other rfl⟩)
      have hd2 := haf.of_other ehead rfl
      have hcur : (p.stmtListLoop first (.cons s (.cons s2 r2))).cur =
          (({ ((p.stmtSep first s.pos.line).stmt s) with wantNewline := true } : P).stmtListLoop false (.cons s2 r2)).cur := by
        rw [P.stmtListLoop]
      rw [hcur] at hK ⊢
      obtain ⟨tr, haf2⟩ := glue_loopN (.cons s2 r2) rest' _ false K K' hr hnok.2 hsl2 okr hn.2 hd2 hK' hK
      refine ⟨?_, haf2⟩
      simp only [TrLoop]
      exact ⟨ts, tr⟩
end

/-- **The parser reads printed text back as a transcript** — all of F0 (subshells and blocks
    included), every option set without SingleLine, under the executable side condition
    `nestOKFile o f`. -/
theorem transcriptN (o : Opts) (l : Lang) (src : Bytes) (f f' : File) (b : Bytes) (hsrc : parse l src = .ok f)
    (hnok : nestOKFile o f = true) (hne : f.stmts ≠ .nil) (hsl : o.singleLine = false)
    (hp : printFile o f = .ok b) (hq : parse l b = .ok f') : TrFile o f f' := by
  obtain ⟨hwf, hmono⟩ := parse_wf_posMono l src f hsrc
  obtain ⟨hwf', hmono'⟩ := parse_wf_posMono l b f' hq
  obtain ⟨f'', h1, hnorm⟩ := roundtrip_gen o l f b hwf hmono hne hp
  rw [hq] at h1
  simp only [Except.ok.injEq] at h1
  subst h1
  obtain ⟨hb, hc⟩ := print_chain o f b hwf hmono hne hp
  obtain ⟨pf, hpf⟩ : ∃ pf, pf = ((P.init o).stmtList f.stmts).newline 0 := ⟨_, rfl⟩
  rw [← hpf] at hb hc
  have hkinds := lexAll_pieces pf.out.reverse hc
  have hlines := lexAll_pieces_lines pf.out.reverse hc
  rw [← hb] at hkinds hlines
  obtain ⟨Le, hbr⟩ := bridge pf.out.reverse false 1 (lexAll b) (lexChain_shape _ hc) hkinds hlines
  have htl : pinfo 1 pf.out.reverse = loopDN (P.init o) true f.stmts := by
    have e1 : pf.tl = ((P.init o).stmtListLoop true f.stmts).tl := by
      rw [hpf]
      unfold P.tl
      have := (P.stmtListWith_out (P.init o) f.stmts (fun q => q.stmtListLoop true f.stmts)).1
      show pinfo 1 (Piece.gap [10] :: ((P.init o).stmtList f.stmts).out).reverse = _
      unfold P.stmtList
      rw [this, List.reverse_cons, pinfo_append]
      simp [pinfo]
    have e2 := tl_loopN f.stmts (P.init o) true hwf hsl
    have e3 : (P.init o).tl = [] := rfl
    rw [e3, List.nil_append] at e2
    exact e1.trans e2
  rw [htl] at hbr
  obtain ⟨tail, hfl, htail⟩ := parse_flatten l b f' hq
  rw [hfl, List.map_append] at hbr
  have ok : OKS f'.stmts := by
    refine ⟨hwf', ?_, hmono', parse_pk l b f' hq⟩
    intro tp htp
    exact lexAll_ok3 b tp (mem_dropNl (by rw [hfl]; exact List.mem_append_left _ htp))
  have hK' : NoSA (tail.map tinfo) := by
    intro x rr e
    cases tail with
    | nil => simp at e
    | cons t0 tr =>
      simp only [List.map_cons, List.cons.injEq] at e
      have := htail t0 rfl
      rw [← e.1]
      simp [tinfo, this, tkOf]
  exact (glue_loopN f.stmts f'.stmts (P.init o) true _ _ hwf hnok hsl ok hnorm hbr hK' (semiAt_cons_other rfl)).1

/-- **Idempotence without SingleLine on all of F0 under the side condition `nestOKFile`.** -/
theorem idempotent_nested (o : Opts) (l : Lang) (src : Bytes) (f f' : File) (b : Bytes) (hsrc : parse l src = .ok f)
    (hnok : nestOKFile o f = true) (hne : f.stmts ≠ .nil) (hsl : o.singleLine = false)
    (hp : printFile o f = .ok b) (hq : parse l b = .ok f') : printFile o f' = .ok b := by
  rw [printFile_fix o f f' hsl (transcriptN o l src f f' b hsrc hnok hne hsl hp hq)]
  exact hp

mutual
theorem nestOK_lin_s : ∀ (s : Stmt) (p : P), s.lin = true → nestOKs p s = true
  | .mk _ _ neg _ cmd, p, h => by
    simp only [nestOKs]
    exact nestOK_lin_c cmd _ (by simpa [Stmt.lin] using h)
theorem nestOK_lin_c : ∀ (c : Cmd) (p : P), c.lin = true → nestOKc p c = true
  | .call _, _, _ => by simp [nestOKc]
  | .binary _ _ x y, p, h => by
    simp only [Cmd.lin, Bool.and_eq_true] at h
    simp only [nestOKc, Bool.and_eq_true]
    exact ⟨nestOK_lin_s x _ h.1, nestOK_lin_s y _ h.2⟩
  | .subshell _ _ _, _, h => by simp [Cmd.lin] at h
  | .block _ _ _, _, h => by simp [Cmd.lin] at h
end

theorem nestOK_lin_l : ∀ (ss : Stmts) (p : P) (first : Bool), ss.lin = true → nestOKl p first ss = true
  | .nil, _, _, _ => by simp [nestOKl]
  | .cons s r, p, first, h => by
    simp only [Stmts.lin, Bool.and_eq_true] at h
    simp only [nestOKl, Bool.and_eq_true]
    exact ⟨nestOK_lin_s s _ h.1, nestOK_lin_l r _ _ h.2⟩

/-- programs without subshells and blocks satisfy the side condition -/
theorem nestOKFile_of_lin (o : Opts) (f : File) (h : f.stmts.lin = true) : nestOKFile o f = true :=
  nestOK_lin_l f.stmts _ _ h

end ShVerif.L4
