import ShVerif.Model.L3Glob
/-
  L3 — helper lemmas shared by C17 and C18.
-/
namespace ShVerif.L3

end ShVerif.L3
