import ShVerif.Model.L3Glob
/-
  L3 — helper lemmas shared by C17 and C18.
  Part A: denotational semantics of `Regex` and correctness of the derivative matcher.
-/
namespace ShVerif.L3

/-! ## Part A — `rmatch` decides the language of a regular expression -/

/-- The language of a regular expression (`nc`: case folding on). -/
inductive Matches (nc : Bool) : Regex → Str → Prop
  | eps : Matches nc .eps []
  | chr {c x} : chEq nc c x = true → Matches nc (.chr c) [x]
  | any {x} : Matches nc .any [x]
  | set {neg items x} : setMem nc neg items x = true → Matches nc (.set neg items) [x]
  | cat {a b s t} : Matches nc a s → Matches nc b t → Matches nc (.cat a b) (s ++ t)
  | altL {a b s} : Matches nc a s → Matches nc (.alt a b) s
  | altR {a b s} : Matches nc b s → Matches nc (.alt a b) s
  | grp {a s} : Matches nc a s → Matches nc (.grp a) s
  | starNil {a} : Matches nc (.star a) []
  | starCons {a s t} : Matches nc a s → Matches nc (.star a) t → Matches nc (.star a) (s ++ t)
  | plus {a s t} : Matches nc a s → Matches nc (.star a) t → Matches nc (.plus a) (s ++ t)
  | optNil {a} : Matches nc (.opt a) []
  | optSome {a s} : Matches nc a s → Matches nc (.opt a) s

theorem nullable_iff (nc : Bool) (r : Regex) : nullable r = true ↔ Matches nc r [] := by
  induction r with
  | void => simp [nullable]; intro h; cases h
  | eps => simp [nullable]; exact .eps
  | chr c => simp [nullable]; intro h; cases h
  | any => simp [nullable]; intro h; cases h
  | set n i => simp [nullable]; intro h; cases h
  | cat a b iha ihb =>
    simp only [nullable, Bool.and_eq_true, iha, ihb]
    constructor
    · rintro ⟨h1, h2⟩; exact .cat (s := []) (t := []) h1 h2
    · intro h
      generalize hs : ([] : Str) = s at h
      cases h with
      | cat h1 h2 =>
        rename_i s1 t1
        have := List.append_eq_nil_iff.mp hs.symm
        obtain ⟨rfl, rfl⟩ := this
        exact ⟨h1, h2⟩
  | alt a b iha ihb =>
    simp only [nullable, Bool.or_eq_true, iha, ihb]
    constructor
    · rintro (h | h); exact .altL h; exact .altR h
    · intro h; cases h with
      | altL h => exact .inl h
      | altR h => exact .inr h
  | grp a iha =>
    simp only [nullable, iha]
    constructor
    · intro h; exact .grp h
    · intro h; cases h with | grp h => exact h
  | ugrp a _ => simp [nullable]; intro h; cases h
  | star a _ => simp [nullable]; exact .starNil
  | plus a iha =>
    simp only [nullable, iha]
    constructor
    · intro h; exact .plus (s := []) (t := []) h .starNil
    · intro h
      generalize hs : ([] : Str) = s at h
      cases h with
      | plus h1 h2 =>
        have := List.append_eq_nil_iff.mp hs.symm
        obtain ⟨rfl, rfl⟩ := this
        exact h1
  | opt a _ => simp [nullable]; exact .optNil

/-- A non-empty match of `star a` starts with a non-empty match of `a`. -/
theorem star_cons_split {nc a x s} (h : Matches nc (.star a) (x :: s)) :
    ∃ s1 s2, s = s1 ++ s2 ∧ Matches nc a (x :: s1) ∧ Matches nc (.star a) s2 := by
  generalize hr : Regex.star a = r at h
  generalize hxs : x :: s = w at h
  induction h generalizing x s with
  | starNil => cases hxs
  | @starCons a' s' t' h1 h2 _ ih2 =>
    cases hr
    cases s' with
    | nil => simp at hxs; exact ih2 rfl hxs
    | cons y s'' =>
      simp at hxs
      obtain ⟨rfl, rfl⟩ := hxs
      exact ⟨s'', t', rfl, h1, h2⟩
  | _ => cases hr

theorem deriv_iff (nc : Bool) (x : Rune) (r : Regex) (s : Str) :
    Matches nc (deriv nc x r) s ↔ Matches nc r (x :: s) := by
  induction r generalizing s with
  | void => simp only [deriv]; constructor <;> (intro h; cases h)
  | eps => simp only [deriv]; constructor <;> (intro h; cases h)
  | chr c =>
    simp only [deriv]
    constructor
    · intro h
      split at h
      · cases h; exact .chr ‹_›
      · cases h
    · intro h
      cases h with
      | chr hc => simp [hc]; exact .eps
  | any =>
    simp only [deriv]
    constructor
    · intro h; cases h; exact .any
    · intro h; cases h; exact .eps
  | set n i =>
    simp only [deriv]
    constructor
    · intro h
      split at h
      · cases h; exact .set ‹_›
      · cases h
    · intro h
      cases h with
      | set hc => simp [hc]; exact .eps
  | cat a b iha ihb =>
    simp only [deriv]
    constructor
    · intro h
      split at h
      · rename_i hn
        cases h with
        | altL h =>
          cases h with
          | cat h1 h2 => exact .cat (s := x :: _) ((iha _).mp h1) h2
        | altR h => exact .cat (s := []) ((nullable_iff nc a).mp hn) ((ihb _).mp h)
      · cases h with
        | cat h1 h2 => exact .cat (s := x :: _) ((iha _).mp h1) h2
    · intro h
      generalize hxs : x :: s = w at h
      cases h with
      | cat h1 h2 =>
        rename_i s1 t1
        cases s1 with
        | nil =>
          simp at hxs; subst hxs
          have hn := (nullable_iff nc a).mpr h1
          simp only [hn, if_true]
          exact .altR ((ihb _).mpr h2)
        | cons y s1' =>
          simp at hxs; obtain ⟨rfl, rfl⟩ := hxs
          split
          · exact .altL (.cat ((iha _).mpr h1) h2)
          · exact .cat ((iha _).mpr h1) h2
  | alt a b iha ihb =>
    simp only [deriv]
    constructor
    · intro h; cases h with
      | altL h => exact .altL ((iha _).mp h)
      | altR h => exact .altR ((ihb _).mp h)
    · intro h; cases h with
      | altL h => exact .altL ((iha _).mpr h)
      | altR h => exact .altR ((ihb _).mpr h)
  | grp a iha =>
    simp only [deriv]
    constructor
    · intro h; exact .grp ((iha _).mp h)
    · intro h; cases h with | grp h => exact (iha _).mpr h
  | ugrp a _ => simp only [deriv]; constructor <;> (intro h; cases h)
  | star a iha =>
    simp only [deriv]
    constructor
    · intro h; cases h with
      | cat h1 h2 => exact .starCons (s := x :: _) ((iha _).mp h1) h2
    · intro h
      obtain ⟨s1, s2, rfl, h1, h2⟩ := star_cons_split h
      exact .cat ((iha _).mpr h1) h2
  | plus a iha =>
    simp only [deriv]
    constructor
    · intro h; cases h with
      | cat h1 h2 => exact .plus (s := x :: _) ((iha _).mp h1) h2
    · intro h
      generalize hxs : x :: s = w at h
      cases h with
      | plus h1 h2 =>
        rename_i s1 t1
        cases s1 with
        | nil =>
          simp at hxs; subst hxs
          obtain ⟨u1, u2, rfl, g1, g2⟩ := star_cons_split h2
          exact .cat ((iha _).mpr g1) g2
        | cons y s1' =>
          simp at hxs; obtain ⟨rfl, rfl⟩ := hxs
          exact .cat ((iha _).mpr h1) h2
  | opt a iha =>
    simp only [deriv]
    constructor
    · intro h; exact .optSome ((iha _).mp h)
    · intro h
      generalize hxs : x :: s = w at h
      cases h with
      | optNil => cases hxs
      | optSome h => subst hxs; exact (iha _).mpr h

theorem derivs_iff (nc : Bool) (s t : Str) (r : Regex) :
    Matches nc (derivs nc s r) t ↔ Matches nc r (s ++ t) := by
  induction s generalizing r with
  | nil => simp [derivs]
  | cons x s ih => simp only [derivs, ih, deriv_iff, List.cons_append]

/-- The derivative matcher decides the language. -/
theorem rmatch_iff (nc : Bool) (r : Regex) (s : Str) : rmatch nc r s = true ↔ Matches nc r s := by
  unfold rmatch
  rw [nullable_iff nc, derivs_iff, List.append_nil]

/-! ## Part B — declarative semantics of `Glob` and correctness of the backtracking matcher -/

/-- What `*` may consume: characters a wildcard may consume, the first one in context `b`. -/
def StarDen (m : Mode) : Bool → Str → Prop
  | _, [] => True
  | b, x :: s => wildOk m b x = true ∧ StarDen m false s

/-- What `**` may consume: anything without a path component that begins with a dot. -/
def GstarDen (m : Mode) : Bool → Str → Prop
  | _, [] => True
  | b, x :: s => (!(!m.dotglob && b && x == cDot)) = true ∧ GstarDen m (startAfter m x) s

/-- Iteration of a context-dependent language, every round non-empty. -/
inductive IterDen (m : Mode) (R : Bool → Str → Prop) : Bool → Str → Prop
  | nil {b} : IterDen m R b []
  | cons {b s1 s2} : s1 ≠ [] → R b s1 → IterDen m R (ctxAfter m b s1) s2 → IterDen m R b (s1 ++ s2)

/-- What `!(…)` may consume at all: one path component's worth, no leading dot. -/
def negOk (m : Mode) (b : Bool) (s1 : Str) : Bool :=
  s1.all (wildOk m false) && (match s1 with
                              | x :: _ => wildOk m b x
                              | [] => true)

/-- The language of a parsed pattern, given whether we are at the start of a path component. -/
def GDen (m : Mode) : Glob → Bool → Str → Prop
  | .eps, _, s => s = []
  | .lit c, _, s => ∃ x, s = [x] ∧ chEq m.nocase c x = true
  | .any, b, s => ∃ x, s = [x] ∧ wildOk m b x = true
  | .star, b, s => StarDen m b s
  | .globstar false, b, s => GstarDen m b s
  | .globstar true, b, s => s = [] ∨ ∃ w, s = w ++ [cSlash] ∧ GstarDen m b w
  | .bracket neg items, b, s =>
    ∃ x, s = [x] ∧ wildOk m b x = true ∧ bracketMem m.nocase neg items x = true
  | .seq g1 g2, b, s => ∃ s1 s2, s = s1 ++ s2 ∧ GDen m g1 b s1 ∧ GDen m g2 (ctxAfter m b s1) s2
  | .alt g1 g2, b, s => GDen m g1 b s ∨ GDen m g2 b s
  | .ext op g, b, s =>
    if op = cAt then GDen m g b s
    else if op = cQuest then s = [] ∨ GDen m g b s
    else if op = cStar then IterDen m (GDen m g) b s
    else if op = cPlus then
      ∃ s1 s2, s = s1 ++ s2 ∧ GDen m g b s1 ∧ IterDen m (GDen m g) (ctxAfter m b s1) s2
    else negOk m b s = true ∧ ¬ GDen m g b s

theorem ctxAfter_nil (m : Mode) (b : Bool) : ctxAfter m b [] = b := rfl

theorem ctxAfter_append (m : Mode) (b : Bool) (s1 s2 : Str) :
    ctxAfter m (ctxAfter m b s1) s2 = ctxAfter m b (s1 ++ s2) := by
  unfold ctxAfter
  cases h2 : s2.getLast? with
  | none =>
    have : s2 = [] := List.getLast?_eq_none_iff.mp h2
    subst this
    simp
  | some x =>
    have : (s1 ++ s2).getLast? = some x := by
      rw [List.getLast?_append, h2]; rfl
    simp [this]

theorem ctxAfter_singleton (m : Mode) (b : Bool) (x : Rune) : ctxAfter m b [x] = startAfter m x := rfl

theorem ctxAfter_cons (m : Mode) (b : Bool) (x : Rune) (s : Str) :
    ctxAfter m b (x :: s) = ctxAfter m (startAfter m x) s := by
  have := ctxAfter_append m b [x] s
  simpa [ctxAfter_singleton] using this.symm

theorem wildOk_not_start {m b x} (h : wildOk m b x = true) : startAfter m x = false := by
  unfold wildOk at h
  unfold startAfter
  cases hf : m.filenames <;> cases hx : (x == cSlash) <;> simp_all

theorem StarDen_ctx {m b s} (h : StarDen m b s) (hne : s ≠ []) : ctxAfter m b s = false := by
  induction s generalizing b with
  | nil => exact absurd rfl hne
  | cons x s ih =>
    obtain ⟨h1, h2⟩ := h
    rw [ctxAfter_cons, wildOk_not_start h1]
    cases s with
    | nil => rfl
    | cons y s' => exact ih h2 (by simp)

theorem starK_iff (m : Mode) (k : Bool → Str → Bool) (b : Bool) (s : Str) :
    starK m k b s = true ↔
      ∃ s1 s2, s = s1 ++ s2 ∧ StarDen m b s1 ∧ k (ctxAfter m b s1) s2 = true := by
  induction s generalizing b with
  | nil =>
    simp only [starK]
    constructor
    · intro h; exact ⟨[], [], rfl, trivial, h⟩
    · rintro ⟨s1, s2, h, _, hk⟩
      have := List.append_eq_nil_iff.mp h.symm
      obtain ⟨rfl, rfl⟩ := this
      exact hk
  | cons x s ih =>
    simp only [starK, Bool.or_eq_true, Bool.and_eq_true, ih]
    constructor
    · rintro (h | ⟨hw, s1, s2, rfl, hd, hk⟩)
      · exact ⟨[], x :: s, rfl, trivial, h⟩
      · refine ⟨x :: s1, s2, rfl, ⟨hw, hd⟩, ?_⟩
        rw [ctxAfter_cons, wildOk_not_start hw]; exact hk
    · rintro ⟨s1, s2, h, hd, hk⟩
      cases s1 with
      | nil => left; simp at h; subst h; exact hk
      | cons y s1' =>
        simp at h; obtain ⟨rfl, rfl⟩ := h
        right
        obtain ⟨hw, hd'⟩ := hd
        refine ⟨hw, s1', s2, rfl, hd', ?_⟩
        rw [ctxAfter_cons, wildOk_not_start hw] at hk; exact hk

theorem gstarK_iff (m : Mode) (k : Bool → Str → Bool) (b : Bool) (s : Str) :
    gstarK m k b s = true ↔
      ∃ s1 s2, s = s1 ++ s2 ∧ GstarDen m b s1 ∧ k (ctxAfter m b s1) s2 = true := by
  induction s generalizing b with
  | nil =>
    simp only [gstarK]
    constructor
    · intro h; exact ⟨[], [], rfl, trivial, h⟩
    · rintro ⟨s1, s2, h, _, hk⟩
      have := List.append_eq_nil_iff.mp h.symm
      obtain ⟨rfl, rfl⟩ := this
      exact hk
  | cons x s ih =>
    simp only [gstarK, Bool.or_eq_true, Bool.and_eq_true, ih]
    constructor
    · rintro (h | ⟨hw, s1, s2, rfl, hd, hk⟩)
      · exact ⟨[], x :: s, rfl, trivial, h⟩
      · refine ⟨x :: s1, s2, rfl, ⟨hw, hd⟩, ?_⟩
        rw [ctxAfter_cons]; exact hk
    · rintro ⟨s1, s2, h, hd, hk⟩
      cases s1 with
      | nil => left; simp at h; subst h; exact hk
      | cons y s1' =>
        simp at h; obtain ⟨rfl, rfl⟩ := h
        right
        obtain ⟨hw, hd'⟩ := hd
        refine ⟨hw, s1', s2, rfl, hd', ?_⟩
        rw [ctxAfter_cons] at hk; exact hk

theorem splits_mem (s a c : Str) : (a, c) ∈ splits s ↔ a ++ c = s := by
  induction s generalizing a with
  | nil =>
    simp only [splits, List.mem_singleton, Prod.mk.injEq]
    constructor
    · rintro ⟨rfl, rfl⟩; rfl
    · intro h; exact List.append_eq_nil_iff.mp h
  | cons x s ih =>
    simp only [splits, List.mem_cons, List.mem_map, Prod.mk.injEq, Prod.exists]
    constructor
    · rintro (⟨rfl, rfl⟩ | ⟨a', c', hm, rfl, rfl⟩)
      · rfl
      · simp [(ih a').mp hm]
    · intro h
      cases a with
      | nil => left; exact ⟨rfl, by simpa using h⟩
      | cons y a' =>
        simp at h; obtain ⟨rfl, h⟩ := h
        right; exact ⟨a', c, (ih a').mpr h, rfl, rfl⟩

/-- Correctness of the Kleene iteration, for any step function that is correct for `R`. -/
theorem iterK_iff (m : Mode) (R : Bool → Str → Prop)
    (step : Bool → Str → (Bool → Str → Bool) → Bool)
    (hstep : ∀ b s k, step b s k = true ↔
      ∃ s1 s2, s = s1 ++ s2 ∧ R b s1 ∧ k (ctxAfter m b s1) s2 = true)
    (n : Nat) (b : Bool) (s : Str) (k : Bool → Str → Bool) (hn : s.length ≤ n) :
    iterK step n b s k = true ↔
      ∃ s1 s2, s = s1 ++ s2 ∧ IterDen m R b s1 ∧ k (ctxAfter m b s1) s2 = true := by
  induction n generalizing b s with
  | zero =>
    have : s = [] := List.length_eq_zero_iff.mp (Nat.le_zero.mp hn)
    subst this
    simp only [iterK]
    constructor
    · intro h; exact ⟨[], [], rfl, .nil, h⟩
    · rintro ⟨s1, s2, h, _, hk⟩
      have := List.append_eq_nil_iff.mp h.symm
      obtain ⟨rfl, rfl⟩ := this
      exact hk
  | succ n ih =>
    simp only [iterK, Bool.or_eq_true, hstep, Bool.and_eq_true, decide_eq_true_eq]
    constructor
    · rintro (h | ⟨a, c, rfl, hR, hlt, hit⟩)
      · exact ⟨[], s, rfl, .nil, h⟩
      · have hane : a ≠ [] := by
          intro h0; subst h0; simp at hlt
        have hc : c.length ≤ n := by
          simp at hlt hn; omega
        obtain ⟨s1, s2, rfl, hI, hk⟩ := (ih _ c hc).mp hit
        refine ⟨a ++ s1, s2, by simp, .cons hane hR hI, ?_⟩
        rw [← ctxAfter_append]; exact hk
    · rintro ⟨s1, s2, rfl, hI, hk⟩
      cases hI with
      | nil => left; exact hk
      | @cons _ a c hane hR hI' =>
        right
        refine ⟨a, c ++ s2, by simp, hR, ?_, ?_⟩
        · cases a with
          | nil => exact absurd rfl hane
          | cons y a' => simp; omega
        · have hc : (c ++ s2).length ≤ n := by
            cases a with
            | nil => exact absurd rfl hane
            | cons y a' => simp at hn ⊢; omega
          refine (ih _ _ hc).mpr ⟨c, s2, rfl, hI', ?_⟩
          rw [ctxAfter_append]; exact hk

/-- The backtracking matcher computes the declarative semantics. -/
theorem gmatch_iff (m : Mode) (g : Glob) : ∀ (b : Bool) (s : Str) (k : Bool → Str → Bool),
    gmatch m g b s k = true ↔
      ∃ s1 s2, s = s1 ++ s2 ∧ GDen m g b s1 ∧ k (ctxAfter m b s1) s2 = true := by
  induction g with
  | eps =>
    intro b s k
    simp only [gmatch, GDen]
    constructor
    · intro h; exact ⟨[], s, rfl, rfl, h⟩
    · rintro ⟨s1, s2, rfl, rfl, hk⟩; exact hk
  | lit c =>
    intro b s k
    simp only [GDen]
    cases s with
    | nil =>
      simp only [gmatch]
      constructor
      · intro h; cases h
      · rintro ⟨s1, s2, h, ⟨x, rfl, _⟩, _⟩; simp at h
    | cons x s' =>
      simp only [gmatch, Bool.and_eq_true]
      constructor
      · rintro ⟨hc, hk⟩; exact ⟨[x], s', rfl, ⟨x, rfl, hc⟩, hk⟩
      · rintro ⟨s1, s2, h, ⟨y, rfl, hc⟩, hk⟩
        simp at h; obtain ⟨rfl, rfl⟩ := h
        exact ⟨hc, hk⟩
  | any =>
    intro b s k
    simp only [GDen]
    cases s with
    | nil =>
      simp only [gmatch]
      constructor
      · intro h; cases h
      · rintro ⟨s1, s2, h, ⟨x, rfl, _⟩, _⟩; simp at h
    | cons x s' =>
      simp only [gmatch, Bool.and_eq_true]
      constructor
      · rintro ⟨hc, hk⟩
        refine ⟨[x], s', rfl, ⟨x, rfl, hc⟩, ?_⟩
        rw [ctxAfter_singleton, wildOk_not_start hc]; exact hk
      · rintro ⟨s1, s2, h, ⟨y, rfl, hc⟩, hk⟩
        simp at h; obtain ⟨rfl, rfl⟩ := h
        rw [ctxAfter_singleton, wildOk_not_start hc] at hk
        exact ⟨hc, hk⟩
  | star =>
    intro b s k
    simp only [gmatch, GDen]; exact starK_iff m k b s
  | globstar sl =>
    intro b s k
    cases sl with
    | false => simp only [gmatch, GDen]; exact gstarK_iff m k b s
    | true =>
      simp only [gmatch, GDen, Bool.or_eq_true, gstarK_iff]
      constructor
      · rintro (h | ⟨w, r, rfl, hw, hk⟩)
        · exact ⟨[], s, rfl, .inl rfl, h⟩
        · cases r with
          | nil => simp at hk
          | cons y r' =>
            simp only [Bool.and_eq_true, beq_iff_eq] at hk
            obtain ⟨rfl, hk⟩ := hk
            refine ⟨w ++ [cSlash], r', by simp, .inr ⟨w, rfl, hw⟩, ?_⟩
            rw [← ctxAfter_append, ctxAfter_singleton]; exact hk
      · rintro ⟨s1, s2, rfl, (rfl | ⟨w, rfl, hw⟩), hk⟩
        · left; exact hk
        · right
          refine ⟨w, cSlash :: s2, by simp, hw, ?_⟩
          rw [← ctxAfter_append, ctxAfter_singleton] at hk
          simp [hk]
  | bracket neg items =>
    intro b s k
    simp only [GDen]
    cases s with
    | nil =>
      simp only [gmatch]
      constructor
      · intro h; cases h
      · rintro ⟨s1, s2, h, ⟨x, rfl, _⟩, _⟩; simp at h
    | cons x s' =>
      simp only [gmatch, Bool.and_eq_true]
      constructor
      · rintro ⟨⟨hc, hm⟩, hk⟩
        refine ⟨[x], s', rfl, ⟨x, rfl, hc, hm⟩, ?_⟩
        rw [ctxAfter_singleton, wildOk_not_start hc]; exact hk
      · rintro ⟨s1, s2, h, ⟨y, rfl, hc, hm⟩, hk⟩
        simp at h; obtain ⟨rfl, rfl⟩ := h
        rw [ctxAfter_singleton, wildOk_not_start hc] at hk
        exact ⟨⟨hc, hm⟩, hk⟩
  | seq g1 g2 ih1 ih2 =>
    intro b s k
    simp only [gmatch, GDen, ih1, ih2]
    constructor
    · rintro ⟨a, r, rfl, ha, c, d, rfl, hc, hk⟩
      refine ⟨a ++ c, d, by simp, ⟨a, c, rfl, ha, hc⟩, ?_⟩
      rw [← ctxAfter_append]; exact hk
    · rintro ⟨s1, s2, rfl, ⟨a, c, rfl, ha, hc⟩, hk⟩
      refine ⟨a, c ++ s2, by simp, ha, c, s2, rfl, hc, ?_⟩
      rw [ctxAfter_append]; exact hk
  | alt g1 g2 ih1 ih2 =>
    intro b s k
    simp only [gmatch, GDen, Bool.or_eq_true, ih1, ih2]
    constructor
    · rintro (⟨a, r, rfl, ha, hk⟩ | ⟨a, r, rfl, ha, hk⟩)
      · exact ⟨a, r, rfl, .inl ha, hk⟩
      · exact ⟨a, r, rfl, .inr ha, hk⟩
    · rintro ⟨a, r, rfl, (ha | ha), hk⟩
      · exact .inl ⟨a, r, rfl, ha, hk⟩
      · exact .inr ⟨a, r, rfl, ha, hk⟩
  | ext op g ih =>
    intro b s k
    simp only [gmatch, GDen]
    by_cases h1 : op = cAt
    · simp only [h1, if_true]; exact ih b s k
    · simp only [h1, if_false]
      by_cases h2 : op = cQuest
      · simp only [h2, if_true, Bool.or_eq_true, ih]
        constructor
        · rintro (h | ⟨a, r, rfl, ha, hk⟩)
          · exact ⟨[], s, rfl, .inl rfl, h⟩
          · exact ⟨a, r, rfl, .inr ha, hk⟩
        · rintro ⟨a, r, rfl, (rfl | ha), hk⟩
          · exact .inl hk
          · exact .inr ⟨a, r, rfl, ha, hk⟩
      · simp only [h2, if_false]
        by_cases h3 : op = cStar
        · simp only [h3, if_true]
          exact iterK_iff m (GDen m g) (gmatch m g) ih s.length b s k (Nat.le_refl _)
        · simp only [h3, if_false]
          by_cases h4 : op = cPlus
          · simp only [h4, if_true, ih]
            constructor
            · rintro ⟨a, r, rfl, ha, hit⟩
              obtain ⟨c, d, rfl, hI, hk⟩ :=
                (iterK_iff m (GDen m g) (gmatch m g) ih r.length _ r k (Nat.le_refl _)).mp hit
              refine ⟨a ++ c, d, by simp, ⟨a, c, rfl, ha, hI⟩, ?_⟩
              rw [← ctxAfter_append]; exact hk
            · rintro ⟨s1, s2, rfl, ⟨a, c, rfl, ha, hI⟩, hk⟩
              refine ⟨a, c ++ s2, by simp, ha, ?_⟩
              refine (iterK_iff m (GDen m g) (gmatch m g) ih _ _ _ k (Nat.le_refl _)).mpr
                ⟨c, s2, rfl, hI, ?_⟩
              rw [ctxAfter_append]; exact hk
          · simp only [h4, if_false, List.any_eq_true, Prod.exists, Bool.and_eq_true,
              Bool.not_eq_true', splits_mem]
            have hfull : ∀ t, gmatch m g b t (fun _ r => r.isEmpty) = true ↔ GDen m g b t := by
              intro t
              rw [ih]
              constructor
              · rintro ⟨a, r, rfl, ha, hr⟩
                have : r = [] := by simpa using hr
                subst this; simpa using ha
              · intro h; exact ⟨t, [], by simp, h, rfl⟩
            constructor
            · rintro ⟨a, r, rfl, ⟨⟨hok, hng⟩, hk⟩⟩
              refine ⟨a, r, rfl, ⟨?_, ?_⟩, hk⟩
              · unfold negOk
                cases a with
                | nil => simp
                | cons y a' => simpa using hok
              · intro hd
                rw [← hfull] at hd
                rw [hd] at hng; cases hng
            · rintro ⟨a, r, rfl, ⟨hok, hng⟩, hk⟩
              refine ⟨a, r, rfl, ⟨⟨?_, ?_⟩, hk⟩⟩
              · unfold negOk at hok
                cases a with
                | nil => simp
                | cons y a' => simpa using hok
              · cases hg : gmatch m g b a (fun _ r => r.isEmpty) with
                | false => rfl
                | true => exact absurd ((hfull a).mp hg) hng

/-- Whole-string matching. -/
theorem gmatch_full_iff (m : Mode) (g : Glob) (b : Bool) (s : Str) :
    gmatch m g b s (fun _ r => r.isEmpty) = true ↔ GDen m g b s := by
  rw [gmatch_iff]
  constructor
  · rintro ⟨a, r, rfl, ha, hr⟩
    have : r = [] := by simpa using hr
    subst this; simpa using ha
  · intro h; exact ⟨s, [], by simp, h, rfl⟩

end ShVerif.L3
