import ShVerif.Model.C26
/-
  C26 — helper lemmas for ShVerif/Props/C26.lean.  Core Lean only.
-/
namespace ShVerif.C26
open ShVerif.L5

end ShVerif.C26
