import ShVerif.Proofs.C26p
import ShVerif.Proofs.C26q
/-
  C26 — helper lemmas for ShVerif/Props/C26.lean (the simulation between the interpreter model and
  `BashSem` is in ShVerif/Proofs/C26a … C26p, fuel monotonicity in C26q).  Core Lean only.
-/
