/-  C22 — helper lemmas for the "$@" / "$*" rules (at_star_rules). -/
import ShVerif.Model.C22
namespace ShVerif.C22

theorem fieldJoin_snoc (f : List FP) (p : FP) : fieldJoin (f ++ [p]) = fieldJoin f ++ p.val := by
  simp [fieldJoin]

/-- `"$@"`: the loop over the elements, started with an empty or non-empty `cur`. -/
theorem addQuotedElems_fields : ∀ (ps : List Bytes) (w : WS) (first : Bool),
    (first = false → w.cur ≠ []) →
    (flush (addQuotedElems w first ps)).fields.map fieldJoin =
      match ps with
      | [] => (flush w).fields.map fieldJoin
      | p :: rest =>
        if first then w.fields.map fieldJoin ++ (fieldJoin w.cur ++ p) :: rest
        else w.fields.map fieldJoin ++ fieldJoin w.cur :: p :: rest
  | [], w, first, _ => by simp [addQuotedElems]
  | p :: rest, w, first, h => by
    rw [addQuotedElems]
    cases first with
    | true =>
      simp only [if_true]
      have ih := addQuotedElems_fields rest (addPart w ⟨p, 1⟩) false (by intro _; simp [addPart])
      rw [ih]
      cases rest with
      | nil => simp [flush, addPart, fieldJoin]
      | cons q rest' => simp [addPart, fieldJoin]
    | false =>
      have hne := h rfl
      simp only [Bool.false_eq_true, if_false]
      have hf : flush w = { w with fields := w.fields ++ [w.cur], cur := [] } := by
        unfold flush
        have : ¬ (w.cur.length == 0) = true := by
          cases hc : w.cur with
          | nil => exact absurd hc hne
          | cons a b => simp
        simp [this]
      rw [hf]
      have ih := addQuotedElems_fields rest (addPart { w with fields := w.fields ++ [w.cur], cur := [] } ⟨p, 1⟩) false
        (by intro _; simp [addPart])
      rw [ih]
      cases rest with
      | nil => simp [flush, addPart, fieldJoin]
      | cons q rest' => simp [addPart, fieldJoin]

theorem addQuotedElems_allowEmpty : ∀ (ps : List Bytes) (w : WS) (first : Bool),
    (addQuotedElems w first ps).allowEmpty = w.allowEmpty
  | [], w, first => by simp [addQuotedElems]
  | p :: rest, w, first => by
    rw [addQuotedElems, addQuotedElems_allowEmpty rest]
    cases first <;> simp [addPart, flush] <;> split <;> rfl

theorem flush_allowEmpty (w : WS) : (flush w).allowEmpty = w.allowEmpty := by
  unfold flush; split <;> rfl

theorem at_quoted' (env : Env) : wordFields env [.dbl [.at]] = env.params.map strBytes := by
  unfold wordFields
  simp only [partsLoop, partStep]
  have ha : (flush (addQuotedElems WS.init true (env.params.map strBytes))).allowEmpty = false := by
    rw [flush_allowEmpty, addQuotedElems_allowEmpty]; rfl
  simp only [ha, Bool.false_and, Bool.false_eq_true, if_false]
  rw [addQuotedElems_fields _ _ _ (by intro h; cases h)]
  cases env.params.map strBytes with
  | nil => simp [flush, WS.init]
  | cons p rest => simp [WS.init, fieldJoin]

theorem star_quoted' (env : Env) :
    wordFields env [.dbl [.star]] = [joinBytes (ifsSep env.ifs) (env.params.map strBytes)] := by
  unfold wordFields
  simp only [partsLoop, partStep]
  have ha : (flush (addQuotedElems WS.init true [joinBytes (ifsSep env.ifs) (env.params.map strBytes)])).allowEmpty = false := by
    rw [flush_allowEmpty, addQuotedElems_allowEmpty]; rfl
  simp only [ha, Bool.false_and, Bool.false_eq_true, if_false]
  rw [addQuotedElems_fields _ _ _ (by intro h; cases h)]
  simp [WS.init, fieldJoin]

theorem partsLoop_at_star (env : Env) : ∀ (pre post : List Part) (w : WS) (first : Bool),
    partsLoop env w first (pre ++ .at :: post) = partsLoop env w first (pre ++ .star :: post)
  | [], post, w, first => by simp [partsLoop, partStep]
  | p :: pre, post, w, first => by
    simp only [List.cons_append, partsLoop]
    exact partsLoop_at_star env pre post _ false


end ShVerif.C22
