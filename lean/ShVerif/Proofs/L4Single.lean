/-
  L4 printer under SingleLine: on fragment F0 the bytes written depend on the tree only through
  its norm (no position is consulted), and they are given by a simple recursive function on norm
  trees (`NStmts.sl`).  This is what makes a second formatting pass byte-identical (C02).

  The proof runs the model printer on an *abstraction* of its state (bytes written, `wantSpace`,
  options, `mustNewline`, `firstLine`, the panic flag, the depth of `levelIncs`); every printer
  segment is an equation between abstract states, so no-panic and balance come for free.
-/
import ShVerif.Proofs.L4
namespace ShVerif.L4

/-! ## The specification: SingleLine output of a norm tree -/

def NPart.bytes : NPart → Bytes
  | .lit v => v
  | .sgl v => 39 :: (v ++ [39])

def nwordBytes (n : List NPart) : Bytes := n.flatMap NPart.bytes

/-- words separated by one blank -/
def joinSp : List Bytes → Bytes
  | [] => []
  | w :: rest => w ++ rest.flatMap (fun x => 32 :: x)

mutual
def NStmt.startsLp : NStmt → Bool
  | .mk _ _ c => c.startsLp
def NCmd.startsLp : NCmd → Bool
  | .binary _ x _ => x.startsLp
  | .subshell _ => true
  | _ => false
end

mutual
def NStmt.endsRp : NStmt → Bool
  | .mk _ bg c => if bg then false else c.endsRp
def NCmd.endsRp : NCmd → Bool
  | .binary _ _ y => y.endsRp
  | .subshell _ => true
  | _ => false
end

def NStmt.bg : NStmt → Bool
  | .mk _ b _ => b

/-- whether the last statement of the list (or, for the empty list, the one before) ended in `&` -/
def NStmts.lastBg (prev : Bool) : NStmts → Bool
  | .nil => prev
  | .cons s r => r.lastBg s.bg

mutual
def NStmt.sl : NStmt → Bytes
  | .mk neg bg c => (if neg then ([33, 32] : Bytes) else []) ++ (c.sl ++ (if bg then ([32, 38] : Bytes) else []))
def NCmd.sl : NCmd → Bytes
  | .call args => joinSp (args.map nwordBytes)
  | .subshell ss =>
    40 :: ((match ss with
      | .cons s _ => if s.startsLp then ([32] : Bytes) else []
      | .nil => ([] : Bytes)) ++ (ss.sl ++ ((match ss with
      | .cons s .nil => if s.endsRp then ([32] : Bytes) else []
      | _ => ([] : Bytes)) ++ ([41] : Bytes))))
  | .block ss => 123 :: 32 :: (ss.sl ++ (if ss.lastBg false then ([32, 125] : Bytes) else [59, 32, 125]))
  | .binary op x y => x.sl ++ (32 :: (op.str ++ (32 :: y.sl)))
/-- a list: the first statement, then the others with their separators -/
def NStmts.sl : NStmts → Bytes
  | .nil => []
  | .cons s r => s.sl ++ r.slFrom s.bg
/-- the statements of a list that follow one that did (`prev`) or did not end in `&` -/
def NStmts.slFrom (prev : Bool) : NStmts → Bytes
  | .nil => []
  | .cons s r => (if prev then ([32] : Bytes) else [59, 32]) ++ (s.sl ++ r.slFrom s.bg)
end

/-- what the printer needs of a norm tree to run without panic and to write literals verbatim:
    non-empty words, calls and nested lists; no backslash in a literal -/
def NPart.plain : NPart → Bool
  | .lit v => v.all (· != 92)
  | .sgl _ => true

def nwordOk (n : List NPart) : Bool := !n.isEmpty && n.all NPart.plain

mutual
def NStmt.ok : NStmt → Bool
  | .mk _ _ c => c.ok
def NCmd.ok : NCmd → Bool
  | .call args => !args.isEmpty && args.all nwordOk
  | .subshell ss => (match ss with | .nil => false | _ => true) && ss.ok
  | .block ss => (match ss with | .nil => false | _ => true) && ss.ok
  | .binary _ x y => x.ok && y.ok
def NStmts.ok : NStmts → Bool
  | .nil => true
  | .cons s r => s.ok && r.ok
end

/-! ## Words: bytes from the norm -/

theorem trailingBackslashes_plain (v : Bytes) (h : v.all (· != 92) = true) : trailingBackslashes v = 0 := by
  unfold trailingBackslashes
  have : v.reverse.takeWhile (· == 92) = [] := by
    cases hr : v.reverse with
    | nil => rfl
    | cons b t =>
      have hb : b ∈ v := by
        have : b ∈ v.reverse := by rw [hr]; simp
        simpa using this
      have := List.all_eq_true.mp h b hb
      simp only [bne_iff_ne, ne_eq] at this
      have hbeq : (b == 92) = false := by simpa using this
      simp [List.takeWhile, hbeq]
  rw [this]; rfl

theorem wordBytes_norm : ∀ (parts : List WordPart), (normParts parts).all NPart.plain = true →
    wordBytes parts = nwordBytes (normParts parts)
  | [], _ => rfl
  | .sgl l r v :: rest, h => by
    have h2 : (normParts rest).all NPart.plain = true := by
      simp only [normParts, List.all_cons, Bool.and_eq_true] at h
      exact h.2
    have ih := wordBytes_norm rest h2
    show wordBytes (.sgl l r v :: rest) = nwordBytes (.sgl v :: normParts rest)
    simp only [wordBytes, nwordBytes, List.flatMap_cons, WordPart.bytes, NPart.bytes] at ih ⊢
    rw [ih]
  | .lit a e v :: rest, h => by
    have key : v.all (· != 92) = true ∧ (normParts rest).all NPart.plain = true ∧
        nwordBytes (normParts (.lit a e v :: rest)) = v ++ nwordBytes (normParts rest) := by
      simp only [normParts] at h ⊢
      split at h
      · rename_i v' r hr
        simp only [List.all_cons, NPart.plain, List.all_append, Bool.and_eq_true] at h
        refine ⟨h.1.1, ?_, ?_⟩
        · rw [hr]; simp [NPart.plain, h.1.2, h.2]
        · rw [hr]; simp [nwordBytes, NPart.bytes]
      · simp only [List.all_cons, NPart.plain, Bool.and_eq_true] at h
        exact ⟨h.1, h.2, by simp [nwordBytes, NPart.bytes]⟩
    obtain ⟨k1, k2, k3⟩ := key
    rw [k3, ← wordBytes_norm rest k2]
    simp [wordBytes, WordPart.bytes, trailingBackslashes_plain v k1]

theorem normParts_ne_nil {parts : List WordPart} (h : normParts parts ≠ []) : parts ≠ [] := by
  intro e; rw [e] at h; exact h rfl

/-! ## The abstract printer state -/

def outB (p : P) : Bytes := render p.out.reverse

structure Abs where
  out : Bytes
  ws : WS
  o : Opts
  must : Bool
  first : Bool
  pan : Bool
  incs : Nat

def P.abs (p : P) : Abs := ⟨outB p, p.wantSpace, p.o, p.mustNewline, p.firstLine, p.panicked, p.levelIncs.length⟩

/-- SingleLine, past the first line, nothing forced -/
structure SLa (a : Abs) : Prop where
  sl : a.o.singleLine = true
  mn : a.o.minify = false
  must : a.must = false
  first : a.first = false

def leadA (a : Abs) : Bytes := if a.ws = .required then [32] else []

/-- bytes appended, `wantSpace` required afterwards -/
def Abs.wrote (a : Abs) (bs : Bytes) : Abs := { a with out := a.out ++ bs, ws := .required }

theorem Abs.wrote_sla {a : Abs} (h : SLa a) (bs : Bytes) : SLa (a.wrote bs) := ⟨h.sl, h.mn, h.must, h.first⟩

theorem render_snoc (l : List Piece) (x : Piece) : render (l ++ [x]) = render l ++ x.bytes := by
  simp [render, List.flatMap_append]

theorem abs_tok (p : P) (b : Bytes) : (p.tok b).abs = { p.abs with out := p.abs.out ++ b } := by
  simp [P.abs, outB, P.tok, render_snoc, Piece.bytes]

theorem abs_gapw (p : P) (b : Bytes) : (p.gapw b).abs = { p.abs with out := p.abs.out ++ b } := by
  simp [P.abs, outB, P.gapw, render_snoc, Piece.bytes]

theorem abs_spacePad (p : P) : p.spacePad.abs =
    (if p.abs.ws = .required then { p.abs with out := p.abs.out ++ [32], ws := .written } else p.abs) := by
  unfold P.spacePad
  by_cases h : p.wantSpace = .required
  · have h' : p.abs.ws = .required := h
    rw [if_pos h, if_pos h']
    simp [P.abs, outB, P.gapw, render_snoc, Piece.bytes]
  · have h' : ¬ p.abs.ws = .required := h
    rw [if_neg h, if_neg h']

theorem abs_spacePad' (p : P) : p.spacePad.abs.out = p.abs.out ++ leadA p.abs ∧ p.spacePad.abs.ws ≠ .required ∧
    p.spacePad.abs.o = p.abs.o ∧ p.spacePad.abs.must = p.abs.must ∧ p.spacePad.abs.first = p.abs.first ∧
    p.spacePad.abs.pan = p.abs.pan ∧ p.spacePad.abs.incs = p.abs.incs := by
  rw [abs_spacePad]
  unfold leadA
  split
  · exact ⟨rfl, by simp, rfl, rfl, rfl, rfl, rfl⟩
  · rename_i h
    exact ⟨by simp, h, rfl, rfl, rfl, rfl, rfl⟩

theorem abs_incLevel (p : P) : p.incLevel.abs = { p.abs with incs := p.abs.incs + 1 } := by
  unfold P.incLevel
  split
  · simp [P.abs, outB]
  · split
    · rename_i rest heq
      simp [P.abs, outB, heq]
    · simp [P.abs, outB]

theorem abs_decLevel (p : P) (n : Nat) (h : p.abs.incs = n + 1) : p.decLevel.abs = { p.abs with incs := n } := by
  unfold P.decLevel
  have h' : p.levelIncs.length = n + 1 := h
  split
  · rename_i heq; simp [heq] at h'
  · rename_i inc rest heq
    simp only [heq, List.length_cons, Nat.add_right_cancel_iff] at h'
    simp [P.abs, outB, h']

theorem SLa.newlines {p : P} (h : SLa p.abs) (l : Nat) : p.newlines l = p := by
  have h1 : p.firstLine = false := h.first
  have h2 : p.mustNewline = false := h.must
  have h3 : p.o.singleLine = true := h.sl
  unfold P.newlines
  simp [h1, P.wantsNewline, h2, h3]

theorem SLa.wantsNewline {p : P} (h : SLa p.abs) (l : Nat) (e : Bool) : p.wantsNewline l e = false := by
  have h2 : p.mustNewline = false := h.must
  have h3 : p.o.singleLine = true := h.sl
  simp [P.wantsNewline, h2, h3]

/-! ## Words -/

theorem abs_wordPartsLoop : ∀ (wps : List WordPart) (q : P), (q.wordPartsLoop wps).abs = q.abs
  | [], q => rfl
  | wp :: rest, q => by
    unfold P.wordPartsLoop
    rw [abs_wordPartsLoop rest]
    cases wp <;> rfl

theorem abs_word (p : P) (h : SLa p.abs) (w : Word) (hne : w.parts ≠ []) :
    (p.word w).abs = { p.abs with out := p.abs.out ++ wordBytes w.parts, ws := .required } := by
  have h3 : p.o.singleLine = true := h.sl
  unfold P.word P.wordParts
  cases hp : w.parts with
  | nil => exact absurd hp hne
  | cons wp rest =>
    simp only [h3, Bool.not_true, Bool.false_and, Bool.false_eq_true, ↓reduceIte]
    have := abs_wordPartsLoop (wp :: rest) { p with out := .word (wp :: rest) :: p.out }
    simp only [P.abs, outB] at this ⊢
    simp only [Abs.mk.injEq] at this ⊢
    obtain ⟨t1, t2, t3, t4, t5, t6, t7⟩ := this
    refine ⟨?_, trivial, t3, t4, t5, t6, t7⟩
    rw [t1]
    simp [render_snoc, Piece.bytes]

/-- the bytes of a run of words after the first one -/
def moreWords (ws : List Word) : Bytes := ws.flatMap (fun w => 32 :: wordBytes w.parts)

theorem abs_wordJoinLoop : ∀ (ws : List Word) (p : P), SLa p.abs → (∀ w ∈ ws, w.parts ≠ []) →
    (p.wordJoinLoop false ws).2 = false ∧
    (ws ≠ [] → (p.wordJoinLoop false ws).1.abs =
      p.abs.wrote (leadA p.abs ++ joinSp (ws.map fun w => wordBytes w.parts))) ∧
    (ws = [] → (p.wordJoinLoop false ws).1 = p)
  | [], p, _, _ => by
    unfold P.wordJoinLoop
    exact ⟨rfl, fun h => absurd rfl h, fun _ => rfl⟩
  | w :: rest, p, h, hne => by
    have h3 : p.o.singleLine = true := h.sl
    have hw := hne w (by simp)
    obtain ⟨pos, hpos⟩ : ∃ pos, w.pos? = some pos := by
      unfold Word.pos?
      cases hp : w.parts with
      | nil => exact absurd hp hw
      | cons a r => exact ⟨a.pos, by simp⟩
    unfold P.wordJoinLoop
    rw [hpos]
    simp only [h3, Bool.not_true, Bool.and_false, Bool.false_eq_true, ↓reduceIte]
    obtain ⟨s1, s2, s3, s4, s5, s6, s7⟩ := abs_spacePad' p
    have hsl1 : SLa p.spacePad.abs := ⟨by rw [s3]; exact h.sl, by rw [s3]; exact h.mn, by rw [s4]; exact h.must,
      by rw [s5]; exact h.first⟩
    have hword := abs_word p.spacePad hsl1 w hw
    have hsl2 : SLa (p.spacePad.word w).abs := by
      rw [hword]
      exact ⟨hsl1.sl, hsl1.mn, hsl1.must, hsl1.first⟩
    obtain ⟨r1, r2, r3⟩ := abs_wordJoinLoop rest (p.spacePad.word w) hsl2 (fun x hx => hne x (by simp [hx]))
    refine ⟨r1, fun _ => ?_, fun e => by cases e⟩
    have hw1 : (p.spacePad.word w).abs = p.abs.wrote (leadA p.abs ++ wordBytes w.parts) := by
      rw [hword]
      simp only [Abs.wrote, Abs.mk.injEq]
      exact ⟨by rw [s1, List.append_assoc], trivial, s3, s4, s5, s6, s7⟩
    cases rest with
    | nil =>
      rw [r3 rfl, hw1]
      simp [joinSp]
    | cons w2 rest2 =>
      rw [r2 (by simp), hw1]
      simp [Abs.wrote, leadA, joinSp, List.append_assoc]

theorem abs_wordJoin (p : P) (h : SLa p.abs) (ws : List Word) (hne : ∀ w ∈ ws, w.parts ≠ []) (hws : ws ≠ []) :
    (p.wordJoin ws).abs = p.abs.wrote (leadA p.abs ++ joinSp (ws.map fun w => wordBytes w.parts)) := by
  obtain ⟨r1, r2, _⟩ := abs_wordJoinLoop ws p h hne
  unfold P.wordJoin
  split
  rename_i q any heq
  have e1 : (p.wordJoinLoop false ws).1 = q := by rw [heq]
  have e2 : (p.wordJoinLoop false ws).2 = any := by rw [heq]
  rw [← e2, r1]
  simp only [Bool.false_eq_true, ↓reduceIte]
  rw [← e1]
  exact r2 hws

/-! ## Abstract-state algebra -/

def Abs.pad (a : Abs) : Abs := if a.ws = .required then { a with out := a.out ++ [32], ws := .written } else a

theorem abs_spacePad_eq (p : P) : p.spacePad.abs = p.abs.pad := abs_spacePad p

theorem Abs.pad_wrote (a : Abs) (bs : Bytes) : a.pad.wrote bs = a.wrote (leadA a ++ bs) := by
  unfold Abs.pad leadA Abs.wrote
  split <;> simp

theorem Abs.wrote_wrote (a : Abs) (x y : Bytes) : (a.wrote x).wrote y = a.wrote (x ++ y) := by
  simp [Abs.wrote, List.append_assoc]

theorem Abs.wrote_nil {a : Abs} (h : a.ws = .required) : a.wrote [] = a := by
  obtain ⟨out, ws, o, must, first, pan, incs⟩ := a
  simp only at h
  subst h
  simp [Abs.wrote]

theorem Abs.lead_wrote (a : Abs) (bs : Bytes) : leadA (a.wrote bs) = [32] := by simp [leadA, Abs.wrote]

theorem Abs.pad_of_ne {a : Abs} (h : a.ws ≠ .required) : a.pad = a := by
  unfold Abs.pad; rw [if_neg h]

theorem leadA_of_ne {a : Abs} (h : a.ws ≠ .required) : leadA a = [] := by
  unfold leadA; rw [if_neg h]

theorem leadA_of_req {a : Abs} (h : a.ws = .required) : leadA a = [32] := by
  unfold leadA; rw [if_pos h]

/-- the abstract state with another `incs` -/
theorem Abs.wrote_incs (a : Abs) (bs : Bytes) (n : Nat) :
    ({ a with incs := n } : Abs).wrote bs = { (a.wrote bs) with incs := n } := rfl

/-! ## Printer segments under SingleLine -/

theorem abs_stmtPre (p : P) (neg : Bool) :
    (p.stmtPre neg).abs = (if neg then p.abs.wrote (leadA p.abs ++ [33]) else p.abs) := by
  unfold P.stmtPre
  dsimp only
  cases neg with
  | false => rfl
  | true =>
    simp only [↓reduceIte]
    unfold P.spacedString
    have h1 : ({ ((P.spacePad { p with wroteSemi := false }).tok [33]) with wantSpace := .required } : P).abs =
        (P.spacePad { p with wroteSemi := false }).abs.wrote [33] := by
      simp [P.abs, outB, P.tok, render_snoc, Piece.bytes, Abs.wrote]
    rw [h1, abs_spacePad_eq, Abs.pad_wrote]
    rfl

theorem stmtPre_wsemi (p : P) (neg : Bool) : (p.stmtPre neg).wroteSemi = false := by
  unfold P.stmtPre
  dsimp only
  split
  · unfold P.spacedString P.spacePad
    split <;> rfl
  · rfl

theorem abs_stmtEnd (p : P) (h : SLa p.abs) (hws : p.abs.ws = .required) (semi : Pos) (bg : Bool) :
    (p.stmtEnd semi bg).abs = p.abs.wrote (if bg then [32, 38] else []) ∧ (p.stmtEnd semi bg).wroteSemi = bg := by
  have h3 : p.o.singleLine = true := h.sl
  have h4 : p.o.minify = false := h.mn
  have hi := abs_incLevel p
  have hio : p.incLevel.o = p.o := congrArg Abs.o hi
  have hsl' : p.incLevel.o.singleLine = true := by rw [hio]; exact h3
  have hmin' : p.incLevel.o.minify = false := by rw [hio]; exact h4
  unfold P.stmtEnd
  dsimp only
  simp only [hsl', hmin', Bool.not_true, Bool.and_false, Bool.false_or, Bool.not_false, Bool.false_eq_true, ↓reduceIte]
  cases bg with
  | true =>
    simp only [↓reduceIte]
    have hs : p.incLevel.space.abs = { p.incLevel.abs with out := p.incLevel.abs.out ++ [32], ws := .written } := by
      simp [P.space, P.abs, outB, P.gapw, render_snoc, Piece.bytes]
    have h1 : ({ (p.incLevel.space.tok [38]) with wroteSemi := true, wantSpace := .required } : P).abs =
        { (p.abs.wrote [32, 38]) with incs := p.abs.incs + 1 } := by
      have : ({ (p.incLevel.space.tok [38]) with wroteSemi := true, wantSpace := .required } : P).abs =
          p.incLevel.space.abs.wrote [38] := by
        simp [P.abs, outB, P.tok, render_snoc, Piece.bytes, Abs.wrote]
      rw [this, hs, hi]
      simp [Abs.wrote, List.append_assoc]
    constructor
    · rw [abs_decLevel _ p.abs.incs (by rw [h1]), h1]
      rfl
    · unfold P.decLevel
      split <;> rfl
  | false =>
    simp only [Bool.false_eq_true, ↓reduceIte]
    have h1 : ({ p.incLevel with wroteSemi := false } : P).abs = { p.abs with incs := p.abs.incs + 1 } := hi
    constructor
    · rw [abs_decLevel _ p.abs.incs (by rw [h1]), h1, Abs.wrote_nil hws]
    · unfold P.decLevel
      split <;> rfl

theorem abs_binaryOp (p : P) (h : SLa p.abs) (opPos : Pos) (op : BinOp) (yl : Nat) (yb : Bool) :
    (p.binaryOp opPos op yl yb).1.abs = p.abs.wrote (leadA p.abs ++ op.str) ∧
      (p.binaryOp opPos op yl yb).2 = (false, false) := by
  have h3 : p.o.singleLine = true := h.sl
  have h4 : p.o.minify = false := h.mn
  have hc : (p.o.minify || p.o.singleLine || decide (yl ≤ p.line)) = true := by simp [h3]
  have hst : p.spacedToken op.str = { (p.spacePad.tok op.str) with wantSpace := .required } := by
    unfold P.spacedToken
    rw [if_neg (by simp [h4])]
  unfold P.binaryOp
  rw [if_pos hc]
  refine ⟨?_, rfl⟩
  show ((p.spacedToken op.str).advanceLine yl).abs = _
  rw [hst]
  have h1 : (P.advanceLine ({ (p.spacePad.tok op.str) with wantSpace := .required } : P) yl).abs = p.spacePad.abs.wrote op.str := by
    simp [P.abs, outB, P.tok, P.advanceLine, render_snoc, Piece.bytes, Abs.wrote]
  rw [h1, abs_spacePad_eq, Abs.pad_wrote]

theorem abs_subshellOpen (p : P) (h : SLa p.abs) (lp : Pos) (s : Stmt) (rest : Stmts) :
    (p.subshellOpen lp (.cons s rest)).abs =
      { p.abs with out := p.abs.out ++ 40 :: (if s.startsWithLparen then [32] else []),
                   ws := if s.startsWithLparen then .written else .notRequired } := by
  have h3 : p.o.singleLine = true := h.sl
  unfold P.subshellOpen
  dsimp only
  rw [abs_spacePad_eq]
  cases hs : s.startsWithLparen with
  | false =>
    simp only [Bool.false_eq_true, ↓reduceIte]
    have : ({ (p.tok [40]) with wantSpace := .notRequired } : P).abs =
        { p.abs with out := p.abs.out ++ [40], ws := .notRequired } := by
      simp [P.abs, outB, P.tok, render_snoc, Piece.bytes]
    rw [this, Abs.pad_of_ne (by simp)]
  | true =>
    simp only [↓reduceIte]
    have hreq : ({ (p.tok [40]) with wantSpace := .required } : P).abs.pad =
        { p.abs with out := p.abs.out ++ [40, 32], ws := .written } := by
      simp [Abs.pad, P.abs, outB, P.tok, render_snoc, Piece.bytes, List.append_assoc]
    split
    · rename_i hc
      exfalso
      simp at hc
      have h5 : (p.tok [40]).o.singleLine = true := h3
      rw [h5] at hc
      exact absurd hc.2 (by simp)
    · rw [hreq]

theorem abs_closingParenSpace (p : P) (h : SLa p.abs) (ss : Stmts) (a b : Nat) :
    (p.closingParenSpace ss a b).abs =
      { p.abs with out := p.abs.out ++ (match ss with
                      | .cons s .nil => if s.endsWithRparen then ([32] : Bytes) else []
                      | _ => ([] : Bytes)),
                   ws := (match ss with
                      | .cons s .nil => if s.endsWithRparen then WS.written else .notRequired
                      | _ => .notRequired) } := by
  have h3 : p.o.singleLine = true := h.sl
  unfold P.closingParenSpace
  dsimp only
  rw [abs_spacePad_eq]
  have hreq : ({ p with wantSpace := .required } : P).abs.pad = { p.abs with out := p.abs.out ++ [32], ws := .written } := by
    simp [Abs.pad, P.abs, outB]
  have hnr : ({ p with wantSpace := .notRequired } : P).abs.pad = { p.abs with ws := .notRequired } := by
    simp [Abs.pad, P.abs, outB]
  cases ss with
  | nil =>
    simp only [Bool.false_and, Bool.false_eq_true, ↓reduceIte]
    rw [hnr]; simp
  | cons s r =>
    cases r with
    | nil =>
      simp only [h3, Bool.true_or, Bool.and_true]
      cases hs : s.endsWithRparen with
      | true =>
        simp only [↓reduceIte]
        exact hreq
      | false =>
        simp only [Bool.false_eq_true, ↓reduceIte]
        rw [hnr]; simp
    | cons s2 r2 =>
      simp only [Bool.false_and, Bool.false_eq_true, ↓reduceIte]
      rw [hnr]; simp

theorem abs_rightParen (p : P) (h : SLa p.abs) (l : Nat) : (p.rightParen l).abs = p.abs.wrote [41] := by
  have h4 : p.o.minify = false := h.mn
  unfold P.rightParen
  simp only [h4, Bool.not_false, ↓reduceIte, h.newlines]
  simp [P.abs, outB, P.tok, render_snoc, Piece.bytes, Abs.wrote]

theorem abs_semiRsrv (p : P) (h : SLa p.abs) (hws : p.abs.ws = .required) (l : Nat) :
    (p.semiRsrv [125] l).abs = p.abs.wrote ((if p.wroteSemi then [] else [59]) ++ [32, 125]) := by
  have h4 : p.o.minify = false := h.mn
  have hws' : p.wantSpace = .required := hws
  unfold P.semiRsrv
  simp only [h.wantsNewline, Bool.false_eq_true, ↓reduceIte]
  cases hsemi : p.wroteSemi with
  | true =>
    simp only [Bool.not_true, Bool.false_eq_true, ↓reduceIte, h4, Bool.not_false]
    have : ({ (p.spacePad.tok [125]) with wantSpace := .required } : P).abs = p.spacePad.abs.wrote [125] := by
      simp [P.abs, outB, P.tok, render_snoc, Piece.bytes, Abs.wrote]
    rw [this, abs_spacePad_eq, Abs.pad_wrote, leadA_of_req hws]
    simp
  | false =>
    simp only [Bool.not_false, ↓reduceIte]
    have ho : (P.tok p [59]).o = p.o := rfl
    simp only [ho, h4, Bool.not_false, ↓reduceIte]
    have : ({ ((p.tok [59]).spacePad.tok [125]) with wantSpace := .required } : P).abs = (p.tok [59]).spacePad.abs.wrote [125] := by
      simp [P.abs, outB, P.tok, render_snoc, Piece.bytes, Abs.wrote]
    rw [this, abs_spacePad_eq, Abs.pad_wrote, abs_tok]
    have hl : leadA ({ p.abs with out := p.abs.out ++ [59] } : Abs) = [32] := leadA_of_req hws
    rw [hl]
    simp [Abs.wrote, List.append_assoc]

theorem stmtSep_true_sl (p : P) (h : SLa p.abs) (l : Nat) : p.stmtSep true l = p.advanceLine l := by
  unfold P.stmtSep
  simp [h.newlines]

theorem abs_stmtSep_false (p : P) (h : SLa p.abs) (hws : p.abs.ws = .required) (hwn : p.wantNewline = true) (l : Nat) :
    (p.stmtSep false l).abs = p.abs.wrote (if p.wroteSemi then [] else [59]) := by
  have h3 : p.o.singleLine = true := h.sl
  unfold P.stmtSep
  cases hsemi : p.wroteSemi with
  | true =>
    simp only [h3, hwn, Bool.not_true, Bool.and_false, Bool.false_eq_true, ↓reduceIte, h.newlines, ite_self]
    rw [Abs.wrote_nil hws]
    rfl
  | false =>
    simp only [h3, hwn, Bool.not_false, Bool.and_self, ↓reduceIte]
    have hq : SLa ({ (p.tok [59]) with wantSpace := .required } : P).abs := ⟨h.sl, h.mn, h.must, h.first⟩
    simp only [hq.newlines, ite_self]
    simp [P.abs, outB, P.tok, P.advanceLine, render_snoc, Piece.bytes, Abs.wrote]

theorem abs_stmtListWith (q : P) (ss : Stmts) (loop : P → P) :
    (q.stmtListWith ss loop).abs = (loop q).abs ∧ (q.stmtListWith ss loop).wroteSemi = (loop q).wroteSemi := by
  unfold P.stmtListWith
  dsimp only
  (repeat' split) <;> exact ⟨rfl, rfl⟩

/-- `nestedStmts` around a loop that only writes -/
theorem abs_nested (p : P) (ss : Stmts) (closing : Pos) (loop : P → P) (bs : P → Bytes)
    (hloop : ∀ q : P, q.abs = { p.abs with incs := p.abs.incs + 1 } → (loop q).abs = q.abs.wrote (bs q)) :
    ∃ q : P, q.abs = { p.abs with incs := p.abs.incs + 1 } ∧
      (p.nestedStmtsWith ss closing loop).abs = p.abs.wrote (bs q) ∧
      (p.nestedStmtsWith ss closing loop).wroteSemi = (loop q).wroteSemi := by
  unfold P.nestedStmtsWith
  dsimp only
  obtain ⟨q, hq, hqa⟩ : ∃ q : P, q = (if ss.length > 1 then ({ p.incLevel with wantNewline := true } : P)
      else if (decide (closing.line > p.incLevel.line) && decide (ss.length > 0) && decide (ss.endLine < closing.line)) = true
        then { p.incLevel with wantNewline := true } else p.incLevel) ∧ q.abs = { p.abs with incs := p.abs.incs + 1 } := by
    refine ⟨_, rfl, ?_⟩
    split
    · exact abs_incLevel p
    · split
      · exact abs_incLevel p
      · exact abs_incLevel p
  rw [← hq]
  obtain ⟨l1, l2⟩ := abs_stmtListWith q ss loop
  refine ⟨q, hqa, ?_, ?_⟩
  · rw [abs_decLevel _ p.abs.incs (by rw [l1, hloop q hqa, hqa]; rfl), l1, hloop q hqa, hqa]
    rfl
  · rw [← l2]
    unfold P.decLevel
    split <;> rfl

/-! ## The norm determines what the printer asks about the shape -/

mutual
theorem Stmt.startsLp_norm : ∀ s : Stmt, s.norm.startsLp = s.startsWithLparen
  | .mk _ _ _ _ c => by
    simp only [Stmt.norm, NStmt.startsLp, Stmt.startsWithLparen]
    exact Cmd.startsLp_norm c
theorem Cmd.startsLp_norm : ∀ c : Cmd, c.norm.startsLp = c.startsWithLparen
  | .call _ => rfl
  | .subshell _ _ _ => rfl
  | .block _ _ _ => rfl
  | .binary _ _ x _ => by
    simp only [Cmd.norm, NCmd.startsLp, Cmd.startsWithLparen]
    exact Stmt.startsLp_norm x
end

mutual
theorem Stmt.endsRp_norm : ∀ s : Stmt, s.norm.endsRp = s.endsWithRparen
  | .mk _ _ _ bg c => by
    simp only [Stmt.norm, NStmt.endsRp, Stmt.endsWithRparen]
    rw [Cmd.endsRp_norm c]
theorem Cmd.endsRp_norm : ∀ c : Cmd, c.norm.endsRp = c.endsWithRparen
  | .call _ => rfl
  | .subshell _ _ _ => rfl
  | .block _ _ _ => rfl
  | .binary _ _ _ y => by
    simp only [Cmd.norm, NCmd.endsRp, Cmd.endsWithRparen]
    exact Stmt.endsRp_norm y
end

theorem Abs.lead_pad (a : Abs) : leadA a.pad = [] := by
  unfold Abs.pad
  split
  · simp [leadA]
  · rename_i h; exact leadA_of_ne h

theorem Abs.pad_sla {a : Abs} (h : SLa a) : SLa a.pad := by
  unfold Abs.pad
  split
  · exact ⟨h.sl, h.mn, h.must, h.first⟩
  · exact h

theorem binaryEnd_ff (q : P) : q.binaryEnd false false = q := by
  unfold P.binaryEnd
  simp

/-! ## The printer under SingleLine computes `sl` of the norm -/

mutual
theorem sl_stmt : ∀ (s : Stmt), s.norm.ok = true → ∀ (p : P), SLa p.abs →
    (p.stmt s).abs = p.abs.wrote (leadA p.abs ++ s.norm.sl) ∧ (p.stmt s).wroteSemi = s.norm.bg
  | .mk pos semi neg bg cmd, hok, p, h => by
    have hcok : cmd.norm.ok = true := by simpa [Stmt.norm, NStmt.ok] using hok
    unfold P.stmt
    have hpre := abs_stmtPre p neg
    have hsl1 : SLa (p.stmtPre neg).abs := by
      rw [hpre]
      split
      · exact Abs.wrote_sla h _
      · exact h
    have hc := sl_cmd cmd hcok (p.stmtPre neg) hsl1
    have hsl2 : SLa ((p.stmtPre neg).command cmd).abs := by rw [hc]; exact Abs.wrote_sla hsl1 _
    have hws2 : ((p.stmtPre neg).command cmd).abs.ws = .required := by rw [hc]; rfl
    obtain ⟨e1, e2⟩ := abs_stmtEnd _ hsl2 hws2 semi bg
    refine ⟨?_, by rw [e2]; simp [Stmt.norm, NStmt.bg]⟩
    rw [e1, hc, hpre]
    cases neg <;> cases bg <;>
      simp [Stmt.norm, NStmt.sl, Abs.wrote_wrote, Abs.lead_wrote, List.append_assoc]
theorem sl_cmd : ∀ (c : Cmd), c.norm.ok = true → ∀ (p : P), SLa p.abs →
    (p.command c).abs = p.abs.wrote (leadA p.abs ++ c.norm.sl)
  | .call args, hok, p, h => by
    simp only [Cmd.norm, NCmd.ok, Bool.and_eq_true, Bool.not_eq_true', List.isEmpty_eq_false_iff, List.all_eq_true,
      List.mem_map, forall_exists_index, and_imp, forall_apply_eq_imp_iff₂, ne_eq, List.map_eq_nil_iff] at hok
    obtain ⟨hane, hall⟩ := hok
    have hparts : ∀ w ∈ args, w.parts ≠ [] := by
      intro w hw
      have := hall w hw
      simp only [nwordOk, Bool.and_eq_true, Bool.not_eq_true', List.isEmpty_eq_false_iff] at this
      exact normParts_ne_nil this.1
    have hbytes : ∀ w ∈ args, wordBytes w.parts = nwordBytes w.norm := by
      intro w hw
      have := hall w hw
      simp only [nwordOk, Bool.and_eq_true] at this
      exact wordBytes_norm w.parts this.2
    cases args with
    | nil => exact absurd rfl hane
    | cons w rest =>
      obtain ⟨pos, hpos⟩ : ∃ pos, w.pos? = some pos := by
        unfold Word.pos?
        cases hp : w.parts with
        | nil => exact absurd hp (hparts w (by simp))
        | cons a r => exact ⟨a.pos, by simp⟩
      unfold P.command
      simp only [hpos]
      -- the state before the words
      obtain ⟨q, hq, hqa⟩ : ∃ q : P, q = (p.advanceLine pos.line).spacePad.incLevel.decLevel ∧ q.abs = p.abs.pad := by
        refine ⟨_, rfl, ?_⟩
        have h1 : (p.advanceLine pos.line).spacePad.abs = p.abs.pad := abs_spacePad_eq (p.advanceLine pos.line)
        have h2 := abs_incLevel (p.advanceLine pos.line).spacePad
        rw [abs_decLevel _ (p.advanceLine pos.line).spacePad.abs.incs (by rw [h2]), h2, h1]
      rw [← hq]
      have hslq : SLa q.abs := by rw [hqa]; exact Abs.pad_sla h
      have hj1 := abs_wordJoin q hslq [w] (fun x hx => by
        simp only [List.mem_singleton] at hx
        rw [hx]; exact hparts w (by simp)) (by simp)
      have hw1 : (q.wordJoin [w]).abs = p.abs.wrote (leadA p.abs ++ wordBytes w.parts) := by
        rw [hj1, hqa, Abs.lead_pad]
        simp [joinSp, Abs.pad_wrote]
      have hnormw : wordBytes w.parts = nwordBytes w.norm := hbytes w (by simp)
      cases rest with
      | nil =>
        simp only [List.isEmpty_nil, ↓reduceIte]
        rw [hw1, hnormw]
        simp [Cmd.norm, NCmd.sl, joinSp]
      | cons w2 rest2 =>
        simp only [List.isEmpty_cons, Bool.false_eq_true, ↓reduceIte]
        have hsl2 : SLa (q.wordJoin [w]).abs := by rw [hw1]; exact Abs.wrote_sla h _
        have hj2 := abs_wordJoin (q.wordJoin [w]) hsl2 (w2 :: rest2) (fun x hx => hparts x (by simp [hx])) (by simp)
        rw [hj2, hw1, Abs.lead_wrote, Abs.wrote_wrote]
        have hmap : (w2 :: rest2).map (fun w => wordBytes w.parts) = (w2 :: rest2).map (fun w => nwordBytes w.norm) :=
          List.map_congr_left (fun x hx => hbytes x (by simp [hx]))
        rw [hmap, hnormw]
        simp [Cmd.norm, NCmd.sl, joinSp, List.append_assoc, List.flatMap_cons, Function.comp_def, List.flatMap_map]
  | .binary opPos op x y, hok, p, h => by
    simp only [Cmd.norm, NCmd.ok, Bool.and_eq_true] at hok
    unfold P.command
    dsimp only
    have h1 : (p.advanceLine x.pos.line).spacePad.abs = p.abs.pad := abs_spacePad_eq (p.advanceLine x.pos.line)
    have hsl1 : SLa (p.advanceLine x.pos.line).spacePad.abs := by rw [h1]; exact Abs.pad_sla h
    obtain ⟨hx, _⟩ := sl_stmt x hok.1 _ hsl1
    have hx' : ((p.advanceLine x.pos.line).spacePad.stmt x).abs = p.abs.wrote (leadA p.abs ++ x.norm.sl) := by
      rw [hx, h1, Abs.lead_pad]
      simp [Abs.pad_wrote]
    have hsl2 : SLa ((p.advanceLine x.pos.line).spacePad.stmt x).abs := by rw [hx']; exact Abs.wrote_sla h _
    obtain ⟨hb, hb2⟩ := abs_binaryOp _ hsl2 opPos op y.pos.line y.isBinaryCmd
    have hsl3 : SLa (((p.advanceLine x.pos.line).spacePad.stmt x).binaryOp opPos op y.pos.line y.isBinaryCmd).1.abs := by
      rw [hb]; exact Abs.wrote_sla hsl2 _
    obtain ⟨hy, _⟩ := sl_stmt y hok.2 _ hsl3
    have e21 : (((p.advanceLine x.pos.line).spacePad.stmt x).binaryOp opPos op y.pos.line y.isBinaryCmd).2.1 = false := by
      rw [hb2]
    have e22 : (((p.advanceLine x.pos.line).spacePad.stmt x).binaryOp opPos op y.pos.line y.isBinaryCmd).2.2 = false := by
      rw [hb2]
    rw [e21, e22, binaryEnd_ff, hy, hb, hx']
    simp [Cmd.norm, NCmd.sl, Abs.wrote_wrote, Abs.lead_wrote, List.append_assoc]
  | .subshell lp rp ss, hok, p, h => by
    cases ss with
    | nil => simp [Cmd.norm, Stmts.norm, NCmd.ok] at hok
    | cons s rest =>
      simp only [Cmd.norm, Stmts.norm, NCmd.ok, NStmts.ok, Bool.true_and, Bool.and_eq_true] at hok
      obtain ⟨hsok, hrok⟩ := hok
      unfold P.command
      dsimp only
      have h1 : (p.advanceLine lp.line).spacePad.abs = p.abs.pad := abs_spacePad_eq (p.advanceLine lp.line)
      have hsl1 : SLa (p.advanceLine lp.line).spacePad.abs := by rw [h1]; exact Abs.pad_sla h
      have h2 := abs_subshellOpen _ hsl1 lp s rest
      obtain ⟨q1, hq1⟩ : ∃ q1, q1 = (p.advanceLine lp.line).spacePad.subshellOpen lp (.cons s rest) := ⟨_, rfl⟩
      rw [← hq1] at h2 ⊢
      have hws1 : q1.abs.ws ≠ .required := by
        rw [h2]
        show (if s.startsWithLparen = true then WS.written else WS.notRequired) ≠ .required
        split <;> simp
      have hsl2 : SLa q1.abs := by rw [h2]; exact ⟨hsl1.sl, hsl1.mn, hsl1.must, hsl1.first⟩
      -- the loop
      have hloop : ∀ q : P, q.abs = { q1.abs with incs := q1.abs.incs + 1 } →
          (q.stmtListLoop true (.cons s rest)).abs = q.abs.wrote ((Stmts.cons s rest).norm.sl) ∧
          (q.stmtListLoop true (.cons s rest)).wroteSemi = (Stmts.cons s rest).norm.lastBg false := by
        intro q hq
        have hslq : SLa q.abs := by rw [hq]; exact ⟨hsl2.sl, hsl2.mn, hsl2.must, hsl2.first⟩
        have hwsq : q.abs.ws ≠ .required := by rw [hq]; exact hws1
        have hunf : q.stmtListLoop true (.cons s rest) =
            P.stmtListLoop { ((q.stmtSep true s.pos.line).stmt s) with wantNewline := true } false rest := by
          rw [P.stmtListLoop]
        rw [hunf, stmtSep_true_sl q hslq]
        obtain ⟨hs, hsw⟩ := sl_stmt s hsok (q.advanceLine s.pos.line) hslq
        have hsl3 : SLa (({ ((q.advanceLine s.pos.line).stmt s) with wantNewline := true } : P)).abs := by
          show SLa ((q.advanceLine s.pos.line).stmt s).abs
          rw [hs]; exact Abs.wrote_sla hslq _
        obtain ⟨hl, hlw⟩ := sl_loop rest hrok ({ ((q.advanceLine s.pos.line).stmt s) with wantNewline := true } : P) hsl3
          (by show ((q.advanceLine s.pos.line).stmt s).abs.ws = .required; rw [hs]; rfl) rfl
        have habs : (({ ((q.advanceLine s.pos.line).stmt s) with wantNewline := true } : P)).abs =
            ((q.advanceLine s.pos.line).stmt s).abs := rfl
        have hwse : (({ ((q.advanceLine s.pos.line).stmt s) with wantNewline := true } : P)).wroteSemi = s.norm.bg := hsw
        constructor
        · rw [hl, habs, hs, hwse]
          have : (q.advanceLine s.pos.line).abs = q.abs := rfl
          rw [this, leadA_of_ne hwsq, Abs.wrote_wrote]
          simp [Stmts.norm, NStmts.sl]
        · rw [hlw, hwse]
          simp [Stmts.norm, NStmts.lastBg]
      obtain ⟨q, hqa, hn1, _⟩ := abs_nested q1 (.cons s rest) rp (fun q => q.stmtListLoop true (.cons s rest))
        (fun _ => (Stmts.cons s rest).norm.sl) (fun q hq => (hloop q hq).1)
      obtain ⟨q2, hq2⟩ : ∃ q2, q2 = q1.nestedStmtsWith (.cons s rest) rp (fun q => q.stmtListLoop true (.cons s rest)) := ⟨_, rfl⟩
      rw [← hq2] at hn1 ⊢
      have hsl4 : SLa q2.abs := by rw [hn1]; exact Abs.wrote_sla hsl2 _
      have h3 := abs_closingParenSpace q2 hsl4 (.cons s rest) lp.line rp.line
      have hsl5 : SLa (q2.closingParenSpace (.cons s rest) lp.line rp.line).abs := by
        rw [h3]; exact ⟨hsl4.sl, hsl4.mn, hsl4.must, hsl4.first⟩
      rw [abs_rightParen _ hsl5, h3, hn1, h2, h1]
      simp only [Abs.wrote, Abs.pad, leadA, Cmd.norm, Stmts.norm, NCmd.sl, Stmt.startsLp_norm]
      cases rest with
      | nil =>
        simp only [Stmts.norm, Stmt.endsRp_norm]
        cases p.abs.ws <;> cases s.startsWithLparen <;> cases s.endsWithRparen <;> simp [List.append_assoc]
      | cons s2 r2 =>
        simp only [Stmts.norm]
        cases p.abs.ws <;> cases s.startsWithLparen <;> simp [List.append_assoc]
  | .block lb rb ss, hok, p, h => by
    cases ss with
    | nil => simp [Cmd.norm, Stmts.norm, NCmd.ok] at hok
    | cons s rest =>
      simp only [Cmd.norm, Stmts.norm, NCmd.ok, NStmts.ok, Bool.true_and, Bool.and_eq_true] at hok
      obtain ⟨hsok, hrok⟩ := hok
      have h4 : p.o.minify = false := h.mn
      unfold P.command
      dsimp only
      have h1 : (p.advanceLine lb.line).spacePad.abs = p.abs.pad := abs_spacePad_eq (p.advanceLine lb.line)
      obtain ⟨q1, hq1, h2⟩ : ∃ q1 : P, q1 = { ((p.advanceLine lb.line).spacePad.tok [123]) with
          wroteSemi := true, wantSpace := .required,
          wantNewline := ((p.advanceLine lb.line).spacePad.tok [123]).wantNewline ||
            ((p.advanceLine lb.line).spacePad.tok [123]).o.funcNextLine } ∧
          q1.abs = p.abs.wrote (leadA p.abs ++ [123]) := by
        refine ⟨_, rfl, ?_⟩
        have : ({ ((p.advanceLine lb.line).spacePad.tok [123]) with
            wroteSemi := true, wantSpace := .required,
            wantNewline := ((p.advanceLine lb.line).spacePad.tok [123]).wantNewline ||
              ((p.advanceLine lb.line).spacePad.tok [123]).o.funcNextLine } : P).abs =
            (p.advanceLine lb.line).spacePad.abs.wrote [123] := by
          simp [P.abs, outB, P.tok, render_snoc, Piece.bytes, Abs.wrote]
        rw [this, h1, Abs.pad_wrote]
      rw [← hq1]
      have hsl2 : SLa q1.abs := by rw [h2]; exact Abs.wrote_sla h _
      have hloop : ∀ q : P, q.abs = { q1.abs with incs := q1.abs.incs + 1 } →
          (q.stmtListLoop true (.cons s rest)).abs = q.abs.wrote (32 :: (Stmts.cons s rest).norm.sl) ∧
          (q.stmtListLoop true (.cons s rest)).wroteSemi = (Stmts.cons s rest).norm.lastBg false := by
        intro q hq
        have hslq : SLa q.abs := by rw [hq]; exact ⟨hsl2.sl, hsl2.mn, hsl2.must, hsl2.first⟩
        have hwsq : q.abs.ws = .required := by rw [hq, h2]; rfl
        have hunf : q.stmtListLoop true (.cons s rest) =
            P.stmtListLoop { ((q.stmtSep true s.pos.line).stmt s) with wantNewline := true } false rest := by
          rw [P.stmtListLoop]
        rw [hunf, stmtSep_true_sl q hslq]
        obtain ⟨hs, hsw⟩ := sl_stmt s hsok (q.advanceLine s.pos.line) hslq
        have hsl3 : SLa (({ ((q.advanceLine s.pos.line).stmt s) with wantNewline := true } : P)).abs := by
          show SLa ((q.advanceLine s.pos.line).stmt s).abs
          rw [hs]; exact Abs.wrote_sla hslq _
        obtain ⟨hl, hlw⟩ := sl_loop rest hrok ({ ((q.advanceLine s.pos.line).stmt s) with wantNewline := true } : P) hsl3
          (by show ((q.advanceLine s.pos.line).stmt s).abs.ws = .required; rw [hs]; rfl) rfl
        have habs : (({ ((q.advanceLine s.pos.line).stmt s) with wantNewline := true } : P)).abs =
            ((q.advanceLine s.pos.line).stmt s).abs := rfl
        have hwse : (({ ((q.advanceLine s.pos.line).stmt s) with wantNewline := true } : P)).wroteSemi = s.norm.bg := hsw
        constructor
        · rw [hl, habs, hs, hwse]
          have : (q.advanceLine s.pos.line).abs = q.abs := rfl
          rw [this, leadA_of_req hwsq, Abs.wrote_wrote]
          simp [Stmts.norm, NStmts.sl]
        · rw [hlw, hwse]
          simp [Stmts.norm, NStmts.lastBg]
      obtain ⟨q, hqa, hn1, hn2⟩ := abs_nested q1 (.cons s rest) rb (fun q => q.stmtListLoop true (.cons s rest))
        (fun _ => 32 :: (Stmts.cons s rest).norm.sl) (fun q hq => (hloop q hq).1)
      have hn3 := (hloop q hqa).2
      obtain ⟨q2, hq2⟩ : ∃ q2, q2 = q1.nestedStmtsWith (.cons s rest) rb (fun q => q.stmtListLoop true (.cons s rest)) := ⟨_, rfl⟩
      rw [← hq2] at hn1 hn2 ⊢
      have hsl4 : SLa q2.abs := by rw [hn1]; exact Abs.wrote_sla hsl2 _
      have hmin2 : q2.o.minify = false := hsl4.mn
      simp only [hmin2, Bool.false_and, Bool.false_eq_true, ↓reduceIte]
      rw [abs_semiRsrv q2 hsl4 (by rw [hn1]; rfl), hn1, h2, hn2, hn3]
      simp only [Abs.wrote_wrote, Cmd.norm, Stmts.norm, NCmd.sl]
      by_cases hb : NStmts.lastBg false (NStmts.cons s.norm rest.norm) = true
      · simp [hb, List.append_assoc]
      · simp [hb, List.append_assoc]
theorem sl_loop : ∀ (ss : Stmts), ss.norm.ok = true → ∀ (p : P), SLa p.abs → p.abs.ws = .required → p.wantNewline = true →
    (p.stmtListLoop false ss).abs = p.abs.wrote (ss.norm.slFrom p.wroteSemi) ∧
      (p.stmtListLoop false ss).wroteSemi = ss.norm.lastBg p.wroteSemi
  | .nil, _, p, _, hws, _ => by
    unfold P.stmtListLoop
    simp [Stmts.norm, NStmts.slFrom, NStmts.lastBg, Abs.wrote_nil hws]
  | .cons s rest, hok, p, h, hws, hwn => by
    simp only [Stmts.norm, NStmts.ok, Bool.and_eq_true] at hok
    obtain ⟨hsok, hrok⟩ := hok
    have hunf : p.stmtListLoop false (.cons s rest) =
        P.stmtListLoop { ((p.stmtSep false s.pos.line).stmt s) with wantNewline := true } false rest := by
      rw [P.stmtListLoop]
    rw [hunf]
    have hsep := abs_stmtSep_false p h hws hwn s.pos.line
    have hsl1 : SLa (p.stmtSep false s.pos.line).abs := by rw [hsep]; exact Abs.wrote_sla h _
    obtain ⟨hs, hsw⟩ := sl_stmt s hsok (p.stmtSep false s.pos.line) hsl1
    have hsl3 : SLa (({ ((p.stmtSep false s.pos.line).stmt s) with wantNewline := true } : P)).abs := by
      show SLa ((p.stmtSep false s.pos.line).stmt s).abs
      rw [hs]; exact Abs.wrote_sla hsl1 _
    obtain ⟨hl, hlw⟩ := sl_loop rest hrok ({ ((p.stmtSep false s.pos.line).stmt s) with wantNewline := true } : P) hsl3
      (by show ((p.stmtSep false s.pos.line).stmt s).abs.ws = .required; rw [hs]; rfl) rfl
    have habs : (({ ((p.stmtSep false s.pos.line).stmt s) with wantNewline := true } : P)).abs =
        ((p.stmtSep false s.pos.line).stmt s).abs := rfl
    have hwse : (({ ((p.stmtSep false s.pos.line).stmt s) with wantNewline := true } : P)).wroteSemi = s.norm.bg := hsw
    constructor
    · rw [hl, habs, hs, hwse, hsep, Abs.lead_wrote, Abs.wrote_wrote, Abs.wrote_wrote]
      cases p.wroteSemi <;> simp [Stmts.norm, NStmts.slFrom]
    · rw [hlw, hwse]
      simp [Stmts.norm, NStmts.lastBg]
end

/-! ## The whole file -/

/-- what SingleLine writes for a non-empty file: a function of its norm only -/
def slFile (n : NStmts) : Bytes := n.sl ++ [10]

theorem printFile_singleLine (o : Opts) (hsl : o.singleLine = true) (hmn : o.minify = false) (f : File)
    (hok : f.norm.ok = true) (hne : f.stmts ≠ .nil) : printFile o f = .ok (slFile f.norm) := by
  obtain ⟨ss⟩ := f
  simp only at hne
  cases ss with
  | nil => exact absurd rfl hne
  | cons s rest =>
    simp only [File.norm, Stmts.norm, NStmts.ok, Bool.and_eq_true] at hok
    obtain ⟨hsok, hrok⟩ := hok
    have href : refuse o = false := by simp [refuse, hmn]
    unfold printFile
    simp only [href, Bool.false_eq_true, ↓reduceIte]
    -- the state in which the first statement is printed
    obtain ⟨q0, hq0, ha0⟩ : ∃ q0 : P, q0 = (P.init o).stmtSep true s.pos.line ∧
        q0.abs = ⟨[], .written, o, false, false, false, 0⟩ := by
      refine ⟨_, rfl, ?_⟩
      unfold P.stmtSep
      simp [P.init, hmn, P.newlines, P.advanceLine, P.abs, outB, render]
    have hsl0 : SLa q0.abs := by rw [ha0]; exact ⟨hsl, hmn, rfl, rfl⟩
    obtain ⟨hs, hsw⟩ := sl_stmt s hsok q0 hsl0
    have hsl3 : SLa (({ (q0.stmt s) with wantNewline := true } : P)).abs := by
      show SLa (q0.stmt s).abs
      rw [hs]; exact Abs.wrote_sla hsl0 _
    obtain ⟨hl, _⟩ := sl_loop rest hrok ({ (q0.stmt s) with wantNewline := true } : P) hsl3
      (by show (q0.stmt s).abs.ws = .required; rw [hs]; rfl) rfl
    have hunf : (P.init o).stmtListLoop true (.cons s rest) =
        P.stmtListLoop { (((P.init o).stmtSep true s.pos.line).stmt s) with wantNewline := true } false rest := by
      rw [P.stmtListLoop]
    obtain ⟨pf, hpf⟩ : ∃ pf, pf = (P.init o).stmtList (.cons s rest) := ⟨_, rfl⟩
    have hpfa : pf.abs = q0.abs.wrote ((NStmts.cons s.norm rest.norm).sl) := by
      rw [hpf]
      unfold P.stmtList
      rw [(abs_stmtListWith _ _ _).1, hunf, ← hq0, hl]
      have habs : (({ (q0.stmt s) with wantNewline := true } : P)).abs = (q0.stmt s).abs := rfl
      have hwse : (({ (q0.stmt s) with wantNewline := true } : P)).wroteSemi = s.norm.bg := hsw
      rw [habs, hs, hwse, Abs.wrote_wrote]
      have : leadA q0.abs = [] := by rw [ha0]; rfl
      rw [this]
      simp [NStmts.sl]
    rw [← hpf]
    have hpan : pf.panicked = false := by
      have := congrArg Abs.pan hpfa
      rw [ha0] at this
      exact this
    have hout : outB pf = (NStmts.cons s.norm rest.norm).sl := by
      have := congrArg Abs.out hpfa
      rw [ha0] at this
      have e : pf.abs.out = outB pf := rfl
      rw [e] at this
      simpa [Abs.wrote] using this
    unfold P.finish
    have hpan2 : (pf.newline 0).panicked = false := hpan
    rw [hpan2]
    simp only [Bool.false_eq_true, ↓reduceIte, Except.ok.injEq]
    have : render (pf.newline 0).out.reverse = outB pf ++ [10] := by
      show render (Piece.gap [10] :: pf.out).reverse = _
      simp [outB, render_snoc, Piece.bytes]
    rw [this, hout]
    rfl

end ShVerif.L4
