/-
  L4 printer under SingleLine: on fragment F0 the bytes written depend on the tree only through
  its norm (no position is consulted), and they are given by a simple recursive function on norm
  trees (`NStmts.sl`).  This is what makes a second formatting pass byte-identical (C02).

  The proof runs the model printer on an *abstraction* of its state (bytes written, `wantSpace`,
  options, `mustNewline`, `firstLine`, the panic flag, the depth of `levelIncs`); every printer
  segment is an equation between abstract states, so no-panic and balance come for free.
-/
import ShVerif.Proofs.L4
namespace ShVerif.L4

/-! ## The specification: SingleLine output of a norm tree -/

def NPart.bytes : NPart → Bytes
  | .lit v => v
  | .sgl v => 39 :: (v ++ [39])

def nwordBytes (n : List NPart) : Bytes := n.flatMap NPart.bytes

/-- words separated by one blank -/
def joinSp : List Bytes → Bytes
  | [] => []
  | w :: rest => w ++ rest.flatMap (fun x => 32 :: x)

mutual
def NStmt.startsLp : NStmt → Bool
  | .mk _ _ c => c.startsLp
def NCmd.startsLp : NCmd → Bool
  | .binary _ x _ => x.startsLp
  | .subshell _ => true
  | _ => false
end

mutual
def NStmt.endsRp : NStmt → Bool
  | .mk _ bg c => if bg then false else c.endsRp
def NCmd.endsRp : NCmd → Bool
  | .binary _ _ y => y.endsRp
  | .subshell _ => true
  | _ => false
end

def NStmt.bg : NStmt → Bool
  | .mk _ b _ => b

/-- whether the last statement of the list (or, for the empty list, the one before) ended in `&` -/
def NStmts.lastBg (prev : Bool) : NStmts → Bool
  | .nil => prev
  | .cons s r => r.lastBg s.bg

mutual
def NStmt.sl : NStmt → Bytes
  | .mk neg bg c => (if neg then ([33, 32] : Bytes) else []) ++ (c.sl ++ (if bg then ([32, 38] : Bytes) else []))
def NCmd.sl : NCmd → Bytes
  | .call args => joinSp (args.map nwordBytes)
  | .subshell ss =>
    40 :: ((match ss with
      | .cons s _ => if s.startsLp then ([32] : Bytes) else []
      | .nil => ([] : Bytes)) ++ (ss.sl ++ ((match ss with
      | .cons s .nil => if s.endsRp then ([32] : Bytes) else []
      | _ => ([] : Bytes)) ++ ([41] : Bytes))))
  | .block ss => 123 :: 32 :: (ss.sl ++ (if ss.lastBg false then ([32, 125] : Bytes) else [59, 32, 125]))
  | .binary op x y => x.sl ++ (32 :: (op.str ++ (32 :: y.sl)))
/-- a list: the first statement, then the others with their separators -/
def NStmts.sl : NStmts → Bytes
  | .nil => []
  | .cons s r => s.sl ++ r.slFrom s.bg
/-- the statements of a list that follow one that did (`prev`) or did not end in `&` -/
def NStmts.slFrom (prev : Bool) : NStmts → Bytes
  | .nil => []
  | .cons s r => (if prev then ([32] : Bytes) else [59, 32]) ++ (s.sl ++ r.slFrom s.bg)
end

/-- what the printer needs of a norm tree to run without panic and to write literals verbatim:
    non-empty words, calls and nested lists; no backslash in a literal -/
def NPart.plain : NPart → Bool
  | .lit v => v.all (· != 92)
  | .sgl _ => true

def nwordOk (n : List NPart) : Bool := !n.isEmpty && n.all NPart.plain

mutual
def NStmt.ok : NStmt → Bool
  | .mk _ _ c => c.ok
def NCmd.ok : NCmd → Bool
  | .call args => !args.isEmpty && args.all nwordOk
  | .subshell ss => (match ss with | .nil => false | _ => true) && ss.ok
  | .block ss => (match ss with | .nil => false | _ => true) && ss.ok
  | .binary _ x y => x.ok && y.ok
def NStmts.ok : NStmts → Bool
  | .nil => true
  | .cons s r => s.ok && r.ok
end

/-! ## Words: bytes from the norm -/

theorem trailingBackslashes_plain (v : Bytes) (h : v.all (· != 92) = true) : trailingBackslashes v = 0 := by
  unfold trailingBackslashes
  have : v.reverse.takeWhile (· == 92) = [] := by
    cases hr : v.reverse with
    | nil => rfl
    | cons b t =>
      have hb : b ∈ v := by
        have : b ∈ v.reverse := by rw [hr]; simp
        simpa using this
      have := List.all_eq_true.mp h b hb
      simp only [bne_iff_ne, ne_eq] at this
      have hbeq : (b == 92) = false := by simpa using this
      simp [List.takeWhile, hbeq]
  rw [this]; rfl

theorem wordBytes_norm : ∀ (parts : List WordPart), (normParts parts).all NPart.plain = true →
    wordBytes parts = nwordBytes (normParts parts)
  | [], _ => rfl
  | .sgl l r v :: rest, h => by
    have h2 : (normParts rest).all NPart.plain = true := by
      simp only [normParts, List.all_cons, Bool.and_eq_true] at h
      exact h.2
    have ih := wordBytes_norm rest h2
    show wordBytes (.sgl l r v :: rest) = nwordBytes (.sgl v :: normParts rest)
    simp only [wordBytes, nwordBytes, List.flatMap_cons, WordPart.bytes, NPart.bytes] at ih ⊢
    rw [ih]
  | .lit a e v :: rest, h => by
    have key : v.all (· != 92) = true ∧ (normParts rest).all NPart.plain = true ∧
        nwordBytes (normParts (.lit a e v :: rest)) = v ++ nwordBytes (normParts rest) := by
      simp only [normParts] at h ⊢
      split at h
      · rename_i v' r hr
        simp only [List.all_cons, NPart.plain, List.all_append, Bool.and_eq_true] at h
        refine ⟨h.1.1, ?_, ?_⟩
        · rw [hr]; simp [NPart.plain, h.1.2, h.2]
        · rw [hr]; simp [nwordBytes, NPart.bytes]
      · simp only [List.all_cons, NPart.plain, Bool.and_eq_true] at h
        exact ⟨h.1, h.2, by simp [nwordBytes, NPart.bytes]⟩
    obtain ⟨k1, k2, k3⟩ := key
    rw [k3, ← wordBytes_norm rest k2]
    simp [wordBytes, WordPart.bytes, trailingBackslashes_plain v k1]

theorem normParts_ne_nil {parts : List WordPart} (h : normParts parts ≠ []) : parts ≠ [] := by
  intro e; rw [e] at h; exact h rfl

/-! ## The abstract printer state -/

def outB (p : P) : Bytes := render p.out.reverse

structure Abs where
  out : Bytes
  ws : WS
  o : Opts
  must : Bool
  first : Bool
  pan : Bool
  incs : Nat

def P.abs (p : P) : Abs := ⟨outB p, p.wantSpace, p.o, p.mustNewline, p.firstLine, p.panicked, p.levelIncs.length⟩

/-- SingleLine, past the first line, nothing forced -/
structure SLa (a : Abs) : Prop where
  sl : a.o.singleLine = true
  mn : a.o.minify = false
  must : a.must = false
  first : a.first = false

def leadA (a : Abs) : Bytes := if a.ws = .required then [32] else []

/-- bytes appended, `wantSpace` required afterwards -/
def Abs.wrote (a : Abs) (bs : Bytes) : Abs := { a with out := a.out ++ bs, ws := .required }

theorem Abs.wrote_sla {a : Abs} (h : SLa a) (bs : Bytes) : SLa (a.wrote bs) := ⟨h.sl, h.mn, h.must, h.first⟩

theorem render_snoc (l : List Piece) (x : Piece) : render (l ++ [x]) = render l ++ x.bytes := by
  simp [render, List.flatMap_append]

theorem abs_tok (p : P) (b : Bytes) : (p.tok b).abs = { p.abs with out := p.abs.out ++ b } := by
  simp [P.abs, outB, P.tok, render_snoc, Piece.bytes]

theorem abs_gapw (p : P) (b : Bytes) : (p.gapw b).abs = { p.abs with out := p.abs.out ++ b } := by
  simp [P.abs, outB, P.gapw, render_snoc, Piece.bytes]

theorem abs_spacePad (p : P) : p.spacePad.abs =
    (if p.abs.ws = .required then { p.abs with out := p.abs.out ++ [32], ws := .written } else p.abs) := by
  unfold P.spacePad
  by_cases h : p.wantSpace = .required
  · have h' : p.abs.ws = .required := h
    rw [if_pos h, if_pos h']
    simp [P.abs, outB, P.gapw, render_snoc, Piece.bytes]
  · have h' : ¬ p.abs.ws = .required := h
    rw [if_neg h, if_neg h']

theorem abs_spacePad' (p : P) : p.spacePad.abs.out = p.abs.out ++ leadA p.abs ∧ p.spacePad.abs.ws ≠ .required ∧
    p.spacePad.abs.o = p.abs.o ∧ p.spacePad.abs.must = p.abs.must ∧ p.spacePad.abs.first = p.abs.first ∧
    p.spacePad.abs.pan = p.abs.pan ∧ p.spacePad.abs.incs = p.abs.incs := by
  rw [abs_spacePad]
  unfold leadA
  split
  · exact ⟨rfl, by simp, rfl, rfl, rfl, rfl, rfl⟩
  · rename_i h
    exact ⟨by simp, h, rfl, rfl, rfl, rfl, rfl⟩

theorem abs_incLevel (p : P) : p.incLevel.abs = { p.abs with incs := p.abs.incs + 1 } := by
  unfold P.incLevel
  split
  · simp [P.abs, outB]
  · split
    · rename_i rest heq
      simp [P.abs, outB, heq]
    · simp [P.abs, outB]

theorem abs_decLevel (p : P) (n : Nat) (h : p.abs.incs = n + 1) : p.decLevel.abs = { p.abs with incs := n } := by
  unfold P.decLevel
  have h' : p.levelIncs.length = n + 1 := h
  split
  · rename_i heq; simp [heq] at h'
  · rename_i inc rest heq
    simp only [heq, List.length_cons, Nat.add_right_cancel_iff] at h'
    simp [P.abs, outB, h']

theorem SLa.newlines {p : P} (h : SLa p.abs) (l : Nat) : p.newlines l = p := by
  have h1 : p.firstLine = false := h.first
  have h2 : p.mustNewline = false := h.must
  have h3 : p.o.singleLine = true := h.sl
  unfold P.newlines
  simp [h1, P.wantsNewline, h2, h3]

theorem SLa.wantsNewline {p : P} (h : SLa p.abs) (l : Nat) (e : Bool) : p.wantsNewline l e = false := by
  have h2 : p.mustNewline = false := h.must
  have h3 : p.o.singleLine = true := h.sl
  simp [P.wantsNewline, h2, h3]

/-! ## Words -/

theorem abs_wordPartsLoop : ∀ (wps : List WordPart) (q : P), (q.wordPartsLoop wps).abs = q.abs
  | [], q => rfl
  | wp :: rest, q => by
    unfold P.wordPartsLoop
    rw [abs_wordPartsLoop rest]
    cases wp <;> rfl

theorem abs_word (p : P) (h : SLa p.abs) (w : Word) (hne : w.parts ≠ []) :
    (p.word w).abs = { p.abs with out := p.abs.out ++ wordBytes w.parts, ws := .required } := by
  have h3 : p.o.singleLine = true := h.sl
  unfold P.word P.wordParts
  cases hp : w.parts with
  | nil => exact absurd hp hne
  | cons wp rest =>
    simp only [h3, Bool.not_true, Bool.false_and, Bool.false_eq_true, ↓reduceIte]
    have := abs_wordPartsLoop (wp :: rest) { p with out := .word (wp :: rest) :: p.out }
    simp only [P.abs, outB] at this ⊢
    simp only [Abs.mk.injEq] at this ⊢
    obtain ⟨t1, t2, t3, t4, t5, t6, t7⟩ := this
    refine ⟨?_, trivial, t3, t4, t5, t6, t7⟩
    rw [t1]
    simp [render_snoc, Piece.bytes]

/-- the bytes of a run of words after the first one -/
def moreWords (ws : List Word) : Bytes := ws.flatMap (fun w => 32 :: wordBytes w.parts)

theorem abs_wordJoinLoop : ∀ (ws : List Word) (p : P), SLa p.abs → (∀ w ∈ ws, w.parts ≠ []) →
    (p.wordJoinLoop false ws).2 = false ∧
    (ws ≠ [] → (p.wordJoinLoop false ws).1.abs =
      p.abs.wrote (leadA p.abs ++ joinSp (ws.map fun w => wordBytes w.parts))) ∧
    (ws = [] → (p.wordJoinLoop false ws).1 = p)
  | [], p, _, _ => by
    unfold P.wordJoinLoop
    exact ⟨rfl, fun h => absurd rfl h, fun _ => rfl⟩
  | w :: rest, p, h, hne => by
    have h3 : p.o.singleLine = true := h.sl
    have hw := hne w (by simp)
    obtain ⟨pos, hpos⟩ : ∃ pos, w.pos? = some pos := by
      unfold Word.pos?
      cases hp : w.parts with
      | nil => exact absurd hp hw
      | cons a r => exact ⟨a.pos, by simp⟩
    unfold P.wordJoinLoop
    rw [hpos]
    simp only [h3, Bool.not_true, Bool.and_false, Bool.false_eq_true, ↓reduceIte]
    obtain ⟨s1, s2, s3, s4, s5, s6, s7⟩ := abs_spacePad' p
    have hsl1 : SLa p.spacePad.abs := ⟨by rw [s3]; exact h.sl, by rw [s3]; exact h.mn, by rw [s4]; exact h.must,
      by rw [s5]; exact h.first⟩
    have hword := abs_word p.spacePad hsl1 w hw
    have hsl2 : SLa (p.spacePad.word w).abs := by
      rw [hword]
      exact ⟨hsl1.sl, hsl1.mn, hsl1.must, hsl1.first⟩
    obtain ⟨r1, r2, r3⟩ := abs_wordJoinLoop rest (p.spacePad.word w) hsl2 (fun x hx => hne x (by simp [hx]))
    refine ⟨r1, fun _ => ?_, fun e => by cases e⟩
    have hw1 : (p.spacePad.word w).abs = p.abs.wrote (leadA p.abs ++ wordBytes w.parts) := by
      rw [hword]
      simp only [Abs.wrote, Abs.mk.injEq]
      exact ⟨by rw [s1, List.append_assoc], trivial, s3, s4, s5, s6, s7⟩
    cases rest with
    | nil =>
      rw [r3 rfl, hw1]
      simp [joinSp]
    | cons w2 rest2 =>
      rw [r2 (by simp), hw1]
      simp [Abs.wrote, leadA, joinSp, List.append_assoc]

theorem abs_wordJoin (p : P) (h : SLa p.abs) (ws : List Word) (hne : ∀ w ∈ ws, w.parts ≠ []) (hws : ws ≠ []) :
    (p.wordJoin ws).abs = p.abs.wrote (leadA p.abs ++ joinSp (ws.map fun w => wordBytes w.parts)) := by
  obtain ⟨r1, r2, _⟩ := abs_wordJoinLoop ws p h hne
  unfold P.wordJoin
  split
  rename_i q any heq
  have e1 : (p.wordJoinLoop false ws).1 = q := by rw [heq]
  have e2 : (p.wordJoinLoop false ws).2 = any := by rw [heq]
  rw [← e2, r1]
  simp only [Bool.false_eq_true, ↓reduceIte]
  rw [← e1]
  exact r2 hws

end ShVerif.L4
